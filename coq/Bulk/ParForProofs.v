(** C17 - proofs about the model of mtbb::parallel_for. *)
From Coq Require Import ZArith List Bool Lia.
From MT Require Import Bulk.RangeLib Bulk.ParForModel.
Import ListNotations.
Local Open Scope Z_scope.

(** * index-based recursion *)
Lemma pf_aux_S : forall f first a b step,
  pf_aux (S f) first a b step =
  if b - a <=? 0 then PDone []
  else if b - a =? 1 then PDone [first + a * step]
  else match pf_aux f first a (a + Z.quot (b - a) 2) step,
             pf_aux f first (a + Z.quot (b - a) 2) b step with
       | PDone l, PDone r => PDone (l ++ r)
       | _, _ => POutOfFuel
       end.
Proof. reflexivity. Qed.

Lemma pf_aux_prefix_S : forall f first a b step,
  pf_aux_prefix (S f) first a b step =
  if b - a =? 1 then PDone [first + a * step]
  else match pf_aux_prefix f first a (a + Z.quot (b - a) 2) step,
             pf_aux_prefix f first (a + Z.quot (b - a) 2) b step with
       | PDone l, PDone r => PDone (l ++ r)
       | _, _ => POutOfFuel
       end.
Proof. reflexivity. Qed.

Definition at_index (first step i : Z) : Z := first + i * step.

Lemma pf_aux_spec : forall f first a b step, b - a <= 2 ^ Z.of_nat f ->
  pf_aux (S f) first a b step = PDone (map (at_index first step) (zrange a b)).
Proof.
  induction f as [|f IH]; intros first a b step Hsz.
  - cbn in Hsz. rewrite pf_aux_S. destruct (b - a <=? 0) eqn:E0.
    + apply Z.leb_le in E0. rewrite zrange_empty by lia. reflexivity.
    + apply Z.leb_gt in E0. replace (b - a =? 1) with true by (symmetry; apply Z.eqb_eq; lia).
      replace b with (a + 1) by lia. rewrite zrange_single. reflexivity.
  - rewrite pf_aux_S. destruct (b - a <=? 0) eqn:E0.
    + apply Z.leb_le in E0. rewrite zrange_empty by lia. reflexivity.
    + apply Z.leb_gt in E0. destruct (b - a =? 1) eqn:E1.
      * apply Z.eqb_eq in E1. replace b with (a + 1) by lia. rewrite zrange_single. reflexivity.
      * apply Z.eqb_neq in E1.
        pose proof (quot_half_bounds (b - a) ltac:(lia)) as [Hq0 Hq].
        rewrite pow2_succ in Hsz.
        rewrite (IH first a (a + Z.quot (b - a) 2) step) by lia.
        rewrite (IH first (a + Z.quot (b - a) 2) b step) by lia.
        rewrite (zrange_split a (a + Z.quot (b - a) 2) b) by lia.
        rewrite map_app. reflexivity.
Qed.

(** the code before the repair: an empty or reversed range never reaches a base case *)
Lemma pf_aux_prefix_nonpos_diverges : forall fuel first a b step, b <= a ->
  pf_aux_prefix fuel first a b step = POutOfFuel.
Proof.
  induction fuel as [|f IH]; intros first a b step H; [reflexivity|].
  rewrite pf_aux_prefix_S. replace (b - a =? 1) with false by (symmetry; apply Z.eqb_neq; lia).
  assert (Hc : a + Z.quot (b - a) 2 <= a).
  { assert (Z.quot (b - a) 2 <= Z.quot 0 2) by (apply Z.quot_le_mono; lia).
    rewrite Z.quot_0_l in H0 by lia. lia. }
  rewrite (IH first a (a + Z.quot (b - a) 2) step Hc). reflexivity.
Qed.

Lemma pf_aux_prefix_empty : forall fuel first a step, pf_aux_prefix fuel first a a step = POutOfFuel.
Proof. intros. apply pf_aux_prefix_nonpos_diverges. lia. Qed.

(** on non-empty ranges the repaired and the old code agree *)
Lemma pf_aux_prefix_agrees : forall fuel first a b step, a < b ->
  pf_aux_prefix fuel first a b step = pf_aux fuel first a b step.
Proof.
  induction fuel as [|f IH]; intros first a b step H; [reflexivity|].
  rewrite pf_aux_prefix_S, pf_aux_S.
  replace (b - a <=? 0) with false by (symmetry; apply Z.leb_gt; lia).
  destruct (b - a =? 1) eqn:E1; [reflexivity|]. apply Z.eqb_neq in E1.
  pose proof (quot_half_bounds (b - a) ltac:(lia)) as [Hq0 Hq].
  rewrite !IH by lia. reflexivity.
Qed.

(** * the iteration count of the (first, last, step) front end *)
Lemma quot_neg_nonpos : forall m s, m < 0 -> 0 < s -> Z.quot m s <= 0.
Proof.
  intros m s Hm Hs. replace m with (- (- m)) by lia. rewrite Z.quot_opp_l by lia.
  pose proof (Z.quot_pos (- m) s ltac:(lia) Hs). lia.
Qed.

Lemma count3_bounds : forall first last step, 1 <= step ->
  let n := count3 first last step in
  (first < last -> 0 < n /\ (n - 1) * step < last - first <= n * step) /\
  (last <= first -> n <= 0).
Proof.
  intros first last step Hs n. unfold count3 in n. split.
  - intros Hlt. assert (H0 : 0 <= last - first + step - 1) by lia.
    subst n. rewrite Z.quot_div_nonneg by lia.
    pose proof (Z.div_mod (last - first + step - 1) step ltac:(lia)) as Hdm.
    pose proof (Z.mod_pos_bound (last - first + step - 1) step ltac:(lia)) as Hmb.
    set (q := (last - first + step - 1) / step) in *.
    set (r := (last - first + step - 1) mod step) in *.
    split; [nia|]. split; nia.
  - intros Hge. subst n.
    destruct (Z_lt_le_dec (last - first + step - 1) 0) as [Hneg|Hpos].
    + apply quot_neg_nonpos; lia.
    + rewrite Z.quot_div_nonneg by lia.
      assert (last - first + step - 1 < step) by lia.
      rewrite Z.div_small by lia. lia.
Qed.

Lemma count3_index : forall first last step, 1 <= step ->
  forall i, 0 <= i -> (i < count3 first last step <-> first + i * step < last).
Proof.
  intros first last step Hs i Hi.
  destruct (count3_bounds first last step Hs) as [Hlt Hge].
  destruct (Z_lt_le_dec first last) as [H|H].
  - destruct (Hlt H) as [Hn [Hlo Hhi]]. split; intros Hx; nia.
  - specialize (Hge H). split; intros Hx; nia.
Qed.

Lemma in_range_spec : forall bits x,
  in_range bits x = true <-> - 2 ^ (bits - 1) <= x <= 2 ^ (bits - 1) - 1.
Proof.
  intros bits x. unfold in_range. rewrite andb_true_iff, !Z.leb_le. tauto.
Qed.

Definition pf3_result (first last step : Z) (calls : list Z) : Prop :=
  let n := count3 first last step in
  calls = map (at_index first step) (zrange 0 n) /\
  (forall i, 0 <= i -> (i < n <-> first + i * step < last)) /\
  (last <= first -> calls = []) /\
  Forall (fun v => first <= v < last) calls /\
  NoDup calls.

Lemma at_index_inj : forall first step, 1 <= step -> forall i j, at_index first step i = at_index first step j -> i = j.
Proof. intros first step Hs i j H. unfold at_index in H. nia. Qed.

Lemma pf3_spec : forall f first last step, 1 <= step -> count3 first last step <= 2 ^ Z.of_nat f ->
  exists calls, pf3 (S f) first last step = PDone calls /\ pf3_result first last step calls.
Proof.
  intros f first last step Hs Hf. unfold pf3. rewrite pf_aux_spec by lia.
  eexists. split; [reflexivity|]. unfold pf3_result. cbn zeta.
  pose proof (count3_index first last step Hs) as Hidx.
  split; [reflexivity|]. split; [exact Hidx|]. split.
  - intros Hle. destruct (count3_bounds first last step Hs) as [_ Hge].
    rewrite zrange_empty by (specialize (Hge Hle); lia). reflexivity.
  - split.
    + apply Forall_forall. intros v Hv. apply in_map_iff in Hv. destruct Hv as [i [Hi Hin]].
      apply in_zrange in Hin. unfold at_index in Hi. subst v.
      pose proof (proj1 (Hidx i ltac:(lia)) ltac:(lia)). nia.
    + apply FinFun.Injective_map_NoDup.
      * intros i j. apply at_index_inj. exact Hs.
      * apply zrange_NoDup.
Qed.

(** under the representability guard the count fits the index type, so
    [bits] levels of recursion always suffice *)
Lemma pf3_guard_count : forall bits first last step, 1 <= bits ->
  pf3_guard bits first last step = true ->
  1 <= step /\ count3 first last step <= 2 ^ (bits - 1).
Proof.
  intros bits first last step Hb G. unfold pf3_guard in G.
  repeat (apply andb_prop in G; destruct G as [G ?]).
  rewrite in_range_spec in *. apply Z.leb_le in H2.
  split; [exact H2|].
  destruct (count3_bounds first last step H2) as [Hlt Hge].
  assert (0 < 2 ^ (bits - 1)) by (apply Z.pow_pos_nonneg; lia).
  destruct (Z_lt_le_dec first last) as [Hc|Hc].
  - destruct (Hlt Hc) as [Hn [Hlo Hhi]]. nia.
  - specialize (Hge Hc). lia.
Qed.

Lemma pf3_guarded : forall bits f first last step, 1 <= bits -> bits - 1 <= Z.of_nat f ->
  pf3_guard bits first last step = true ->
  exists calls, pf3 (S f) first last step = PDone calls /\ pf3_result first last step calls.
Proof.
  intros bits f first last step Hb Hf G.
  destruct (pf3_guard_count bits first last step Hb G) as [Hs Hn].
  apply pf3_spec; [exact Hs|].
  assert (2 ^ (bits - 1) <= 2 ^ Z.of_nat f) by (apply Z.pow_le_mono_r; lia). lia.
Qed.

Lemma pf2_spec : forall f first last, last - first <= 2 ^ Z.of_nat f ->
  pf2 (S f) first last = PDone (zrange first last).
Proof.
  intros f first last Hf. unfold pf2. rewrite pf_aux_spec by lia. f_equal.
  unfold zrange. rewrite map_map. replace (last - first - 0) with (last - first) by lia.
  apply map_ext. intros k. unfold at_index. lia.
Qed.

Lemma pf2_guarded : forall bits f first last, 1 <= bits -> bits - 1 <= Z.of_nat f ->
  pf2_guard bits first last = true -> pf2 (S f) first last = PDone (zrange first last).
Proof.
  intros bits f first last Hb Hf G. apply pf2_spec.
  unfold pf2_guard in G. repeat (apply andb_prop in G; destruct G as [G ?]).
  rewrite in_range_spec in *.
  assert (2 ^ (bits - 1) <= 2 ^ Z.of_nat f) by (apply Z.pow_le_mono_r; lia). lia.
Qed.

(** * grain-size variant: the leaf ranges form a chain from [a] to [b] *)
Fixpoint chain (a b : Z) (l : list (Z * Z)) : Prop :=
  match l with
  | [] => a = b
  | (x, y) :: r => x = a /\ a < y /\ chain y b r
  end.

Lemma chain_app : forall l1 l2 a c b, chain a c l1 -> chain c b l2 -> chain a b (l1 ++ l2).
Proof.
  induction l1 as [|[x y] l1 IH]; intros l2 a c b H1 H2.
  - cbn in H1. subst c. exact H2.
  - cbn [app chain] in *. destruct H1 as [Hx [Hy Hr]]. repeat split; try assumption.
    eapply IH; eassumption.
Qed.

Lemma chain_le : forall l a b, chain a b l -> a <= b.
Proof.
  induction l as [|[x y] l IH]; intros a b H.
  - cbn in H. lia.
  - cbn in H. destruct H as [_ [Hy Hr]]. apply IH in Hr. lia.
Qed.

(** a chain covers every index of [a, b) exactly once, in order *)
Lemma chain_cover : forall l a b, chain a b l ->
  flat_map (fun p => zrange (fst p) (snd p)) l = zrange a b.
Proof.
  induction l as [|[x y] l IH]; intros a b H.
  - cbn in H. subst b. rewrite zrange_empty by lia. reflexivity.
  - cbn [chain] in H. destruct H as [Hx [Hy Hr]]. subst x. cbn [flat_map fst snd].
    pose proof (chain_le _ _ _ Hr). rewrite (IH _ _ Hr).
    symmetry. apply zrange_split; lia.
Qed.

Lemma pg_aux_S : forall f first a b step grain,
  pg_aux (S f) first a b step grain =
  if (b - a <=? grain) || (b - a <=? 1) then GDone [((a, b), (first + a * step, first + b * step))]
  else match pg_aux f first a (a + Z.quot (b - a) 2) step grain,
             pg_aux f first (a + Z.quot (b - a) 2) b step grain with
       | GDone l, GDone r => GDone (l ++ r)
       | _, _ => GOutOfFuel
       end.
Proof. reflexivity. Qed.

Lemma pg_aux_prefix_S : forall f first a b step grain,
  pg_aux_prefix (S f) first a b step grain =
  if b - a <=? grain then GDone [((a, b), (first + a * step, first + b * step))]
  else match pg_aux_prefix f first a (a + Z.quot (b - a) 2) step grain,
             pg_aux_prefix f first (a + Z.quot (b - a) 2) b step grain with
       | GDone l, GDone r => GDone (l ++ r)
       | _, _ => GOutOfFuel
       end.
Proof. reflexivity. Qed.

(** a leaf has at most [max grain 1] indices: a grain size below one acts as one *)
Definition gleaf_ok (first step grain : Z) (x : (Z * Z) * (Z * Z)) : Prop :=
  let '((a, b), (lo, hi)) := x in
  b - a <= Z.max grain 1 /\ lo = first + a * step /\ hi = first + b * step.

Lemma pg_aux_spec : forall f first a b step grain, a < b -> b - a <= 2 ^ Z.of_nat f ->
  exists l, pg_aux (S f) first a b step grain = GDone l /\
            chain a b (map fst l) /\ Forall (gleaf_ok first step grain) l.
Proof.
  induction f as [|f IH]; intros first a b step grain Hab Hsz.
  - cbn in Hsz. rewrite pg_aux_S.
    replace (b - a <=? 1) with true by (symmetry; apply Z.leb_le; lia). rewrite orb_true_r.
    eexists. split; [reflexivity|]. split.
    + cbn. repeat split; lia.
    + constructor; [|constructor]. cbn. repeat split; lia.
  - rewrite pg_aux_S. destruct ((b - a <=? grain) || (b - a <=? 1)) eqn:E.
    + apply orb_true_iff in E. rewrite !Z.leb_le in E.
      eexists. split; [reflexivity|]. split.
      * cbn. repeat split; lia.
      * constructor; [|constructor]. cbn. repeat split; lia.
    + apply orb_false_iff in E. destruct E as [E0 E1]. apply Z.leb_gt in E0. apply Z.leb_gt in E1.
      pose proof (quot_half_bounds (b - a) ltac:(lia)) as [Hq0 Hq].
      rewrite pow2_succ in Hsz.
      destruct (IH first a (a + Z.quot (b - a) 2) step grain ltac:(lia) ltac:(lia)) as [l1 [E1' [C1 F1]]].
      destruct (IH first (a + Z.quot (b - a) 2) b step grain ltac:(lia) ltac:(lia)) as [l2 [E2' [C2 F2]]].
      rewrite E1', E2'. exists (l1 ++ l2). split; [reflexivity|]. split.
      * rewrite map_app. eapply chain_app; eassumption.
      * apply Forall_app. split; assumption.
Qed.

(** an empty or reversed index range is passed to the body as it is, once *)
Lemma pg_aux_nonpos : forall f first a b step grain, b <= a ->
  pg_aux (S f) first a b step grain = GDone [((a, b), (first + a * step, first + b * step))].
Proof.
  intros f first a b step grain Hab. rewrite pg_aux_S.
  replace (b - a <=? 1) with true by (symmetry; apply Z.leb_le; lia). rewrite orb_true_r. reflexivity.
Qed.

(** the code before the repair: with a grain size below 1 a one-element range is split forever *)
Lemma pg_aux_prefix_grain0_diverges : forall fuel first a step grain, grain <= 0 ->
  pg_aux_prefix fuel first a (a + 1) step grain = GOutOfFuel.
Proof.
  induction fuel as [|f IH]; intros first a step grain Hg; [reflexivity|].
  rewrite pg_aux_prefix_S. replace (a + 1 - a <=? grain) with false by (symmetry; apply Z.leb_gt; lia).
  replace (a + 1 - a) with 1 by lia. change (Z.quot 1 2) with 0. rewrite Z.add_0_r.
  rewrite (IH first a step grain Hg).
  destruct (pg_aux_prefix f first a a step grain); reflexivity.
Qed.

(** for grain sizes inside TBB's contract the repaired and the old code agree *)
Lemma pg_aux_prefix_agrees : forall fuel first a b step grain, 1 <= grain ->
  pg_aux_prefix fuel first a b step grain = pg_aux fuel first a b step grain.
Proof.
  induction fuel as [|f IH]; intros first a b step grain Hg; [reflexivity|].
  rewrite pg_aux_prefix_S, pg_aux_S.
  destruct (b - a <=? grain) eqn:E0; [reflexivity|].
  apply Z.leb_gt in E0. replace (b - a <=? 1) with false by (symmetry; apply Z.leb_gt; lia).
  cbn [orb]. rewrite !IH by exact Hg. reflexivity.
Qed.

Definition pg_result (first last step grain : Z) (l : list ((Z * Z) * (Z * Z))) : Prop :=
  let n := count3 first last step in
  Forall (gleaf_ok first step grain) l /\
  (0 < n -> chain 0 n (map fst l) /\
            flat_map (fun p => zrange (fst p) (snd p)) (map fst l) = zrange 0 n) /\
  (n <= 0 -> map fst l = [(0, n)]).

Lemma pf_grain_spec : forall f first last step grain, 1 <= step ->
  count3 first last step <= 2 ^ Z.of_nat f ->
  exists l, pf_grain (S f) first last step grain = GDone l /\ pg_result first last step grain l.
Proof.
  intros f first last step grain Hs Hf. unfold pf_grain, pg_result. cbn zeta.
  destruct (Z_lt_le_dec 0 (count3 first last step)) as [Hn|Hn].
  - destruct (pg_aux_spec f first 0 (count3 first last step) step grain Hn ltac:(lia)) as [l [E [C F]]].
    exists l. split; [exact E|]. split; [exact F|]. split.
    + intros _. split; [exact C|apply chain_cover; exact C].
    + intros H. lia.
  - rewrite pg_aux_nonpos by lia. eexists. split; [reflexivity|]. split.
    + constructor; [|constructor]. cbn. repeat split; lia.
    + split; [intros H; lia|]. intros _. reflexivity.
Qed.

Lemma pf_grain_guarded : forall bits f first last step grain, 1 <= bits -> bits - 1 <= Z.of_nat f ->
  pg_guard bits first last step grain = true ->
  exists l, pf_grain (S f) first last step grain = GDone l /\ pg_result first last step grain l.
Proof.
  intros bits f first last step grain Hb Hf G. unfold pg_guard in G.
  apply andb_prop in G; destruct G as [G _]. apply andb_prop in G; destruct G as [G _].
  apply andb_prop in G; destruct G as [G _].
  destruct (pf3_guard_count bits first last step Hb G) as [Hs Hn].
  apply pf_grain_spec; [exact Hs|].
  assert (2 ^ (bits - 1) <= 2 ^ Z.of_nat f) by (apply Z.pow_le_mono_r; lia). lia.
Qed.

(** * range-based variant *)
Lemma pr_aux_S : forall f a b grain,
  pr_aux (S f) a b grain =
  if negb (a <? b) then RDone []
  else if negb (grain <? b - a) then RDone [(a, b)]
  else match pr_aux f a (a + Z.quot (b - a) 2) grain, pr_aux f (a + Z.quot (b - a) 2) b grain with
       | RDone l, RDone r => RDone (l ++ r)
       | _, _ => ROutOfFuel
       end.
Proof. reflexivity. Qed.

Lemma pr_aux_empty : forall f a b grain, b <= a -> pr_aux (S f) a b grain = RDone [].
Proof.
  intros f a b grain H. rewrite pr_aux_S.
  replace (a <? b) with false by (symmetry; apply Z.ltb_ge; lia). reflexivity.
Qed.

Lemma pr_aux_spec : forall f a b grain, 1 <= grain -> a < b -> b - a <= 2 ^ Z.of_nat f ->
  exists l, pr_aux (S f) a b grain = RDone l /\ chain a b l /\
            Forall (fun p => snd p - fst p <= grain) l.
Proof.
  induction f as [|f IH]; intros a b grain Hg Hab Hsz.
  - cbn in Hsz. rewrite pr_aux_S.
    replace (a <? b) with true by (symmetry; apply Z.ltb_lt; lia).
    replace (grain <? b - a) with false by (symmetry; apply Z.ltb_ge; lia). cbn [negb].
    eexists. split; [reflexivity|]. split.
    + cbn. repeat split; lia.
    + constructor; [cbn; lia|constructor].
  - rewrite pr_aux_S. replace (a <? b) with true by (symmetry; apply Z.ltb_lt; lia). cbn [negb].
    destruct (grain <? b - a) eqn:E; cbn [negb].
    + apply Z.ltb_lt in E.
      pose proof (quot_half_bounds (b - a) ltac:(lia)) as [Hq0 Hq].
      rewrite pow2_succ in Hsz.
      destruct (IH a (a + Z.quot (b - a) 2) grain Hg ltac:(lia) ltac:(lia)) as [l1 [E1 [C1 F1]]].
      destruct (IH (a + Z.quot (b - a) 2) b grain Hg ltac:(lia) ltac:(lia)) as [l2 [E2 [C2 F2]]].
      rewrite E1, E2. exists (l1 ++ l2). split; [reflexivity|]. split.
      * eapply chain_app; eassumption.
      * apply Forall_app. split; assumption.
    + apply Z.ltb_ge in E. eexists. split; [reflexivity|]. split.
      * cbn. repeat split; lia.
      * constructor; [cbn; lia|constructor].
Qed.

Definition pr_result (a b grain : Z) (l : list (Z * Z)) : Prop :=
  Forall (fun p => snd p - fst p <= grain) l /\
  (a < b -> chain a b l /\ flat_map (fun p => zrange (fst p) (snd p)) l = zrange a b) /\
  (b <= a -> l = []).

Lemma pr_guarded : forall bits f a b grain, 1 <= bits -> bits - 1 <= Z.of_nat f ->
  pr_guard bits a b grain = true ->
  exists l, pr_aux (S f) a b grain = RDone l /\ pr_result a b grain l.
Proof.
  intros bits f a b grain Hb Hf G. unfold pr_guard in G.
  repeat (apply andb_prop in G; destruct G as [G ?]).
  rewrite in_range_spec in *. apply Z.leb_le in H0.
  assert (2 ^ (bits - 1) <= 2 ^ Z.of_nat f) by (apply Z.pow_le_mono_r; lia).
  unfold pr_result.
  destruct (Z_lt_le_dec a b) as [Hab|Hab].
  - destruct (pr_aux_spec f a b grain H0 Hab ltac:(lia)) as [l [E [C F]]].
    exists l. split; [exact E|]. split; [exact F|]. split.
    + intros _. split; [exact C|apply chain_cover; exact C].
    + intros Hx. lia.
  - rewrite pr_aux_empty by lia. exists []. split; [reflexivity|]. split; [constructor|].
    split; [intros Hx; lia|reflexivity].
Qed.
