(** C17 - model of mtbb::task_group (task_group_no_prof) of src/mtbb/task_group.h:
    the chunked list of outstanding tasks ([task_list], [task_list_node] with
    an inline array of [TASK_GROUP_INIT_SZ] pointers), the bump allocator the
    task objects are placed in ([task_memory_allocator], chunks of
    [TASK_MEMORY_CHUNK_SZ] bytes, a larger chunk for a larger object), and
    [run] / [wait].

    Both linked structures are kept newest node first (the C code keeps a
    [tail] pointer; the head of our list is that tail).  A chunk is identified
    by its position in creation order (0 = the chunk embedded in the
    task_group), an address inside it by its byte offset from [chunk->a]. *)
From Coq Require Import ZArith List Bool.
Import ListNotations.
Local Open Scope Z_scope.

(** * task_list *)
Definition task_list := list (list nat).          (* nodes newest first; tasks in a node newest first *)

Definition tl_init : task_list := [[]].           (* head->init(); tail = head *)

(** [if (tail->n == tail->capacity) new_node(); tail->a[tail->n] = t; tail->n++] *)
Definition tl_add (cap : Z) (t : nat) (tl : task_list) : task_list :=
  match tl with
  | [] => [[t]]
  | nd :: rest => if Z.of_nat (length nd) =? cap then [t] :: nd :: rest else (t :: nd) :: rest
  end.

(** the order in which [wait] walks the list: head node first, index 0 first *)
Definition tl_order (tl : task_list) : list nat := rev (concat tl).

(** * task_memory_allocator *)
Record chunk := mkchunk { c_size : Z; c_p : Z }.  (* end - a, p - a *)
Definition mem := list chunk.                     (* newest first *)

Definition mem_init (csz : Z) : mem := [mkchunk csz 0].

(** [alloc(s)]: result = new allocator state and (chunk number, offset);
    [None] = one of the two [assert]s of [alloc] fails *)
Definition alloc (csz s : Z) (m : mem) : option (mem * (nat * Z)) :=
  match m with
  | [] => None
  | tl :: rest =>
    if c_p tl + s >? c_size tl then
      (* new_chunk(s): init(s) rounds a small request up to the chunk size *)
      let sz := if s <=? csz then csz else s in
      (* assert(tail->p == p) holds by construction; assert(tail->p + s <= tail->end) *)
      if 0 + s <=? sz then Some (mkchunk sz (0 + s) :: m, (length m, 0)) else None
    else
      Some (mkchunk (c_size tl) (c_p tl + s) :: rest, (length rest, c_p tl))
  end.

(** * task_group *)
Record tg := mktg { tasks : task_list; tmem : mem; next : nat }.

(** [next] numbers the task objects / user-level threads ever created by this group *)
Definition tg_init (csz : Z) : tg := mktg tl_init (mem_init csz) 0.

Inductive ev :=
| ECreate (t : nat) (ch : nat) (off size : Z)   (* task t placed at (ch, off), thread created *)
| EJoin (t : nat)
| EWaited.                                        (* wait returns *)

(** [run(c)]: alloc(sizeof(callable_task<C>)), placement new, tasks.add, myth_create *)
Definition run (cap csz s : Z) (st : tg) : option (tg * list ev) :=
  match alloc csz s (tmem st) with
  | None => None
  | Some (m', (ch, off)) =>
    Some (mktg (tl_add cap (next st) (tasks st)) m' (S (next st)), [ECreate (next st) ch off s])
  end.

(** [wait()]: join every listed task, tasks.reset(), mem.reset() *)
Definition wait (csz : Z) (st : tg) : tg * list ev :=
  (mktg tl_init (mem_init csz) (next st), map EJoin (tl_order (tasks st)) ++ [EWaited]).

Inductive op := Run (s : Z) | Wait.

Fixpoint exec (cap csz : Z) (ops : list op) (st : tg) : option (tg * list ev) :=
  match ops with
  | [] => Some (st, [])
  | Run s :: r =>
    match run cap csz s st with
    | None => None
    | Some (st', e) =>
      match exec cap csz r st' with
      | None => None
      | Some (st'', e') => Some (st'', e ++ e')
      end
    end
  | Wait :: r =>
    let '(st', e) := wait csz st in
    match exec cap csz r st' with
    | None => None
    | Some (st'', e') => Some (st'', e ++ e')
    end
  end.

(** shape of the two lists as the harness reads it back: tasks per node and
    (size, allocation offset) per chunk, both in creation order *)
Definition tl_shape (tl : task_list) : list Z := rev (map (fun nd => Z.of_nat (length nd)) tl).
Definition mem_shape (m : mem) : list (Z * Z) := rev (map (fun c => (c_size c, c_p c)) m).
