(** C17 - proofs about the model of myth_create_join_various_ex / _many_ex. *)
From Coq Require Import ZArith List Bool Lia Permutation.
From MT Require Import Bulk.RangeLib Bulk.VariousModel.
Import ListNotations.
Local Open Scope Z_scope.

(** * the sequential loop, spelled out independently of [leaf_at] *)
Definition seq_item (g : cfg) (i : Z) : leaf :=
  {| l_i := i;
     l_func := funcs g + i * func_stride g;
     l_arg := args g + i * arg_stride g;
     l_res := if results g =? 0 then None else Some (results g + i * result_stride g);
     l_id := if ids g =? 0 then None else Some (ids g + i * id_stride g) |}.

Definition seq_loop (g : cfg) (n : Z) : list leaf := map (seq_item g) (zrange 0 n).

(** the slots the sequential loop stores to *)
Definition seq_writes (g : cfg) (n : Z) : list Z :=
  flat_map (fun i => (if results g =? 0 then [] else [results g + i * result_stride g]) ++
                     (if ids g =? 0 then [] else [ids g + i * id_stride g])) (zrange 0 n).

Lemma leaf_at_seq_item : forall g i, leaf_at g i = seq_item g i.
Proof. reflexivity. Qed.

(** * list projections *)
Lemma leaves_app : forall l r, leaves (l ++ r) = leaves l ++ leaves r.
Proof.
  induction l as [|x l IH]; intros r; [reflexivity|].
  destruct x; cbn [app leaves]; rewrite IH; reflexivity.
Qed.

Lemma creates_app : forall l r, creates (l ++ r) = creates l ++ creates r.
Proof.
  induction l as [|x l IH]; intros r; [reflexivity|].
  destruct x; cbn [app creates]; rewrite IH; reflexivity.
Qed.

Lemma leaf_threads_app : forall l r, leaf_threads (l ++ r) = leaf_threads l ++ leaf_threads r.
Proof.
  induction l as [|x l IH]; intros r; [reflexivity|].
  destruct x; cbn [app leaf_threads]; rewrite IH; reflexivity.
Qed.

Lemma thr_eqb_refl : forall t, thr_eqb t t = true.
Proof. intros [[a c]|]; cbn; [rewrite !Z.eqb_refl|]; reflexivity. Qed.

(** * inversion of one unfolding *)
Lemma aux_S : forall f g t a b,
  aux (S f) g t a b =
  if b - a =? 1 then Done [ALeaf (leaf_at g a) t]
  else match aux f g (Some (a, Z.quot (a + b) 2)) a (Z.quot (a + b) 2),
             aux f g t (Z.quot (a + b) 2) b with
       | Done l, Done r =>
         Done (ACreate a (Z.quot (a + b) 2) (slot (attrs g) (attr_stride g) a) t
                 :: l ++ r ++ [AJoin a (Z.quot (a + b) 2) t])
       | _, _ => OutOfFuel
       end.
Proof. reflexivity. Qed.

Lemma aux_inv : forall f g t a b l, aux (S f) g t a b = Done l ->
  (b - a = 1 /\ l = [ALeaf (leaf_at g a) t]) \/
  (b - a <> 1 /\ exists l1 l2,
     let c := Z.quot (a + b) 2 in
     aux f g (Some (a, c)) a c = Done l1 /\ aux f g t c b = Done l2 /\
     l = ACreate a c (slot (attrs g) (attr_stride g) a) t :: l1 ++ l2 ++ [AJoin a c t]).
Proof.
  intros f g t a b l H. rewrite aux_S in H.
  destruct (b - a =? 1) eqn:E.
  - left. apply Z.eqb_eq in E. inversion H. auto.
  - right. apply Z.eqb_neq in E. split; [exact E|].
    destruct (aux f g (Some (a, Z.quot (a + b) 2)) a (Z.quot (a + b) 2)) as [l1|] eqn:E1; [|discriminate].
    destruct (aux f g t (Z.quot (a + b) 2) b) as [l2|] eqn:E2; [|discriminate].
    exists l1, l2. cbn zeta. inversion H. auto.
Qed.

(** a completed recursion was over a non-empty range *)
Lemma aux_done_pos : forall fuel g t a b l, aux fuel g t a b = Done l -> a < b.
Proof.
  induction fuel as [|f IH]; intros g t a b l H; [discriminate|].
  apply aux_inv in H. destruct H as [[H1 _]|[_ [l1 [l2 [H1 [H2 _]]]]]].
  - lia.
  - apply IH in H1. apply IH in H2. lia.
Qed.

(** * the leaves, in program order, are the sequential loop *)
Lemma aux_leaves : forall fuel g t a b l, aux fuel g t a b = Done l ->
  leaves l = map (seq_item g) (zrange a b).
Proof.
  induction fuel as [|f IH]; intros g t a b l H; [discriminate|].
  apply aux_inv in H. destruct H as [[H1 Hl]|[_ [l1 [l2 [H1 [H2 Hl]]]]]].
  - subst l. replace b with (a + 1) by lia. rewrite zrange_single. reflexivity.
  - cbn zeta in *. subst l. cbn [leaves]. rewrite !leaves_app. cbn [leaves]. rewrite app_nil_r.
    pose proof (aux_done_pos _ _ _ _ _ _ H1). pose proof (aux_done_pos _ _ _ _ _ _ H2).
    rewrite (zrange_split a (Z.quot (a + b) 2) b) by lia.
    rewrite map_app, (IH _ _ _ _ _ H1), (IH _ _ _ _ _ H2). reflexivity.
Qed.

(** * fork/join discipline *)
Lemma aux_fj : forall fuel g t a b l, aux fuel g t a b = Done l ->
  forall st rest, fj st (l ++ rest) = fj st rest.
Proof.
  induction fuel as [|f IH]; intros g t a b l H st rest; [discriminate|].
  apply aux_inv in H. destruct H as [[H1 Hl]|[_ [l1 [l2 [H1 [H2 Hl]]]]]].
  - subst l. reflexivity.
  - cbn zeta in *. subst l. cbn [app fj].
    rewrite <- !app_assoc. rewrite (IH _ _ _ _ _ H1). rewrite (IH _ _ _ _ _ H2).
    cbn [app fj]. rewrite !Z.eqb_refl, thr_eqb_refl. reflexivity.
Qed.

(** * creations: one per split, with the attribute slot of the first item of the child's range *)
Definition create_ok (g : cfg) (a b : Z) (x : Z * Z * option Z) : Prop :=
  let '(a', c', at_) := x in
  a <= a' /\ a' < c' /\ c' < b /\
  at_ = (if attrs g =? 0 then None else Some (attrs g + a' * attr_stride g)).

Lemma create_ok_widen : forall g a b a0 b0 x, a0 <= a -> b <= b0 ->
  create_ok g a b x -> create_ok g a0 b0 x.
Proof. intros g a b a0 b0 [[a' c'] at_] Ha Hb H. unfold create_ok in *. intuition lia. Qed.

Lemma aux_creates : forall fuel g t a b l, aux fuel g t a b = Done l ->
  length (creates l) = Z.to_nat (b - a - 1) /\ Forall (create_ok g a b) (creates l).
Proof.
  induction fuel as [|f IH]; intros g t a b l H; [discriminate|].
  apply aux_inv in H. destruct H as [[H1 Hl]|[Hne [l1 [l2 [H1 [H2 Hl]]]]]].
  - subst l. cbn [creates length]. split; [lia|constructor].
  - cbn zeta in *. subst l. cbn [creates]. rewrite !creates_app. cbn [creates]. rewrite app_nil_r.
    pose proof (aux_done_pos _ _ _ _ _ _ H1) as P1. pose proof (aux_done_pos _ _ _ _ _ _ H2) as P2.
    destruct (IH _ _ _ _ _ H1) as [L1 F1]. destruct (IH _ _ _ _ _ H2) as [L2 F2].
    split.
    + cbn [length]. rewrite app_length, L1, L2. lia.
    + constructor.
      * unfold create_ok. repeat split; try lia.
      * apply Forall_app. split.
        -- eapply Forall_impl; [|exact F1]. intros x. apply create_ok_widen; lia.
        -- eapply Forall_impl; [|exact F2]. intros x. apply create_ok_widen; lia.
Qed.

(** * which thread runs which leaf *)
Definition leaf_thread_ok (t : thr) (a b : Z) (cr : list (Z * Z * option Z)) (x : Z * thr) : Prop :=
  let '(i, u) := x in
  a <= i < b /\
  (u = t \/ exists a' c' at_, u = Some (a', c') /\ In (a', c', at_) cr /\ a' <= i < c').

Lemma aux_leaf_threads : forall fuel g t a b l, aux fuel g t a b = Done l ->
  Forall (leaf_thread_ok t a b (creates l)) (leaf_threads l).
Proof.
  induction fuel as [|f IH]; intros g t a b l H; [discriminate|].
  apply aux_inv in H. destruct H as [[H1 Hl]|[Hne [l1 [l2 [H1 [H2 Hl]]]]]].
  - subst l. cbn [leaf_threads creates]. constructor; [|constructor].
    cbn. split; [lia|]. left. reflexivity.
  - cbn zeta in *. subst l. cbn [leaf_threads creates].
    rewrite !leaf_threads_app, !creates_app. cbn [leaf_threads creates]. rewrite !app_nil_r.
    pose proof (aux_done_pos _ _ _ _ _ _ H1) as P1. pose proof (aux_done_pos _ _ _ _ _ _ H2) as P2.
    apply Forall_app. split.
    + eapply Forall_impl; [|exact (IH _ _ _ _ _ H1)].
      intros [i u] [Hr Hu]. split; [lia|]. right. destruct Hu as [Hu|[a' [c' [at_ [Hu [Hin Hr']]]]]].
      * exists a, (Z.quot (a + b) 2), (slot (attrs g) (attr_stride g) a).
        split; [exact Hu|]. split; [left; reflexivity|lia].
      * exists a', c', at_. split; [exact Hu|]. split; [|exact Hr'].
        right. apply in_or_app. left. exact Hin.
    + eapply Forall_impl; [|exact (IH _ _ _ _ _ H2)].
      intros [i u] [Hr Hu]. split; [lia|]. destruct Hu as [Hu|[a' [c' [at_ [Hu [Hin Hr']]]]]].
      * left. exact Hu.
      * right. exists a', c', at_. split; [exact Hu|]. split; [|exact Hr'].
        right. apply in_or_app. right. exact Hin.
Qed.

(** only the last item is run by the thread that entered the recursion *)
Definition last_in_caller (t : thr) (b : Z) (x : Z * thr) : Prop :=
  let '(i, u) := x in
  (i = b - 1 /\ u = t) \/ (i < b - 1 /\ exists a' c', u = Some (a', c') /\ a' <= i < c').

Lemma aux_last_in_caller : forall fuel g t a b l, aux fuel g t a b = Done l ->
  Forall (last_in_caller t b) (leaf_threads l).
Proof.
  induction fuel as [|f IH]; intros g t a b l H; [discriminate|].
  apply aux_inv in H. destruct H as [[H1 Hl]|[Hne [l1 [l2 [H1 [H2 Hl]]]]]].
  - subst l. cbn [leaf_threads]. constructor; [|constructor]. cbn. left. split; [lia|reflexivity].
  - cbn zeta in *. subst l. cbn [leaf_threads].
    rewrite !leaf_threads_app. cbn [leaf_threads]. rewrite !app_nil_r.
    pose proof (aux_done_pos _ _ _ _ _ _ H1) as P1. pose proof (aux_done_pos _ _ _ _ _ _ H2) as P2.
    apply Forall_app. split.
    + pose proof (aux_leaf_threads _ _ _ _ _ _ H1) as LT.
      pose proof (IH _ _ _ _ _ H1) as L1.
      rewrite Forall_forall in *. intros [i u] Hin.
      specialize (LT _ Hin). specialize (L1 _ Hin). cbn in LT, L1. cbn.
      right. destruct LT as [Hr _]. split; [lia|].
      destruct L1 as [[Hi Hu]|[Hi Hu]].
      * exists a, (Z.quot (a + b) 2). split; [exact Hu|lia].
      * exact Hu.
    + exact (IH _ _ _ _ _ H2).
Qed.

(** * termination with an explicit fuel bound: depth at most log2 of the range *)
Lemma aux_terminates : forall f g t a b, 0 <= a -> a < b -> b - a <= 2 ^ Z.of_nat f ->
  exists l, aux (S f) g t a b = Done l.
Proof.
  induction f as [|f IH]; intros g t a b Ha Hab Hsz.
  - cbn in Hsz. rewrite aux_S. replace (b - a =? 1) with true by (symmetry; apply Z.eqb_eq; lia).
    eexists. reflexivity.
  - rewrite aux_S. destruct (b - a =? 1) eqn:E; [eexists; reflexivity|].
    apply Z.eqb_neq in E.
    pose proof (quot_half_bounds (a + b) ltac:(lia)) as [Hq0 Hq].
    rewrite pow2_succ in Hsz. pose proof (pow2_pos f).
    destruct (IH g (Some (a, Z.quot (a + b) 2)) a (Z.quot (a + b) 2)) as [l1 E1]; try lia.
    destruct (IH g t (Z.quot (a + b) 2) b) as [l2 E2]; try lia.
    rewrite E1, E2. eexists. reflexivity.
Qed.

(** a range that is empty or reversed never reaches the base case [b - a == 1] *)
Lemma aux_nonpos_diverges : forall fuel g t a b, b <= a -> aux fuel g t a b = OutOfFuel.
Proof.
  induction fuel as [|f IH]; intros g t a b H; [reflexivity|].
  rewrite aux_S. replace (b - a =? 1) with false by (symmetry; apply Z.eqb_neq; lia).
  assert (Hc : Z.quot (a + b) 2 <= a).
  { replace a with (Z.quot (2 * a) 2) at 2 by (rewrite Z.mul_comm; apply Z.quot_mul; lia).
    apply Z.quot_le_mono; lia. }
  rewrite (IH g (Some (a, Z.quot (a + b) 2)) a (Z.quot (a + b) 2) Hc). reflexivity.
Qed.

(** * the public entry points *)
Lemma flat_map_map : forall (A B C : Type) (f : B -> list C) (h : A -> B) l,
  flat_map f (map h l) = flat_map (fun x => f (h x)) l.
Proof. intros A B C f h l. induction l as [|x l IH]; [reflexivity|]. cbn. rewrite IH. reflexivity. Qed.

Lemma writes_of_leaves : forall g n l, leaves l = seq_loop g n -> writes l = seq_writes g n.
Proof.
  intros g n l H. unfold writes, seq_writes. rewrite H. unfold seq_loop. rewrite flat_map_map.
  apply flat_map_ext. intros i. unfold leaf_writes, seq_item. cbn.
  destruct (results g =? 0); destruct (ids g =? 0); reflexivity.
Qed.

Definition various_ok (g : cfg) (n : Z) (l : list act) : Prop :=
  leaves l = seq_loop g n /\
  writes l = seq_writes g n /\
  fj [] l = Some [] /\
  length (creates l) = Z.to_nat (n - 1) /\
  Forall (create_ok g 0 n) (creates l) /\
  Forall (leaf_thread_ok None 0 n (creates l)) (leaf_threads l) /\
  Forall (last_in_caller None n) (leaf_threads l).

Lemma various_zero : forall fuel g, various fuel g 0 = Done [].
Proof. reflexivity. Qed.

Lemma various_spec : forall g n fuel, 0 <= n -> n <= 2 ^ (Z.of_nat fuel - 1) ->
  exists l, various fuel g n = Done l /\ various_ok g n l.
Proof.
  intros g n fuel Hn Hf. unfold various. destruct (n =? 0) eqn:E.
  - apply Z.eqb_eq in E. subst n. exists []. split; [reflexivity|].
    unfold various_ok, seq_loop, seq_writes. rewrite zrange_empty by lia. cbn.
    repeat split; constructor.
  - apply Z.eqb_neq in E.
    destruct fuel as [|f].
    { cbn in Hf. lia. }
    replace (Z.of_nat (S f) - 1) with (Z.of_nat f) in Hf by lia.
    destruct (aux_terminates f g None 0 n ltac:(lia) ltac:(lia) ltac:(lia)) as [l Hl].
    exists l. split; [exact Hl|].
    assert (HL : leaves l = seq_loop g n) by (apply (aux_leaves _ _ _ _ _ _ Hl)).
    destruct (aux_creates _ _ _ _ _ _ Hl) as [C1 C2].
    unfold various_ok. repeat split.
    + exact HL.
    + apply writes_of_leaves. exact HL.
    + pose proof (aux_fj _ _ _ _ _ _ Hl [] []) as F. rewrite app_nil_r in F. exact F.
    + rewrite C1. f_equal. lia.
    + exact C2.
    + exact (aux_leaf_threads _ _ _ _ _ _ Hl).
    + exact (aux_last_in_caller _ _ _ _ _ _ Hl).
Qed.

(** 64 levels are enough for every [long] *)
Lemma various_fuel_64 : forall g n, 0 <= n < 2 ^ 63 -> exists l, various 64 g n = Done l /\ various_ok g n l.
Proof. intros g n H. apply various_spec; [lia|]. change (Z.of_nat 64 - 1) with 63. lia. Qed.

Lemma various_negative_diverges : forall fuel g n, n < 0 -> various fuel g n = OutOfFuel.
Proof.
  intros fuel g n H. unfold various. replace (n =? 0) with false by (symmetry; apply Z.eqb_neq; lia).
  apply aux_nonpos_diverges. lia.
Qed.

(** consequences of [leaves l = seq_loop g n] *)
Lemma seq_loop_indices : forall g n, map l_i (seq_loop g n) = zrange 0 n.
Proof.
  intros g n. unfold seq_loop. rewrite map_map. cbn. apply map_id.
Qed.

Lemma various_each_once : forall g n l, leaves l = seq_loop g n ->
  forall i, count_occ Z.eq_dec (map l_i (leaves l)) i = if (0 <=? i) && (i <? n) then 1%nat else 0%nat.
Proof. intros g n l H i. rewrite H, seq_loop_indices. apply count_occ_zrange. Qed.

Lemma various_permutation : forall g n l, leaves l = seq_loop g n ->
  forall sched, Permutation sched (leaves l) -> Permutation sched (seq_loop g n).
Proof. intros g n l H sched P. rewrite <- H. exact P. Qed.

Lemma various_null_no_writes : forall g n, results g = 0 -> ids g = 0 -> seq_writes g n = [].
Proof.
  intros g n Hr Hi. unfold seq_writes. rewrite Hr, Hi. cbn.
  induction (zrange 0 n) as [|x l IH]; [reflexivity|exact IH].
Qed.

(** many = various with function stride 0: every leaf reads the same function slot *)
Lemma many_spec : forall ids_ attrs_ fslot args_ results_ ids_s attrs_s args_s results_s n fuel,
  0 <= n -> n <= 2 ^ (Z.of_nat fuel - 1) ->
  let g := mkcfg ids_ attrs_ fslot args_ results_ ids_s attrs_s 0 args_s results_s in
  exists l, many fuel ids_ attrs_ fslot args_ results_ ids_s attrs_s args_s results_s n = Done l /\
            various_ok g n l /\ Forall (fun x => l_func x = fslot) (leaves l).
Proof.
  intros ids_ attrs_ fslot args_ results_ ids_s attrs_s args_s results_s n fuel Hn Hf g.
  unfold many. fold g. destruct (various_spec g n fuel Hn Hf) as [l [Hl Hok]].
  exists l. split; [exact Hl|]. split; [exact Hok|].
  destruct Hok as [HL _]. rewrite HL. unfold seq_loop. apply Forall_forall.
  intros x Hin. apply in_map_iff in Hin. destruct Hin as [i [Hi _]]. subst x. cbn. lia.
Qed.
