(** C17 - model of myth_create_join_various_ex / myth_create_join_many_ex.

    Source: src/myth_sched_func.h  myth_create_join_various_ex_aux,
    myth_create_join_various_ex_body, myth_create_join_many_ex_body;
    include/myth/myth.h (signatures; all strides are in bytes).

    Addresses are integers ([0] = NULL); [base + i * stride] is computed in Z
    (no 64-bit wrap: the arrays of a real call lie inside the address space).
    The recursion over [a,b) is unfolded depth first (the order in which a
    single worker with the work-first policy executes it); every action
    carries the user-level thread that performs it, so the list is also the
    fork/join structure: [ACreate a c] starts the thread [Some (a,c)] that
    runs the recursion over [a,c), the creator continues with [c,b) and then
    performs [AJoin a c].  Any real execution is an interleaving of the
    per-thread subsequences of this list that respects create/join. *)
From Coq Require Import ZArith List Bool.
Import ListNotations.
Local Open Scope Z_scope.

Record cfg := mkcfg {
  ids : Z; attrs : Z; funcs : Z; args : Z; results : Z;
  id_stride : Z; attr_stride : Z; func_stride : Z; arg_stride : Z; result_stride : Z }.

(** [meta_arg->x ? (char * )meta_arg->x + a * x_stride : 0] *)
Definition slot (base stride i : Z) : option Z :=
  if base =? 0 then None else Some (base + i * stride).

(** [None]: the thread that called the bulk function; [Some (a,c)]: the thread
    created for the sub-range [a,c) *)
Definition thr := option (Z * Z).

(** one application [f_i(args + i*arg_stride)]: index, address of the function
    slot read, argument passed, slot the return value is stored to, slot
    [myth_self()] is stored to *)
Record leaf := mkleaf { l_i : Z; l_func : Z; l_arg : Z; l_res : option Z; l_id : option Z }.

Inductive act :=
| ALeaf (l : leaf) (t : thr)
| ACreate (a c : Z) (attr : option Z) (t : thr)
| AJoin (a c : Z) (t : thr).

Inductive outcome := Done (l : list act) | OutOfFuel.

Definition leaf_at (g : cfg) (i : Z) : leaf :=
  mkleaf i (funcs g + i * func_stride g) (args g + i * arg_stride g)
         (slot (results g) (result_stride g) i) (slot (ids g) (id_stride g) i).

(** myth_create_join_various_ex_aux; [long c = (a + b) / 2] truncates toward zero *)
Fixpoint aux (fuel : nat) (g : cfg) (t : thr) (a b : Z) : outcome :=
  match fuel with
  | O => OutOfFuel
  | S f =>
    if b - a =? 1 then Done [ALeaf (leaf_at g a) t]
    else
      let c := Z.quot (a + b) 2 in
      match aux f g (Some (a, c)) a c, aux f g t c b with
      | Done l, Done r =>
        Done (ACreate a c (slot (attrs g) (attr_stride g) a) t :: l ++ r ++ [AJoin a c t])
      | _, _ => OutOfFuel
      end
  end.

(** myth_create_join_various_ex_body *)
Definition various (fuel : nat) (g : cfg) (n : Z) : outcome :=
  if n =? 0 then Done [] else aux fuel g None 0 n.

(** myth_create_join_many_ex_body: a one-element function array [fslot] on the
    caller's stack, function stride 0 *)
Definition many (fuel : nat) (ids_ attrs_ fslot args_ results_ ids_s attrs_s args_s results_s n : Z) : outcome :=
  various fuel (mkcfg ids_ attrs_ fslot args_ results_ ids_s attrs_s 0 args_s results_s) n.

(** projections used by the statements and by the correspondence driver *)
Fixpoint leaves (l : list act) : list leaf :=
  match l with
  | [] => []
  | ALeaf x _ :: r => x :: leaves r
  | _ :: r => leaves r
  end.

Definition opt_list (o : option Z) : list Z := match o with Some x => [x] | None => [] end.

(** addresses of the pointer-sized slots written by a leaf *)
Definition leaf_writes (x : leaf) : list Z := opt_list (l_res x) ++ opt_list (l_id x).

Definition writes (l : list act) : list Z := flat_map leaf_writes (leaves l).

Definition thr_eqb (t u : thr) : bool :=
  match t, u with
  | None, None => true
  | Some (a, c), Some (a', c') => (a =? a') && (c =? c')
  | _, _ => false
  end.

(** fork/join discipline: [st] = children created and not yet joined, most
    recent first, each with its creator; a join must name the most recent
    outstanding child and be performed by its creator *)
Fixpoint fj (st : list (Z * Z * thr)) (l : list act) : option (list (Z * Z * thr)) :=
  match l with
  | [] => Some st
  | ALeaf _ _ :: r => fj st r
  | ACreate a c _ t :: r => fj ((a, c, t) :: st) r
  | AJoin a c t :: r =>
    match st with
    | (a', c', t') :: st' =>
      if (a =? a') && (c =? c') && thr_eqb t t' then fj st' r else None
    | [] => None
    end
  end.

Fixpoint creates (l : list act) : list (Z * Z * option Z) :=
  match l with
  | [] => []
  | ACreate a c at_ _ :: r => (a, c, at_) :: creates r
  | _ :: r => creates r
  end.

(** leaves together with the thread that runs them *)
Fixpoint leaf_threads (l : list act) : list (Z * thr) :=
  match l with
  | [] => []
  | ALeaf x t :: r => (l_i x, t) :: leaf_threads r
  | _ :: r => leaf_threads r
  end.
