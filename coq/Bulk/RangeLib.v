(** Integer ranges [a, b) as lists, halving arithmetic, fuel bounds.
    Shared by the C17 proofs (specification side only; nothing here is extracted). *)
From Coq Require Import ZArith List Lia FinFun Bool.
Import ListNotations.
Local Open Scope Z_scope.

(** the indices of the sequential loop [for (i = a; i < b; i++)] *)
Definition zrange (a b : Z) : list Z :=
  map (fun k => a + Z.of_nat k) (seq 0 (Z.to_nat (b - a))).

Lemma zrange_empty : forall a b, b <= a -> zrange a b = [].
Proof.
  intros a b H. unfold zrange.
  replace (Z.to_nat (b - a)) with 0%nat by lia. reflexivity.
Qed.

Lemma zrange_length : forall a b, length (zrange a b) = Z.to_nat (b - a).
Proof. intros. unfold zrange. rewrite map_length, seq_length. reflexivity. Qed.

Lemma map_seq_shift : forall a (n m s : nat),
  map (fun k => a + Z.of_nat k) (seq (n + s) m) =
  map (fun k => a + Z.of_nat n + Z.of_nat k) (seq s m).
Proof.
  intros a n m. induction m as [|m IH]; intros s.
  - reflexivity.
  - cbn [seq map]. f_equal.
    + lia.
    + replace (S (n + s)) with (n + S s)%nat by lia. apply IH.
Qed.

Lemma zrange_split : forall a c b, a <= c -> c <= b -> zrange a b = zrange a c ++ zrange c b.
Proof.
  intros a c b Hac Hcb. unfold zrange.
  replace (Z.to_nat (b - a)) with (Z.to_nat (c - a) + Z.to_nat (b - c))%nat by lia.
  rewrite seq_app, map_app. f_equal.
  replace (0 + Z.to_nat (c - a))%nat with (Z.to_nat (c - a) + 0)%nat by lia.
  rewrite map_seq_shift. apply map_ext. intros k. lia.
Qed.

Lemma zrange_single : forall a, zrange a (a + 1) = [a].
Proof.
  intros a. unfold zrange. replace (Z.to_nat (a + 1 - a)) with 1%nat by lia.
  cbn. f_equal. lia.
Qed.

Lemma zrange_cons : forall a b, a < b -> zrange a b = a :: zrange (a + 1) b.
Proof.
  intros a b H. rewrite (zrange_split a (a + 1) b) by lia. rewrite zrange_single. reflexivity.
Qed.

Lemma in_zrange : forall a b x, In x (zrange a b) <-> a <= x < b.
Proof.
  intros a b x. unfold zrange. rewrite in_map_iff. split.
  - intros [k [Hk Hin]]. apply in_seq in Hin. lia.
  - intros H. exists (Z.to_nat (x - a)). split; [lia|]. apply in_seq. lia.
Qed.

Lemma zrange_NoDup : forall a b, NoDup (zrange a b).
Proof.
  intros a b. unfold zrange. apply Injective_map_NoDup.
  - intros x y H. lia.
  - apply seq_NoDup.
Qed.

Lemma count_occ_zrange : forall a b x,
  count_occ Z.eq_dec (zrange a b) x = if (a <=? x) && (x <? b) then 1%nat else 0%nat.
Proof.
  intros a b x. destruct ((a <=? x) && (x <? b))%bool eqn:E.
  - apply andb_prop in E. destruct E as [E1 E2].
    assert (Hin : In x (zrange a b)) by (apply in_zrange; lia).
    pose proof (proj1 (NoDup_count_occ Z.eq_dec (zrange a b)) (zrange_NoDup a b) x) as Hle.
    pose proof (proj1 (count_occ_In Z.eq_dec (zrange a b) x) Hin). lia.
  - apply count_occ_not_In. rewrite in_zrange.
    apply Bool.andb_false_iff in E. destruct E as [E|E]; lia.
Qed.

(** halving: both [long c = (a + b) / 2] (non-negative operands) and
    [c = a + (b - a) / 2] split a range of at least two elements into two
    non-empty halves of at most [2^k] elements when the whole has at most [2^(k+1)] *)
Lemma quot_half_bounds : forall m, 0 <= m -> 0 <= Z.quot m 2 /\ m - 1 <= 2 * Z.quot m 2 <= m.
Proof.
  intros m Hm. rewrite Z.quot_div_nonneg by lia.
  pose proof (Z.div_mod m 2 ltac:(lia)). pose proof (Z.mod_pos_bound m 2 ltac:(lia)). lia.
Qed.

Lemma pow2_succ : forall k : nat, 2 ^ Z.of_nat (S k) = 2 * 2 ^ Z.of_nat k.
Proof. intros k. rewrite Nat2Z.inj_succ, Z.pow_succ_r by lia. reflexivity. Qed.

Lemma pow2_pos : forall k : nat, 0 < 2 ^ Z.of_nat k.
Proof. intros k. apply Z.pow_pos_nonneg; lia. Qed.

Lemma pow2_ge_2 : forall k : nat, 2 <= 2 ^ Z.of_nat k -> exists k', k = S k'.
Proof.
  intros k H. destruct k as [|k'].
  - cbn in H. lia.
  - exists k'. reflexivity.
Qed.
