(** C17 - proofs about the model of mtbb::task_group. *)
From Coq Require Import ZArith List Bool Lia Arith.
From MT Require Import Bulk.TaskGroupModel.
Import ListNotations.
Local Open Scope Z_scope.

(** * the obviously right semantics: [wait] joins exactly the tasks run since the
      previous [wait], once each, in the order they were run *)
Inductive aev := AC (t : nat) | AJ (t : nat) | AW.

Definition abs (e : ev) : aev :=
  match e with ECreate t _ _ _ => AC t | EJoin t => AJ t | EWaited => AW end.

Fixpoint spec (ops : list op) (nxt : nat) (pend : list nat) : list aev :=
  match ops with
  | [] => []
  | Run _ :: r => AC nxt :: spec r (S nxt) (pend ++ [nxt])
  | Wait :: r => map AJ pend ++ AW :: spec r nxt []
  end.

(** * task list *)
Lemma tl_order_add : forall cap t tl, tl_order (tl_add cap t tl) = tl_order tl ++ [t].
Proof.
  intros cap t tl. unfold tl_order, tl_add. destruct tl as [|nd rest]; [reflexivity|].
  destruct (Z.of_nat (length nd) =? cap); cbn [concat app rev]; reflexivity.
Qed.

(** every node but the newest is full, the newest holds at most [cap] entries:
    the store [tail->a[tail->n]] is always inside the inline array *)
Definition tl_wf (cap : Z) (tl : task_list) : Prop :=
  match tl with
  | [] => False
  | nd :: rest => Z.of_nat (length nd) <= cap /\ Forall (fun x => Z.of_nat (length x) = cap) rest
  end.

Lemma tl_wf_init : forall cap, 0 <= cap -> tl_wf cap tl_init.
Proof. intros cap H. cbn. split; [lia|constructor]. Qed.

Lemma tl_wf_add : forall cap t tl, 1 <= cap -> tl_wf cap tl -> tl_wf cap (tl_add cap t tl).
Proof.
  intros cap t tl Hc H. destruct tl as [|nd rest]; [contradiction|].
  destruct H as [H1 H2]. unfold tl_add. destruct (Z.of_nat (length nd) =? cap) eqn:E.
  - apply Z.eqb_eq in E. cbn. split; [lia|]. constructor; assumption.
  - apply Z.eqb_neq in E. cbn [tl_wf length]. split; [lia|assumption].
Qed.

(** the index written by [add] is below the capacity *)
Lemma tl_add_index_in_bounds : forall cap t tl, 1 <= cap -> tl_wf cap tl ->
  match tl_add cap t tl with
  | nd :: _ => 1 <= Z.of_nat (length nd) <= cap /\ hd_error nd = Some t
  | [] => False
  end.
Proof.
  intros cap t tl Hc H. destruct tl as [|nd rest]; [contradiction|].
  destruct H as [H1 H2]. unfold tl_add. destruct (Z.of_nat (length nd) =? cap) eqn:E.
  - cbn. split; [lia|reflexivity].
  - apply Z.eqb_neq in E. cbn [length hd_error]. split; [lia|reflexivity].
Qed.

(** * allocator *)
Lemma alloc_some : forall csz s m, m <> [] -> exists m' ch off, alloc csz s m = Some (m', (ch, off)) /\ m' <> [].
Proof.
  intros csz s m H. destruct m as [|tl rest]; [contradiction|]. unfold alloc.
  destruct (c_p tl + s >? c_size tl).
  - destruct (s <=? csz) eqn:E.
    + rewrite Z.add_0_l. rewrite E. do 3 eexists. split; [reflexivity|discriminate].
    + rewrite Z.add_0_l. rewrite Z.leb_refl. do 3 eexists. split; [reflexivity|discriminate].
  - do 3 eexists. split; [reflexivity|discriminate].
Qed.

Definition region := (nat * Z * Z)%type.   (* chunk number, offset, size *)

Definition disjoint (r1 r2 : region) : Prop :=
  let '(c1, o1, s1) := r1 in let '(c2, o2, s2) := r2 in
  c1 <> c2 \/ o1 + s1 <= o2 \/ o2 + s2 <= o1.

Fixpoint chunk_at (m : mem) (ci : nat) : option chunk :=
  match m with
  | [] => None
  | ch :: rest => if Nat.eqb ci (length rest) then Some ch else chunk_at rest ci
  end.

Lemma chunk_at_lt : forall m ci ch, chunk_at m ci = Some ch -> (ci < length m)%nat.
Proof.
  induction m as [|c rest IH]; intros ci ch H; [discriminate|].
  cbn [chunk_at] in H. cbn [length]. destruct (Nat.eqb ci (length rest)) eqn:E.
  - apply Nat.eqb_eq in E. lia.
  - apply IH in H. lia.
Qed.

(** every region handed out lies below the allocation pointer of its chunk, which
    is within the chunk; regions are pairwise disjoint *)
Definition in_chunk (m : mem) (r : region) : Prop :=
  let '(ci, off, sz) := r in
  0 <= off /\ 0 <= sz /\ exists ch, chunk_at m ci = Some ch /\ off + sz <= c_p ch.

Definition mem_inv (m : mem) (rs : list region) : Prop :=
  m <> [] /\ Forall (fun c => 0 <= c_p c <= c_size c) m /\
  Forall (in_chunk m) rs /\ ForallOrdPairs disjoint rs.

Lemma mem_inv_init : forall csz, 0 <= csz -> mem_inv (mem_init csz) [].
Proof.
  intros csz H. unfold mem_inv, mem_init. repeat split.
  - discriminate.
  - constructor; [cbn; lia|constructor].
  - constructor.
  - constructor.
Qed.

Lemma alloc_inv : forall csz s m rs m' ch off, 0 <= s -> mem_inv m rs ->
  alloc csz s m = Some (m', (ch, off)) -> mem_inv m' ((ch, off, s) :: rs).
Proof.
  intros csz s m rs m' ch off Hs [Hne [Hch [Hin Hdis]]] H.
  destruct m as [|tl rest]; [contradiction|]. unfold alloc in H.
  inversion Hch as [|x xs Htl Hrest]; subst x xs.
  destruct (c_p tl + s >? c_size tl) eqn:E.
  - (* new chunk *)
    rewrite Z.add_0_l in H.
    destruct (s <=? (if s <=? csz then csz else s)) eqn:E2; [|discriminate].
    apply Z.leb_le in E2. inversion H; subst m' ch off; clear H.
    set (sz := if s <=? csz then csz else s) in *.
    assert (Hold : forall ci ch0, chunk_at (tl :: rest) ci = Some ch0 ->
                   chunk_at (mkchunk sz s :: tl :: rest) ci = Some ch0 /\ ci <> length (tl :: rest)).
    { intros ci ch0 Hc. pose proof (chunk_at_lt _ _ _ Hc) as Hlt.
      split; [|lia]. cbn [chunk_at]. cbn [chunk_at] in Hc.
      replace (Nat.eqb ci (length (tl :: rest))) with false by (symmetry; apply Nat.eqb_neq; lia).
      exact Hc. }
    repeat split.
    + discriminate.
    + constructor; [cbn; lia|exact Hch].
    + constructor.
      * cbn [in_chunk]. split; [lia|]. split; [lia|]. exists (mkchunk sz s). split.
        -- cbn [chunk_at]. rewrite Nat.eqb_refl. reflexivity.
        -- cbn. lia.
      * eapply Forall_impl; [|exact Hin]. intros [[ci o] z] [H1 [H2 [ch0 [H3 H4]]]].
        cbn [in_chunk]. split; [exact H1|]. split; [exact H2|]. exists ch0.
        split; [apply (Hold _ _ H3)|exact H4].
    + constructor; [|exact Hdis].
      rewrite Forall_forall in *. intros [[ci o] z] Hr. specialize (Hin _ Hr).
      destruct Hin as [_ [_ [ch0 [H3 _]]]]. cbn. left. intros Heq. subst ci.
      apply Hold in H3. destruct H3 as [_ H3]. apply H3. reflexivity.
  - (* bump inside the newest chunk *)
    rewrite Z.gtb_ltb in E. apply Z.ltb_ge in E.
    inversion H; subst m' ch off; clear H.
    assert (Hold : forall ci ch0, chunk_at (tl :: rest) ci = Some ch0 ->
                   (ci = length rest /\ ch0 = tl /\
                    chunk_at (mkchunk (c_size tl) (c_p tl + s) :: rest) ci = Some (mkchunk (c_size tl) (c_p tl + s))) \/
                   (ci <> length rest /\ chunk_at (mkchunk (c_size tl) (c_p tl + s) :: rest) ci = Some ch0)).
    { intros ci ch0 Hc. cbn [chunk_at] in *. destruct (Nat.eqb ci (length rest)) eqn:E3.
      - left. apply Nat.eqb_eq in E3. inversion Hc. auto.
      - right. apply Nat.eqb_neq in E3. auto. }
    repeat split.
    + discriminate.
    + constructor; [cbn; lia|exact Hrest].
    + constructor.
      * cbn [in_chunk]. split; [lia|]. split; [lia|].
        exists (mkchunk (c_size tl) (c_p tl + s)). split.
        -- cbn [chunk_at]. rewrite Nat.eqb_refl. reflexivity.
        -- cbn. lia.
      * eapply Forall_impl; [|exact Hin]. intros [[ci o] z] [H1 [H2 [ch0 [H3 H4]]]].
        cbn [in_chunk]. split; [exact H1|]. split; [exact H2|].
        destruct (Hold _ _ H3) as [[_ [Hc0 Hc1]]|[_ Hc1]].
        -- eexists. split; [exact Hc1|]. subst ch0. cbn. lia.
        -- exists ch0. split; [exact Hc1|exact H4].
    + constructor; [|exact Hdis].
      rewrite Forall_forall in *. intros [[ci o] z] Hr. specialize (Hin _ Hr).
      destruct Hin as [_ [_ [ch0 [H3 H4]]]]. cbn.
      destruct (Hold _ _ H3) as [[Hci [Hc0 _]]|[Hci _]].
      * subst ch0. right. right. lia.
      * left. intros Heq. apply Hci. symmetry. exact Heq.
Qed.

(** * run sequences *)
Fixpoint regions (l : list ev) : list region :=
  match l with
  | [] => []
  | ECreate _ ch off s :: r => (ch, off, s) :: regions r
  | _ :: r => regions r
  end.

Lemma regions_app : forall l r, regions (l ++ r) = regions l ++ regions r.
Proof.
  induction l as [|x l IH]; intros r; [reflexivity|].
  destruct x; cbn [app regions]; rewrite IH; reflexivity.
Qed.

Lemma exec_runs : forall cap csz sizes st rs,
  1 <= cap -> Forall (fun s => 0 <= s) sizes -> tl_wf cap (tasks st) -> mem_inv (tmem st) rs ->
  exists st1 evs1,
    exec cap csz (map Run sizes) st = Some (st1, evs1) /\
    map abs evs1 = map AC (seq (next st) (length sizes)) /\
    tl_order (tasks st1) = tl_order (tasks st) ++ seq (next st) (length sizes) /\
    next st1 = (next st + length sizes)%nat /\
    tl_wf cap (tasks st1) /\
    mem_inv (tmem st1) (rev (regions evs1) ++ rs).
Proof.
  intros cap csz sizes. induction sizes as [|s sizes IH]; intros st rs Hc Hs Hwf Hm.
  - exists st, []. cbn. rewrite app_nil_r. repeat split; try assumption; try lia; apply Hm.
  - inversion Hs as [|x xs Hs0 Hs']; subst x xs.
    cbn [map exec]. unfold run.
    destruct (alloc_some csz s (tmem st) (proj1 Hm)) as [m' [ch [off [Ha Hne]]]].
    rewrite Ha.
    pose proof (alloc_inv _ _ _ _ _ _ _ Hs0 Hm Ha) as Hm'.
    set (st' := mktg (tl_add cap (next st) (tasks st)) m' (S (next st))).
    destruct (IH st' ((ch, off, s) :: rs) Hc Hs' (tl_wf_add _ _ _ Hc Hwf) Hm')
      as [st1 [evs1 [E [A [O [N [W M]]]]]]].
    rewrite E. exists st1, ([ECreate (next st) ch off s] ++ evs1).
    split; [reflexivity|].
    cbn [app map abs length seq]. split; [f_equal; exact A|].
    split.
    { rewrite O. cbn [tasks st']. rewrite tl_order_add, <- app_assoc. reflexivity. }
    split; [rewrite N; cbn; lia|].
    split; [exact W|].
    cbn [regions rev]. rewrite <- app_assoc. exact M.
Qed.

(** one complete cycle from a freshly initialised or reset group *)
Lemma tg_cycle : forall cap csz sizes n0,
  1 <= cap -> 0 <= csz -> Forall (fun s => 0 <= s) sizes ->
  let st := mktg tl_init (mem_init csz) n0 in
  let ids := seq n0 (length sizes) in
  exists st1 evs1,
    exec cap csz (map Run sizes) st = Some (st1, evs1) /\
    map abs evs1 = map AC ids /\
    tl_order (tasks st1) = ids /\
    tl_wf cap (tasks st1) /\
    mem_inv (tmem st1) (rev (regions evs1)) /\
    wait csz st1 = (mktg tl_init (mem_init csz) (n0 + length sizes), map EJoin ids ++ [EWaited]).
Proof.
  intros cap csz sizes n0 Hc Hz Hs st ids.
  destruct (exec_runs cap csz sizes st [] Hc Hs (tl_wf_init cap ltac:(lia)) (mem_inv_init csz Hz))
    as [st1 [evs1 [E [A [O [N [W M]]]]]]].
  subst st ids. cbn [tasks next] in *. unfold tl_init at 1 in O. cbn [tl_order concat rev app] in O.
  rewrite app_nil_r in M.
  exists st1, evs1.
  split; [exact E|]. split; [exact A|]. split; [exact O|]. split; [exact W|]. split; [exact M|].
  unfold wait. rewrite O, N. reflexivity.
Qed.

(** arbitrary programs of [run]s and [wait]s: the events are those of the
    specification, the asserts of [alloc] never fire, the list stays well formed *)
Lemma exec_spec : forall cap csz ops st,
  1 <= cap -> tl_wf cap (tasks st) -> tmem st <> [] ->
  exists st' evs, exec cap csz ops st = Some (st', evs) /\
    map abs evs = spec ops (next st) (tl_order (tasks st)) /\
    tl_wf cap (tasks st') /\ tmem st' <> [].
Proof.
  intros cap csz ops. induction ops as [|o ops IH]; intros st Hc Hwf Hne.
  - exists st, []. repeat split; assumption.
  - destruct o as [s|].
    + cbn [exec spec]. unfold run.
      destruct (alloc_some csz s (tmem st) Hne) as [m' [ch [off [Ha Hne']]]]. rewrite Ha.
      set (st1 := mktg (tl_add cap (next st) (tasks st)) m' (S (next st))).
      destruct (IH st1 Hc (tl_wf_add _ _ _ Hc Hwf) Hne') as [st' [evs [E [A [W M]]]]].
      rewrite E. exists st', ([ECreate (next st) ch off s] ++ evs).
      split; [reflexivity|]. split; [|split; assumption].
      cbn [app map abs]. f_equal. rewrite A. cbn [st1 next tasks]. rewrite tl_order_add. reflexivity.
    + cbn [exec spec]. unfold wait.
      set (st1 := mktg tl_init (mem_init csz) (next st)).
      destruct (IH st1 Hc (tl_wf_init cap ltac:(lia)) ltac:(discriminate)) as [st' [evs [E [A [W M]]]]].
      rewrite E. exists st', ((map EJoin (tl_order (tasks st)) ++ [EWaited]) ++ evs).
      split; [reflexivity|]. split; [|split; assumption].
      rewrite map_app, map_app, map_map. cbn [map abs]. rewrite <- app_assoc. cbn [app].
      f_equal. f_equal. exact A.
Qed.

(** * what the specification says, made explicit: between two [AW]s every created
      task is joined exactly once, and nothing else is *)
Fixpoint joined_ok (l : list aev) (pend : list nat) : Prop :=
  match l with
  | [] => True
  | AC t :: r => ~ In t pend /\ joined_ok r (pend ++ [t])
  | AJ t :: r => match pend with p :: ps => p = t /\ joined_ok r ps | [] => False end
  | AW :: r => pend = [] /\ joined_ok r []
  end.

Lemma joined_ok_joins : forall pend r, joined_ok r [] -> joined_ok (map AJ pend ++ AW :: r) pend.
Proof.
  induction pend as [|p ps IH]; intros r H.
  - cbn. split; [reflexivity|exact H].
  - cbn [map app joined_ok]. split; [reflexivity|apply IH; exact H].
Qed.

Lemma spec_joined_ok : forall ops nxt pend, Forall (fun t => (t < nxt)%nat) pend ->
  joined_ok (spec ops nxt pend) pend.
Proof.
  induction ops as [|o ops IH]; intros nxt pend H.
  - exact I.
  - destruct o as [s|]; cbn [spec].
    + cbn [joined_ok]. split.
      * intros Hin. rewrite Forall_forall in H. apply H in Hin. lia.
      * apply IH. apply Forall_app. split.
        -- eapply Forall_impl; [|exact H]. intros t Ht. cbn in Ht. lia.
        -- constructor; [lia|constructor].
    + apply joined_ok_joins. apply IH. constructor.
Qed.

Lemma tg_trace_ok : forall cap csz ops,
  1 <= cap -> exists st evs, exec cap csz ops (tg_init csz) = Some (st, evs) /\
    joined_ok (map abs evs) [] /\ tl_wf cap (tasks st).
Proof.
  intros cap csz ops Hc.
  destruct (exec_spec cap csz ops (tg_init csz) Hc (tl_wf_init cap ltac:(lia)) ltac:(discriminate))
    as [st [evs [E [A [W _]]]]].
  exists st, evs. split; [exact E|]. split; [|exact W].
  rewrite A. cbn. apply spec_joined_ok. constructor.
Qed.
