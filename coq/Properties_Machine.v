(** The scheduler-level machine (coq/Machine): whole-library halves of C01 / C02 / C04 / C12.
    Statements only; proofs in Machine/MachineProofs.v. *)
From Coq Require Import List Arith.
From MT Require Import Lib.Interleave Machine.MachineModel Machine.MachineProofs Machine.VictimModel Machine.VictimProofs.
Import ListNotations.

(** For every number of workers and threads and every schedule of machine moves (creations in both
    orders, pops, steals from any victim, hand-over to a joiner, context saves, yields re-inserting
    at the base, wake-ups pushing at the top, callback ends, scheduler dispatch): no thread is ever
    in two places - current on two workers, current and queued, queued twice, in a hand and anywhere
    else - and a thread that is not live (not yet created, finished) is in no place. *)
Theorem M_single_place : forall nw nt (sched : list (nat * move)), 1 <= nt ->
  let s := run mstep sched (minit nw nt) in
  forall t, places s t <= 1 /\ (is_live s t = false -> places s t = 0).
Proof. exact single_place. Qed.
Print Assumptions M_single_place.

(** a thread becomes current on a worker only as the child of a child-first creation or out of that
    worker's hand (filled only by PopOwn / Steal / TakeJoiner): each queue entry is resumed by the
    one worker that removed it *)
Theorem M_run_only_from_hand : forall s w m s' t,
  mmove s w m = Some s' ->
  nth_error (cur s') w = Some (Run t) -> nth_error (cur s) w <> Some (Run t) ->
  (exists p, m = CreateCF t /\ nth_error (cur s) w = Some (Run p)) \/
  (nth_error (hand s) w = Some (Some t) /\ (m = EndCb \/ m = RunHand)).
Proof. exact run_only_from_hand. Qed.
Print Assumptions M_run_only_from_hand.

(** a blocked thread (live, in no place) is current on no worker *)
Theorem M_parked_not_current : forall s t w, parked s t = true -> Inv s -> nth_error (cur s) w <> Some (Run t).
Proof. exact parked_not_current. Qed.
Print Assumptions M_parked_not_current.

(** steal-victim selection of the default steal function: for every number of workers >= 2 the victim is a
    valid worker other than the thief, and every other worker is the victim for some value of the random
    source - no worker's run queue is unreachable for an idle worker (the fairness of the random source
    itself is trusted) *)
Theorem M_victim_valid : forall n rank r, 2 <= n -> rank < n -> r < n - 1 ->
  exists v, victim n rank r = Some v /\ v < n /\ v <> rank.
Proof. exact victim_valid. Qed.
Print Assumptions M_victim_valid.

Theorem M_victim_surjective : forall n rank v, 2 <= n -> rank < n -> v < n -> v <> rank ->
  exists r, r < n - 1 /\ victim n rank r = Some v.
Proof. exact victim_surjective. Qed.
Print Assumptions M_victim_surjective.

(** non-vacuity: a concrete schedule on 2 workers / 3 threads: main creates t1 child-first, worker 1
    steals main, t1 blocks (pop finds nothing, scheduler), main wakes t1 onto its own queue *)
Example M_example :
  let s := run mstep [(0, CreateCF 1); (1, Steal 0); (1, RunHand); (0, SaveCtx); (0, EndCb); (1, PushTop 1)] (minit 2 3) in
  cur s = [Sched; Run 0] /\ dq s = [[]; [1]] /\ places s 1 = 1 /\ places s 0 = 1 /\ places s 2 = 0.
Proof. vm_compute. repeat split; reflexivity. Qed.
