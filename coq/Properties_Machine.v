(** The scheduler-level machine (coq/Machine): whole-library halves of C01 / C02 / C04 / C12.
    Statements only; proofs in Machine/MachineProofs.v. *)
From Coq Require Import List Arith.
From MT Require Import Lib.Interleave Machine.MachineModel Machine.MachineProofs Machine.MachineMore Machine.VictimModel Machine.VictimProofs.
Import ListNotations.

(** For every number of workers and threads and every schedule of machine moves (creations in both
    orders, pops, steals from any victim, hand-over to a joiner, context saves, yields re-inserting
    at the base, wake-ups pushing at the top, callback ends, scheduler dispatch): no thread is ever
    in two places - current on two workers, current and queued, queued twice, in a hand and anywhere
    else - and a thread that is not live (not yet created, finished) is in no place. *)
Theorem M_single_place : forall nw nt (sched : list (nat * move)), 1 <= nt ->
  let s := run mstep sched (minit nw nt) in
  forall t, places s t <= 1 /\ (is_live s t = false -> places s t = 0).
Proof. exact single_place. Qed.
Print Assumptions M_single_place.

(** a thread becomes current on a worker only as the child of a child-first creation or out of that
    worker's hand (filled only by PopOwn / Steal / TakeJoiner): each queue entry is resumed by the
    one worker that removed it *)
Theorem M_run_only_from_hand : forall s w m s' t,
  mmove s w m = Some s' ->
  nth_error (cur s') w = Some (Run t) -> nth_error (cur s) w <> Some (Run t) ->
  (exists p, m = CreateCF t /\ nth_error (cur s) w = Some (Run p)) \/
  (nth_error (hand s) w = Some (Some t) /\ (m = EndCb \/ m = RunHand)).
Proof. exact run_only_from_hand. Qed.
Print Assumptions M_run_only_from_hand.

(** a blocked thread (live, in no place) is current on no worker *)
Theorem M_parked_not_current : forall s t w, parked s t = true -> Inv s -> nth_error (cur s) w <> Some (Run t).
Proof. exact parked_not_current. Qed.
Print Assumptions M_parked_not_current.

(** conservation: a runnable thread (in exactly one place) stays in exactly one place under every move of every
    worker - pops, steals, dispatches, creations and wake-ups of other threads - except its own context save or
    finish on the worker it runs on: nobody's queue operation loses or duplicates somebody else's thread *)
Theorem M_no_thread_lost : forall s w m s' t, Inv s -> mmove s w m = Some s' -> places s t = 1 ->
  places s' t = 1 \/ (places s' t = 0 /\ nth_error (cur s) w = Some (Run t) /\ (m = SaveCtx \/ m = FinishCtx)).
Proof. exact no_thread_lost. Qed.
Print Assumptions M_no_thread_lost.

(** a thread in no place (blocked, or not yet created) enters a place only by its creation, as the registered
    joiner, by a wake-up naming it, or by its own yield callback *)
Theorem M_parked_until_woken : forall s w m s' t, Inv s -> mmove s w m = Some s' -> places s t = 0 ->
  places s' t = 0 \/
  (places s' t = 1 /\ (m = CreateCF t \/ m = CreatePF t \/ m = TakeJoiner t \/ m = PushTop t \/
                        (m = PutBase /\ nth_error (cur s) w = Some (Cb t)))).
Proof. exact parked_until_woken. Qed.
Print Assumptions M_parked_until_woken.

(** yield gives way (used by C20: a sleeper polling with yield lets the other runnable threads of its worker
    run): with run queue r ++ [x] the yield sequence pop / save / put-at-base / end-of-callback is enabled and
    leaves x running and the yielder at the base, behind everything that was queued; nothing else changes *)
Theorem M_yield_gives_way : forall s w t r x, Inv s ->
  nth_error (cur s) w = Some (Run t) -> nth_error (hand s) w = Some None -> nth_error (dq s) w = Some (r ++ [x]) ->
  runo s (yield_moves w) =
    Some {| cur := upd (cur s) w (Run x); hand := hand s; dq := upd (dq s) w (t :: r); stat := stat s |}.
Proof. exact yield_gives_way. Qed.
Print Assumptions M_yield_gives_way.

(** work conservation: an idle worker can take work whenever any run queue is non-empty (own top or the victim's
    base); with [M_victim_surjective] no queued thread is out of reach of an idle worker *)
Theorem M_idle_can_take : forall s w v x q qw, nth_error (cur s) w = Some Sched -> nth_error (hand s) w = Some None ->
  nth_error (dq s) w = Some qw -> nth_error (dq s) v = Some (x :: q) ->
  exists m s', (m = PopOwn \/ m = Steal v) /\ mmove s w m = Some s' /\ exists y, nth_error (hand s') w = Some (Some y).
Proof. exact idle_can_take. Qed.
Print Assumptions M_idle_can_take.

(** steal-victim selection of the default steal function: for every number of workers >= 2 the victim is a
    valid worker other than the thief, and every other worker is the victim for some value of the random
    source - no worker's run queue is unreachable for an idle worker (the fairness of the random source
    itself is trusted) *)
Theorem M_victim_valid : forall n rank r, 2 <= n -> rank < n -> r < n - 1 ->
  exists v, victim n rank r = Some v /\ v < n /\ v <> rank.
Proof. exact victim_valid. Qed.
Print Assumptions M_victim_valid.

Theorem M_victim_surjective : forall n rank v, 2 <= n -> rank < n -> v < n -> v <> rank ->
  exists r, r < n - 1 /\ victim n rank r = Some v.
Proof. exact victim_surjective. Qed.
Print Assumptions M_victim_surjective.

(** non-vacuity: a concrete schedule on 2 workers / 3 threads: main creates t1 child-first, worker 1
    steals main, t1 blocks (pop finds nothing, scheduler), main wakes t1 onto its own queue *)
Example M_example :
  let s := run mstep [(0, CreateCF 1); (1, Steal 0); (1, RunHand); (0, SaveCtx); (0, EndCb); (1, PushTop 1)] (minit 2 3) in
  cur s = [Sched; Run 0] /\ dq s = [[]; [1]] /\ places s 1 = 1 /\ places s 0 = 1 /\ places s 2 = 0.
Proof. vm_compute. repeat split; reflexivity. Qed.

(** non-vacuity of the yield theorem: main creates t1 and t2 parent-first, then yields: t2 (the newest) runs, main
    is behind t1 at the base *)
Example M_yield_example :
  let s := run mstep [(0, CreatePF 1); (0, CreatePF 2)] (minit 1 3) in
  dq s = [[1; 2]] /\ runo s (yield_moves 0) = Some {| cur := [Run 2]; hand := [None]; dq := [[0; 1]]; stat := stat s |}.
Proof. vm_compute. split; reflexivity. Qed.
