From Coq Require Import ExtrOcamlBasic.
From MT Require Import DagFile.FlattenModel DagFile.PruneModel DagFile.CodecModel DagFile.ChronoModel DagFile.DagSpec.
Extraction Language OCaml.
Separate Extraction BinNums.N entries entries_stack make_pi_dag decide copy_pi_dag write_dag read_dag layout_wf
  chrono_init chrono_step chrono_run choose_min n_running n_ready wf_root t1_ok leaf_t1_sum.
