From Coq Require Import ExtrOcamlBasic.
From MT Require Import Dag.DagTreeModel Dag.DagRecordModel.
Extraction Language OCaml.
Separate Extraction wf nonnegb leaves work count_kind dag_of edge_count longest_path
  record root_info summ_none summ_setting summ_choice materialized
  stat_work stat_edges.
