(** C16 -- the static-initialiser conversion initialises the mutex exactly once, nobody proceeds to the body
    before the magic word is the myth magic number, an initialised mutex is never re-initialised.
    For every number of simultaneous first users, every schedule, every use of the mutex by the threads that
    have returned, every shape accepted by [shape_ok]. *)
From Coq Require Import List String ZArith Bool Arith Lia.
From MT Require Import Lib.Interleave Wrap.StaticInitModel.
Import ListNotations.

(** * Lists with one element replaced *)

Lemma upd_length {A} (l : list A) : forall i x, List.length (upd l i x) = List.length l.
Proof. induction l as [|y r IH]; intros [|i] x; cbn; auto. Qed.

Lemma nth_error_upd_same {A} (l : list A) : forall i x y,
  nth_error l i = Some y -> nth_error (upd l i x) i = Some x.
Proof.
  induction l as [|z r IH]; intros [|i] x y H; cbn in *; try discriminate; [reflexivity|].
  eapply IH. exact H.
Qed.

Lemma nth_error_upd_other {A} (l : list A) : forall i j x,
  i <> j -> nth_error (upd l i x) j = nth_error l j.
Proof.
  induction l as [|z r IH]; intros [|i] [|j] x H; cbn; try reflexivity; try congruence.
  apply IH. congruence.
Qed.

Definition all_pcs (T : pc -> Prop) (l : list pc) : Prop := forall u q, nth_error l u = Some q -> T q.

Lemma all_pcs_upd (T : pc -> Prop) l t x p :
  nth_error l t = Some p -> all_pcs T l -> T x -> all_pcs T (upd l t x).
Proof.
  intros Hp Hall Hx u q Hu. destruct (Nat.eq_dec t u) as [E|E].
  - subst u. rewrite (nth_error_upd_same l t x p Hp) in Hu. inversion Hu. subst. exact Hx.
  - rewrite nth_error_upd_other in Hu by exact E. eapply Hall. exact Hu.
Qed.

Lemma all_pcs_weaken (T T' : pc -> Prop) l : (forall p, T p -> T' p) -> all_pcs T l -> all_pcs T' l.
Proof. intros H Hall u q Hu. apply H. eapply Hall. exact Hu. Qed.

Lemma all_pcs_repeat (T : pc -> Prop) p n : T p -> all_pcs T (repeat p n).
Proof.
  intros Hp u q Hu. apply nth_error_In in Hu. apply repeat_spec in Hu. subst. exact Hp.
Qed.

(** * The step function under an accepted shape *)

Lemma strs_eqb_eq : forall a b, strs_eqb a b = true -> a = b.
Proof.
  induction a as [|x r IH]; intros [|y r'] H; cbn in H; try discriminate; [reflexivity|].
  apply andb_true_iff in H. destruct H as [H1 H2]. apply String.eqb_eq in H1. apply IH in H2. subst. reflexivity.
Qed.

Lemma shape_ok_inv sh : shape_ok sh = true ->
  sh_magic_no sh <> sh_initializing sh /\ sh_static_word sh <> sh_initializing sh /\
  sh_fast sh = sh_magic_no sh /\ sh_guard sh = sh_initializing sh /\ sh_cas_old_is_read sh = true /\
  sh_cas_new sh = sh_initializing sh /\ sh_init_magic sh = sh_initializing sh /\
  sh_final sh = sh_magic_no sh /\ sh_spin sh = sh_initializing sh /\ sh_order sh = canonical_order.
Proof.
  unfold shape_ok. intros H.
  repeat (apply andb_true_iff in H; destruct H as [H ?H]).
  apply negb_true_iff in H, H9. apply Z.eqb_neq in H, H9.
  apply Z.eqb_eq in H8, H7, H5, H4, H3, H2. apply strs_eqb_eq in H1.
  repeat split; assumption.
Qed.

Definition tstepMI (M I : Z) (s : state) (t : nat) (p : pc) (a : act) : option (state * pc) :=
  match p, a with
  | PStart, Step _ => Some (s, PHave (magic s))
  | PHave g, Step _ =>
      if (g =? M)%Z then Some (s, PDone)
      else if negb (g =? I)%Z then
             if (magic s =? g)%Z then Some (set_win (set_magic s I) t, PWin 0 None junk false)
             else Some (s, PSpin)
           else Some (s, PSpin)
  | PWin 0 half lm li, Step _ => Some (s, PWin 1 None M true)
  | PWin 1 half lm li, Step _ => Some (s, PWin 2 None I li)
  | PWin 2 half lm li, Step b =>
      let w := if li then lm else junk in
      match half with
      | None => if b then Some (set_magic s w, PWin 2 (Some true) lm li)
                else Some (store_rest s li, PWin 2 (Some false) lm li)
      | Some true => Some (store_rest s li, PWin 3 None lm li)
      | Some false => Some (set_magic s w, PWin 3 None lm li)
      end
  | PWin 3 half lm li, Step _ => Some (s, PWin 4 None lm li)
  | PWin 4 half lm li, Step _ => Some (set_magic s M, PWin 5 None lm li)
  | PWin _ half lm li, Step _ => Some (s, PDone)
  | PSpin, Step _ =>
      if (magic s =? I)%Z then Some (s, PSpin)
      else if (magic s =? M)%Z then Some (s, PDone)
      else Some (s, PAbort)
  | PDone, Use st q => Some (do_use s st q, PDone)
  | PDone, Again => Some (s, PStart)
  | _, _ => None
  end.

Lemma tstep_MI sh s t p a : shape_ok sh = true ->
  tstep sh s t p a = tstepMI (sh_magic_no sh) (sh_initializing sh) s t p a.
Proof.
  intros H. apply shape_ok_inv in H.
  destruct H as (_ & _ & Hf & Hg & Hc & Hn & Him & Hfi & Hsp & Hord).
  destruct p as [|g|k half lm li| | |]; destruct a as [b|st q|]; cbn [tstep tstepMI]; try reflexivity;
    try (destruct k as [|[|[|[|[|k]]]]]; reflexivity).
  - rewrite Hf, Hg, Hc, Hn. reflexivity.
  - rewrite Hord. destruct k as [|[|[|[|[|k]]]]]; cbn; rewrite ?Him, ?Hfi; try reflexivity.
    destruct k; reflexivity.
  - rewrite Hsp. reflexivity.
Qed.

Lemma step_inv sh s t a s' : step sh s (t, a) = Some s' ->
  exists p s1 p', nth_error (pcs s) t = Some p /\ tstep sh s t p a = Some (s1, p') /\
                  s' = set_pcs s1 (upd (pcs s1) t p').
Proof.
  unfold step. cbn [fst snd]. destruct (nth_error (pcs s) t) as [p|] eqn:Hp; [|discriminate].
  destruct (tstep sh s t p a) as [[s1 p']|] eqn:Ht; [|discriminate].
  intros H. inversion H. subst. exists p, s1, p'. auto.
Qed.

(** * The invariant *)

Section Inv.
  Variable M I m0 st0 : Z.
  Variable q0 : list nat.
  Hypothesis HMI : M <> I.
  Hypothesis Hm0I : m0 <> I.

  Definition T_already (p : pc) : Prop := p = PStart \/ p = PHave M \/ p = PDone.
  Definition T_A (p : pc) : Prop := p = PStart \/ p = PHave m0.
  Definition T_B (p : pc) : Prop := p = PStart \/ p = PHave m0 \/ p = PHave I \/ p = PSpin.
  Definition T_C (p : pc) : Prop :=
    p = PStart \/ p = PHave m0 \/ p = PHave I \/ p = PHave M \/ p = PSpin \/ p = PDone \/
    exists k h lm li, p = PWin k h lm li /\ 5 <= k.

  (** progress of the one winner while the magic word is "initializing" *)
  Definition W_B (ini : nat) (rok : bool) (p : pc) : Prop :=
    (exists h lm li, p = PWin 0 h lm li /\ ini = 0) \/
    (exists h lm, p = PWin 1 h lm true /\ ini = 0) \/
    (p = PWin 2 None I true /\ ini = 0) \/
    (p = PWin 2 (Some true) I true /\ ini = 0) \/
    (p = PWin 2 (Some false) I true /\ ini = 1 /\ rok = true) \/
    (exists h, p = PWin 3 h I true /\ ini = 1 /\ rok = true) \/
    (exists h, p = PWin 4 h I true /\ ini = 1 /\ rok = true).

  Definition Already (s : state) : Prop :=
    magic s = M /\ inits s = 0 /\ rest_ok s = true /\ clobber s = false /\ bad_use s = false /\
    (uses s = 0 -> mstate s = st0 /\ sleepers s = q0) /\ all_pcs T_already (pcs s).

  Definition PhA (s : state) : Prop :=
    magic s = m0 /\ inits s = 0 /\ uses s = 0 /\ clobber s = false /\ bad_use s = false /\
    all_pcs T_A (pcs s).

  Definition PhB (s : state) : Prop :=
    magic s = I /\ uses s = 0 /\ clobber s = false /\ bad_use s = false /\
    exists w p, nth_error (pcs s) w = Some p /\ W_B (inits s) (rest_ok s) p /\
                forall u q, u <> w -> nth_error (pcs s) u = Some q -> T_B q.

  Definition PhC (s : state) : Prop :=
    magic s = M /\ inits s = 1 /\ rest_ok s = true /\ clobber s = false /\ bad_use s = false /\
    all_pcs T_C (pcs s).

  Definition Inv (s : state) : Prop :=
    (m0 = M /\ Already s) \/ (m0 <> M /\ (PhA s \/ PhB s \/ PhC s)).

  Ltac zeq :=
    repeat match goal with
           | |- context [(?x =? ?x)%Z] => rewrite (Z.eqb_refl x)
           | H : ?x <> ?y |- context [(?x =? ?y)%Z] => rewrite (proj2 (Z.eqb_neq x y) H)
           | H : ?y <> ?x |- context [(?x =? ?y)%Z] => rewrite (proj2 (Z.eqb_neq x y) (not_eq_sym H))
           end.

  Ltac inv_some H := inversion H; subst; clear H.
  Ltac inv_st H a b := injection H as ?Hs1 ?Hp1; subst a b.

  (** ** already initialised *)
  Lemma step_already s t p a s1 p' :
    m0 = M -> Already s -> nth_error (pcs s) t = Some p -> tstepMI M I s t p a = Some (s1, p') ->
    Already (set_pcs s1 (upd (pcs s1) t p')).
  Proof.
    intros HmM (Hmg & Hin & Hrok & Hcl & Hbu & Hun & Hall) Hp Ht.
    assert (HT : T_already p) by (eapply Hall; exact Hp).
    destruct HT as [Hq|[Hq|Hq]]; subst p; destruct a as [b|st q|]; cbn [tstepMI] in Ht; try discriminate.
    - inv_st Ht s1 p'. unfold Already. cbn. repeat split; try assumption; try (apply Hun; assumption).
      eapply all_pcs_upd; [exact Hp | exact Hall |]. right. left. rewrite Hmg. reflexivity.
    - revert Ht. zeq. intros Ht. inv_st Ht s1 p'. unfold Already. cbn.
      repeat split; try assumption; try (apply Hun; assumption).
      eapply all_pcs_upd; [exact Hp | exact Hall |]. right. right. reflexivity.
    - inv_st Ht s1 p'. unfold Already. cbn. rewrite Hrok. cbn.
      repeat split; try assumption; try discriminate.
      + rewrite Hbu. reflexivity.
      + eapply all_pcs_upd; [exact Hp | exact Hall |]. right. right. reflexivity.
    - inv_st Ht s1 p'. unfold Already. cbn. repeat split; try assumption; try (apply Hun; assumption).
      eapply all_pcs_upd; [exact Hp | exact Hall |]. left. reflexivity.
  Qed.

  (** ** phase A: nobody has won yet *)
  Lemma step_A s t p a s1 p' :
    m0 <> M -> PhA s -> nth_error (pcs s) t = Some p -> tstepMI M I s t p a = Some (s1, p') ->
    PhA (set_pcs s1 (upd (pcs s1) t p')) \/ PhB (set_pcs s1 (upd (pcs s1) t p')).
  Proof.
    intros HmM (Hmg & Hin & Hus & Hcl & Hbu & Hall) Hp Ht.
    assert (HT : T_A p) by (eapply Hall; exact Hp).
    destruct HT as [Hq|Hq]; subst p; destruct a as [b|st q|]; cbn [tstepMI] in Ht; try discriminate.
    - inv_st Ht s1 p'. left. unfold PhA. cbn. repeat split; try assumption.
      eapply all_pcs_upd; [exact Hp | exact Hall |]. right. rewrite Hmg. reflexivity.
    - revert Ht. rewrite Hmg. zeq. cbn [negb]. intros Ht. inv_st Ht s1 p'.
      right. unfold PhB. cbn. repeat split; try assumption.
      exists t, (PWin 0 None junk false). split; [eapply nth_error_upd_same; exact Hp|]. split.
      + left. exists None, junk, false. split; [reflexivity | exact Hin].
      + intros u q Hu Hq. rewrite nth_error_upd_other in Hq by congruence.
        destruct (Hall u q Hq) as [E|E]; subst q; [left; reflexivity | right; left; reflexivity].
  Qed.

  (** ** phase B: exactly one winner, the magic word is "initializing" *)
  Lemma step_B s t p a s1 p' :
    m0 <> M -> PhB s -> nth_error (pcs s) t = Some p -> tstepMI M I s t p a = Some (s1, p') ->
    PhB (set_pcs s1 (upd (pcs s1) t p')) \/ PhC (set_pcs s1 (upd (pcs s1) t p')).
  Proof.
    intros HmM (Hmg & Hus & Hcl & Hbu & w & pw & Hw & HW & Hoth) Hp Ht.
    destruct (Nat.eq_dec t w) as [Etw|Etw].
    - (* the winner moves *)
      subst t. rewrite Hw in Hp. inv_some Hp.
      assert (Hoth' : forall s2 x u q, pcs s2 = pcs s -> u <> w ->
                        nth_error (upd (pcs s2) w x) u = Some q -> T_B q).
      { intros s2 x u q Hs2 Hu Hq. rewrite Hs2 in Hq. rewrite nth_error_upd_other in Hq by congruence.
        eapply Hoth; eassumption. }
      destruct HW as [(h & lm & li & Hq & Hi)|[(h & lm & Hq & Hi)|[(Hq & Hi)|[(Hq & Hi)|[(Hq & Hi & Hr)|[(h & Hq & Hi & Hr)|(h & Hq & Hi & Hr)]]]]]];
        subst p; destruct a as [b|st q|]; cbn [tstepMI] in Ht; try discriminate.
      + inv_st Ht s1 p'. left. unfold PhB. cbn. repeat split; try assumption.
        exists w, (PWin 1 None M true). split; [eapply nth_error_upd_same; exact Hw|]. split.
        * right. left. exists None, M. auto.
        * intros u q Hu Hq. eapply (Hoth' s); eauto.
      + inv_st Ht s1 p'. left. unfold PhB. cbn. repeat split; try assumption.
        exists w, (PWin 2 None I true). split; [eapply nth_error_upd_same; exact Hw|]. split.
        * right. right. left. auto.
        * intros u q Hu Hq. eapply (Hoth' s); eauto.
      + (* struct store, nothing stored yet *)
        destruct b; inv_st Ht s1 p'; left; unfold PhB; cbn; repeat split; try assumption.
        * exists w, (PWin 2 (Some true) I true). split; [eapply nth_error_upd_same; exact Hw|]. split.
          -- right. right. right. left. auto.
          -- intros u q Hu Hq. eapply (Hoth' s); eauto.
        * rewrite Hcl, Hus. reflexivity.
        * exists w, (PWin 2 (Some false) I true). split; [eapply nth_error_upd_same; exact Hw|]. split.
          -- right. right. right. right. left. rewrite Hi. auto.
          -- intros u q Hu Hq. eapply (Hoth' s); eauto.
      + (* magic word stored first, now the rest *)
        inv_st Ht s1 p'. left. unfold PhB. cbn. repeat split; try assumption.
        * rewrite Hcl, Hus. reflexivity.
        * exists w, (PWin 3 None I true). split; [eapply nth_error_upd_same; exact Hw|]. split.
          -- right. right. right. right. right. left. exists None. rewrite Hi. auto.
          -- intros u q Hu Hq. eapply (Hoth' s); eauto.
      + (* rest stored first, now the magic word *)
        inv_st Ht s1 p'. left. unfold PhB. cbn. repeat split; try assumption.
        exists w, (PWin 3 None I true). split; [eapply nth_error_upd_same; exact Hw|]. split.
        * right. right. right. right. right. left. exists None. auto.
        * intros u q Hu Hq. eapply (Hoth' s); eauto.
      + inv_st Ht s1 p'. left. unfold PhB. cbn. repeat split; try assumption.
        exists w, (PWin 4 None I true). split; [eapply nth_error_upd_same; exact Hw|]. split.
        * right. right. right. right. right. right. exists None. auto.
        * intros u q Hu Hq. eapply (Hoth' s); eauto.
      + (* the final store of the magic number: phase C *)
        inv_st Ht s1 p'. right. unfold PhC. cbn. repeat split; try assumption.
        intros u q Hq. destruct (Nat.eq_dec w u) as [E|E].
        * subst u. rewrite (nth_error_upd_same _ _ _ _ Hw) in Hq. inv_some Hq.
          do 6 right. exists 5, None, I, true. split; [reflexivity | lia].
        * rewrite nth_error_upd_other in Hq by exact E.
          destruct (Hoth u q (not_eq_sym E) Hq) as [E1|[E1|[E1|E1]]]; subst q.
          -- left. reflexivity.
          -- right. left. reflexivity.
          -- right. right. left. reflexivity.
          -- do 4 right. left. reflexivity.
    - (* somebody else moves: it cannot get past the magic word *)
      assert (HT : T_B p) by (eapply Hoth; eassumption).
      assert (Hkeep : forall x, T_B x ->
                PhB (set_pcs s (upd (pcs s) t x))).
      { intros x Hx. unfold PhB. cbn. repeat split; try assumption.
        exists w, pw. split; [rewrite nth_error_upd_other by exact Etw; exact Hw|]. split; [exact HW|].
        intros u q Hu Hq. destruct (Nat.eq_dec t u) as [E|E].
        - subst u. rewrite (nth_error_upd_same _ _ _ _ Hp) in Hq. inv_some Hq. exact Hx.
        - rewrite nth_error_upd_other in Hq by exact E. eapply Hoth; eassumption. }
      destruct HT as [Hq|[Hq|[Hq|Hq]]]; subst p; destruct a as [b|st q|]; cbn [tstepMI] in Ht; try discriminate.
      + inv_st Ht s1 p'. left. apply Hkeep. right. right. left. rewrite Hmg. reflexivity.
      + revert Ht. rewrite Hmg. zeq. cbn [negb]. intros Ht. inv_st Ht s1 p'.
        left. apply Hkeep. right. right. right. reflexivity.
      + revert Ht. zeq. cbn [negb]. intros Ht. inv_st Ht s1 p'.
        left. apply Hkeep. right. right. right. reflexivity.
      + revert Ht. rewrite Hmg. zeq. intros Ht. inv_st Ht s1 p'.
        left. apply Hkeep. right. right. right. reflexivity.
  Qed.

  (** ** phase C: initialised; late comers and losers leave, users use *)
  Lemma step_C s t p a s1 p' :
    m0 <> M -> PhC s -> nth_error (pcs s) t = Some p -> tstepMI M I s t p a = Some (s1, p') ->
    PhC (set_pcs s1 (upd (pcs s1) t p')).
  Proof.
    intros HmM (Hmg & Hin & Hrok & Hcl & Hbu & Hall) Hp Ht.
    assert (HT : T_C p) by (eapply Hall; exact Hp).
    assert (Hkeep : forall x, T_C x -> PhC (set_pcs s (upd (pcs s) t x))).
    { intros x Hx. unfold PhC. cbn. repeat split; try assumption.
      eapply all_pcs_upd; [exact Hp | exact Hall | exact Hx]. }
    destruct HT as [Hq|[Hq|[Hq|[Hq|[Hq|[Hq|(k & h & lm & li & Hq & Hk)]]]]]]; subst p;
      destruct a as [b|st q|]; cbn [tstepMI] in Ht; try discriminate.
    - inv_st Ht s1 p'. apply Hkeep. do 3 right. left. rewrite Hmg. reflexivity.
    - revert Ht. rewrite Hmg. zeq. cbn [negb]. intros Ht. inv_st Ht s1 p'. apply Hkeep. do 4 right. left. reflexivity.
    - revert Ht. zeq. cbn [negb]. intros Ht. inv_st Ht s1 p'. apply Hkeep. do 4 right. left. reflexivity.
    - revert Ht. zeq. intros Ht. inv_st Ht s1 p'. apply Hkeep. do 5 right. left. reflexivity.
    - revert Ht. rewrite Hmg. zeq. intros Ht. inv_st Ht s1 p'. apply Hkeep. do 5 right. left. reflexivity.
    - inv_st Ht s1 p'. unfold PhC. cbn. rewrite Hrok, Hbu. cbn. repeat split; try assumption.
      eapply all_pcs_upd; [exact Hp | exact Hall |]. do 5 right. left. reflexivity.
    - inv_st Ht s1 p'. apply Hkeep. left. reflexivity.
    - destruct k as [|[|[|[|[|k]]]]]; try lia. inv_st Ht s1 p'. apply Hkeep. do 5 right. left. reflexivity.
    - destruct k as [|[|[|[|[|k]]]]]; try lia; discriminate.
    - destruct k as [|[|[|[|[|k]]]]]; try lia; discriminate.
  Qed.

  Lemma inv_step sh : sh_magic_no sh = M -> sh_initializing sh = I -> shape_ok sh = true ->
    forall s ta s', Inv s -> step sh s ta = Some s' -> Inv s'.
  Proof.
    intros HM HI Hok s [t a] s' Hinv Hst.
    apply step_inv in Hst. destruct Hst as (p & s1 & p' & Hp & Ht & Hs'). subst s'.
    rewrite (tstep_MI sh s t p a Hok), HM, HI in Ht.
    destruct Hinv as [[HmM Hal]|[HmM [HA|[HB|HC]]]].
    - left. split; [exact HmM|]. eapply step_already; eassumption.
    - right. split; [exact HmM|]. destruct (step_A s t p a s1 p' HmM HA Hp Ht) as [H|H]; auto.
    - right. split; [exact HmM|]. destruct (step_B s t p a s1 p' HmM HB Hp Ht) as [H|H]; auto.
    - right. split; [exact HmM|]. right. right. eapply step_C; eassumption.
  Qed.

  Lemma inv_init sh n : sh_magic_no sh = M -> Inv (init_state sh m0 st0 q0 n).
  Proof.
    intros HM. unfold Inv, init_state. rewrite HM.
    destruct (Z.eq_dec m0 M) as [E|E].
    - left. split; [exact E|]. unfold Already. cbn. subst m0. rewrite Z.eqb_refl.
      repeat split; try reflexivity. apply all_pcs_repeat. left. reflexivity.
    - right. split; [exact E|]. left. unfold PhA. cbn. repeat split; try reflexivity.
      apply all_pcs_repeat. left. reflexivity.
  Qed.

  (** what the invariant gives *)
  Lemma inv_safe s : Inv s ->
    inits s <= 1 /\ clobber s = false /\ bad_use s = false /\
    (forall t, nth_error (pcs s) t <> Some PAbort) /\
    (forall t, nth_error (pcs s) t = Some PDone ->
               magic s = M /\ rest_ok s = true /\ (m0 <> M -> inits s = 1)) /\
    (m0 = M -> inits s = 0 /\ magic s = M /\ (uses s = 0 -> mstate s = st0 /\ sleepers s = q0)).
  Proof.
    intros [[HmM (Hmg & Hin & Hrok & Hcl & Hbu & Hun & Hall)]|[HmM [HA|[HB|HC]]]].
    - repeat split; try assumption; try lia; try (apply Hun; assumption); try contradiction.
      intros t Ht. destruct (Hall t _ Ht) as [E|[E|E]]; discriminate.
    - destruct HA as (Hmg & Hin & Hus & Hcl & Hbu & Hall).
      split; [lia|]. split; [exact Hcl|]. split; [exact Hbu|]. split; [|split].
      + intros t Ht. destruct (Hall t _ Ht) as [E|E]; discriminate.
      + intros t Ht. destruct (Hall t _ Ht) as [E|E]; discriminate.
      + intros E. contradiction.
    - destruct HB as (Hmg & Hus & Hcl & Hbu & w & pw & Hw & HW & Hoth).
      assert (Hle : inits s <= 1).
      { destruct HW as [(h & lm & li & _ & Hi)|[(h & lm & _ & Hi)|[(_ & Hi)|[(_ & Hi)|[(_ & Hi & _)|[(h & _ & Hi & _)|(h & _ & Hi & _)]]]]]]; lia. }
      assert (Hnot : forall t q, nth_error (pcs s) t = Some q -> q <> PAbort /\ q <> PDone).
      { intros t q Ht. destruct (Nat.eq_dec t w) as [E|E].
        - subst t. rewrite Hw in Ht. injection Ht as Ht. subst pw.
          destruct HW as [(h & lm & li & Hq & _)|[(h & lm & Hq & _)|[(Hq & _)|[(Hq & _)|[(Hq & _)|[(h & Hq & _)|(h & Hq & _)]]]]]];
            subst q; split; discriminate.
        - destruct (Hoth t q E Ht) as [E1|[E1|[E1|E1]]]; subst q; split; discriminate. }
      split; [exact Hle|]. split; [exact Hcl|]. split; [exact Hbu|]. split; [|split].
      + intros t Ht. destruct (Hnot t _ Ht) as [H _]. apply H. reflexivity.
      + intros t Ht. destruct (Hnot t _ Ht) as [_ H]. exfalso. apply H. reflexivity.
      + intros E. contradiction.
    - destruct HC as (Hmg & Hin & Hrok & Hcl & Hbu & Hall).
      split; [lia|]. split; [exact Hcl|]. split; [exact Hbu|]. split; [|split].
      + intros t Ht. destruct (Hall t _ Ht) as [E|[E|[E|[E|[E|[E|(k & h & lm & li & E & _)]]]]]]; discriminate.
      + intros t Ht. auto.
      + intros E. contradiction.
  Qed.
End Inv.

(** * The theorem *)

Definition static_safe (sh : shape) (m0 st0 : Z) (q0 : list nat) (s : state) : Prop :=
  (* the fields are initialised at most once, never after the mutex has been used, nobody uses it before *)
  inits s <= 1 /\ clobber s = false /\ bad_use s = false /\
  (* the loser's assertion never fails *)
  (forall t, nth_error (pcs s) t <> Some PAbort) /\
  (* whoever has returned (and proceeds to the body) sees the myth magic number and initialised fields;
     a static initialiser has then been converted exactly once *)
  (forall t, nth_error (pcs s) t = Some PDone ->
             magic s = sh_magic_no sh /\ rest_ok s = true /\ (m0 <> sh_magic_no sh -> inits s = 1)) /\
  (* a mutex that already was a myth mutex (locked or not, with or without sleepers) is never touched:
     no initialisation at all; its words change only through the body operations *)
  (m0 = sh_magic_no sh ->
     inits s = 0 /\ magic s = sh_magic_no sh /\ (uses s = 0 -> mstate s = st0 /\ sleepers s = q0)).

Theorem static_init_once : forall sh,
  shape_ok sh = true ->
  forall m0 st0 q0 n, m0 <> sh_initializing sh ->
  forall s, reachable (fun s0 => s0 = init_state sh m0 st0 q0 n) (step sh) s ->
  static_safe sh m0 st0 q0 s.
Proof.
  intros sh Hok m0 st0 q0 n Hm0 s Hr.
  destruct (shape_ok_inv sh Hok) as (HMI & _).
  apply (inv_safe (sh_magic_no sh) (sh_initializing sh) m0 st0 q0 HMI Hm0).
  revert s Hr. apply invariant_rule.
  - intros s0 Hs0. subst s0. apply inv_init; [exact Hm0 | reflexivity].
  - intros s a s' Hi Hst.
    eapply (inv_step (sh_magic_no sh) (sh_initializing sh) m0 st0 q0 HMI Hm0 sh eq_refl eq_refl Hok); eauto.
Qed.

(** the same for every schedule (a list of (thread, action) pairs; disabled entries are skipped) *)
Corollary static_init_once_run : forall sh,
  shape_ok sh = true ->
  forall m0 st0 q0 n, m0 <> sh_initializing sh ->
  forall sched, static_safe sh m0 st0 q0 (run (step sh) sched (init_state sh m0 st0 q0 n)).
Proof.
  intros sh Hok m0 st0 q0 n Hm0 sched.
  eapply static_init_once; eauto.
  apply run_reachable. apply reach_init. reflexivity.
Qed.

(** exactly once: when a static initialiser has been handled by at least one thread that has returned,
    the fields were initialised exactly once *)
Corollary static_init_exactly_once : forall sh,
  shape_ok sh = true ->
  forall m0 st0 q0 n, m0 <> sh_initializing sh -> m0 <> sh_magic_no sh ->
  forall sched t,
    let s := run (step sh) sched (init_state sh m0 st0 q0 n) in
    nth_error (pcs s) t = Some PDone -> inits s = 1 /\ magic s = sh_magic_no sh /\ rest_ok s = true.
Proof.
  intros sh Hok m0 st0 q0 n Hm0 HmM sched t s Hd.
  destruct (static_init_once_run sh Hok m0 st0 q0 n Hm0 sched) as (_ & _ & _ & _ & H & _).
  destruct (H t Hd) as (H1 & H2 & H3). auto.
Qed.

(** * Pinned shape, non-vacuity, sensitivity *)

Definition pin_shape : shape :=
  {| sh_magic_no := 123456789; sh_initializing := 987654321; sh_static_word := 0;
     sh_fast := 123456789; sh_guard := 987654321; sh_cas_old_is_read := true; sh_cas_new := 987654321;
     sh_init_magic := 987654321; sh_final := 123456789; sh_spin := 987654321;
     sh_order := canonical_order; sh_unparsed := 0 |}.

Lemma pin_shape_ok : shape_ok pin_shape = true.
Proof. vm_compute. reflexivity. Qed.

(** three first users of a static initialiser (magic word 0): thread 0 reads, thread 1 reads, thread 1 wins
    the CAS, thread 2 reads "initializing", thread 0's CAS fails; the winner initialises (rest first);
    everybody leaves; thread 2 then locks the mutex: magic number, one initialisation, all done, nothing bad *)
Definition demo_sched : list (nat * act) :=
  [(0, Step false); (1, Step false); (1, Step false); (2, Step false); (0, Step false); (2, Step false);
   (1, Step false); (1, Step false); (1, Step false); (0, Step false); (1, Step false); (1, Step false);
   (1, Step false); (2, Step false); (1, Step false); (0, Step false); (2, Step false); (2, Use 1 [])].

Lemma demo_run :
  summary (run (step pin_shape) demo_sched (init_state pin_shape 0 77 [5] 3)) =
  (123456789%Z, 1, true, false, false, false).
Proof. vm_compute. reflexivity. Qed.

(** an initialised, locked mutex with a sleeper: nothing is touched *)
Lemma demo_already :
  let s := run (step pin_shape) [(0, Step false); (1, Step false); (0, Step false); (1, Step false)]
               (init_state pin_shape 123456789 3 [7] 2) in
  (summary s, mstate s, sleepers s) = ((123456789%Z, 0, true, false, false, false), 3%Z, [7]).
Proof. vm_compute. reflexivity. Qed.

(** sensitivity 1: without `mi.magic = initializing` (the struct store publishes the magic number while the
    other fields are still garbage) a second thread proceeds and uses an uninitialised mutex *)
Definition shape_no_local_magic : shape :=
  {| sh_magic_no := 123456789; sh_initializing := 987654321; sh_static_word := 0;
     sh_fast := 123456789; sh_guard := 987654321; sh_cas_old_is_read := true; sh_cas_new := 987654321;
     sh_init_magic := 123456789; sh_final := 123456789; sh_spin := 987654321;
     sh_order := canonical_order; sh_unparsed := 0 |}.

Lemma no_local_magic_refuted :
  shape_ok shape_no_local_magic = false /\
  exists sched, bad_use (run (step shape_no_local_magic) sched (init_state shape_no_local_magic 0 0 [] 2)) = true.
Proof.
  split; [vm_compute; reflexivity|].
  exists [(0, Step false); (0, Step false); (0, Step false); (0, Step false); (0, Step true);
          (1, Step false); (1, Step false); (1, Use 1 [])].
  vm_compute. reflexivity.
Qed.

(** sensitivity 2: the magic number stored before the struct: same failure *)
Definition shape_swapped : shape :=
  {| sh_magic_no := 123456789; sh_initializing := 987654321; sh_static_word := 0;
     sh_fast := 123456789; sh_guard := 987654321; sh_cas_old_is_read := true; sh_cas_new := 987654321;
     sh_init_magic := 987654321; sh_final := 123456789; sh_spin := 987654321;
     sh_order := ["local_init"; "local_magic"; "magic_store"; "fence"; "struct_store"]; sh_unparsed := 0 |}.

Lemma swapped_refuted :
  shape_ok shape_swapped = false /\
  exists sched, bad_use (run (step shape_swapped) sched (init_state shape_swapped 0 0 [] 2)) = true.
Proof.
  split; [vm_compute; reflexivity|].
  exists [(0, Step false); (0, Step false); (0, Step false); (0, Step false); (0, Step false);
          (1, Step false); (1, Step false); (1, Use 1 [])].
  vm_compute. reflexivity.
Qed.

(** sensitivity 3: a CAS that expects the static word instead of the value read lets a second thread
    re-initialise ... no: it makes a late comer's CAS fail and spin; but a CAS that installs the magic
    number directly (no "initializing" phase) lets the second thread through before the fields are stored *)
Definition shape_no_phase : shape :=
  {| sh_magic_no := 123456789; sh_initializing := 987654321; sh_static_word := 0;
     sh_fast := 123456789; sh_guard := 987654321; sh_cas_old_is_read := true; sh_cas_new := 123456789;
     sh_init_magic := 987654321; sh_final := 123456789; sh_spin := 987654321;
     sh_order := canonical_order; sh_unparsed := 0 |}.

Lemma no_phase_refuted :
  shape_ok shape_no_phase = false /\
  exists sched, bad_use (run (step shape_no_phase) sched (init_state shape_no_phase 0 0 [] 2)) = true.
Proof.
  split; [vm_compute; reflexivity|].
  exists [(0, Step false); (0, Step false); (1, Step false); (1, Step false); (1, Use 1 [])].
  vm_compute. reflexivity.
Qed.

(** sensitivity 4: without the guard `magic != initializing` a thread that read "initializing" would CAS
    initializing -> initializing, win a second time and re-initialise: modelled by a guard constant that
    never matches *)
Definition shape_no_guard : shape :=
  {| sh_magic_no := 123456789; sh_initializing := 987654321; sh_static_word := 0;
     sh_fast := 123456789; sh_guard := 5; sh_cas_old_is_read := true; sh_cas_new := 987654321;
     sh_init_magic := 987654321; sh_final := 123456789; sh_spin := 987654321;
     sh_order := canonical_order; sh_unparsed := 0 |}.

Lemma no_guard_refuted :
  shape_ok shape_no_guard = false /\
  exists sched, inits (run (step shape_no_guard) sched (init_state shape_no_guard 0 0 [] 2)) = 2.
Proof.
  split; [vm_compute; reflexivity|].
  exists [(0, Step false); (0, Step false); (1, Step false); (1, Step false);
          (0, Step false); (0, Step false); (0, Step false); (0, Step true);
          (1, Step false); (1, Step false); (1, Step false); (1, Step true)].
  vm_compute. reflexivity.
Qed.
