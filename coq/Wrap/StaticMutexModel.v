(** C16 -- the product of the static-initialiser handling (StaticInitModel.v) with the mutex / condition
    variable protocol model C04 and C05 are proved on (Sync/SyncModel.v): what the wrapped
    pthread_mutex_{lock,trylock,timedlock,unlock} do to ONE mutex that may be a PTHREAD_MUTEX_INITIALIZER object.

      int __wrap(pthread_mutex_lock)(pthread_mutex_t * mutex) {
        myth_handle_PTHREAD_MUTEX_INITIALIZER(mutex);          PCall o ; PInitStep ... (StaticInitModel steps)
        ret = myth_mutex_lock_body(mutex);                     PEnter (SyncModel's call) ; PSync ETick ...
        return ret; }                                          PSync (ERet v)

    The mutex words are SyncModel's [mword] (n_waiters|locked) and [mq] (sleep queue).  Before the
    conversion they hold whatever the static object holds ([w0], [q0]: garbage); the store of the
    non-magic fields of `*m = mi` writes SyncModel's initial words (state 0, empty queue): [clean].
    pthread_cond_wait / signal / broadcast are not preceded by the initialiser handling (as in the source);
    they enter SyncModel directly.  Executable definitions only; the proofs are in StaticMutexCompose.v. *)
From Coq Require Import List ZArith Bool Arith.
From MT Require Sync.SyncModel Wrap.StaticInitModel.
Import ListNotations.

Module SY := MT.Sync.SyncModel.
Module SI := MT.Wrap.StaticInitModel.

Record pstate := {
  si : SI.state;                   (* magic word, handler program counters, ghosts *)
  sy : SY.state;                   (* the mutex words, condition queues, body program counters *)
  pend : list (option SY.op);      (* per thread: the mutex operation whose initialiser handling is running *)
  entered : bool                   (* ghost: some body has been entered *)
}.

Inductive pact :=
| PCall (o : SY.op)        (* a wrapped mutex operation is called: its initialiser handling starts *)
| PInitStep (b : bool)     (* one step (one shared access) of the initialiser handling *)
| PEnter                   (* the handling has returned: the body is entered (SyncModel's call) *)
| PSync (e : SY.ev).       (* any SyncModel event: steps / callback steps / returns; calls of the cond ops *)

Definition mutex_op (o : SY.op) : bool :=
  match o with SY.Lock | SY.TryLock | SY.TimedLock | SY.Unlock => true | _ => false end.
Definition cond_op (o : SY.op) : bool :=
  match o with SY.CondWait _ | SY.Signal _ | SY.Broadcast _ => true | _ => false end.

(** the words an initialised, unused mutex has *)
Definition clean (s : SY.state) : SY.state :=
  {| SY.mword := 0%Z; SY.mq := []; SY.cqs := SY.cqs s; SY.festat := SY.festat s; SY.thr := SY.thr s |}.

Definition garble (s : SY.state) (w : Z) (q : list nat) : SY.state :=
  {| SY.mword := w; SY.mq := q; SY.cqs := SY.cqs s; SY.festat := SY.festat s; SY.thr := SY.thr s |}.

Definition mkp (a : SI.state) (b : SY.state) (c : list (option SY.op)) (d : bool) : pstate :=
  {| si := a; sy := b; pend := c; entered := d |}.

Definition lift (p : pstate) (r : option SY.state) : option pstate :=
  match r with Some s' => Some (mkp (si p) s' (pend p) (entered p)) | None => None end.

Definition pstep (sh : SI.shape) (p : pstate) (ta : nat * pact) : option pstate :=
  let (t, a) := ta in
  match a with
  | PCall o =>
      if mutex_op o then
        match nth_error (pend p) t, nth_error (SI.pcs (si p)) t, SY.get_thread (sy p) t with
        | Some None, Some hp, Some th =>
            match SY.main th with
            | SY.Idle =>
                match hp with
                | SI.PStart => Some (mkp (si p) (sy p) (SI.upd (pend p) t (Some o)) (entered p))
                | SI.PDone =>
                    match SI.step sh (si p) (t, SI.Again) with
                    | Some si' => Some (mkp si' (sy p) (SI.upd (pend p) t (Some o)) (entered p))
                    | None => None
                    end
                | _ => None
                end
            | _ => None
            end
        | _, _, _ => None
        end
      else None
  | PInitStep b =>
      match nth_error (pend p) t with
      | Some (Some _) =>
          match SI.step sh (si p) (t, SI.Step b) with
          | Some si' =>
              (* the store of the non-magic fields (the only step that counts an initialisation) writes
                 the words of an initialised mutex *)
              Some (mkp si' (if Nat.ltb (SI.inits (si p)) (SI.inits si') then clean (sy p) else sy p)
                        (pend p) (entered p))
          | None => None
          end
      | _ => None
      end
  | PEnter =>
      match nth_error (pend p) t, nth_error (SI.pcs (si p)) t with
      | Some (Some o), Some SI.PDone =>
          match SY.call (sy p) t o with
          | Some sy' => Some (mkp (si p) sy' (SI.upd (pend p) t None) true)
          | None => None
          end
      | _, _ => None
      end
  | PSync e =>
      match e with
      | SY.ECall o =>
          match nth_error (pend p) t with
          | Some None => if cond_op o then lift p (SY.step (sy p) (t, e)) else None
          | _ => None
          end
      | _ => lift p (SY.step (sy p) (t, e))
      end
  end.

(** [nt] threads, [nc] condition variables; the object's magic word is [m0] (the myth magic number: the
    mutex has just been initialised by pthread_mutex_init; anything else: a static initialiser whose other
    words are [w0], [q0]) *)
Definition pinit (sh : SI.shape) (m0 w0 : Z) (q0 : list nat) (nt nc : nat) : pstate :=
  {| si := SI.init_state sh m0 w0 q0 nt;
     sy := if (m0 =? SI.sh_magic_no sh)%Z then SY.init_state nt nc else garble (SY.init_state nt nc) w0 q0;
     pend := repeat None nt;
     entered := false |}.

(** the non-magic fields hold an initialised mutex *)
Definition ready (sh : SI.shape) (m0 : Z) (p : pstate) : bool :=
  (m0 =? SI.sh_magic_no sh)%Z || Nat.ltb 0 (SI.inits (si p)).

(** the SyncModel state a product state stands for *)
Definition proj (sh : SI.shape) (m0 : Z) (p : pstate) : SY.state :=
  if ready sh m0 p then sy p else clean (sy p).

Definition psummary (p : pstate) :=
  (SI.magic (si p), SI.inits (si p), SY.mword (sy p), SY.mq (sy p), map SY.own (SY.thr (sy p)), entered p).
