(** C16 -- myth_handle_PTHREAD_MUTEX_INITIALIZER (src/myth_wrap_pthread.c): the magic-word protocol that
    converts a statically initialised pthread mutex into a MassiveThreads mutex on first use, for ANY number
    of simultaneous first users.  Interleaving model (Lib/Interleave.v); executable definitions only.

      int magic = *magic_p;                                          PStart  -> PHave g      (one load)
      if (magic != myth_mutex_magic_no) {                            PHave g -> PDone        (g = magic_no)
        if (magic != initializing && CAS(magic_p, magic, initializing)) {   -> PWin 0       (CAS succeeded)
          myth_mutex_t mi = MYTH_MUTEX_INITIALIZER;                  PWin k: the k-th instruction of the
          mi.magic = initializing;                                           winner's micro-program
          *m = mi;                      (two stores: the magic word and the rest, in either order)
          myth_rwbarrier();
          *magic_p = myth_mutex_magic_no;
        } else {                                                     PHave g -> PSpin       (guard or CAS failed)
          while ( *magic_p == initializing) { }                       PSpin   -> PSpin | PDone | PAbort
          assert( *magic_p == myth_mutex_magic_no);
        }
      }
      return 0;                                                      PDone: the caller proceeds to the body

    One step = one shared access.  The constants in the positions of the code and the order of the winner's
    instructions are DATA ([shape]) regenerated from the current source by the translator; [shape_ok] is the
    checker under which the theorems of StaticInitProofs.v hold.  A thread that has returned may use the
    mutex arbitrarily ([Use]: any new value of the state word and of the sleep queue). *)
From Coq Require Import List String ZArith Bool Arith.
Import ListNotations.
Open Scope string_scope.

Record shape := {
  sh_magic_no : Z;              (* myth_mutex_magic_no *)
  sh_initializing : Z;          (* myth_mutex_magic_no_initializing *)
  sh_static_word : Z;           (* first word of PTHREAD_MUTEX_INITIALIZER on this platform *)
  sh_fast : Z;                  (* constant of the fast-path test  magic != _ *)
  sh_guard : Z;                 (* constant of the guard           magic != _ && CAS *)
  sh_cas_old_is_read : bool;    (* the CAS expects the value read at the top *)
  sh_cas_new : Z;               (* value the CAS installs *)
  sh_init_magic : Z;            (* mi.magic = _ *)
  sh_final : Z;                 (* *magic_p = _ *)
  sh_spin : Z;                  (* while ( *magic_p == _) *)
  sh_order : list string;       (* the winner's statements in order *)
  sh_unparsed : nat             (* statements of the function the translator did not recognise *)
}.

Inductive instr := ILocalInit | ILocalMagic | IStructStore | IFence | IMagicStore | IBad.

Definition instr_of (s : string) : instr :=
  if String.eqb s "local_init" then ILocalInit
  else if String.eqb s "local_magic" then ILocalMagic
  else if String.eqb s "struct_store" then IStructStore
  else if String.eqb s "fence" then IFence
  else if String.eqb s "magic_store" then IMagicStore
  else IBad.

Definition canonical_order : list string :=
  ["local_init"; "local_magic"; "struct_store"; "fence"; "magic_store"].

Fixpoint strs_eqb (a b : list string) : bool :=
  match a, b with
  | [], [] => true
  | x :: r, y :: r' => String.eqb x y && strs_eqb r r'
  | _, _ => false
  end.

Definition shape_ok (sh : shape) : bool :=
  negb (sh_magic_no sh =? sh_initializing sh)%Z &&
  negb (sh_static_word sh =? sh_initializing sh)%Z &&
  (sh_fast sh =? sh_magic_no sh)%Z &&
  (sh_guard sh =? sh_initializing sh)%Z &&
  sh_cas_old_is_read sh &&
  (sh_cas_new sh =? sh_initializing sh)%Z &&
  (sh_init_magic sh =? sh_initializing sh)%Z &&
  (sh_final sh =? sh_magic_no sh)%Z &&
  (sh_spin sh =? sh_initializing sh)%Z &&
  strs_eqb (sh_order sh) canonical_order &&
  Nat.eqb (sh_unparsed sh) 0.

Inductive pc :=
| PStart
| PHave (g : Z)
| PWin (k : nat) (half : option bool) (lm : Z) (li : bool)
      (* next instruction index; for a struct store in progress: [Some true] = the magic word is already
         stored, [Some false] = the rest is already stored; lm = mi.magic; li = mi has been initialised *)
| PSpin
| PDone
| PAbort.

Record state := {
  magic : Z;                (* m->magic *)
  rest_ok : bool;           (* the other fields hold an initialised mutex *)
  mstate : Z;               (* m->state  (n_waiters | locked) *)
  sleepers : list nat;      (* m->sleep_q *)
  inits : nat;              (* ghost: number of times the fields were (re)initialised *)
  uses : nat;               (* ghost: number of body operations performed on the mutex *)
  clobber : bool;           (* ghost: the fields were initialised after a body operation *)
  bad_use : bool;           (* ghost: a body operation ran on uninitialised fields *)
  win : option nat;         (* ghost: the thread whose CAS succeeded *)
  pcs : list pc
}.

(** [Again]: a thread that has returned calls the function again (every pthread_mutex_* call runs it) *)
Inductive act := Step (b : bool) | Use (st : Z) (q : list nat) | Again.

Definition set_pcs (s : state) (l : list pc) : state :=
  {| magic := magic s; rest_ok := rest_ok s; mstate := mstate s; sleepers := sleepers s; inits := inits s;
     uses := uses s; clobber := clobber s; bad_use := bad_use s; win := win s; pcs := l |}.

Definition set_magic (s : state) (v : Z) : state :=
  {| magic := v; rest_ok := rest_ok s; mstate := mstate s; sleepers := sleepers s; inits := inits s;
     uses := uses s; clobber := clobber s; bad_use := bad_use s; win := win s; pcs := pcs s |}.

Definition set_win (s : state) (t : nat) : state :=
  {| magic := magic s; rest_ok := rest_ok s; mstate := mstate s; sleepers := sleepers s; inits := inits s;
     uses := uses s; clobber := clobber s; bad_use := bad_use s; win := Some t; pcs := pcs s |}.

(** the store of the non-magic fields of *m = mi *)
Definition store_rest (s : state) (li : bool) : state :=
  {| magic := magic s; rest_ok := li; mstate := 0%Z; sleepers := []; inits := S (inits s);
     uses := uses s; clobber := clobber s || Nat.ltb 0 (uses s); bad_use := bad_use s; win := win s; pcs := pcs s |}.

Definition do_use (s : state) (st : Z) (q : list nat) : state :=
  {| magic := magic s; rest_ok := rest_ok s; mstate := st; sleepers := q; inits := inits s;
     uses := S (uses s); clobber := clobber s; bad_use := bad_use s || negb (rest_ok s); win := win s; pcs := pcs s |}.

Fixpoint upd {A} (l : list A) (i : nat) (x : A) : list A :=
  match l, i with
  | [], _ => []
  | _ :: r, O => x :: r
  | y :: r, S j => y :: upd r j x
  end.

(** garbage word stored when mi was never initialised *)
Definition junk : Z := (-1)%Z.

(** one step of thread [t] whose program counter is [p]: new shared state (pcs untouched) and new pc *)
Definition tstep (sh : shape) (s : state) (t : nat) (p : pc) (a : act) : option (state * pc) :=
  match p, a with
  | PStart, Step _ => Some (s, PHave (magic s))
  | PHave g, Step _ =>
      if (g =? sh_fast sh)%Z then Some (s, PDone)
      else if negb (g =? sh_guard sh)%Z then
             let expected := if sh_cas_old_is_read sh then g else sh_static_word sh in
             if (magic s =? expected)%Z
             then Some (set_win (set_magic s (sh_cas_new sh)) t, PWin 0 None junk false)
             else Some (s, PSpin)
           else Some (s, PSpin)
  | PWin k half lm li, Step b =>
      match nth_error (sh_order sh) k with
      | None => Some (s, PDone)                                  (* return 0 *)
      | Some name =>
        match instr_of name with
        | ILocalInit => Some (s, PWin (S k) None (sh_magic_no sh) true)
        | ILocalMagic => Some (s, PWin (S k) None (sh_init_magic sh) li)
        | IStructStore =>
            let w := if li then lm else junk in
            match half with
            | None => if b then Some (set_magic s w, PWin k (Some true) lm li)
                      else Some (store_rest s li, PWin k (Some false) lm li)
            | Some true => Some (store_rest s li, PWin (S k) None lm li)
            | Some false => Some (set_magic s w, PWin (S k) None lm li)
            end
        | IFence => Some (s, PWin (S k) None lm li)
        | IMagicStore => Some (set_magic s (sh_final sh), PWin (S k) None lm li)
        | IBad => Some (s, PAbort)
        end
      end
  | PSpin, Step _ =>
      if (magic s =? sh_spin sh)%Z then Some (s, PSpin)
      else if (magic s =? sh_magic_no sh)%Z then Some (s, PDone)
      else Some (s, PAbort)
  | PDone, Use st q => Some (do_use s st q, PDone)
  | PDone, Again => Some (s, PStart)
  | _, _ => None
  end.

Definition step (sh : shape) (s : state) (ta : nat * act) : option state :=
  match nth_error (pcs s) (fst ta) with
  | None => None
  | Some p =>
    match tstep sh s (fst ta) p (snd ta) with
    | None => None
    | Some (s', p') => Some (set_pcs s' (upd (pcs s') (fst ta) p'))
    end
  end.

(** initial states: [n] threads about to call the function on a mutex whose magic word is [m0]
    (the myth magic number: already initialised, possibly locked with sleepers; anything else: a static
    initialiser) with arbitrary other fields *)
Definition init_state (sh : shape) (m0 st0 : Z) (q0 : list nat) (n : nat) : state :=
  {| magic := m0; rest_ok := (m0 =? sh_magic_no sh)%Z; mstate := st0; sleepers := q0; inits := 0; uses := 0;
     clobber := false; bad_use := false; win := None; pcs := repeat PStart n |}.

Definition is_done (p : pc) : bool := match p with PDone => true | _ => false end.
Definition is_abort (p : pc) : bool := match p with PAbort => true | _ => false end.

(** observation used by examples / the unit harness: (magic, inits, all done, any abort, clobber, bad_use) *)
Definition summary (s : state) : Z * nat * bool * bool * bool * bool :=
  (magic s, inits s, forallb is_done (pcs s), existsb is_abort (pcs s), clobber s, bad_use s).
