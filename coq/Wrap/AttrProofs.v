(** C16 -- the translated thread attribute has every field defined; detach state and stack size are the
    pthread attribute's.  Generic in the field / step lists (regenerated from the source by the translator). *)
From Coq Require Import List String ZArith Bool Lia.
From MT Require Import Wrap.AttrModel.
Import ListNotations.
Open Scope string_scope.

Definition present (f : string) (a : attr) : Prop := lookup f a <> None.
Definition defined (f : string) (a : attr) : Prop := exists z, lookup f a = Some (Val z).

Lemma lookup_write f g v a :
  lookup f (write g v a) =
  if String.eqb g f then match lookup f a with Some _ => Some (Val v) | None => None end
  else lookup f a.
Proof.
  induction a as [|[h x] r IH]; cbn [write lookup].
  - destruct (String.eqb g f); reflexivity.
  - destruct (String.eqb_spec h g) as [Hhg|Hhg]; cbn [lookup].
    + subst h. destruct (String.eqb_spec g f) as [Hgf|Hgf]; [reflexivity|].
      rewrite IH. destruct (String.eqb_spec g f); [contradiction|reflexivity].
    + destruct (String.eqb_spec h f) as [Hhf|Hhf].
      * subst h. destruct (String.eqb_spec g f) as [Hgf|Hgf]; [congruence|reflexivity].
      * exact IH.
Qed.

Lemma mem_In f l : mem f l = true -> In f l.
Proof.
  unfold mem. intros H. apply existsb_exists in H. destruct H as (x & Hx & He).
  apply String.eqb_eq in He. subst. exact Hx.
Qed.

Lemma present_write f g v a : present f a -> present f (write g v a).
Proof.
  unfold present. rewrite lookup_write. destruct (String.eqb g f); [|tauto].
  destruct (lookup f a); [discriminate | tauto].
Qed.

Lemma defined_write f g v a : defined f a -> defined f (write g v a).
Proof.
  unfold defined. intros [z Hz]. rewrite lookup_write, Hz.
  destruct (String.eqb g f); eauto.
Qed.

Lemma defined_write_same f v a : present f a -> defined f (write f v a).
Proof.
  unfold present, defined. intros Hp. rewrite lookup_write, String.eqb_refl.
  destruct (lookup f a); [eauto | contradiction].
Qed.

Lemma present_writes f src fs : forall a, present f a -> present f (writes fs src a).
Proof.
  unfold writes. induction fs as [|g r IH]; intros a Hp; cbn [fold_left]; [exact Hp|].
  apply IH. apply present_write. exact Hp.
Qed.

Lemma defined_writes f src fs : forall a,
  present f a -> In f fs \/ defined f a -> defined f (writes fs src a).
Proof.
  unfold writes. induction fs as [|g r IH]; intros a Hp Hd; cbn [fold_left].
  - destruct Hd as [[]|Hd]. exact Hd.
  - apply IH; [apply present_write; exact Hp|].
    destruct Hd as [[Hg|Hin]|Hd].
    + subst g. right. apply defined_write_same. exact Hp.
    + left. exact Hin.
    + right. apply defined_write. exact Hd.
Qed.

Lemma present_steps f iw dflt pth steps : forall a,
  present f a -> present f (fold_left (xstep iw dflt pth) steps a).
Proof.
  induction steps as [|st r IH]; intros a Hp; cbn [fold_left]; [exact Hp|].
  apply IH. unfold xstep. apply present_writes. exact Hp.
Qed.

Lemma defined_steps f iw dflt pth steps : forall a,
  present f a -> In f (written iw steps) \/ defined f a ->
  defined f (fold_left (xstep iw dflt pth) steps a).
Proof.
  induction steps as [|st r IH]; intros a Hp Hd; cbn [fold_left].
  - destruct Hd as [[]|Hd]. exact Hd.
  - apply IH; [unfold xstep; apply present_writes; exact Hp|].
    unfold written in Hd. cbn [flat_map] in Hd.
    destruct Hd as [Hin|Hd].
    + apply in_app_or in Hin. destruct Hin as [Hin|Hin].
      * right. unfold xstep. apply defined_writes; [exact Hp | left; exact Hin].
      * left. exact Hin.
    + right. unfold xstep. apply defined_writes; [exact Hp | right; exact Hd].
Qed.

Lemma present_garbage f fields : In f fields -> present f (garbage fields).
Proof.
  unfold present, garbage. induction fields as [|g r IH]; intros Hin; [destruct Hin|].
  cbn [map lookup]. destruct (String.eqb_spec g f) as [Hg|Hg]; [discriminate|].
  apply IH. destruct Hin as [Hin|Hin]; [congruence | exact Hin].
Qed.

(** * Every field of the translated attribute is defined *)

Theorem attr_translation_defined : forall fields iw steps null_ok reads dflt pth,
  attr_check fields iw steps null_ok reads = true ->
  forall f, In f fields -> defined f (attr_to_myth fields iw steps dflt pth).
Proof.
  intros fields iw steps null_ok reads dflt pth H f Hf.
  unfold attr_check in H.
  repeat (apply andb_true_iff in H; destruct H as [H ?H]).
  rewrite forallb_forall in H9.
  unfold attr_to_myth. apply defined_steps.
  - apply present_garbage. exact Hf.
  - left. apply mem_In. apply H9. exact Hf.
Qed.

(** ... in particular every field myth_create_ex_body reads *)
Corollary attr_create_reads_defined : forall fields iw steps null_ok reads dflt pth,
  attr_check fields iw steps null_ok reads = true ->
  forall f, In f reads -> defined f (attr_to_myth fields iw steps dflt pth).
Proof.
  intros fields iw steps null_ok reads dflt pth H f Hf.
  apply (attr_translation_defined fields iw steps null_ok reads dflt pth H).
  unfold attr_check in H. apply andb_true_iff in H. destruct H as [_ H].
  rewrite forallb_forall in H. apply mem_In. apply H. exact Hf.
Qed.

(** * Detach state and stack size are the pthread attribute's *)

Lemma lookup_writes_pth f pth fs : forall a,
  present f a -> In f fs \/ lookup f a = Some (Val (pth f)) ->
  lookup f (writes fs pth a) = Some (Val (pth f)).
Proof.
  unfold writes. induction fs as [|g r IH]; intros a Hp Hd; cbn [fold_left].
  - destruct Hd as [[]|Hd]. exact Hd.
  - apply IH; [apply present_write; exact Hp|].
    destruct (String.eqb_spec g f) as [Hg|Hg].
    + subst g. right. rewrite lookup_write, String.eqb_refl.
      unfold present in Hp. destruct (lookup f a); [reflexivity | contradiction].
    + destruct Hd as [[Hgf|Hin]|Hd]; [congruence | left; exact Hin |].
      right. rewrite lookup_write. destruct (String.eqb_spec g f); [contradiction | exact Hd].
Qed.

Lemma lookup_steps_pth f iw dflt pth steps : forall a,
  mem init_name (map fst steps) = false ->
  present f a -> In f (flat_map snd steps) \/ lookup f a = Some (Val (pth f)) ->
  lookup f (fold_left (xstep iw dflt pth) steps a) = Some (Val (pth f)).
Proof.
  induction steps as [|st r IH]; intros a Hn Hp Hd; cbn [fold_left].
  - destruct Hd as [[]|Hd]. exact Hd.
  - cbn [map mem existsb] in Hn. unfold mem in Hn. cbn [existsb] in Hn.
    apply orb_false_iff in Hn. destruct Hn as [Hn1 Hn2].
    assert (Hst : String.eqb (fst st) init_name = false).
    { rewrite String.eqb_sym. exact Hn1. }
    apply IH; [exact Hn2 | unfold xstep; apply present_writes; exact Hp |].
    unfold xstep, step_writes. rewrite Hst.
    cbn [flat_map] in Hd. destruct Hd as [Hin|Hd].
    + apply in_app_or in Hin. destruct Hin as [Hin|Hin].
      * right. apply lookup_writes_pth; [exact Hp | left; exact Hin].
      * left. exact Hin.
    + right. apply lookup_writes_pth; [exact Hp | right; exact Hd].
Qed.

Theorem attr_translation_values : forall fields iw steps null_ok reads dflt pth,
  attr_check fields iw steps null_ok reads = true ->
  lookup "detachstate" (attr_to_myth fields iw steps dflt pth) = Some (Val (pth "detachstate")) /\
  lookup "stacksize" (attr_to_myth fields iw steps dflt pth) = Some (Val (pth "stacksize")) /\
  In "detachstate" reads /\ In "stacksize" reads.
Proof.
  intros fields iw steps null_ok reads dflt pth H.
  unfold attr_check in H.
  repeat (apply andb_true_iff in H; destruct H as [H ?H]).
  destruct steps as [|[n0 w0] r]; [discriminate|].
  cbn [init_first] in H7. apply andb_true_iff in H7. destruct H7 as [_ Hnoinit].
  apply negb_true_iff in Hnoinit.
  cbn [tl] in H6, H5.
  unfold attr_to_myth. cbn [fold_left].
  assert (Hp : forall f, mem f fields = true ->
                 present f (xstep iw dflt pth (garbage fields) (n0, w0))).
  { intros f Hf. unfold xstep. apply present_writes. apply present_garbage. apply mem_In. exact Hf. }
  split; [|split; [|split]].
  - apply lookup_steps_pth; [exact Hnoinit | apply Hp; exact H4 | left; apply mem_In; exact H6].
  - apply lookup_steps_pth; [exact Hnoinit | apply Hp; exact H3 | left; apply mem_In; exact H5].
  - apply mem_In. exact H2.
  - apply mem_In. exact H1.
Qed.

(** * Pinned tree (with 85e96a1 and e6d6e48) and the pre-fix variants *)

Definition pin_fields := ["stackaddr"; "stacksize"; "guardsize"; "detachstate"; "child_first"; "custom_data_size"; "custom_data"].
Definition pin_init_writes := ["child_first"; "custom_data"; "custom_data_size"; "detachstate"; "guardsize"; "stackaddr"; "stacksize"].
Definition pin_create_reads := ["child_first"; "custom_data"; "custom_data_size"; "detachstate"; "stacksize"].
Definition pin_steps := [("myth_thread_attr_init_body", @nil string); ("pthread_attr_getdetachstate", ["detachstate"]);
                         ("pthread_attr_getstack", ["stackaddr"; "stacksize"]); ("return", [])].

Lemma pin_attr_ok : attr_check pin_fields pin_init_writes pin_steps true pin_create_reads = true.
Proof. vm_compute. reflexivity. Qed.

(** before 85e96a1 myth_thread_attr_init_body did not write custom_data_size / custom_data *)
Definition prefix_init_writes := ["child_first"; "detachstate"; "guardsize"; "stackaddr"; "stacksize"].

Lemma prefix_attr_rejected : attr_check pin_fields prefix_init_writes pin_steps true pin_create_reads = false.
Proof. vm_compute. reflexivity. Qed.

(** ... and the translated attribute really had an undefined field that creation reads (the length of a memcpy) *)
Lemma attr_translation_prefix_refuted :
  exists f, In f pin_fields /\ In f pin_create_reads /\
    forall dflt pth, lookup f (attr_to_myth pin_fields prefix_init_writes pin_steps dflt pth) = Some Undef.
Proof.
  exists "custom_data_size". split; [cbn; tauto|]. split; [cbn; tauto|].
  intros dflt pth. vm_compute. reflexivity.
Qed.

(** before e6d6e48 creation did not read attr->detachstate: rejected as well *)
Lemma predetach_attr_rejected :
  attr_check pin_fields pin_init_writes pin_steps true ["child_first"; "custom_data"; "custom_data_size"; "stacksize"] = false.
Proof. vm_compute. reflexivity. Qed.
