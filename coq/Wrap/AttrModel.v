(** C16 -- translation of a pthread_attr_t into a myth_thread_attr_t (pthread_attr_to_myth in
    src/myth_wrap_pthread.c, myth_thread_attr_init_body in src/myth_sched_func.h).

    The translated attribute lives in an uninitialised local buffer (`myth_thread_attr_t mattr_[1]` on the
    wrapper's stack), so every field starts [Undef]; a field is [Val] once some step has written it.
    The lists (fields of the struct, fields written by the init routine, the steps of the translator and the
    fields each one writes, the fields myth_create_ex_body reads) are regenerated from the current source by
    the translator; the definitions below are generic in them.  Executable definitions only. *)
From Coq Require Import List String ZArith Bool.
Import ListNotations.
Open Scope string_scope.

Inductive fval := Undef | Val (z : Z).

Definition attr := list (string * fval).

Definition garbage (fields : list string) : attr := map (fun f => (f, Undef)) fields.

Fixpoint write (f : string) (v : Z) (a : attr) : attr :=
  match a with
  | [] => []
  | (g, x) :: r => if String.eqb g f then (g, Val v) :: write f v r else (g, x) :: write f v r
  end.

Fixpoint lookup (f : string) (a : attr) : option fval :=
  match a with
  | [] => None
  | (g, x) :: r => if String.eqb g f then Some x else lookup f r
  end.

Definition writes (fs : list string) (src : string -> Z) (a : attr) : attr :=
  fold_left (fun a f => write f (src f) a) fs a.

Definition init_name := "myth_thread_attr_init_body".

(** one step of the translator: (callee, fields passed as &m->field).  The init step writes the fields the
    init routine writes (defaults [dflt]); a getter writes its fields from the pthread attribute [pth]. *)
Definition step_writes (init_writes : list string) (st : string * list string) : list string :=
  if String.eqb (fst st) init_name then init_writes else snd st.

Definition xstep (init_writes : list string) (dflt pth : string -> Z) (a : attr) (st : string * list string) : attr :=
  writes (step_writes init_writes st) (if String.eqb (fst st) init_name then dflt else pth) a.

Definition attr_to_myth (fields init_writes : list string) (steps : list (string * list string))
           (dflt pth : string -> Z) : attr :=
  fold_left (xstep init_writes dflt pth) steps (garbage fields).

Definition mem (f : string) (l : list string) : bool := existsb (String.eqb f) l.

Definition written (init_writes : list string) (steps : list (string * list string)) : list string :=
  flat_map (step_writes init_writes) steps.

Definition known_step (st : string * list string) : bool :=
  mem (fst st) [init_name; "pthread_attr_getdetachstate"; "pthread_attr_getstack"; "return"].

Definition init_first (steps : list (string * list string)) : bool :=
  match steps with
  | (n, _) :: r => String.eqb n init_name && negb (mem init_name (map fst r))
  | [] => false
  end.

(** the checker: NULL maps to NULL (default attributes), every field of the struct is written by some step,
    the init routine runs first (so that it cannot overwrite what the getters fetched), detach state and
    stack size are fetched from the pthread attribute, and creation reads them *)
Definition attr_check (fields init_writes : list string) (steps : list (string * list string))
           (null_ok : bool) (create_reads : list string) : bool :=
  null_ok &&
  forallb (fun f => mem f (written init_writes steps)) fields &&
  forallb known_step steps &&
  init_first steps &&
  mem "detachstate" (flat_map snd (tl steps)) && mem "stacksize" (flat_map snd (tl steps)) &&
  mem "detachstate" fields && mem "stacksize" fields &&
  mem "detachstate" create_reads && mem "stacksize" create_reads &&
  forallb (fun f => mem f fields) create_reads.

Definition all_defined (a : attr) : bool :=
  forallb (fun p => match snd p with Val _ => true | Undef => false end) a.
