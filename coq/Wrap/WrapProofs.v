(** C16 -- soundness of the wrapper-table checker of WrapSpec.v. *)
From Coq Require Import List String ZArith Bool Arith Lia.
From MT Require Import Wrap.WrapSpec.
Import ListNotations.
Open Scope string_scope.

(** * Equality tests are sound *)

Lemma aexp_eqb_eq a b : aexp_eqb a b = true -> a = b.
Proof.
  destruct a as [i|f i|s], b as [j|g j|s']; cbn; intros H; try discriminate.
  - apply Nat.eqb_eq in H. subst. reflexivity.
  - apply andb_true_iff in H. destruct H as [H1 H2].
    apply String.eqb_eq in H1. apply Nat.eqb_eq in H2. subst. reflexivity.
Qed.

Lemma list_eqb_eq {A} (eqb : A -> A -> bool) :
  (forall x y, eqb x y = true -> x = y) ->
  forall l1 l2, list_eqb eqb l1 l2 = true -> l1 = l2.
Proof.
  intros Heq l1. induction l1 as [|x r IH]; intros [|y r2] H; cbn in H; try discriminate.
  - reflexivity.
  - apply andb_true_iff in H. destruct H as [H1 H2].
    apply Heq in H1. apply IH in H2. subst. reflexivity.
Qed.

Lemma aexps_eqb_eq l1 l2 : list_eqb aexp_eqb l1 l2 = true -> l1 = l2.
Proof. apply list_eqb_eq. exact aexp_eqb_eq. Qed.

Lemma stmt_eqb_eq s t : stmt_eqb s t = true -> s = t.
Proof.
  destruct s, t; cbn; intros H; try discriminate.
  - apply aexp_eqb_eq in H. subst. reflexivity.
  - reflexivity.
  - apply andb_true_iff in H. destruct H as [H1 H2].
    apply String.eqb_eq in H1. apply aexps_eqb_eq in H2. subst. reflexivity.
  - apply andb_true_iff in H. destruct H as [H1 H2].
    apply String.eqb_eq in H1. apply aexps_eqb_eq in H2. subst. reflexivity.
  - repeat (apply andb_true_iff in H; destruct H as [H ?H]).
    apply String.eqb_eq in H. apply aexps_eqb_eq in H2. apply Z.eqb_eq in H1. apply Z.eqb_eq in H0.
    subst. reflexivity.
  - apply Z.eqb_eq in H. subst. reflexivity.
  - repeat (apply andb_true_iff in H; destruct H as [H ?H]).
    apply Z.eqb_eq in H. apply Z.eqb_eq in H1. apply Z.eqb_eq in H0. subst. reflexivity.
Qed.

Lemma stmts_eqb_eq l1 l2 : stmts_eqb l1 l2 = true -> l1 = l2.
Proof. apply list_eqb_eq. exact stmt_eqb_eq. Qed.

Lemma call_eqb_eq c f args : call_eqb c f args = true -> c = Some (f, args).
Proof.
  destruct c as [[g a]|]; cbn; intros H; try discriminate.
  apply andb_true_iff in H. destruct H as [H1 H2].
  apply String.eqb_eq in H1. apply aexps_eqb_eq in H2. subst. reflexivity.
Qed.

(** * Semantics of the expected statement lists *)

Lemma exec_expected K E args o :
  exec E args (expected_stmts K o) RUnset =
  (spec_events E args o, posix_ret K o (body E (o_body o) (map (eval E args) (o_args o)))).
Proof.
  unfold expected_stmts, spec_events, posix_ret.
  destruct (o_init o) as [i|]; destruct (o_ret o); cbn [app exec cons_ev fst snd eval]; try reflexivity.
  - destruct (body E (o_body o) (map (eval E args) (o_args o)) =? k_myth_serial K)%Z; [reflexivity|].
    destruct (body E (o_body o) (map (eval E args) (o_args o)) =? 0)%Z eqn:E0; [|reflexivity].
    apply Z.eqb_eq in E0. rewrite E0. reflexivity.
  - destruct (body E (o_body o) (map (eval E args) (o_args o)) =? k_myth_serial K)%Z; [reflexivity|].
    destruct (body E (o_body o) (map (eval E args) (o_args o)) =? 0)%Z eqn:E0; [|reflexivity].
    apply Z.eqb_eq in E0. rewrite E0. reflexivity.
Qed.

Lemma exec_expected_real E args name arity void :
  exec E args (expected_real name arity void) RUnset =
  ([EvCall ("real_" ++ name) (map (eval E args) (params arity))],
   if void then RUnset else RVal (body E ("real_" ++ name) (map (eval E args) (params arity)))).
Proof. unfold expected_real. destruct void; reflexivity. Qed.

(** the argument list of the real function is the wrapper's own argument list, in order *)
Lemma eval_params_from E args : forall n k,
  map (eval E args) (params_from k n) = map (fun i => nth i args 0%Z) (seq k n).
Proof.
  induction n as [|n IH]; intros k; cbn; [reflexivity|]. rewrite IH. reflexivity.
Qed.

Lemma map_nth_seq_id (args : list Z) :
  map (fun i => nth i args 0%Z) (seq 0 (List.length args)) = args.
Proof.
  induction args as [|a r IH]; cbn [List.length seq map]; [reflexivity|].
  f_equal. rewrite <- seq_shift, map_map. cbn [nth]. exact IH.
Qed.

Lemma eval_params_identity E args :
  map (eval E args) (params (List.length args)) = args.
Proof. unfold params. rewrite eval_params_from. apply map_nth_seq_id. Qed.

(** * The statement the checker establishes for one operation *)

Definition forwards (K : wconsts) (t : list entry) (o : opspec) : Prop :=
  exists e,
    find_entry (o_name o) t = Some e /\ count_entries (o_name o) t = 1%nat /\
    e_name e = o_name o /\ e_arity e = o_arity o /\ e_guarded e = true /\
    (* wrapped mode: initialiser handling first (where required), then exactly one call, to the intended
       body, with the arguments in the intended order; the value returned is the POSIX value *)
    (forall E args,
        run_wrapped E e args =
        (spec_events E args o, posix_ret K o (body E (o_body o) (map (eval E args) (o_args o))))) /\
    (* unwrapped mode (MYTH_WRAP_PTHREAD=0): exactly one call, to real_<name>, arguments in order *)
    (forall E args,
        run_real E e args =
        ([EvCall ("real_" ++ o_name o) (map (eval E args) (params (o_arity o)))],
         if is_void o then RUnset
         else RVal (body E ("real_" ++ o_name o) (map (eval E args) (params (o_arity o)))))) /\
    (* the result register is what the wrapper returns *)
    e_returns_ret e = negb (is_void o) /\
    (* both redirection mechanisms reach the system function *)
    e_in_opts e = true /\
    e_real_ld e = Some ("__real_" ++ o_name o, params (o_arity o)) /\
    e_real_dl e = Some ("real_function_table." ++ o_name o, params (o_arity o)).

Definition passes (t : list entry) (p : string * nat) : Prop :=
  exists e,
    find_entry (fst p) t = Some e /\ count_entries (fst p) t = 1%nat /\
    e_arity e = snd p /\ e_guarded e = false /\
    (forall E args,
        run_wrapped E e args =
        ([EvCall ("real_" ++ fst p) (map (eval E args) (params (snd p)))],
         RVal (body E ("real_" ++ fst p) (map (eval E args) (params (snd p)))))) /\
    e_returns_ret e = true /\ e_in_opts e = true /\
    e_real_ld e = Some ("__real_" ++ fst p, params (snd p)) /\
    e_real_dl e = Some ("real_function_table." ++ fst p, params (snd p)).

Lemma find_entry_name n t e : find_entry n t = Some e -> e_name e = n.
Proof.
  induction t as [|x r IH]; cbn; [discriminate|].
  destruct (String.eqb (e_name x) n) eqn:Hx.
  - intros H. inversion H. subst. apply String.eqb_eq. exact Hx.
  - exact IH.
Qed.

Lemma real_side_sound name arity e :
  real_side_ok name arity e = true ->
  e_in_opts e = true /\ e_real_ld e = Some ("__real_" ++ name, params arity) /\
  e_real_dl e = Some ("real_function_table." ++ name, params arity).
Proof.
  unfold real_side_ok. intros H.
  apply andb_true_iff in H. destruct H as [H H3].
  apply andb_true_iff in H. destruct H as [H1 H2].
  split; [exact H1|]. split; [apply call_eqb_eq; exact H2 | apply call_eqb_eq; exact H3].
Qed.

Lemma op_ok_sound K t o : op_ok K t o = true -> forwards K t o.
Proof.
  unfold op_ok. destruct (find_entry (o_name o) t) as [e|] eqn:Hf; [|discriminate].
  intros H. apply andb_true_iff in H. destruct H as [He Hc].
  apply Nat.eqb_eq in Hc.
  unfold entry_ok in He.
  apply andb_true_iff in He. destruct He as [He H6].
  apply andb_true_iff in He. destruct He as [He H5].
  apply andb_true_iff in He. destruct He as [He H4].
  apply andb_true_iff in He. destruct He as [He H3].
  apply andb_true_iff in He. destruct He as [H1 H2].
  apply Nat.eqb_eq in H1. apply stmts_eqb_eq in H3. apply stmts_eqb_eq in H4.
  apply Bool.eqb_prop in H5. apply real_side_sound in H6. destruct H6 as (H6 & H7 & H8).
  exists e. split; [exact Hf|]. split; [exact Hc|].
  split; [eapply find_entry_name; exact Hf|]. split; [exact H1|]. split; [exact H2|].
  split; [|split; [|split; [exact H5 | split; [exact H6 | split; [exact H7 | exact H8]]]]].
  - intros E args. unfold run_wrapped. rewrite H3. apply exec_expected.
  - intros E args. unfold run_real. rewrite H4. apply exec_expected_real.
Qed.

Lemma pass_ok_sound t p : pass_ok t p = true -> passes t p.
Proof.
  unfold pass_ok. destruct (find_entry (fst p) t) as [e|] eqn:Hf; [|discriminate].
  intros H. apply andb_true_iff in H. destruct H as [He Hc].
  apply Nat.eqb_eq in Hc.
  unfold pass_entry_ok in He.
  apply andb_true_iff in He. destruct He as [He H5].
  apply andb_true_iff in He. destruct He as [He H4].
  apply andb_true_iff in He. destruct He as [He H3].
  apply andb_true_iff in He. destruct He as [H1 H2].
  apply Nat.eqb_eq in H1. apply negb_true_iff in H2. apply stmts_eqb_eq in H3.
  apply real_side_sound in H5. destruct H5 as (H5 & H6 & H7).
  exists e. split; [exact Hf|]. split; [exact Hc|]. split; [exact H1|]. split; [exact H2|].
  split; [|split; [exact H4 | split; [exact H5 | split; [exact H6 | exact H7]]]].
  intros E args. unfold run_wrapped. rewrite H3. rewrite exec_expected_real. reflexivity.
Qed.

(** * Soundness of the table checker *)

Theorem wrap_table_sound : forall K t,
  wrap_table_ok K t = true ->
  (forall o, In o posix_subset -> forwards K t o) /\
  (forall p, In p passthrough_subset -> passes t p).
Proof.
  intros K t H. unfold wrap_table_ok in H.
  apply andb_true_iff in H. destruct H as [H _].
  apply andb_true_iff in H. destruct H as [H H2].
  apply andb_true_iff in H. destruct H as [_ H1].
  rewrite forallb_forall in H1, H2.
  split.
  - intros o Ho. apply op_ok_sound. apply H1. exact Ho.
  - intros p Hp. apply pass_ok_sound. apply H2. exact Hp.
Qed.

(** optional operations: absent from the table, or forwarded like the others *)
Theorem wrap_table_optional : forall K t,
  wrap_table_ok K t = true ->
  forall o, In o optional_subset -> find_entry (o_name o) t = None \/ forwards K t o.
Proof.
  intros K t H o Ho. unfold wrap_table_ok in H.
  apply andb_true_iff in H. destruct H as [_ H]. rewrite forallb_forall in H. specialize (H o Ho).
  unfold opt_ok in H. destruct (find_entry (o_name o) t) as [e|] eqn:Hf; [|left; reflexivity].
  right. apply op_ok_sound. unfold op_ok. rewrite Hf. exact H.
Qed.

(** * Consequences spelled out *)

(** every mutex entry point through which a statically initialised mutex can be used for the first time
    runs the initialiser handling on that mutex BEFORE the body *)
Lemma first_use_spec : forall o, In o posix_subset -> In (o_name o) mutex_first_use -> o_init o = Some 0%nat.
Proof.
  assert (H : forallb (fun o => implb (existsb (String.eqb (o_name o)) mutex_first_use)
                                      (match o_init o with Some O => true | _ => false end))
                      posix_subset = true) by (vm_compute; reflexivity).
  rewrite forallb_forall in H. intros o Ho Hn. specialize (H o Ho).
  assert (Hex : existsb (String.eqb (o_name o)) mutex_first_use = true).
  { apply existsb_exists. exists (o_name o). split; [exact Hn | apply String.eqb_refl]. }
  rewrite Hex in H. cbn in H. destruct (o_init o) as [[|n]|]; try discriminate. reflexivity.
Qed.

Theorem wrap_table_init_first : forall K t,
  wrap_table_ok K t = true ->
  forall o, In o posix_subset -> In (o_name o) mutex_first_use ->
  exists e, find_entry (o_name o) t = Some e /\
    forall E args, fst (run_wrapped E e args) =
                   [EvInit (nth 0 args 0%Z); EvCall (o_body o) (map (eval E args) (o_args o))].
Proof.
  intros K t H o Ho Hn.
  destruct (wrap_table_sound K t H) as [Hf _].
  destruct (Hf o Ho) as (e & Hfe & _ & _ & _ & _ & Hw & _).
  exists e. split; [exact Hfe|]. intros E args. rewrite Hw. cbn [fst].
  unfold spec_events. rewrite (first_use_spec o Ho Hn). reflexivity.
Qed.

(** the serial thread of a barrier is reported with the POSIX constant, every other waiter gets 0 *)
Theorem wrap_table_barrier_ret : forall K t,
  wrap_table_ok K t = true ->
  exists e, find_entry "pthread_barrier_wait" t = Some e /\
    forall E args,
      let r := body E "myth_barrier_wait_body" [nth 0 args 0%Z] in
      (r = k_myth_serial K -> snd (run_wrapped E e args) = RVal (k_posix_serial K)) /\
      (r = 0%Z -> snd (run_wrapped E e args) = RVal 0%Z) /\
      k_posix_serial K <> 0%Z.
Proof.
  intros K t H.
  assert (Hin : In (mk "pthread_barrier_wait" 1 "myth_barrier_wait_body" [P 0] None RBarrier) posix_subset)
    by (cbn; tauto).
  destruct (wrap_table_sound K t H) as [Hf _].
  destruct (Hf _ Hin) as (e & Hfe & _ & _ & _ & _ & Hw & _).
  exists e. split; [exact Hfe|]. intros E args r.
  unfold wrap_table_ok in H. apply andb_true_iff in H. destruct H as [H _].
  apply andb_true_iff in H. destruct H as [H _].
  apply andb_true_iff in H. destruct H as [Hk _]. unfold consts_ok in Hk.
  apply andb_true_iff in Hk. destruct Hk as [Hk _]. apply andb_true_iff in Hk. destruct Hk as [Hk1 Hk2].
  apply negb_true_iff in Hk1. apply negb_true_iff in Hk2.
  apply Z.eqb_neq in Hk1. apply Z.eqb_neq in Hk2.
  split; [|split].
  - intros Hr. rewrite Hw. cbn [snd]. unfold posix_ret. cbn [o_ret mk o_body o_args map eval P].
    fold r. rewrite Hr. rewrite Z.eqb_refl. reflexivity.
  - intros Hr. rewrite Hw. cbn [snd]. unfold posix_ret. cbn [o_ret mk o_body o_args map eval P].
    fold r. rewrite Hr.
    destruct (0 =? k_myth_serial K)%Z eqn:E0.
    + apply Z.eqb_eq in E0. congruence.
    + reflexivity.
  - exact Hk2.
Qed.

(** pthread_spin_trylock: 0 when the body acquired the lock, EBUSY otherwise; pthread_spin_lock: 0 *)
Theorem wrap_table_spin_ret : forall K t,
  wrap_table_ok K t = true ->
  (exists e, find_entry "pthread_spin_trylock" t = Some e /\
     forall E args, snd (run_wrapped E e args) =
       RVal (if (body E "myth_spin_trylock_body" [nth 0 args 0%Z] =? 0)%Z then k_ebusy K else 0%Z)) /\
  (exists e, find_entry "pthread_spin_lock" t = Some e /\
     forall E args, snd (run_wrapped E e args) = RVal 0%Z) /\
  k_ebusy K <> 0%Z.
Proof.
  intros K t H.
  destruct (wrap_table_sound K t H) as [Hf _].
  assert (H1 : In (mk "pthread_spin_trylock" 1 "myth_spin_trylock_body" [P 0] None RSpinTry) posix_subset)
    by (cbn; tauto).
  assert (H2 : In (mk "pthread_spin_lock" 1 "myth_spin_lock_body" [P 0] None RZero) posix_subset)
    by (cbn; tauto).
  split; [|split].
  - destruct (Hf _ H1) as (e & Hfe & _ & _ & _ & _ & Hw & _). exists e. split; [exact Hfe|].
    intros E args. rewrite Hw. reflexivity.
  - destruct (Hf _ H2) as (e & Hfe & _ & _ & _ & _ & Hw & _). exists e. split; [exact Hfe|].
    intros E args. rewrite Hw. reflexivity.
  - unfold wrap_table_ok in H. apply andb_true_iff in H. destruct H as [H _].
    apply andb_true_iff in H. destruct H as [H _].
    apply andb_true_iff in H. destruct H as [Hk _]. unfold consts_ok in Hk.
    apply andb_true_iff in Hk. destruct Hk as [_ Hk]. apply negb_true_iff in Hk. apply Z.eqb_neq in Hk. exact Hk.
Qed.

(** overlaid types fit *)
Theorem sizes_sound : forall sizes,
  sizes_ok sizes = true ->
  forall n, In n overlaid_types -> exists a b, find_size n sizes = Some (a, b) /\ (0 < a <= b)%Z.
Proof.
  intros sizes H n Hn. unfold sizes_ok in H. rewrite forallb_forall in H. specialize (H n Hn).
  unfold size_ok in H. destruct (find_size n sizes) as [[a b]|]; [|discriminate].
  apply andb_true_iff in H. destruct H as [H1 H2].
  exists a, b. split; [reflexivity|]. apply Z.ltb_lt in H1. apply Z.leb_le in H2. lia.
Qed.

(** * The checker is not vacuous and it is sensitive: mutated entries are rejected *)

Definition K0 : wconsts := {| k_myth_serial := 1; k_posix_serial := -1; k_ebusy := 16 |}.

Definition good_entry (o : opspec) : entry :=
  {| e_name := o_name o; e_arity := o_arity o; e_guarded := true;
     e_wrapped := expected_stmts K0 o; e_real := expected_real (o_name o) (o_arity o) (is_void o);
     e_returns_ret := negb (is_void o); e_noreturn := is_void o; e_in_opts := true;
     e_real_ld := Some ("__real_" ++ o_name o, params (o_arity o));
     e_real_dl := Some ("real_function_table." ++ o_name o, params (o_arity o)) |}.

Definition good_pass (p : string * nat) : entry :=
  {| e_name := fst p; e_arity := snd p; e_guarded := false;
     e_wrapped := expected_real (fst p) (snd p) false; e_real := [];
     e_returns_ret := true; e_noreturn := false; e_in_opts := true;
     e_real_ld := Some ("__real_" ++ fst p, params (snd p));
     e_real_dl := Some ("real_function_table." ++ fst p, params (snd p)) |}.

Definition good_table : list entry := map good_entry posix_subset ++ map good_pass passthrough_subset.

Lemma good_table_ok : wrap_table_ok K0 good_table = true.
Proof. vm_compute. reflexivity. Qed.

(** replace the entry called [n] *)
Definition patch (n : string) (f : entry -> entry) (t : list entry) : list entry :=
  map (fun e => if String.eqb (e_name e) n then f e else e) t.

Definition set_wrapped (ss : list stmt) (e : entry) : entry :=
  {| e_name := e_name e; e_arity := e_arity e; e_guarded := e_guarded e; e_wrapped := ss; e_real := e_real e;
     e_returns_ret := e_returns_ret e; e_noreturn := e_noreturn e; e_in_opts := e_in_opts e;
     e_real_ld := e_real_ld e; e_real_dl := e_real_dl e |}.

Definition set_opts (b : bool) (e : entry) : entry :=
  {| e_name := e_name e; e_arity := e_arity e; e_guarded := e_guarded e; e_wrapped := e_wrapped e; e_real := e_real e;
     e_returns_ret := e_returns_ret e; e_noreturn := e_noreturn e; e_in_opts := b;
     e_real_ld := e_real_ld e; e_real_dl := e_real_dl e |}.

Definition set_real_ld (c : option (string * list aexp)) (e : entry) : entry :=
  {| e_name := e_name e; e_arity := e_arity e; e_guarded := e_guarded e; e_wrapped := e_wrapped e; e_real := e_real e;
     e_returns_ret := e_returns_ret e; e_noreturn := e_noreturn e; e_in_opts := e_in_opts e;
     e_real_ld := c; e_real_dl := e_real_dl e |}.

Lemma mutants_rejected :
  (* signal forwarded to the broadcast body *)
  wrap_table_ok K0 (patch "pthread_cond_signal" (set_wrapped [SCall "myth_cond_broadcast_body" [P 0]]) good_table) = false /\
  (* trylock forwarded to the lock body *)
  wrap_table_ok K0 (patch "pthread_mutex_trylock"
     (set_wrapped [SInit (P 0); SCall "myth_mutex_lock_body" [P 0]]) good_table) = false /\
  (* cond_wait with its two arguments swapped *)
  wrap_table_ok K0 (patch "pthread_cond_wait" (set_wrapped [SCall "myth_cond_wait_body" [P 1; P 0]]) good_table) = false /\
  (* initialiser handling dropped from trylock *)
  wrap_table_ok K0 (patch "pthread_mutex_trylock" (set_wrapped [SCall "myth_mutex_trylock_body" [P 0]]) good_table) = false /\
  (* initialiser handling AFTER the body *)
  wrap_table_ok K0 (patch "pthread_mutex_lock"
     (set_wrapped [SCall "myth_mutex_lock_body" [P 0]; SInit (P 0)]) good_table) = false /\
  (* barrier serial value not mapped *)
  wrap_table_ok K0 (patch "pthread_barrier_wait" (set_wrapped [SCall "myth_barrier_wait_body" [P 0]]) good_table) = false /\
  (* spin_trylock returning the body's boolean (the defect repaired by 6c58c5c) *)
  wrap_table_ok K0 (patch "pthread_spin_trylock" (set_wrapped [SCall "myth_spin_trylock_body" [P 0]]) good_table) = false /\
  (* spin_lock returning the failed-attempt count (repaired by 959f6de) *)
  wrap_table_ok K0 (patch "pthread_spin_lock" (set_wrapped [SCall "myth_spin_lock_body" [P 0]]) good_table) = false /\
  (* a --wrap line missing *)
  wrap_table_ok K0 (patch "pthread_cond_signal" (set_opts false) good_table) = false /\
  (* real_usleep calling usleep instead of __real_usleep (repaired by 941c5e9) *)
  wrap_table_ok K0 (patch "usleep" (set_real_ld (Some ("usleep", [P 0]))) good_table) = false /\
  (* an entry the translator could not parse *)
  wrap_table_ok K0 (patch "pthread_join" (set_wrapped [SOther "?"]) good_table) = false /\
  (* reordering the table is harmless *)
  wrap_table_ok K0 (rev good_table) = true.
Proof. vm_compute. repeat split; reflexivity. Qed.

(** the unmapped spin_trylock really returns a non-POSIX value: the body says "acquired" (1), the
    wrapper would answer 1 where POSIX requires 0 *)
Lemma spin_trylock_unmapped_wrong :
  exists E args,
    snd (exec E args [SCall "myth_spin_trylock_body" [P 0]] RUnset) <>
    posix_ret K0 (mk "pthread_spin_trylock" 1 "myth_spin_trylock_body" [P 0] None RSpinTry)
              (body E "myth_spin_trylock_body" [nth 0 args 0%Z]).
Proof.
  exists {| body := fun _ _ => 1%Z; xl := fun _ z => z |}, [5%Z]. cbn. discriminate.
Qed.
