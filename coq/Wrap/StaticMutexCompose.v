(** C16 -- a PTHREAD_MUTEX_INITIALIZER mutex first used by several threads at once behaves as a mutex.

    Every run of the product (StaticMutexModel.v) projects to a run of SyncModel from [init_state]:
    no SyncModel step touches the mutex before the unique initialisation has completed, the initialisation
    never happens after a body has been entered.  Hence the theorems of C04 (Sync/MutexProofs.v) hold for
    the wrapped operations.  Any number of threads, any schedule, any accepted shape. *)
From Coq Require Import List ZArith Bool Arith Lia.
From MT Require Import Lib.Interleave.
From MT Require Sync.SyncModel Sync.MutexProofs Wrap.StaticInitModel Wrap.StaticInitProofs.
From MT Require Import Wrap.StaticMutexModel.
Import ListNotations.

Module MP := MT.Sync.MutexProofs.
Module SP := MT.Wrap.StaticInitProofs.

(** * Facts about the two components *)

Lemma tstepMI_inits M I s t p a s1 p' :
  SP.tstepMI M I s t p a = Some (s1, p') ->
  SI.inits s1 = SI.inits s \/ SI.inits s1 = S (SI.inits s).
Proof.
  destruct p as [|g|k h lm li| | |]; destruct a as [b|st q|]; cbn [SP.tstepMI]; try discriminate.
  - intros H; inversion H; auto.
  - destruct (g =? M)%Z; [intros H; inversion H; auto|].
    destruct (negb (g =? I)%Z); [|intros H; inversion H; auto].
    destruct (SI.magic s =? g)%Z; intros H; inversion H; cbn; auto.
  - destruct k as [|[|[|[|[|k]]]]]; try (intros H; inversion H; cbn; auto; fail).
    destruct h as [[|]|]; [| |destruct b]; intros H; inversion H; cbn; auto.
  - destruct k as [|[|[|[|[|k]]]]]; discriminate.
  - destruct k as [|[|[|[|[|k]]]]]; discriminate.
  - destruct (SI.magic s =? I)%Z; [intros H; inversion H; auto|].
    destruct (SI.magic s =? M)%Z; intros H; inversion H; auto.
  - intros H; inversion H; cbn; auto.
  - intros H; inversion H; auto.
Qed.

Lemma si_step_inits sh s ta s' : SI.shape_ok sh = true -> SI.step sh s ta = Some s' ->
  SI.inits s' = SI.inits s \/ SI.inits s' = S (SI.inits s).
Proof.
  intros Hok H. destruct ta as [t a]. apply SP.step_inv in H.
  destruct H as (p & s1 & p' & _ & Ht & Hs'). subst s'.
  rewrite (SP.tstep_MI sh s t p a Hok) in Ht. apply tstepMI_inits in Ht. exact Ht.
Qed.

Lemma nth_repeat_nil {A} n c : nth c (repeat (@nil A) n) [] = [].
Proof. revert c; induction n as [|n IH]; intros [|c]; cbn; auto. Qed.

(** a SyncModel state in which the mutex has never been operated on *)
Definition pre_main (p : SY.pc) : Prop :=
  p = SY.Idle \/ (exists c, p = SY.SigDeq c SY.ASRet) \/ (exists c, p = SY.SigDeq c SY.ASLoop) \/
  exists r, p = SY.Done r.

Definition pre_ok (s : SY.state) : Prop :=
  (forall c, nth c (SY.cqs s) [] = []) /\
  forall t th, nth_error (SY.thr s) t = Some th ->
               SY.own th = false /\ SY.cbs th = [] /\ pre_main (SY.main th).

Definition allowed (e : SY.ev) : bool :=
  match e with SY.ECall o => cond_op o | _ => true end.

Lemma pre_ok_set_main s t th p :
  pre_ok s -> nth_error (SY.thr s) t = Some th -> pre_main p ->
  pre_ok (SY.set_thread s t (SY.set_main th p)).
Proof.
  intros [Hq Hth] Ht Hp. split; [exact Hq|].
  intros u thu Hu. cbn in Hu. destruct (Nat.eq_dec t u) as [E|E].
  - subst u. rewrite (MP.nth_error_upd_eq _ _ _ _ Ht) in Hu. inversion Hu. subst thu. cbn.
    destruct (Hth t th Ht) as (Ho & Hc & _). auto.
  - rewrite MP.nth_error_upd_neq in Hu by exact E. apply Hth with u. exact Hu.
Qed.

(** on such a state a SyncModel event (other than the call of a mutex operation) neither reads nor writes
    the mutex words *)
Lemma pre_step s t e s' :
  pre_ok s -> allowed e = true -> SY.step s (t, e) = Some s' ->
  pre_ok s' /\ SY.mword s' = SY.mword s /\ SY.mq s' = SY.mq s /\
  SY.step (clean s) (t, e) = Some (clean s').
Proof.
  intros Hpre Hal H. destruct Hpre as [Hq Hth].
  assert (Hpre : pre_ok s) by (split; assumption).
  destruct e as [o|  |i|v]; cbn [SY.step] in *.
  - (* calls of the condition-variable operations *)
    unfold SY.call in *. unfold SY.get_thread in *. cbn [clean SY.thr].
    destruct (nth_error (SY.thr s) t) as [th|] eqn:Ht; [|discriminate].
    destruct (Hth t th Ht) as (Ho & Hc & Hm).
    destruct (SY.main th) eqn:Em; try discriminate.
    destruct o; cbn in Hal; try discriminate.
    + rewrite Ho in H. discriminate.
    + inversion H. subst s'. split; [|repeat split; reflexivity].
      apply pre_ok_set_main; auto. right. left. eauto.
    + inversion H. subst s'. split; [|repeat split; reflexivity].
      apply pre_ok_set_main; auto. right. right. left. eauto.
  - (* a step of the thread's own code: only the signal loops can be running *)
    unfold SY.tick in *. unfold SY.get_thread in *. cbn [clean SY.thr].
    destruct (nth_error (SY.thr s) t) as [th|] eqn:Ht; [|discriminate].
    destruct (Hth t th Ht) as (Ho & Hc & Hm).
    destruct Hm as [Em|[[c Em]|[[c Em]|[r Em]]]]; rewrite Em in *; try discriminate.
    + change (SY.getq s (SY.QC c)) with (nth c (SY.cqs s) []) in H. rewrite (Hq c) in H.
      change (SY.getq (clean s) (SY.QC c)) with (nth c (SY.cqs s) []). rewrite (Hq c).
      inversion H. subst s'. split; [|repeat split; reflexivity].
      apply pre_ok_set_main; auto. right. right. right. eauto.
    + change (SY.getq s (SY.QC c)) with (nth c (SY.cqs s) []) in H. rewrite (Hq c) in H.
      change (SY.getq (clean s) (SY.QC c)) with (nth c (SY.cqs s) []). rewrite (Hq c).
      inversion H. subst s'. split; [|repeat split; reflexivity].
      apply pre_ok_set_main; auto. right. right. right. eauto.
  - (* no callback is in flight *)
    unfold SY.cbtick in H. unfold SY.get_thread in H.
    destruct (nth_error (SY.thr s) t) as [th|] eqn:Ht; [|discriminate].
    destruct (Hth t th Ht) as (Ho & Hc & Hm). rewrite Hc in H. destruct i; discriminate.
  - (* returns *)
    unfold SY.ret, SY.ret_ok in *. unfold SY.get_thread in *. cbn [clean SY.thr].
    destruct (nth_error (SY.thr s) t) as [th|] eqn:Ht; [|discriminate].
    destruct (Hth t th Ht) as (Ho & Hc & Hm).
    destruct Hm as [Em|[[c Em]|[[c Em]|[r Em]]]]; rewrite Em in *; try discriminate.
    destruct (v =? r)%Z; [|discriminate]. inversion H. subst s'. split; [|repeat split; reflexivity].
    apply pre_ok_set_main; auto. left. reflexivity.
Qed.

Lemma pre_ok_clean s : pre_ok s -> pre_ok (clean s).
Proof. intros H. exact H. Qed.

(** * The invariant of the product *)

Section Compose.
  Variable sh : SI.shape.
  Hypothesis Hok : SI.shape_ok sh = true.
  Variable m0 w0 : Z.
  Variable q0 : list nat.
  Variable nt nc : nat.
  Hypothesis Hm0 : m0 <> SI.sh_initializing sh.

  Local Notation M := (SI.sh_magic_no sh).

  Definition sinit (s : SI.state) : Prop := s = SI.init_state sh m0 w0 q0 nt.
  Definition sreach : SI.state -> Prop := reachable sinit (SI.step sh).

  Definition p0 : pstate := pinit sh m0 w0 q0 nt nc.
  Definition preach : pstate -> Prop := reachable (fun p => p = p0) (pstep sh).

  Definition PInv (p : pstate) : Prop :=
    sreach (si p) /\
    (entered p = true -> ready sh m0 p = true) /\
    (entered p = false ->
       pre_ok (sy p) /\
       (if ready sh m0 p then SY.mword (sy p) = 0%Z /\ SY.mq (sy p) = []
        else SY.mword (sy p) = w0 /\ SY.mq (sy p) = q0)) /\
    MP.reach (proj sh m0 p).

  Lemma sreach_safe s : sreach s -> SP.static_safe sh m0 w0 q0 s.
  Proof. intros H. eapply SP.static_init_once; eauto. Qed.

  Lemma sreach_step s ta s' : sreach s -> SI.step sh s ta = Some s' -> sreach s'.
  Proof. intros H Hs. eapply reach_step; eauto. Qed.

  Lemma pinv_init : PInv p0.
  Proof.
    unfold PInv, p0, pinit, proj, ready. cbn [si sy entered SI.inits SI.init_state].
    split; [apply reach_init; reflexivity|]. split; [discriminate|].
    destruct (m0 =? M)%Z eqn:E; cbn [orb Nat.ltb Nat.leb].
    - split.
      + intros _. split; [|split; reflexivity].
        split; [intros c; cbn; apply nth_repeat_nil|].
        intros t th Ht. cbn in Ht. apply MP.nth_error_repeat in Ht. subst th. cbn.
        split; [reflexivity|]. split; [reflexivity|]. left. reflexivity.
      + apply reach_init. exists nt, nc. reflexivity.
    - split.
      + intros _. split; [|split; reflexivity].
        split; [intros c; cbn; apply nth_repeat_nil|].
        intros t th Ht. cbn in Ht. apply MP.nth_error_repeat in Ht. subst th. cbn.
        split; [reflexivity|]. split; [reflexivity|]. left. reflexivity.
      + apply reach_init. exists nt, nc. reflexivity.
  Qed.

  (** a state of the handler component in which thread [t] has returned: the fields are initialised *)
  Lemma done_ready p t : sreach (si p) -> nth_error (SI.pcs (si p)) t = Some SI.PDone -> ready sh m0 p = true.
  Proof.
    intros Hr Hd. destruct (sreach_safe _ Hr) as (_ & _ & _ & _ & Hdone & _).
    destruct (Hdone t Hd) as (_ & _ & Hi). unfold ready.
    destruct (m0 =? M)%Z eqn:E; [reflexivity|]. apply Z.eqb_neq in E. rewrite (Hi E). reflexivity.
  Qed.

  Lemma pinv_step p ta p' : PInv p -> pstep sh p ta = Some p' -> PInv p'.
  Proof.
    intros (Hsr & Hent & Hpre & Hproj) Hst. destruct ta as [t a]. unfold pstep in Hst.
    destruct a as [o|b| |e].
    - (* PCall: only the handler component moves (Again), the initialisation count is unchanged *)
      destruct (mutex_op o); [|discriminate].
      destruct (nth_error (pend p) t) as [[?|]|]; try discriminate.
      destruct (nth_error (SI.pcs (si p)) t) as [hp|]; [|discriminate].
      destruct (SY.get_thread (sy p) t) as [th|]; [|discriminate].
      destruct (SY.main th); try discriminate.
      destruct hp; try discriminate.
      + inversion Hst. subst p'. unfold PInv, proj, ready in *. cbn [si sy entered pend mkp] in *. auto.
      + destruct (SI.step sh (si p) (t, SI.Again)) as [si'|] eqn:Es; [|discriminate].
        inversion Hst. subst p'.
        assert (Hi : SI.inits si' = SI.inits (si p)).
        { apply SP.step_inv in Es. destruct Es as (q & s1 & q' & Hq & Ht & Hs'). subst si'.
          destruct q; cbn in Ht; try discriminate. inversion Ht. reflexivity. }
        unfold PInv, proj, ready in *. cbn [si sy entered pend mkp] in *. rewrite Hi.
        split; [eapply sreach_step; eauto | auto].
    - (* a handler step *)
      destruct (nth_error (pend p) t) as [[o|]|]; try discriminate.
      destruct (SI.step sh (si p) (t, SI.Step b)) as [si'|] eqn:Es; [|discriminate].
      inversion Hst. subst p'. clear Hst.
      assert (Hsr' : sreach si') by (eapply sreach_step; eauto).
      destruct (sreach_safe _ Hsr') as (Hle & _ & _ & _ & _ & Hal).
      destruct (si_step_inits sh _ _ _ Hok Es) as [Hi|Hi].
      + (* no store of the fields *)
        assert (Hlt : Nat.ltb (SI.inits (si p)) (SI.inits si') = false) by (apply Nat.ltb_ge; lia).
        unfold PInv, proj, ready in *. cbn [si sy entered pend mkp] in *. rewrite Hlt, Hi. auto.
      + (* the store of the fields: the one and only initialisation *)
        assert (Hlt : Nat.ltb (SI.inits (si p)) (SI.inits si') = true) by (apply Nat.ltb_lt; lia).
        assert (H0 : SI.inits (si p) = 0) by lia.
        assert (HmM : (m0 =? M)%Z = false).
        { destruct (m0 =? M)%Z eqn:E; [|reflexivity]. apply Z.eqb_eq in E.
          destruct (Hal E) as (Hz & _). lia. }
        assert (Hnr : ready sh m0 p = false).
        { unfold ready. rewrite HmM, H0. reflexivity. }
        assert (Hne : entered p = false).
        { destruct (entered p) eqn:E; [|reflexivity]. rewrite (Hent eq_refl) in Hnr. discriminate. }
        destruct (Hpre Hne) as (Hpo & _).
        unfold PInv, proj, ready in *. cbn [si sy entered pend mkp] in *.
        rewrite Hlt, HmM, Hi, H0 in *. cbn [orb Nat.ltb Nat.leb] in *.
        split; [exact Hsr'|]. split; [auto|]. split; [|exact Hproj].
        intros _. split; [apply pre_ok_clean; exact Hpo | split; reflexivity].
    - (* PEnter: the handler has returned, the fields are initialised, SyncModel's call *)
      destruct (nth_error (pend p) t) as [[o|]|]; try discriminate.
      destruct (nth_error (SI.pcs (si p)) t) as [hp|] eqn:Ehp; [|discriminate].
      destruct hp; try discriminate.
      destruct (SY.call (sy p) t o) as [sy'|] eqn:Ec; [|discriminate].
      inversion Hst. subst p'. clear Hst.
      pose proof (done_ready p t Hsr Ehp) as Hr.
      unfold PInv, proj in *. cbn [si sy entered pend mkp] in *.
      assert (Hr' : ready sh m0 (mkp (si p) sy' (SI.upd (pend p) t None) true) = true) by exact Hr.
      rewrite Hr' . rewrite Hr in Hproj.
      split; [exact Hsr|]. split; [auto|]. split; [discriminate|].
      assert (Es : SY.step (sy p) (t, SY.ECall o) = Some sy') by exact Ec.
      eapply reach_step; [exact Hproj | exact Es].
    - (* a SyncModel event *)
      assert (Hal : allowed e = true /\ lift p (SY.step (sy p) (t, e)) = Some p').
      { destruct e as [o| |i|v]; try (split; [reflexivity | exact Hst]).
        destruct (nth_error (pend p) t) as [[?|]|]; try discriminate.
        cbn [allowed]. destruct (cond_op o); [split; [reflexivity | exact Hst] | discriminate]. }
      destruct Hal as [Hal Hl]. clear Hst. unfold lift in Hl.
      destruct (SY.step (sy p) (t, e)) as [sy'|] eqn:Es; [|discriminate].
      inversion Hl. subst p'. clear Hl.
      unfold PInv, proj, ready in *. cbn [si sy entered pend mkp] in *.
      split; [exact Hsr|]. split; [exact Hent|].
      destruct (entered p) eqn:Een.
      + (* a body has been entered: the words are SyncModel's *)
        rewrite (Hent eq_refl) in *. split; [discriminate|].
        eapply reach_step; [exact Hproj | exact Es].
      + (* nobody has entered a body yet: the event does not touch the mutex *)
        destruct (Hpre eq_refl) as (Hpo & Hw).
        destruct (pre_step _ _ _ _ Hpo Hal Es) as (Hpo' & Hmw & Hmq & Hcl).
        split.
        * intros _. split; [exact Hpo'|]. rewrite Hmw, Hmq. exact Hw.
        * destruct ((m0 =? M)%Z || Nat.ltb 0 (SI.inits (si p))).
          -- eapply reach_step; [exact Hproj | exact Es].
          -- eapply reach_step; [exact Hproj | exact Hcl].
  Qed.

  Theorem pinv_reach p : preach p -> PInv p.
  Proof.
    apply invariant_rule.
    - intros s Hs. subst s. apply pinv_init.
    - intros s a s' Hi Hs. eapply pinv_step; eauto.
  Qed.

  (** * Theorems *)

  (** every run of the product projects to a run of SyncModel from [init_state] *)
  Theorem static_mutex_projects p : preach p -> MP.reach (proj sh m0 p).
  Proof. intros H. apply pinv_reach in H. destruct H as (_ & _ & _ & H). exact H. Qed.

  (** once a body has been entered the product's mutex words ARE the projected SyncModel state *)
  Theorem static_mutex_entered_ready p : preach p -> entered p = true -> proj sh m0 p = sy p.
  Proof.
    intros H He. apply pinv_reach in H. destruct H as (_ & Hent & _). unfold proj. rewrite (Hent He). reflexivity.
  Qed.

  (** no SyncModel step touches the mutex before the initialisation has completed: until then no body has
      been entered, no thread owns / sleeps / has a callback in flight, and the object's words are untouched *)
  Theorem static_mutex_no_early_step p : preach p -> ready sh m0 p = false ->
    entered p = false /\ pre_ok (sy p) /\ SY.mword (sy p) = w0 /\ SY.mq (sy p) = q0.
  Proof.
    intros H Hr. apply pinv_reach in H. destruct H as (_ & Hent & Hpre & _).
    assert (He : entered p = false).
    { destruct (entered p); [rewrite (Hent eq_refl) in Hr; discriminate | reflexivity]. }
    destruct (Hpre He) as (Hpo & Hw). rewrite Hr in Hw. destruct Hw. auto.
  Qed.

  (** the initialisation never happens after a body has been entered; it happens at most once at all, and
      not at all for a mutex initialised by pthread_mutex_init *)
  Theorem static_mutex_no_late_init p ta p' : preach p -> pstep sh p ta = Some p' ->
    SI.inits (si p') <= 1 /\
    (entered p = true -> SI.inits (si p') = SI.inits (si p)) /\
    (m0 = M -> SI.inits (si p') = 0).
  Proof.
    intros H Hst.
    assert (H' : preach p') by (eapply reach_step; eauto).
    apply pinv_reach in H. apply pinv_reach in H'.
    destruct H as (Hsr & Hent & _). destruct H' as (Hsr' & _).
    destruct (sreach_safe _ Hsr') as (Hle & _ & _ & _ & _ & Hal).
    destruct (sreach_safe _ Hsr) as (_ & _ & _ & _ & _ & Hal0).
    split; [exact Hle|]. split; [|intros E; destruct (Hal E); auto].
    intros He. pose proof (Hent He) as Hr. unfold ready in Hr.
    destruct (m0 =? M)%Z eqn:E.
    - apply Z.eqb_eq in E. destruct (Hal E) as (H1 & _). destruct (Hal0 E) as (H2 & _). lia.
    - cbn [orb] in Hr. apply Nat.ltb_lt in Hr.
      destruct ta as [t a]. unfold pstep in Hst.
      destruct a as [o|b| |e].
      + destruct (mutex_op o); [|discriminate].
        destruct (nth_error (pend p) t) as [[?|]|]; try discriminate.
        destruct (nth_error (SI.pcs (si p)) t) as [hp|]; [|discriminate].
        destruct (SY.get_thread (sy p) t) as [th|]; [|discriminate].
        destruct (SY.main th); try discriminate.
        destruct hp; try discriminate.
        * inversion Hst. reflexivity.
        * destruct (SI.step sh (si p) (t, SI.Again)) as [si'|] eqn:Es; [|discriminate].
          inversion Hst. cbn [si mkp].
          destruct (si_step_inits sh _ _ _ Hok Es) as [Hi|Hi]; [exact Hi|].
          subst p'. cbn [si mkp] in Hle. lia.
      + destruct (nth_error (pend p) t) as [[o|]|]; try discriminate.
        destruct (SI.step sh (si p) (t, SI.Step b)) as [si'|] eqn:Es; [|discriminate].
        inversion Hst. cbn [si mkp].
        destruct (si_step_inits sh _ _ _ Hok Es) as [Hi|Hi]; [exact Hi|].
        subst p'. cbn [si mkp] in Hle. lia.
      + destruct (nth_error (pend p) t) as [[o|]|]; try discriminate.
        destruct (nth_error (SI.pcs (si p)) t) as [hp|]; [|discriminate].
        destruct hp; try discriminate.
        destruct (SY.call (sy p) t o); [|discriminate]. inversion Hst. reflexivity.
      + assert (Hl : exists r, lift p r = Some p').
        { destruct e as [o| |i|v]; try (eexists; exact Hst).
          destruct (nth_error (pend p) t) as [[?|]|]; try discriminate.
          destruct (cond_op o); [eexists; exact Hst | discriminate]. }
        destruct Hl as [[r|] Hl]; [|discriminate]. inversion Hl. reflexivity.
  Qed.

  (** C04 for the wrapped operations *)
  Corollary static_mutex_mutual_exclusion p t1 t2 : preach p ->
    t1 <> t2 -> SY.holds (sy p) t1 = true -> SY.holds (sy p) t2 = true -> False.
  Proof.
    intros H Hne H1 H2. apply static_mutex_projects in H.
    apply (MP.mutual_exclusion (proj sh m0 p) t1 t2 H Hne).
    - unfold proj. destruct (ready sh m0 p); exact H1.
    - unfold proj. destruct (ready sh m0 p); exact H2.
  Qed.

  Corollary static_mutex_lock_bit p : preach p -> ready sh m0 p = true ->
    (SY.mword (sy p) mod 2 = Z.of_nat (SY.count_holders (sy p)))%Z /\ SY.count_holders (sy p) <= 1.
  Proof.
    intros H Hr. apply static_mutex_projects in H. unfold proj in H. rewrite Hr in H.
    apply MP.lock_bit_is_owner_count. exact H.
  Qed.

  Corollary static_mutex_no_lost_wakeup p : preach p -> ready sh m0 p = true ->
    0 < MP.SR (sy p) + length (SY.mq (sy p)) ->
    Z.odd (SY.mword (sy p)) = true \/
    (exists t th u, SY.get_thread (sy p) t = Some th /\ MP.has_act th u /\
                    exists nf x, u = SY.UClear nf x \/ u = SY.UPush nf x) \/
    (exists t th, SY.get_thread (sy p) t = Some th /\ MP.mL (SY.main th) = 1).
  Proof.
    intros H Hr. apply static_mutex_projects in H. unfold proj in H. rewrite Hr in H.
    apply MP.no_lost_wakeup. exact H.
  Qed.

  (** every invariant of C04 transfers *)
  Corollary static_mutex_inv p : preach p -> MP.Inv (proj sh m0 p).
  Proof. intros H. apply MP.inv_reach. apply static_mutex_projects. exact H. Qed.
End Compose.

(** every schedule *)
Corollary static_mutex_run_projects sh m0 w0 q0 nt nc sched :
  SI.shape_ok sh = true -> m0 <> SI.sh_initializing sh ->
  MP.reach (proj sh m0 (run (pstep sh) sched (pinit sh m0 w0 q0 nt nc))).
Proof.
  intros Hok Hm. apply (static_mutex_projects sh Hok m0 w0 q0 nt nc Hm).
  apply run_reachable. apply reach_init. reflexivity.
Qed.

(** * Non-vacuity: three threads race on the first use of a static initialiser *)

Definition race_sched : list (nat * pact) :=
  let i := PInitStep false in
  [ (0, PCall SY.Lock); (1, PCall SY.Lock); (2, PCall SY.TryLock);
    (0, i); (1, i); (1, i);             (* 0 and 1 read the static word; 1 wins the CAS *)
    (2, i); (0, i); (2, i);             (* 2 reads "initializing"; 0's CAS fails; both spin *)
    (1, i); (1, i); (1, i);             (* local init, local magic, the fields are stored first *)
    (0, i);                             (* still "initializing" *)
    (1, i); (1, i); (1, i); (1, i);     (* magic word of the struct, fence, magic number, return *)
    (0, i); (2, i);                     (* the losers leave *)
    (0, PEnter); (0, PSync SY.ETick); (0, PSync SY.ETick); (0, PSync (SY.ERet 0));       (* 0 acquires *)
    (1, PEnter); (1, PSync SY.ETick); (1, PSync SY.ETick); (1, PSync (SY.ECbTick 0));    (* 1 sleeps *)
    (2, PEnter); (2, PSync SY.ETick); (2, PSync (SY.ERet 16)) ].                          (* trylock: EBUSY *)

Definition unlock_sched : list (nat * pact) :=
  let i := PInitStep false in
  [ (0, PCall SY.Unlock); (0, i); (0, i); (0, PEnter);                       (* handler: fast path *)
    (0, PSync SY.ETick); (0, PSync SY.ETick); (0, PSync SY.ETick); (0, PSync SY.ETick); (0, PSync SY.ETick);
    (0, PSync (SY.ERet 0));                                                   (* read, cas -2, deq, clear, push *)
    (1, PSync SY.ETick); (1, PSync SY.ETick); (1, PSync (SY.ERet 0)) ].       (* 1 wakes and acquires *)

Lemma race_sleeper :
  psummary (run (pstep SP.pin_shape) race_sched (pinit SP.pin_shape 0 77 [5] 3 1)) =
  (123456789%Z, 1, 3%Z, [1], [true; false; false], true).
Proof. vm_compute. reflexivity. Qed.

Lemma race_woken :
  psummary (run (pstep SP.pin_shape) (race_sched ++ unlock_sched) (pinit SP.pin_shape 0 77 [5] 3 1)) =
  (123456789%Z, 1, 1%Z, [], [false; true; false], true).
Proof. vm_compute. reflexivity. Qed.

(** before the winner's store the words are still the object's garbage and nobody is in a body *)
Lemma race_early :
  psummary (run (pstep SP.pin_shape) (firstn 11 race_sched) (pinit SP.pin_shape 0 77 [5] 3 1)) =
  (987654321%Z, 0, 77%Z, [5], [false; false; false], false).
Proof. vm_compute. reflexivity. Qed.
