(** C16 -- the pthread facade: syntax of a wrapper as the translator (tools/props/c16_translate.py)
    extracts it from src/myth_wrap_pthread.c, its semantics (the sequence of calls a wrapper makes and the
    value it returns, for ANY behaviour of the callees), the expected table (which MassiveThreads body
    implements which POSIX operation, with which argument order and which return-value mapping) and the
    executable checker [wrap_table_ok].  Executable definitions only; the proofs are in WrapProofs.v.

    The bodies named here are exactly the ones the other properties' theorems are about
    (myth_create_ex_body, myth_join_body ... : C01/C13; myth_mutex_*_body: C04; myth_cond_*_body: C05;
    myth_barrier_*_body: C06; myth_spin_*_body: A.1; myth_once_body: C14; myth_key_* / myth_*specific_body:
    C10/C11; myth_yield_body, myth_*sleep_body: C20). *)
From Coq Require Import List String ZArith Bool Arith.
Import ListNotations.
Open Scope string_scope.

(** * Syntax (what the translator emits) *)

Inductive aexp :=
| AParam (i : nat)                 (* i-th parameter of the wrapper, possibly under a pointer cast *)
| AXlate (f : string) (i : nat)    (* f(param i, local buffer): translated attribute object *)
| AOther (s : string).             (* anything the translator does not understand *)

Inductive stmt :=
| SInit (a : aexp)                                   (* myth_handle_PTHREAD_MUTEX_INITIALIZER(a); *)
| SWarn                                              (* myth_wrap_pthread_warn_non_conforming(); *)
| SCall (f : string) (args : list aexp)              (* ret = f(args); *)
| SCallV (f : string) (args : list aexp)             (* f(args);            value discarded / void *)
| SCallTern (f : string) (args : list aexp) (a b : Z) (* ret = f(args) ? a : b; *)
| SConst (v : Z)                                     (* ret = v; *)
| SRetMap (from to other : Z)                        (* if (ret == from) ret = to; else assert(ret == other); *)
| SOther (s : string).                               (* not understood *)

Record entry := {
  e_name : string;                 (* POSIX name: the function is __wrap_<name> / <name> *)
  e_arity : nat;
  e_guarded : bool;                (* body is  if (myth_should_wrap_pthread()) { A } else { B } *)
  e_wrapped : list stmt;           (* A (or the whole body when not guarded) *)
  e_real : list stmt;              (* B *)
  e_returns_ret : bool;            (* ends with `return ret;` *)
  e_noreturn : bool;               (* ends with should_not_reach_here() *)
  e_in_opts : bool;                (* -Wl,--wrap=<name> is a line of src/myth-ld.opts *)
  e_real_ld : option (string * list aexp);   (* the one call real_<name> makes when MYTH_WRAP = MYTH_WRAP_LD *)
  e_real_dl : option (string * list aexp)    (* ... when MYTH_WRAP = MYTH_WRAP_DL *)
}.

Record wconsts := { k_myth_serial : Z; k_posix_serial : Z; k_ebusy : Z }.

(** * Semantics: what a wrapper does, for any behaviour of the functions it calls *)

Record env := {
  body : string -> list Z -> Z;      (* return value of a callee on given argument words *)
  xl : string -> Z -> Z              (* the object an attribute translator returns for a given argument *)
}.

Inductive event :=
| EvInit (m : Z)                     (* static-initialiser handling applied to the mutex at address m *)
| EvWarn
| EvCall (f : string) (args : list Z).

Inductive rstate := RUnset | RVal (z : Z) | RAbort.

Definition eval (E : env) (args : list Z) (a : aexp) : Z :=
  match a with
  | AParam i => nth i args 0%Z
  | AXlate f i => xl E f (nth i args 0%Z)
  | AOther _ => 0%Z
  end.

Definition cons_ev (e : event) (r : list event * rstate) : list event * rstate :=
  (e :: fst r, snd r).

Fixpoint exec (E : env) (args : list Z) (ss : list stmt) (r : rstate) : list event * rstate :=
  match ss with
  | [] => ([], r)
  | s :: tl =>
    match s with
    | SInit a => cons_ev (EvInit (eval E args a)) (exec E args tl r)
    | SWarn => cons_ev EvWarn (exec E args tl r)
    | SCall f a =>
        let vs := map (eval E args) a in cons_ev (EvCall f vs) (exec E args tl (RVal (body E f vs)))
    | SCallV f a =>
        let vs := map (eval E args) a in cons_ev (EvCall f vs) (exec E args tl r)
    | SCallTern f a x y =>
        let vs := map (eval E args) a in
        cons_ev (EvCall f vs) (exec E args tl (RVal (if (body E f vs =? 0)%Z then y else x)))
    | SConst v => exec E args tl (RVal v)
    | SRetMap a b c =>
        match r with
        | RVal z => if (z =? a)%Z then exec E args tl (RVal b)
                    else if (z =? c)%Z then exec E args tl (RVal z) else ([], RAbort)
        | _ => ([], RAbort)
        end
    | SOther _ => ([], RAbort)
    end
  end.

Definition run_wrapped (E : env) (e : entry) (args : list Z) := exec E args (e_wrapped e) RUnset.
Definition run_real (E : env) (e : entry) (args : list Z) := exec E args (e_real e) RUnset.

(** * The expected table *)

Inductive retspec :=
| RDirect      (* the body's value is the POSIX value (0 / errno number / thread id / pointer) *)
| RVoid        (* no value (pthread_exit) *)
| RBarrier     (* MYTH_BARRIER_SERIAL_THREAD -> PTHREAD_BARRIER_SERIAL_THREAD, 0 -> 0 *)
| RSpinTry     (* the body returns "acquired?" : non-zero -> 0, 0 -> EBUSY *)
| RZero.       (* the body's value is diagnostic only: POSIX value is 0 *)

Record opspec := {
  o_name : string; o_arity : nat;
  o_body : string; o_args : list aexp;
  o_init : option nat;             (* parameter that may be a statically initialised mutex on first use *)
  o_ret : retspec
}.

Definition P (i : nat) := AParam i.
Definition mk n a b args i r := {| o_name := n; o_arity := a; o_body := b; o_args := args; o_init := i; o_ret := r |}.

Definition posix_subset : list opspec := [
  mk "pthread_create" 4 "myth_create_ex_body" [P 0; AXlate "pthread_attr_to_myth" 1; P 2; P 3] None RDirect;
  mk "pthread_exit" 1 "myth_exit_body" [P 0] None RVoid;
  mk "pthread_join" 2 "myth_join_body" [P 0; P 1] None RDirect;
  mk "pthread_detach" 1 "myth_detach_body" [P 0] None RDirect;
  mk "pthread_self" 0 "myth_self_body" [] None RDirect;
  mk "pthread_equal" 2 "myth_equal_body" [P 0; P 1] None RDirect;
  mk "pthread_mutex_init" 2 "myth_mutex_init_body" [P 0; AXlate "pthread_mutexattr_to_myth" 1] None RDirect;
  mk "pthread_mutex_destroy" 1 "myth_mutex_destroy_body" [P 0] None RDirect;
  mk "pthread_mutex_lock" 1 "myth_mutex_lock_body" [P 0] (Some 0%nat) RDirect;
  mk "pthread_mutex_trylock" 1 "myth_mutex_trylock_body" [P 0] (Some 0%nat) RDirect;
  mk "pthread_mutex_timedlock" 2 "myth_mutex_timedlock_body" [P 0; P 1] (Some 0%nat) RDirect;
  mk "pthread_mutex_unlock" 1 "myth_mutex_unlock_body" [P 0] (Some 0%nat) RDirect;
  mk "pthread_cond_init" 2 "myth_cond_init_body" [P 0; AXlate "pthread_condattr_to_myth" 1] None RDirect;
  mk "pthread_cond_destroy" 1 "myth_cond_destroy_body" [P 0] None RDirect;
  mk "pthread_cond_signal" 1 "myth_cond_signal_body" [P 0] None RDirect;
  mk "pthread_cond_broadcast" 1 "myth_cond_broadcast_body" [P 0] None RDirect;
  mk "pthread_cond_wait" 2 "myth_cond_wait_body" [P 0; P 1] None RDirect;
  mk "pthread_barrier_init" 3 "myth_barrier_init_body" [P 0; AXlate "pthread_barrierattr_to_myth" 1; P 2] None RDirect;
  mk "pthread_barrier_destroy" 1 "myth_barrier_destroy_body" [P 0] None RDirect;
  mk "pthread_barrier_wait" 1 "myth_barrier_wait_body" [P 0] None RBarrier;
  mk "pthread_spin_init" 2 "myth_spin_init_body" [P 0] None RDirect;
  mk "pthread_spin_destroy" 1 "myth_spin_destroy_body" [P 0] None RDirect;
  mk "pthread_spin_lock" 1 "myth_spin_lock_body" [P 0] None RZero;
  mk "pthread_spin_trylock" 1 "myth_spin_trylock_body" [P 0] None RSpinTry;
  mk "pthread_spin_unlock" 1 "myth_spin_unlock_body" [P 0] None RDirect;
  mk "pthread_once" 2 "myth_once_body" [P 0; P 1] None RDirect;
  mk "pthread_key_create" 2 "myth_key_create_body" [P 0; P 1] None RDirect;
  mk "pthread_key_delete" 1 "myth_key_delete_body" [P 0] None RDirect;
  mk "pthread_getspecific" 1 "myth_getspecific_body" [P 0] None RDirect;
  mk "pthread_setspecific" 2 "myth_setspecific_body" [P 0; P 1] None RDirect;
  mk "sched_yield" 0 "myth_yield_body" [] None RDirect;
  mk "sleep" 1 "myth_sleep_body" [P 0] None RDirect;
  mk "usleep" 1 "myth_usleep_body" [P 0] None RDirect;
  mk "nanosleep" 2 "myth_nanosleep_body" [P 0; P 1] None RDirect
].

(** Operations the library wraps only on platforms that still have them as functions.  pthread_yield: with
    glibc >= 2.34 <pthread.h> turns a call of pthread_yield into a call of sched_yield (which is in the subset
    above) and configure leaves HAVE_PTHREAD_YIELD undefined, so there is no __wrap_pthread_yield; where the
    wrapper exists it must forward to the same body as sched_yield. *)
Definition optional_subset : list opspec := [
  mk "pthread_yield" 0 "myth_yield_body" [] None RDirect
].

(** Wrapped by the library but OUTSIDE the supported subset: the generated table has a row for each of them,
    the checker does not look at it and nothing is claimed about them.  The reason is part of the record. *)
Definition outside_subset : list (string * string) := [
  ("pthread_cond_timedwait",
   "the body myth_cond_timedwait_body is unimplemented() = assert(0) (src/myth_sync_func.h): any call aborts; never generated");
  ("pthread_tryjoin_np", "GNU extension, not in the property's subset");
  ("pthread_timedjoin_np", "GNU extension, not in the property's subset");
  ("pthread_rwlock_*", "reader-writer locks are not in the property's subset");
  ("pthread_cancel, pthread_setcancelstate, pthread_setcanceltype, pthread_testcancel", "answered ENOSYS / warning");
  ("pthread_setschedparam, pthread_getschedparam, pthread_setschedprio, pthread_setaffinity_np, pthread_getaffinity_np, "
   ++ "pthread_getname_np, pthread_setname_np, pthread_setconcurrency, pthread_kill, pthread_sigqueue, pthread_sigmask, "
   ++ "pthread_getcpuclockid, pthread_mutex_getprioceiling, pthread_mutex_setprioceiling, pthread_mutex_consistent",
   "answered ENOSYS / ENOENT with a non-conformance warning")
].

(** no operation is both claimed and declared outside *)
Definition subset_disjoint_outside : bool :=
  forallb (fun o => negb (existsb (fun p => String.eqb (fst p) (o_name o)) outside_subset)) (posix_subset ++ optional_subset).

(** attribute objects stay the system's: these entry points pass through in both modes *)
Definition passthrough_subset : list (string * nat) := [
  ("pthread_attr_init", 1%nat); ("pthread_attr_destroy", 1%nat);
  ("pthread_attr_setdetachstate", 2%nat); ("pthread_attr_getdetachstate", 2%nat);
  ("pthread_attr_setstacksize", 2%nat); ("pthread_attr_getstacksize", 2%nat);
  ("pthread_attr_setstack", 3%nat); ("pthread_attr_getstack", 3%nat);
  ("pthread_mutexattr_init", 1%nat); ("pthread_mutexattr_destroy", 1%nat);
  ("pthread_mutexattr_settype", 2%nat); ("pthread_mutexattr_gettype", 2%nat);
  ("pthread_condattr_init", 1%nat); ("pthread_condattr_destroy", 1%nat);
  ("pthread_barrierattr_init", 1%nat); ("pthread_barrierattr_destroy", 1%nat)
].

(** the mutex entry points through which a PTHREAD_MUTEX_INITIALIZER mutex can be used for the first time *)
Definition mutex_first_use : list string :=
  ["pthread_mutex_lock"; "pthread_mutex_trylock"; "pthread_mutex_timedlock"; "pthread_mutex_unlock"].

(** overlaid types: sizeof(myth type) <= sizeof(pthread type) must hold for each *)
Definition overlaid_types : list string :=
  ["myth_mutex_t"; "myth_cond_t"; "myth_barrier_t"; "myth_spinlock_t"; "myth_once_t"; "myth_key_t"; "myth_thread_t"].

(** * What the checker compares against *)

Fixpoint params_from (k n : nat) : list aexp :=
  match n with O => [] | S n' => AParam k :: params_from (S k) n' end.
Definition params (n : nat) : list aexp := params_from 0 n.

Definition is_void (o : opspec) : bool := match o_ret o with RVoid => true | _ => false end.

Definition expected_stmts (K : wconsts) (o : opspec) : list stmt :=
  (match o_init o with Some i => [SInit (AParam i)] | None => [] end) ++
  match o_ret o with
  | RDirect => [SCall (o_body o) (o_args o)]
  | RVoid => [SCallV (o_body o) (o_args o)]
  | RBarrier => [SCall (o_body o) (o_args o); SRetMap (k_myth_serial K) (k_posix_serial K) 0]
  | RSpinTry => [SCallTern (o_body o) (o_args o) 0 (k_ebusy K)]
  | RZero => [SCallV (o_body o) (o_args o); SConst 0]
  end.

Definition expected_real (name : string) (arity : nat) (void : bool) : list stmt :=
  [ (if void then SCallV else SCall) ("real_" ++ name) (params arity) ].

(** the value POSIX requires, given the value [r] the body returned *)
Definition posix_ret (K : wconsts) (o : opspec) (r : Z) : rstate :=
  match o_ret o with
  | RDirect => RVal r
  | RVoid => RUnset
  | RBarrier => if (r =? k_myth_serial K)%Z then RVal (k_posix_serial K)
                else if (r =? 0)%Z then RVal 0%Z else RAbort
  | RSpinTry => RVal (if (r =? 0)%Z then k_ebusy K else 0%Z)
  | RZero => RVal 0%Z
  end.

Definition spec_events (E : env) (args : list Z) (o : opspec) : list event :=
  (match o_init o with Some i => [EvInit (nth i args 0%Z)] | None => [] end) ++
  [EvCall (o_body o) (map (eval E args) (o_args o))].

(** * Decidable equality of the syntax *)

Definition aexp_eqb (a b : aexp) : bool :=
  match a, b with
  | AParam i, AParam j => Nat.eqb i j
  | AXlate f i, AXlate g j => String.eqb f g && Nat.eqb i j
  | _, _ => false                      (* AOther is never equal to anything *)
  end.

Fixpoint list_eqb {A} (eqb : A -> A -> bool) (l1 l2 : list A) : bool :=
  match l1, l2 with
  | [], [] => true
  | x :: r1, y :: r2 => eqb x y && list_eqb eqb r1 r2
  | _, _ => false
  end.

Definition stmt_eqb (s t : stmt) : bool :=
  match s, t with
  | SInit a, SInit b => aexp_eqb a b
  | SWarn, SWarn => true
  | SCall f a, SCall g b => String.eqb f g && list_eqb aexp_eqb a b
  | SCallV f a, SCallV g b => String.eqb f g && list_eqb aexp_eqb a b
  | SCallTern f a x y, SCallTern g b u v => String.eqb f g && list_eqb aexp_eqb a b && Z.eqb x u && Z.eqb y v
  | SConst v, SConst w => Z.eqb v w
  | SRetMap a b c, SRetMap d e f => Z.eqb a d && Z.eqb b e && Z.eqb c f
  | _, _ => false
  end.

Definition stmts_eqb := list_eqb stmt_eqb.

Definition call_eqb (c : option (string * list aexp)) (f : string) (args : list aexp) : bool :=
  match c with
  | Some (g, a) => String.eqb g f && list_eqb aexp_eqb a args
  | None => false
  end.

(** * The checker *)

Fixpoint find_entry (n : string) (t : list entry) : option entry :=
  match t with
  | [] => None
  | e :: r => if String.eqb (e_name e) n then Some e else find_entry n r
  end.

Fixpoint count_entries (n : string) (t : list entry) : nat :=
  match t with
  | [] => O
  | e :: r => (if String.eqb (e_name e) n then 1 else 0) + count_entries n r
  end.

Definition real_side_ok (name : string) (arity : nat) (e : entry) : bool :=
  e_in_opts e &&
  call_eqb (e_real_ld e) ("__real_" ++ name) (params arity) &&
  call_eqb (e_real_dl e) ("real_function_table." ++ name) (params arity).

Definition entry_ok (K : wconsts) (o : opspec) (e : entry) : bool :=
  Nat.eqb (e_arity e) (o_arity o) &&
  e_guarded e &&
  stmts_eqb (e_wrapped e) (expected_stmts K o) &&
  stmts_eqb (e_real e) (expected_real (o_name o) (o_arity o) (is_void o)) &&
  Bool.eqb (e_returns_ret e) (negb (is_void o)) &&
  real_side_ok (o_name o) (o_arity o) e.

Definition op_ok (K : wconsts) (t : list entry) (o : opspec) : bool :=
  match find_entry (o_name o) t with
  | Some e => entry_ok K o e && Nat.eqb (count_entries (o_name o) t) 1
  | None => false
  end.

Definition opt_ok (K : wconsts) (t : list entry) (o : opspec) : bool :=
  match find_entry (o_name o) t with
  | Some e => entry_ok K o e && Nat.eqb (count_entries (o_name o) t) 1
  | None => true
  end.

Definition pass_entry_ok (n : string) (arity : nat) (e : entry) : bool :=
  Nat.eqb (e_arity e) arity &&
  negb (e_guarded e) &&
  stmts_eqb (e_wrapped e) (expected_real n arity false) &&
  e_returns_ret e &&
  real_side_ok n arity e.

Definition pass_ok (t : list entry) (p : string * nat) : bool :=
  match find_entry (fst p) t with
  | Some e => pass_entry_ok (fst p) (snd p) e && Nat.eqb (count_entries (fst p) t) 1
  | None => false
  end.

Fixpoint find_size (n : string) (l : list (string * Z * Z)) : option (Z * Z) :=
  match l with
  | [] => None
  | (m, a, b) :: r => if String.eqb m n then Some (a, b) else find_size n r
  end.

Definition size_ok (sizes : list (string * Z * Z)) (n : string) : bool :=
  match find_size n sizes with Some (a, b) => (0 <? a)%Z && (a <=? b)%Z | None => false end.

Definition consts_ok (K : wconsts) : bool :=
  negb (k_myth_serial K =? 0)%Z && negb (k_posix_serial K =? 0)%Z && negb (k_ebusy K =? 0)%Z.

Definition wrap_table_ok (K : wconsts) (t : list entry) : bool :=
  consts_ok K && forallb (op_ok K t) posix_subset && forallb (pass_ok t) passthrough_subset &&
  forallb (opt_ok K t) optional_subset.

Definition sizes_ok (sizes : list (string * Z * Z)) : bool := forallb (size_ok sizes) overlaid_types.

(** diagnostics for the check: the names whose entry is rejected *)
Definition failing (K : wconsts) (t : list entry) : list string :=
  map o_name (filter (fun o => negb (op_ok K t o)) posix_subset) ++
  map o_name (filter (fun o => negb (opt_ok K t o)) optional_subset) ++
  map fst (filter (fun p => negb (pass_ok t p)) passthrough_subset).
