From Coq Require Import ExtrOcamlBasic.
From Coq Require Import ZArith.
From MT Require Import Tls.TlsTreeModel Tls.TlsDestroyModel.
Extraction Language OCaml.
Separate Extraction Z.div_eucl Z.add Z.mul Z.opp consts cfg_plain cfg_tagged empty set get fini calls_of frees_of reads_of.
