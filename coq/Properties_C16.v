(** C16 -- pthread programs behave the same on MassiveThreads as on the system pthreads.

    What is a theorem here and what is not.  The property compares two implementations of POSIX threads.
    The MassiveThreads side is: wrapper (src/myth_wrap_pthread.c) ; body (the *_body functions the
    theorems of C01, C04-C06, C10, C11, C13, C14, C20 are about).  Proved below, for the wrapper layer:
      - [C16_wrap_table_sound]: a table accepted by the checker forwards every POSIX operation of the
        supported subset to the intended body, arguments in order, initialiser handling first where a
        statically initialised mutex can be used for the first time, return value mapped as POSIX requires,
        and in unwrapped mode to the system function by both redirection mechanisms;
        the table is REGENERATED from the current source on every run and the checker is run on it by
        vm_compute (build/C16/gen/TableCheck.v: C16_table_ok);
      - [C16_static_init_once]: the conversion of a static initialiser, any number of simultaneous first users;
      - [C16_attr_translation]: the translated thread attribute has every field defined and carries the
        detach state and the stack size of the pthread attribute.
    NOT a theorem (hence [_partial]): that the composition wrapper;body and glibc compute the same result
    for every determinate program.  That glibc refines the POSIX specification is an assumption; the bodies'
    own theorems live in the other properties; the equality of results is what the differential run of the
    check (harness/c16_prog.c, three builds, 1..4 workers) tests. *)
From Coq Require Import List String ZArith Bool.
From MT Require Import Lib.Interleave.
From MT Require Import Wrap.WrapSpec Wrap.WrapProofs Wrap.AttrModel Wrap.AttrProofs
                       Wrap.StaticInitModel Wrap.StaticInitProofs Wrap.WrapTablePinned
                       Wrap.StaticMutexModel Wrap.StaticMutexCompose.
Import ListNotations.
Open Scope string_scope.

(** * Forwarding table *)

Theorem C16_wrap_table_sound : forall K t,
  wrap_table_ok K t = true ->
  (forall o, In o posix_subset -> forwards K t o) /\
  (forall p, In p passthrough_subset -> passes t p).
Proof. exact wrap_table_sound. Qed.
Print Assumptions C16_wrap_table_sound.

(** pthread_yield: wrapped only where it still is a function (see WrapSpec.optional_subset); then like sched_yield *)
Theorem C16_wrap_table_optional : forall K t,
  wrap_table_ok K t = true ->
  forall o, In o optional_subset -> find_entry (o_name o) t = None \/ forwards K t o.
Proof. exact wrap_table_optional. Qed.
Print Assumptions C16_wrap_table_optional.

Theorem C16_wrap_table_init_first : forall K t,
  wrap_table_ok K t = true ->
  forall o, In o posix_subset -> In (o_name o) mutex_first_use ->
  exists e, find_entry (o_name o) t = Some e /\
    forall E args, fst (run_wrapped E e args) =
                   [EvInit (nth 0 args 0%Z); EvCall (o_body o) (map (eval E args) (o_args o))].
Proof. exact wrap_table_init_first. Qed.
Print Assumptions C16_wrap_table_init_first.

Theorem C16_wrap_table_barrier_ret : forall K t,
  wrap_table_ok K t = true ->
  exists e, find_entry "pthread_barrier_wait" t = Some e /\
    forall E args,
      let r := body E "myth_barrier_wait_body" [nth 0 args 0%Z] in
      (r = k_myth_serial K -> snd (run_wrapped E e args) = RVal (k_posix_serial K)) /\
      (r = 0%Z -> snd (run_wrapped E e args) = RVal 0%Z) /\
      k_posix_serial K <> 0%Z.
Proof. exact wrap_table_barrier_ret. Qed.
Print Assumptions C16_wrap_table_barrier_ret.

Theorem C16_wrap_table_spin_ret : forall K t,
  wrap_table_ok K t = true ->
  (exists e, find_entry "pthread_spin_trylock" t = Some e /\
     forall E args, snd (run_wrapped E e args) =
       RVal (if (body E "myth_spin_trylock_body" [nth 0 args 0%Z] =? 0)%Z then k_ebusy K else 0%Z)) /\
  (exists e, find_entry "pthread_spin_lock" t = Some e /\
     forall E args, snd (run_wrapped E e args) = RVal 0%Z) /\
  k_ebusy K <> 0%Z.
Proof. exact wrap_table_spin_ret. Qed.
Print Assumptions C16_wrap_table_spin_ret.

Theorem C16_sizes_sound : forall sizes,
  sizes_ok sizes = true ->
  forall n, In n overlaid_types -> exists a b, find_size n sizes = Some (a, b) /\ (0 < a <= b)%Z.
Proof. exact sizes_sound. Qed.
Print Assumptions C16_sizes_sound.

(** pthread_cond_timedwait (body = assert(0)) and the other wrapped-but-unsupported entry points are declared
    outside the subset; the table's rows for them carry no claim *)
Example C16_outside_subset_disjoint :
  subset_disjoint_outside = true /\
  existsb (fun p => String.eqb (fst p) "pthread_cond_timedwait") outside_subset = true /\
  existsb (fun o => String.eqb (o_name o) "pthread_yield") optional_subset = true.
Proof. vm_compute. repeat split; reflexivity. Qed.

Example C16_optional_checked :
  let py := mk "pthread_yield" 0 "myth_yield_body" [] None RDirect in
  wrap_table_ok K0 (good_table ++ [good_entry py]) = true /\
  wrap_table_ok K0 (good_table ++ [set_wrapped [SCall "myth_usleep_body" []] (good_entry py)]) = false /\
  find_entry "pthread_yield" table = None.
Proof. vm_compute. repeat split; reflexivity. Qed.

(** non-vacuity: the pinned tree's table (97 wrappers) is accepted; ten realistic mutants are rejected,
    reordering is accepted *)
Example C16_pinned_table_ok : wrap_table_ok consts table = true.
Proof. vm_compute. reflexivity. Qed.

Example C16_pinned_sizes_ok : sizes_ok sizes = true.
Proof. vm_compute. reflexivity. Qed.

Example C16_mutants_rejected :
  wrap_table_ok K0 (patch "pthread_cond_signal" (set_wrapped [SCall "myth_cond_broadcast_body" [P 0]]) good_table) = false /\
  wrap_table_ok K0 (patch "pthread_mutex_trylock" (set_wrapped [SCall "myth_mutex_trylock_body" [P 0]]) good_table) = false /\
  wrap_table_ok K0 (patch "pthread_cond_wait" (set_wrapped [SCall "myth_cond_wait_body" [P 1; P 0]]) good_table) = false /\
  wrap_table_ok K0 (rev good_table) = true.
Proof. vm_compute. repeat split; reflexivity. Qed.

(** the pinned pthread_mutex_trylock wrapper, run on any environment: initialiser handling, then the body *)
Example C16_pinned_trylock_runs : forall E m,
  match find_entry "pthread_mutex_trylock" table with
  | Some e => run_wrapped E e [m] =
              ([EvInit m; EvCall "myth_mutex_trylock_body" [m]], RVal (body E "myth_mutex_trylock_body" [m]))
  | None => False
  end.
Proof. intros E m. reflexivity. Qed.

(** the return mapping matters: an unmapped spin_trylock answers 1 where POSIX requires 0 (defect repaired
    by 6c58c5c; kept as a witness) *)
Theorem C16_spin_trylock_unmapped_refuted :
  exists E args,
    snd (exec E args [SCall "myth_spin_trylock_body" [P 0]] RUnset) <>
    posix_ret K0 (mk "pthread_spin_trylock" 1 "myth_spin_trylock_body" [P 0] None RSpinTry)
              (body E "myth_spin_trylock_body" [nth 0 args 0%Z]).
Proof. exact spin_trylock_unmapped_wrong. Qed.
Print Assumptions C16_spin_trylock_unmapped_refuted.

(** * Static initialiser *)

Theorem C16_static_init_once : forall sh,
  shape_ok sh = true ->
  forall m0 st0 q0 n, m0 <> sh_initializing sh ->
  forall s, reachable (fun s0 => s0 = init_state sh m0 st0 q0 n) (step sh) s ->
  (* at most one initialisation, never after a use, no use before it *)
  inits s <= 1 /\ clobber s = false /\ bad_use s = false /\
  (* the loser's assertion holds *)
  (forall t, nth_error (pcs s) t <> Some PAbort) /\
  (* nobody proceeds to the body before the magic word is the myth magic number and the fields are set;
     a static initialiser has then been converted exactly once *)
  (forall t, nth_error (pcs s) t = Some PDone ->
             magic s = sh_magic_no sh /\ rest_ok s = true /\ (m0 <> sh_magic_no sh -> inits s = 1)) /\
  (* an already initialised mutex (locked or not, sleepers or not) is never re-initialised *)
  (m0 = sh_magic_no sh ->
     inits s = 0 /\ magic s = sh_magic_no sh /\ (uses s = 0 -> mstate s = st0 /\ sleepers s = q0)).
Proof. exact static_init_once. Qed.
Print Assumptions C16_static_init_once.

Theorem C16_static_init_once_run : forall sh,
  shape_ok sh = true ->
  forall m0 st0 q0 n, m0 <> sh_initializing sh ->
  forall sched, static_safe sh m0 st0 q0 (run (step sh) sched (init_state sh m0 st0 q0 n)).
Proof. exact static_init_once_run. Qed.
Print Assumptions C16_static_init_once_run.

Theorem C16_static_init_exactly_once : forall sh,
  shape_ok sh = true ->
  forall m0 st0 q0 n, m0 <> sh_initializing sh -> m0 <> sh_magic_no sh ->
  forall sched t,
    let s := run (step sh) sched (init_state sh m0 st0 q0 n) in
    nth_error (pcs s) t = Some PDone -> inits s = 1 /\ magic s = sh_magic_no sh /\ rest_ok s = true.
Proof. exact static_init_exactly_once. Qed.
Print Assumptions C16_static_init_exactly_once.

Example C16_pinned_shape_ok : shape_ok si_shape = true.
Proof. vm_compute. reflexivity. Qed.

Example C16_static_init_demo :
  summary (run (step si_shape) demo_sched (init_state si_shape 0 77 [5] 3)) =
  (123456789%Z, 1, true, false, false, false).
Proof. vm_compute. reflexivity. Qed.

(** the protocol's ingredients are all needed: dropping `mi.magic = initializing`, storing the magic number
    before the struct, a CAS that installs the magic number at once, no guard against "initializing" -- each
    is rejected by the checker AND has a schedule that breaks the property *)
Theorem C16_static_init_variants_refuted :
  (shape_ok shape_no_local_magic = false /\
   exists sched, bad_use (run (step shape_no_local_magic) sched (init_state shape_no_local_magic 0 0 [] 2)) = true) /\
  (shape_ok shape_swapped = false /\
   exists sched, bad_use (run (step shape_swapped) sched (init_state shape_swapped 0 0 [] 2)) = true) /\
  (shape_ok shape_no_phase = false /\
   exists sched, bad_use (run (step shape_no_phase) sched (init_state shape_no_phase 0 0 [] 2)) = true) /\
  (shape_ok shape_no_guard = false /\
   exists sched, inits (run (step shape_no_guard) sched (init_state shape_no_guard 0 0 [] 2)) = 2).
Proof.
  exact (conj no_local_magic_refuted (conj swapped_refuted (conj no_phase_refuted no_guard_refuted))).
Qed.
Print Assumptions C16_static_init_variants_refuted.

(** * Attribute translation *)

Theorem C16_attr_translation : forall fields iw steps null_ok reads dflt pth,
  attr_check fields iw steps null_ok reads = true ->
  (forall f, In f fields -> defined f (attr_to_myth fields iw steps dflt pth)) /\
  (forall f, In f reads -> defined f (attr_to_myth fields iw steps dflt pth)) /\
  lookup "detachstate" (attr_to_myth fields iw steps dflt pth) = Some (Val (pth "detachstate")) /\
  lookup "stacksize" (attr_to_myth fields iw steps dflt pth) = Some (Val (pth "stacksize")) /\
  In "detachstate" reads /\ In "stacksize" reads.
Proof.
  intros fields iw steps null_ok reads dflt pth H.
  split; [exact (attr_translation_defined fields iw steps null_ok reads dflt pth H)|].
  split; [exact (attr_create_reads_defined fields iw steps null_ok reads dflt pth H)|].
  exact (attr_translation_values fields iw steps null_ok reads dflt pth H).
Qed.
Print Assumptions C16_attr_translation.

Example C16_pinned_attr_ok :
  attr_check attr_fields attr_init_writes attr_xlate_steps attr_xlate_null attr_create_reads = true.
Proof. vm_compute. reflexivity. Qed.

(** before 85e96a1 (myth_thread_attr_init_body did not write custom_data_size / custom_data): the checker
    rejects, and the translated attribute has an undefined field that creation reads as a memcpy length *)
Theorem C16_attr_translation_prefix_refuted :
  attr_check pin_fields prefix_init_writes pin_steps true pin_create_reads = false /\
  exists f, In f pin_fields /\ In f pin_create_reads /\
    forall dflt pth, lookup f (attr_to_myth pin_fields prefix_init_writes pin_steps dflt pth) = Some Undef.
Proof. exact (conj prefix_attr_rejected attr_translation_prefix_refuted). Qed.
Print Assumptions C16_attr_translation_prefix_refuted.

(** * A statically initialised mutex behaves as a mutex (composition with C04's protocol model)

    Product system (Wrap/StaticMutexModel.v): every pthread_mutex_{lock,trylock,timedlock,unlock} call =
    the initialiser handling (StaticInitModel steps on the magic word) followed by SyncModel's call / steps
    on the same mutex words; the store of the non-magic fields writes SyncModel's initial words;
    pthread_cond_{wait,signal,broadcast} enter SyncModel directly.  [m0] = the myth magic number: the mutex
    has been initialised by pthread_mutex_init; anything else: a static initialiser with garbage words. *)

Theorem C16_static_mutex_projects : forall sh,
  shape_ok sh = true ->
  forall m0 w0 q0 nt nc, m0 <> sh_initializing sh ->
  forall p, reachable (fun p => p = pinit sh m0 w0 q0 nt nc) (pstep sh) p ->
  (* the SyncModel state the product state stands for is reachable in SyncModel from init_state *)
  reachable MP.init SY.step (proj sh m0 p) /\
  (* and it IS the product's mutex state as soon as a body has been entered *)
  (entered p = true -> proj sh m0 p = sy p).
Proof.
  intros sh Hok m0 w0 q0 nt nc Hm p Hp. split.
  - exact (static_mutex_projects sh Hok m0 w0 q0 nt nc Hm p Hp).
  - exact (static_mutex_entered_ready sh Hok m0 w0 q0 nt nc Hm p Hp).
Qed.
Print Assumptions C16_static_mutex_projects.

Theorem C16_static_mutex_no_early_step : forall sh,
  shape_ok sh = true ->
  forall m0 w0 q0 nt nc, m0 <> sh_initializing sh ->
  forall p, reachable (fun p => p = pinit sh m0 w0 q0 nt nc) (pstep sh) p ->
  ready sh m0 p = false ->
  (* until the initialisation has completed nobody is in a body, nobody owns, sleeps or has a callback in
     flight, and the object's words are untouched *)
  entered p = false /\ pre_ok (sy p) /\ SY.mword (sy p) = w0 /\ SY.mq (sy p) = q0.
Proof. exact static_mutex_no_early_step. Qed.
Print Assumptions C16_static_mutex_no_early_step.

Theorem C16_static_mutex_no_late_init : forall sh,
  shape_ok sh = true ->
  forall m0 w0 q0 nt nc, m0 <> sh_initializing sh ->
  forall p ta p', reachable (fun p => p = pinit sh m0 w0 q0 nt nc) (pstep sh) p ->
  pstep sh p ta = Some p' ->
  inits (si p') <= 1 /\
  (entered p = true -> inits (si p') = inits (si p)) /\
  (m0 = sh_magic_no sh -> inits (si p') = 0).
Proof. exact static_mutex_no_late_init. Qed.
Print Assumptions C16_static_mutex_no_late_init.

Theorem C16_static_mutex_mutual_exclusion : forall sh,
  shape_ok sh = true ->
  forall m0 w0 q0 nt nc, m0 <> sh_initializing sh ->
  forall p t1 t2, reachable (fun p => p = pinit sh m0 w0 q0 nt nc) (pstep sh) p ->
  t1 <> t2 -> SY.holds (sy p) t1 = true -> SY.holds (sy p) t2 = true -> False.
Proof. exact static_mutex_mutual_exclusion. Qed.
Print Assumptions C16_static_mutex_mutual_exclusion.

Theorem C16_static_mutex_lock_bit : forall sh,
  shape_ok sh = true ->
  forall m0 w0 q0 nt nc, m0 <> sh_initializing sh ->
  forall p, reachable (fun p => p = pinit sh m0 w0 q0 nt nc) (pstep sh) p ->
  ready sh m0 p = true ->
  (SY.mword (sy p) mod 2 = Z.of_nat (SY.count_holders (sy p)))%Z /\ SY.count_holders (sy p) <= 1.
Proof. exact static_mutex_lock_bit. Qed.
Print Assumptions C16_static_mutex_lock_bit.

Theorem C16_static_mutex_no_lost_wakeup : forall sh,
  shape_ok sh = true ->
  forall m0 w0 q0 nt nc, m0 <> sh_initializing sh ->
  forall p, reachable (fun p => p = pinit sh m0 w0 q0 nt nc) (pstep sh) p ->
  ready sh m0 p = true ->
  0 < MP.SR (sy p) + List.length (SY.mq (sy p)) ->
  Z.odd (SY.mword (sy p)) = true \/
  (exists t th u, SY.get_thread (sy p) t = Some th /\ MP.has_act th u /\
                  exists nf x, u = SY.UClear nf x \/ u = SY.UPush nf x) \/
  (exists t th, SY.get_thread (sy p) t = Some th /\ MP.mL (SY.main th) = 1).
Proof. exact static_mutex_no_lost_wakeup. Qed.
Print Assumptions C16_static_mutex_no_lost_wakeup.

(** non-vacuity: three threads race on the first use of a static initialiser (magic word 0, garbage words
    77 / [5]); thread 1 wins the CAS and initialises, 0 acquires, 1 finds the bit set and goes to sleep,
    2's trylock gets EBUSY; then 0 unlocks (handler fast path, dequeue, clear, push) and 1 acquires *)
Example C16_static_mutex_race_sleeper :
  psummary (run (pstep si_shape) race_sched (pinit si_shape 0 77 [5] 3 1)) =
  (123456789%Z, 1, 3%Z, [1], [true; false; false], true).
Proof. vm_compute. reflexivity. Qed.

Example C16_static_mutex_race_woken :
  psummary (run (pstep si_shape) (race_sched ++ unlock_sched) (pinit si_shape 0 77 [5] 3 1)) =
  (123456789%Z, 1, 1%Z, [], [false; true; false], true).
Proof. vm_compute. reflexivity. Qed.

Example C16_static_mutex_race_early :
  psummary (run (pstep si_shape) (firstn 11 race_sched) (pinit si_shape 0 77 [5] 3 1)) =
  (987654321%Z, 0, 77%Z, [5], [false; false; false], false).
Proof. vm_compute. reflexivity. Qed.

(** * The wrapper layer as a whole (partial: see the header) *)

Theorem C16_facade_partial : forall K t sh fields iw steps reads,
  wrap_table_ok K t = true -> shape_ok sh = true -> attr_check fields iw steps true reads = true ->
  (forall o, In o posix_subset -> forwards K t o) /\
  (forall m0 st0 q0 n, m0 <> sh_initializing sh ->
     forall sched, static_safe sh m0 st0 q0 (run (step sh) sched (init_state sh m0 st0 q0 n))) /\
  (forall dflt pth f, In f fields -> defined f (attr_to_myth fields iw steps dflt pth)).
Proof.
  intros K t sh fields iw steps reads Ht Hs Ha.
  split; [exact (proj1 (wrap_table_sound K t Ht))|].
  split; [intros m0 st0 q0 n Hm sched; exact (static_init_once_run sh Hs m0 st0 q0 n Hm sched)|].
  intros dflt pth f Hf. exact (attr_translation_defined fields iw steps true reads dflt pth Ha f Hf).
Qed.
Print Assumptions C16_facade_partial.
