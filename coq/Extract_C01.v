From Coq Require Import ExtrOcamlBasic.
From Coq Require Import ZArith.
From MT Require Import Sched.DescModel.
Extraction Language OCaml.
Separate Extraction BinNums.N BinInt.Z.add BinInt.Z.mul BinInt.Z.opp BinInt.Z.div_eucl init_state step step_cfg cfg_now cfg_prefix_nullid cfg_prefix_det label silent target lval joined ret_ok pending_acquire gt locked status join_thread detached result main cb gh runs got retv reaped desc_alloc desc_freed stack_alloc stack_freed stack_sz crashed badwake clock joins cancelled cancel_enabled creq acted thr attr_dirty attr_init attr_init_prefix attr_setdetachstate attr_setstacksize attr_setchildfirst attr_setguardsize attr_setstack create_settings ainit astep nd ns fd fs ath a_desc a_stk a_det a_ph unreaped running.
