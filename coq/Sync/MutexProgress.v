(** C04 - what can be said about "each lock call eventually returns" WITHOUT scheduler fairness:
    possibility of progress (there is a short schedule after which the call has returned), and a
    starvation witness showing that nothing stronger holds: the model (like the code, by design:
    see the comment above myth_mutex_lock_body) lets a fresh locker barge in front of a woken
    sleeper for ever, in runs in which every thread keeps taking steps.

    - [lock_progress_free] (all operations, any reachable state): an awake locker on a free mutex
      acquires within three steps of its own;
    - [lock_progress_partial] (_partial: quiescent-holder case, mutex fragment): if the mutex is
      free and no thread is inside unlock / a condition wait / a felock operation, then for every
      thread inside lock() - awake, asleep in the queue, or with its enqueue pending - there is a
      schedule of at most 10 * nthreads + 4 steps after which that call has acquired;
      NOT proved: the same from states with a holder in an arbitrary position (it needs the
      hypothesis that every holder's next mutex event is its unlock, and a case analysis of all
      holder positions);
    - [starvation_possible]: a reachable state and a cycle of 28 enabled steps back to the same
      state, in which all three threads act, the mutex is released and re-acquired twice, and
      thread 1 stays inside its lock() call. *)
From Coq Require Import ZArith List Bool Lia Arith.
From MT Require Import Lib.Interleave Sync.SyncModel Sync.MutexProofs.
Import ListNotations.
Local Open Scope nat_scope.

(** strict execution: every step of the schedule is enabled *)
Fixpoint runs (s : state) (l : list actor) : option state :=
  match l with
  | [] => Some s
  | a :: r => match step s a with Some s' => runs s' r | None => None end
  end.

Lemma runs_app s l1 l2 s1 : runs s l1 = Some s1 -> runs s (l1 ++ l2) = runs s1 l2.
Proof.
  revert s; induction l1 as [|a r IH]; intros s H; cbn [runs app] in *.
  - injection H as ->. reflexivity.
  - destruct (step s a) as [s'|]; [apply IH; exact H|discriminate].
Qed.

Lemma runs_run s l s' : runs s l = Some s' -> run step l s = s'.
Proof.
  revert s; induction l as [|a r IH]; intros s H; cbn [runs] in H.
  - injection H as ->. reflexivity.
  - destruct (step s a) as [s1|] eqn:E; [|discriminate]. cbn [run fold_left]. unfold exec1 at 2. rewrite E. apply IH. exact H.
Qed.

Lemma runs_reach s l s' : reach s -> runs s l = Some s' -> reach s'.
Proof.
  revert s; induction l as [|a r IH]; intros s R H; cbn [runs] in H.
  - injection H as <-. exact R.
  - destruct (step s a) as [s1|] eqn:E; [|discriminate]. apply (IH s1); [eapply reach_step; eauto|exact H].
Qed.

(* ---- accessors of updated states ---- *)
Lemma gt_same s t a b : get_thread s t = Some a -> get_thread (set_thread s t b) t = Some b.
Proof. unfold get_thread. cbn [thr set_thread set_thr]. apply nth_error_upd_eq. Qed.
Lemma gt_other s t j b : j <> t -> get_thread (set_thread s t b) j = get_thread s j.
Proof. intros H. unfold get_thread. cbn [thr set_thread set_thr]. apply nth_error_upd_neq. congruence. Qed.

(** the thread's record after a tick that only rewrites its own pc *)
Definition is_lock_pc (p : pc) (k : after_lock) : Prop :=
  p = LockRead k \/ (exists w, p = LockCas1 k w) \/ (exists w, p = LockCas2 k w).

(** ** an awake locker on a free mutex acquires within three steps of its own *)
Lemma acquire_from_read s t th0 k :
  get_thread s t = Some th0 -> main th0 = LockRead k -> Z.even (mword s) = true ->
  exists s', runs s [(t, ETick); (t, ETick)] = Some s' /\
    get_thread s' t = Some (set_own (set_main th0 (acquired k)) true) /\
    mword s' = (mword s + 1)%Z /\ mq s' = mq s /\ cqs s' = cqs s /\ festat s' = festat s /\
    forall j, j <> t -> get_thread s' j = get_thread s j.
Proof.
  intros H0 Hm Hev. cbn [runs step]. unfold tick at 1. rewrite H0, Hm. cbv beta iota zeta.
  unfold lock_read. rewrite Hev.
  set (s1 := set_thread s t (set_main th0 (LockCas1 k (mword s)))).
  assert (H1 : get_thread s1 t = Some (set_main th0 (LockCas1 k (mword s)))) by (apply (gt_same s t th0); exact H0).
  unfold tick. rewrite H1. cbn [main set_main]. cbv beta iota zeta.
  change (mword s1) with (mword s). rewrite Z.eqb_refl.
  eexists. split; [reflexivity|]. split; [apply (gt_same _ t _ _ H1)|].
  repeat split; try reflexivity.
  intros j Hj. rewrite gt_other by exact Hj. unfold get_thread. cbn [thr set_mword]. apply (gt_other s t j _ Hj).
Qed.

Lemma acquire_free s t th k :
  reach s -> get_thread s t = Some th -> is_lock_pc (main th) k -> Z.even (mword s) = true ->
  exists n s', n <= 3 /\ runs s (repeat (t, ETick) n) = Some s' /\
    get_thread s' t = Some (set_own (set_main th (acquired k)) true) /\
    mword s' = (mword s + 1)%Z /\ mq s' = mq s /\ cqs s' = cqs s /\ festat s' = festat s /\
    forall j, j <> t -> get_thread s' j = get_thread s j.
Proof.
  intros R Hth Hpc Hev.
  pose proof (inv_twf s (inv_reach s R) t th Hth) as (_ & _ & _ & _ & W5 & _).
  (* a failed CAS sends the thread back to the read; then two more steps *)
  assert (Back : step s (t, ETick) = Some (set_thread s t (set_main th (LockRead k))) ->
            exists n s', n <= 3 /\ runs s (repeat (t, ETick) n) = Some s' /\
              get_thread s' t = Some (set_own (set_main th (acquired k)) true) /\
              mword s' = (mword s + 1)%Z /\ mq s' = mq s /\ cqs s' = cqs s /\ festat s' = festat s /\
              forall j, j <> t -> get_thread s' j = get_thread s j).
  { intros St. set (s1 := set_thread s t (set_main th (LockRead k))) in *.
    assert (H1 : get_thread s1 t = Some (set_main th (LockRead k))) by (apply (gt_same s t th); exact Hth).
    destruct (acquire_from_read s1 t _ k H1 eq_refl Hev) as (s' & Hr & G1 & G2 & G3 & G4 & G5 & G6).
    exists 3, s'. split; [lia|]. split.
    - change (repeat (t, ETick) 3) with ([(t, ETick)] ++ [(t, ETick); (t, ETick)]).
      rewrite (runs_app s _ _ s1); [exact Hr|]. cbn [runs]. rewrite St. reflexivity.
    - split; [exact G1|]. repeat split; auto.
      intros j Hj. rewrite (G6 j Hj). apply gt_other. exact Hj. }
  destruct Hpc as [Hm|[[w Hm]|[w Hm]]].
  - destruct (acquire_from_read s t th k Hth Hm Hev) as (s' & Hr & H1 & H2).
    exists 2, s'. split; [lia|]. split; [exact Hr|]. split; [exact H1|exact H2].
  - destruct (Z.eqb_spec (mword s) w) as [E|Ne].
    + exists 1. cbn [repeat runs step]. unfold tick. rewrite Hth, Hm. cbv beta iota zeta. rewrite <- E, Z.eqb_refl.
      eexists. split; [lia|]. split; [reflexivity|]. split.
      * apply (gt_same _ t th). unfold get_thread. cbn [thr set_mword]. exact Hth.
      * repeat split; try reflexivity.
        intros j Hj. rewrite gt_other by exact Hj. reflexivity.
    + apply Back. cbn [step]. unfold tick. rewrite Hth, Hm. cbv beta iota zeta. apply Z.eqb_neq in Ne. rewrite Ne. reflexivity.
  - rewrite Hm in W5. cbn [pc_ok] in W5.
    assert (Ne : (mword s =? w)%Z = false).
    { apply Z.eqb_neq. intros E. rewrite E in Hev. rewrite <- Z.negb_odd, W5 in Hev. discriminate. }
    apply Back. cbn [step]. unfold tick. rewrite Hth, Hm. cbv beta iota zeta. rewrite Ne. reflexivity.
Qed.

(** ** a holder that has returned from lock releases: ret, call unlock, read, CAS -2, dequeue the head of the
    sleep queue, clear the bit, push - seven steps of its own *)
Definition unlock_script (u : nat) (r : Z) : list actor :=
  [(u, ERet r); (u, ECall Unlock); (u, ETick); (u, ETick); (u, ETick); (u, ETick); (u, ETick)].

Lemma release_with_waiters s u thu r x r0 thx kx :
  reach s -> get_thread s u = Some thu -> main thu = Done r -> own thu = true ->
  mq s = x :: r0 -> SD s = 0 -> get_thread s x = Some thx -> main thx = Susp kx ->
  exists s', runs s (unlock_script u r) = Some s' /\
    get_thread s' u = Some (set_main (set_own thu false) (Done 0)) /\
    get_thread s' x = Some (set_main thx (LockRead kx)) /\
    mword s' = (mword s - 3)%Z /\ Z.even (mword s') = true /\ mq s' = r0 /\ cqs s' = cqs s /\ festat s' = festat s /\
    forall j, j <> u -> j <> x -> get_thread s' j = get_thread s j.
Proof.
  intros R Hu Hm Ho Hq HD Hx Hmx.
  assert (Hxu : x <> u) by (intros ->; rewrite Hu in Hx; injection Hx as <-; rewrite Hm in Hmx; discriminate).
  pose proof (inv_reach s R) as I.
  pose proof (inv_seats s I) as Is. pose proof (inv_excl s I) as Ie.
  pose proof (hO_le_SH s u thu Hu) as Ho1. unfold hO in Ho1. rewrite Ho in Ho1. cbn [Nat.b2n] in Ho1.
  rewrite Hq, HD in Is. cbn [length] in Is.
  assert (Hw3 : (3 <= mword s)%Z) by lia.
  assert (Hodd : Z.even (mword s) = false).
  { rewrite <- Z.negb_odd. apply negb_false_iff. apply Z.odd_spec. exists (Z.of_nat (SR s + S (length r0)))%Z. lia. }
  assert (Hgt : (mword s >? 1)%Z = true) by (apply Z.gtb_lt; lia).
  set (w := mword s) in *.
  unfold unlock_script. cbn [runs].
  (* ret *)
  cbn [step]. unfold ret, ret_ok. rewrite Hu, Hm, Z.eqb_refl.
  set (th1 := set_main thu Idle). set (s1 := set_thread s u th1).
  assert (H1 : get_thread s1 u = Some th1) by (apply (gt_same s u thu); exact Hu).
  (* call unlock *)
  unfold call. rewrite H1. cbn [main own th1 set_main]. rewrite Ho.
  set (th2 := set_main th1 (Unl (URead 0))). set (s2 := set_thread s1 u th2).
  assert (H2 : get_thread s2 u = Some th2) by (apply (gt_same s1 u th1); exact H1).
  (* read *)
  unfold tick at 1. rewrite H2. cbn [main th2 set_main ustep]. cbv beta iota zeta.
  change (mword s2) with w. rewrite Hodd, Hgt. rewrite H2.
  set (th3 := set_main th2 (Unl (UCas2 0 w))). set (s3 := set_thread s2 u th3).
  assert (H3 : get_thread s3 u = Some th3) by (apply (gt_same s2 u th2); exact H2).
  (* CAS -2 *)
  unfold tick at 1. rewrite H3. cbn [main th3 set_main ustep]. cbv beta iota zeta.
  change (mword s3) with w. rewrite Z.eqb_refl.
  assert (H3' : get_thread (set_mword s3 (w - 2)) u = Some th3) by exact H3. rewrite H3'.
  set (th4 := set_main th3 (Unl (UDeq 0))). set (s4 := set_thread (set_mword s3 (w - 2)) u th4).
  assert (H4 : get_thread s4 u = Some th4) by (apply (gt_same _ u th3); exact H3').
  (* dequeue *)
  unfold tick at 1. rewrite H4. cbn [main th4 set_main ustep]. cbv beta iota zeta.
  change (mq s4) with (mq s). rewrite Hq.
  assert (H4' : get_thread (setq s4 QM r0) u = Some th4) by exact H4. rewrite H4'.
  set (th5 := set_main th4 (Unl (UClear 0 x))). set (s5 := set_thread (setq s4 QM r0) u th5).
  assert (H5 : get_thread s5 u = Some th5) by (apply (gt_same _ u th4); exact H4').
  (* clear the bit *)
  unfold tick at 1. rewrite H5. cbn [main th5 set_main ustep]. cbv beta iota zeta.
  rewrite (get_thread_clear_own s5 (mword s5 - 1) u th5 H5).
  assert (E5 : clear_own (set_mword s5 (mword s5 - 1)) u = set_thread (set_mword s5 (mword s5 - 1)) u (set_own th5 false)).
  { unfold clear_own. assert (G : get_thread (set_mword s5 (mword s5 - 1)) u = Some th5) by exact H5. rewrite G. reflexivity. }
  rewrite E5.
  set (s5c := set_thread (set_mword s5 (mword s5 - 1)) u (set_own th5 false)).
  set (th6 := set_main (set_own th5 false) (Unl (UPush 0 x))). set (s6 := set_thread s5c u th6).
  assert (H6 : get_thread s6 u = Some th6).
  { apply (gt_same s5c u (set_own th5 false)). apply (gt_same _ u th5). exact H5. }
  (* push *)
  assert (Hx1 : get_thread s1 x = Some thx) by (unfold s1; rewrite gt_other by exact Hxu; exact Hx).
  assert (Hx2 : get_thread s2 x = Some thx) by (unfold s2; rewrite gt_other by exact Hxu; exact Hx1).
  assert (Hx3 : get_thread s3 x = Some thx) by (unfold s3; rewrite gt_other by exact Hxu; exact Hx2).
  assert (Hx4 : get_thread s4 x = Some thx) by (unfold s4; rewrite gt_other by exact Hxu; exact Hx3).
  assert (Hx5 : get_thread s5 x = Some thx) by (unfold s5; rewrite gt_other by exact Hxu; exact Hx4).
  assert (Hx5c : get_thread s5c x = Some thx) by (unfold s5c; rewrite gt_other by exact Hxu; exact Hx5).
  assert (Hx6 : get_thread s6 x = Some thx) by (unfold s6; rewrite gt_other by exact Hxu; exact Hx5c).
  unfold tick at 1. rewrite H6. cbn [main th6 set_main ustep]. cbv beta iota zeta.
  unfold wake. rewrite Hx6, Hmx.
  set (s6w := set_thread s6 x (set_main thx (LockRead kx))).
  assert (H6w : get_thread s6w u = Some th6) by (unfold s6w; rewrite gt_other by congruence; exact H6).
  rewrite H6w.
  eexists. split; [reflexivity|].
  split; [apply (gt_same s6w u th6 _ H6w)|].
  split; [rewrite gt_other by exact Hxu; apply (gt_same s6 x thx _ Hx6)|].
  assert (Ew : mword (set_thread s6w u (set_main th6 (Done 0))) = (w - 3)%Z).
  { change (mword (set_thread s6w u (set_main th6 (Done 0)))) with (w - 2 - 1)%Z. lia. }
  split; [exact Ew|]. split.
  { rewrite Ew. rewrite <- Z.negb_odd in Hodd. apply negb_false_iff in Hodd. apply Z.odd_spec in Hodd. destruct Hodd as [m Hm2].
    apply Z.even_spec. exists (m - 1)%Z. lia. }
  split; [reflexivity|]. split; [reflexivity|]. split; [reflexivity|].
  intros j Hju Hjx. rewrite gt_other by exact Hju. unfold s6w. rewrite gt_other by exact Hjx.
  unfold s6. rewrite gt_other by exact Hju. unfold s5c. rewrite gt_other by exact Hju.
  change (get_thread (set_mword s5 (mword s5 - 1)) j) with (get_thread s5 j).
  unfold s5. rewrite gt_other by exact Hju. change (get_thread (setq s4 QM r0) j) with (get_thread s4 j).
  unfold s4. rewrite gt_other by exact Hju. change (get_thread (set_mword s3 (w - 2)) j) with (get_thread s3 j).
  unfold s3. rewrite gt_other by exact Hju. unfold s2. rewrite gt_other by exact Hju. unfold s1. apply gt_other. exact Hju.
Qed.

(* ---------------------------------------------------------------------------------------- *)
(** ** the mutex fragment with no unlock in progress ("quiescent holder") *)
Definition qpc (p : pc) : bool :=
  match p with
  | Idle | LockRead ALRet | LockCas1 ALRet _ | LockCas2 ALRet _ | Susp ALRet
  | TryRead _ | TryCas _ _ | TryBusy | Done _ => true
  | _ => false
  end.
Definition mcb (c : cbpc) : bool := match c with CbEnq QM false => true | _ => false end.
Definition okth (th : thread) : Prop := qpc (main th) = true /\ forallb mcb (cbs th) = true.
(** every thread is idle, inside lock / trylock / timedlock, or between calls; nobody is inside unlock, a
    condition wait or a felock operation *)
Definition FQ (s : state) : Prop := forall t th, get_thread s t = Some th -> okth th.

Lemma sumf_zero {A} (f : A -> nat) l : (forall a, In a l -> f a = 0) -> sumf f l = 0.
Proof.
  induction l as [|x r IH]; intros H; cbn [sumf]; [reflexivity|].
  rewrite (H x (or_introl eq_refl)), IH; [reflexivity|]. intros a Ha. apply H. right. exact Ha.
Qed.

Lemma okth_no_act th : okth th -> hD th = 0 /\ hN th = 0 /\ (forall u, ~ has_act th u).
Proof.
  intros [Hp Hc]. rewrite forallb_forall in Hc.
  assert (E : forall f : cbpc -> nat, (forall q b, f (CbEnq q b) = 0) -> sumf f (cbs th) = 0).
  { intros f Hf. apply sumf_zero. intros a Ha. specialize (Hc a Ha). destruct a as [q b|u]; [apply Hf|discriminate]. }
  unfold hD, hN. rewrite (E eD), (E eN) by reflexivity.
  repeat split.
  - destruct (main th); try discriminate; reflexivity.
  - destruct (main th); try discriminate; reflexivity.
  - intros u [Hm|Hin]; [rewrite Hm in Hp; discriminate|]. specialize (Hc _ Hin). discriminate.
Qed.

Lemma FQ_SD s : FQ s -> SD s = 0.
Proof.
  intros F. unfold SD. apply sumf_zero. intros th Hin. apply In_nth_error in Hin. destruct Hin as [t Ht].
  apply (okth_no_act th (F t th Ht)).
Qed.

(** on a free mutex with sleepers and nobody inside unlock there is an awake locker *)
Lemma awake_locker s : reach s -> FQ s -> Z.even (mword s) = true -> mq s <> [] ->
  exists u thu, get_thread s u = Some thu /\ is_lock_pc (main thu) ALRet.
Proof.
  intros R F Hev Hq. destruct (no_lost_wakeup s R) as [H|[H|H]].
  - destruct (mq s); [congruence|cbn; lia].
  - rewrite <- Z.negb_odd, H in Hev. discriminate.
  - destruct H as (t & th & u & Hth & Ha & _). exfalso. exact (proj2 (proj2 (okth_no_act th (F t th Hth))) u Ha).
  - destruct H as (t & th & Hth & Hl). exists t, th. split; [exact Hth|].
    destruct (F t th Hth) as [Hp _]. unfold is_lock_pc.
    destruct (main th) as [|k|k w|k w| | | | | | | | | |]; cbn in Hl; try discriminate; destruct k; try discriminate; eauto.
Qed.

Lemma nth_nil {A} n : nth_error (@nil A) n = None.
Proof. destruct n; reflexivity. Qed.

Definition acquired_by (s : state) (t : nat) : Prop :=
  exists th, get_thread s t = Some th /\ main th = Done 0 /\ own th = true.

(** one round: an awake locker takes the free mutex and releases it, which hands the head of the queue
    to the run queue *)
Lemma one_round s x r0 :
  reach s -> FQ s -> Z.even (mword s) = true -> mq s = x :: r0 ->
  exists sched s2 thx, runs s sched = Some s2 /\ length sched <= 10 /\
    reach s2 /\ FQ s2 /\ Z.even (mword s2) = true /\ mq s2 = r0 /\
    get_thread s2 x = Some (set_main thx (LockRead ALRet)).
Proof.
  intros R F Hev Hq.
  assert (Hne : mq s <> []) by (rewrite Hq; discriminate).
  destruct (awake_locker s R F Hev Hne) as (u & thu & Hu & Hpc).
  destruct (acquire_free s u thu ALRet R Hu Hpc Hev) as (n & s1 & Hn & Hr1 & Hu1 & Hw1 & Hq1 & _ & _ & Ho1).
  pose proof (runs_reach _ _ _ R Hr1) as R1.
  destruct (queue_wf s R) as (_ & _ & _ & _ & Hpk & _).
  assert (Hin : In x (mq s)) by (rewrite Hq; left; reflexivity).
  destruct (Hpk x Hin) as (thx & kx & Hx & Hmx & _).
  assert (Hxu : x <> u).
  { intros ->. rewrite Hu in Hx. injection Hx as <-. destruct Hpc as [E|[[w E]|[w E]]]; rewrite E in Hmx; discriminate. }
  assert (Hkx : kx = ALRet).
  { destruct (F x thx Hx) as [Hp0 _]. rewrite Hmx in Hp0. destruct kx; [reflexivity|discriminate]. }
  subst kx.
  assert (Hx1 : get_thread s1 x = Some thx) by (rewrite (Ho1 x Hxu); exact Hx).
  assert (F1 : FQ s1).
  { intros j thj Hj. destruct (Nat.eq_dec j u) as [->|Hnj].
    - rewrite Hu1 in Hj. injection Hj as <-. destruct (F u thu Hu) as [_ Hc]. split; [reflexivity|exact Hc].
    - rewrite (Ho1 j Hnj) in Hj. exact (F j thj Hj). }
  assert (Hq1' : mq s1 = x :: r0) by (rewrite Hq1; exact Hq).
  destruct (release_with_waiters s1 u _ 0%Z x r0 thx ALRet R1 Hu1 eq_refl eq_refl Hq1' (FQ_SD s1 F1) Hx1 Hmx)
    as (s2 & Hr2 & Hu2 & Hx2 & Hw2 & Hev2 & Hq2 & _ & _ & Ho2).
  pose proof (runs_reach _ _ _ R1 Hr2) as R2.
  exists (repeat (u, ETick) n ++ unlock_script u 0), s2, thx.
  split; [rewrite (runs_app _ _ _ _ Hr1); exact Hr2|].
  split; [rewrite app_length, repeat_length; cbn [unlock_script length]; lia|].
  split; [exact R2|]. split.
  { intros j thj Hj. destruct (Nat.eq_dec j u) as [->|Hnj].
    - rewrite Hu2 in Hj. injection Hj as <-. destruct (F u thu Hu) as [_ Hc]. split; [reflexivity|exact Hc].
    - destruct (Nat.eq_dec j x) as [->|Hnx].
      + rewrite Hx2 in Hj. injection Hj as <-. destruct (F x thx Hx) as [_ Hc]. split; [reflexivity|exact Hc].
      + rewrite (Ho2 j Hnj Hnx) in Hj. exact (F1 j thj Hj). }
  split; [exact Hev2|]. split; [exact Hq2|exact Hx2].
Qed.

(** the sleeper at position [p] of the queue is reached after [p + 1] rounds and then acquires *)
Lemma sleeper_progress : forall p s t,
  reach s -> FQ s -> Z.even (mword s) = true -> nth_error (mq s) p = Some t ->
  exists sched s', runs s sched = Some s' /\ length sched <= 10 * (p + 1) + 3 /\ acquired_by s' t.
Proof.
  induction p as [|p IH]; intros s t R F Hev Hp.
  - destruct (mq s) as [|x r0] eqn:Hq; [discriminate Hp|]. cbn in Hp. injection Hp as ->.
    destruct (one_round s t r0 R F Hev Hq) as (sched & s2 & thx & Hr & Hl & R2 & F2 & Hev2 & Hq2 & Ht2).
    assert (Hlk : is_lock_pc (main (set_main thx (LockRead ALRet))) ALRet) by (left; reflexivity).
    destruct (acquire_free s2 t _ ALRet R2 Ht2 Hlk Hev2) as (n' & s3 & Hn' & Hr3 & Ht3 & _).
    exists (sched ++ repeat (t, ETick) n'), s3.
    split; [rewrite (runs_app _ _ _ _ Hr); exact Hr3|]. split.
    + rewrite app_length, repeat_length. lia.
    + eexists. split; [exact Ht3|]. split; reflexivity.
  - destruct (mq s) as [|x r0] eqn:Hq; [discriminate Hp|]. cbn in Hp.
    destruct (one_round s x r0 R F Hev Hq) as (sched & s2 & thx & Hr & Hl & R2 & F2 & Hev2 & Hq2 & _).
    rewrite <- Hq2 in Hp.
    destruct (IH s2 t R2 F2 Hev2 Hp) as (sched2 & s3 & Hr3 & Hl3 & Ha).
    exists (sched ++ sched2), s3.
    split; [rewrite (runs_app _ _ _ _ Hr); exact Hr3|]. split; [|exact Ha].
    rewrite app_length. lia.
Qed.

(* ---------------------------------------------------------------------------------------- *)
(** ** possibility of progress for a lock() call, quiescent-holder case *)

Lemma In_remove_nth {A} (l : list A) i a : In a (remove_nth l i) -> In a l.
Proof.
  revert i; induction l as [|x r IH]; intros [|i] H; cbn [remove_nth In] in *; auto.
  destruct H as [H|H]; [left; exact H|right; eapply IH; eauto].
Qed.

Lemma mq_short s : reach s -> length (mq s) <= length (thr s).
Proof.
  intros R. destruct (queue_wf s R) as (Hnd & _ & _ & _ & Hpk & _).
  rewrite <- (seq_length (length (thr s)) 0). apply NoDup_incl_length; [exact Hnd|].
  intros x Hx. apply in_seq. destruct (Hpk x Hx) as (th & k & Hth & _). unfold get_thread in Hth.
  assert (x < length (thr s)) by (apply nth_error_Some; congruence). lia.
Qed.

(** [t] is inside lock(): awake at the read / CAS points, asleep in the mutex queue, or suspended
    with its seat reserved and its enqueue callback still pending *)
Definition in_lock (s : state) (t : nat) : Prop :=
  (exists th, get_thread s t = Some th /\ is_lock_pc (main th) ALRet) \/
  In t (mq s) \/
  (exists th i, get_thread s t = Some th /\ nth_error (cbs th) i = Some (CbEnq QM false)).

Theorem lock_progress_partial s t :
  reach s -> FQ s -> Z.even (mword s) = true -> in_lock s t ->
  exists sched s', length sched <= 10 * length (thr s) + 4 /\
    runs s sched = Some s' /\ run step sched s = s' /\ acquired_by s' t.
Proof.
  intros R F Hev Hin.
  assert (Queue : forall s0, reach s0 -> FQ s0 -> Z.even (mword s0) = true -> In t (mq s0) ->
            exists sched s', length sched <= 10 * length (thr s0) + 3 /\ runs s0 sched = Some s' /\ acquired_by s' t).
  { intros s0 R0 F0 Hev0 Hi. apply In_nth_error in Hi. destruct Hi as [p Hp].
    assert (Hlt : p < length (mq s0)) by (apply nth_error_Some; congruence).
    pose proof (mq_short s0 R0).
    destruct (sleeper_progress p s0 t R0 F0 Hev0 Hp) as (sched & s' & Hr & Hl & Ha).
    exists sched, s'. split; [lia|]. split; assumption. }
  destruct Hin as [(th & Hth & Hpc)|[Hi|(th & i & Hth & Hi)]].
  - destruct (acquire_free s t th ALRet R Hth Hpc Hev) as (n & s' & Hn & Hr & Ht & _).
    exists (repeat (t, ETick) n), s'. split; [rewrite repeat_length; lia|]. split; [exact Hr|]. split; [apply runs_run; exact Hr|].
    eexists. split; [exact Ht|]. split; reflexivity.
  - destruct (Queue s R F Hev Hi) as (sched & s' & Hl & Hr & Ha).
    exists sched, s'. split; [lia|]. split; [exact Hr|]. split; [apply runs_run; exact Hr|exact Ha].
  - (* the pending enqueue first *)
    set (s1 := set_thread (setq s QM (mq s ++ [t])) t (set_cbs th (remove_nth (cbs th) i))).
    assert (St : step s (t, ECbTick i) = Some s1).
    { cbn [step]. unfold cbtick. rewrite Hth, Hi. reflexivity. }
    assert (R1 : reach s1) by (eapply reach_step; eauto).
    assert (F1 : FQ s1).
    { intros j thj Hj. destruct (Nat.eq_dec j t) as [->|Hne].
      - assert (E : get_thread s1 t = Some (set_cbs th (remove_nth (cbs th) i))) by (apply (gt_same _ t th); exact Hth).
        rewrite E in Hj. injection Hj as <-. destruct (F t th Hth) as [Hp Hc]. split; [exact Hp|].
        cbn [cbs set_cbs]. rewrite forallb_forall in *. intros a Ha. apply Hc. eapply In_remove_nth; eauto.
      - unfold s1 in Hj. rewrite gt_other in Hj by exact Hne. exact (F j thj Hj). }
    assert (Hi1 : In t (mq s1)) by (cbn [s1 mq set_thread set_thr setq]; apply in_or_app; right; left; reflexivity).
    destruct (Queue s1 R1 F1 Hev Hi1) as (sched & s' & Hl & Hr & Ha).
    assert (Hlen : length (thr s1) = length (thr s)) by (cbn [s1 thr set_thread set_thr setq]; apply upd_length).
    assert (Hr' : runs s ((t, ECbTick i) :: sched) = Some s') by (cbn [runs]; rewrite St; exact Hr).
    exists ((t, ECbTick i) :: sched), s'. split; [cbn [length]; lia|]. split; [exact Hr'|].
    split; [apply runs_run; exact Hr'|exact Ha].
Qed.

(** the general (all operations, any reachable state) part: an awake locker on a free mutex acquires
    within three steps of its own *)
Theorem lock_progress_free s t th k :
  reach s -> get_thread s t = Some th -> is_lock_pc (main th) k -> Z.even (mword s) = true ->
  exists n s', n <= 3 /\ runs s (repeat (t, ETick) n) = Some s' /\ run step (repeat (t, ETick) n) s = s' /\
    holds s' t = true /\ exists th', get_thread s' t = Some th' /\ main th' = acquired k.
Proof.
  intros R Hth Hpc Hev. destruct (acquire_free s t th k R Hth Hpc Hev) as (n & s' & Hn & Hr & Ht & _).
  exists n, s'. split; [exact Hn|]. split; [exact Hr|]. split; [apply runs_run; exact Hr|].
  split; [unfold holds; rewrite Ht; reflexivity|]. eexists. split; [exact Ht|reflexivity].
Qed.

(* ---------------------------------------------------------------------------------------- *)
(** ** starvation is possible: "every lock call eventually returns" needs more than weak fairness *)

(** t0 holds, t1 sleeps in the queue *)
Definition starve_prefix : list actor :=
  [(0, ECall Lock); (0, ETick); (0, ETick); (0, ERet 0%Z);
   (1, ECall Lock); (1, ETick); (1, ETick); (1, ECbTick 0)].
(** holder [h] releases (waking t1), the other thread [b] barges in and takes the mutex before t1 re-reads;
    t1 then finds the bit set, reserves a seat again and goes back to sleep *)
Definition starve_half (h b : nat) : list actor :=
  [(h, ECall Unlock); (h, ETick); (h, ETick); (h, ETick); (h, ETick); (h, ETick); (h, ERet 0%Z);
   (b, ECall Lock); (b, ETick); (b, ETick); (b, ERet 0%Z);
   (1, ETick); (1, ETick); (1, ECbTick 0)].
Definition starve_cycle : list actor := starve_half 0 2 ++ starve_half 2 0.
Definition starve_state : state := run step starve_prefix (init_state 3 1).

Lemma starve_cycle_closed : runs starve_state starve_cycle = Some starve_state.
Proof. vm_compute. reflexivity. Qed.

Fixpoint iterate {A} (n : nat) (l : list A) : list A := match n with O => [] | S k => l ++ iterate k l end.

(** every thread (t1 included) takes steps in every round, the mutex is released and re-acquired twice
    per round, and t1's lock() call never returns *)
Theorem starvation_possible : forall n,
  runs starve_state (iterate n starve_cycle) = Some starve_state /\
  In 1 (mq starve_state) /\ reach starve_state /\
  (forall t, In t [0; 1; 2] -> exists e, In (t, e) starve_cycle).
Proof.
  intros n. split; [|split; [|split]].
  - induction n as [|n IH]; cbn [iterate]; [reflexivity|]. rewrite (runs_app _ _ _ _ starve_cycle_closed). exact IH.
  - vm_compute. left; reflexivity.
  - apply reach_run.
  - intros t [<-|[<-|[<-|[]]]]; eexists; vm_compute; eauto 20.
Qed.
