(** Abs(mutex, its condition variables, full/empty status): the protocol model behind
    C04 (mutex), C05 (condition variables) and C09 (full/empty lock).

    Source: src/myth_sync_func.h  myth_block_on_queue(_cb), myth_wake_one_from_queue,
    myth_wake_if_any_from_queue, myth_wake_all_from_queue, myth_mutex_{try,timed,}lock_body,
    myth_mutex_clear_lock_bit, myth_mutex_unlock_body, myth_cond_{wait,signal,broadcast}_body,
    myth_felock_{wait_and_lock,mark_and_signal,lock,unlock}_body.

    One model step ([Tick] / [CbTick]) = the code between two consecutive MYTH_VERIF_POINTs
    = exactly one access to a shared word; [label] returns the id of the POINT the activity
    executes next, and the correspondence check replays real traces of the library (recorded
    under the schedule controller, harness/lib_interp.c) through [step], comparing labels,
    CAS operands and the object's words before every step.

    A thread has its own code ([main]) and, each time it has saved its context in a blocking
    call, a context-switch callback that runs on the worker it just left (enqueue on the sleep
    queue; for cond_wait then the whole unlock micro-program).  These activities genuinely
    overlap: a signaller may dequeue and wake the thread while its callback is still unlocking
    the mutex; the thread may then block again (a second callback, on another worker) while the
    first is still in its unlock tail, and so on - [cbs] is the list of the thread's callbacks
    in flight, oldest first, and [ECbTick i] steps the i-th of them.

    Sleep-queue enqueue / dequeue are one step each: they run under the queue's internal
    spinlock (modelled and proved separately); thread numbers are the program's thread tags. *)
From Coq Require Import ZArith List Bool String.
Import ListNotations.
Local Open Scope Z_scope.

Definition EBUSY : Z := 16.
Definition ETIMEDOUT : Z := 110.

(** which sleep queue *)
Inductive qid := QM | QC (c : nat).

(** API operations of this object group *)
Inductive op :=
| Lock | TryLock | TimedLock | Unlock
| CondWait (c : nat) | Signal (c : nat) | Broadcast (c : nat)
| FeWL (s : Z) | FeMS (t : Z).

(** what the caller does once the mutex has been acquired *)
Inductive after_lock := ALRet | ALFe (s : Z).

(** the unlock micro-program (runs in main context for Unlock / FeMS, in callback context
    for cond_wait); [nf] counts failed attempts (diagnostic only: unlock returns 0) *)
Inductive upc :=
| URead (nf : Z)
| UCas1 (nf s : Z)
| UCas2 (nf s : Z)
| UDeq (nf : Z)
| UClear (nf : Z) (x : nat)
| UPush (nf : Z) (x : nat).

(** what follows a signal's push *)
Inductive after_sig := ASRet | ASLoop | ASUnlock.

Inductive pc :=
| Idle
| LockRead (k : after_lock)
| LockCas1 (k : after_lock) (s : Z)
| LockCas2 (k : after_lock) (s : Z)
| Susp (k : after_lock)                  (* context saved; resumes at [LockRead k] *)
| TryRead (timed : bool)
| TryCas (timed : bool) (s : Z)
| TryBusy                                 (* timedlock after a failed attempt: retry or time out *)
| Unl (u : upc)
| SigDeq (c : nat) (k : after_sig)
| SigPush (c : nat) (k : after_sig) (x : nat)
| FeRead (s : Z)
| FeWrite (t : Z)
| Done (r : Z).

Inductive cbpc :=
| CbEnq (q : qid) (unl : bool)
| CbUnl (u : upc).

Record thread := { main : pc; cbs : list cbpc; own : bool }.

Record state := {
  mword : Z;                   (* mutex->state = 2 * seats + lock bit *)
  mq : list nat;               (* mutex sleep queue, head first *)
  cqs : list (list nat);       (* sleep queues of the condition variables *)
  festat : Z;                  (* felock status word *)
  thr : list thread
}.

Inductive ev := ECall (o : op) | ETick | ECbTick (i : nat) | ERet (v : Z).

Definition thread0 : thread := {| main := Idle; cbs := []; own := false |}.

Definition init_state (nthreads nconds : nat) : state :=
  {| mword := 0; mq := []; cqs := repeat [] nconds; festat := 0; thr := repeat thread0 nthreads |}.

(* ---- list helpers ---- *)
Fixpoint upd {A} (l : list A) (i : nat) (x : A) : list A :=
  match l, i with
  | [], _ => []
  | _ :: r, O => x :: r
  | y :: r, S j => y :: upd r j x
  end.

Definition getq (s : state) (q : qid) : list nat :=
  match q with QM => mq s | QC c => nth c (cqs s) [] end.

Definition setq (s : state) (q : qid) (l : list nat) : state :=
  match q with
  | QM => {| mword := mword s; mq := l; cqs := cqs s; festat := festat s; thr := thr s |}
  | QC c => {| mword := mword s; mq := mq s; cqs := upd (cqs s) c l; festat := festat s; thr := thr s |}
  end.

Definition set_mword (s : state) (w : Z) : state :=
  {| mword := w; mq := mq s; cqs := cqs s; festat := festat s; thr := thr s |}.
Definition set_festat (s : state) (w : Z) : state :=
  {| mword := mword s; mq := mq s; cqs := cqs s; festat := w; thr := thr s |}.
Definition set_thr (s : state) (l : list thread) : state :=
  {| mword := mword s; mq := mq s; cqs := cqs s; festat := festat s; thr := l |}.

Definition get_thread (s : state) (t : nat) : option thread := nth_error (thr s) t.
Definition set_thread (s : state) (t : nat) (x : thread) : state := set_thr s (upd (thr s) t x).

Definition set_main (th : thread) (p : pc) : thread := {| main := p; cbs := cbs th; own := own th |}.
Definition set_cbs (th : thread) (c : list cbpc) : thread := {| main := main th; cbs := c; own := own th |}.
Definition set_own (th : thread) (b : bool) : thread := {| main := main th; cbs := cbs th; own := b |}.
(** a new callback starts (the thread has just saved its context) *)
Definition add_cb (th : thread) (c : cbpc) : thread := set_cbs th (cbs th ++ [c]).

Fixpoint remove_nth {A} (l : list A) (i : nat) : list A :=
  match l, i with
  | [], _ => []
  | _ :: r, O => r
  | y :: r, S j => y :: remove_nth r j
  end.

(** wake thread [x]: it must be suspended (its context saved); it resumes at the top of lock *)
Definition wake (s : state) (x : nat) : option state :=
  match get_thread s x with
  | Some th => match main th with
               | Susp k => Some (set_thread s x (set_main th (LockRead k)))
               | _ => None
               end
  | None => None
  end.

(** one step of the unlock micro-program run by thread [t]; result: new state and either the
    next unlock pc or completion with the return value.  The lock-bit owner flag of [t] is
    cleared by the clearing step. *)
Inductive ures := UNext (u : upc) | UFin (nf : Z).

Definition clear_own (s : state) (t : nat) : state :=
  match get_thread s t with
  | Some th => set_thread s t (set_own th false)
  | None => s
  end.

Definition ustep (s : state) (t : nat) (u : upc) : option (state * ures) :=
  match u with
  | URead nf =>
      let w := mword s in
      if Z.even w then None                                   (* unlock of an unlocked mutex: exit(1) *)
      else if w >? 1 then Some (s, UNext (UCas2 nf w)) else Some (s, UNext (UCas1 nf w))
  | UCas1 nf w =>
      if mword s =? 1 then Some (clear_own (set_mword s 0) t, UFin nf)
      else Some (s, UNext (URead (nf + 1)))
  | UCas2 nf w =>
      if mword s =? w then Some (set_mword s (w - 2), UNext (UDeq nf))
      else Some (s, UNext (URead (nf + 1)))
  | UDeq nf =>
      match mq s with
      | [] => Some (s, UNext (UDeq (nf + 1)))                 (* spin until the sleeper has enqueued *)
      | x :: r => Some (setq s QM r, UNext (UClear nf x))
      end
  | UClear nf x => Some (clear_own (set_mword s (mword s - 1)) t, UNext (UPush nf x))
  | UPush nf x =>
      match wake s x with
      | Some s' => Some (s', UFin nf)
      | None => None
      end
  end.

Definition ulabel (u : upc) : string :=
  match u with
  | URead _ => "mutex.unlock.read"
  | UCas1 _ _ => "mutex.unlock.cas1"
  | UCas2 _ _ => "mutex.unlock.cas2"
  | UDeq _ => "wake1.deq"
  | UClear _ _ => "mutex.clearbit"
  | UPush _ _ => "wake1.push"
  end%string.

Definition uval (u : upc) : option Z :=
  match u with
  | UCas1 _ w | UCas2 _ w => Some w
  | UPush _ x => Some (Z.of_nat x)
  | _ => None
  end.

(** entering the lock micro-program *)
Definition lock_read (s : state) (k : after_lock) : pc :=
  let w := mword s in
  if Z.even w then LockCas1 k w else LockCas2 k w.

Definition acquired (k : after_lock) : pc :=
  match k with ALRet => Done 0 | ALFe st => FeRead st end.

(** main-activity step of thread [t] *)
Definition tick (s : state) (t : nat) : option state :=
  match get_thread s t with
  | None => None
  | Some th =>
    let put (s' : state) (p : pc) :=
      match get_thread s' t with
      | Some th' => Some (set_thread s' t (set_main th' p))
      | None => None
      end in
    match main th with
    | LockRead k => put s (lock_read s k)
    | LockCas1 k w =>
        if mword s =? w then
          match get_thread s t with
          | Some th' => Some (set_thread (set_mword s (w + 1)) t (set_own (set_main th' (acquired k)) true))
          | None => None
          end
        else put s (LockRead k)
    | LockCas2 k w =>
        if mword s =? w then
          Some (set_thread (set_mword s (w + 2)) t (add_cb (set_main th (Susp k)) (CbEnq QM false)))
        else put s (LockRead k)
    | TryRead timed =>
        let w := mword s in
        if Z.odd w then put s (if timed then TryBusy else Done EBUSY)
        else put s (TryCas timed w)
    | TryBusy =>
        let w := mword s in
        if Z.odd w then put s TryBusy else put s (TryCas true w)
    | TryCas timed w =>
        if mword s =? w then
          Some (set_thread (set_mword s (w + 1)) t (set_own (set_main th (Done 0)) true))
        else put s (TryRead timed)
    | Unl u =>
        match ustep s t u with
        | Some (s', UNext u') => put s' (Unl u')
        | Some (s', UFin nf) => put s' (Done 0)           (* unlock returns 0; [nf] is diagnostic only *)
        | None => None
        end
    | SigDeq c k =>
        match getq s (QC c) with
        | [] => match k with
                | ASUnlock => put s (Unl (URead 0))
                | _ => put s (Done 0)
                end
        | x :: r => put (setq s (QC c) r) (SigPush c k x)
        end
    | SigPush c k x =>
        match wake s x with
        | Some s' => match k with
                     | ASRet => put s' (Done 0)
                     | ASLoop => put s' (SigDeq c ASLoop)
                     | ASUnlock => put s' (Unl (URead 0))
                     end
        | None => None
        end
    | FeRead st =>
        if festat s =? st then put s (Done 0)
        else Some (set_thread s t (add_cb (set_main th (Susp (ALFe st))) (CbEnq (QC (Z.to_nat st)) true)))
    | FeWrite st => put (set_festat s st) (SigDeq (Z.to_nat st) ASUnlock)
    | Idle | Susp _ | Done _ => None
    end
  end.

(** step of the [i]-th callback in flight of thread [t]; a finished callback leaves the list *)
Definition cbtick (s : state) (t i : nat) : option state :=
  match get_thread s t with
  | None => None
  | Some th =>
    match nth_error (cbs th) i with
    | None => None
    | Some (CbEnq q unl) =>
        let s1 := setq s q (getq s q ++ [t]) in
        Some (set_thread s1 t (set_cbs th (if unl then upd (cbs th) i (CbUnl (URead 0)) else remove_nth (cbs th) i)))
    | Some (CbUnl u) =>
        match ustep s t u with
        | Some (s', UNext u') =>
            match get_thread s' t with
            | Some th' => Some (set_thread s' t (set_cbs th' (upd (cbs th') i (CbUnl u'))))
            | None => None
            end
        | Some (s', UFin _) =>
            match get_thread s' t with
            | Some th' => Some (set_thread s' t (set_cbs th' (remove_nth (cbs th') i)))
            | None => None
            end
        | None => None
        end
    end
  end.

(** a call is enabled only when the thread is idle (older callbacks of the thread may still be
    in flight on other workers); the usage contract (unlock / cond_wait / mark_and_signal only
    by the holder) is part of enabledness *)
Definition call (s : state) (t : nat) (o : op) : option state :=
  match get_thread s t with
  | None => None
  | Some th =>
    match main th with
    | Idle =>
      let go p := Some (set_thread s t (set_main th p)) in
      match o with
      | Lock => if own th then None else go (LockRead ALRet)
      | TryLock => go (TryRead false)
      | TimedLock => go (TryRead true)
      | Unlock => if own th then go (Unl (URead 0)) else None
      | CondWait c =>
          if own th then Some (set_thread s t (add_cb (set_main th (Susp ALRet)) (CbEnq (QC c) true))) else None
      | Signal c => go (SigDeq c ASRet)
      | Broadcast c => go (SigDeq c ASLoop)
      | FeWL st => if own th then None else go (LockRead (ALFe st))
      | FeMS st => if own th then go (FeWrite st) else None
      end
    | _ => None
    end
  end.

(** the value a finished call returns *)
Definition ret_ok (s : state) (t : nat) (v : Z) : bool :=
  match get_thread s t with
  | Some th => match main th with
               | Done r => v =? r
               | TryBusy => v =? ETIMEDOUT
               | _ => false
               end
  | None => false
  end.

Definition ret (s : state) (t : nat) (v : Z) : option state :=
  if ret_ok s t v then
    match get_thread s t with
    | Some th => Some (set_thread s t (set_main th Idle))
    | None => None
    end
  else None.

Definition step (s : state) (a : nat * ev) : option state :=
  let (t, e) := a in
  match e with
  | ECall o => call s t o
  | ETick => tick s t
  | ECbTick i => cbtick s t i
  | ERet v => ret s t v
  end.

(** the POINT id the activity executes at its next step ("" = none) *)
Definition label (s : state) (t : nat) (in_cb : option nat) : string :=
  match get_thread s t with
  | None => ""
  | Some th =>
    match in_cb with
    | Some i =>
      match nth_error (cbs th) i with
      | None => ""
      | Some (CbEnq _ _) => "blockq.enq"
      | Some (CbUnl u) => ulabel u
      end
    | None =>
      match main th with
      | LockRead _ => "mutex.lock.read"
      | LockCas1 _ _ => "mutex.lock.cas1"
      | LockCas2 _ _ => "mutex.lock.cas2"
      | TryRead _ | TryBusy => "mutex.try.read"
      | TryCas _ _ => "mutex.try.cas"
      | Unl u => ulabel u
      | SigDeq _ _ => "wakeany.deq"
      | SigPush _ _ _ => "wakeany.push"
      | FeRead _ => "fe.status.read"
      | FeWrite _ => "fe.status.write"
      | Idle | Susp _ | Done _ => ""
      end
    end
  end%string.

(** the value the hook reports (CAS operand, thread handed over, status); None = not compared *)
Definition lval (s : state) (t : nat) (in_cb : option nat) : option Z :=
  match get_thread s t with
  | None => None
  | Some th =>
    match in_cb with
    | Some i =>
      match nth_error (cbs th) i with
      | Some (CbEnq _ _) => Some (Z.of_nat t)
      | Some (CbUnl u) => uval u
      | None => None
      end
    | None =>
      match main th with
      | LockCas1 _ w | LockCas2 _ w | TryCas _ w => Some w
      | Unl u => uval u
      | SigPush _ _ x => Some (Z.of_nat x)
      | FeRead st | FeWrite st => Some st
      | _ => None
      end
    end
  end.

(** which sleep queue the next step of the activity touches (for the trace comparison) *)
Definition lqueue (s : state) (t : nat) (in_cb : option nat) : option qid :=
  match get_thread s t with
  | None => None
  | Some th =>
    match in_cb with
    | Some i => match nth_error (cbs th) i with Some (CbEnq q _) => Some q | Some (CbUnl _) => Some QM | None => None end
    | None => match main th with
              | SigDeq c _ | SigPush c _ _ => Some (QC c)
              | Idle | Susp _ | Done _ => None
              | _ => Some QM
              end
    end
  end.

(** number of callbacks of [t] in flight (the trace validator maps workers to list positions) *)
Definition ncbs (s : state) (t : nat) : nat :=
  match get_thread s t with Some th => List.length (cbs th) | None => O end.

(** ---- derived notions used by the theorems ---- *)

(** [t] holds the mutex: it performed the acquiring CAS and nobody has cleared the bit on its
    behalf yet *)
Definition holds (s : state) (t : nat) : bool :=
  match get_thread s t with Some th => own th | None => false end.

Definition count_holders (s : state) : nat :=
  List.length (filter own (thr s)).

Definition asleep (th : thread) : bool :=
  match main th, cbs th with Susp _, [] => true | _, _ => false end.
