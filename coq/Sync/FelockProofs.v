(** C09 - full/empty lock, part 4: the theorems about wait_and_lock / mark_and_signal on the
    felock system (the producer/consumer wrapper is in FelockExchange.v). *)
From Coq Require Import ZArith List Bool Lia Arith.
From MT Require Import Lib.Interleave Sync.SyncModel Sync.FelockBase Sync.FelockOwn Sync.FelockInv.
Import ListNotations.
Local Open Scope Z_scope.

(* ------------------------------------------------------------------------------------------ *)
(** * wait_and_lock *)

(** program points of a [FeWL st] call before it completes *)
Definition fewl_pc (st : Z) (p : pc) : Prop :=
  p = LockRead (ALFe st) \/ (exists w, p = LockCas1 (ALFe st) w) \/ (exists w, p = LockCas2 (ALFe st) w) \/
  p = Susp (ALFe st) \/ p = FeRead st.

Lemma holds_get s t : holds s t = true <-> exists th, get_thread s t = Some th /\ own th = true.
Proof.
  unfold holds. destruct (get_thread s t) as [th|].
  - split; [eauto|]. intros (th0 & E & O). inv E. exact O.
  - split; [discriminate|]. intros (th0 & E & _). discriminate.
Qed.

(** what one step does to an arbitrary thread [v] *)
Lemma step_thread_effect s u e s' v thv :
  Inv s -> fstep s (u, e) = Some s' -> get_thread s v = Some thv ->
  exists thv', get_thread s' v = Some thv' /\
    (v <> u -> own thv' = own thv /\ cbs thv' = cbs thv /\
               (main thv' = main thv \/ exists k, main thv = Susp k /\ main thv' = LockRead k)).
Proof.
  intros I H Hv. destruct (fstep_thread _ _ _ _ H) as [thu Hu].
  pose proof (i1_thr _ (inv_1 _ I) _ _ Hu) as T.
  pose proof (step_srel _ _ _ _ _ Hu (t1_pc _ T) H) as R.
  destruct (Nat.eq_dec v u) as [->|Hne].
  - destruct (srel_self _ _ _ _ _ R Hu) as [th' E]. exists th'. split; [exact E|]. intros X. contradiction.
  - destruct (srel_frame _ _ _ _ _ R Hu v Hne) as [E|(thv0 & k & A & B & C)].
    + exists thv. rewrite E. split; [exact Hv|]. auto.
    + rewrite Hv in A. inv A. eexists. split; [exact C|]. intros _. cbn.
      split; [reflexivity|split; [reflexivity|right; exists k; auto]].
Qed.

(** the status word is written by exactly one kind of step: the FeWrite step of the owner *)
Lemma status_written_by_owner s u e s' :
  Inv s -> fstep s (u, e) = Some s' -> festat s' <> festat s ->
  e = ETick /\ exists thu, get_thread s u = Some thu /\ main thu = FeWrite (festat s') /\ own thu = true.
Proof.
  intros I H Hne. destruct (fstep_thread _ _ _ _ H) as [thu Hu].
  pose proof (i1_thr _ (inv_1 _ I) _ _ Hu) as T.
  pose proof (step_srel _ _ _ _ _ Hu (t1_pc _ T) H) as R.
  inversion R; subst; clear R; gts; try congruence.
  - exfalso. apply Hne. match goal with U : urel _ _ _ _ _ _ _ |- _ => apply (urel_festat _ _ _ _ _ _ _ U) end.
  - split; [reflexivity|]. exists thu. repeat split; auto. apply (t1_need _ T).
    match goal with Hm : main thu = _ |- _ => rewrite Hm end. reflexivity.
  - exfalso. apply Hne. match goal with U : urel _ _ _ _ _ _ _ |- _ => apply (urel_festat _ _ _ _ _ _ _ U) end.
Qed.

Lemma fewl_test s t th st s' :
  Inv s -> get_thread s t = Some th -> main th = FeRead st -> fstep s (t, ETick) = Some s' ->
  own th = true /\
  ((festat s = st /\ s' = set_thread s t (set_main th (Done 0))) \/
   (festat s <> st /\
    s' = set_thread s t (add_cb (set_main th (Susp (ALFe st))) (CbEnq (QC (Z.to_nat st)) true)))).
Proof.
  intros I Hth Hm H. pose proof (i1_thr _ (inv_1 _ I) _ _ Hth) as T.
  pose proof (step_srel _ _ _ _ _ Hth (t1_pc _ T) H) as R.
  split; [apply (t1_need _ T); rewrite Hm; reflexivity|].
  inversion R; subst; clear R; try congruence.
  - left. split; congruence.
  - right. assert (st0 = st) by congruence. subst. auto.
Qed.

Lemma fewl_path_closed s t th st u e s' :
  Inv s -> get_thread s t = Some th -> fewl_pc st (main th) -> fstep s (u, e) = Some s' ->
  exists th', get_thread s' t = Some th' /\
    (fewl_pc st (main th') \/ (u = t /\ e = ETick /\ main th = FeRead st /\ festat s = st /\ main th' = Done 0)).
Proof.
  intros I Hth Hp H.
  destruct (Nat.eq_dec t u) as [<-|Hne].
  - pose proof (i1_thr _ (inv_1 _ I) _ _ Hth) as T.
    pose proof (step_srel _ _ _ _ _ Hth (t1_pc _ T) H) as R.
    unfold fewl_pc in Hp.
    inversion R; subst; clear R;
      try (exfalso; destruct Hp as [E|[[w E]|[[w E]|[E|E]]]]; congruence).
    all: try (eexists; split; [apply get_same; gts; congruence|]; gts; unfold fewl_pc).
    + left. destruct Hp as [E|[[w E]|[[w E]|[E|E]]]]; try congruence. right; left. exists (mword s). congruence.
    + left. destruct Hp as [E|[[w E]|[[w E]|[E|E]]]]; try congruence. right; right; left. exists (mword s). congruence.
    + left. destruct Hp as [E|[[w0 E]|[[w0 E]|[E|E]]]]; try congruence.
      assert (k = ALFe st) by congruence. subst. cbn. auto 6.
    + left. destruct Hp as [E|[[w0 E]|[[w0 E]|[E|E]]]]; try congruence. left. congruence.
    + left. destruct Hp as [E|[[w0 E]|[[w0 E]|[E|E]]]]; try congruence. right; right; right; left. congruence.
    + left. destruct Hp as [E|[[w0 E]|[[w0 E]|[E|E]]]]; try congruence. left. congruence.
    + right. destruct Hp as [E|[[w0 E]|[[w0 E]|[E|E]]]]; try congruence.
      repeat split; auto; congruence.
    + left. destruct Hp as [E|[[w0 E]|[[w0 E]|[E|E]]]]; try congruence. right; right; right; left. congruence.
    + left. auto.
    + (* callback unlock step: main changes only by a self push *)
      match goal with U : urel _ _ _ _ _ _ _ |- _ =>
        destruct (urel_frame _ _ _ _ _ _ _ U Hth) as [G1 _]; pose proof (urel_own _ _ _ _ _ _ _ U) as Hm end.
      eexists. split; [apply get_same; congruence|]. gts. left.
      destruct Hm as [E|(k & A & E)]; [rewrite E; exact Hp|].
      rewrite E. unfold fewl_pc in *. rewrite A in Hp.
      destruct Hp as [X|[[w X]|[[w X]|[X|X]]]]; try congruence. left. congruence.
  - destruct (step_thread_effect _ _ _ _ _ _ I H Hth) as (th' & G & X).
    destruct (X Hne) as (_ & _ & Hm). exists th'. split; [exact G|]. left.
    destruct Hm as [E|(k & A & E)]; [rewrite E; exact Hp|].
    rewrite E. unfold fewl_pc in *. rewrite A in Hp.
    destruct Hp as [Y|[[w Y]|[[w Y]|[Y|Y]]]]; try congruence. left. congruence.
Qed.

(** the two kinds of step by which an owner gives up what wait_and_lock established:
    the status write of mark_and_signal and the bit-clearing step of an unlock *)
Definition upc_clearing (u : upc) : bool := match u with UCas1 _ _ | UClear _ _ => true | _ => false end.
Definition at_release (th : thread) (e : ev) : bool :=
  match e with
  | ETick => match main th with FeWrite _ => true | Unl u => upc_clearing u | _ => false end
  | ECbTick i => match nth_error (cbs th) i with Some (CbUnl u) => upc_clearing u | _ => false end
  | _ => false
  end.

Lemma urel_keeps_own s t th u s1 th1 r :
  urel s t th u s1 th1 r -> upc_clearing u = false -> own th1 = own th.
Proof. intros U C. inv U; cbn in *; try reflexivity; discriminate. Qed.

Lemma hold_step s u e s' t th :
  Inv s -> fstep s (u, e) = Some s' -> get_thread s t = Some th -> own th = true ->
  (u = t -> at_release th e = false) ->
  exists th', get_thread s' t = Some th' /\ own th' = true /\ festat s' = festat s.
Proof.
  intros I H Hth Ho Hrel.
  destruct (Nat.eq_dec t u) as [<-|Hne].
  - specialize (Hrel eq_refl).
    pose proof (i1_thr _ (inv_1 _ I) _ _ Hth) as T.
    pose proof (step_srel _ _ _ _ _ Hth (t1_pc _ T) H) as R.
    inversion R; subst; clear R; cbn in Hrel;
      try (eexists; split; [apply get_same; gts; congruence|]; gts; auto; fail).
    + (* unl *)
      match goal with U : urel _ _ _ _ _ _ _, Hm : main th = _ |- _ =>
        destruct (urel_frame _ _ _ _ _ _ _ U Hth) as [G1 _]; rewrite Hm in Hrel;
        pose proof (urel_keeps_own _ _ _ _ _ _ _ U Hrel) as Ko;
        pose proof (urel_festat _ _ _ _ _ _ _ U) as Kf end.
      eexists; split; [apply get_same; congruence|]. gts. split; congruence.
    + (* sigpush *)
      eexists; split; [apply get_same; rewrite get_other by auto; congruence|]. gts. auto.
    + (* fewrite *) match goal with Hm : main th = _ |- _ => rewrite Hm in Hrel end. discriminate.
    + (* cbunl *)
      match goal with U : urel _ _ _ _ _ _ _, Hc : nth_error _ _ = _ |- _ =>
        destruct (urel_frame _ _ _ _ _ _ _ U Hth) as [G1 _]; rewrite Hc in Hrel;
        pose proof (urel_keeps_own _ _ _ _ _ _ _ U Hrel) as Ko;
        pose proof (urel_festat _ _ _ _ _ _ _ U) as Kf end.
      eexists; split; [apply get_same; congruence|]. gts. split; congruence.
  - destruct (step_thread_effect _ _ _ _ _ _ I H Hth) as (th' & G & X).
    destruct (X Hne) as (Eo & _ & _). exists th'. split; [exact G|]. split; [congruence|].
    destruct (Z.eq_dec (festat s') (festat s)) as [E|E]; [exact E|]. exfalso.
    destruct (status_written_by_owner _ _ _ _ I H E) as (_ & thu & Gu & _ & Ou).
    apply Hne. eapply (i1_uniq _ (inv_1 _ I)); eauto.
Qed.

(** a run in which [t] performs no status write and no bit-clearing step *)
Inductive keeps (t : nat) : state -> state -> Prop :=
| keeps_refl s : keeps t s s
| keeps_step s s1 u e s2 : keeps t s s1 -> fstep s1 (u, e) = Some s2 ->
    (u = t -> forall th, get_thread s1 t = Some th -> at_release th e = false) ->
    keeps t s s2.

Lemma keeps_holds t s s2 : keeps t s s2 -> Inv s ->
  holds s t = true -> Inv s2 /\ holds s2 t = true /\ festat s2 = festat s.
Proof.
  induction 1 as [s|s s1 u e s2 K IH H Hrel]; intros I Ho; [auto|].
  destruct (IH I Ho) as (I1 & Ho1 & F1). split; [eapply Inv_step; eauto|].
  apply holds_get in Ho1. destruct Ho1 as (th & G & O).
  destruct (hold_step _ _ _ _ _ _ I1 H G O) as (th' & G' & O' & F').
  - intros E. apply (Hrel E). exact G.
  - split; [apply holds_get; eauto|congruence].
Qed.

Lemma holder_unique s t u : Inv s -> holds s t = true -> holds s u = true -> u = t.
Proof.
  intros I A B. apply holds_get in A. apply holds_get in B.
  destruct A as (tha & Ga & Oa). destruct B as (thb & Gb & Ob). eapply (i1_uniq _ (inv_1 _ I)); eauto.
Qed.

(** C09_wait_and_lock_post *)
Theorem wait_and_lock_post s t th st s' :
  freach s -> get_thread s t = Some th -> main th = FeRead st -> fstep s (t, ETick) = Some s' ->
  (* the test step either completes the call or suspends the caller on cond[st] *)
  ((festat s = st /\ exists th', get_thread s' t = Some th' /\ main th' = Done 0) \/
   (festat s <> st /\ exists th', get_thread s' t = Some th' /\ main th' = Susp (ALFe st) /\
                      In (CbEnq (QC (Z.to_nat st)) true) (cbs th'))) /\
  (* if it completes: status = st, the caller holds the lock, nobody else does, and this stays
     so in every continuation until the caller's own status write / bit-clearing step *)
  (festat s = st ->
   forall s2, keeps t s' s2 ->
     festat s2 = st /\ holds s2 t = true /\ forall u, holds s2 u = true -> u = t).
Proof.
  intros Hr Hth Hm H. pose proof (Inv_reach _ Hr) as I.
  destruct (fewl_test _ _ _ _ _ I Hth Hm H) as [Ho [[E ->]|[E ->]]].
  - split.
    + left. split; [exact E|]. eexists. split; [apply get_same; congruence|reflexivity].
    + intros _ s2 K.
      assert (I' : Inv (set_thread s t (set_main th (Done 0)))) by (eapply Inv_step; eauto).
      assert (Ho' : holds (set_thread s t (set_main th (Done 0))) t = true).
      { apply holds_get. eexists. split; [apply get_same; congruence|exact Ho]. }
      destruct (keeps_holds _ _ _ K I' Ho') as (I2 & H2 & F2).
      split; [rewrite F2; gts; exact E|]. split; [exact H2|]. intros u Hu. eapply holder_unique; eauto.
  - split; [|congruence].
    right. split; [exact E|]. eexists. split; [apply get_same; congruence|]. gts.
    split; [reflexivity|]. apply in_or_app. right. left. reflexivity.
Qed.

(* ------------------------------------------------------------------------------------------ *)
(** * mark_and_signal *)

(** a thread in somebody's hand is suspended, hence the push is enabled *)
Lemma hand_suspended s t th x :
  Inv s -> get_thread s t = Some th -> (1 <= th_hand th x)%nat ->
  exists thx k, get_thread s x = Some thx /\ main thx = Susp k.
Proof.
  intros I Hth Hh. pose proof (i2_sl _ (inv_2 _ I) x) as E. pose proof (hands_ge s t th x Hth).
  unfold occ, SUSP in E. destruct (get_thread s x) as [thx|]; [|lia].
  destruct (main thx) eqn:M; cbn in E; try lia. eauto.
Qed.

Lemma wake_ok s x thx k : get_thread s x = Some thx -> main thx = Susp k ->
  wake s x = Some (set_thread s x (set_main thx (LockRead k))).
Proof. intros G M. unfold wake. rewrite G, M. reflexivity. Qed.

Definition fems_pc (p : pc) : Prop :=
  (exists v, p = FeWrite v) \/ (exists c, p = SigDeq c ASUnlock) \/ (exists c x, p = SigPush c ASUnlock x) \/
  (exists u, p = Unl u).

(** mark_and_signal (and unlock) never block and never reach the exit(1) path: every one of
    their steps is enabled (the dequeue of unlock may spin, which is a step, too) *)
Lemma mark_never_stuck s t th :
  Inv s -> get_thread s t = Some th -> fems_pc (main th) -> exists s', fstep s (t, ETick) = Some s'.
Proof.
  intros I Hth Hp. pose proof (i1_thr _ (inv_1 _ I) _ _ Hth) as T.
  unfold fstep; cbn [snd step]. unfold tick. rewrite Hth.
  destruct Hp as [[v E]|[[c E]|[(c & x & E)|[u E]]]]; rewrite E.
  - gts. rewrite ?Hth. eauto.
  - destruct (getq s (QC c)); gts; rewrite ?Hth; eauto.
  - destruct (hand_suspended s t th x I Hth) as (thx & k & G & M).
    { unfold th_hand. rewrite E. cbn. rewrite Nat.eqb_refl. cbn. lia. }
    rewrite (wake_ok _ _ _ _ G M). rewrite get_set_thread.
    destruct (Nat.eqb_spec x t) as [->|N]; [congruence|]. rewrite ?Hth. eauto.
  - assert (Hput : forall s1 p, get_thread s1 t <> None ->
              exists s', match get_thread s1 t with
                         | Some th' => Some (set_thread s1 t (set_main th' p)) | None => None end = Some s').
    { intros s1 p N. destruct (get_thread s1 t); [eauto|congruence]. }
    destruct u as [nf|nf w|nf w|nf|nf x|nf x]; cbn [ustep].
    + assert (O : own th = true) by (apply (t1_need _ T); rewrite E; reflexivity).
      assert (Hodd : Z.odd (mword s) = true).
      { destruct (Z.odd (mword s)) eqn:X; [reflexivity|].
        pose proof (i1_even _ (inv_1 _ I) X _ _ Hth). congruence. }
      rewrite Zeven_odd, Hodd. cbn. destruct (mword s >? 1); apply Hput; congruence.
    + destruct (mword s =? 1); [|apply Hput; congruence].
      rewrite (clear_own_eq _ _ th) by (gts; exact Hth). apply Hput. rewrite get_same by (gts; congruence). discriminate.
    + destruct (mword s =? w); apply Hput; gts; congruence.
    + destruct (mq s); apply Hput; gts; congruence.
    + rewrite (clear_own_eq _ _ th) by (gts; exact Hth). apply Hput. rewrite get_same by (gts; congruence). discriminate.
    + destruct (hand_suspended s t th x I Hth) as (thx & k & G & M).
      { unfold th_hand. rewrite E. cbn. rewrite Nat.eqb_refl. cbn. lia. }
      rewrite (wake_ok _ _ _ _ G M). apply Hput. rewrite get_set_thread.
      destruct (Nat.eqb_spec x t) as [->|N]; [rewrite G; discriminate|congruence].
Qed.

(** the three steps of mark_and_signal before its unlock, exactly *)
Theorem mark_and_signal_steps s t th :
  freach s -> get_thread s t = Some th ->
  (forall v, main th = FeWrite v ->
     holds s t = true /\
     fstep s (t, ETick) = Some (set_thread (set_festat s v) t (set_main th (SigDeq (Z.to_nat v) ASUnlock)))) /\
  (forall c, main th = SigDeq c ASUnlock ->
     holds s t = true /\ festat s = Z.of_nat c /\
     (getq s (QC c) = [] ->
        fstep s (t, ETick) = Some (set_thread s t (set_main th (Unl (URead 0))))) /\
     (forall x r, getq s (QC c) = x :: r ->
        fstep s (t, ETick) = Some (set_thread (setq s (QC c) r) t (set_main th (SigPush c ASUnlock x))))) /\
  (forall c x, main th = SigPush c ASUnlock x ->
     holds s t = true /\
     exists thx k, x <> t /\ get_thread s x = Some thx /\ main thx = Susp k /\
       fstep s (t, ETick) =
       Some (set_thread (set_thread s x (set_main thx (LockRead k))) t (set_main th (Unl (URead 0))))).
Proof.
  intros Hr Hth. pose proof (Inv_reach _ Hr) as I. pose proof (i1_thr _ (inv_1 _ I) _ _ Hth) as T.
  assert (Hown : needown (main th) = true -> holds s t = true).
  { intros N. apply holds_get. exists th. split; [exact Hth|]. apply (t1_need _ T N). }
  split; [|split].
  - intros v E. split; [apply Hown; rewrite E; reflexivity|].
    unfold fstep; cbn [snd step]. unfold tick. rewrite Hth, E. gts. rewrite ?Hth. reflexivity.
  - intros c E. split; [apply Hown; rewrite E; reflexivity|]. split; [eapply (i3_sig _ (inv_3 _ I)); eauto|].
    split.
    + intros Q. unfold fstep; cbn [snd step]. unfold tick. rewrite Hth, E, Q. reflexivity.
    + intros x r Q. unfold fstep; cbn [snd step]. unfold tick. rewrite Hth, E, Q. gts. rewrite ?Hth. reflexivity.
  - intros c x E. split; [apply Hown; rewrite E; reflexivity|].
    destruct (hand_suspended s t th x I Hth) as (thx & k & G & M).
    { unfold th_hand. rewrite E. cbn. rewrite Nat.eqb_refl. cbn. lia. }
    assert (N : x <> t) by (intros ->; congruence).
    exists thx, k. repeat split; auto.
    unfold fstep; cbn [snd step]. unfold tick. rewrite Hth, E, (wake_ok _ _ _ _ G M), get_set_thread.
    destruct (Nat.eqb_spec x t); [contradiction|]. rewrite ?Hth. reflexivity.
Qed.

(** releasing: the step at which the owner flag of [t] drops is a bit-clearing step of [t];
    afterwards the lock bit is clear and nobody holds the lock *)
Theorem mark_releases s u e s' t :
  freach s -> fstep s (u, e) = Some s' -> holds s t = true -> holds s' t = false ->
  u = t /\ (exists th, get_thread s t = Some th /\ at_release th e = true) /\
  Z.odd (mword s') = false /\ forall v, holds s' v = false.
Proof.
  intros Hr H Ho Ho'. pose proof (Inv_reach _ Hr) as I.
  assert (I' : Inv s') by (eapply Inv_step; eauto).
  apply holds_get in Ho. destruct Ho as (th & G & O).
  assert (Hut : u = t /\ at_release th e = true).
  { destruct (Nat.eq_dec u t) as [->|N].
    - split; [reflexivity|]. destruct (at_release th e) eqn:A; [reflexivity|]. exfalso.
      destruct (hold_step _ _ _ _ _ _ I H G O (fun _ => A)) as (th' & G' & O' & _).
      unfold holds in Ho'. rewrite G' in Ho'. congruence.
    - exfalso. destruct (hold_step _ _ _ _ t th I H G O) as (th' & G' & O' & _); [intros; congruence|].
      unfold holds in Ho'. rewrite G' in Ho'. congruence. }
  destruct Hut as [-> A]. split; [reflexivity|]. split; [eauto|].
  assert (Hnone : forall v, holds s' v = false).
  { intros v. destruct (Nat.eq_dec v t) as [->|N]; [exact Ho'|].
    destruct (holds s' v) eqn:Hv; [|reflexivity]. exfalso.
    apply holds_get in Hv. destruct Hv as (thv' & Gv' & Ov').
    destruct (get_thread s v) as [thv|] eqn:Gv.
    - destruct (step_thread_effect _ _ _ _ _ _ I H Gv) as (thv2 & G2 & X).
      destruct (X N) as (Eo & _ & _). rewrite Gv' in G2. inv G2.
      apply N. eapply (i1_uniq _ (inv_1 _ I) v t thv th); eauto; congruence.
    - (* v is not a thread of s: the thread list never grows *)
      destruct (fstep_thread _ _ _ _ H) as [thu Hu].
      pose proof (step_srel _ _ _ _ _ Hu (t1_pc _ (i1_thr _ (inv_1 _ I) _ _ Hu)) H) as R.
      destruct (srel_frame _ _ _ _ _ R Hu v N) as [E|(thv0 & k & A0 & _)]; congruence. }
  split; [|exact Hnone].
  destruct (Z.odd (mword s')) eqn:X; [|reflexivity]. exfalso.
  destruct (i1_odd _ (inv_1 _ I') X) as (v & thv & Gv & Ov).
  specialize (Hnone v). unfold holds in Hnone. rewrite Gv in Hnone. congruence.
Qed.

(** lock bit = number of owners <= 1; owner-only program points *)
Theorem owner_unique s : freach s ->
  (forall u v, holds s u = true -> holds s v = true -> u = v) /\
  (Z.odd (mword s) = true <-> exists u, holds s u = true) /\
  (forall t th, get_thread s t = Some th -> needown (main th) = true -> own th = true).
Proof.
  intros Hr. pose proof (Inv_reach _ Hr) as I. split; [|split].
  - intros u v A B. symmetry. eapply holder_unique; eauto.
  - split.
    + intros O. destruct (i1_odd _ (inv_1 _ I) O) as (u & thu & G & Ou). exists u. apply holds_get. eauto.
    + intros (u & Hu). apply holds_get in Hu. destruct Hu as (thu & G & Ou).
      destruct (Z.odd (mword s)) eqn:E; [reflexivity|]. pose proof (i1_even _ (inv_1 _ I) E _ _ G). congruence.
  - intros t th G N. apply (t1_need _ (i1_thr _ (inv_1 _ I) _ _ G) N).
Qed.

Lemma fewl_path_closed_reach s t th st u e s' :
  freach s -> get_thread s t = Some th -> fewl_pc st (main th) -> fstep s (u, e) = Some s' ->
  exists th', get_thread s' t = Some th' /\
    (fewl_pc st (main th') \/ (u = t /\ e = ETick /\ main th = FeRead st /\ festat s = st /\ main th' = Done 0)).
Proof. intros Hr. apply fewl_path_closed. apply Inv_reach. exact Hr. Qed.

Lemma mark_never_stuck_reach s t th :
  freach s -> get_thread s t = Some th -> fems_pc (main th) -> exists s', fstep s (t, ETick) = Some s'.
Proof. intros Hr. apply mark_never_stuck. apply Inv_reach. exact Hr. Qed.

Lemma status_written_by_owner_reach s u e s' :
  freach s -> fstep s (u, e) = Some s' -> festat s' <> festat s ->
  e = ETick /\ exists thu, get_thread s u = Some thu /\ main thu = FeWrite (festat s') /\ own thu = true.
Proof. intros Hr. apply status_written_by_owner. apply Inv_reach. exact Hr. Qed.
