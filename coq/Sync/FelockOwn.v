(** C09 - full/empty lock, part 2: the ownership invariant of the felock system. *)
From Coq Require Import ZArith List Bool Lia Arith.
From MT Require Import Lib.Interleave Sync.SyncModel Sync.FelockBase.
Import ListNotations.
Local Open Scope Z_scope.

(* ------------------------------------------------------------------------------------------ *)
(** * 2. ownership: lock bit = number of owners <= 1 *)

Definition upc_preclear (u : upc) : bool := match u with UPush _ _ => false | _ => true end.
(** a callback that will still clear the lock bit on behalf of its thread *)
Definition cb_clears (c : cbpc) : bool := match c with CbEnq _ unl => unl | CbUnl u => upc_preclear u end.
Definition nclear (l : list cbpc) : nat := sumf (fun c => b2n (cb_clears c)) l.
(** main program points that only the owner reaches *)
Definition needown (p : pc) : bool :=
  match p with
  | Unl u => upc_preclear u
  | SigDeq _ _ | SigPush _ _ _ | FeRead _ | FeWrite _ => true
  | _ => false
  end.
Definition fe_cb (c : cbpc) : bool :=
  match c with
  | CbEnq QM unl => negb unl
  | CbEnq (QC c) unl => unl && Nat.ltb c 2
  | CbUnl _ => true
  end.
Definition nbadcb (l : list cbpc) : nat := sumf (fun c => b2n (negb (fe_cb c))) l.
Definition pc_par (p : pc) : Prop := match p with LockCas1 _ w => Z.odd w = false | _ => True end.

Definition lockpath (p : pc) : bool :=
  match p with LockRead _ | LockCas1 _ _ | LockCas2 _ _ | Susp _ => true | _ => false end.

Record tinv1 (th : thread) : Prop := {
  t1_pc : fe_pc (main th) = true;
  t1_par : pc_par (main th);
  t1_cb : nbadcb (cbs th) = O;
  t1_le : (nclear (cbs th) <= 1)%nat;
  t1_cbown : nclear (cbs th) = 1%nat -> own th = true /\ lockpath (main th) = true;
  t1_need : needown (main th) = true -> own th = true }.

Record Inv1 (s : state) : Prop := {
  i1_thr : forall u th, get_thread s u = Some th -> tinv1 th;
  i1_uniq : forall u v thu thv, get_thread s u = Some thu -> get_thread s v = Some thv ->
            own thu = true -> own thv = true -> u = v;
  i1_odd : Z.odd (mword s) = true -> exists u thu, get_thread s u = Some thu /\ own thu = true;
  i1_even : Z.odd (mword s) = false -> forall u thu, get_thread s u = Some thu -> own thu = false }.

Lemma nth_error_repeat {A} (a : A) n i x : nth_error (repeat a n) i = Some x -> x = a.
Proof. intros H. apply nth_error_In in H. now apply repeat_spec in H. Qed.

Lemma Inv1_init s : finit s -> Inv1 s.
Proof.
  intros [nt ->]. split; unfold get_thread, init_state; cbn.
  - intros u th H. apply nth_error_repeat in H. subst. split; cbn; auto; try lia; try discriminate.
  - intros u v thu thv H. apply nth_error_repeat in H. subst. discriminate.
  - discriminate.
  - intros _ u thu H. apply nth_error_repeat in H. now subst.
Qed.

Lemma nclear_app l c : nclear (l ++ [c]) = (nclear l + b2n (cb_clears c))%nat.
Proof. unfold nclear. rewrite sumf_app. cbn. lia. Qed.
Lemma nbadcb_app l c : nbadcb (l ++ [c]) = (nbadcb l + b2n (negb (fe_cb c)))%nat.
Proof. unfold nbadcb. rewrite sumf_app. cbn. lia. Qed.

(** the effect of an unlock step on the ownership data *)
Lemma urel_own s t th u s1 th1 r :
  urel s t th u s1 th1 r ->
  main th1 = main th \/ (exists k, main th = Susp k /\ main th1 = LockRead k).
Proof. intros H; inv H; cbn; eauto. Qed.

Lemma tinv1_wake th k : main th = Susp k -> tinv1 th -> tinv1 (set_main th (LockRead k)).
Proof.
  intros Hm [A B C D E F]. split; cbn; auto.
  - rewrite Hm in A. exact A.
  - intros N. destruct (E N). auto.
  - discriminate.
Qed.

Definition framed (s s' : state) (t : nat) : Prop :=
  forall u, u <> t ->
    get_thread s' u = get_thread s u \/
    exists thu k, get_thread s u = Some thu /\ main thu = Susp k /\
                  get_thread s' u = Some (set_main thu (LockRead k)).

Lemma get_same s1 t x : get_thread s1 t <> None -> get_thread (set_thread s1 t x) t = Some x.
Proof. intros H. rewrite get_set_thread, Nat.eqb_refl. destruct (get_thread s1 t); congruence. Qed.

Lemma get_other s1 t x u : u <> t -> get_thread (set_thread s1 t x) u = get_thread s1 u.
Proof. intros H. rewrite get_set_thread. destruct (Nat.eqb_spec t u); congruence. Qed.

Lemma urel_frame s t th u s1 th1 r :
  urel s t th u s1 th1 r -> get_thread s t = Some th ->
  get_thread s1 t = Some th /\ framed s s1 t.
Proof.
  intros H Hth. inv H; gts; (split; [try assumption|]); try (intros u Hu; left; reflexivity).
  - rewrite get_other by auto. exact Hth.
  - intros u Hu. destruct (Nat.eq_dec u x) as [->|Hne].
    + right. exists thx, k. rewrite get_same by congruence. auto.
    + left. now rewrite get_other by auto.
Qed.

Lemma srel_frame s t th e s' :
  srel s t th e s' -> get_thread s t = Some th -> framed s s' t.
Proof.
  intros H Hth.
  inv H; try (intros v Hv; left; rewrite get_other by auto; gts; reflexivity).
  - destruct (urel_frame _ _ _ _ _ _ _ H1 Hth) as [_ F].
    intros v Hv. rewrite get_other by auto. apply F. exact Hv.
  - intros v Hv. rewrite get_other by auto. destruct (Nat.eq_dec v x) as [->|Hne].
    + right. exists thx, k. rewrite get_same by congruence. auto.
    + left. now rewrite get_other by auto.
  - destruct (urel_frame _ _ _ _ _ _ _ H1 Hth) as [_ F].
    intros v Hv. rewrite get_other by auto. apply F. exact Hv.
Qed.

(** every step has the shape [set_thread s1 t th'] with [t] present in [s1] *)
Lemma srel_self s t th e s' :
  srel s t th e s' -> get_thread s t = Some th -> exists th', get_thread s' t = Some th'.
Proof.
  intros H Hth.
  inv H; try (eexists; apply get_same; gts; congruence).
  - destruct (urel_frame _ _ _ _ _ _ _ H1 Hth) as [G _]. eexists; apply get_same; congruence.
  - eexists. apply get_same. rewrite get_other by auto. congruence.
  - destruct (urel_frame _ _ _ _ _ _ _ H1 Hth) as [G _]. eexists; apply get_same; congruence.
Qed.

Lemma Inv1_update s s' t th th' :
  Inv1 s -> get_thread s t = Some th -> get_thread s' t = Some th' -> framed s s' t ->
  tinv1 th' ->
  ((own th' = own th /\ Z.odd (mword s') = Z.odd (mword s)) \/
   (own th' = true /\ Z.odd (mword s) = false /\ Z.odd (mword s') = true) \/
   (own th = true /\ own th' = false /\ Z.odd (mword s') = false)) ->
  Inv1 s'.
Proof.
  intros I Hth Hth' F T Hown.
  assert (Fown : forall u thu', u <> t -> get_thread s' u = Some thu' ->
                 exists thu, get_thread s u = Some thu /\ own thu = own thu' /\ (tinv1 thu -> tinv1 thu')).
  { intros u thu' Hu G. destruct (F u Hu) as [E|(thu & k & A & B & C)].
    - exists thu'. rewrite <- E. auto.
    - rewrite C in G. inv G. exists thu. split; [exact A|]. split; [reflexivity|]. apply tinv1_wake. exact B. }
  assert (Fown2 : forall u thu, u <> t -> get_thread s u = Some thu ->
                 exists thu', get_thread s' u = Some thu' /\ own thu = own thu').
  { intros u thu Hu G. destruct (F u Hu) as [E|(thu0 & k & A & B & C)].
    - exists thu. rewrite E. auto.
    - rewrite A in G. inv G. eexists. split; [exact C|reflexivity]. }
  split.
  - intros u thu G. destruct (Nat.eq_dec u t) as [->|Hu].
    + rewrite Hth' in G. inv G. exact T.
    + destruct (Fown _ _ Hu G) as (thu0 & A & _ & C). apply C. eapply i1_thr; eauto.
  - intros u v thu thv Gu Gv Ou Ov.
    destruct Hown as [[Ho Hp]|[(Ho & Hp & Hq)|(Ho & Ho' & Hp)]].
    + (* ownership unchanged *)
      assert (X : forall w thw', get_thread s' w = Some thw' -> own thw' = true ->
                  exists thw, get_thread s w = Some thw /\ own thw = true).
      { intros w thw' G O. destruct (Nat.eq_dec w t) as [->|Hw].
        - rewrite Hth' in G. inv G. exists th. split; [exact Hth|congruence].
        - destruct (Fown _ _ Hw G) as (thw & A & B & _). exists thw. split; [exact A|congruence]. }
      destruct (X _ _ Gu Ou) as (a & Ga & Oa). destruct (X _ _ Gv Ov) as (b & Gb & Ob).
      eapply i1_uniq; eauto.
    + (* acquired: nobody held before *)
      assert (X : forall w thw', get_thread s' w = Some thw' -> own thw' = true -> w = t).
      { intros w thw' G O. destruct (Nat.eq_dec w t) as [->|Hw]; [reflexivity|].
        destruct (Fown _ _ Hw G) as (thw & A & B & _).
        pose proof (i1_even _ I Hp _ _ A). congruence. }
      rewrite (X _ _ Gu Ou), (X _ _ Gv Ov). reflexivity.
    + (* released: t was the holder *)
      assert (X : forall w thw', get_thread s' w = Some thw' -> own thw' = true -> False).
      { intros w thw' G O. destruct (Nat.eq_dec w t) as [->|Hw]; [congruence|].
        destruct (Fown _ _ Hw G) as (thw & A & B & _).
        apply Hw. eapply (i1_uniq _ I w t thw th); eauto; congruence. }
      exfalso. eapply X; eauto.
  - intros Hodd. destruct Hown as [[Ho Hp]|[(Ho & Hp & Hq)|(Ho & Ho' & Hp)]].
    + rewrite Hp in Hodd. destruct (i1_odd _ I Hodd) as (u & thu & G & O).
      destruct (Nat.eq_dec u t) as [->|Hu].
      * exists t, th'. split; [exact Hth'|]. rewrite Hth in G. inv G. congruence.
      * destruct (Fown2 _ _ Hu G) as (thu' & A & B). exists u, thu'. split; [exact A|congruence].
    + exists t, th'. auto.
    + congruence.
  - intros Heven u thu' G. destruct Hown as [[Ho Hp]|[(Ho & Hp & Hq)|(Ho & Ho' & Hp)]].
    + rewrite Hp in Heven. destruct (Nat.eq_dec u t) as [->|Hu].
      * rewrite Hth' in G. inv G. rewrite Ho. eapply i1_even; eauto.
      * destruct (Fown _ _ Hu G) as (thu & A & B & _). rewrite <- B. eapply i1_even; eauto.
    + congruence.
    + destruct (Nat.eq_dec u t) as [->|Hu].
      * rewrite Hth' in G. inv G. exact Ho'.
      * destruct (Fown _ _ Hu G) as (thu & A & B & _). rewrite <- B.
        destruct (own thu) eqn:O; [|reflexivity]. exfalso. apply Hu. eapply (i1_uniq _ I u t thu th); eauto.
Qed.

Lemma fstep_thread s t e s' : fstep s (t, e) = Some s' -> exists th, get_thread s t = Some th.
Proof.
  unfold fstep; cbn [snd]. intros H.
  assert (X : step s (t, e) = Some s') by (destruct e; auto; destruct (fe_op o); [auto|discriminate]).
  clear H. destruct (get_thread s t) as [th|] eqn:E; [eauto|]. exfalso.
  destruct e; cbn in X; unfold call, tick, cbtick, ret, ret_ok in X; rewrite E in X; discriminate.
Qed.

Lemma nclear_upd l i c c' : nth_error l i = Some c ->
  (nclear (upd l i c') + b2n (cb_clears c) = nclear l + b2n (cb_clears c'))%nat.
Proof. intros H. unfold nclear. apply (sumf_upd (fun c => b2n (cb_clears c)) _ _ _ c' H). Qed.
Lemma nclear_remove l i c : nth_error l i = Some c ->
  (nclear (remove_nth l i) + b2n (cb_clears c) = nclear l)%nat.
Proof. intros H. unfold nclear. apply (sumf_remove_nth (fun c => b2n (cb_clears c)) _ _ _ H). Qed.
Lemma nbadcb_upd l i c c' : nth_error l i = Some c ->
  (nbadcb (upd l i c') + b2n (negb (fe_cb c)) = nbadcb l + b2n (negb (fe_cb c')))%nat.
Proof. intros H. unfold nbadcb. apply (sumf_upd (fun c => b2n (negb (fe_cb c))) _ _ _ c' H). Qed.
Lemma nbadcb_remove l i c : nth_error l i = Some c ->
  (nbadcb (remove_nth l i) + b2n (negb (fe_cb c)) = nbadcb l)%nat.
Proof. intros H. unfold nbadcb. apply (sumf_remove_nth (fun c => b2n (negb (fe_cb c))) _ _ _ H). Qed.
Lemma nbadcb_nth l i c : nth_error l i = Some c -> nbadcb l = O -> fe_cb c = true.
Proof.
  intros H Z. pose proof (sumf_nth_le (fun c => b2n (negb (fe_cb c))) _ _ _ H) as L.
  unfold nbadcb in Z. rewrite Z in L. destruct (fe_cb c); [reflexivity|cbn in L; lia].
Qed.

Lemma valid_st_cases st : valid_st st = true -> st = 0 \/ st = 1.
Proof. unfold valid_st. intros H. apply orb_prop in H. destruct H as [H|H]; apply Z.eqb_eq in H; auto. Qed.

Lemma valid_st_idx st : valid_st st = true -> Nat.ltb (Z.to_nat st) 2 = true /\ Z.of_nat (Z.to_nat st) = st.
Proof. intros H. destruct (valid_st_cases _ H) as [->| ->]; cbn; auto. Qed.

Lemma odd_plus1 w : Z.odd w = false -> Z.odd (w + 1) = true.
Proof. intros H. rewrite Z.add_1_r, Z.odd_succ, Zeven_odd, H. reflexivity. Qed.
Lemma odd_minus1 w : Z.odd w = true -> Z.odd (w - 1) = false.
Proof. intros H. rewrite Z.sub_1_r, Z.odd_pred, Zeven_odd, H. reflexivity. Qed.
Lemma odd_plus2 w : Z.odd (w + 2) = Z.odd w.
Proof. replace (w + 2) with (Z.succ (Z.succ w)) by lia. now rewrite Z.odd_succ_succ. Qed.
Lemma odd_minus2 w : Z.odd (w - 2) = Z.odd w.
Proof. rewrite <- (odd_plus2 (w - 2)). f_equal. lia. Qed.

Ltac t1solve :=
  repeat match goal with H : main _ = _ |- _ => rewrite H in * end;
  cbn in *|-;
  split; autorewrite with sync; rewrite ?nclear_app, ?nbadcb_app;
  cbn; rewrite ?Nat.add_0_r; auto; try lia; try tauto; try (intros; discriminate).

(** preservation by the unlock micro-program, in main or callback context: [th'] is the
    record of [t] after the step with its pc advanced *)
Lemma Inv1_urel s t th u s1 th1 r th' :
  Inv1 s -> get_thread s t = Some th -> urel s t th u s1 th1 r ->
  tinv1 th' -> own th' = own th1 ->
  (upc_preclear u = true -> own th = true) ->
  framed s (set_thread s1 t th') t ->
  Inv1 (set_thread s1 t th').
Proof.
  intros I Hth U T Ho Hown F.
  destruct (urel_frame _ _ _ _ _ _ _ U Hth) as [G _].
  eapply Inv1_update; [exact I|exact Hth|apply get_same; congruence|exact F|exact T|].
  assert (Hodd : own th = true -> Z.odd (mword s) = true).
  { intros O. destruct (Z.odd (mword s)) eqn:E; [reflexivity|].
    pose proof (i1_even _ I E _ _ Hth). congruence. }
  rewrite Ho. inv U; gts; cbn; try (left; split; reflexivity).
  - right; right. split; [apply Hown; reflexivity|split; reflexivity].
  - left. split; [reflexivity|]. apply odd_minus2.
  - right; right. split; [apply Hown; reflexivity|split; [reflexivity|]].
    apply odd_minus1. apply Hodd. apply Hown. reflexivity.
Qed.

Definition ures_pre (r : ures) : bool := match r with UNext u' => upc_preclear u' | UFin _ => false end.

Lemma nclear_cbs_next l i u r : nth_error l i = Some (CbUnl u) ->
  (nclear (cbs_next l i r) + b2n (upc_preclear u) = nclear l + b2n (ures_pre r))%nat.
Proof.
  intros H. destruct r as [u'|nf]; cbn [cbs_next ures_pre].
  - apply (nclear_upd _ _ _ (CbUnl u') H).
  - pose proof (nclear_remove _ _ _ H) as X. cbn in X |- *. lia.
Qed.

Lemma nbadcb_cbs_next l i u r : nth_error l i = Some (CbUnl u) -> nbadcb (cbs_next l i r) = nbadcb l.
Proof.
  intros H. destruct r as [u'|nf]; cbn [cbs_next].
  - pose proof (nbadcb_upd _ _ _ (CbUnl u') H) as X. cbn in X. lia.
  - pose proof (nbadcb_remove _ _ _ H) as X. cbn in X. lia.
Qed.

Lemma tinv1_cbunl th i u th1 r :
  tinv1 th -> nth_error (cbs th) i = Some (CbUnl u) ->
  (main th1 = main th \/ exists k, main th = Susp k /\ main th1 = LockRead k) ->
  cbs th1 = cbs th ->
  ((own th1 = own th /\ ures_pre r = upc_preclear u) \/
   (own th1 = false /\ upc_preclear u = true /\ ures_pre r = false)) ->
  tinv1 (set_cbs th1 (cbs_next (cbs th1) i r)).
Proof.
  intros [Tpc Tpar Tcb Tle Tco Tneed] Hc Hm Hcbs Ho. rewrite Hcbs.
  pose proof (nclear_cbs_next _ _ _ r Hc) as Hn.
  pose proof (nbadcb_cbs_next _ _ _ r Hc) as Hb.
  pose proof (sumf_nth_le (fun c => b2n (cb_clears c)) _ _ _ Hc) as Hle.
  fold (nclear (cbs th)) in Hle. cbn in Hle.
  assert (Hlp : lockpath (main th) = true -> lockpath (main th1) = true).
  { destruct Hm as [->|(k & A & ->)]; auto. }
  assert (Hno : needown (main th1) = true -> needown (main th) = true).
  { destruct Hm as [->|(k & A & ->)]; auto. discriminate. }
  split; gts.
  - destruct Hm as [->|(k & A & ->)]; auto. rewrite A in Tpc. exact Tpc.
  - destruct Hm as [->|(k & A & ->)]; auto. exact I.
  - lia.
  - destruct Ho as [[_ E]|(_ & E1 & E2)]; rewrite ?E, ?E1, ?E2 in Hn; cbn in Hn; lia.
  - intros X. destruct Ho as [[Eo E]|(_ & E1 & E2)].
    + rewrite E in Hn. destruct Tco as [A B]; [lia|]. split; [congruence|auto].
    + rewrite E1, E2 in Hn. rewrite E1 in Hle. cbn in Hn, Hle. lia.
  - intros X. destruct Ho as [[Eo E]|(_ & E1 & E2)].
    + rewrite Eo. auto.
    + rewrite E1 in Hle. cbn in Hle. destruct Tco as [A B]; [lia|].
      specialize (Hno X). destruct (main th); discriminate.
Qed.

Lemma Inv1_step s t e s' : Inv1 s -> fstep s (t, e) = Some s' -> Inv1 s'.
Proof.
  intros I H. destruct (fstep_thread _ _ _ _ H) as [th Hth].
  pose proof (i1_thr _ I _ _ Hth) as T.
  pose proof (step_srel _ _ _ _ _ Hth (t1_pc _ T) H) as R.
  pose proof (srel_frame _ _ _ _ _ R Hth) as F. clear H.
  destruct T as [Tpc Tpar Tcb Tle Tco Tneed].
  assert (N0 : lockpath (main th) = false -> nclear (cbs th) = 0%nat).
  { intros L. destruct (nclear (cbs th)) as [|[|n]] eqn:E; [reflexivity| |lia].
    destruct (Tco eq_refl). congruence. }
  inversion R; subst; clear R.
  all: try solve [eapply Inv1_update;
    [exact I|exact Hth|apply get_same; gts; congruence|exact F|clear F; t1solve|left; split; reflexivity]].
  - (* cas1_ok *)
    match goal with Hm : main th = _ |- _ => rewrite Hm in * end. cbn in Tpar, Tpc.
    assert (Hof : own th = false) by (eapply i1_even; eauto).
    assert (N : nclear (cbs th) = 0%nat).
    { destruct (nclear (cbs th)) as [|[|n]] eqn:E; [reflexivity| |lia]. destruct (Tco eq_refl). congruence. }
    eapply Inv1_update; [exact I|exact Hth|apply get_same; gts; congruence|exact F| |].
    + split; gts; cbn; auto; try lia; try (destruct k; cbn in *; auto; fail);
        intros X; rewrite N in X; discriminate.
    + right; left. gts. cbn. split; [reflexivity|split; [exact Tpar|apply odd_plus1; exact Tpar]].
  - (* cas2_ok *)
    eapply Inv1_update; [exact I|exact Hth|apply get_same; gts; congruence|exact F|clear F; t1solve|].
    left. gts. split; [reflexivity|apply odd_plus2].
  - (* unl *)
    match goal with Hm : main th = _, U : urel _ _ _ _ _ _ _ |- _ =>
      eapply (Inv1_urel _ _ _ _ _ _ _ _ I Hth U); [|reflexivity| |exact F];
      [|intros P; apply Tneed; rewrite Hm; exact P]; clear F; inv U end.
    all: try solve [t1solve].
  - (* sigpush *)
    eapply Inv1_update; [exact I|exact Hth|apply get_same; rewrite get_other by auto; congruence|exact F
                        |clear F; t1solve|left; split; reflexivity].
  - (* feread_wait *)
    match goal with Hm : main th = _ |- _ => rewrite Hm in * end. cbn in Tpc, Tneed, N0.
    specialize (N0 eq_refl). specialize (Tneed eq_refl).
    eapply Inv1_update; [exact I|exact Hth|apply get_same; gts; congruence|exact F| |left; split; reflexivity].
    clear F. destruct (valid_st_cases _ Tpc) as [->| ->];
      (split; gts; rewrite ?nclear_app, ?nbadcb_app; cbn; rewrite ?N0, ?Tcb; cbn; auto; try lia; try discriminate).
  - (* fewrite *)
    match goal with Hm : main th = _ |- _ => rewrite Hm in * end. cbn in Tpc, Tneed, N0.
    specialize (N0 eq_refl). specialize (Tneed eq_refl).
    eapply Inv1_update; [exact I|exact Hth|apply get_same; gts; congruence|exact F| |left; split; reflexivity].
    clear F. destruct (valid_st_cases _ Tpc) as [->| ->];
      (split; gts; cbn; auto; try lia; intros X; rewrite N0 in X; discriminate).
  - (* cbenq *)
    match goal with Hc : nth_error (cbs th) _ = Some _ |- _ =>
      pose proof (nbadcb_nth _ _ _ Hc Tcb) as Hfe;
      pose proof (nclear_upd _ _ _ (CbUnl (URead 0)) Hc) as Hu;
      pose proof (nclear_remove _ _ _ Hc) as Hr;
      pose proof (nbadcb_upd _ _ _ (CbUnl (URead 0)) Hc) as Hbu;
      pose proof (nbadcb_remove _ _ _ Hc) as Hbr end.
    eapply Inv1_update; [exact I|exact Hth|apply get_same; gts; congruence|exact F| |left; gts; split; reflexivity].
    clear F. rewrite Hfe in Hbu, Hbr. cbn in Hu, Hr, Hbu, Hbr.
    destruct unl; cbn in Hu, Hr; split; gts; auto; try lia.
    + intros X. apply Tco. lia.
    + intros X. apply Tco. lia.
  - (* cbunl *)
    match goal with Hc : nth_error (cbs th) _ = Some _, U : urel _ _ _ _ _ _ _ |- _ =>
      pose proof (sumf_nth_le (fun c => b2n (cb_clears c)) _ _ _ Hc) as Hle;
      eapply (Inv1_urel _ _ _ _ _ _ _ _ I Hth U); [|reflexivity| |exact F];
      [eapply tinv1_cbunl; [split; eassumption|exact Hc|eapply urel_own; exact U| |]|] end.
    + match goal with U : urel _ _ _ _ _ _ _ |- _ => inv U; reflexivity end.
    + match goal with U : urel _ _ _ _ _ _ _ |- _ => inv U; cbn; auto end.
    + intros P. fold (nclear (cbs th)) in Hle. cbn in Hle. rewrite P in Hle. cbn in Hle.
      apply Tco. lia.
Qed.

Lemma Inv1_reach s : freach s -> Inv1 s.
Proof. apply invariant_rule; [apply Inv1_init|]. intros s0 [t e] s1. apply Inv1_step. Qed.

