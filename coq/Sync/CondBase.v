(** C05 - base lemmas about the Sync model's state accessors and a step-inversion tactic.
    No new definitions of behaviour: everything here is derived from Sync/SyncModel.v. *)
From Coq Require Import ZArith List Bool Lia Arith.
From MT Require Import Lib.Interleave Sync.SyncModel.
Import ListNotations.
Local Open Scope Z_scope.

(* ---------- upd ---------- *)
Lemma upd_length {A} (l : list A) i x : length (upd l i x) = length l.
Proof.
  revert i; induction l as [|y r IH]; intros [|i]; cbn [upd length]; auto.
Qed.

Lemma nth_error_upd_eq {A} (l : list A) i x y :
  nth_error l i = Some y -> nth_error (upd l i x) i = Some x.
Proof.
  revert i; induction l as [|z r IH]; intros [|i] H; cbn in *; try discriminate; auto.
Qed.

Lemma nth_error_upd_neq {A} (l : list A) i j x :
  i <> j -> nth_error (upd l i x) j = nth_error l j.
Proof.
  revert i j; induction l as [|z r IH]; intros [|i] [|j] H; cbn; auto; try congruence.
Qed.

Lemma nth_error_upd_none {A} (l : list A) i x :
  nth_error l i = None -> upd l i x = l.
Proof.
  revert i; induction l as [|z r IH]; intros [|i] H; cbn in *; try discriminate; auto.
  f_equal; auto.
Qed.

Lemma nth_upd_eq {A} (l : list A) i x d :
  (i < length l)%nat -> nth i (upd l i x) d = x.
Proof.
  revert i; induction l as [|z r IH]; intros [|i] H; cbn in *; try lia; auto.
  apply IH; lia.
Qed.

Lemma nth_upd_neq {A} (l : list A) i j x d :
  i <> j -> nth j (upd l i x) d = nth j l d.
Proof.
  revert i j; induction l as [|z r IH]; intros [|i] [|j] H; cbn; auto; try congruence.
Qed.

Lemma nth_upd_out {A} (l : list A) i x :
  (length l <= i)%nat -> upd l i x = l.
Proof.
  revert i; induction l as [|z r IH]; intros [|i] H; cbn in *; try lia; auto.
  f_equal; apply IH; lia.
Qed.

Lemma Forall_upd {A} (P : A -> Prop) l i x : Forall P l -> P x -> Forall P (upd l i x).
Proof.
  intros Hl Hx; revert i; induction Hl as [|y r Hy Hr IH]; intros [|i]; cbn; auto.
Qed.

Lemma Forall_nth_error {A} (P : A -> Prop) l i x : Forall P l -> nth_error l i = Some x -> P x.
Proof.
  intros Hl H. rewrite Forall_forall in Hl. apply Hl. eapply nth_error_In; eauto.
Qed.

(** additive measure over a list, and how [upd] changes it *)
Fixpoint lsum {A} (f : A -> nat) (l : list A) : nat :=
  match l with [] => O | x :: r => (f x + lsum f r)%nat end.

Lemma lsum_upd {A} (f : A -> nat) l i x y :
  nth_error l i = Some y -> (lsum f (upd l i x) + f y = lsum f l + f x)%nat.
Proof.
  revert i; induction l as [|z r IH]; intros [|i] H; cbn in *; try discriminate.
  - inversion H; subst. lia.
  - specialize (IH _ H). lia.
Qed.

Lemma lsum_nth_le {A} (f : A -> nat) l i y : nth_error l i = Some y -> (f y <= lsum f l)%nat.
Proof.
  revert i; induction l as [|z r IH]; intros [|i] H; cbn in *; try discriminate.
  - inversion H; subst. lia.
  - specialize (IH _ H). lia.
Qed.

Lemma lsum_remove_nth {A} (f : A -> nat) l i y :
  nth_error l i = Some y -> (lsum f (remove_nth l i) + f y = lsum f l)%nat.
Proof.
  revert i; induction l as [|z r IH]; intros [|i] H; cbn in *; try discriminate.
  - inversion H; subst. lia.
  - specialize (IH _ H). lia.
Qed.

Lemma In_remove_nth {A} (l : list A) i x : In x (remove_nth l i) -> In x l.
Proof.
  revert i; induction l as [|z r IH]; intros [|i] H; cbn in *; auto.
  destruct H as [H|H]; eauto.
Qed.

Lemma In_upd {A} (l : list A) i x y : In y (upd l i x) -> y = x \/ In y l.
Proof.
  revert i; induction l as [|z r IH]; intros [|i] H; cbn in *; auto.
  - destruct H as [H|H]; auto.
  - destruct H as [H|H]; auto. destruct (IH _ H); auto.
Qed.

Lemma lsum_app {A} (f : A -> nat) l1 l2 : lsum f (l1 ++ l2) = (lsum f l1 + lsum f l2)%nat.
Proof. induction l1 as [|x r IH]; cbn [lsum app]; auto. rewrite IH. lia. Qed.

Lemma lsum_repeat0 {A} (f : A -> nat) x n : f x = 0%nat -> lsum f (repeat x n) = 0%nat.
Proof. intros H. induction n as [|n IH]; cbn; auto. rewrite H, IH. reflexivity. Qed.

(* ---------- threads ---------- *)
Lemma get_set_thread_eq s t x th :
  get_thread s t = Some th -> get_thread (set_thread s t x) t = Some x.
Proof. unfold get_thread, set_thread, set_thr; cbn. apply nth_error_upd_eq. Qed.

Lemma get_set_thread_neq s t x i : t <> i -> get_thread (set_thread s t x) i = get_thread s i.
Proof. unfold get_thread, set_thread, set_thr; cbn. apply nth_error_upd_neq. Qed.

Lemma get_set_thread s t x th i :
  get_thread s t = Some th ->
  get_thread (set_thread s t x) i = if Nat.eqb t i then Some x else get_thread s i.
Proof.
  intros H. destruct (Nat.eqb_spec t i) as [->|N].
  - eapply get_set_thread_eq; eauto.
  - apply get_set_thread_neq; auto.
Qed.

Lemma get_thread_set_mword s w i : get_thread (set_mword s w) i = get_thread s i.
Proof. reflexivity. Qed.
Lemma get_thread_set_festat s w i : get_thread (set_festat s w) i = get_thread s i.
Proof. reflexivity. Qed.
Lemma get_thread_setq s q l i : get_thread (setq s q l) i = get_thread s i.
Proof. destruct q; reflexivity. Qed.

Lemma mword_set_thread s t x : mword (set_thread s t x) = mword s. Proof. reflexivity. Qed.
Lemma mword_setq s q l : mword (setq s q l) = mword s. Proof. destruct q; reflexivity. Qed.
Lemma mword_set_mword s w : mword (set_mword s w) = w. Proof. reflexivity. Qed.
Lemma mword_set_festat s w : mword (set_festat s w) = mword s. Proof. reflexivity. Qed.
Lemma festat_set_thread s t x : festat (set_thread s t x) = festat s. Proof. reflexivity. Qed.
Lemma festat_setq s q l : festat (setq s q l) = festat s. Proof. destruct q; reflexivity. Qed.
Lemma festat_set_mword s w : festat (set_mword s w) = festat s. Proof. reflexivity. Qed.
Lemma thr_setq s q l : thr (setq s q l) = thr s. Proof. destruct q; reflexivity. Qed.
Lemma thr_set_mword s w : thr (set_mword s w) = thr s. Proof. reflexivity. Qed.
Lemma thr_set_festat s w : thr (set_festat s w) = thr s. Proof. reflexivity. Qed.
Lemma thr_set_thread s t x : thr (set_thread s t x) = upd (thr s) t x. Proof. reflexivity. Qed.
Lemma mq_set_thread s t x : mq (set_thread s t x) = mq s. Proof. reflexivity. Qed.
Lemma mq_set_mword s w : mq (set_mword s w) = mq s. Proof. reflexivity. Qed.
Lemma mq_set_festat s w : mq (set_festat s w) = mq s. Proof. reflexivity. Qed.
Lemma cqs_set_thread s t x : cqs (set_thread s t x) = cqs s. Proof. reflexivity. Qed.
Lemma cqs_set_mword s w : cqs (set_mword s w) = cqs s. Proof. reflexivity. Qed.
Lemma cqs_set_festat s w : cqs (set_festat s w) = cqs s. Proof. reflexivity. Qed.
Lemma getq_set_thread s t x q : getq (set_thread s t x) q = getq s q. Proof. destruct q; reflexivity. Qed.
Lemma getq_set_mword s w q : getq (set_mword s w) q = getq s q. Proof. destruct q; reflexivity. Qed.
Lemma getq_set_festat s w q : getq (set_festat s w) q = getq s q. Proof. destruct q; reflexivity. Qed.

Lemma clear_own_spec s t :
  (exists th, get_thread s t = Some th /\ clear_own s t = set_thread s t (set_own th false)) \/
  (get_thread s t = None /\ clear_own s t = s).
Proof. unfold clear_own. destruct (get_thread s t) as [th|]; [left; eauto | right; auto]. Qed.

Lemma wake_spec s x s1 :
  wake s x = Some s1 ->
  exists th k, get_thread s x = Some th /\ main th = Susp k /\
               s1 = set_thread s x (set_main th (LockRead k)).
Proof.
  unfold wake. destruct (get_thread s x) as [th|]; [|discriminate].
  destruct (main th) eqn:E; try discriminate. intros H; inversion H; subst. eauto.
Qed.

(* ---------- the transition system ---------- *)
Definition actor := (nat * ev)%type.
Definition init (s : state) : Prop := exists nt nc, s = init_state nt nc.
Definition reach : state -> Prop := reachable init step.

(** destruct every [match] scrutinee in hypothesis [H] (an equation [... = Some _]) *)
Ltac break_match_hyp H :=
  match type of H with
  | context [match ?x with _ => _ end] => destruct x eqn:?; try discriminate H
  end.

Ltac step_unfold H :=
  unfold step, call, tick, cbtick, ret, ustep, lock_read, acquired in H.

Ltac step_inv H := step_unfold H; repeat break_match_hyp H; try discriminate H.

Lemma Some_inj {A} (a b : A) : Some a = Some b -> a = b. Proof. congruence. Qed.
(** finish an inverted step equation [Some x = Some s'] without reducing [x] *)
Ltac fin Hs := apply Some_inj in Hs; subst.

(** like [step_inv] but keeps [ustep] folded (it is analysed by dedicated lemmas) *)
Ltac step_unfold' H := unfold step, call, tick, cbtick, ret, lock_read, acquired in H.
Ltac step_inv' H := step_unfold' H; repeat break_match_hyp H; try discriminate H.
