(** C05 - condition variables: atomic release-and-wait, signal and broadcast reach waiters.
    Theorems about every run of Abs(mutex, conds, felock) (Sync/SyncModel.v) from
    [init_state nt nc], any number of threads and condition variables, any schedule.
    Order statements are about the trace of a schedule (Sync/CondTrace.v); state statements
    use the inductive invariants of Sync/CondInv.v. *)
From Coq Require Import ZArith List Bool Lia Arith.
From MT Require Import Lib.Interleave Sync.SyncModel Sync.CondBase Sync.CondInv Sync.CondTrace.
Import ListNotations.
Local Open Scope Z_scope.

(* ---------- consequences of I1 ---------- *)
Lemma cnt_In x l : In x l -> (1 <= cnt x l)%nat.
Proof.
  unfold cnt. induction l as [|y l IH]; intros H; [destruct H|]. cbn [lsum].
  destruct H as [->|H]; [rewrite eqn_refl; lia | specialize (IH H); lia].
Qed.

Lemma cnt_0_notin x l : cnt x l = 0%nat -> ~ In x l.
Proof. intros H Hin. apply cnt_In in Hin. lia. Qed.

Lemma inqs_cq s c x : In x (getq s (QC c)) -> (1 <= inqs s x)%nat.
Proof.
  intros H. cbn [getq] in H. unfold inqs.
  destruct (nth_error (cqs s) c) as [l|] eqn:E.
  - rewrite (nth_error_nth _ _ _ E) in H. pose proof (lsum_nth_le (cnt x) _ _ _ E).
    pose proof (cnt_In _ _ H). lia.
  - apply nth_error_None in E. rewrite nth_overflow in H by exact E. destruct H.
Qed.

Lemma inqs_cq_cnt s c x : (cnt x (getq s (QC c)) <= lsum (cnt x) (cqs s))%nat.
Proof.
  cbn [getq]. destruct (nth_error (cqs s) c) as [l|] eqn:E.
  - rewrite (nth_error_nth _ _ _ E). pose proof (lsum_nth_le (cnt x) _ _ _ E). lia.
  - apply nth_error_None in E. rewrite nth_overflow by exact E. cbn. lia.
Qed.

Lemma inqs_mq s x : In x (mq s) -> (1 <= inqs s x)%nat.
Proof. intros H. unfold inqs. pose proof (cnt_In _ _ H). lia. Qed.

Lemma hands_main s t th x : get_thread s t = Some th -> (hand_main (main th) x <= hands s x)%nat.
Proof.
  intros H. unfold hands. pose proof (lsum_nth_le (hand_th x) _ _ _ H) as L.
  unfold hand_th in L at 1. lia.
Qed.

Lemma hands_cb s t th i c x :
  get_thread s t = Some th -> nth_error (cbs th) i = Some c -> (hand_cb x c <= hands s x)%nat.
Proof.
  intros H Hn. unfold hands. pose proof (lsum_nth_le (hand_th x) _ _ _ H) as L.
  unfold hand_th in L at 1. pose proof (lsum_nth_le (hand_cb x) _ _ _ Hn). lia.
Qed.

Lemma susp_1 s x : (1 <= susp s x)%nat ->
  exists th k, get_thread s x = Some th /\ main th = Susp k.
Proof.
  unfold susp. destruct (get_thread s x) as [th|]; [|lia]. unfold issusp.
  destruct (main th) eqn:E; try lia. eauto.
Qed.

Lemma lsum_0_all {A} (f : A -> nat) l i y :
  lsum f l = 0%nat -> nth_error l i = Some y -> f y = 0%nat.
Proof. intros H E. pose proof (lsum_nth_le f _ _ _ E). lia. Qed.

(** what it means for [x] to be blocked: context saved, not in anybody's hand, no enqueue pending *)
Definition blocked_in (s : state) (c x : nat) : Prop :=
  exists th k, get_thread s x = Some th /\ main th = Susp k /\
    cnt x (getq s (QC c)) = 1%nat /\ ~ In x (mq s) /\ hands s x = 0%nat /\
    (forall i q u, nth_error (cbs th) i <> Some (CbEnq q u)).

Lemma I1_member s c x : I1 s -> In x (getq s (QC c)) -> blocked_in s c x.
Proof.
  intros HI Hin. specialize (HI x). pose proof (inqs_cq _ _ _ Hin) as H1.
  pose proof (inqs_cq_cnt s c x) as H2. pose proof (cnt_In _ _ Hin) as H3.
  unfold inqs in *.
  assert (Hs : (1 <= susp s x)%nat) by lia.
  destruct (susp_1 _ _ Hs) as (th & k & Ht & Hm). exists th, k.
  assert (Hsx : susp s x = 1%nat) by (rewrite (susp_at _ _ _ Ht); unfold issusp; rewrite Hm; reflexivity).
  repeat split; auto; try lia.
  - assert (cnt x (mq s) = 0%nat) by lia. apply cnt_0_notin. assumption.
  - intros i q u E. rewrite (enqp_at _ _ _ Ht) in HI. unfold nenq in HI.
    pose proof (lsum_nth_le enq_cb _ _ _ E) as L. cbn [enq_cb] in L. lia.
Qed.

Lemma I1_hand s t th x : I1 s -> get_thread s t = Some th -> hand_main (main th) x = 1%nat ->
  exists thx k, get_thread s x = Some thx /\ main thx = Susp k /\ x <> t.
Proof.
  intros HI Ht Hh. specialize (HI x). pose proof (hands_main s t th x Ht) as L.
  assert (Hs : (1 <= susp s x)%nat) by lia.
  destruct (susp_1 _ _ Hs) as (thx & k & Hx & Hm). exists thx, k. repeat split; auto.
  intros ->. rewrite Ht in Hx. inversion Hx; subst thx. rewrite Hm in Hh. cbn in Hh. discriminate.
Qed.

(* ---------- C05_signal ---------- *)
Definition after_push (c : nat) (k : after_sig) : pc :=
  match k with ASRet => Done 0 | ASLoop => SigDeq c ASLoop | ASUnlock => Unl (URead 0) end.

Theorem signal_deq s t th c k x r :
  reach s -> get_thread s t = Some th -> main th = SigDeq c k -> getq s (QC c) = x :: r ->
  step s (t, ETick) = Some (set_thread (setq s (QC c) r) t (set_main th (SigPush c k x))) /\
  blocked_in s c x /\ x <> t /\ ~ In x r.
Proof.
  intros Hr Ht Hm Hq. pose proof (I1_reach _ Hr) as HI.
  assert (Hin : In x (getq s (QC c))) by (rewrite Hq; left; reflexivity).
  pose proof (I1_member _ _ _ HI Hin) as HB. split; [|split; [exact HB|split]].
  - cbn [step]. unfold tick. rewrite Ht, Hm, Hq.
    rewrite get_thread_setq, Ht. reflexivity.
  - destruct HB as (thx & kx & Hx & Hmx & _). intros ->. congruence.
  - destruct HB as (thx & kx & Hx & Hmx & Hc & _). rewrite Hq in Hc.
    assert (E : cnt x (x :: r) = (eqn x x + cnt x r)%nat) by reflexivity.
    rewrite eqn_refl in E. apply cnt_0_notin. lia.
Qed.

Theorem signal_empty s t th c k :
  get_thread s t = Some th -> main th = SigDeq c k -> getq s (QC c) = [] ->
  step s (t, ETick) =
  Some (set_thread s t (set_main th (match k with ASUnlock => Unl (URead 0) | _ => Done 0 end))).
Proof.
  intros Ht Hm Hq. cbn [step]. unfold tick. rewrite Ht, Hm, Hq.
  destruct k; reflexivity.
Qed.

Theorem signal_push s t th c k x :
  reach s -> get_thread s t = Some th -> main th = SigPush c k x ->
  exists thx kx, get_thread s x = Some thx /\ main thx = Susp kx /\ x <> t /\
    step s (t, ETick) =
    Some (set_thread (set_thread s x (set_main thx (LockRead kx))) t (set_main th (after_push c k))).
Proof.
  intros Hr Ht Hm. pose proof (I1_reach _ Hr) as HI.
  assert (Hh : hand_main (main th) x = 1%nat) by (rewrite Hm; cbn; apply eqn_refl).
  destruct (I1_hand _ _ _ _ HI Ht Hh) as (thx & kx & Hx & Hmx & Nx).
  exists thx, kx. repeat split; auto.
  cbn [step]. unfold tick. rewrite Ht, Hm. unfold wake. rewrite Hx, Hmx.
  rewrite get_set_thread_neq by exact Nx. rewrite Ht. destruct k; reflexivity.
Qed.


(* ---------- general frame: a main pc changes only by own Call/Tick/Ret or by a wake ---------- *)
Definition same_or_woken (s s' : state) (a : nat) : Prop :=
  main_of s' a = main_of s a \/
  exists k, main_of s a = Some (Susp k) /\ main_of s' a = Some (LockRead k).

Lemma wake_main_frame s y s1 a : wake s y = Some s1 -> same_or_woken s s1 a.
Proof.
  intros Hw. apply wake_spec in Hw. destruct Hw as (thx & k & Hx & Hmx & ->).
  destruct (Nat.eq_dec y a) as [->|N].
  - right. exists k. rewrite (main_of_at _ _ _ Hx), Hmx.
    rewrite (main_of_set_thread_eq _ _ _ _ Hx). auto.
  - left. apply main_of_set_thread_neq. exact N.
Qed.

Lemma ustep_main_frame s t u s1 r a : ustep s t u = Some (s1, r) -> same_or_woken s s1 a.
Proof.
  intros Hu. destruct u as [nf|nf w|nf w|nf|nf y|nf y]; cbn [ustep] in Hu.
  - repeat break_match_hyp Hu; ufin Hu; left; auto.
  - break_match_hyp Hu; ufin Hu; left; auto. rewrite main_of_clear_own; reflexivity.
  - break_match_hyp Hu; ufin Hu; left; auto.
  - destruct (mq s) as [|z q] eqn:Hq; ufin Hu; left; auto.
  - ufin Hu. left. rewrite main_of_clear_own; reflexivity.
  - destruct (wake s y) as [s2|] eqn:Hw; [|discriminate]. ufin Hu.
    eapply wake_main_frame; eauto.
Qed.

Lemma step_main_frame s t e s' a :
  step s (t, e) = Some s' -> (a <> t \/ exists i, e = ECbTick i) -> same_or_woken s s' a.
Proof.
  intros Hs Hc. unfold same_or_woken. destruct e.
  - destruct Hc as [N|(i & Ei)]; [|discriminate]. step_inv' Hs. all: fin Hs.
    all: left; rewrite main_of_set_thread_neq by congruence; reflexivity.
  - destruct Hc as [N|(i & Ei)]; [|discriminate]. step_inv' Hs. all: fin Hs.
    all: rewrite main_of_set_thread_neq by congruence.
    all: try (left; reflexivity).
    all: try (eapply ustep_main_frame; eauto; fail).
    all: try (eapply wake_main_frame; eauto; fail).
  - step_inv' Hs. all: fin Hs.
    all: try match goal with Hu : ustep _ _ _ = _ |- _ =>
           pose proof (ustep_main_frame _ _ _ _ _ a Hu) as Hm1 end.
    all: try match goal with
         | H : get_thread ?s0 ?t = Some ?th |- context [main_of (set_thread ?s0 ?t (set_cbs ?th _)) _] =>
             rewrite (main_of_set_thread_cbs _ _ _ _ _ H); exact Hm1
         end.
    all: left; destruct q;
      match goal with
      | H : get_thread ?s ?t = Some ?th |- main_of (set_thread ?s0 ?t (set_cbs ?th _)) _ = _ =>
          rewrite (main_of_set_thread_cbs s0 t th _ _ H); reflexivity
      end.
  - destruct Hc as [N|(i & Ei)]; [|discriminate]. step_inv' Hs. fin Hs.
    left. rewrite main_of_set_thread_neq by congruence; reflexivity.
Qed.

(* ---------- C05_returns_holding ---------- *)
Lemma lsum_two {A} (f : A -> nat) l : forall i j a b,
  i <> j -> nth_error l i = Some a -> nth_error l j = Some b -> (f a + f b <= lsum f l)%nat.
Proof.
  induction l as [|z l IH]; intros [|i] [|j] a b N Ha Hb; cbn in *; try discriminate; try congruence.
  - inversion Ha; subst. pose proof (lsum_nth_le f _ _ _ Hb). lia.
  - inversion Hb; subst. pose proof (lsum_nth_le f _ _ _ Ha). lia.
  - assert (i <> j) by congruence. specialize (IH _ _ _ _ H Ha Hb). lia.
Qed.

Lemma holder_unique s a b : M s -> holds s a = true -> holds s b = true -> a = b.
Proof.
  unfold holds, M, nown. intros HM Ha Hb.
  destruct (get_thread s a) as [tha|] eqn:Ea; [|discriminate].
  destruct (get_thread s b) as [thb|] eqn:Eb; [|discriminate].
  destruct (Nat.eq_dec a b) as [E|N]; auto. exfalso.
  pose proof (lsum_two (fun th => b2n (own th)) _ _ _ _ _ N Ea Eb) as L.
  cbn beta in L. rewrite Ha, Hb in L. cbn [b2n] in L.
  pose proof (b2n_le1 (Z.odd (mword s))). lia.
Qed.

(** the main pcs of a thread between the CondWait call and its return *)
Definition waitpath (p : pc) : bool :=
  match p with
  | Susp ALRet | LockRead ALRet | LockCas1 ALRet _ | LockCas2 ALRet _ => true
  | _ => false
  end.

Lemma condwait_enters s w c s' :
  step s (w, ECall (CondWait c)) = Some s' ->
  holds s w = true /\ main_of s' w = Some (Susp ALRet) /\
  exists i, cb_entry s' w i = Some (CbEnq (QC c) true) /\ mword s' = mword s.
Proof.
  intros Hs. step_inv' Hs. fin Hs. unfold holds. rewrite Heqo. split; [exact Heqb|].
  rewrite (main_of_set_thread_eq _ _ _ _ Heqo). split; [reflexivity|].
  exists (length (cbs t)). rewrite (cb_entry_at _ _ _ _ (get_set_thread_eq _ _ _ _ Heqo)).
  cbn [add_cb set_cbs set_main cbs]. rewrite nth_error_app2 by lia. rewrite Nat.sub_diag. auto.
Qed.

Theorem returns_holding s a s' w p :
  reach s -> step s a = Some s' -> main_of s w = Some p -> waitpath p = true ->
  (exists p', main_of s' w = Some p' /\ waitpath p' = true) \/
  (main_of s' w = Some (Done 0) /\ a = (w, ETick) /\ p = LockCas1 ALRet (mword s) /\
   Z.even (mword s) = true /\ mword s' = mword s + 1 /\ holds s' w = true /\
   forall t, holds s' t = true -> t = w).
Proof.
  intros Hr Hs Hm Hw. destruct a as [t e].
  assert (Hr' : reach s') by (eapply reach_step; eauto).
  destruct (Inv2_reach _ Hr) as [HM HP]. rewrite Forall_get in HP.
  assert (Hframe : same_or_woken s s' w ->
          exists p', main_of s' w = Some p' /\ waitpath p' = true).
  { intros [E|(k & E1 & E2)].
    - exists p. rewrite E. auto.
    - rewrite Hm in E1. inversion E1; subst p. exists (LockRead k). split; auto.
 }
  destruct (Nat.eq_dec w t) as [->|N]; [|left; apply Hframe; eapply step_main_frame; eauto].
  destruct e.
  - exfalso. step_inv' Hs.
    all: match goal with H : get_thread _ _ = Some ?th, Hp : main ?th = Idle |- _ =>
           rewrite (main_of_at _ _ _ H) in Hm; inversion Hm; subst p;
           rewrite Hp in Hw; discriminate end.
  - unfold main_of in Hm. destruct (get_thread s t) as [th|] eqn:Ht; [|discriminate].
    cbn in Hm. inversion Hm; subst p. clear Hm.
    pose proof (HP _ _ Ht) as [E T L Q].
    cbn [step] in Hs. unfold tick in Hs. rewrite Ht in Hs.
    destruct (main th) as [ |k|k wd|k wd|k| | | | | | | | | ] eqn:Em; try discriminate Hw;
      cbv zeta beta in Hs.
    + (* LockRead *) destruct k; [|discriminate]. rewrite ?Ht in Hs. fin Hs. left.
      rewrite (main_of_set_thread_eq _ _ _ _ Ht). cbn [main set_main]. unfold lock_read.
      eexists; split; [reflexivity|]. destruct (Z.even (mword s)); reflexivity.
    + (* LockCas1 *) destruct k; [|discriminate].
      destruct (mword s =? wd) eqn:Eq.
      * rewrite ?Ht in Hs. fin Hs. right. apply Z.eqb_eq in Eq. subst wd.
        cbn [cas_even] in E.
        rewrite (main_of_set_thread_eq (set_mword s (mword s + 1)) _ _ _ Ht).
        cbn [main set_main set_own acquired].
        assert (Hh : holds (set_thread (set_mword s (mword s + 1)) t
                      (set_own (set_main th (Done 0)) true)) t = true).
        { unfold holds. rewrite (get_set_thread_eq (set_mword s (mword s + 1)) _ _ _ Ht). reflexivity. }
        repeat split; auto.
        intros t' Ht'. destruct (Inv2_reach _ Hr') as [HM' _].
        eapply holder_unique; eauto.
      * rewrite ?Ht in Hs. fin Hs. left. rewrite (main_of_set_thread_eq _ _ _ _ Ht).
        eexists; split; reflexivity.
    + (* LockCas2 *) destruct k; [|discriminate].
      destruct (mword s =? wd) eqn:Eq.
      * fin Hs. left. rewrite (main_of_set_thread_eq (set_mword s (wd + 2)) _ _ _ Ht).
        eexists; split; reflexivity.
      * rewrite ?Ht in Hs. fin Hs. left. rewrite (main_of_set_thread_eq _ _ _ _ Ht).
        eexists; split; reflexivity.
    + (* Susp *) discriminate Hs.
  - left. apply Hframe. eapply step_main_frame; eauto.
  - exfalso. step_inv' Hs. unfold ret_ok in Heqb. rewrite Heqo in Heqb.
    rewrite (main_of_at _ _ _ Heqo) in Hm. inversion Hm; subst p.
    destruct (main t0); discriminate.
Qed.

(* ---------- C05_not_missed ---------- *)
(** once enqueued by its cond-wait callback and not dequeued by a signal / broadcast since,
    [w] is a member of the condition queue and still blocked *)
Theorem not_missed_seg s e post s2 w c :
  reach s -> exec s (e :: post) s2 -> is_enq w (QC c) e -> (c < length (cqs s))%nat ->
  Forall (fun y => ~ is_deq c w y) post ->
  In w (getq s2 (QC c)) /\ blocked_in s2 c w /\
  Forall (fun y => In w (getq (fst y) (QC c))) post.
Proof.
  intros Hr Hex He Hc Hf. apply exec_cons_inv in Hex. destruct Hex as (E0 & s1 & Hs & Hex).
  destruct e as [s0 a]. cbn [fst snd] in *. subst s0.
  pose proof (enq_exact _ _ _ _ _ Hs He Hc) as Hq.
  assert (Hin : In w (getq s1 (QC c))) by (rewrite Hq; apply in_or_app; right; left; reflexivity).
  destruct (member_along _ _ _ _ _ Hex Hin Hf) as [A B].
  split; [exact B|]. split; [|exact A].
  apply I1_member; [|exact B]. apply I1_reach.
  eapply exec_reach; [|exact Hex]. eapply reach_step; eauto.
Qed.

Theorem not_missed nt nc sched pre e post w c :
  (c < nc)%nat -> trace sched (init_state nt nc) = pre ++ e :: post ->
  is_enq w (QC c) e -> Forall (fun y => ~ is_deq c w y) post ->
  In w (getq (run step sched (init_state nt nc)) (QC c)) /\
  blocked_in (run step sched (init_state nt nc)) c w /\
  Forall (fun y => In w (getq (fst y) (QC c))) post.
Proof.
  intros Hc Htr He Hf. pose proof (exec_trace sched (init_state nt nc)) as Hex.
  rewrite Htr in Hex. apply exec_app_inv in Hex. destruct Hex as (sm & Ha & Hb).
  assert (Hr : reach sm) by (eapply exec_reach; [apply init_reach | exact Ha]).
  eapply not_missed_seg; eauto.
  rewrite (length_cqs_exec _ _ _ Ha). cbn [init_state cqs]. rewrite repeat_length. exact Hc.
Qed.

(* ---------- enabledness (used by the quiescence theorem) ---------- *)
Lemma own_odd s t th : M s -> get_thread s t = Some th -> own th = true -> Z.odd (mword s) = true.
Proof.
  intros HM Ht Ho. pose proof (nown_own_le _ _ _ Ht) as L. rewrite Ho in L. unfold M in HM.
  destruct (Z.odd (mword s)); auto. cbn [b2n] in *. lia.
Qed.

Lemma ustep_enabled s t th u :
  reach s -> get_thread s t = Some th -> (preclear u = true -> own th = true) ->
  (forall x, hand_u u x = 1%nat -> (1 <= hands s x)%nat) ->
  exists s1 r, ustep s t u = Some (s1, r).
Proof.
  intros Hr Ht Ho Hh. destruct (Inv2_reach _ Hr) as [HM _]. pose proof (I1_reach _ Hr) as HI.
  destruct u as [nf|nf w|nf w|nf|nf y|nf y]; cbn [ustep].
  - pose proof (own_odd _ _ _ HM Ht (Ho eq_refl)) as Od.
    rewrite <- Z.negb_odd, Od. cbn [negb]. destruct (mword s >? 1); eauto.
  - destruct (mword s =? 1); eauto.
  - destruct (mword s =? w); eauto.
  - destruct (mq s); eauto.
  - eauto.
  - assert (H1 : (1 <= hands s y)%nat) by (apply Hh; cbn; apply eqn_refl).
    specialize (HI y). assert (Hs : (1 <= susp s y)%nat) by lia.
    destruct (susp_1 _ _ Hs) as (thy & k & Hy & Hm). unfold wake. rewrite Hy, Hm. eauto.
Qed.

Lemma cb_enabled s t th i cb :
  reach s -> get_thread s t = Some th -> nth_error (cbs th) i = Some cb ->
  exists s', step s (t, ECbTick i) = Some s'.
Proof.
  intros Hr Ht Hn. cbn [step]. unfold cbtick. rewrite Ht, Hn. destruct cb as [q unl|u]; [eauto|].
  destruct (Inv2_reach _ Hr) as [HM HP]. rewrite Forall_get in HP.
  destruct (HP _ _ Ht) as [E T L Q].
  assert (Ho : preclear u = true -> own th = true).
  { intros Hp. pose proof (lsum_nth_le pre_cb _ _ _ Hn) as Le. cbn [pre_cb] in Le. rewrite Hp in Le.
    unfold npre in T. destruct (own th); auto. cbn [b2n] in *. lia. }
  assert (Hh : forall x, hand_u u x = 1%nat -> (1 <= hands s x)%nat).
  { intros x Hx. pose proof (hands_cb s t th i (CbUnl u) x Ht Hn) as Le. cbn [hand_cb] in Le. lia. }
  destruct (ustep_enabled s t th u Hr Ht Ho Hh) as (s1 & r & Hu). rewrite Hu.
  destruct (ustep_thread _ _ _ _ _ _ Ht Hu) as (th1 & Hth1 & _). rewrite Hth1.
  destruct r; eauto.
Qed.

Lemma sigdeq_enabled s t th c k :
  get_thread s t = Some th -> main th = SigDeq c k -> exists s', step s (t, ETick) = Some s'.
Proof.
  intros Ht Hm. cbn [step]. unfold tick. rewrite Ht, Hm.
  destruct (getq s (QC c)) as [|x r].
  - destruct k; rewrite ?Ht; eauto.
  - rewrite get_thread_setq, Ht. eauto.
Qed.

Lemma sigpush_enabled s t th c k x :
  reach s -> get_thread s t = Some th -> main th = SigPush c k x ->
  exists s', step s (t, ETick) = Some s'.
Proof.
  intros Hr Ht Hm. destruct (signal_push _ _ _ _ _ _ Hr Ht Hm) as (thx & kx & _ & _ & _ & Hs). eauto.
Qed.

(** nobody can take a step of its own code or of a callback *)
Definition quiescent (s : state) : Prop :=
  forall t, step s (t, ETick) = None /\ forall i, step s (t, ECbTick i) = None.

Lemma quiescent_no_cb s t th : reach s -> quiescent s -> get_thread s t = Some th -> cbs th = [].
Proof.
  intros Hr Hq Ht. destruct (cbs th) as [|cb l] eqn:E; auto. exfalso.
  assert (Hn : nth_error (cbs th) 0 = Some cb) by (rewrite E; reflexivity).
  destruct (cb_enabled _ _ _ _ _ Hr Ht Hn) as (s' & Hs).
  destruct (Hq t) as [_ H]. rewrite H in Hs. discriminate.
Qed.

Lemma quiescent_no_sig s t th : reach s -> quiescent s -> get_thread s t = Some th ->
  (forall c k, main th <> SigDeq c k) /\ (forall c k x, main th <> SigPush c k x).
Proof.
  intros Hr Hq Ht. destruct (Hq t) as [H _]. split.
  - intros c k Hm. destruct (sigdeq_enabled _ _ _ _ _ Ht Hm) as (s' & Hs). congruence.
  - intros c k x Hm. destruct (sigpush_enabled _ _ _ _ _ _ Hr Ht Hm) as (s' & Hs). congruence.
Qed.

(* ---------- a broadcast in progress keeps going while the queue is non-empty ---------- *)
Definition bc_pc (c : nat) (o : option pc) : Prop :=
  o = Some (SigDeq c ASLoop) \/ exists x, o = Some (SigPush c ASLoop x).

Lemma actor_tick_dec (b : actor) (a : nat) : {b = (a, ETick)} + {b <> (a, ETick)}.
Proof.
  destruct b as [t e]. destruct (Nat.eq_dec t a) as [->|N].
  - destruct e; try (right; congruence). left; reflexivity.
  - right; congruence.
Qed.

Lemma main_of_inv s a p : main_of s a = Some p -> exists th, get_thread s a = Some th /\ main th = p.
Proof.
  unfold main_of. destruct (get_thread s a) as [th|]; [|discriminate]. cbn. intros H.
  inversion H. eauto.
Qed.

Lemma bcast_step s b s' a c :
  reach s -> step s b = Some s' -> bc_pc c (main_of s a) -> getq s (QC c) <> [] ->
  bc_pc c (main_of s' a).
Proof.
  intros Hr Hs Hb Hne. destruct (actor_tick_dec b a) as [->|Nb].
  - destruct Hb as [Hm|(x & Hm)]; apply main_of_inv in Hm; destruct Hm as (th & Ht & Hm).
    + destruct (getq s (QC c)) as [|x r] eqn:Hq; [congruence|].
      destruct (signal_deq _ _ _ _ _ _ _ Hr Ht Hm Hq) as (Hs' & _). rewrite Hs' in Hs. fin Hs.
      right. exists x. rewrite get_thread_setq in Ht || idtac.
      rewrite (main_of_set_thread_eq (setq s (QC c) r) _ _ th); [reflexivity|].
      rewrite get_thread_setq. exact Ht.
    + destruct (signal_push _ _ _ _ _ _ Hr Ht Hm) as (thx & kx & Hx & Hmx & Nx & Hs').
      rewrite Hs' in Hs. fin Hs. left.
      rewrite (main_of_set_thread_eq _ _ _ th); [reflexivity|].
      rewrite get_set_thread_neq by exact Nx. exact Ht.
  - destruct Hb as [Hm|(x & Hm)].
    + left. eapply step_main_stable; eauto.
    + right. exists x. eapply step_main_stable; eauto.
Qed.

Lemma bcast_along s tr s' a c :
  exec s tr s' -> reach s -> bc_pc c (main_of s a) ->
  Forall (fun y => getq (fst y) (QC c) <> []) tr -> bc_pc c (main_of s' a).
Proof.
  intros H. induction H as [s|s b s1 tr s2 Hs H IH]; intros Hr Hb Hf; auto.
  inversion Hf as [|y l Hy Hl]; subst. cbn [fst] in Hy.
  apply IH; auto.
  - eapply reach_step; eauto.
  - eapply bcast_step; eauto.
Qed.

(* ---------- C05_quiescent ---------- *)
Theorem quiescent_sleeper s e post s2 w c :
  reach s -> exec s (e :: post) s2 -> is_enq w (QC c) e -> (c < length (cqs s))%nat ->
  Forall (fun y => ~ is_deq c w y) post ->
  (* still a member, blocked *)
  In w (getq s2 (QC c)) /\ blocked_in s2 c w /\
  (* FIFO: every dequeue since took a thread that had been enqueued before w *)
  ~ In w (getq s (QC c)) /\
  (forall d x, In d post -> is_deq c x d -> In x (getq s (QC c))) /\
  (* in a quiescent state: no broadcast dequeued after w's enqueue, no signal is in flight,
     every callback has finished *)
  (quiescent s2 ->
     (forall d a x, In d post -> is_deq_by a c x d -> main_of (fst d) a <> Some (SigDeq c ASLoop)) /\
     (forall t th, get_thread s2 t = Some th ->
        cbs th = [] /\ (forall c' k, main th <> SigDeq c' k) /\ (forall c' k x, main th <> SigPush c' k x))).
Proof.
  intros Hr Hex He Hc Hf.
  destruct (not_missed_seg _ _ _ _ _ _ Hr Hex He Hc Hf) as (A & B & C).
  pose proof Hex as Hex0.
  apply exec_cons_inv in Hex. destruct Hex as (E0 & s1 & Hs & Hex).
  destruct e as [s0 b]. cbn [fst snd] in *. subst s0.
  pose proof (enq_exact _ _ _ _ _ Hs He Hc) as Hq.
  assert (Hr1 : reach s1) by (eapply reach_step; eauto).
  assert (Hr2 : reach s2) by (eapply exec_reach; eauto).
  assert (Hnw : ~ In w (getq s (QC c))).
  { intros Hin. pose proof (I1_reach _ Hr w) as HI. pose proof (inqs_cq _ _ _ Hin) as L.
    destruct He as (i & Ea & Ec). cbn [fst snd] in *. unfold cb_entry in Ec.
    destruct (get_thread s w) as [th|] eqn:Ht; [|discriminate].
    rewrite (enqp_at _ _ _ Ht) in HI. unfold nenq in HI.
    pose proof (lsum_nth_le enq_cb _ _ _ Ec) as L2. cbn [enq_cb] in L2.
    pose proof (susp_at _ _ _ Ht) as Es. unfold issusp in Es. destruct (main th); lia. }
  split; [exact A|]. split; [exact B|]. split; [exact Hnw|].
  assert (Hq' : getq s1 (QC c) = getq s (QC c) ++ w :: []) by exact Hq.
  destruct (fifo_along _ _ _ _ _ Hex _ _ Hq' Hf) as [F _].
  split; [exact F|].
  intros Hqs. split.
  - intros d a x Hin Hd Hm.
    apply in_split in Hin. destruct Hin as (p1 & p2 & ->).
    apply exec_app_inv in Hex. destruct Hex as (sd & Hex1 & Hex2).
    pose proof (exec_cons_inv _ _ _ _ Hex2) as (Ed & _).
    assert (Hrd : reach sd) by (eapply exec_reach; [exact Hr1 | exact Hex1]).
    apply Forall_app in C. destruct C as [_ C2].
    assert (Hne : Forall (fun y => getq (fst y) (QC c) <> []) (d :: p2)).
    { eapply Forall_impl; [|exact C2]. intros y Hy E. cbv beta in Hy. rewrite E in Hy. destruct Hy. }
    assert (Hb : bc_pc c (main_of sd a)) by (left; rewrite <- Ed; exact Hm).
    pose proof (bcast_along _ _ _ a c Hex2 Hrd Hb Hne) as Hb2.
    destruct Hb2 as [H2|(x2 & H2)]; apply main_of_inv in H2; destruct H2 as (th & Ht & Hm2);
      destruct (quiescent_no_sig _ _ _ Hr2 Hqs Ht) as [N1 N2]; [eapply N1 | eapply N2]; eauto.
  - intros t th Ht. split; [eapply quiescent_no_cb; eauto | eapply quiescent_no_sig; eauto].
Qed.

(* ---------- C05_broadcast ---------- *)
Lemma deq_between s tr s' x c :
  exec s tr s' -> In x (getq s (QC c)) -> ~ In x (getq s' (QC c)) ->
  exists pre d post, tr = pre ++ d :: post /\ is_deq c x d.
Proof.
  intros H. induction H as [s|s b s1 tr s2 Hs H IH]; intros Hin Hout; [contradiction|].
  assert (Hshift : In x (getq s1 (QC c)) -> exists pre d post, (s, b) :: tr = pre ++ d :: post /\ is_deq c x d).
  { intros Hin1. destruct (IH Hin1 Hout) as (pre & d & post & -> & Hd).
    exists ((s, b) :: pre), d, post. auto. }
  destruct (step_cq c _ _ _ Hs) as [[Hq Hd He|t j unl Ea Ee Hlt Hq|t k y r Ea Em Hq Hq'] _].
  - apply Hshift. rewrite Hq. exact Hin.
  - apply Hshift. rewrite Hq. apply in_or_app. left. exact Hin.
  - destruct (Nat.eq_dec y x) as [->|N].
    + exists [], (s, b), tr. split; [reflexivity|]. exists t, k, r. cbn [fst snd]. auto.
    + apply Hshift. rewrite Hq'. rewrite Hq in Hin. destruct Hin as [E|Hin]; [congruence|exact Hin].
Qed.

Lemma pending_along s tr s' a c k x :
  exec s tr s' -> main_of s a = Some (SigPush c k x) ->
  (exists pre p post, tr = pre ++ p :: post /\ is_push_by a c x p) \/
  main_of s' a = Some (SigPush c k x).
Proof.
  intros H. induction H as [s|s b s1 tr s2 Hs H IH]; intros Hm; [right; exact Hm|].
  destruct (actor_tick_dec b a) as [->|Nb].
  - left. exists [], (s, (a, ETick)), tr. split; [reflexivity|]. exists k. cbn [fst snd]. auto.
  - assert (Hm1 : main_of s1 a = Some (SigPush c k x)) by (eapply step_main_stable; eauto).
    destruct (IH Hm1) as [(pre & p & post & -> & Hp)|Hr]; [left|right; exact Hr].
    exists ((s, b) :: pre), p, post. auto.
Qed.

(** between a state where [x] is in condition queue [c] and a later state where the queue is
    empty, [x] was dequeued by a signal / broadcast step of some thread [a], and [a] has either
    executed its push (x woken) or stands at it *)
Theorem dequeued_and_pushed s1 tr s2 c x :
  reach s1 -> exec s1 tr s2 -> In x (getq s1 (QC c)) -> getq s2 (QC c) = [] ->
  blocked_in s1 c x /\
  exists pre d post a, tr = pre ++ d :: post /\ is_deq_by a c x d /\
    ((exists p1 p p2, post = p1 ++ p :: p2 /\ is_push_by a c x p) \/
     (exists k, main_of s2 a = Some (SigPush c k x))).
Proof.
  intros Hr Hex Hin He. split; [apply I1_member; auto; apply I1_reach; exact Hr|].
  assert (Hout : ~ In x (getq s2 (QC c))) by (rewrite He; intros []).
  destruct (deq_between _ _ _ _ _ Hex Hin Hout) as (pre & d & post & -> & (a & Hd)).
  exists pre, d, post, a. split; [reflexivity|]. split; [exact Hd|].
  destruct (exec_split _ _ _ _ _ Hex) as (sd & Hpre & Hsd & Hpost).
  assert (Hrd : reach (fst d)) by (eapply exec_reach; eauto).
  destruct Hd as (k & r & Ea & Em & Eq). apply main_of_inv in Em. destruct Em as (th & Ht & Hm).
  destruct (signal_deq _ _ _ _ _ _ _ Hrd Ht Hm Eq) as (Hs' & _).
  rewrite Ea in Hsd. rewrite Hs' in Hsd. fin Hsd.
  assert (Hm1 : main_of (set_thread (setq (fst d) (QC c) r) a (set_main th (SigPush c k x))) a
                = Some (SigPush c k x)).
  { rewrite (main_of_set_thread_eq (setq (fst d) (QC c) r) _ _ th); [reflexivity|].
    rewrite get_thread_setq. exact Ht. }
  destruct (pending_along _ _ _ _ _ _ _ Hpost Hm1) as [(p1 & p & p2 & -> & Hp)|Hpend].
  - left. eauto.
  - right. eauto.
Qed.

(** the broadcast form: [t] is inside Broadcast c (at a dequeue step, e.g. its first one) in
    [s1]; in [s2] its dequeue step finds the queue empty, i.e. the call returns.  Every thread
    that was in the queue at [s1] has been dequeued in between, and woken - or is in the hand
    of ANOTHER signaller that stands at its push step. *)
Theorem broadcast_reaches s1 tr s2 t th2 c x :
  reach s1 -> main_of s1 t = Some (SigDeq c ASLoop) -> exec s1 tr s2 ->
  get_thread s2 t = Some th2 -> main th2 = SigDeq c ASLoop -> getq s2 (QC c) = [] ->
  In x (getq s1 (QC c)) ->
  step s2 (t, ETick) = Some (set_thread s2 t (set_main th2 (Done 0))) /\
  blocked_in s1 c x /\
  exists pre d post a, tr = pre ++ d :: post /\ is_deq_by a c x d /\
    ((exists p1 p p2, post = p1 ++ p :: p2 /\ is_push_by a c x p) \/
     (a <> t /\ exists k, main_of s2 a = Some (SigPush c k x))).
Proof.
  intros Hr Hm1 Hex Ht2 Hm2 He Hin.
  split; [exact (signal_empty _ _ _ _ _ Ht2 Hm2 He)|].
  destruct (dequeued_and_pushed _ _ _ _ _ Hr Hex Hin He) as (B & pre & d & post & a & E & Hd & Hp).
  split; [exact B|]. exists pre, d, post, a. split; [exact E|]. split; [exact Hd|].
  destruct Hp as [Hp|(k & Hk)]; [left; exact Hp|right].
  split; [|eauto]. intros ->. rewrite (main_of_at _ _ _ Ht2), Hm2 in Hk. discriminate.
Qed.

(* ---------- only dequeued threads are pushed ---------- *)
Lemma push_entry s b s' a c k x :
  step s b = Some s' -> main_of s' a = Some (SigPush c k x) ->
  (main_of s a = Some (SigPush c k x) /\ b <> (a, ETick)) \/ is_deq_by a c x (s, b).
Proof.
  intros Hs Hm. destruct b as [t e].
  assert (Hfr : (a <> t \/ exists i, e = ECbTick i) ->
                main_of s a = Some (SigPush c k x) /\ (t, e) <> (a, ETick)).
  { intros Hc. split.
    - destruct (step_main_frame _ _ _ _ a Hs Hc) as [E|(k1 & _ & E)]; congruence.
    - destruct Hc as [N|(i & ->)]; congruence. }
  destruct (Nat.eq_dec a t) as [->|N]; [|left; apply Hfr; auto].
  destruct e.
  - exfalso. step_inv' Hs. all: fin Hs.
    all: match goal with H : get_thread ?s ?t = Some ?th |- _ =>
           rewrite (main_of_set_thread_eq _ _ _ _ H) in Hm end.
    all: cbn [main set_main add_cb set_cbs] in Hm; discriminate.
  - step_inv' Hs. all: fin Hs.
    all: try match goal with
         | H : get_thread _ ?t = Some ?th, Hm : main_of (set_thread ?s0 ?t ?th') ?t = _ |- _ =>
             rewrite (main_of_set_thread_eq s0 t th' th H) in Hm;
             cbn [main set_main set_own add_cb set_cbs] in Hm; try discriminate Hm
         end.
    right. inversion Hm; subst. exists k, l. cbn [fst snd].
    rewrite (main_of_at _ _ _ Heqo), Heqp. auto.
  - left. apply Hfr. right. eauto.
  - exfalso. step_inv' Hs. fin Hs.
    match goal with H : get_thread ?s ?t = Some ?th |- _ =>
      rewrite (main_of_set_thread_eq _ _ _ _ H) in Hm end.
    discriminate.
Qed.

(** every push step of [a] is preceded by [a]'s dequeue of exactly that thread from that queue,
    with no step of [a]'s own code in between *)
Definition deq_origin (a c x : nat) (l : list estep) : Prop :=
  exists pre d post, l = pre ++ d :: post /\ is_deq_by a c x d /\ Forall (fun y : estep => snd y <> (a, ETick)) post.

Lemma pending_origin_gen s tr s' a c k x :
  exec s tr s' -> forall acc,
  (main_of s a = Some (SigPush c k x) -> deq_origin a c x acc) ->
  main_of s' a = Some (SigPush c k x) -> deq_origin a c x (acc ++ tr).
Proof.
  intros H. induction H as [s|s b s1 tr s2 Hs H IH]; intros acc Hacc Hm.
  - rewrite app_nil_r. auto.
  - replace (acc ++ (s, b) :: tr) with ((acc ++ [(s, b)]) ++ tr) by (rewrite <- app_assoc; reflexivity).
    apply IH; [|exact Hm]. intros Hm1.
    destruct (push_entry _ _ _ _ _ _ _ Hs Hm1) as [[Hm0 Nb]|Hd].
    + destruct (Hacc Hm0) as (pre & d & post & -> & Hd & Hf).
      exists pre, d, (post ++ [(s, b)]). split; [rewrite <- app_assoc; reflexivity|].
      split; [exact Hd|]. apply Forall_app. split; [exact Hf|]. constructor; [exact Nb|constructor].
    + exists acc, (s, b), []. auto.
Qed.

Theorem push_preceded nt nc sched pre p post a c x :
  trace sched (init_state nt nc) = pre ++ p :: post -> is_push_by a c x p ->
  deq_origin a c x pre.
Proof.
  intros Htr (k & Ea & Em). pose proof (exec_trace sched (init_state nt nc)) as Hex.
  rewrite Htr in Hex. destruct (exec_split _ _ _ _ _ Hex) as (s1 & Hpre & _ & _).
  apply (pending_origin_gen _ _ _ a c k x Hpre []); [|exact Em].
  intros H0. exfalso. apply main_of_inv in H0. destruct H0 as (th & Ht & Hm).
  apply get_thread_init in Ht. subst th. discriminate.
Qed.

(* ---------- C05_enq_before_release ---------- *)
Definition cbs_of (s : state) (w : nat) : option (list cbpc) := option_map cbs (get_thread s w).

Lemma cbs_of_at s t th : get_thread s t = Some th -> cbs_of s t = Some (cbs th).
Proof. intros H. unfold cbs_of. rewrite H. reflexivity. Qed.
Lemma cbs_of_set_thread_neq s t x w : t <> w -> cbs_of (set_thread s t x) w = cbs_of s w.
Proof. intros N. unfold cbs_of. rewrite get_set_thread_neq by exact N. reflexivity. Qed.

Lemma wake_cbs s y s1 w : wake s y = Some s1 -> cbs_of s1 w = cbs_of s w.
Proof.
  intros Hw. apply wake_spec in Hw. destruct Hw as (thx & k & Hx & Hm & ->).
  destruct (Nat.eq_dec y w) as [->|N].
  - unfold cbs_of. rewrite (get_set_thread_eq _ _ _ _ Hx), Hx. reflexivity.
  - apply cbs_of_set_thread_neq. exact N.
Qed.

Lemma clear_own_cbs s t w : cbs_of (clear_own s t) w = cbs_of s w.
Proof.
  unfold clear_own. destruct (get_thread s t) as [th|] eqn:E; auto.
  destruct (Nat.eq_dec t w) as [->|N].
  - unfold cbs_of. rewrite (get_set_thread_eq _ _ _ _ E), E. reflexivity.
  - apply cbs_of_set_thread_neq. exact N.
Qed.

Lemma ustep_cbs s t u s1 r w : ustep s t u = Some (s1, r) -> cbs_of s1 w = cbs_of s w.
Proof.
  intros Hu. destruct u as [nf|nf wd|nf wd|nf|nf y|nf y]; cbn [ustep] in Hu.
  - repeat break_match_hyp Hu; ufin Hu; auto.
  - break_match_hyp Hu; ufin Hu; auto. rewrite clear_own_cbs. reflexivity.
  - break_match_hyp Hu; ufin Hu; auto.
  - destruct (mq s) as [|z q] eqn:Hq; ufin Hu; auto.
  - ufin Hu. rewrite clear_own_cbs. reflexivity.
  - destruct (wake s y) as [s2|] eqn:Hw; [|discriminate]. ufin Hu. eapply wake_cbs; eauto.
Qed.

(** the callbacks of [w] are touched only by [w]'s own events *)
Lemma step_cbs_frame s t e s' w : step s (t, e) = Some s' -> w <> t -> cbs_of s' w = cbs_of s w.
Proof.
  intros Hs N. destruct e; step_inv' Hs; fin Hs.
  all: rewrite cbs_of_set_thread_neq by congruence.
  all: try reflexivity.
  all: try (eapply ustep_cbs; eauto; fail).
  all: try (eapply wake_cbs; eauto; fail).
  all: destruct q; reflexivity.
Qed.

Lemma cbs_of_set_thread_eq s t x th : get_thread s t = Some th -> cbs_of (set_thread s t x) t = Some (cbs x).
Proof. intros H. unfold cbs_of. rewrite (get_set_thread_eq _ _ _ _ H). reflexivity. Qed.

(** own Call / Tick / Ret only append enqueue entries *)
Lemma own_step_cbs s w e s' th :
  step s (w, e) = Some s' -> get_thread s w = Some th -> (forall i, e <> ECbTick i) ->
  exists l, cbs_of s' w = Some (cbs th ++ l) /\ forall u, ~ In (CbUnl u) l.
Proof.
  intros Hs Ht Hne. destruct e; [| | exfalso; eapply Hne; eauto |].
  all: step_inv' Hs; fin Hs.
  all: try match goal with Hu : ustep _ _ _ = _ |- _ =>
         pose proof (ustep_cbs _ _ _ _ _ w Hu) as Hc end.
  all: try match goal with Hw : wake _ _ = _ |- _ =>
         pose proof (wake_cbs _ _ _ w Hw) as Hc end.
  all: try match goal with
       | H1 : get_thread ?s0 ?t = Some ?t1, Hc : cbs_of ?s0 ?t = cbs_of ?s ?t |- _ =>
           rewrite (cbs_of_at _ _ _ H1), (cbs_of_at _ _ _ Ht) in Hc; apply Some_inj in Hc
       end.
  all: rewrite ?get_thread_setq, ?get_thread_set_festat in *.
  all: repeat match goal with
       | H1 : get_thread ?s ?t = Some ?a, H2 : get_thread ?s ?t = Some ?b |- _ =>
           rewrite H1 in H2; apply Some_inj in H2; subst
       end.
  all: try (apply Some_inj in Ht; subst).
  all: match goal with
       | H : get_thread _ ?t = Some ?th0 |- context [cbs_of (set_thread ?s0 ?t ?th') ?t] =>
           rewrite (cbs_of_set_thread_eq s0 t th' th0 H)
       end.
  all: cbn [cbs set_main set_own add_cb set_cbs].
  all: try (exists []; rewrite app_nil_r; split; [congruence | intros u []]).
  all: try (eexists; split; [reflexivity|]; intros u [E|[]]; discriminate).
  all: match goal with
       | H1 : get_thread ?s0 ?w = Some ?t0, H : get_thread ?s ?w = Some ?th,
         Hc : cbs_of ?s0 ?w = cbs_of ?s ?w |- _ =>
           rewrite (cbs_of_at _ _ _ H1), (cbs_of_at _ _ _ H) in Hc; apply Some_inj in Hc; rewrite Hc
       end.
  all: exists []; rewrite app_nil_r; split; [reflexivity | intros u' []].
Qed.

(** [w] has a callback that is inside unlock and has not cleared the lock bit yet *)
Definition has_unl (s : state) (w : nat) : Prop :=
  exists th u, get_thread s w = Some th /\ In (CbUnl u) (cbs th) /\ preclear u = true.

Lemma ustep_next_preclear s t u s1 u' : ustep s t u = Some (s1, UNext u') -> preclear u = true.
Proof.
  intros Hu. destruct u; try reflexivity. cbn [ustep] in Hu.
  destruct (wake s x); [|discriminate]. apply Some_inj in Hu. apply pair_equal_spec in Hu.
  destruct Hu as [_ Hu]. discriminate.
Qed.

Lemma unl_origin s b s' w :
  reach s -> step s b = Some s' -> has_unl s' w ->
  (has_unl s w /\ quiet w (s, b)) \/ (exists c, is_enq w (QC c) (s, b)).
Proof.
  intros Hr Hs (th' & u' & Ht' & Hin' & Hp'). destruct b as [t e].
  destruct (Inv2_reach _ Hr) as [HM HP]. rewrite Forall_get in HP.
  destruct (Nat.eq_dec w t) as [->|N].
  2:{ left. split.
      - pose proof (step_cbs_frame _ _ _ _ _ Hs N) as Hc. rewrite (cbs_of_at _ _ _ Ht') in Hc.
        unfold cbs_of in Hc. destruct (get_thread s w) as [th|] eqn:Ht; [|discriminate].
        cbn in Hc. apply Some_inj in Hc. exists th, u'. rewrite <- Hc. auto.
      - split.
        + intros (o & E). cbn [snd] in E. congruence.
        + intros q (i & E & _). cbn [snd] in E. congruence. }
  destruct (get_thread s t) as [th|] eqn:Ht.
  2:{ exfalso. destruct e; cbn [step] in Hs; unfold call, tick, cbtick, ret, ret_ok in Hs;
      rewrite Ht in Hs; discriminate. }
  assert (Hquiet : (forall i, e <> ECbTick i) -> (forall o, e <> ECall o) -> quiet t (s, (t, e))).
  { intros H1 H2. split.
    - intros (o & E). cbn [snd] in E. apply pair_equal_spec in E. destruct E as [_ E]. eapply H2; eauto.
    - intros q (i & E & _). cbn [snd] in E. apply pair_equal_spec in E. destruct E as [_ E]. eapply H1; eauto. }
  assert (Hown : (forall i, e <> ECbTick i) -> has_unl s t).
  { intros H1. destruct (own_step_cbs _ _ _ _ _ Hs Ht H1) as (l & Hc & Hl).
    rewrite (cbs_of_at _ _ _ Ht') in Hc. apply Some_inj in Hc. rewrite Hc in Hin'.
    apply in_app_or in Hin'. destruct Hin' as [Hin|Hin]; [|exfalso; eapply Hl; eauto].
    exists th, u'. auto. }
  destruct e as [o| |i|v].
  - (* a call is impossible while a pre-clear callback exists: main is inside lock() *)
    exfalso. assert (H1 : forall i, ECall o <> ECbTick i) by (intros; discriminate).
    destruct (Hown H1) as (th0 & u0 & Ht0 & Hin0 & Hp0). rewrite Ht in Ht0. apply Some_inj in Ht0. subst th0.
    destruct (HP _ _ Ht) as [E T L Q].
    apply In_nth_error in Hin0. destruct Hin0 as (j & Hj).
    pose proof (lsum_nth_le pre_cb _ _ _ Hj) as Le. cbn [pre_cb] in Le. rewrite Hp0 in Le. cbn [b2n] in Le.
    specialize (L Le). cbn [step] in Hs. unfold call in Hs. rewrite Ht in Hs.
    destruct (main th) eqn:Em; try discriminate Hs. discriminate L.
  - left. split; [apply Hown | apply Hquiet]; intros; discriminate.
  - (* a callback step of w *)
    cbn [step] in Hs. unfold cbtick in Hs. rewrite Ht in Hs.
    destruct (nth_error (cbs th) i) as [[q unl|u]|] eqn:Hn; [| |discriminate].
    + destruct unl.
      * right. destruct (HP _ _ Ht) as [E T L Q].
        pose proof (Forall_nth_error _ _ _ _ Q Hn) as Hq. cbn [enq_cond] in Hq. destruct Hq as (c & ->).
        exists c, i. cbn [fst snd]. rewrite (cb_entry_at _ _ _ _ Ht). auto.
      * left. fin Hs. split.
        -- assert (Hg : get_thread (setq s q (getq s q ++ [t])) t = Some th)
             by (rewrite get_thread_setq; exact Ht).
           rewrite (get_set_thread_eq _ _ _ _ Hg) in Ht'. apply Some_inj in Ht'. subst th'.
           cbn [cbs set_cbs] in Hin'. apply In_remove_nth in Hin'. exists th, u'. auto.
        -- split.
           ++ intros (o & E). cbn [snd] in E. discriminate.
           ++ intros q' (j & E & Ec). cbn [fst snd] in *. apply pair_equal_spec in E. destruct E as [_ E].
              inversion E; subst j. rewrite (cb_entry_at _ _ _ _ Ht), Hn in Ec. discriminate.
    + left. split.
      * destruct (ustep s t u) as [[s1 r]|] eqn:Hu; [|discriminate].
        destruct (ustep_thread _ _ _ _ _ _ Ht Hu) as (th1 & Hth1 & Hc1 & _). rewrite Hth1 in Hs.
        destruct r as [u1|nf]; fin Hs; rewrite (get_set_thread_eq _ _ _ _ Hth1) in Ht';
          apply Some_inj in Ht'; subst th'; cbn [cbs set_cbs] in Hin'; rewrite Hc1 in Hin'.
        -- apply In_upd in Hin'. destruct Hin' as [E|Hin].
           ++ exists th, u. split; [exact Ht|]. split; [eapply nth_error_In; eauto|].
              eapply ustep_next_preclear; eauto.
           ++ exists th, u'. auto.
        -- apply In_remove_nth in Hin'. exists th, u'. auto.
      * split.
        -- intros (o & E). cbn [snd] in E. discriminate.
        -- intros q' (j & E & Ec). cbn [fst snd] in *. apply pair_equal_spec in E. destruct E as [_ E].
           inversion E; subst j. rewrite (cb_entry_at _ _ _ _ Ht), Hn in Ec. discriminate.
  - left. split; [apply Hown | apply Hquiet]; intros; discriminate.
Qed.

Definition enq_origin (w : nat) (l : list estep) : Prop :=
  exists pre e post c, l = pre ++ e :: post /\ is_enq w (QC c) e /\ Forall (quiet w) post.

Lemma unl_origin_gen s tr s' w :
  exec s tr s' -> reach s -> forall acc,
  (has_unl s w -> enq_origin w acc) -> has_unl s' w -> enq_origin w (acc ++ tr).
Proof.
  intros H. induction H as [s|s b s1 tr s2 Hs H IH]; intros Hr acc Hacc Hu.
  - rewrite app_nil_r. auto.
  - replace (acc ++ (s, b) :: tr) with ((acc ++ [(s, b)]) ++ tr) by (rewrite <- app_assoc; reflexivity).
    apply IH; [eapply reach_step; eauto| |exact Hu]. intros Hu1.
    destruct (unl_origin _ _ _ _ Hr Hs Hu1) as [[Hu0 Hq]|(c & He)].
    + destruct (Hacc Hu0) as (pre & e & post & c & -> & He & Hf).
      exists pre, e, (post ++ [(s, b)]), c. split; [rewrite <- app_assoc; reflexivity|].
      split; [exact He|]. apply Forall_app. split; [exact Hf|]. constructor; [exact Hq|constructor].
    + exists acc, (s, b), [], c. auto.
Qed.

Lemma clears_preclear s u : clears s u = true -> preclear u = true.
Proof. destruct u; cbn; auto; discriminate. Qed.

(** every step that clears the lock bit in a callback of [w] is preceded by the step that
    appended [w] to a condition queue in the same cond-wait (no call and no other cond-wait
    enqueue of [w] in between) *)
Theorem enq_before_release nt nc sched pre r post w :
  trace sched (init_state nt nc) = pre ++ r :: post -> is_release w r -> enq_origin w pre.
Proof.
  intros Htr (i & u & Ea & Ec & Hcl). pose proof (exec_trace sched (init_state nt nc)) as Hex.
  rewrite Htr in Hex. destruct (exec_split _ _ _ _ _ Hex) as (s1 & Hpre & _ & _).
  apply (unl_origin_gen _ _ _ w Hpre (init_reach nt nc) []).
  - intros (th & u0 & Ht & Hin & _). apply get_thread_init in Ht. subst th. destruct Hin.
  - unfold cb_entry in Ec. destruct (get_thread (fst r) w) as [th|] eqn:Ht; [|discriminate].
    exists th, u. split; [exact Ht|]. split; [eapply nth_error_In; eauto|].
    eapply clears_preclear; eauto.
Qed.

(** the pc invariant behind it: while an enqueue entry of [w] is pending, [w] is suspended,
    in no sleep queue and in nobody's hand; if the callback will unlock, [w] still owns the
    mutex (the lock bit is set) and the target is a condition queue *)
Theorem enq_entry_not_queued s w th q unl :
  reach s -> get_thread s w = Some th -> In (CbEnq q unl) (cbs th) ->
  (exists k, main th = Susp k) /\ ~ In w (mq s) /\ (forall c, ~ In w (getq s (QC c))) /\
  hands s w = 0%nat /\
  (unl = true -> own th = true /\ Z.odd (mword s) = true /\ exists c, q = QC c).
Proof.
  intros Hr Ht Hin. pose proof (I1_reach _ Hr w) as HI.
  destruct (Inv2_reach _ Hr) as [HM HP]. rewrite Forall_get in HP. destruct (HP _ _ Ht) as [E T L Q].
  apply In_nth_error in Hin. destruct Hin as (i & Hi).
  pose proof (lsum_nth_le enq_cb _ _ _ Hi) as Le. cbn [enq_cb] in Le.
  rewrite (enqp_at _ _ _ Ht), (susp_at _ _ _ Ht) in HI. unfold nenq in HI.
  assert (Hs : issusp th = 1%nat) by (unfold issusp in *; destruct (main th); lia).
  split; [unfold issusp in Hs; destruct (main th); try discriminate; eauto|].
  split; [intros Hm; pose proof (inqs_mq _ _ Hm); lia|].
  split; [intros c Hc; pose proof (inqs_cq _ _ _ Hc); lia|].
  split; [lia|].
  intros ->. pose proof (lsum_nth_le pre_cb _ _ _ Hi) as Lp. cbn [pre_cb b2n] in Lp.
  assert (Ho : own th = true) by (unfold npre in T; destruct (own th); auto; cbn [b2n] in T; lia).
  split; [exact Ho|]. split; [eapply own_odd; eauto|].
  pose proof (Forall_nth_error _ _ _ _ Q Hi) as Hq. exact Hq.
Qed.

(** release-and-wait is atomic for signallers: at any point after the callback of [w] has
    released the mutex, [w] is in the condition queue unless a signal / broadcast dequeued it *)
Theorem release_then_member nt nc sched pre r post w :
  trace sched (init_state nt nc) = pre ++ r :: post -> is_release w r ->
  exists pre1 e pre2 c, pre = pre1 ++ e :: pre2 /\ is_enq w (QC c) e /\ Forall (quiet w) pre2 /\
    ((c < nc)%nat -> Forall (fun y => ~ is_deq c w y) (pre2 ++ r :: post) ->
     In w (getq (run step sched (init_state nt nc)) (QC c)) /\
     blocked_in (run step sched (init_state nt nc)) c w).
Proof.
  intros Htr Hrel. destruct (enq_before_release _ _ _ _ _ _ _ Htr Hrel) as (pre1 & e & pre2 & c & -> & He & Hq).
  exists pre1, e, pre2, c. split; [reflexivity|]. split; [exact He|]. split; [exact Hq|].
  intros Hc Hf. rewrite <- app_assoc in Htr. cbn [app] in Htr.
  destruct (not_missed _ _ _ _ _ _ _ _ Hc Htr He Hf) as (A & B & _). auto.
Qed.

Lemma lock_bit_reach s : reach s -> count_holders s = (if Z.odd (mword s) then 1 else 0)%nat.
Proof. intros Hr. rewrite count_holders_nown. exact (proj1 (Inv2_reach s Hr)). Qed.

Lemma run_reach sched nt nc : reach (run step sched (init_state nt nc)).
Proof. apply run_reachable. apply init_reach. Qed.

(** splitting a list at position [k] (used by the non-vacuity examples) *)
Lemma split_at {A} (l : list A) k d :
  (k < length l)%nat -> l = firstn k l ++ nth k l d :: skipn (S k) l.
Proof.
  revert k; induction l as [|x l IH]; intros [|k] H; cbn in *; try lia; auto.
  f_equal. apply IH. lia.
Qed.

(** boolean test that a step is not a dequeue on condition queue [c] (for the examples) *)
Definition not_deq_b (c : nat) (y : estep) : bool :=
  match snd y with
  | (a, ETick) => match main_of (fst y) a with
                  | Some (SigDeq c' _) => negb (Nat.eqb c' c)
                  | _ => true
                  end
  | _ => true
  end.

Lemma not_deq_b_sound c x y : not_deq_b c y = true -> ~ is_deq c x y.
Proof.
  unfold not_deq_b. intros H (a & k & r & E1 & E2 & _). rewrite E1, E2 in H.
  rewrite Nat.eqb_refl in H. discriminate.
Qed.

Lemma Forall_not_deq c x l : forallb (not_deq_b c) l = true -> Forall (fun y => ~ is_deq c x y) l.
Proof.
  intros H. apply Forall_forall. intros y Hy. apply (not_deq_b_sound c x).
  rewrite forallb_forall in H. auto.
Qed.

(** conjunction of closed computations (examples) *)
Ltac vsplit :=
  repeat match goal with |- _ /\ _ => split; [vm_compute; reflexivity|] end; vm_compute; reflexivity.

