(** C05 - runs as traces: the list of enabled steps (pre-state, actor) of a schedule, and the
    event predicates the order theorems speak about.  Ghost-free: everything is a function
    of the run of [step] (Sync/SyncModel.v). *)
From Coq Require Import ZArith List Bool Lia Arith.
From MT Require Import Lib.Interleave Sync.SyncModel Sync.CondBase Sync.CondInv.
Import ListNotations.
Local Open Scope Z_scope.

Definition estep := (state * actor)%type.     (* an executed step: state before it, who/what *)

Fixpoint trace (sched : list actor) (s : state) : list estep :=
  match sched with
  | [] => []
  | a :: r => match step s a with
              | Some s' => (s, a) :: trace r s'
              | None => trace r s
              end
  end.

Inductive exec : state -> list estep -> state -> Prop :=
| exec_nil s : exec s [] s
| exec_cons s a s1 tr s2 : step s a = Some s1 -> exec s1 tr s2 -> exec s ((s, a) :: tr) s2.

Lemma exec_trace sched : forall s, exec s (trace sched s) (run step sched s).
Proof.
  induction sched as [|a r IH]; intros s; cbn [trace run fold_left].
  - constructor.
  - unfold exec1. destruct (step s a) as [s'|] eqn:E.
    + econstructor; eauto.
    + apply IH.
Qed.

Lemma exec_app s tr1 s1 tr2 s2 : exec s tr1 s1 -> exec s1 tr2 s2 -> exec s (tr1 ++ tr2) s2.
Proof.
  intros H1 H2. induction H1 as [s|s a s1 tr s3 Hs H1 IH]; cbn [app]; auto.
  econstructor; eauto.
Qed.

Lemma exec_app_inv tr1 : forall s tr2 s2,
  exec s (tr1 ++ tr2) s2 -> exists s1, exec s tr1 s1 /\ exec s1 tr2 s2.
Proof.
  induction tr1 as [|x tr1 IH]; intros s tr2 s2 H; cbn [app] in H.
  - exists s. split; [constructor | exact H].
  - inversion H as [|s0 a s1 tr s3 Hs H1]; subst.
    destruct (IH _ _ _ H1) as (sm & Ha & Hb). exists sm. split; auto. econstructor; eauto.
Qed.

Lemma exec_cons_inv s x tr s2 :
  exec s (x :: tr) s2 -> fst x = s /\ exists s1, step s (snd x) = Some s1 /\ exec s1 tr s2.
Proof. intros H. inversion H; subst. cbn. eauto. Qed.

Lemma exec_reach s tr s' : reach s -> exec s tr s' -> reach s'.
Proof.
  intros Hr H. induction H as [s|s a s1 tr s2 Hs H IH]; auto.
  apply IH. eapply reach_step; eauto.
Qed.

(** splitting a run at an element of its trace *)
Lemma exec_split s pre x post s2 :
  exec s (pre ++ x :: post) s2 ->
  exists s1, exec s pre (fst x) /\ step (fst x) (snd x) = Some s1 /\ exec s1 post s2.
Proof.
  intros H. apply exec_app_inv in H. destruct H as (sm & Ha & Hb).
  apply exec_cons_inv in Hb. destruct Hb as (E & s1 & Hs & Hc). subst sm. eauto.
Qed.

Lemma init_reach nt nc : reach (init_state nt nc).
Proof. apply reach_init. exists nt, nc. reflexivity. Qed.

(* ---------- observations ---------- *)
Definition main_of (s : state) (t : nat) : option pc := option_map main (get_thread s t).
Definition cb_entry (s : state) (w i : nat) : option cbpc :=
  match get_thread s w with Some th => nth_error (cbs th) i | None => None end.

(** the step enqueues [w] on queue [q] in a callback that will go on to unlock the mutex *)
Definition is_enq (w : nat) (q : qid) (e : estep) : Prop :=
  exists i, snd e = (w, ECbTick i) /\ cb_entry (fst e) w i = Some (CbEnq q true).

(** the unlock micro-step [u] clears the mutex's lock bit in state [s] *)
Definition clears (s : state) (u : upc) : bool :=
  match u with UCas1 _ _ => mword s =? 1 | UClear _ _ => true | _ => false end.

(** a callback of [w] clears the lock bit (on [w]'s behalf) *)
Definition is_release (w : nat) (e : estep) : Prop :=
  exists i u, snd e = (w, ECbTick i) /\ cb_entry (fst e) w i = Some (CbUnl u) /\
              clears (fst e) u = true.

Definition is_call (w : nat) (e : estep) : Prop := exists o, snd e = (w, ECall o).

(** a signal / broadcast step of thread [a] takes [x] from the head of condition queue [c] *)
Definition is_deq_by (a c x : nat) (e : estep) : Prop :=
  exists k r, snd e = (a, ETick) /\ main_of (fst e) a = Some (SigDeq c k) /\
              getq (fst e) (QC c) = x :: r.
Definition is_deq (c x : nat) (e : estep) : Prop := exists a, is_deq_by a c x e.

(** thread [a]'s push step that wakes [x] *)
Definition is_push_by (a c x : nat) (e : estep) : Prop :=
  exists k, snd e = (a, ETick) /\ main_of (fst e) a = Some (SigPush c k x).

(** nothing in between belongs to a new call or a new cond-wait enqueue of [w] *)
Definition quiet (w : nat) (e : estep) : Prop :=
  ~ is_call w e /\ forall q, ~ is_enq w q e.

(* ---------- how a condition queue evolves ---------- *)
Lemma length_cqs_setq s q l : length (cqs (setq s q l)) = length (cqs s).
Proof. destruct q; cbn [setq cqs]; auto. apply upd_length. Qed.

Lemma getq_setq_QC_eq s c l : (c < length (cqs s))%nat -> getq (setq s (QC c) l) (QC c) = l.
Proof. intros H. cbn [getq setq cqs]. apply nth_upd_eq. exact H. Qed.

Lemma getq_setq_QC_neq s c c' l : c <> c' -> getq (setq s (QC c) l) (QC c') = getq s (QC c').
Proof. intros H. cbn [getq setq cqs]. apply nth_upd_neq. exact H. Qed.

Lemma getq_setq_QM_QC s l c : getq (setq s QM l) (QC c) = getq s (QC c).
Proof. reflexivity. Qed.

Lemma ustep_cq s t u s1 r c :
  ustep s t u = Some (s1, r) -> getq s1 (QC c) = getq s (QC c) /\ length (cqs s1) = length (cqs s).
Proof.
  intros Hu. destruct u as [nf|nf w|nf w|nf|nf y|nf y]; cbn [ustep] in Hu.
  - repeat break_match_hyp Hu; ufin Hu; auto.
  - break_match_hyp Hu; ufin Hu; auto. unfold clear_own.
    destruct (get_thread (set_mword s 0) t); auto.
  - break_match_hyp Hu; ufin Hu; auto.
  - destruct (mq s) as [|z q] eqn:Hq; ufin Hu; auto.
  - ufin Hu. unfold clear_own. destruct (get_thread (set_mword s (mword s - 1)) t); auto.
  - destruct (wake s y) as [s2|] eqn:Hw; [|discriminate]. ufin Hu.
    apply wake_spec in Hw. destruct Hw as (thx & k & Hx & Hm & ->). auto.
Qed.

Lemma wake_cq s y s1 c :
  wake s y = Some s1 -> getq s1 (QC c) = getq s (QC c) /\ length (cqs s1) = length (cqs s).
Proof.
  intros Hw. apply wake_spec in Hw. destruct Hw as (thx & k & Hx & Hm & ->). auto.
Qed.

(** the three ways a step relates to condition queue [c] *)
Inductive cq_change (c : nat) (s : state) (a : actor) (s' : state) : Prop :=
| cq_same : getq s' (QC c) = getq s (QC c) ->
            (forall x, ~ is_deq c x (s, a)) ->
            (forall unl t i, a = (t, ECbTick i) -> cb_entry s t i = Some (CbEnq (QC c) unl) ->
                             (length (cqs s) <= c)%nat) ->
            cq_change c s a s'
| cq_enq t i unl : a = (t, ECbTick i) -> cb_entry s t i = Some (CbEnq (QC c) unl) ->
            (c < length (cqs s))%nat ->
            getq s' (QC c) = getq s (QC c) ++ [t] -> cq_change c s a s'
| cq_deq t k x r : a = (t, ETick) -> main_of s t = Some (SigDeq c k) ->
            getq s (QC c) = x :: r -> getq s' (QC c) = r -> cq_change c s a s'.

Lemma main_of_at s t th : get_thread s t = Some th -> main_of s t = Some (main th).
Proof. intros H. unfold main_of. rewrite H. reflexivity. Qed.
Lemma cb_entry_at s t th i : get_thread s t = Some th -> cb_entry s t i = nth_error (cbs th) i.
Proof. intros H. unfold cb_entry. rewrite H. reflexivity. Qed.

(* the actor's pc / callback entry contradicts the event predicate *)
Ltac not_deq :=
  let x := fresh "x" in let a0 := fresh "a0" in let k0 := fresh "k0" in let r0 := fresh "r0" in
  let Ea := fresh "Ea" in let Em := fresh "Em" in let Eq := fresh "Eq" in
  intros x (a0 & k0 & r0 & Ea & Em & Eq); cbn [fst snd] in *;
  try discriminate Ea;
  try (apply pair_equal_spec in Ea; destruct Ea as [<- _];
       match goal with H : get_thread ?s ?t = Some ?th |- _ =>
         rewrite (main_of_at _ _ _ H) in Em end;
       congruence).

Ltac not_enq :=
  let unl := fresh "unl" in let t' := fresh "t'" in let i' := fresh "i'" in
  let Ea := fresh "Ea" in let Ec := fresh "Ec" in
  intros unl t' i' Ea Ec; try discriminate Ea;
  try (apply pair_equal_spec in Ea; destruct Ea as [<- Ei];
       apply (f_equal (fun e => match e with ECbTick i => i | _ => O end)) in Ei; cbn in Ei; subst i';
       match goal with H : get_thread ?s ?t = Some ?th |- _ =>
         rewrite (cb_entry_at _ _ _ _ H) in Ec end;
       congruence).

Ltac cq_same_tac :=
  apply cq_same;
  [ rewrite ?getq_set_thread, ?getq_set_mword, ?getq_set_festat; reflexivity | not_deq | not_enq ].

Lemma enq_cq c s t i q unl th X :
  get_thread s t = Some th -> nth_error (cbs th) i = Some (CbEnq q unl) ->
  cq_change c s (t, ECbTick i) (set_thread (setq s q (getq s q ++ [t])) t X).
Proof.
  intros Ht Hn. destruct q as [|c0].
  - apply cq_same; [ rewrite getq_set_thread; reflexivity | not_deq | not_enq ].
  - destruct (Nat.eq_dec c0 c) as [->|Nc].
    + destruct (le_lt_dec (length (cqs s)) c) as [Hle|Hlt].
      * apply cq_same; [ | not_deq | intros; exact Hle ].
        rewrite getq_set_thread. cbn [getq setq cqs]. rewrite nth_upd_out by exact Hle. reflexivity.
      * apply (cq_enq c s _ _ t i unl); auto.
        -- rewrite (cb_entry_at _ _ _ _ Ht). exact Hn.
        -- rewrite getq_set_thread. apply getq_setq_QC_eq. exact Hlt.
    + apply cq_same; [ rewrite getq_set_thread; apply getq_setq_QC_neq; exact Nc | not_deq | not_enq ].
Qed.

Lemma step_cq c s a s' :
  step s a = Some s' -> cq_change c s a s' /\ length (cqs s') = length (cqs s).
Proof.
  intros Hs. destruct a as [t e]. destruct e.
  - step_inv' Hs. all: fin Hs. all: split; [cq_same_tac | reflexivity].
  - step_inv' Hs. all: fin Hs.
    all: try (split; [cq_same_tac | reflexivity]).
    all: try match goal with Hu : ustep _ _ _ = Some (_, _) |- _ =>
           destruct (ustep_cq _ _ _ _ _ c Hu) as [Hq Hl] end.
    all: try match goal with Hw : wake _ _ = Some _ |- _ =>
           destruct (wake_cq _ _ _ c Hw) as [Hq Hl] end.
    all: try (split; [ apply cq_same; [rewrite getq_set_thread; exact Hq | not_deq | not_enq]
                     | cbn [cqs set_thread set_thr]; exact Hl ]).
    (* SigDeq on a non-empty queue *)
    split; [| rewrite cqs_set_thread; apply length_cqs_setq ].
    destruct (Nat.eq_dec c0 c) as [->|Nc].
    + apply (cq_deq c s (t, ETick) _ t k n l); auto.
      * rewrite (main_of_at _ _ _ Heqo). congruence.
      * rewrite getq_set_thread. apply getq_setq_QC_eq.
        destruct (le_lt_dec (length (cqs s)) c) as [Hle|Hlt]; auto.
        cbn [getq] in Heql. rewrite nth_overflow in Heql by exact Hle. discriminate.
    + apply cq_same; [ rewrite getq_set_thread; apply getq_setq_QC_neq; exact Nc | | not_enq ].
      intros x (a0 & k0 & r0 & Ea & Em & Eq); cbn [fst snd] in *.
      apply pair_equal_spec in Ea; destruct Ea as [<- _].
      rewrite (main_of_at _ _ _ Heqo) in Em. congruence.
  - step_inv' Hs. all: fin Hs.
    all: try match goal with Hu : ustep _ _ _ = Some (_, _) |- _ =>
           destruct (ustep_cq _ _ _ _ _ c Hu) as [Hq Hl] end.
    all: try (split; [ apply cq_same; [rewrite getq_set_thread; exact Hq | not_deq | not_enq]
                     | cbn [cqs set_thread set_thr]; exact Hl ]).
    all: split; [ eapply enq_cq; eauto | rewrite cqs_set_thread; apply length_cqs_setq ].
  - step_inv' Hs. fin Hs. split; [cq_same_tac | reflexivity].
Qed.

(* ---------- membership and FIFO along a run ---------- *)
Lemma length_cqs_exec s tr s' : exec s tr s' -> length (cqs s') = length (cqs s).
Proof.
  intros H. induction H as [s|s a s1 tr s2 Hs H IH]; auto.
  rewrite IH. apply (step_cq 0 _ _ _ Hs).
Qed.

(** an enqueue step with [unl = true] on an existing condition variable appends the thread *)
Lemma enq_exact s a s' w c :
  step s a = Some s' -> is_enq w (QC c) (s, a) -> (c < length (cqs s))%nat ->
  getq s' (QC c) = getq s (QC c) ++ [w].
Proof.
  intros Hs (i & Ea & Ec) Hc. cbn [fst snd] in *. subst a.
  destruct (step_cq c _ _ _ Hs) as [[Hq Hd He|t j unl Ea Ee Hlt Hq|t k x r Ea Em Hq Hq'] _].
  - specialize (He _ _ _ eq_refl Ec). lia.
  - apply pair_equal_spec in Ea. destruct Ea as [<- _]. exact Hq.
  - discriminate Ea.
Qed.

Lemma member_step s a s' w c :
  step s a = Some s' -> In w (getq s (QC c)) -> ~ is_deq c w (s, a) -> In w (getq s' (QC c)).
Proof.
  intros Hs Hin Hnd.
  destruct (step_cq c _ _ _ Hs) as [[Hq Hd He|t j unl Ea Ee Hlt Hq|t k x r Ea Em Hq Hq'] _].
  - rewrite Hq. exact Hin.
  - rewrite Hq. apply in_or_app. left. exact Hin.
  - rewrite Hq'. rewrite Hq in Hin. destruct Hin as [->|Hin]; auto.
    exfalso. apply Hnd. exists t, k, r. cbn [fst snd]. auto.
Qed.

Lemma member_along s tr s' w c :
  exec s tr s' -> In w (getq s (QC c)) -> Forall (fun y => ~ is_deq c w y) tr ->
  Forall (fun y => In w (getq (fst y) (QC c))) tr /\ In w (getq s' (QC c)).
Proof.
  intros H. induction H as [s|s a s1 tr s2 Hs H IH]; intros Hin Hf.
  - split; [constructor | exact Hin].
  - inversion Hf as [|y l Hy Hl]; subst.
    destruct (IH (member_step _ _ _ _ _ Hs Hin Hy) Hl) as [A B].
    split; [constructor; [exact Hin | exact A] | exact B].
Qed.

(** FIFO: while [w] stays in the queue, every dequeue takes a thread that was ahead of it *)
Lemma fifo_along s tr s' w c : exec s tr s' -> forall front back,
  getq s (QC c) = front ++ w :: back -> Forall (fun y => ~ is_deq c w y) tr ->
  (forall d x, In d tr -> is_deq c x d -> In x front) /\
  exists p front' back', front = p ++ front' /\ getq s' (QC c) = front' ++ w :: back'.
Proof.
  intros H. induction H as [s|s a s1 tr s2 Hs H IH]; intros front back Hq Hf.
  - split; [intros d x []|]. exists [], front, back. auto.
  - inversion Hf as [|y l Hy Hl]; subst.
    destruct (step_cq c _ _ _ Hs) as [[Hq1 Hd He|t j unl Ea Ee Hlt Hq1|t k x r Ea Em Hq0 Hq1] _].
    + rewrite Hq in Hq1. destruct (IH _ _ Hq1 Hl) as [A B]. split; [|exact B].
      intros d x [<-|Hin] Hdq; [exfalso; eapply Hd; eauto | eapply A; eauto].
    + rewrite Hq in Hq1. rewrite <- app_assoc in Hq1. cbn [app] in Hq1.
      destruct (IH _ _ Hq1 Hl) as [A B]. split; [|exact B].
      intros d x [<-|Hin] Hdq; [|eapply A; eauto].
      destruct Hdq as (a0 & k0 & r0 & Ea0 & _). cbn [snd] in Ea0. congruence.
    + rewrite Hq in Hq0. destruct front as [|f front'].
      * cbn [app] in Hq0, Hq. injection Hq0 as E1 E2. subst x.
        exfalso. apply Hy. exists t, k, back. cbn [fst snd]. auto.
      * cbn [app] in Hq0. injection Hq0 as E1 E2. subst f. rewrite <- E2 in Hq1.
        destruct (IH _ _ Hq1 Hl) as [A (p & f2 & b2 & Ep & Eq)]. split.
        -- intros d x0 [<-|Hin] Hdq.
           ++ destruct Hdq as (a0 & k0 & r0 & _ & _ & Eq0). cbn [fst] in Eq0.
              rewrite Hq in Eq0. cbn [app] in Eq0. inversion Eq0. left. reflexivity.
           ++ right. eapply A; eauto.
        -- exists (x :: p), f2, b2. split; [cbn [app]; congruence | exact Eq].
Qed.

(* ---------- who can change a thread's main pc ---------- *)
Lemma main_of_set_thread_neq s t x a : t <> a -> main_of (set_thread s t x) a = main_of s a.
Proof. intros N. unfold main_of. rewrite get_set_thread_neq by exact N. reflexivity. Qed.
Lemma main_of_set_thread_eq s t x th :
  get_thread s t = Some th -> main_of (set_thread s t x) t = Some (main x).
Proof. intros H. unfold main_of. rewrite (get_set_thread_eq _ _ _ _ H). reflexivity. Qed.

Lemma main_of_set_thread_cbs s t th c a :
  get_thread s t = Some th -> main_of (set_thread s t (set_cbs th c)) a = main_of s a.
Proof.
  intros H. destruct (Nat.eq_dec t a) as [->|N].
  - rewrite (main_of_set_thread_eq _ _ _ _ H). rewrite (main_of_at _ _ _ H). reflexivity.
  - apply main_of_set_thread_neq. exact N.
Qed.

Lemma wake_main_other s y s1 a p :
  wake s y = Some s1 -> main_of s a = Some p -> (forall k, p <> Susp k) -> main_of s1 a = Some p.
Proof.
  intros Hw Hm Hn. apply wake_spec in Hw. destruct Hw as (thx & k & Hx & Hmx & ->).
  destruct (Nat.eq_dec y a) as [->|N].
  - rewrite (main_of_at _ _ _ Hx) in Hm. exfalso. apply (Hn k). congruence.
  - rewrite main_of_set_thread_neq by exact N. exact Hm.
Qed.

Lemma main_of_clear_own s t a : main_of (clear_own s t) a = main_of s a.
Proof.
  unfold clear_own. destruct (get_thread s t) as [th|] eqn:E; auto.
  destruct (Nat.eq_dec t a) as [->|N].
  - rewrite (main_of_set_thread_eq _ _ _ _ E), (main_of_at _ _ _ E). reflexivity.
  - apply main_of_set_thread_neq. exact N.
Qed.

Lemma ustep_main_other s t u s1 r a p :
  ustep s t u = Some (s1, r) -> main_of s a = Some p -> (forall k, p <> Susp k) ->
  main_of s1 a = Some p.
Proof.
  intros Hu Hm Hn. destruct u as [nf|nf w|nf w|nf|nf y|nf y]; cbn [ustep] in Hu.
  - repeat break_match_hyp Hu; ufin Hu; auto.
  - break_match_hyp Hu; ufin Hu; auto. rewrite main_of_clear_own. exact Hm.
  - break_match_hyp Hu; ufin Hu; auto.
  - destruct (mq s) as [|z q] eqn:Hq; ufin Hu; auto.
  - ufin Hu. rewrite main_of_clear_own. exact Hm.
  - destruct (wake s y) as [s2|] eqn:Hw; [|discriminate]. ufin Hu.
    eapply wake_main_other; eauto.
Qed.

(** a thread's main pc changes only by its own Call / Tick / Ret, or by being woken *)
Lemma step_main_other s t e s' a p :
  step s (t, e) = Some s' -> main_of s a = Some p -> (forall k, p <> Susp k) ->
  (a <> t \/ exists i, e = ECbTick i) -> main_of s' a = Some p.
Proof.
  intros Hs Hm Hn Hc. destruct e.
  - destruct Hc as [N|(i & Ei)]; [|discriminate]. step_inv' Hs. all: fin Hs.
    all: rewrite main_of_set_thread_neq by congruence; exact Hm.
  - destruct Hc as [N|(i & Ei)]; [|discriminate]. step_inv' Hs. all: fin Hs.
    all: rewrite main_of_set_thread_neq by congruence.
    all: try exact Hm.
    all: try (eapply ustep_main_other; eauto; fail).
    all: try (eapply wake_main_other; eauto; fail).

  - step_inv' Hs. all: fin Hs.
    all: try match goal with Hu : ustep _ _ _ = _ |- _ =>
           pose proof (ustep_main_other _ _ _ _ _ _ _ Hu Hm Hn) as Hm1 end.
    all: try match goal with
         | H : get_thread ?s0 ?t = Some ?th |- main_of (set_thread ?s0 ?t (set_cbs ?th _)) _ = _ =>
             rewrite (main_of_set_thread_cbs _ _ _ _ _ H); exact Hm1
         end.
    all: destruct q;
      match goal with
      | H : get_thread ?s ?t = Some ?th |- main_of (set_thread ?s0 ?t (set_cbs ?th _)) _ = _ =>
          rewrite (main_of_set_thread_cbs s0 t th _ _ H); exact Hm
      end.
  - destruct Hc as [N|(i & Ei)]; [|discriminate]. step_inv' Hs. fin Hs.
    rewrite main_of_set_thread_neq by congruence; exact Hm.
Qed.

(** pcs inside an operation that are neither suspended nor waiting for Ret *)
Definition busy (p : pc) : bool :=
  match p with Idle | Done _ | TryBusy | Susp _ => false | _ => true end.

Lemma step_main_stable s b s' a p :
  step s b = Some s' -> main_of s a = Some p -> busy p = true -> b <> (a, ETick) ->
  main_of s' a = Some p.
Proof.
  intros Hs Hm Hb Hne. destruct b as [t e].
  assert (Hn : forall k, p <> Susp k) by (intros k ->; discriminate).
  destruct (Nat.eq_dec a t) as [->|N]; [|eapply step_main_other; eauto].
  destruct e.
  - exfalso. step_inv' Hs.
    all: match goal with H : get_thread _ _ = Some ?th, Hp : main ?th = Idle |- _ =>
           rewrite (main_of_at _ _ _ H) in Hm; inversion Hm; subst p;
           rewrite Hp in Hb; discriminate end.
  - congruence.
  - eapply step_main_other; eauto.
  - exfalso. step_inv' Hs. unfold ret_ok in Heqb. rewrite Heqo in Heqb.
    rewrite (main_of_at _ _ _ Heqo) in Hm. inversion Hm; subst p.
    destruct (main t0); discriminate.
Qed.
