(** C04 - mutex: the inductive invariant of Abs(mutex, conds, felock) (Sync/SyncModel.v) and its
    consequences: lock bit = number of owners <= 1, seat accounting, sleep-queue
    well-formedness (no resume before save), no lost wake-up, non-blocking trylock.

    Everything is proved for every number of threads / condition variables and every schedule
    of the unrestricted [SyncModel.step] (all operations: lock, trylock, timedlock, unlock,
    cond wait / signal / broadcast, felock operations), including several callbacks of one
    thread in flight at the same time.  No new behaviour is defined here: only measures of
    states (sums over the thread list) and the invariant. *)
From Coq Require Import ZArith List Bool Lia Arith.
From MT Require Import Lib.Interleave Sync.SyncModel.
Import ListNotations.
Local Open Scope nat_scope.

(* ------------------------------------------------------------------------------------ *)
(** * Sums over lists under [upd] / [remove_nth] / [app] *)

Fixpoint sumf {A} (f : A -> nat) (l : list A) : nat :=
  match l with [] => 0 | x :: r => f x + sumf f r end.

Lemma sumf_app {A} (f : A -> nat) l1 l2 : sumf f (l1 ++ l2) = sumf f l1 + sumf f l2.
Proof. induction l1 as [|x r IH]; cbn [sumf app]; lia. Qed.

Lemma sumf_upd {A} (f : A -> nat) l i a b :
  nth_error l i = Some a -> sumf f (upd l i b) + f a = sumf f l + f b.
Proof.
  revert i; induction l as [|x r IH]; intros [|i] H; cbn in H; try discriminate.
  - injection H as ->. cbn [upd sumf]. lia.
  - cbn [upd sumf]. specialize (IH i H). lia.
Qed.

Lemma sumf_remove {A} (f : A -> nat) l i a :
  nth_error l i = Some a -> sumf f (remove_nth l i) + f a = sumf f l.
Proof.
  revert i; induction l as [|x r IH]; intros [|i] H; cbn in H; try discriminate.
  - injection H as ->. cbn [remove_nth sumf]. lia.
  - cbn [remove_nth sumf]. specialize (IH i H). lia.
Qed.

Lemma sumf_ge {A} (f : A -> nat) l i a : nth_error l i = Some a -> f a <= sumf f l.
Proof.
  revert i; induction l as [|x r IH]; intros [|i] H; cbn in H; try discriminate.
  - injection H as ->. cbn [sumf]. lia.
  - cbn [sumf]. specialize (IH i H). lia.
Qed.

Lemma sumf_ge2 {A} (f : A -> nat) l i j a b :
  i <> j -> nth_error l i = Some a -> nth_error l j = Some b -> f a + f b <= sumf f l.
Proof.
  revert i j; induction l as [|x r IH]; intros [|i] [|j] Hij Hi Hj; cbn in Hi, Hj;
    try discriminate; try congruence; cbn [sumf].
  - injection Hi as ->. pose proof (sumf_ge f r j b Hj). lia.
  - injection Hj as ->. pose proof (sumf_ge f r i a Hi). lia.
  - assert (i <> j) by congruence. specialize (IH i j H Hi Hj). lia.
Qed.

Lemma sumf_pos {A} (f : A -> nat) l : 1 <= sumf f l -> exists i a, nth_error l i = Some a /\ 1 <= f a.
Proof.
  induction l as [|x r IH]; cbn [sumf]; intros H; [lia|].
  destruct (f x) as [|n] eqn:E.
  - destruct (IH ltac:(lia)) as (i & a & Hi & Ha). exists (S i), a. auto.
  - exists 0, x. cbn. split; [reflexivity | lia].
Qed.

Lemma sumf_le {A} (f g : A -> nat) l :
  (forall i a, nth_error l i = Some a -> f a <= g a) -> sumf f l <= sumf g l.
Proof.
  induction l as [|x r IH]; intros H; cbn [sumf]; [lia|].
  pose proof (H 0 x eq_refl). assert (sumf f r <= sumf g r).
  { apply IH. intros i a Hi. apply (H (S i) a Hi). }
  lia.
Qed.

(** pointwise <= with the slack of one index made explicit *)
Lemma sumf_le_at {A} (f g : A -> nat) l i a :
  (forall j b, nth_error l j = Some b -> f b <= g b) ->
  nth_error l i = Some a -> sumf f l + g a <= sumf g l + f a.
Proof.
  revert i; induction l as [|x r IH]; intros [|i] H Hi; cbn in Hi; try discriminate; cbn [sumf].
  - injection Hi as ->.
    assert (sumf f r <= sumf g r) by (apply sumf_le; intros j b Hj; apply (H (S j) b Hj)). lia.
  - pose proof (H 0 x eq_refl).
    assert (sumf f r + g a <= sumf g r + f a) by (apply (IH i); [intros j b Hj; apply (H (S j) b Hj) | exact Hi]).
    lia.
Qed.

Lemma sumf_repeat0 {A} (f : A -> nat) x n : f x = 0 -> sumf f (repeat x n) = 0.
Proof. intros H; induction n as [|n IH]; cbn [repeat sumf]; lia. Qed.

Lemma sumf_filter_length {A} (p : A -> bool) l : length (filter p l) = sumf (fun x => Nat.b2n (p x)) l.
Proof.
  induction l as [|x r IH]; cbn [filter sumf length]; [reflexivity|].
  destruct (p x); cbn [length Nat.b2n]; lia.
Qed.

Lemma sumf_length {A} (l : list A) : length l = sumf (fun _ => 1) l.
Proof. induction l as [|x r IH]; cbn [sumf length]; lia. Qed.

(* ---- upd / nth_error ---- *)
Lemma nth_error_upd_eq {A} (l : list A) i x y : nth_error l i = Some y -> nth_error (upd l i x) i = Some x.
Proof. revert i; induction l as [|z r IH]; intros [|i] H; cbn in *; try discriminate; auto. Qed.

Lemma nth_error_upd_neq {A} (l : list A) i j x : i <> j -> nth_error (upd l i x) j = nth_error l j.
Proof. revert i j; induction l as [|z r IH]; intros [|i] [|j] H; cbn; auto; try congruence. Qed.

Lemma upd_none {A} (l : list A) i x : nth_error l i = None -> upd l i x = l.
Proof.
  revert i; induction l as [|z r IH]; intros [|i] H; cbn in *; try discriminate; auto.
  f_equal; auto.
Qed.

Lemma upd_upd {A} (l : list A) i x y : upd (upd l i x) i y = upd l i y.
Proof. revert i; induction l as [|z r IH]; intros [|i]; cbn; auto. f_equal; auto. Qed.

Lemma nth_nth_error {A} (l : list A) i d : nth i l d = match nth_error l i with Some x => x | None => d end.
Proof. revert i; induction l as [|z r IH]; intros [|i]; cbn; auto. Qed.

(** occurrences of [y] in a list of thread numbers *)
Definition cnt (y : nat) (l : list nat) : nat := sumf (fun x => Nat.b2n (x =? y)) l.

Lemma cnt_app y l1 l2 : cnt y (l1 ++ l2) = cnt y l1 + cnt y l2.
Proof. apply sumf_app. Qed.

Lemma cnt_cons y x l : cnt y (x :: l) = Nat.b2n (x =? y) + cnt y l.
Proof. reflexivity. Qed.

Lemma cnt_in y l : In y l -> 1 <= cnt y l.
Proof.
  induction l as [|x r IH]; cbn [In]; intros H; [contradiction|]. rewrite cnt_cons.
  destruct H as [->|H]; [rewrite Nat.eqb_refl; cbn; lia | specialize (IH H); lia].
Qed.

Lemma cnt_nodup l : (forall y, cnt y l <= 1) -> NoDup l.
Proof.
  induction l as [|x r IH]; intros H; constructor.
  - intros Hin. pose proof (cnt_in x r Hin). specialize (H x). rewrite cnt_cons, Nat.eqb_refl in H. cbn in H. lia.
  - apply IH. intros y. specialize (H y). rewrite cnt_cons in H. lia.
Qed.

(* ------------------------------------------------------------------------------------ *)
(** * Measures of activities, threads and states *)

Definition uP (u : upc) : nat := match u with UPush _ _ => 0 | _ => 1 end.          (* before the clearing step *)
Definition uD (u : upc) : nat := match u with UDeq _ => 1 | _ => 0 end.              (* did -2, not yet dequeued *)
Definition uN (u : upc) : nat := match u with UClear _ _ | UPush _ _ => 1 | _ => 0 end.   (* holds a thread in hand *)
Definition uX (y : nat) (u : upc) : nat :=
  match u with UClear _ x | UPush _ x => Nat.b2n (x =? y) | _ => 0 end.
Definition uBad (u : upc) : nat := match u with UCas2 _ w => if (w >? 1)%Z then 0 else 1 | _ => 0 end.

Definition eR (c : cbpc) : nat := match c with CbEnq QM _ => 1 | _ => 0 end.         (* seat reserved, not yet enqueued *)
Definition eE (c : cbpc) : nat := match c with CbEnq _ _ => 1 | _ => 0 end.
Definition eP (c : cbpc) : nat := match c with CbEnq _ unl => Nat.b2n unl | CbUnl u => uP u end.
Definition eD (c : cbpc) : nat := match c with CbUnl u => uD u | _ => 0 end.
Definition eN (c : cbpc) : nat := match c with CbUnl u => uN u | _ => 0 end.
Definition eX (y : nat) (c : cbpc) : nat := match c with CbUnl u => uX y u | _ => 0 end.
Definition eBad (c : cbpc) : nat := match c with CbUnl u => uBad u | _ => 0 end.

Definition mP (p : pc) : nat :=
  match p with
  | Unl u => uP u
  | FeRead _ | FeWrite _ | SigDeq _ ASUnlock | SigPush _ ASUnlock _ => 1
  | _ => 0
  end.
Definition mD (p : pc) : nat := match p with Unl u => uD u | _ => 0 end.
Definition mN (p : pc) : nat := match p with Unl u => uN u | _ => 0 end.
Definition mX (y : nat) (p : pc) : nat :=
  match p with Unl u => uX y u | SigPush _ _ x => Nat.b2n (x =? y) | _ => 0 end.
Definition mL (p : pc) : nat := match p with LockRead _ | LockCas1 _ _ | LockCas2 _ _ => 1 | _ => 0 end.
Definition lockish (p : pc) : bool :=
  match p with Susp _ | LockRead _ | LockCas1 _ _ | LockCas2 _ _ => true | _ => false end.
Definition is_susp (p : pc) : bool := match p with Susp _ => true | _ => false end.

Definition hO (th : thread) : nat := Nat.b2n (own th).
Definition hR (th : thread) : nat := sumf eR (cbs th).
Definition hE (th : thread) : nat := sumf eE (cbs th).
Definition hPc (th : thread) : nat := sumf eP (cbs th).
Definition hP (th : thread) : nat := mP (main th) + hPc th.
Definition hD (th : thread) : nat := mD (main th) + sumf eD (cbs th).
Definition hN (th : thread) : nat := mN (main th) + sumf eN (cbs th).
Definition hX (y : nat) (th : thread) : nat := mX y (main th) + sumf (eX y) (cbs th).
Definition hL (th : thread) : nat := mL (main th).
Definition hBad (th : thread) : nat := sumf eBad (cbs th).
(** parked: context saved and no enqueue callback pending (so it may be in a queue / in hand) *)
Definition pk (th : thread) : nat := if is_susp (main th) then 1 - hE th else 0.

Definition SH (s : state) : nat := sumf hO (thr s).     (* owners *)
Definition SR (s : state) : nat := sumf hR (thr s).     (* reserved seats *)
Definition SD (s : state) : nat := sumf hD (thr s).     (* unlockers spinning for a sleeper *)
Definition SN (s : state) : nat := sumf hN (thr s).     (* threads in an unlocker's hand *)
Definition SL (s : state) : nat := sumf hL (thr s).     (* awake threads at the read/CAS points of lock *)
Definition SX (s : state) (y : nat) : nat := sumf (hX y) (thr s).
Definition occ (s : state) (y : nat) : nat := cnt y (mq s) + sumf (cnt y) (cqs s) + SX s y.
Definition pk_at (l : list thread) (y : nat) : nat :=
  match nth_error l y with Some th => pk th | None => 0 end.

Definition pc_ok (p : pc) : Prop :=
  match p with
  | LockCas1 _ w | TryCas _ w => Z.even w = true
  | LockCas2 _ w => Z.odd w = true
  | Unl u => uBad u = 0
  | _ => True
  end.

(** thread-local part of the invariant *)
Definition twf (th : thread) : Prop :=
  hP th <= hO th /\ (1 <= hPc th -> lockish (main th) = true) /\
  hE th <= 1 /\ (is_susp (main th) = false -> hE th = 0) /\
  pc_ok (main th) /\ hBad th = 0.

Record Inv (s : state) : Prop := {
  inv_twf : forall t th, nth_error (thr s) t = Some th -> twf th;
  inv_nonneg : (0 <= mword s)%Z;
  inv_seats : (mword s + 2 * Z.of_nat (SD s) = 2 * Z.of_nat (SR s + length (mq s)) + Z.of_nat (SH s))%Z;
  inv_excl : SH s <= 1;
  inv_occ : forall y, occ s y <= pk_at (thr s) y;
  inv_wake : SR s + length (mq s) = 0 \/ 1 <= SH s + SN s + SL s
}.

Definition init (s : state) : Prop := exists nt nc, s = init_state nt nc.
Definition actor := (nat * ev)%type.
Definition reach : state -> Prop := reachable init step.

Lemma sumf_repeat_nil y n : sumf (cnt y) (repeat [] n) = 0.
Proof. apply sumf_repeat0. reflexivity. Qed.

Lemma nth_error_repeat {A} (x : A) n i a : nth_error (repeat x n) i = Some a -> a = x.
Proof.
  revert i; induction n as [|n IH]; intros [|i] H; cbn in H; try discriminate.
  - congruence.
  - eauto.
Qed.

Lemma inv_init s : init s -> Inv s.
Proof.
  intros (nt & nc & ->). unfold init_state.
  constructor; unfold SH, SR, SD, SN, SL, occ, SX; cbn [thr mq cqs mword length].
  - intros t th H. apply nth_error_repeat in H. subst th. unfold twf, thread0; cbn.
    repeat split; auto; lia.
  - lia.
  - rewrite !sumf_repeat0 by reflexivity. cbn. lia.
  - rewrite sumf_repeat0 by reflexivity. lia.
  - intros y. rewrite sumf_repeat_nil. rewrite sumf_repeat0 by reflexivity. cbn. lia.
  - left. rewrite sumf_repeat0 by reflexivity. reflexivity.
Qed.

(* ------------------------------------------------------------------------------------ *)
(** * Frame lemmas: how one step changes the measures *)

Lemma pk_at_upd l t th th' y :
  nth_error l t = Some th -> pk_at (upd l t th') y = if y =? t then pk th' else pk_at l y.
Proof.
  intros H. unfold pk_at. destruct (Nat.eqb_spec y t) as [->|Hne].
  - rewrite (nth_error_upd_eq l t th' th H). reflexivity.
  - rewrite nth_error_upd_neq by congruence. reflexivity.
Qed.

Lemma pk_at_here l t th : nth_error l t = Some th -> pk_at l t = pk th.
Proof. intros H. unfold pk_at. rewrite H. reflexivity. Qed.

Lemma eD_le_eP c : eD c <= eP c.
Proof. destruct c as [q u|u]; cbn; [lia|]. destruct u; cbn; lia. Qed.

Lemma hD_le_hP th : hD th <= hP th.
Proof.
  unfold hD, hP, hPc.
  assert (sumf eD (cbs th) <= sumf eP (cbs th)) by (apply sumf_le; intros; apply eD_le_eP).
  assert (mD (main th) <= mP (main th)).
  { destruct (main th) as [| | | | | | | |u| | | | |]; cbn; try lia. destruct u; cbn; lia. }
  lia.
Qed.

Lemma twf_hD_le_hO th : twf th -> hD th <= hO th.
Proof. intros (H & _). pose proof (hD_le_hP th). lia. Qed.

(** all threads but [t] contribute no spinning unlocker when [t] owns *)
Lemma SD_slack s t th : Inv s -> nth_error (thr s) t = Some th -> SD s + hO th <= SH s + hD th.
Proof.
  intros I H. unfold SD, SH. apply sumf_le_at with (i := t); [|exact H].
  intros j b Hj. apply twf_hD_le_hO. eapply inv_twf; eauto.
Qed.

Lemma hO_le_SH s t th : nth_error (thr s) t = Some th -> hO th <= SH s.
Proof. intros H. unfold SH. eapply sumf_ge; eauto. Qed.

(** one thread [t] is replaced and the shared words change *)
Lemma inv_update s t th w q cq fe th' :
  Inv s -> nth_error (thr s) t = Some th -> twf th' -> (0 <= w)%Z ->
  (forall D R H N L : nat,
      D + hD th = SD s + hD th' -> R + hR th = SR s + hR th' -> H + hO th = SH s + hO th' ->
      N + hN th = SN s + hN th' -> L + hL th = SL s + hL th' ->
      (w + 2 * Z.of_nat D = 2 * Z.of_nat (R + length q) + Z.of_nat H)%Z /\ H <= 1 /\
      (R + length q = 0 \/ 1 <= H + N + L)) ->
  (forall y X, X + hX y th = SX s y + hX y th' ->
      cnt y q + sumf (cnt y) cq + X <= if y =? t then pk th' else pk_at (thr s) y) ->
  Inv {| mword := w; mq := q; cqs := cq; festat := fe; thr := upd (thr s) t th' |}.
Proof.
  intros I Ht Hwf Hw Hnum Hocc.
  specialize (Hnum _ _ _ _ _ (sumf_upd hD _ _ _ th' Ht) (sumf_upd hR _ _ _ th' Ht) (sumf_upd hO _ _ _ th' Ht)
                    (sumf_upd hN _ _ _ th' Ht) (sumf_upd hL _ _ _ th' Ht)).
  destruct Hnum as (Hs & He & Hk).
  constructor; unfold SH, SR, SD, SN, SL, occ, SX; cbn [thr mq cqs mword].
  - intros j thj Hj. destruct (Nat.eq_dec t j) as [<-|Hne].
    + rewrite (nth_error_upd_eq _ _ th' th Ht) in Hj. injection Hj as <-. exact Hwf.
    + rewrite nth_error_upd_neq in Hj by exact Hne. eapply inv_twf; eauto.
  - exact Hw.
  - exact Hs.
  - exact He.
  - intros y. rewrite (pk_at_upd _ _ th th' y Ht). apply Hocc. apply (sumf_upd (hX y) _ _ _ th' Ht).
  - exact Hk.
Qed.

(** same, and a parked thread [x <> t] that [t] held in hand is made runnable *)
Lemma twf_wake thx k : twf thx -> main thx = Susp k -> hE thx = 0 -> twf (set_main thx (LockRead k)).
Proof.
  intros (H1 & H2 & H3 & H4 & H5 & H6) Hm HE. unfold twf, hP, hPc, hE, hO, hBad in *. cbn [main cbs own set_main].
  rewrite Hm in *. cbn in *. repeat split; auto.
Qed.

Lemma inv_update_wake s t th x thx k w q cq fe th' :
  Inv s -> nth_error (thr s) t = Some th -> x <> t -> nth_error (thr s) x = Some thx -> main thx = Susp k ->
  1 <= hX x th -> twf th' -> (0 <= w)%Z ->
  (forall D R H N L : nat,
      D + hD th = SD s + hD th' -> R + hR th = SR s + hR th' -> H + hO th = SH s + hO th' ->
      N + hN th = SN s + hN th' -> L + hL th = SL s + hL th' + 1 ->
      (w + 2 * Z.of_nat D = 2 * Z.of_nat (R + length q) + Z.of_nat H)%Z /\ H <= 1 /\
      (R + length q = 0 \/ 1 <= H + N + L)) ->
  (forall y X, X + hX y th = SX s y + hX y th' ->
      cnt y q + sumf (cnt y) cq + X <= if y =? t then pk th' else if y =? x then 0 else pk_at (thr s) y) ->
  Inv {| mword := w; mq := q; cqs := cq; festat := fe;
         thr := upd (upd (thr s) x (set_main thx (LockRead k))) t th' |}.
Proof.
  intros I Ht Hxt Hx Hm Hhand Hwf Hw Hnum Hocc.
  set (thx' := set_main thx (LockRead k)).
  assert (Ht1 : nth_error (upd (thr s) x thx') t = Some th) by (rewrite nth_error_upd_neq by exact Hxt; exact Ht).
  assert (HEx : hE thx = 0).
  { pose proof (inv_occ s I x) as Ho. rewrite (pk_at_here _ _ _ Hx) in Ho. unfold occ, SX in Ho.
    pose proof (sumf_ge (hX x) _ _ _ Ht). unfold pk in Ho. rewrite Hm in Ho. cbn [is_susp] in Ho. lia. }
  assert (Hsame : forall f : thread -> nat, (forall b, main b = Susp k -> f (set_main b (LockRead k)) = f b) ->
                  sumf f (upd (thr s) x thx') = sumf f (thr s)).
  { intros f Hf. pose proof (sumf_upd f _ _ _ thx' Hx) as E. unfold thx' in E at 2. rewrite (Hf thx Hm) in E. lia. }
  assert (ED : sumf hD (upd (thr s) x thx') = SD s) by (apply Hsame; intros b Hb; unfold hD; rewrite Hb; reflexivity).
  assert (ER : sumf hR (upd (thr s) x thx') = SR s) by (apply Hsame; intros b Hb; reflexivity).
  assert (EO : sumf hO (upd (thr s) x thx') = SH s) by (apply Hsame; intros b Hb; reflexivity).
  assert (EN : sumf hN (upd (thr s) x thx') = SN s) by (apply Hsame; intros b Hb; unfold hN; rewrite Hb; reflexivity).
  assert (EX : forall y, sumf (hX y) (upd (thr s) x thx') = SX s y)
    by (intros y; apply Hsame; intros b Hb; unfold hX; rewrite Hb; reflexivity).
  assert (EL : sumf hL (upd (thr s) x thx') = SL s + 1).
  { pose proof (sumf_upd hL _ _ _ thx' Hx) as E. assert (E1 : hL thx' = 1) by reflexivity.
    assert (E0 : hL thx = 0) by (unfold hL; rewrite Hm; reflexivity). unfold SL. lia. }
  pose proof (sumf_upd hD _ _ _ th' Ht1) as UD. pose proof (sumf_upd hR _ _ _ th' Ht1) as UR.
  pose proof (sumf_upd hO _ _ _ th' Ht1) as UO. pose proof (sumf_upd hN _ _ _ th' Ht1) as UN.
  pose proof (sumf_upd hL _ _ _ th' Ht1) as UL.
  rewrite ED in UD. rewrite ER in UR. rewrite EO in UO. rewrite EN in UN. rewrite EL in UL.
  assert (UL' : sumf hL (upd (upd (thr s) x thx') t th') + hL th = SL s + hL th' + 1) by lia.
  specialize (Hnum _ _ _ _ _ UD UR UO UN UL'). destruct Hnum as (Hs & He & Hk).
  constructor; unfold SH, SR, SD, SN, SL, occ, SX; cbn [thr mq cqs mword].
  - intros j thj Hj. destruct (Nat.eq_dec t j) as [<-|Hne].
    + rewrite (nth_error_upd_eq _ _ th' th Ht1) in Hj. injection Hj as <-. exact Hwf.
    + rewrite nth_error_upd_neq in Hj by exact Hne. destruct (Nat.eq_dec x j) as [<-|Hne2].
      * rewrite (nth_error_upd_eq _ _ thx' thx Hx) in Hj. injection Hj as <-.
        apply twf_wake; auto. eapply inv_twf; eauto.
      * rewrite nth_error_upd_neq in Hj by exact Hne2. eapply inv_twf; eauto.
  - exact Hw.
  - exact Hs.
  - exact He.
  - intros y. rewrite (pk_at_upd _ _ th th' y Ht1). rewrite (pk_at_upd _ _ thx thx' y Hx).
    pose proof (sumf_upd (hX y) _ _ _ th' Ht1) as UX. rewrite EX in UX.
    specialize (Hocc y _ UX). destruct (y =? t); [exact Hocc|]. destruct (y =? x); [|exact Hocc].
    unfold thx', pk. cbn. exact Hocc.
  - exact Hk.
Qed.

(* ------------------------------------------------------------------------------------ *)
(** * Preservation: every step of [SyncModel.step] keeps [Inv]
    (tactics: one generic solver per kind of side condition of the frame lemmas) *)


Ltac norm_state := unfold set_thread, set_thr, set_mword, set_festat; cbn [mword mq cqs festat thr].
Ltac unf_meas := unfold pk, hP, hPc, hE, hO, hR, hD, hN, hL, hX, hBad, add_cb, set_main, set_cbs, set_own in *;
  cbn [main cbs own] in *; rewrite ?sumf_app in *;
  cbn [mP mD mN mX mL uP uD uN uX uBad lockish is_susp pc_ok Nat.b2n sumf eR eE eP eD eN eX eBad] in *.

Lemma twf_unfold th : twf th ->
  hP th <= hO th /\ (1 <= hPc th -> lockish (main th) = true) /\
  hE th <= 1 /\ (is_susp (main th) = false -> hE th = 0) /\
  pc_ok (main th) /\ hBad th = 0.
Proof. auto. Qed.

Ltac parity :=
  repeat match goal with
  | H : Z.even ?w = true |- _ => apply Z.even_spec in H; destruct H as [? H]
  | H : Z.odd ?w = true |- _ => apply Z.odd_spec in H; destruct H as [? H]
  | H : Z.even ?w = false |- _ => rewrite <- Z.negb_odd in H; apply negb_false_iff in H
  | H : Z.odd ?w = false |- _ => rewrite <- Z.negb_even in H; apply negb_false_iff in H
  | H : (_ =? _)%Z = true |- _ => apply Z.eqb_eq in H
  | H : (_ =? _)%Z = false |- _ => apply Z.eqb_neq in H
  | H : (_ >? _)%Z = true |- _ => apply Z.gtb_lt in H
  end.

Ltac boolnorm :=
  repeat match goal with
  | H : (if ?c then 0 else 1) = 0 |- _ => destruct c eqn:?; [clear H|discriminate H]
  | H : (if ?c then 0 else 1) <= _ |- _ => destruct c eqn:?
  | H : Z.even ?w = false |- _ => rewrite <- Z.negb_odd in H; apply negb_false_iff in H
  | H : Z.odd ?w = false |- _ => rewrite <- Z.negb_even in H; apply negb_false_iff in H
  end.
Ltac solve_twf :=
  repeat split; intros; try reflexivity; try assumption; try lia; try discriminate;
  try (exfalso; lia);
  try (match goal with W2 : _ -> lockish _ = true |- lockish _ = true => apply W2; lia end);
  try (match goal with W4 : ?A -> _ = 0, HA : ?A |- _ => specialize (W4 HA); lia end);
  try (match goal with W4 : _ = _ -> _ = 0 |- _ => specialize (W4 eq_refl); lia end).

Lemma cq_deq cqs c x r y : nth c cqs [] = x :: r -> sumf (cnt y) (upd cqs c r) + Nat.b2n (x =? y) = sumf (cnt y) cqs.
Proof.
  rewrite nth_nth_error. destruct (nth_error cqs c) as [l|] eqn:E; [|discriminate].
  intros ->. pose proof (sumf_upd (cnt y) _ _ _ r E) as U. rewrite cnt_cons in U. lia.
Qed.

Lemma cq_enq cqs c t y : sumf (cnt y) (upd cqs c (nth c cqs [] ++ [t])) <= sumf (cnt y) cqs + Nat.b2n (t =? y).
Proof.
  rewrite nth_nth_error. destruct (nth_error cqs c) as [l|] eqn:E.
  - pose proof (sumf_upd (cnt y) _ _ _ (l ++ [t]) E) as U. rewrite cnt_app in U. change (cnt y [t]) with (Nat.b2n (t =? y) + 0) in U. lia.
  - rewrite upd_none by exact E. lia.
Qed.

Ltac rw_mq := repeat match goal with E : mq _ = _ |- _ => rewrite E in * end; cbn [length] in *.
Ltac solve_occ s I t Hth :=
  let y := fresh "y" in let X := fresh "X" in let HX := fresh "HX" in let Ho := fresh "Ho" in
  intros y X HX; unf_meas; pose proof (inv_occ s I y) as Ho; unfold occ in Ho;
  try match goal with E : nth _ (cqs _) [] = _ :: _ |- _ => pose proof (cq_deq _ _ _ _ y E) end;
  rw_mq; change (cnt y []) with 0 in *; rewrite ?cnt_cons in *;
  destruct (Nat.eqb_spec y t) as [->|?]; [rewrite (pk_at_here _ _ _ Hth) in Ho; unf_meas|]; lia.

Ltac brk H := repeat match type of H with
  | context [if ?c then _ else _] => destruct c eqn:?
  | context [match ?x with _ => _ end] => destruct x eqn:?
  end.


Ltac brk_term x :=
  match x with
  | context [match ?y with _ => _ end] => brk_term y
  | nth_error (thr _) _ => fail 1
  | nth_error (upd _ _ _) _ => fail 1
  | _ => destruct x eqn:?
  end.
Ltac brk2 H Hth := repeat (first
  [ progress (cbn [thr set_mword set_festat set_thread set_thr mword mq cqs festat] in H)
  | rewrite Hth in H
  | rewrite (nth_error_upd_eq _ _ _ _ Hth) in H
  | match type of H with
    | context [match ?x with _ => _ end] => brk_term x
    end ]).
Ltac rw_if := repeat match goal with
  | H : ?c = true |- context [if ?c then _ else _] => rewrite H
  | H : ?c = true, H2 : context [if ?c then _ else _] |- _ => rewrite H in H2
  end.


Ltac solve_occ_wake s I t Hth x Hx Hmx :=
  let y := fresh "y" in let X := fresh "X" in let HX := fresh "HX" in let Ho := fresh "Ho" in
  intros y X HX; unf_meas; pose proof (inv_occ s I y) as Ho; unfold occ in Ho;
  rw_mq; change (cnt y []) with 0 in *; rewrite ?cnt_cons in *;
  destruct (Nat.eqb_spec y t) as [->|?];
  [ rewrite (pk_at_here _ _ _ Hth) in Ho; unf_meas; lia
  | destruct (Nat.eqb_spec y x) as [->|?];
    [ rewrite (pk_at_here _ _ _ Hx) in Ho; unfold pk in Ho; rewrite Hmx in Ho; cbn [is_susp] in Ho;
      rewrite ?Nat.eqb_refl in *; cbn [Nat.b2n] in *; lia
    | lia ] ].
Lemma mD_le_mP p : mD p <= mP p.
Proof. destruct p as [| | | | | | | |u| | | | |]; cbn; try lia. destruct u; cbn; lia. Qed.
Ltac prelude s I t th Hth :=
  pose proof (twf_unfold _ (inv_twf s I t th Hth)) as W;
  pose proof (inv_seats s I) as Is; pose proof (inv_excl s I) as Ie; pose proof (inv_wake s I) as Ik;
  pose proof (inv_nonneg s I) as In0;
  pose proof (hO_le_SH s t th Hth) as Ho1; pose proof (SD_slack s t th I Hth) as Hsl;
  pose proof (sumf_ge hN _ _ _ Hth : hN th <= SN s) as HgN; pose proof (sumf_ge hL _ _ _ Hth : hL th <= SL s) as HgL;
  pose proof (sumf_ge hD _ _ _ Hth : hD th <= SD s) as HgD; pose proof (sumf_ge hR _ _ _ Hth : hR th <= SR s) as HgR;
  pose proof (sumf_le eD eP (cbs th) (fun _ a _ => eD_le_eP a)) as HDP;
  pose proof (mD_le_mP (main th)) as HmDP.


Ltac cbn_e := cbn [eP eE eR eD eN eX eBad uP uD uN uX uBad Nat.b2n] in *.
Ltac pose_cbs cs i Hi :=
  try match goal with |- context [upd cs i ?b] =>
    pose proof (sumf_upd eP cs i _ b Hi); pose proof (sumf_upd eE cs i _ b Hi); pose proof (sumf_upd eR cs i _ b Hi);
    pose proof (sumf_upd eD cs i _ b Hi); pose proof (sumf_upd eN cs i _ b Hi); pose proof (sumf_upd eBad cs i _ b Hi) end;
  try match goal with |- context [remove_nth cs i] =>
    pose proof (sumf_remove eP cs i _ Hi); pose proof (sumf_remove eE cs i _ Hi); pose proof (sumf_remove eR cs i _ Hi);
    pose proof (sumf_remove eD cs i _ Hi); pose proof (sumf_remove eN cs i _ Hi); pose proof (sumf_remove eBad cs i _ Hi) end;
  pose proof (sumf_ge eP cs i _ Hi); pose proof (sumf_ge eE cs i _ Hi); pose proof (sumf_ge eR cs i _ Hi);
  pose proof (sumf_ge eD cs i _ Hi); pose proof (sumf_ge eN cs i _ Hi); pose proof (sumf_ge eBad cs i _ Hi);
  pose proof (sumf_le_at eD eP cs i _ (fun _ b _ => eD_le_eP b) Hi);
  cbn_e.
Ltac pose_cbs_y cs i Hi y :=
  try match goal with
      | |- context [upd cs i ?b] => pose proof (sumf_upd (eX y) cs i _ b Hi)
      | _ : context [upd cs i ?b] |- _ => pose proof (sumf_upd (eX y) cs i _ b Hi) end;
  try match goal with
      | |- context [remove_nth cs i] => pose proof (sumf_remove (eX y) cs i _ Hi)
      | _ : context [remove_nth cs i] |- _ => pose proof (sumf_remove (eX y) cs i _ Hi) end;
  pose proof (sumf_ge (eX y) cs i _ Hi); cbn_e.

Ltac solve_occ_cb s I t Hth cs i Hi :=
  let y := fresh "y" in let X := fresh "X" in let HX := fresh "HX" in let Ho := fresh "Ho" in
  intros y X HX; unf_meas; pose_cbs_y cs i Hi y; pose proof (inv_occ s I y) as Ho; unfold occ in Ho;
  try match goal with |- context [upd (cqs ?s0) ?c (nth ?c (cqs ?s0) [] ++ [?t0])] => pose proof (cq_enq (cqs s0) c t0 y) end;
  rw_mq; change (cnt y []) with 0 in *; rewrite ?cnt_cons, ?cnt_app in *; change (cnt y [t]) with (Nat.b2n (t =? y) + 0) in *;
  destruct (Nat.eqb_spec y t) as [->|?];
  [rewrite (pk_at_here _ _ _ Hth) in Ho; unf_meas; rewrite ?Nat.eqb_refl in *; cbn [Nat.b2n] in *;
   try match goal with E : is_susp _ = _ |- _ => rewrite E in Ho end;
   try match goal with |- context [is_susp ?m] => destruct (is_susp m) eqn:? end
  | assert (Nat.b2n (t =? y) = 0) by (destruct (Nat.eqb_spec t y); [congruence|reflexivity]) ]; try lia.

Ltac solve_occ_wake_cb s I t Hth x Hx Hmx cs i Hi :=
  let y := fresh "y" in let X := fresh "X" in let HX := fresh "HX" in let Ho := fresh "Ho" in
  intros y X HX; unf_meas; pose_cbs_y cs i Hi y; pose proof (inv_occ s I y) as Ho; unfold occ in Ho;
  rw_mq; change (cnt y []) with 0 in *; rewrite ?cnt_cons in *;
  destruct (Nat.eqb_spec y t) as [->|?];
  [ rewrite (pk_at_here _ _ _ Hth) in Ho; unf_meas;
    assert (Nat.b2n (x =? t) = 0) by (destruct (Nat.eqb_spec x t); [congruence|reflexivity]);
    try match goal with |- context [is_susp ?m] => destruct (is_susp m) eqn:? end; lia
  | destruct (Nat.eqb_spec y x) as [->|?];
    [ rewrite (pk_at_here _ _ _ Hx) in Ho; unfold pk in Ho; rewrite Hmx in Ho; cbn [is_susp] in Ho;
      rewrite ?Nat.eqb_refl in *; cbn [Nat.b2n] in *; lia
    | assert (Nat.b2n (x =? y) = 0) by (destruct (Nat.eqb_spec x y); [congruence|reflexivity]); lia ] ].

Lemma inv_cbtick_enq s t i s' th q unl : Inv s -> nth_error (thr s) t = Some th ->
  nth_error (cbs th) i = Some (CbEnq q unl) -> cbtick s t i = Some s' -> Inv s'.
Proof.
  intros I Hth Hi H. unfold cbtick, get_thread in H. rewrite Hth in H. rewrite Hi in H.
  prelude s I t th Hth.
  destruct th as [m cs ow]. cbn [main own cbs] in *.
  assert (Hsu : is_susp m = true).
  { destruct (is_susp m) eqn:E; [reflexivity|]. destruct W as (_ & _ & _ & W4 & _). specialize (W4 eq_refl).
    unfold hE in W4. cbn [cbs] in W4. pose proof (sumf_ge eE cs i _ Hi) as G. cbn in G. lia. }
  injection H as <-.
  destruct q as [|c]; destruct unl; unfold setq, getq; norm_state.
  all: apply (inv_update s t _ _ _ _ _ _ I Hth);
       unfold twf; unf_meas; destruct W as (W1 & W2 & W3 & W4 & W5 & W6); rewrite ?Hsu in *; pose_cbs cs i Hi.
  all: try (solve_twf; fail).
  all: rewrite ?app_length; cbn [length].
  all: try lia.
  all: try (intros; lia).
  all: try (solve_occ_cb s I t Hth cs i Hi; fail).
Qed.

Lemma inv_cbtick_unl s t i s' th u : Inv s -> nth_error (thr s) t = Some th ->
  nth_error (cbs th) i = Some (CbUnl u) -> cbtick s t i = Some s' -> Inv s'.
Proof.
  intros I Hth Hi H. unfold cbtick, get_thread in H. rewrite Hth in H. rewrite Hi in H.
  prelude s I t th Hth.
  destruct th as [m cs ow]. cbn [main own cbs] in *.
  destruct u as [nf|nf w|nf w|nf|nf x|nf x]; unfold ustep, clear_own, wake, get_thread, setq in H;
    cbn [thr set_mword] in H; rewrite ?Hth in H.
  1-5: brk2 H Hth; try discriminate; injection H as <-; norm_state; rewrite ?upd_upd;
       apply (inv_update s t _ _ _ _ _ _ I Hth);
       unfold twf; unf_meas; destruct W as (W1 & W2 & W3 & W4 & W5 & W6); pose_cbs cs i Hi; boolnorm; rw_if.
  all: try (solve_twf; fail).
  all: parity; rw_mq.
  all: try lia.
  all: try (intros; lia).
  all: try (solve_occ_cb s I t Hth cs i Hi; fail).
  destruct (nth_error (thr s) x) as [thx|] eqn:Hx; [|discriminate].
  destruct (main thx) eqn:Hmx; try discriminate.
  cbn [thr set_thread set_thr] in H.
  destruct (Nat.eq_dec x t) as [->|Hxt].
  - rewrite Hth in Hx. injection Hx as <-. cbn [main] in Hmx. subst m.
    rewrite (nth_error_upd_eq _ _ _ _ Hth) in H. injection H as <-. norm_state. rewrite upd_upd.
    pose proof (inv_occ s I t) as Hot. rewrite (pk_at_here _ _ _ Hth) in Hot. unfold occ, SX in Hot.
    pose proof (sumf_ge (hX t) _ _ _ Hth) as HgX.
    apply (inv_update s t _ _ _ _ _ _ I Hth);
      unfold twf; unf_meas; destruct W as (W1 & W2 & W3 & W4 & W5 & W6); pose_cbs cs i Hi; pose_cbs_y cs i Hi t;
      rewrite ?Nat.eqb_refl in *; cbn [Nat.b2n] in *.
    all: try (solve_twf; fail).
    all: try lia.
    all: try (intros; lia).
    all: try (solve_occ_cb s I t Hth cs i Hi; fail).
  - assert (Hh : 1 <= hX x {| main := m; cbs := cs; own := ow |}).
    { unfold hX. cbn [cbs]. pose proof (sumf_ge (eX x) cs i _ Hi) as G. cbn in G. rewrite Nat.eqb_refl in G. cbn in G. lia. }
    rewrite (nth_error_upd_neq _ _ _ _ Hxt) in H; rewrite Hth in H. injection H as <-. norm_state.
    apply (inv_update_wake s t _ x thx k _ _ _ _ _ I Hth Hxt Hx Hmx Hh);
      unfold twf; unf_meas; destruct W as (W1 & W2 & W3 & W4 & W5 & W6); pose_cbs cs i Hi.
    all: try (solve_twf; fail).
    all: try lia.
    all: try (intros; lia).
    solve_occ_wake_cb s I t Hth x Hx Hmx cs i Hi.
Qed.

Lemma inv_tick_unl s t s' th u : Inv s -> nth_error (thr s) t = Some th -> main th = Unl u ->
  tick s t = Some s' -> Inv s'.
Proof.
  intros I Hth Hm H. unfold tick, get_thread in H. rewrite Hth in H.
  prelude s I t th Hth.
  destruct th as [m cs ow]. cbn [main own] in H, Hm. subst m.
  destruct u as [nf|nf w|nf w|nf|nf x|nf x]; unfold ustep, clear_own, wake, get_thread, setq in H;
    cbn [thr set_mword] in H; rewrite ?Hth in H.
  1-5: brk2 H Hth; try discriminate; injection H as <-; norm_state; rewrite ?upd_upd;
       apply (inv_update s t _ _ _ _ _ _ I Hth);
       unfold twf; unf_meas; destruct W as (W1 & W2 & W3 & W4 & W5 & W6); boolnorm; rw_if.
  all: try (solve_twf; fail).
  all: parity; rw_mq.
  all: try lia.
  all: try (intros; lia).
  all: try (solve_occ s I t Hth; fail).
  destruct (nth_error (thr s) x) as [thx|] eqn:Hx; [|discriminate].
  destruct (main thx) eqn:Hmx; try discriminate.
  cbn [thr set_thread set_thr] in H.
  assert (Hxt : x <> t) by (intros ->; rewrite Hth in Hx; injection Hx as <-; discriminate Hmx).
  rewrite (nth_error_upd_neq _ _ _ _ Hxt) in H; rewrite Hth in H. injection H as <-. norm_state.
  apply (inv_update_wake s t _ x thx k _ _ _ _ _ I Hth Hxt Hx Hmx);
    unfold twf; unf_meas; destruct W as (W1 & W2 & W3 & W4 & W5 & W6); rewrite ?Nat.eqb_refl; cbn [Nat.b2n].
  all: try (solve_twf; fail).
  all: try lia.
  all: try (intros; lia).
  all: try (solve_occ_wake s I t Hth x Hx Hmx; fail).
Qed.

Definition simple_pc (p : pc) : bool :=
  match p with Unl _ | SigPush _ _ _ => false | _ => true end.

Lemma inv_tick_simple s t s' th : Inv s -> nth_error (thr s) t = Some th -> simple_pc (main th) = true ->
  tick s t = Some s' -> Inv s'.
Proof.
  intros I Hth Hsp H. unfold tick, get_thread in H. rewrite Hth in H.
  prelude s I t th Hth.
  destruct th as [m cs ow]. cbn [main own] in H, Hsp.
  destruct m; try discriminate; unfold lock_read, acquired, getq, setq in H; cbn [thr set_festat] in H; rewrite ?Hth in H.
  all: brk H; try discriminate; injection H as <-; norm_state; unfold setq; cbn [mword mq cqs festat thr].
  all: apply (inv_update s t _ _ _ _ _ _ I Hth).
  all: unfold twf; unf_meas; destruct W as (W1 & W2 & W3 & W4 & W5 & W6); boolnorm.
  all: try (solve_twf; fail).
  all: parity.
  all: try lia.
  all: try (intros; lia).
  all: try (solve_occ s I t Hth; fail).
Qed.

Lemma inv_call s t o s' : Inv s -> call s t o = Some s' -> Inv s'.
Proof.
  intros I H. unfold call, get_thread in H.
  destruct (nth_error (thr s) t) as [th|] eqn:Hth; [|discriminate].
  pose proof (twf_unfold _ (inv_twf s I t th Hth)) as W.
  pose proof (inv_seats s I) as Is. pose proof (inv_excl s I) as Ie. pose proof (inv_wake s I) as Ik.
  pose proof (inv_nonneg s I) as In0.
  destruct th as [m cs ow]. cbn [main own] in H.
  destruct m; try discriminate.
  destruct o; cbn [own] in H.
  all: try (destruct ow; try discriminate).
  all: injection H as <-; norm_state.
  all: apply (inv_update s t _ _ _ _ _ _ I Hth).
  all: unfold twf; unf_meas.
  all: try exact In0.
  all: try (destruct W as (W1 & W2 & W3 & W4 & W5 & W6); solve_twf; fail).
  all: try (intros; lia).
  all: try (solve_occ s I t Hth; fail).
Qed.

Lemma inv_ret s t v s' : Inv s -> ret s t v = Some s' -> Inv s'.
Proof.
  intros I H. unfold ret, ret_ok, get_thread in H.
  destruct (nth_error (thr s) t) as [th|] eqn:Hth; [|discriminate].
  pose proof (twf_unfold _ (inv_twf s I t th Hth)) as W.
  pose proof (inv_seats s I) as Is. pose proof (inv_excl s I) as Ie. pose proof (inv_wake s I) as Ik.
  pose proof (inv_nonneg s I) as In0.
  destruct th as [m cs ow]. cbn [main own] in H.
  destruct m; try discriminate.
  all: destruct (_ =? _)%Z; try discriminate.
  all: injection H as <-; norm_state.
  all: apply (inv_update s t _ _ _ _ _ _ I Hth).
  all: unfold twf; unf_meas.
  all: try exact In0.
  all: try (destruct W as (W1 & W2 & W3 & W4 & W5 & W6); solve_twf; fail).
  all: try (intros; lia).
  all: try (solve_occ s I t Hth; fail).
Qed.

Lemma inv_tick_sigpush s t s' th c k x : Inv s -> nth_error (thr s) t = Some th -> main th = SigPush c k x ->
  tick s t = Some s' -> Inv s'.
Proof.
  intros I Hth Hm H. unfold tick, get_thread in H. rewrite Hth in H.
  prelude s I t th Hth.
  destruct th as [m cs ow]. cbn [main own] in H, Hm. subst m.
  unfold wake, get_thread in H.
  destruct (nth_error (thr s) x) as [thx|] eqn:Hx; [|discriminate].
  destruct (main thx) eqn:Hmx; try discriminate.
  assert (Hxt : x <> t) by (intros ->; rewrite Hth in Hx; injection Hx as <-; discriminate Hmx).
  destruct k; cbn [thr set_thread set_thr] in H;
  rewrite (nth_error_upd_neq _ _ _ _ Hxt) in H; rewrite Hth in H; injection H as <-; norm_state.
  all: apply (inv_update_wake s t _ x thx _ _ _ _ _ _ I Hth Hxt Hx Hmx);
    unfold twf; unf_meas; destruct W as (W1 & W2 & W3 & W4 & W5 & W6); rewrite ?Nat.eqb_refl; cbn [Nat.b2n].
  all: try (solve_twf; fail).
  all: try lia.
  all: try (intros; lia).
  all: try (solve_occ_wake s I t Hth x Hx Hmx; fail).
Qed.

Theorem inv_step s a s' : Inv s -> step s a = Some s' -> Inv s'.
Proof.
  intros I H. destruct a as [t e]. destruct e as [o| |i|v]; cbn [step] in H.
  - eapply inv_call; eauto.
  - assert (exists th, nth_error (thr s) t = Some th) as [th Hth].
    { unfold tick, get_thread in H. destruct (nth_error (thr s) t) as [th|]; [eauto|discriminate]. }
    destruct (main th) eqn:Hm.
    all: try (eapply inv_tick_simple; [exact I | exact Hth | rewrite Hm; reflexivity | exact H]).
    + eapply inv_tick_unl; eauto.
    + eapply inv_tick_sigpush; eauto.
  - assert (exists th, nth_error (thr s) t = Some th) as [th Hth].
    { unfold cbtick, get_thread in H. destruct (nth_error (thr s) t) as [th|]; [eauto|discriminate]. }
    assert (exists c, nth_error (cbs th) i = Some c) as [c Hc].
    { unfold cbtick, get_thread in H. rewrite Hth in H. destruct (nth_error (cbs th) i) as [c|]; [eauto|discriminate]. }
    destruct c as [q unl|u].
    + eapply inv_cbtick_enq; eauto.
    + eapply inv_cbtick_unl; eauto.
  - eapply inv_ret; eauto.
Qed.

(* ------------------------------------------------------------------------------------ *)
(** * Consequences for reachable states *)


Theorem inv_reach s : reach s -> Inv s.
Proof. apply invariant_rule; [exact inv_init | intros s0 a s1; apply inv_step]. Qed.

Lemma count_holders_SH s : count_holders s = SH s.
Proof. unfold count_holders, SH. apply sumf_filter_length. Qed.

(** (a) *)
Lemma lock_bit_is_owner_count s : reach s ->
  (mword s mod 2 = Z.of_nat (count_holders s))%Z /\ count_holders s <= 1.
Proof.
  intros R. apply inv_reach in R. rewrite count_holders_SH.
  pose proof (inv_seats s R) as Is. pose proof (inv_excl s R) as Ie. split; [|exact Ie].
  symmetry. apply (Z.mod_unique_pos _ 2 (Z.of_nat (SR s + length (mq s)) - Z.of_nat (SD s))); lia.
Qed.

Lemma holds_hO s t th : nth_error (thr s) t = Some th -> holds s t = true -> hO th = 1.
Proof. unfold holds, get_thread, hO. intros -> ->. reflexivity. Qed.

Lemma mutual_exclusion s t1 t2 : reach s -> t1 <> t2 -> holds s t1 = true -> holds s t2 = true -> False.
Proof.
  intros R Hne H1 H2. apply inv_reach in R. pose proof (inv_excl s R) as Ie.
  unfold holds, get_thread in H1, H2.
  destruct (nth_error (thr s) t1) as [th1|] eqn:E1; [|discriminate].
  destruct (nth_error (thr s) t2) as [th2|] eqn:E2; [|discriminate].
  pose proof (sumf_ge2 hO (thr s) t1 t2 th1 th2 Hne E1 E2) as G. unfold hO in G at 1 2. rewrite H1, H2 in G.
  cbn in G. unfold SH in Ie. lia.
Qed.

(** (b) *)
Lemma seats s : reach s ->
  (mword s / 2 + Z.of_nat (SD s) = Z.of_nat (SR s + length (mq s)))%Z /\ (0 <= mword s)%Z /\ SD s <= 1.
Proof.
  intros R. apply inv_reach in R.
  pose proof (inv_seats s R) as Is. pose proof (inv_excl s R) as Ie. pose proof (inv_nonneg s R) as In0.
  assert (SD s <= SH s).
  { unfold SD, SH. apply sumf_le. intros i a Hi. apply twf_hD_le_hO. eapply inv_twf; eauto. }
  repeat split; try lia.
  assert (E : (mword s = 2 * (Z.of_nat (SR s + length (mq s)) - Z.of_nat (SD s)) + Z.of_nat (SH s))%Z) by lia.
  rewrite E. rewrite Z.mul_comm, Z.div_add_l by lia. rewrite Z.div_small by lia. lia.
Qed.

Lemma deq_spin_someone_coming s : reach s -> 1 <= SD s -> mq s = [] -> 1 <= SR s.
Proof.
  intros R HD Hq. apply inv_reach in R.
  pose proof (inv_seats s R) as Is. pose proof (inv_excl s R) as Ie. pose proof (inv_nonneg s R) as In0.
  rewrite Hq in Is. cbn [length] in Is. lia.
Qed.

(** an unlock activity [u] of a thread: in its own context or in one of its callbacks *)
Definition has_act (th : thread) (u : upc) : Prop := main th = Unl u \/ In (CbUnl u) (cbs th).

Lemma has_act_meas th u :
  has_act th u ->
  (forall y, uX y u <= hX y th) /\ uN u <= hN th /\ (uD u = 0 -> hD th + uP u <= hP th).
Proof.
  intros [Hm|Hin].
  - unfold hX, hN, hD, hP, hPc. rewrite Hm. cbn [mX mN mD mP].
    pose proof (sumf_le eD eP (cbs th) (fun _ a _ => eD_le_eP a)). repeat split; intros; lia.
  - apply In_nth_error in Hin. destruct Hin as [i Hi].
    unfold hX, hN, hD, hP, hPc. repeat split.
    + intros y. pose proof (sumf_ge (eX y) _ _ _ Hi) as G. cbn [eX] in G. lia.
    + pose proof (sumf_ge eN _ _ _ Hi) as G. cbn [eN] in G. lia.
    + intros H0. pose proof (sumf_le_at eD eP _ _ _ (fun _ b _ => eD_le_eP b) Hi) as G. cbn [eD eP] in G.
      pose proof (mD_le_mP (main th)). lia.
Qed.

Lemma unlock_fast_path_nobody_reserved s t th nf w :
  reach s -> get_thread s t = Some th -> has_act th (UCas1 nf w) -> mword s = 1%Z ->
  SR s + length (mq s) = 0.
Proof.
  intros R Hth Ha Hw. apply inv_reach in R. unfold get_thread in Hth.
  pose proof (inv_seats s R) as Is. pose proof (inv_excl s R) as Ie.
  destruct (inv_twf s R t th Hth) as (W1 & _).
  destruct (has_act_meas th _ Ha) as (_ & _ & HD). specialize (HD eq_refl). cbn [uP] in HD.
  pose proof (SD_slack s t th R Hth). pose proof (hO_le_SH s t th Hth). lia.
Qed.

(** (c) *)
Lemma pk_at_parked l x : 1 <= pk_at l x ->
  exists th k, nth_error l x = Some th /\ main th = Susp k /\ hE th = 0.
Proof.
  unfold pk_at, pk. destruct (nth_error l x) as [th|]; [|lia].
  destruct (main th) eqn:E; cbn [is_susp]; try lia. intros H. exists th, k. repeat split; auto. lia.
Qed.

Lemma hE0_no_enq th q u : hE th = 0 -> ~ In (CbEnq q u) (cbs th).
Proof.
  intros H Hin. apply In_nth_error in Hin. destruct Hin as [i Hi].
  pose proof (sumf_ge eE _ _ _ Hi) as G. cbn in G. unfold hE in H. lia.
Qed.

Lemma cnt_cq_le y cqs c : cnt y (nth c cqs []) <= sumf (cnt y) cqs.
Proof.
  rewrite nth_nth_error. destruct (nth_error cqs c) as [l|] eqn:E; [|cbn; lia].
  apply (sumf_ge (cnt y) _ _ _ E).
Qed.

Definition parked (s : state) (x : nat) : Prop :=
  exists th k, get_thread s x = Some th /\ main th = Susp k /\ (forall q u, ~ In (CbEnq q u) (cbs th)).

Lemma occ_parked s x : reach s -> 1 <= occ s x -> parked s x.
Proof.
  intros R H. apply inv_reach in R. pose proof (inv_occ s R x) as Ho.
  destruct (pk_at_parked (thr s) x ltac:(lia)) as (th & k & H1 & H2 & H3).
  exists th, k. repeat split; auto. intros q u. apply hE0_no_enq. exact H3.
Qed.

Lemma queue_wf s : reach s ->
  NoDup (mq s) /\ (forall c, NoDup (nth c (cqs s) [])) /\
  (forall x c, In x (mq s) -> ~ In x (nth c (cqs s) [])) /\
  (forall x c1 c2, c1 <> c2 -> In x (nth c1 (cqs s) []) -> ~ In x (nth c2 (cqs s) [])) /\
  (forall x, In x (mq s) -> parked s x) /\
  (forall x c, In x (nth c (cqs s) []) -> parked s x).
Proof.
  intros R. pose proof (inv_reach s R) as I.
  assert (Hle : forall y, occ s y <= 1).
  { intros y. pose proof (inv_occ s I y) as Ho. unfold pk_at, pk in Ho.
    destruct (nth_error (thr s) y) as [th|]; [|lia]. destruct (is_susp (main th)); lia. }
  repeat split.
  - apply cnt_nodup. intros y. specialize (Hle y). unfold occ in Hle. lia.
  - intros c. apply cnt_nodup. intros y. specialize (Hle y). unfold occ in Hle.
    pose proof (cnt_cq_le y (cqs s) c). lia.
  - intros x c H1 H2. apply cnt_in in H1. apply cnt_in in H2. specialize (Hle x). unfold occ in Hle.
    pose proof (cnt_cq_le x (cqs s) c). lia.
  - intros x c1 c2 Hne H1 H2. rewrite nth_nth_error in H1, H2.
    destruct (nth_error (cqs s) c1) as [l1|] eqn:E1; [|contradiction].
    destruct (nth_error (cqs s) c2) as [l2|] eqn:E2; [|contradiction].
    apply cnt_in in H1. apply cnt_in in H2.
    pose proof (sumf_ge2 (cnt x) _ _ _ _ _ Hne E1 E2). specialize (Hle x). unfold occ in Hle. lia.
  - intros x H1. apply occ_parked; [exact R|]. apply cnt_in in H1. unfold occ. lia.
  - intros x c H1. apply occ_parked; [exact R|]. apply cnt_in in H1. unfold occ.
    pose proof (cnt_cq_le x (cqs s) c). lia.
Qed.

(** a thread in a waker's hand: dequeued, not yet pushed *)
Definition in_hand (th : thread) (x : nat) : Prop :=
  (exists nf, has_act th (UClear nf x)) \/ (exists nf, has_act th (UPush nf x)) \/ (exists c k, main th = SigPush c k x).

Lemma in_hand_hX th x : in_hand th x -> 1 <= hX x th.
Proof.
  intros [[nf H]|[[nf H]|(c & k & H)]].
  - destruct (has_act_meas th _ H) as (HX & _). specialize (HX x). cbn in HX. rewrite Nat.eqb_refl in HX. exact HX.
  - destruct (has_act_meas th _ H) as (HX & _). specialize (HX x). cbn in HX. rewrite Nat.eqb_refl in HX. exact HX.
  - unfold hX. rewrite H. cbn. rewrite Nat.eqb_refl. cbn. lia.
Qed.

Lemma hand_parked s t th x : reach s -> get_thread s t = Some th -> in_hand th x ->
  parked s x /\ ~ In x (mq s) /\ (forall c, ~ In x (nth c (cqs s) [])).
Proof.
  intros R Hth Hh. pose proof (inv_reach s R) as I. apply in_hand_hX in Hh.
  pose proof (sumf_ge (hX x) _ _ _ Hth : hX x th <= SX s x) as G.
  assert (Hle : occ s x <= 1).
  { pose proof (inv_occ s I x) as Ho. unfold pk_at, pk in Ho.
    destruct (nth_error (thr s) x) as [thx|]; [|lia]. destruct (is_susp (main thx)); lia. }
  repeat split.
  - apply occ_parked; [exact R|]. unfold occ. lia.
  - intros Hin. apply cnt_in in Hin. unfold occ in Hle. lia.
  - intros c Hin. apply cnt_in in Hin. pose proof (cnt_cq_le x (cqs s) c). unfold occ in Hle. lia.
Qed.

Lemma wake_never_fails s t th x : reach s -> get_thread s t = Some th -> in_hand th x ->
  exists s', wake s x = Some s'.
Proof.
  intros R Hth Hh. destruct (hand_parked s t th x R Hth Hh) as ((thx & k & H1 & H2 & _) & _).
  unfold wake. rewrite H1, H2. eauto.
Qed.

(* ---- enabledness of the steps that (d) relies on ---- *)
Lemma nth_error_upd_some {A} (l : list A) i j a x : nth_error l j = Some a -> exists b, nth_error (upd l i x) j = Some b.
Proof.
  intros H. destruct (Nat.eq_dec i j) as [->|Hne].
  - exists x. eapply nth_error_upd_eq; eauto.
  - exists a. rewrite nth_error_upd_neq by exact Hne. exact H.
Qed.

Lemma tick_enabled_lock s t th : get_thread s t = Some th -> mL (main th) = 1 -> tick s t <> None.
Proof.
  intros Hth Hl. unfold tick. rewrite Hth. cbv zeta. destruct (main th); cbn in Hl; try discriminate.
  all: destruct (mword s =? _)%Z; discriminate.
Qed.

Lemma get_thread_clear_own s w t th : get_thread s t = Some th ->
  get_thread (clear_own (set_mword s w) t) t = Some (set_own th false).
Proof.
  intros Hth. unfold clear_own. unfold get_thread in *. cbn [thr set_mword]. rewrite Hth.
  cbn [thr set_thread set_thr set_mword]. eapply nth_error_upd_eq; eauto.
Qed.

Lemma wake_get_thread s x s1 t th : wake s x = Some s1 -> get_thread s t = Some th -> exists th', get_thread s1 t = Some th'.
Proof.
  unfold wake. destruct (get_thread s x) as [thx|]; [|discriminate]. destruct (main thx); try discriminate.
  intros E Hth. injection E as <-. unfold get_thread in *. cbn [thr set_thread set_thr].
  eapply nth_error_upd_some; eauto.
Qed.

Lemma ustep_hand_enabled s t th u x :
  get_thread s t = Some th -> (exists nf, u = UClear nf x) \/ ((exists nf, u = UPush nf x) /\ exists s1, wake s x = Some s1) ->
  exists s1 r, ustep s t u = Some (s1, r) /\ exists th', get_thread s1 t = Some th'.
Proof.
  intros Hth [[nf ->]|[[nf ->] [s1 Hw]]]; cbn [ustep].
  - eexists _, _. split; [reflexivity|]. eexists. apply get_thread_clear_own. exact Hth.
  - rewrite Hw. eexists _, _. split; [reflexivity|]. eapply wake_get_thread; eauto.
Qed.

Lemma tick_enabled_hand s t th u x : reach s -> get_thread s t = Some th -> main th = Unl u ->
  (exists nf, u = UClear nf x) \/ (exists nf, u = UPush nf x) -> tick s t <> None.
Proof.
  intros R Hth Hm Hu.
  assert (Hh : in_hand th x).
  { destruct Hu as [[nf ->]|[nf ->]]; [left|right; left]; exists nf; left; exact Hm. }
  destruct (wake_never_fails s t th x R Hth Hh) as [s1 Hw].
  destruct (ustep_hand_enabled s t th u x Hth) as (s2 & r & E & th' & Hth').
  { destruct Hu as [H|H]; [left; exact H | right; split; [exact H | eauto]]. }
  unfold tick. rewrite Hth. cbv zeta. rewrite Hm, E. destruct r; rewrite Hth'; discriminate.
Qed.

Lemma cbtick_enabled_hand s t th i u x : reach s -> get_thread s t = Some th -> nth_error (cbs th) i = Some (CbUnl u) ->
  (exists nf, u = UClear nf x) \/ (exists nf, u = UPush nf x) -> cbtick s t i <> None.
Proof.
  intros R Hth Hi Hu.
  assert (Hh : in_hand th x).
  { apply nth_error_In in Hi. destruct Hu as [[nf ->]|[nf ->]]; [left|right; left]; exists nf; right; exact Hi. }
  destruct (wake_never_fails s t th x R Hth Hh) as [s1 Hw].
  destruct (ustep_hand_enabled s t th u x Hth) as (s2 & r & E & th' & Hth').
  { destruct Hu as [H|H]; [left; exact H | right; split; [exact H | eauto]]. }
  unfold cbtick. rewrite Hth, Hi, E. destruct r; rewrite Hth'; discriminate.
Qed.

Lemma cbtick_enabled_enq s t th i q unl : get_thread s t = Some th -> nth_error (cbs th) i = Some (CbEnq q unl) ->
  cbtick s t i <> None.
Proof. intros Hth Hi. unfold cbtick. rewrite Hth, Hi. discriminate. Qed.

Lemma tick_enabled_sigpush s t th c k x : reach s -> get_thread s t = Some th -> main th = SigPush c k x -> tick s t <> None.
Proof.
  intros R Hth Hm.
  assert (Hh : in_hand th x) by (right; right; eauto).
  destruct (wake_never_fails s t th x R Hth Hh) as [s1 Hw].
  destruct (wake_get_thread s x s1 t th Hw Hth) as [th' Hth'].
  unfold tick. rewrite Hth. cbv zeta. rewrite Hm, Hw. destruct k; rewrite Hth'; discriminate.
Qed.

(** (d) *)
Definition hand_act (u : upc) : Prop := exists nf x, u = UClear nf x \/ u = UPush nf x.

Lemma uN_hand u : 1 <= uN u -> hand_act u.
Proof. destruct u; cbn; try lia; intros _; eexists _, _; eauto. Qed.

Lemma no_lost_wakeup s : reach s -> 0 < SR s + length (mq s) ->
  Z.odd (mword s) = true \/
  (exists t th u, get_thread s t = Some th /\ has_act th u /\ hand_act u) \/
  (exists t th, get_thread s t = Some th /\ mL (main th) = 1).
Proof.
  intros R Hpos. pose proof (inv_reach s R) as I.
  pose proof (inv_seats s I) as Is. pose proof (inv_excl s I) as Ie. pose proof (inv_wake s I) as Ik.
  destruct Ik as [Ik|Ik]; [lia|].
  destruct (Nat.eq_dec (SH s) 0) as [H0|H0].
  - destruct (Nat.eq_dec (SN s) 0) as [N0|N0].
    + right; right. assert (HL : 1 <= SL s) by lia. apply sumf_pos in HL. destruct HL as (t & th & Hth & Hl).
      exists t, th. split; [exact Hth|]. unfold hL in Hl. destruct (main th); cbn in *; lia.
    + right; left. assert (HN : 1 <= SN s) by lia. apply sumf_pos in HN. destruct HN as (t & th & Hth & Hn).
      unfold hN in Hn. destruct (Nat.eq_dec (mN (main th)) 0) as [M0|M0].
      * assert (Hc : 1 <= sumf eN (cbs th)) by lia. apply sumf_pos in Hc. destruct Hc as (i & c & Hi & Hc).
        destruct c as [q b|u]; cbn in Hc; [lia|]. exists t, th, u. repeat split; auto.
        -- right. eapply nth_error_In; eauto.
        -- apply uN_hand; exact Hc.
      * destruct (main th) eqn:Em; cbn in M0; try lia. exists t, th, u. repeat split; auto.
        -- left; exact Em.
        -- apply uN_hand. lia.
  - left. apply Z.odd_spec. exists (Z.of_nat (SR s + length (mq s)) - Z.of_nat (SD s))%Z. lia.
Qed.

Definition quiescent (s : state) : Prop := (forall t, tick s t = None) /\ (forall t i, cbtick s t i = None).

Lemma quiescent_no_sleeper s : reach s -> quiescent s ->
  SR s = 0 /\ (mq s <> [] -> Z.odd (mword s) = true).
Proof.
  intros R [Qt Qc]. split.
  - destruct (Nat.eq_dec (SR s) 0) as [E|E]; [exact E|exfalso].
    assert (H : 1 <= SR s) by lia. apply sumf_pos in H. destruct H as (t & th & Hth & Hr).
    unfold hR in Hr. apply sumf_pos in Hr. destruct Hr as (i & c & Hi & Hc).
    destruct c as [q b|u]; cbn in Hc; [|lia].
    eapply cbtick_enabled_enq; eauto.
  - intros Hq. destruct (no_lost_wakeup s R) as [H|[H|H]].
    + destruct (mq s); [congruence|cbn; lia].
    + exact H.
    + exfalso. destruct H as (t & th & u & Hth & [Hm|Hin] & (nf & x & Hu)).
      * eapply (tick_enabled_hand s t th u x R Hth Hm); [|apply Qt].
        destruct Hu as [->| ->]; [left|right]; eauto.
      * apply In_nth_error in Hin. destruct Hin as [i Hi].
        eapply (cbtick_enabled_hand s t th i u x R Hth Hi); [|apply Qc].
        destruct Hu as [->| ->]; [left|right]; eauto.
    + exfalso. destruct H as (t & th & Hth & Hl). eapply tick_enabled_lock; eauto.
Qed.

(** (f) *)
Lemma blocked_idle s x : reach s -> In x (mq s) ->
  tick s x = None /\ (forall o, call s x o = None) /\ (forall v, ret s x v = None).
Proof.
  intros R Hin. destruct (queue_wf s R) as (_ & _ & _ & _ & Hp & _).
  destruct (Hp x Hin) as (th & k & Hth & Hm & _).
  unfold tick, call, ret, ret_ok. rewrite Hth, Hm. repeat split; reflexivity.
Qed.

(* ------------------------------------------------------------------------------------ *)
(** * Frame properties of a step (who can change what) *)


Ltac brk_any x :=
  match x with
  | context [match ?y with _ => _ end] => brk_any y
  | _ => destruct x eqn:?
  end.
Ltac brk3 H Hth := repeat (first
  [ progress (cbn [thr set_mword set_festat set_thread set_thr mword mq cqs festat] in H)
  | rewrite Hth in H
  | match type of H with
    | context [match ?x with _ => _ end] => brk_any x
    end ]); try discriminate.

Ltac frame_fin j Hthj :=
  match goal with |- context [upd (thr _) ?x _] =>
    destruct (Nat.eq_dec x j) as [->|?];
    [ right; match goal with E : nth_error (thr _) j = Some ?a |- _ =>
        rewrite Hthj in E; injection E as <-; eexists; split; [eassumption|]; eapply nth_error_upd_eq; eassumption end
    | left; rewrite nth_error_upd_neq by assumption; exact Hthj ] end.

(** what a step of [t] does to another thread [j]: nothing, or it makes it runnable *)
Lemma step_frame s t e s' j thj :
  step s (t, e) = Some s' -> j <> t -> get_thread s j = Some thj ->
  get_thread s' j = Some thj \/ exists k, main thj = Susp k /\ get_thread s' j = Some (set_main thj (LockRead k)).
Proof.
  intros H Hj Hthj. unfold get_thread in *.
  destruct e as [o| |i|v]; cbn [step] in H; unfold call, tick, cbtick, ret, ret_ok, get_thread in H;
    destruct (nth_error (thr s) t) as [th|] eqn:Hth; try discriminate.
  all: unfold ustep, wake, clear_own, lock_read, acquired, getq, setq, get_thread in H.
  all: brk3 H Hth.
  all: injection H as <-.
  all: cbn [thr set_mword set_festat set_thread set_thr mword mq cqs festat].
  all: rewrite ?(nth_error_upd_neq _ t j) by congruence.
  all: try (left; exact Hthj).
  all: try (frame_fin j Hthj).
Qed.

(** the acquiring CASes and the clearing steps, read off the program counters *)
Definition acq_ev (s : state) (a : actor) : bool :=
  match a with
  | (t, ETick) =>
      match get_thread s t with
      | Some th => match main th with LockCas1 _ w | TryCas _ w => (mword s =? w)%Z | _ => false end
      | None => false
      end
  | _ => false
  end.
Definition clr_u (s : state) (u : upc) : bool :=
  match u with UCas1 _ _ => (mword s =? 1)%Z | UClear _ _ => true | _ => false end.
Definition clr_ev (s : state) (a : actor) : bool :=
  match a with
  | (t, ETick) =>
      match get_thread s t with
      | Some th => match main th with Unl u => clr_u s u | _ => false end
      | None => false
      end
  | (t, ECbTick i) =>
      match get_thread s t with
      | Some th => match nth_error (cbs th) i with Some (CbUnl u) => clr_u s u | _ => false end
      | None => false
      end
  | _ => false
  end.

Ltac rw_eqs := repeat match goal with E : ?c = _ |- context [?c] => rewrite E end.
Ltac self_fin t Hth :=
  try match goal with E : nth_error (upd (thr _) t _) t = Some _ |- _ =>
    rewrite (nth_error_upd_eq _ _ _ _ Hth) in E; injection E as <- end;
  try match goal with E : nth_error (thr _) ?x = Some _, E2 : nth_error (upd (thr _) ?x _) t = Some _ |- _ =>
    destruct (Nat.eq_dec x t) as [->|?];
    [ rewrite Hth in E; injection E as <-; rewrite (nth_error_upd_eq _ _ _ _ Hth) in E2; injection E2 as <-
    | rewrite nth_error_upd_neq in E2 by assumption; rewrite Hth in E2; injection E2 as <- ] end;
  eexists; (split; [ first [ eapply nth_error_upd_eq; first [eassumption | eapply nth_error_upd_eq; eassumption]
                           | match goal with E : nth_error (thr _) ?x = Some _ |- _ =>
                               erewrite nth_error_upd_eq; [reflexivity| rewrite nth_error_upd_neq by assumption; eassumption] end ]
                   | cbn [own set_own set_main set_cbs add_cb]; reflexivity ]).

Lemma step_self_own s t e s' th :
  step s (t, e) = Some s' -> get_thread s t = Some th ->
  exists th', get_thread s' t = Some th' /\
    own th' = if acq_ev s (t, e) then true else if clr_ev s (t, e) then false else own th.
Proof.
  intros H Hth. unfold acq_ev, clr_ev. rewrite Hth. unfold get_thread in *.
  destruct th as [m cs ow]. cbn [main cbs own].
  destruct e as [o| |i|v]; cbn [step] in H; unfold call, tick, cbtick, ret, ret_ok, get_thread in H; rewrite Hth in H;
    cbn [main cbs own] in H.
  all: unfold ustep, wake, clear_own, lock_read, acquired, getq, setq, get_thread in H.
  all: brk3 H Hth.
  all: injection H as <-.
  all: cbn [thr set_mword set_festat set_thread set_thr mword mq cqs festat clr_u]; rewrite ?upd_upd; rw_eqs.
  all: try (self_fin t Hth; fail).
Qed.

Lemma upd_length {A} (l : list A) i x : length (upd l i x) = length l.
Proof. revert i; induction l as [|y r IH]; intros [|i]; cbn [upd length]; auto. Qed.

Lemma step_length s a s' : step s a = Some s' -> length (thr s') = length (thr s).
Proof.
  destruct a as [t e]. intros H.
  destruct e as [o| |i|v]; cbn [step] in H; unfold call, tick, cbtick, ret, ret_ok, get_thread in H;
    destruct (nth_error (thr s) t) as [th|] eqn:Hth; try discriminate.
  all: unfold ustep, wake, clear_own, lock_read, acquired, getq, setq, get_thread in H.
  all: brk3 H Hth.
  all: injection H as <-.
  all: cbn [thr set_mword set_festat set_thread set_thr mword mq cqs festat]; rewrite ?upd_length; reflexivity.
Qed.

Lemma holds_frame s t e s' j : step s (t, e) = Some s' -> j <> t -> holds s' j = holds s j.
Proof.
  intros H Hj. unfold holds. destruct (get_thread s j) as [thj|] eqn:E.
  - destruct (step_frame s t e s' j thj H Hj E) as [E'|(k & _ & E')]; rewrite E'; reflexivity.
  - unfold get_thread in *. apply nth_error_None in E. rewrite <- (step_length _ _ _ H) in E.
    apply nth_error_None in E. rewrite E. reflexivity.
Qed.

(* ------------------------------------------------------------------------------------ *)
(** * Trace form of mutual exclusion; trylock *)


(** ** (a) in trace form: acquire and clear events alternate, and the clear is done by the acquirer *)
Inductive mark := Acq (t : nat) | Clr (t : nat).

Definition mark_of (s : state) (a : actor) : list mark :=
  match step s a with
  | None => []
  | Some _ => if acq_ev s a then [Acq (fst a)] else if clr_ev s a then [Clr (fst a)] else []
  end.

Fixpoint marks (sched : list actor) (s : state) : list mark :=
  match sched with
  | [] => []
  | a :: r => mark_of s a ++ marks r (exec1 step s a)
  end.

Fixpoint alt (o : option nat) (l : list mark) : Prop :=
  match l with
  | [] => True
  | Acq t :: r => o = None /\ alt (Some t) r
  | Clr t :: r => o = Some t /\ alt None r
  end.

Definition holder_is (s : state) (o : option nat) : Prop :=
  match o with None => forall t, holds s t = false | Some t => holds s t = true end.

Lemma acq_nobody_holds s t e : Inv s -> acq_ev s (t, e) = true -> forall j, holds s j = false.
Proof.
  intros I H j. unfold acq_ev in H. destruct e; try discriminate.
  destruct (get_thread s t) as [th|] eqn:Hth; [|discriminate].
  pose proof (inv_twf s I t th Hth) as (_ & _ & _ & _ & W5 & _).
  pose proof (inv_seats s I) as Is. pose proof (inv_excl s I) as Ie.
  assert (SH s = 0).
  { destruct (main th); try discriminate; cbn [pc_ok] in W5; apply Z.eqb_eq in H;
      apply Z.even_spec in W5; destruct W5 as [x Hx]; lia. }
  unfold holds. destruct (get_thread s j) as [thj|] eqn:E; [|reflexivity].
  pose proof (hO_le_SH s j thj E) as G. unfold hO in G. destruct (own thj); [cbn in G; lia|reflexivity].
Qed.

Lemma clr_actor_holds s t e : Inv s -> clr_ev s (t, e) = true -> holds s t = true.
Proof.
  intros I H. unfold clr_ev in H.
  assert (exists th u, get_thread s t = Some th /\ has_act th u /\ uP u = 1) as (th & u & Hth & Ha & Hu).
  { destruct e as [| |i|]; try discriminate; destruct (get_thread s t) as [th|] eqn:Hth; try discriminate.
    - destruct (main th) eqn:Em; try discriminate. exists th, u. repeat split; auto. left; exact Em.
      destruct u; cbn in H; try discriminate; reflexivity.
    - destruct (nth_error (cbs th) i) as [c|] eqn:Ei; try discriminate. destruct c as [|u]; try discriminate.
      exists th, u. repeat split; auto. right. eapply nth_error_In; eauto.
      destruct u; cbn in H; try discriminate; reflexivity. }
  destruct (inv_twf s I t th Hth) as (W1 & _).
  assert (1 <= hP th).
  { destruct Ha as [Em|Hin]; unfold hP, hPc.
    - rewrite Em. cbn [mP]. lia.
    - apply In_nth_error in Hin. destruct Hin as [i Hi]. pose proof (sumf_ge eP _ _ _ Hi) as G. cbn [eP] in G. lia. }
  unfold holds. rewrite Hth. unfold hO in W1. destruct (own th); [reflexivity|cbn in W1; lia].
Qed.

Lemma holds_unique s t1 t2 : Inv s -> holds s t1 = true -> holds s t2 = true -> t1 = t2.
Proof.
  intros I H1 H2. destruct (Nat.eq_dec t1 t2) as [E|Hne]; [exact E|exfalso].
  pose proof (inv_excl s I) as Ie. unfold holds, get_thread in H1, H2.
  destruct (nth_error (thr s) t1) as [th1|] eqn:E1; [|discriminate].
  destruct (nth_error (thr s) t2) as [th2|] eqn:E2; [|discriminate].
  pose proof (sumf_ge2 hO (thr s) t1 t2 th1 th2 Hne E1 E2) as G. unfold hO in G at 1 2. rewrite H1, H2 in G.
  cbn in G. unfold SH in Ie. lia.
Qed.

Lemma holds_self s t e s' : step s (t, e) = Some s' ->
  holds s' t = if acq_ev s (t, e) then true else if clr_ev s (t, e) then false else holds s t.
Proof.
  intros H. unfold holds at 1 2.
  destruct (get_thread s t) as [th|] eqn:Hth.
  - destruct (step_self_own s t e s' th H Hth) as (th' & E & Ho). rewrite E. exact Ho.
  - exfalso. destruct e; cbn [step] in H; unfold call, tick, cbtick, ret, ret_ok in H; rewrite Hth in H; discriminate.
Qed.

Theorem acquire_clear_alternate sched : forall s o, reach s -> holder_is s o -> alt o (marks sched s).
Proof.
  induction sched as [|a sched IH]; intros s o R Ho; cbn [marks]; [exact Logic.I|].
  unfold mark_of, exec1. destruct (step s a) as [s'|] eqn:Hst; [|cbn [app]; apply IH; assumption].
  assert (R' : reach s') by (eapply reach_step; eauto).
  pose proof (inv_reach s R) as I. destruct a as [t e]. cbn [fst].
  pose proof (holds_self s t e s' Hst) as Hself.
  destruct (acq_ev s (t, e)) eqn:Ea.
  - pose proof (acq_nobody_holds s t e I Ea) as Hn. cbn [app alt]. split.
    + destruct o as [t0|]; [|reflexivity]. cbn in Ho. rewrite Hn in Ho. discriminate.
    + apply IH; [exact R'|]. cbn. exact Hself.
  - destruct (clr_ev s (t, e)) eqn:Ec.
    + pose proof (clr_actor_holds s t e I Ec) as Hh. cbn [app alt]. split.
      * destruct o as [t0|]; cbn in Ho; [|rewrite Ho in Hh; discriminate].
        f_equal. eapply holds_unique; eauto.
      * apply IH; [exact R'|]. cbn. intros j. destruct (Nat.eq_dec j t) as [->|Hj]; [exact Hself|].
        rewrite (holds_frame s t e s' j Hst Hj).
        destruct (holds s j) eqn:Ej; [|reflexivity]. exfalso. apply Hj. eapply holds_unique; eauto.
    + cbn [app]. apply IH; [exact R'|]. destruct o as [t0|]; cbn in *.
      * destruct (Nat.eq_dec t0 t) as [->|Hj]; [rewrite Hself; exact Ho|].
        rewrite (holds_frame s t e s' t0 Hst Hj). exact Ho.
      * intros j. destruct (Nat.eq_dec j t) as [->|Hj]; [rewrite Hself; apply Ho|].
        rewrite (holds_frame s t e s' j Hst Hj). apply Ho.
Qed.

Lemma init_nobody_holds nt nc t : holds (init_state nt nc) t = false.
Proof.
  unfold holds, get_thread, init_state. cbn [thr].
  destruct (nth_error (repeat thread0 nt) t) as [th|] eqn:E; [|reflexivity].
  apply nth_error_repeat in E. subst th. reflexivity.
Qed.

Corollary acquire_clear_alternate_init nt nc sched : alt None (marks sched (init_state nt nc)).
Proof.
  apply acquire_clear_alternate.
  - apply reach_init. exists nt, nc. reflexivity.
  - cbn. intros t. apply init_nobody_holds.
Qed.

(** ** (e) trylock / timedlock never block *)
Definition in_try (p : pc) : bool := match p with TryRead _ | TryCas _ _ | TryBusy => true | _ => false end.

Lemma trylock_nonblocking s t th s' :
  reach s -> get_thread s t = Some th -> in_try (main th) = true -> tick s t = Some s' ->
  mq s' = mq s /\ cqs s' = cqs s /\
  exists th', get_thread s' t = Some th' /\ cbs th' = cbs th /\
    (in_try (main th') = true \/ main th' = Done 0 \/ main th' = Done EBUSY) /\
    (main th' = Done EBUSY \/ main th' = TryBusy -> Z.odd (mword s) = true) /\
    (main th' = Done 0 -> Z.even (mword s) = true /\ mword s' = (mword s + 1)%Z /\ own th' = true).
Proof.
  intros R Hth Htry H. unfold tick in H. rewrite Hth in H. unfold get_thread in *.
  pose proof (inv_twf s (inv_reach s R) t th Hth) as (_ & _ & _ & _ & W5 & _).
  destruct th as [m cs ow]. cbn [main cbs own] in *.
  destruct m; try discriminate; brk3 H Hth; injection H as <-;
    cbn [thr set_mword set_festat set_thread set_thr mword mq cqs festat];
    (split; [reflexivity|]); (split; [reflexivity|]);
    rewrite (nth_error_upd_eq _ _ _ _ Hth); eexists; (split; [reflexivity|]);
    cbn [main cbs own set_main set_own in_try]; (split; [reflexivity|]).
  all: repeat split; auto; try (intros [E|E]; discriminate E); try (intros E; discriminate E); try (intros [E|E]; assumption).
  all: try match goal with E : _ = Done 0 |- _ => discriminate E end.
  all: try match goal with E : (mword _ =? ?w)%Z = true |- _ => apply Z.eqb_eq in E; rewrite E end.
  all: try reflexivity; try exact W5.
Qed.

Lemma try_undisturbed s t' e s' t th :
  step s (t', e) = Some s' -> t <> t' -> get_thread s t = Some th -> in_try (main th) = true ->
  get_thread s' t = Some th.
Proof.
  intros H Hne Hth Htry. destruct (step_frame s t' e s' t th H Hne Hth) as [E|(k & Hm & _)]; [exact E|].
  rewrite Hm in Htry. discriminate.
Qed.

Lemma try_no_enqueue_pending s t th : reach s -> get_thread s t = Some th -> in_try (main th) = true ->
  forall q u, ~ In (CbEnq q u) (cbs th).
Proof.
  intros R Hth Htry q u. pose proof (inv_twf s (inv_reach s R) t th Hth) as (_ & _ & _ & W4 & _).
  apply hE0_no_enq. apply W4. destruct (main th); try discriminate; reflexivity.
Qed.

Lemma try_call_ret s t :
  (forall s', call s t TryLock = Some s' -> exists th, get_thread s' t = Some th /\ main th = TryRead false) /\
  (forall s', call s t TimedLock = Some s' -> exists th, get_thread s' t = Some th /\ main th = TryRead true) /\
  (forall th v s', get_thread s t = Some th -> ret s t v = Some s' ->
     (main th = TryBusy -> v = ETIMEDOUT) /\ (forall r, main th = Done r -> v = r)).
Proof.
  repeat split.
  - intros s' H. unfold call in H. destruct (get_thread s t) as [th|] eqn:Hth; [|discriminate].
    destruct (main th); try discriminate. injection H as <-. unfold get_thread in *. cbn [thr set_thread set_thr].
    rewrite (nth_error_upd_eq _ _ _ _ Hth). eexists; split; reflexivity.
  - intros s' H. unfold call in H. destruct (get_thread s t) as [th|] eqn:Hth; [|discriminate].
    destruct (main th); try discriminate. injection H as <-. unfold get_thread in *. cbn [thr set_thread set_thr].
    rewrite (nth_error_upd_eq _ _ _ _ Hth). eexists; split; reflexivity.
  - intros Hm. unfold ret, ret_ok in H0. rewrite H in H0. rewrite Hm in H0.
    destruct (v =? ETIMEDOUT)%Z eqn:E; [|discriminate]. apply Z.eqb_eq in E. exact E.
  - intros r Hm. unfold ret, ret_ok in H0. rewrite H in H0. rewrite Hm in H0.
    destruct (v =? r)%Z eqn:E; [|discriminate]. apply Z.eqb_eq in E. exact E.
Qed.

Lemma reach_run nt nc sched : reach (run step sched (init_state nt nc)).
Proof. apply run_reachable. apply reach_init. exists nt, nc. reflexivity. Qed.
