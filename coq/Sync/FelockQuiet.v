(** C09 - full/empty lock, part 7: quiescent states.

    Two more inductive invariants of the felock system (an owner on the lock path still has its
    releasing callback in flight; a thread in a signaller's hand resumes at the status test of the
    signalled status), the bridge to the mutex theorems of C04 (Sync/MutexProofs.v, imported
    qualified: its measures have the same names as ours), and the characterisation of the states
    of disciplined / mailbox programs in which nothing at all is enabled. *)
From Coq Require Import ZArith List Bool Lia Arith Permutation.
From MT Require Import Lib.Interleave Sync.SyncModel Sync.FelockBase Sync.FelockOwn Sync.FelockInv
  Sync.FelockProofs Sync.FelockExchange Sync.FelockMailbox.
From MT Require Sync.MutexProofs.
Import ListNotations.
Local Open Scope Z_scope.

(* ------------------------------------------------------------------------------------------ *)
(** * two more invariants *)

Record InvQ (s : state) : Prop := {
  (** an owner whose main activity is on the lock path is a waiter whose callback has not yet
      released the lock on its behalf *)
  q_own : forall t th, get_thread s t = Some th -> own th = true -> lockpath (main th) = true ->
          nclear (cbs th) = 1%nat;
  (** the thread a mark_and_signal has dequeued from cond[c] resumes at the status test for c *)
  q_hand : forall t th c x, get_thread s t = Some th -> main th = SigPush c ASUnlock x ->
           exists thx, get_thread s x = Some thx /\ main thx = Susp (ALFe (Z.of_nat c)) }.

Lemma InvQ_init s : finit s -> InvQ s.
Proof.
  intros [nt ->]. split.
  - intros t th H. apply nth_error_repeat in H. subst. discriminate.
  - intros t th c x H. apply nth_error_repeat in H. subst. discriminate.
Qed.

Lemma hands_ge2 s t u th thu x : t <> u -> get_thread s t = Some th -> get_thread s u = Some thu ->
  (th_hand th x + th_hand thu x <= hands s x)%nat.
Proof.
  unfold hands, get_thread. generalize (thr s). intros l. revert t u.
  induction l as [|a l IH]; intros [|t] [|u] N A B; cbn in *; try discriminate; try congruence.
  - inv A. pose proof (sumf_nth_le (fun th => th_hand th x) _ _ _ B). lia.
  - inv B. pose proof (sumf_nth_le (fun th => th_hand th x) _ _ _ A). lia.
  - assert (t <> u) by congruence. specialize (IH _ _ H A B). lia.
Qed.

(** who is woken by a step: it was in the actor's hand *)
Lemma woken_in_hand s u thu e s' x thx k :
  srel s u thu e s' -> get_thread s u = Some thu -> x <> u ->
  get_thread s x = Some thx -> main thx = Susp k ->
  get_thread s' x = Some (set_main thx (LockRead k)) -> (1 <= th_hand thu x)%nat.
Proof.
  intros R Hu Hx Gx Mx G'.
  assert (Hne : set_main thx (LockRead k) <> thx).
  { intros E. apply (f_equal main) in E. cbn in E. congruence. }
  inversion R; subst; clear R; try (rewrite get_other in G' by exact Hx; gts; congruence).
  - match goal with U : urel _ _ _ _ _ _ _, Hm : main thu = _ |- _ =>
      rewrite get_other in G' by exact Hx; inv U; gts; try congruence; unfold th_hand; rewrite Hm end.
    destruct (Nat.eq_dec x0 x) as [->|N]; [cbn; rewrite Nat.eqb_refl; cbn; lia|].
    rewrite get_other in G' by auto. congruence.
  - rewrite get_other in G' by exact Hx.
    match goal with Hm : main thu = _ |- _ => unfold th_hand; rewrite Hm end.
    destruct (Nat.eq_dec x0 x) as [->|N]; [cbn; rewrite Nat.eqb_refl; cbn; lia|].
    rewrite get_other in G' by auto. congruence.
  - match goal with U : urel _ _ _ _ _ _ _, Hc : nth_error (cbs thu) _ = _ |- _ =>
      rewrite get_other in G' by exact Hx; inv U; gts; try congruence;
      pose proof (sumf_nth_le (fun c => cb_hand c x) _ _ _ Hc) as L end.
    destruct (Nat.eq_dec x0 x) as [->|N].
    + cbn in L. rewrite Nat.eqb_refl in L. unfold th_hand. cbn in L. lia.
    + rewrite get_other in G' by auto. congruence.
Qed.

Lemma urel_own_pre s t th u s1 th1 r :
  urel s t th u s1 th1 r ->
  (own th1 = own th /\ ures_pre r = upc_preclear u) \/ own th1 = false.
Proof. intros U; inv U; cbn; auto. Qed.

Lemma InvQ_step s a s' : Inv s -> InvQ s -> fstep s a = Some s' -> InvQ s'.
Proof.
  intros I Q H. destruct a as [u e]. destruct (fstep_thread _ _ _ _ H) as [thu Hu].
  pose proof (i1_thr _ (inv_1 _ I) _ _ Hu) as T.
  pose proof (step_srel _ _ _ _ _ Hu (t1_pc _ T) H) as R.
  assert (N0 : lockpath (main thu) = false -> nclear (cbs thu) = 0%nat).
  { intros L. pose proof (t1_le _ T). destruct (nclear (cbs thu)) as [|[|n]] eqn:E; [reflexivity| |lia].
    destruct (t1_cbown _ T E). congruence. }
  split.
  - (* q_own *)
    intros v thv' Gv Ov Lv. destruct (Nat.eq_dec v u) as [->|Hv].
    + pose proof (q_own _ Q _ _ Hu) as IH.
      inversion R; subst; clear R;
        try (rewrite get_same in Gv by (gts; congruence); inv Gv; gts;
             repeat match goal with Hm : main thu = _ |- _ => rewrite Hm in * end;
             cbn in *; rewrite ?nclear_app; cbn; try discriminate; try congruence;
             try (rewrite IH by auto; reflexivity); fail).
      * (* cas1_ok *) rewrite get_same in Gv by (gts; congruence). inv Gv. destruct k; discriminate.
      * (* unl *)
        match goal with U : urel _ _ _ _ _ _ _ |- _ => destruct (urel_frame _ _ _ _ _ _ _ U Hu) as [G1 _] end.
        rewrite get_same in Gv by congruence. inv Gv. destruct r; discriminate.
      * (* sigpush *)
        rewrite get_same in Gv by (rewrite get_other by auto; congruence). inv Gv. discriminate.
      * (* feread_wait *)
        rewrite get_same in Gv by (gts; congruence). inv Gv. gts. rewrite nclear_app. cbn.
        rewrite N0; [reflexivity|]. match goal with Hm : main thu = _ |- _ => rewrite Hm end. reflexivity.
      * (* cbenq *)
        rewrite get_same in Gv by (gts; congruence). inv Gv. gts.
        match goal with Hc : nth_error (cbs thu) _ = _ |- _ =>
          pose proof (nclear_upd _ _ _ (CbUnl (URead 0)) Hc) as Hup; pose proof (nclear_remove _ _ _ Hc) as Hrm end.
        cbn in Ov, Lv, Hup, Hrm. specialize (IH Ov Lv). destruct unl; cbn in *; lia.
      * (* cbunl *)
        match goal with U : urel _ _ _ _ _ _ _, Hc : nth_error (cbs thu) _ = _ |- _ =>
          destruct (urel_frame _ _ _ _ _ _ _ U Hu) as [G1 _];
          pose proof (urel_own_pre _ _ _ _ _ _ _ U) as Ho; pose proof (urel_own _ _ _ _ _ _ _ U) as Hm;
          assert (Hcbs : cbs th1 = cbs thu) by (inv U; reflexivity);
          pose proof (nclear_cbs_next _ _ _ r Hc) as Hn end.
        rewrite get_same in Gv by congruence. inv Gv. gts. cbn in Ov, Lv.
        destruct Ho as [[Eo Ep]|Eo]; [|congruence]. rewrite Hcbs, Ep in *.
        assert (L0 : lockpath (main thu) = true).
        { destruct Hm as [E|(k & A & E)]; [congruence|rewrite A; reflexivity]. }
        rewrite Eo in Ov. specialize (IH Ov L0). lia.
    + destruct (get_thread s v) as [thv|] eqn:Gs.
      * destruct (step_thread_effect _ _ _ _ _ _ I H Gs) as (thv2 & G2 & X).
        rewrite Gv in G2. inv G2. destruct (X Hv) as (Eo & Ec & Em).
        rewrite Ec. apply (q_own _ Q _ _ Gs); [congruence|].
        destruct Em as [E|(k & A & E)]; [congruence|rewrite A; reflexivity].
      * exfalso. destruct (srel_frame _ _ _ _ _ R Hu v Hv) as [E|(th0 & k & A & _)]; congruence.
  - (* q_hand *)
    intros t th' c x Gt Mt.
    (* the thread in the hand does not change *)
    assert (Keep : forall th, get_thread s t = Some th -> (1 <= th_hand th x)%nat ->
              forall thx, get_thread s x = Some thx -> x <> t ->
              (u = t -> forall k, main thx = Susp k -> get_thread s' x <> Some (set_main thx (LockRead k))) ->
              exists thx', get_thread s' x = Some thx' /\ main thx' = main thx).
    { intros th Gth Hh thx Gx Hxt Hself.
      destruct (hand_exclusive _ _ _ _ (inv_2 _ I) Gth Hh) as [C1 C2].
      destruct (Nat.eq_dec x u) as [->|Hxu].
      - (* x itself acts: it is suspended, so only its callbacks run; it cannot push itself *)
        destruct (srel_self _ _ _ _ _ R Hu) as [thx' Gx']. exists thx'. split; [exact Gx'|].
        assert (thx = thu) by congruence. subst thx.
        destruct (hand_suspended _ _ _ _ I Gth Hh) as (th0 & k & G0 & M0). rewrite Hu in G0. inv G0.
        inversion R; subst; clear R; try congruence.
        + rewrite get_same in Gx' by (gts; congruence). inv Gx'. reflexivity.
        + match goal with U : urel _ _ _ _ _ _ _, Hc : nth_error (cbs th0) _ = _ |- _ =>
            destruct (urel_frame _ _ _ _ _ _ _ U Hu) as [G1 _];
            pose proof (sumf_nth_le (fun c => cb_hand c u) _ _ _ Hc) as L; rename U into HU end.
          rewrite get_same in Gx' by congruence. inv Gx'. gts.
          inv HU; try reflexivity.
          exfalso. cbn in L. rewrite Nat.eqb_refl in L. cbn in L.
          pose proof (hands_ge2 _ t u th th0 u (fun E => Hxt (eq_sym E)) Gth Hu) as G2. unfold th_hand in G2 at 2.
          pose proof (i2_sl _ (inv_2 _ I) u) as E. pose proof (SUSP_le1 s1 u). unfold occ in E. lia.
      - destruct (srel_frame _ _ _ _ _ R Hu x Hxu) as [E|(th0 & k & A & B & C)].
        + exists thx. rewrite E. auto.
        + exfalso. rewrite Gx in A. inv A.
          pose proof (woken_in_hand _ _ _ _ _ _ _ _ R Hu Hxu Gx B C) as Hw.
          destruct (Nat.eq_dec u t) as [->|Hut].
          * eapply (Hself eq_refl); eauto.
          * pose proof (hands_ge2 s t u th thu x (fun E => Hut (eq_sym E)) Gth Hu) as G2.
            pose proof (i2_sl _ (inv_2 _ I) x) as E. pose proof (SUSP_le1 s x). unfold occ in E. lia. }
    destruct (Nat.eq_dec t u) as [->|Htu].
    + (* the actor is at SigPush after the step *)
      inversion R; subst; clear R;
        try (rewrite get_same in Gt by (gts; congruence); inv Gt; gts; cbn in Mt; try discriminate;
             try (destruct k; discriminate); fail).
      * (* unl *)
        match goal with U : urel _ _ _ _ _ _ _ |- _ => destruct (urel_frame _ _ _ _ _ _ _ U Hu) as [G1 _] end.
        rewrite get_same in Gt by congruence. inv Gt. destruct r; discriminate.
      * (* sigdeq: x is the head of cond[c] *)
        rewrite get_same in Gt by (gts; congruence). inv Gt. cbn in Mt. inv Mt.
        match goal with Q0 : getq s (QC _) = _ |- _ => cbn [getq] in Q0;
          destruct (i2_q _ (inv_2 _ I) c x) as (thx & Gx & Mx); [rewrite Q0; left; reflexivity|] end.
        assert (x <> u) by (intros ->; congruence).
        exists thx. rewrite get_other by auto. gts. auto.
      * (* sigpush *) rewrite get_same in Gt by (rewrite get_other by auto; congruence). inv Gt. discriminate.
      * (* cbenq: main unchanged *)
        rewrite get_same in Gt by (gts; congruence). inv Gt. cbn in Mt.
        destruct (q_hand _ Q _ _ _ _ Hu Mt) as (thx & Gx & Mx).
        assert (Hxu : x <> u) by (intros ->; congruence).
        exists thx. rewrite get_other by auto. gts. auto.
      * (* cbunl *)
        match goal with U : urel _ _ _ _ _ _ _, Hc : nth_error (cbs thu) _ = _ |- _ =>
          destruct (urel_frame _ _ _ _ _ _ _ U Hu) as [G1 F1];
          pose proof (urel_own _ _ _ _ _ _ _ U) as Hm; rename U into HU; rename Hc into HC end.
        rewrite get_same in Gt by congruence. inv Gt. cbn in Mt.
        assert (Mu : main thu = SigPush c ASUnlock x) by (destruct Hm as [E|(k & A & E)]; congruence).
        destruct (q_hand _ Q _ _ _ _ Hu Mu) as (thx & Gx & Mx).
        assert (Hxu : x <> u) by (intros ->; congruence).
        assert (Hh : (1 <= th_hand thu x)%nat).
        { unfold th_hand. rewrite Mu. cbn. rewrite Nat.eqb_refl. cbn. lia. }
        rewrite get_other by auto.
        destruct (F1 x Hxu) as [E|(th0 & k & A & B & C)]; [exists thx; rewrite E; auto|]. exfalso.
        (* the callback would push x, which is already in the main activity's hand *)
        rewrite Gx in A. inv A.
        inv HU; gts; try congruence;
          try (rewrite Gx in C; injection C as C; apply (f_equal main) in C; cbn in C; congruence).
        destruct (Nat.eq_dec x0 x) as [->|N];
          [|rewrite get_other in C by auto; rewrite Gx in C; injection C as C; apply (f_equal main) in C; cbn in C; congruence].
        pose proof (sumf_nth_le (fun c => cb_hand c x) _ _ _ HC) as L. cbn in L. rewrite Nat.eqb_refl in L. cbn in L.
        pose proof (hands_ge _ _ _ x Hu) as G2. unfold th_hand in G2. rewrite Mu in G2. cbn in G2.
        rewrite Nat.eqb_refl in G2. cbn in G2.
        pose proof (i2_sl _ (inv_2 _ I) x) as E. pose proof (SUSP_le1 s x). unfold occ in E. lia.
    + (* another thread acts *)
      destruct (get_thread s t) as [th|] eqn:Gs.
      * destruct (step_thread_effect _ _ _ _ _ _ I H Gs) as (th2 & G2 & X).
        rewrite Gt in G2. inv G2. destruct (X Htu) as (_ & _ & Em).
        assert (Ms : main th = SigPush c ASUnlock x) by (destruct Em as [E|(k & A & E)]; congruence).
        destruct (q_hand _ Q _ _ _ _ Gs Ms) as (thx & Gx & Mx).
        assert (Hxt : x <> t) by (intros ->; congruence).
        assert (Hh : (1 <= th_hand th x)%nat).
        { unfold th_hand. rewrite Ms. cbn. rewrite Nat.eqb_refl. cbn. lia. }
        destruct (Keep th eq_refl Hh thx Gx Hxt) as (thx' & Gx' & Mx').
        { intros E. congruence. }
        exists thx'. split; [exact Gx'|congruence].
      * exfalso. destruct (srel_frame _ _ _ _ _ R Hu t Htu) as [E|(th0 & k & A & _)]; congruence.
Qed.

Lemma InvQ_reach s : freach s -> InvQ s.
Proof.
  intros Hr. induction Hr as [s Hi|s a s' Hr IH H]; [apply InvQ_init; exact Hi|].
  eapply InvQ_step; eauto. apply Inv_reach. exact Hr.
Qed.

Lemma greach_freach pl g : greach pl g -> freach (base g).
Proof.
  intros Hr. induction Hr as [g Hi|g a g' Hr IH H].
  - apply reach_init. eapply ginit_base; eauto.
  - destruct (gstep_base _ _ _ H) as [->|(b & F)]; [exact IH|]. eapply reach_step; eauto.
Qed.

(** bridge to C04: the felock system is a sub-system of the unrestricted model *)
Lemma fstep_step s a s' : fstep s a = Some s' -> step s a = Some s'.
Proof. unfold fstep. destruct a as [t e]; cbn [snd]. destruct e; auto. destruct (fe_op o); [auto|discriminate]. Qed.

Lemma freach_reach s : freach s -> MutexProofs.reach s.
Proof.
  intros Hr. induction Hr as [s [nt ->]|s a s' Hr IH H].
  - apply reach_init. exists nt, 2%nat. reflexivity.
  - eapply reach_step; [exact IH|]. apply fstep_step. exact H.
Qed.

(** a callback that will still clear the lock bit can always step while the bit is set *)
Lemma clearing_cb_enabled s t th i c :
  Inv s -> get_thread s t = Some th -> nth_error (cbs th) i = Some c -> cb_clears c = true ->
  Z.odd (mword s) = true -> exists s', fstep s (t, ECbTick i) = Some s'.
Proof.
  intros I G Hc Hcl Hodd. unfold fstep; cbn [snd step]. unfold cbtick. rewrite G, Hc.
  destruct c as [q unl|u]; [eauto|]. cbn in Hcl.
  assert (Hput : forall s1 (f : thread -> list cbpc), get_thread s1 t <> None ->
            exists s', match get_thread s1 t with
                       | Some th' => Some (set_thread s1 t (set_cbs th' (f th'))) | None => None end = Some s').
  { intros s1 f N. destruct (get_thread s1 t); [eauto|congruence]. }
  destruct u as [nf|nf w|nf w|nf|nf x|nf x]; cbn [ustep]; try discriminate.
  - rewrite Zeven_odd, Hodd. cbn. destruct (mword s >? 1); apply (Hput s (fun th' => upd (cbs th') i _)); congruence.
  - destruct (mword s =? 1).
    + rewrite (clear_own_eq _ _ th) by (gts; exact G).
      apply (Hput _ (fun th' => remove_nth (cbs th') i)). rewrite get_same by (gts; congruence). discriminate.
    + apply (Hput s (fun th' => upd (cbs th') i _)). congruence.
  - destruct (mword s =? w); apply (Hput _ (fun th' => upd (cbs th') i _)); gts; congruence.
  - destruct (mq s); apply (Hput _ (fun th' => upd (cbs th') i _)); gts; congruence.
  - rewrite (clear_own_eq _ _ th) by (gts; exact G).
    apply (Hput _ (fun th' => upd (cbs th') i _)). rewrite get_same by (gts; congruence). discriminate.
Qed.

(** a thread blocked for good: suspended in its wait_and_lock(st) on cond[st] while status <> st *)
Definition blocked_on_status (g : gstate) (t : nat) (gt : gthread) (th : thread) : Prop :=
  pend gt = true /\ exists st r, prog gt = AFeWL st :: r /\ main th = Susp (ALFe st) /\
    In t (getq (base g) (QC (Z.to_nat st))) /\ festat (base g) <> st.

Theorem quiescent_characterisation pl g :
  discs pl -> greach pl g -> gquiet g ->
  mq (base g) = [] /\ (forall u, holds (base g) u = false) /\ Z.odd (mword (base g)) = false /\
  forall t gt th, nth_error (gth g) t = Some gt -> get_thread (base g) t = Some th ->
    (prog gt = [] /\ pend gt = false /\ main th = Idle) \/ blocked_on_status g t gt th.
Proof.
  intros Hd Hr Hq. destruct (DInv_reach _ _ Hd Hr) as [I GR TK].
  pose proof (greach_freach _ _ Hr) as Fr. pose proof (InvQ_reach _ Fr) as Q.
  set (s := base g) in *.
  assert (Ntick : forall u s', fstep s (u, ETick) = Some s' -> False).
  { intros u s' F. pose proof (Hq u GTick) as X. unfold gstep in X.
    destruct (fstep_thread _ _ _ _ F) as [thu Gu]. destruct (ghost_exists _ _ _ GR Gu) as [gu Hgu].
    fold s in X. rewrite Hgu, F in X. discriminate. }
  assert (Ncb : forall u i s', fstep s (u, ECbTick i) = Some s' -> False).
  { intros u i s' F. pose proof (Hq u (GCbTick i)) as X. unfold gstep in X.
    destruct (fstep_thread _ _ _ _ F) as [thu Gu]. destruct (ghost_exists _ _ _ GR Gu) as [gu Hgu].
    fold s in X. rewrite Hgu, F in X. discriminate. }
  (* every thread is finished or suspended on the lock path of a wait_and_lock / lock call *)
  assert (Hshape : forall t gt th, nth_error (gth g) t = Some gt -> get_thread s t = Some th ->
            (prog gt = [] /\ pend gt = false /\ main th = Idle /\ own th = false) \/
            (pend gt = true /\ exists k, main th = Susp k /\
               ((exists st r, prog gt = AFeWL st :: r /\ k = ALFe st /\ valid_st st = true) \/
                (exists r, prog gt = ALock :: r /\ k = ALRet)))).
  { intros t gt th Hgt Hth. destruct (gr_thr _ GR _ _ _ Hgt Hth) as [Hg Hw].
    unfold grel in Hg. unfold wfp in Hw. destruct (pend gt) eqn:Hp.
    - right. split; [reflexivity|].
      destruct (prog gt) as [|[st|st| | |v|] r] eqn:Hpr; try contradiction; cbn [head_mode disc] in Hw.
      + apply andb_prop in Hw. destruct Hw as [V _]. unfold lock_pc in Hg.
        destruct Hg as [[E|[(w & E)|[(w & E)|E]]]|[E|[E _]]].
        * exfalso. destruct (lock_tick_enabled _ _ _ Hth) as [s' F]; [rewrite E; eauto 8|eauto].
        * exfalso. destruct (lock_tick_enabled _ _ _ Hth) as [s' F]; [rewrite E; eauto 8|eauto].
        * exfalso. destruct (lock_tick_enabled _ _ _ Hth) as [s' F]; [rewrite E; eauto 8|eauto].
        * exists (ALFe st). split; [exact E|]. left. eauto.
        * exfalso. destruct (lock_tick_enabled _ _ _ Hth) as [s' F]; [rewrite E; eauto 8|eauto].
        * exfalso. pose proof (Hq t (GRet 0)) as X. unfold gstep in X. rewrite Hgt, Hp in X.
          unfold fstep in X; cbn [snd step] in X. unfold ret, ret_ok in X. fold s in X. rewrite Hth, E in X. discriminate.
      + exfalso. destruct Hg as [[Hr0|[(u0 & E)|E]] _].
        * destruct (mark_never_stuck _ _ _ I Hth) as [s' F]; [|eauto]. unfold rel_pc in Hr0. unfold fems_pc.
          destruct Hr0 as [E|[E|(x & E)]]; rewrite E; eauto 8.
        * destruct (mark_never_stuck _ _ _ I Hth) as [s' F]; [|eauto]. unfold fems_pc. rewrite E. eauto 8.
        * pose proof (Hq t (GRet 0)) as X. unfold gstep in X. rewrite Hgt, Hp in X.
          unfold fstep in X; cbn [snd step] in X. unfold ret, ret_ok in X. fold s in X. rewrite Hth, E in X. discriminate.
      + unfold lock_pc in Hg. destruct Hg as [[E|[(w & E)|[(w & E)|E]]]|[E _]].
        * exfalso. destruct (lock_tick_enabled _ _ _ Hth) as [s' F]; [rewrite E; eauto 8|eauto].
        * exfalso. destruct (lock_tick_enabled _ _ _ Hth) as [s' F]; [rewrite E; eauto 8|eauto].
        * exfalso. destruct (lock_tick_enabled _ _ _ Hth) as [s' F]; [rewrite E; eauto 8|eauto].
        * exists ALRet. split; [exact E|]. right. eauto.
        * exfalso. pose proof (Hq t (GRet 0)) as X. unfold gstep in X. rewrite Hgt, Hp in X.
          unfold fstep in X; cbn [snd step] in X. unfold ret, ret_ok in X. fold s in X. rewrite Hth, E in X. discriminate.
      + exfalso. destruct Hg as [[(u0 & E)|E] _].
        * destruct (mark_never_stuck _ _ _ I Hth) as [s' F]; [|eauto]. unfold fems_pc. rewrite E. eauto 8.
        * pose proof (Hq t (GRet 0)) as X. unfold gstep in X. rewrite Hgt, Hp in X.
          unfold fstep in X; cbn [snd step] in X. unfold ret, ret_ok in X. fold s in X. rewrite Hth, E in X. discriminate.
    - destruct Hg as [Hm Ho].
      destruct (prog gt) as [|[st|st| | |v|] r] eqn:Hpr; cbn [head_mode disc] in *.
      + left. auto.
      + exfalso. apply andb_prop in Hw. destruct Hw as [V _].
        pose proof (Hq t GCall) as X. unfold gstep in X. rewrite Hgt, Hp, Hpr in X. cbn [act_op] in X.
        unfold fstep in X; cbn [snd fe_op step] in X. rewrite V in X. unfold call in X. fold s in X.
        rewrite Hth, Hm, Ho in X. discriminate.
      + exfalso. apply andb_prop in Hw. destruct Hw as [V _].
        pose proof (Hq t GCall) as X. unfold gstep in X. rewrite Hgt, Hp, Hpr in X. cbn [act_op] in X.
        unfold fstep in X; cbn [snd fe_op step] in X. rewrite V in X. unfold call in X. fold s in X.
        rewrite Hth, Hm, Ho in X. discriminate.
      + exfalso. pose proof (Hq t GCall) as X. unfold gstep in X. rewrite Hgt, Hp, Hpr in X. cbn [act_op] in X.
        unfold fstep in X; cbn [snd fe_op step] in X. unfold call in X. fold s in X.
        rewrite Hth, Hm, Ho in X. discriminate.
      + exfalso. pose proof (Hq t GCall) as X. unfold gstep in X. rewrite Hgt, Hp, Hpr in X. cbn [act_op] in X.
        unfold fstep in X; cbn [snd fe_op step] in X. unfold call in X. fold s in X.
        rewrite Hth, Hm, Ho in X. discriminate.
      + exfalso. pose proof (Hq t GLocal) as X. unfold gstep in X. rewrite Hgt, Hp, Hpr in X. discriminate.
      + exfalso. pose proof (Hq t GLocal) as X. unfold gstep in X. rewrite Hgt, Hp, Hpr in X. discriminate. }
  (* nobody owns the lock *)
  assert (Hnown : forall u thu, get_thread s u = Some thu -> own thu = false).
  { intros u thu Gu. destruct (own thu) eqn:Ou; [exfalso|reflexivity].
    destruct (ghost_exists _ _ _ GR Gu) as [gu Hgu].
    destruct (Hshape _ _ _ Hgu Gu) as [(_ & _ & _ & O)|(_ & k & Mk & _)]; [congruence|].
    assert (Hodd : Z.odd (mword s) = true).
    { destruct (Z.odd (mword s)) eqn:E; [reflexivity|]. pose proof (i1_even _ (inv_1 _ I) E _ _ Gu). congruence. }
    assert (N : nclear (cbs thu) = 1%nat) by (apply (q_own _ Q _ _ Gu Ou); rewrite Mk; reflexivity).
    destruct (sumf_pos_nth (fun c => b2n (cb_clears c)) (cbs thu)) as (i & c & Hi & Hc); [unfold nclear in N; lia|].
    destruct (clearing_cb_enabled _ _ _ _ _ I Gu Hi) as [s' F]; [destruct (cb_clears c); [reflexivity|cbn in Hc; lia]|exact Hodd|eauto]. }
  assert (Heven : Z.odd (mword s) = false).
  { destruct (Z.odd (mword s)) eqn:E; [exfalso|reflexivity].
    destruct (i1_odd _ (inv_1 _ I) E) as (u & thu & Gu & Ou). rewrite (Hnown _ _ Gu) in Ou. discriminate. }
  (* C04: a quiescent state with a sleeper in the mutex queue has the lock bit set *)
  assert (Hmq : mq s = []).
  { destruct (MutexProofs.quiescent_no_sleeper s (freach_reach _ Fr)) as [_ X].
    - split.
      + intros t. destruct (tick s t) as [s'|] eqn:E; [exfalso|reflexivity]. eapply (Ntick t s'). exact E.
      + intros t i. destruct (cbtick s t i) as [s'|] eqn:E; [exfalso|reflexivity]. eapply (Ncb t i s'). exact E.
    - destruct (mq s) eqn:E; [reflexivity|]. rewrite X in Heven; [discriminate|discriminate]. }
  split; [exact Hmq|]. split.
  { intros u. unfold holds. fold s. destruct (get_thread s u) as [thu|] eqn:Gu; [eapply Hnown; eauto|reflexivity]. }
  split; [exact Heven|].
  intros t gt th Hgt Hth. destruct (Hshape _ _ _ Hgt Hth) as [(A & B & C & _)|(Hp & k & Mk & Hk)]; [left; auto|right].
  (* where is the suspended thread?  not pending, not in a hand, not in the mutex queue *)
  pose proof (i2_sl _ (inv_2 _ I) t) as SL. unfold SUSP, ENQ in SL. rewrite Hth, Mk in SL. cbn in SL.
  assert (Een : nenq th = 0%nat).
  { destruct (nenq th) eqn:X; [reflexivity|]. exfalso.
    destruct (sumf_pos_nth cb_enq (cbs th)) as (i & c & Hi & Hc); [unfold nenq in X; lia|].
    destruct c as [q unl|u]; [|cbn in Hc; lia].
    destruct (cbtick_enabled _ _ _ _ _ I Hth Hi) as [s' F]; [left; eauto|]. eapply Ncb; eauto. }
  assert (Eh : hands s t = 0%nat).
  { destruct (hands s t) eqn:X; [reflexivity|]. exfalso.
    destruct (sumf_pos_nth (fun th => th_hand th t) (thr s)) as (u & thu & Gu & Hu); [unfold hands in X; lia|].
    change (get_thread s u = Some thu) in Gu. unfold th_hand in Hu.
    destruct (pc_hand (main thu) t) eqn:Y.
    - destruct (sumf_pos_nth (fun c => cb_hand c t) (cbs thu)) as (i & c & Hi & Hc); [lia|].
      destruct c as [q unl|[nf|nf w|nf w|nf|nf x|nf x]]; cbn in Hc; try lia.
      + destruct (cbtick_enabled _ _ _ _ _ I Gu Hi) as [s' F]; [right; left; eauto|]. eapply Ncb; eauto.
      + destruct (cbtick_enabled _ _ _ _ _ I Gu Hi) as [s' F]; [right; right; eauto|]. eapply Ncb; eauto.
    - destruct (mark_never_stuck _ _ _ I Gu) as [s' F]; [|eapply Ntick; eauto].
      unfold fems_pc. pose proof (t1_pc _ (i1_thr _ (inv_1 _ I) _ _ Gu)) as P.
      destruct (main thu) eqn:M; cbn in Y; try discriminate.
      + right; right; right. eauto.
      + unfold fe_pc in P. apply andb_prop in P. destruct P as [_ P]. destruct k0; try discriminate.
        right; right; left. eauto. }
  assert (Ecq : cqcount s t = 1%nat).
  { unfold occ in SL. rewrite Hmq, Eh, Een in SL. cbn in SL. lia. }
  destruct (sumf_pos_nth (fun q => qcount q t) (cqs s)) as (c & q & Hc & Hcq); [unfold cqcount in Ecq; lia|].
  assert (Hnth : nth c (cqs s) [] = q).
  { clear -Hc. revert c Hc. induction (cqs s) as [|a l IH]; intros [|c] H; cbn in *; try discriminate; [congruence|auto]. }
  assert (Hin : In t (nth c (cqs s) [])) by (rewrite Hnth; apply qcount_pos_in; exact Hcq).
  destruct (i2_q _ (inv_2 _ I) _ _ Hin) as (th0 & G0 & M0). rewrite Hth in G0. inv G0.
  destruct Hk as [(st & r & Hpr & -> & V)|(r & Hpr & ->)]; [|congruence].
  assert (Est : st = Z.of_nat c) by congruence. subst st.
  split; [exact Hp|]. exists (Z.of_nat c), r. split; [exact Hpr|]. split; [exact Mk|].
  rewrite Nat2Z.id. split; [exact Hin|].
  intros Ef. destruct (quiescent_waiter_blocked_on_mutex pl g (Z.of_nat c) Hd Hr Hq V Ef) as (z & thz & _ & _ & Hz).
  - rewrite Nat2Z.id. cbn [getq]. fold s. intros E. rewrite E in Hin. contradiction.
  - fold s in Hz. rewrite Hmq in Hz. contradiction.
Qed.

(** unconditional form of the quiescence corollary: in a state where nothing is enabled no
    thread waits on the condition queue of the current status *)
Theorem quiescent_no_matching_waiter pl g st :
  discs pl -> greach pl g -> gquiet g -> valid_st st = true ->
  festat (base g) = st -> getq (base g) (QC (Z.to_nat st)) = [].
Proof.
  intros Hd Hr Hq Hv Hf. destruct (getq (base g) (QC (Z.to_nat st))) as [|x r] eqn:E; [reflexivity|exfalso].
  destruct (quiescent_characterisation _ _ Hd Hr Hq) as (Hmq & _).
  destruct (quiescent_waiter_blocked_on_mutex pl g st Hd Hr Hq Hv Hf) as (z & thz & _ & _ & Hz).
  - rewrite E. discriminate.
  - rewrite Hmq in Hz. contradiction.
Qed.

(** the woken thread resumes at the status test of the signalled status *)
Theorem woken_resumes_at_test s t th c x s' :
  freach s -> get_thread s t = Some th -> main th = SigPush c ASUnlock x -> fstep s (t, ETick) = Some s' ->
  (exists thx, get_thread s x = Some thx /\ main thx = Susp (ALFe (Z.of_nat c))) /\
  exists thx', get_thread s' x = Some thx' /\ main thx' = LockRead (ALFe (Z.of_nat c)) /\
               fewl_pc (Z.of_nat c) (main thx').
Proof.
  intros Hr Hth Hm H. destruct (q_hand _ (InvQ_reach _ Hr) _ _ _ _ Hth Hm) as (thx & Gx & Mx).
  split; [eauto|].
  destruct (mark_and_signal_steps s t th Hr Hth) as (_ & _ & P).
  destruct (P c x Hm) as (_ & thx0 & k & Hxt & Gx0 & Mx0 & F).
  rewrite H in F. inv F. rewrite Gx in Gx0. inv Gx0.
  assert (k = ALFe (Z.of_nat c)) by congruence. subst k.
  eexists. split; [rewrite get_other by exact Hxt; apply get_same; congruence|].
  cbn. split; [reflexivity|]. left. reflexivity.
Qed.

(* ------------------------------------------------------------------------------------------ *)
(** * quiescent states of mailbox programs *)

(** each thread is a producer, a consumer or a plain locker (never puts AND takes) *)
Definition pure (p : list action) : Prop := nputs p = 0%nat \/ ntakes p = 0%nat.

Lemma nputs_tl p : (nputs (tl p) <= nputs p)%nat.
Proof. destruct p as [|[] r]; cbn; lia. Qed.
Lemma ntakes_tl p : (ntakes (tl p) <= ntakes p)%nat.
Proof. destruct p as [|[] r]; cbn; lia. Qed.

Lemma pure_tl p : pure p -> pure (tl p).
Proof. intros [H|H]; [left|right]; [pose proof (nputs_tl p)|pose proof (ntakes_tl p)]; lia. Qed.

Lemma pure_reach pl g : (forall p, In p pl -> pure p) -> greach pl g ->
  forall t gt, nth_error (gth g) t = Some gt -> pure (prog gt).
Proof.
  intros Hp Hr. induction Hr as [g Hi|g a g' Hr IH H].
  - rewrite Hi. cbn. intros t gt G. apply nth_error_In in G. apply in_map_iff in G.
    destruct G as (p & <- & Hin). cbn. auto.
  - destruct a as [u e]. destruct (gstep_inv _ _ _ _ H) as (gu & Hgu & Hc).
    assert (Hupd : forall g1 gu', gth g1 = gth g -> pure (prog gu') ->
              forall t gt, nth_error (gth (set_gth g1 u gu')) t = Some gt -> pure (prog gt)).
    { intros g1 gu' E P t gt G. cbn in G. rewrite E in G. destruct (Nat.eq_dec t u) as [->|N].
      - rewrite (nth_error_upd_same _ _ _ _ Hgu) in G. inv G. exact P.
      - rewrite nth_error_upd_other in G by exact N. eapply IH; eauto. }
    pose proof (IH _ _ Hgu) as Pu. destruct e.
    + destruct Hc as (_ & a & r & o & s' & _ & _ & _ & ->). apply Hupd; [reflexivity|exact Pu].
    + destruct Hc as (s' & _ & ->). exact IH.
    + destruct Hc as (s' & _ & ->). exact IH.
    + destruct Hc as (_ & s' & _ & ->). apply Hupd; [reflexivity|]. cbn. apply pure_tl. exact Pu.
    + destruct Hc as (_ & [(v & r & Hpr & ->)|(r & Hpr & ->)]).
      * apply Hupd; [reflexivity|]. cbn. rewrite Hpr in Pu. apply (pure_tl _ Pu).
      * apply Hupd; [unfold do_take; destruct (slot g); reflexivity|]. cbn. rewrite Hpr in Pu. apply (pure_tl _ Pu).
Qed.

Lemma sumf_all_zero {A} (f : A -> nat) l : (forall i a, nth_error l i = Some a -> f a = 0%nat) -> sumf f l = 0%nat.
Proof.
  induction l as [|a l IH]; intros H; cbn; [reflexivity|].
  rewrite (H 0%nat a eq_refl). apply IH. intros i b G. apply (H (S i) b G).
Qed.

(** the only quiescent states of a mailbox program: nobody holds the lock, status and slot
    agree, and every unfinished thread is asleep at the head of a block of the OTHER kind:
    status 0 (slot empty, consumed = produced): the unfinished ones wait in [FeWL 1; take; ..];
    status 1 (slot full): the unfinished ones wait in [FeWL 0; put v; ..] *)
Theorem mailbox_quiescent_characterisation pl g :
  mboxes pl -> greach pl g -> gquiet g ->
  ((festat (base g) = 0 /\ slot g = None /\ Permutation (produced g) (consumed g)) \/
   (festat (base g) = 1 /\ exists v, slot g = Some v /\ Permutation (produced g) (v :: consumed g))) /\
  forall t gt th, nth_error (gth g) t = Some gt -> get_thread (base g) t = Some th ->
    (prog gt = [] /\ pend gt = false) \/
    (pend gt = true /\ main th = Susp (ALFe (1 - festat (base g))) /\
     In t (getq (base g) (QC (Z.to_nat (1 - festat (base g))))) /\
     ((festat (base g) = 0 /\ exists r, prog gt = AFeWL 1 :: ATake :: r) \/
      (festat (base g) = 1 /\ exists v r, prog gt = AFeWL 0 :: APut v :: r))).
Proof.
  intros Hm Hr Hq. pose proof (mboxes_discs _ Hm) as Hd.
  destruct (quiescent_characterisation _ _ Hd Hr Hq) as (Hmq & Hno & Hev & Hch).
  pose proof (XInv_reach _ _ Hm Hr) as X.
  destruct (exchange_safe _ _ Hm Hr) as (_ & _ & P & _).
  assert (Hcoh : coh g).
  { destruct (exchange_status _ _ Hm Hr) as [C|(t & gt & th & st & _ & _ & _ & _ & Ho)]; [exact C|].
    rewrite Hno in Ho. discriminate. }
  split.
  - unfold slot_list in P. destruct Hcoh as [[A B]|[A B]].
    + left. rewrite B in P. cbn in P. auto.
    + right. split; [exact A|]. destruct (slot g) as [v|]; [|congruence]. exists v. cbn in P. auto.
  - intros t gt th Hgt Hth. destruct (Hch _ _ _ Hgt Hth) as [(A & B & _)|(Hp & st & r & Hpr & Mk & Hin & Hne)]; [left; auto|right].
    pose proof (x_mb _ X _ _ Hgt) as Hmb. rewrite Hpr in Hmb. pose proof (mbp_call_tl _ Hmb) as Htl. cbn in Htl.
    destruct Htl as [_ Hkind].
    assert (Hst : st = 1 - festat (base g)).
    { destruct Hkind as [(v & r0 & _ & ->)|(r0 & _ & ->)]; destruct Hcoh as [[A _]|[A _]]; rewrite A in *; try reflexivity; congruence. }
    rewrite <- Hst. split; [exact Hp|]. split; [exact Mk|]. split; [exact Hin|].
    destruct Hkind as [(v & r0 & -> & ->)|(r0 & -> & ->)].
    + right. split; [lia|]. rewrite Hpr. eauto.
    + left. split; [lia|]. rewrite Hpr. eauto.
Qed.

(** liveness-free strengthening of the exchange: role-pure mailbox programs with as many takes
    as puts have no quiescent state other than the final one *)
Theorem mailbox_quiescent_is_final pl g :
  mboxes pl -> (forall p, In p pl -> pure p) -> total_puts pl = total_takes pl ->
  greach pl g -> gquiet g -> all_done g.
Proof.
  intros Hm Hp Ht Hr Hq.
  destruct (mailbox_quiescent_characterisation _ _ Hm Hr Hq) as (Hst & Hch).
  destruct (exchange_safe _ _ Hm Hr) as (_ & _ & _ & _ & _ & _ & C1 & C2).
  pose proof (pure_reach _ _ Hp Hr) as Hpure.
  assert (Hget : forall t gt, nth_error (gth g) t = Some gt -> exists th, get_thread (base g) t = Some th).
  { intros t gt G. destruct (DInv_reach _ _ (mboxes_discs _ Hm) Hr) as [_ GR _].
    unfold get_thread. destruct (nth_error (thr (base g)) t) eqn:E; [eauto|].
    apply nth_error_None in E. assert (nth_error (gth g) t <> None) by congruence.
    apply nth_error_Some in H. rewrite (gr_len _ GR) in H. lia. }
  intros t gt Hgt. destruct (Hget _ _ Hgt) as [th Hth].
  destruct (Hch _ _ _ Hgt Hth) as [A|(_ & _ & _ & Hk)]; [exact A|exfalso].
  destruct Hst as [(F0 & S0 & P0)|(F1 & v & S1 & P1)].
  - (* status 0: only take blocks are waiting; no put is left, hence no take either *)
    destruct Hk as [(_ & r & Hpr)|(F1 & _)]; [|congruence].
    assert (Zp : puts_left g = 0%nat).
    { unfold puts_left. apply sumf_all_zero. intros i gi Gi. destruct (Hget _ _ Gi) as [thi Hthi].
      destruct (Hch _ _ _ Gi Hthi) as [[A _]|(_ & _ & _ & [(_ & r1 & E)|(F1 & _)])]; [rewrite A; reflexivity| |congruence].
      destruct (Hpure _ _ Gi) as [Z|Z]; [exact Z|]. rewrite E in Z. cbn in Z. discriminate. }
    apply Permutation_length in P0.
    pose proof (sumf_nth_le (fun gt => ntakes (prog gt)) _ _ _ Hgt) as L. cbn beta in L. rewrite Hpr in L. cbn in L.
    unfold takes_left in C2. lia.
  - (* status 1: one more item produced than consumed, but no take is left *)
    assert (Zt : takes_left g = 0%nat).
    { unfold takes_left. apply sumf_all_zero. intros i gi Gi. destruct (Hget _ _ Gi) as [thi Hthi].
      destruct (Hch _ _ _ Gi Hthi) as [[A _]|(_ & _ & _ & [(F0 & _)|(_ & v1 & r1 & E)])]; [rewrite A; reflexivity|congruence|].
      destruct (Hpure _ _ Gi) as [Z|Z]; [|exact Z]. rewrite E in Z. cbn in Z. discriminate. }
    apply Permutation_length in P1. cbn in P1. lia.
Qed.
