(** C05 - inductive invariants of Abs(mutex, conds, felock) needed by the condition-variable
    theorems (proved locally; C04's MutexProofs.v is not required):
    [I1]  every thread occurs at most once in {sleep queues, wakers' hands, pending enqueue
          callbacks}, and only while its context is saved ([Susp]);
    [M]   lock bit = number of owners (<= 1);
    [thP] per-thread: at most one callback entry that will still clear the lock bit, and only
          while the thread owns the mutex and its main activity is inside lock(). *)
From Coq Require Import ZArith List Bool Lia Arith.
From MT Require Import Lib.Interleave Sync.SyncModel Sync.CondBase.
Import ListNotations.
Local Open Scope Z_scope.

Definition eqn (a b : nat) : nat := if Nat.eqb a b then 1%nat else 0%nat.
Definition b2n (b : bool) : nat := if b then 1%nat else 0%nat.

(** ---- occupancy of thread [x] ---- *)
Definition hand_u (u : upc) (x : nat) : nat :=
  match u with UClear _ y | UPush _ y => eqn y x | _ => 0%nat end.
Definition hand_main (p : pc) (x : nat) : nat :=
  match p with Unl u => hand_u u x | SigPush _ _ y => eqn y x | _ => 0%nat end.
Definition hand_cb (x : nat) (c : cbpc) : nat :=
  match c with CbUnl u => hand_u u x | _ => 0%nat end.
Definition hand_th (x : nat) (th : thread) : nat :=
  (hand_main (main th) x + lsum (hand_cb x) (cbs th))%nat.
Definition hands (s : state) (x : nat) : nat := lsum (hand_th x) (thr s).

Definition cnt (x : nat) (l : list nat) : nat := lsum (fun y => eqn y x) l.
Definition inqs (s : state) (x : nat) : nat := (cnt x (mq s) + lsum (cnt x) (cqs s))%nat.

Definition enq_cb (c : cbpc) : nat := match c with CbEnq _ _ => 1%nat | _ => 0%nat end.
Definition nenq (th : thread) : nat := lsum enq_cb (cbs th).
Definition issusp (th : thread) : nat := match main th with Susp _ => 1%nat | _ => 0%nat end.
Definition enqp (s : state) (x : nat) : nat :=
  match get_thread s x with Some th => nenq th | None => 0%nat end.
Definition susp (s : state) (x : nat) : nat :=
  match get_thread s x with Some th => issusp th | None => 0%nat end.

Definition I1 (s : state) : Prop :=
  forall x, (inqs s x + hands s x + enqp s x <= susp s x)%nat.

(** ---- ownership ---- *)
Definition preclear (u : upc) : bool := match u with UPush _ _ => false | _ => true end.
Definition pre_cb (c : cbpc) : nat :=
  match c with
  | CbEnq _ unl => b2n unl
  | CbUnl u => b2n (preclear u)
  end.
Definition npre (th : thread) : nat := lsum pre_cb (cbs th).
Definition mtok (p : pc) : nat :=
  match p with
  | Unl u => b2n (preclear u)
  | FeWrite _ | FeRead _ | SigDeq _ ASUnlock | SigPush _ ASUnlock _ => 1%nat
  | _ => 0%nat
  end.
Definition lockpath (p : pc) : bool :=
  match p with Susp _ | LockRead _ | LockCas1 _ _ | LockCas2 _ _ => true | _ => false end.
Definition cas_even (p : pc) : Prop :=
  match p with LockCas1 _ w | TryCas _ w => Z.even w = true | _ => True end.
Definition enq_cond (c : cbpc) : Prop :=
  match c with CbEnq q true => exists n, q = QC n | _ => True end.

Record thP (th : thread) : Prop := {
  p_even : cas_even (main th);
  p_tok : (npre th + mtok (main th) <= b2n (own th))%nat;
  p_lp : (1 <= npre th)%nat -> lockpath (main th) = true;
  p_qc : Forall enq_cond (cbs th)
}.

Definition nown (s : state) : nat := lsum (fun th => b2n (own th)) (thr s).
Definition M (s : state) : Prop := nown s = b2n (Z.odd (mword s)).
Definition Inv2 (s : state) : Prop := M s /\ Forall thP (thr s).

Lemma count_holders_nown s : count_holders s = nown s.
Proof.
  unfold count_holders, nown. induction (thr s) as [|th r IH]; cbn; auto.
  destruct (own th); cbn; lia.
Qed.

(* ---------- delta lemmas ---------- *)
Lemma cnt_app x l t : cnt x (l ++ [t]) = (cnt x l + eqn t x)%nat.
Proof. unfold cnt. rewrite lsum_app. cbn. lia. Qed.

Lemma nth_nonempty_nth_error {A} (l : list (list A)) c x r :
  nth c l [] = x :: r -> nth_error l c = Some (x :: r).
Proof.
  revert c; induction l as [|z l IH]; intros [|c] H; cbn in *; try discriminate; auto.
  congruence.
Qed.

Lemma hands_set_thread s t th th' x :
  get_thread s t = Some th ->
  (hands (set_thread s t th') x + hand_th x th = hands s x + hand_th x th')%nat.
Proof. intros H. unfold hands. rewrite thr_set_thread. apply lsum_upd. exact H. Qed.

Lemma nown_set_thread s t th th' :
  get_thread s t = Some th ->
  (nown (set_thread s t th') + b2n (own th) = nown s + b2n (own th'))%nat.
Proof.
  intros H. unfold nown. rewrite thr_set_thread.
  apply (lsum_upd (fun th => b2n (own th))). exact H.
Qed.

Lemma enqp_set_thread s t th th' x :
  get_thread s t = Some th ->
  enqp (set_thread s t th') x = if Nat.eqb t x then nenq th' else enqp s x.
Proof.
  intros H. unfold enqp. rewrite (get_set_thread _ _ _ _ x H). destruct (Nat.eqb t x); auto.
Qed.

Lemma susp_set_thread s t th th' x :
  get_thread s t = Some th ->
  susp (set_thread s t th') x = if Nat.eqb t x then issusp th' else susp s x.
Proof.
  intros H. unfold susp. rewrite (get_set_thread _ _ _ _ x H). destruct (Nat.eqb t x); auto.
Qed.

Lemma inqs_set_thread s t th' x : inqs (set_thread s t th') x = inqs s x.
Proof. reflexivity. Qed.

Lemma inqs_setq_QM s l x :
  inqs (setq s QM l) x = (cnt x l + lsum (cnt x) (cqs s))%nat.
Proof. reflexivity. Qed.

Lemma inqs_setq_QC_le s c l x :
  (inqs (setq s (QC c) l) x + cnt x (getq s (QC c)) <= inqs s x + cnt x l)%nat.
Proof.
  unfold inqs, setq, getq; cbn [mq cqs].
  destruct (nth_error (cqs s) c) as [old|] eqn:E.
  - pose proof (lsum_upd (cnt x) (cqs s) c l old E) as H.
    rewrite (nth_error_nth _ _ _ E). lia.
  - rewrite (nth_error_upd_none _ _ _ E).
    apply nth_error_None in E. rewrite (nth_overflow _ _ E). cbn. lia.
Qed.

Lemma inqs_setq_QC_deq s c y r x :
  getq s (QC c) = y :: r ->
  (inqs (setq s (QC c) r) x + eqn y x = inqs s x)%nat.
Proof.
  intros H. unfold inqs, setq, getq in *; cbn [mq cqs] in *.
  pose proof (nth_nonempty_nth_error _ _ _ _ H) as E.
  pose proof (lsum_upd (cnt x) (cqs s) c r (y :: r) E) as H1.
  assert (H2 : cnt x (y :: r) = (eqn y x + cnt x r)%nat) by reflexivity. lia.
Qed.

Lemma hands_setq s q l x : hands (setq s q l) x = hands s x.
Proof. unfold hands. rewrite thr_setq. reflexivity. Qed.
Lemma enqp_setq s q l x : enqp (setq s q l) x = enqp s x.
Proof. unfold enqp. rewrite get_thread_setq. reflexivity. Qed.
Lemma susp_setq s q l x : susp (setq s q l) x = susp s x.
Proof. unfold susp. rewrite get_thread_setq. reflexivity. Qed.
Lemma nown_setq s q l : nown (setq s q l) = nown s.
Proof. unfold nown. rewrite thr_setq. reflexivity. Qed.

Lemma eqn_refl x : eqn x x = 1%nat.
Proof. unfold eqn. rewrite Nat.eqb_refl. reflexivity. Qed.
Lemma eqn_le1 a b : (eqn a b <= 1)%nat.
Proof. unfold eqn. destruct (Nat.eqb a b); lia. Qed.

Lemma hands_set_mword s w x : hands (set_mword s w) x = hands s x. Proof. reflexivity. Qed.
Lemma enqp_set_mword s w x : enqp (set_mword s w) x = enqp s x. Proof. reflexivity. Qed.
Lemma susp_set_mword s w x : susp (set_mword s w) x = susp s x. Proof. reflexivity. Qed.
Lemma inqs_set_mword s w x : inqs (set_mword s w) x = inqs s x. Proof. reflexivity. Qed.
Lemma hands_set_festat s w x : hands (set_festat s w) x = hands s x. Proof. reflexivity. Qed.
Lemma enqp_set_festat s w x : enqp (set_festat s w) x = enqp s x. Proof. reflexivity. Qed.
Lemma susp_set_festat s w x : susp (set_festat s w) x = susp s x. Proof. reflexivity. Qed.
Lemma inqs_set_festat s w x : inqs (set_festat s w) x = inqs s x. Proof. reflexivity. Qed.

Lemma enqp_at s t th : get_thread s t = Some th -> enqp s t = nenq th.
Proof. intros H. unfold enqp. rewrite H. reflexivity. Qed.
Lemma susp_at s t th : get_thread s t = Some th -> susp s t = issusp th.
Proof. intros H. unfold susp. rewrite H. reflexivity. Qed.

(* ---------- tactics and the unlock micro-program ---------- *)
Ltac th_simp :=
  unfold hand_th, nenq, issusp, npre, add_cb, set_main, set_own, set_cbs in *;
  cbn [main cbs own hand_main hand_u mtok lockpath] in *;
  rewrite ?lsum_app in *; cbn [lsum enq_cb hand_cb pre_cb hand_u b2n] in *.

Ltac norm_st :=
  rewrite ?hands_set_mword, ?enqp_set_mword, ?susp_set_mword, ?inqs_set_mword,
          ?hands_set_festat, ?enqp_set_festat, ?susp_set_festat, ?inqs_set_festat,
          ?hands_setq, ?enqp_setq, ?susp_setq in *.

Definition hand_r (r : ures) (x : nat) : nat :=
  match r with UNext u => hand_u u x | UFin _ => 0%nat end.

Lemma hand_th_set_own x th b : hand_th x (set_own th b) = hand_th x th.
Proof. reflexivity. Qed.

Lemma ustep_thread s t u s1 r th :
  get_thread s t = Some th -> ustep s t u = Some (s1, r) ->
  exists th1, get_thread s1 t = Some th1 /\ cbs th1 = cbs th /\
    (main th1 = main th \/ exists k, main th = Susp k /\ main th1 = LockRead k).
Proof.
  intros Ht Hu. unfold ustep in Hu. destruct u.
  all: repeat break_match_hyp Hu; try discriminate Hu.
  all: apply Some_inj in Hu; inversion Hu; subst; clear Hu.
  all: try (exists th; repeat split; auto; fail).
  - unfold clear_own. rewrite get_thread_set_mword, Ht.
    exists (set_own th false). rewrite (get_set_thread_eq _ _ _ th); auto.
  - unfold clear_own. rewrite get_thread_set_mword, Ht.
    exists (set_own th false). rewrite (get_set_thread_eq _ _ _ th); auto.
  - apply wake_spec in Heqo. destruct Heqo as (thx & k & Hx & Hm & ->).
    rewrite (get_set_thread _ _ _ _ t Hx). destruct (Nat.eqb_spec x t) as [->|N].
    + rewrite Ht in Hx. inversion Hx; subst thx.
      exists (set_main th (LockRead k)). repeat split; auto. right. exists k. auto.
    + exists th. auto.
Qed.

Lemma clear_own_at s t th : get_thread s t = Some th -> clear_own s t = set_thread s t (set_own th false).
Proof. intros H. unfold clear_own. rewrite H. reflexivity. Qed.

Lemma occ_set_own s t th b x :
  get_thread s t = Some th ->
  inqs (set_thread s t (set_own th b)) x = inqs s x /\
  hands (set_thread s t (set_own th b)) x = hands s x /\
  enqp (set_thread s t (set_own th b)) x = enqp s x /\
  susp (set_thread s t (set_own th b)) x = susp s x.
Proof.
  intros H. split; [reflexivity|].
  pose proof (hands_set_thread s t th (set_own th b) x H) as P.
  rewrite hand_th_set_own in P.
  rewrite (enqp_set_thread _ _ _ _ x H), (susp_set_thread _ _ _ _ x H).
  destruct (Nat.eqb_spec t x) as [->|N].
  - rewrite (enqp_at _ _ _ H), (susp_at _ _ _ H). repeat split; try reflexivity; lia.
  - repeat split; try reflexivity; lia.
Qed.

Lemma occ_wake s y thy k x :
  get_thread s y = Some thy -> main thy = Susp k ->
  inqs (set_thread s y (set_main thy (LockRead k))) x = inqs s x /\
  hands (set_thread s y (set_main thy (LockRead k))) x = hands s x /\
  enqp (set_thread s y (set_main thy (LockRead k))) x = enqp s x /\
  (susp (set_thread s y (set_main thy (LockRead k))) x + eqn y x = susp s x)%nat.
Proof.
  intros H Hm. split; [reflexivity|].
  pose proof (hands_set_thread s y thy (set_main thy (LockRead k)) x H) as P.
  assert (E : hand_th x (set_main thy (LockRead k)) = hand_th x thy).
  { unfold hand_th, set_main; cbn [main cbs]. rewrite Hm. reflexivity. }
  rewrite E in P.
  rewrite (enqp_set_thread _ _ _ _ x H), (susp_set_thread _ _ _ _ x H).
  unfold eqn. destruct (Nat.eqb_spec y x) as [->|N].
  - rewrite (enqp_at _ _ _ H), (susp_at _ _ _ H). split; [lia|]. split; [reflexivity|].
    unfold issusp, set_main; cbn [main]. rewrite Hm. reflexivity.
  - repeat split; try reflexivity; lia.
Qed.

Ltac ufin Hu := apply Some_inj in Hu; apply pair_equal_spec in Hu; destruct Hu as [<- <-].

Lemma ustep_I1 s t u s1 r th x :
  get_thread s t = Some th -> ustep s t u = Some (s1, r) ->
  (inqs s1 x + hands s1 x + enqp s1 x + hand_r r x + susp s x <=
   inqs s x + hands s x + enqp s x + hand_u u x + susp s1 x)%nat.
Proof.
  intros Ht Hu. destruct u as [nf|nf w|nf w|nf|nf y|nf y]; cbn [ustep] in Hu.
  - repeat break_match_hyp Hu; ufin Hu; cbn [hand_r hand_u]; lia.
  - break_match_hyp Hu; ufin Hu; cbn [hand_r hand_u]; [|lia].
    rewrite (clear_own_at _ _ th) by exact Ht.
    destruct (occ_set_own (set_mword s 0) t th false x Ht) as (A & B & C & D).
    rewrite A, B, C, D. norm_st. lia.
  - break_match_hyp Hu; ufin Hu; cbn [hand_r hand_u]; norm_st; lia.
  - destruct (mq s) as [|z q] eqn:Hq; ufin Hu; cbn [hand_r hand_u]; [lia|].
    rewrite hands_setq, enqp_setq, susp_setq, inqs_setq_QM. unfold inqs. rewrite Hq.
    assert (cnt x (z :: q) = (eqn z x + cnt x q)%nat) by reflexivity. lia.
  - ufin Hu; cbn [hand_r hand_u].
    rewrite (clear_own_at _ _ th) by exact Ht.
    destruct (occ_set_own (set_mword s (mword s - 1)) t th false x Ht) as (A & B & C & D).
    rewrite A, B, C, D. norm_st. lia.
  - destruct (wake s y) as [s2|] eqn:Hw; [|discriminate]. ufin Hu; cbn [hand_r hand_u].
    apply wake_spec in Hw. destruct Hw as (thx & k & Hx & Hm & ->).
    destruct (occ_wake s y thx k x Hx Hm) as (A & B & C & D). rewrite A, B, C. lia.
Qed.

(* goal: I1-inequality at [x] for [set_thread s0 t th'] *)
Ltac i1_top x :=
  match goal with
  | |- (inqs (set_thread ?s0 ?t ?th') x + _ + _ <= _)%nat =>
    match goal with
    | H : get_thread _ t = Some ?th0 |- _ =>
      let P1 := fresh "P" in let P2 := fresh "P" in let P3 := fresh "P" in
      pose proof (hands_set_thread s0 t th0 th' x H) as P1;
      pose proof (enqp_set_thread s0 t th0 th' x H) as P2;
      pose proof (susp_set_thread s0 t th0 th' x H) as P3;
      rewrite (inqs_set_thread s0 t th' x);
      rewrite P2, P3; clear P2 P3;
      generalize dependent (hands (set_thread s0 t th') x); intros;
      norm_st;
      destruct (Nat.eqb_spec t x) as [Etx|Ntx];
      [ subst x; try rewrite (enqp_at _ _ _ H) in *; try rewrite (susp_at _ _ _ H) in * | ]
    end
  end.

(* ---------- I1 is inductive ---------- *)
Ltac prep_ustep x :=
  match goal with
  | Hu : ustep ?s ?t ?u = Some (?s1, ?r), Ht : get_thread ?s ?t = Some ?th |- _ =>
      let HU := fresh "HU" in let th1 := fresh "th1" in
      let Hth1 := fresh "Hth1" in let Hcbs1 := fresh "Hcbs1" in let Hmain1 := fresh "Hmain1" in
      pose proof (ustep_I1 s t u s1 r th x Ht Hu) as HU;
      destruct (ustep_thread s t u s1 r th Ht Hu) as (th1 & Hth1 & Hcbs1 & Hmain1)
  end.

Ltac prep_wake x :=
  match goal with
  | Hw : wake ?s ?y = Some ?s1 |- _ =>
      let thy := fresh "thy" in let ky := fresh "ky" in let Hy := fresh "Hy" in
      let Hmy := fresh "Hmy" in
      apply wake_spec in Hw; destruct Hw as (thy & ky & Hy & Hmy & ->);
      let A := fresh "WA" in let B := fresh "WB" in let C := fresh "WC" in let D := fresh "WD" in
      destruct (occ_wake s y thy ky x Hy Hmy) as (A & B & C & D)
  end.

Ltac prep_deq x :=
  match goal with
  | Hq : getq ?s (QC ?c) = ?y :: ?r |- _ => pose proof (inqs_setq_QC_deq s c y r x Hq)
  end.


Ltac unify_thread :=
  rewrite ?get_thread_setq, ?get_thread_set_mword, ?get_thread_set_festat in *;
  repeat match goal with
  | H1 : get_thread ?s ?t = Some ?a, H2 : get_thread ?s ?t = Some ?b |- _ =>
      rewrite H1 in H2; apply Some_inj in H2; subst
  end.


Ltac wake_thread :=
  match goal with
  | Hy : get_thread ?s ?y = Some ?thy, H : get_thread (set_thread ?s ?y ?thy') ?t = Some ?t1 |- _ =>
     let H' := fresh "H" in
     pose proof H as H';
     rewrite (get_set_thread s y thy' thy t Hy) in H';
     destruct (Nat.eqb_spec y t) as [Eyt|Nyt]; [ subst y | ]
  end.

Ltac at_simp :=
  repeat match goal with
  | H : get_thread ?s ?t = Some ?th |- _ =>
      first [ rewrite (enqp_at s t th H) in * | rewrite (susp_at s t th H) in * ]
  end.


Ltac cbs_pose f :=
  match goal with
  | Hn : nth_error (cbs ?th) ?i = Some ?c |- _ =>
    try (match goal with |- context [upd (cbs th) i ?y] =>
           pose proof (lsum_upd f (cbs th) i y c Hn) end);
    try (match goal with |- context [remove_nth (cbs th) i] =>
           pose proof (lsum_remove_nth f (cbs th) i c Hn) end)
  end.

Lemma inqs_enq s q t x :
  (inqs (setq s q (getq s q ++ [t])) x <= inqs s x + eqn t x)%nat.
Proof.
  destruct q as [|c].
  - rewrite inqs_setq_QM. cbn [getq]. rewrite cnt_app. unfold inqs. lia.
  - pose proof (inqs_setq_QC_le s c (getq s (QC c) ++ [t]) x) as Q. rewrite cnt_app in Q. lia.
Qed.

Lemma eqn_neq a b : a <> b -> eqn a b = 0%nat.
Proof. intros N. unfold eqn. destruct (Nat.eqb_spec a b); congruence. Qed.

Lemma I1_step s a s' : I1 s -> step s a = Some s' -> I1 s'.
Proof.
  intros HI Hs x. specialize (HI x). destruct a as [t e]. destruct e.
  - step_inv' Hs. all: fin Hs.
    all: i1_top x; th_simp; try rewrite Heqp in *; th_simp; try lia.
  - step_inv' Hs. all: fin Hs.
    all: try prep_ustep x; try prep_wake x; try prep_deq x.
    all: try wake_thread; unify_thread; try congruence.
    all: try match goal with H : _ \/ _ |- _ => destruct H as [H|(k1 & Hk1 & Hk2)]; [|congruence] end.
    all: try (i1_top x; at_simp; try rewrite ?WA, ?WB, ?WC in *; th_simp;
              rewrite ?Hmain1, ?Hcbs1, ?Heqp in *; th_simp; cbn [hand_r] in *; try lia).
  - step_inv' Hs. all: fin Hs.
    all: try prep_ustep x.
    all: unify_thread.
    all: try match goal with |- context [setq ?s ?q (getq ?s ?q ++ [?t])] => pose proof (inqs_enq s q t x) end.
    all: try match goal with Hc : cbs ?th1 = cbs ?t0, Hn : nth_error (cbs ?t0) _ = _ |- _ => rewrite <- Hc in Hn end.
    all: try match goal with
             | H : get_thread ?s ?t = Some ?th |- context [set_thread (setq ?s ?q ?l) ?t _] =>
                 assert (get_thread (setq s q l) t = Some th) by (rewrite get_thread_setq; exact H)
             end.
    all: cbs_pose (hand_cb x); cbs_pose enq_cb.
    all: i1_top x; at_simp; th_simp; cbn [hand_r] in *; rewrite ?eqn_refl in *;
         try (rewrite (eqn_neq _ _ Ntx) in * ).
    all: try lia.
  - step_inv' Hs. fin Hs.
    i1_top x; th_simp; try lia.
    unfold ret_ok in *. rewrite Heqo in *. destruct (main t0); try discriminate; lia.
Qed.

Lemma get_thread_init nt nc t th : get_thread (init_state nt nc) t = Some th -> th = thread0.
Proof.
  unfold get_thread, init_state; cbn [thr]. intros H. apply nth_error_In in H.
  apply repeat_spec in H. exact H.
Qed.

Lemma I1_init s : init s -> I1 s.
Proof.
  intros (nt & nc & ->) x.
  assert (A : inqs (init_state nt nc) x = 0%nat).
  { unfold inqs, init_state; cbn [mq cqs]. rewrite lsum_repeat0; reflexivity. }
  assert (B : hands (init_state nt nc) x = 0%nat).
  { unfold hands, init_state; cbn [thr]. rewrite lsum_repeat0; reflexivity. }
  assert (C : enqp (init_state nt nc) x = 0%nat).
  { unfold enqp. destruct (get_thread (init_state nt nc) x) as [th|] eqn:E; auto.
    apply get_thread_init in E. subst th. reflexivity. }
  lia.
Qed.

Theorem I1_reach s : reach s -> I1 s.
Proof. apply invariant_rule; [exact I1_init | intros s0 a s1; apply I1_step]. Qed.

(* ---------- Inv2 (lock bit = owners, token discipline) is inductive ---------- *)
Lemma Forall_get (P : thread -> Prop) s :
  Forall P (thr s) <-> (forall j th, get_thread s j = Some th -> P th).
Proof.
  split.
  - intros H j th E. eapply Forall_nth_error; eauto.
  - intros H. apply Forall_forall. intros th Hin. apply In_nth_error in Hin.
    destruct Hin as (j & E). eapply H; eauto.
Qed.

Lemma odd_even_succ w : Z.even w = true -> Z.odd (w + 1) = true.
Proof. intros H. rewrite Z.odd_add. rewrite <- Z.negb_even, H. reflexivity. Qed.
Lemma odd_add2 w : Z.odd (w + 2) = Z.odd w.
Proof. rewrite Z.odd_add. cbn. destruct (Z.odd w); reflexivity. Qed.
Lemma odd_sub2 w : Z.odd (w - 2) = Z.odd w.
Proof. replace w with ((w - 2) + 2) at 2 by lia. rewrite odd_add2. reflexivity. Qed.
Lemma odd_pred w : Z.odd w = true -> Z.odd (w - 1) = false.
Proof. intros H. replace w with ((w - 1) + 1) in H by lia. rewrite Z.odd_add in H. cbn in H.
  destruct (Z.odd (w - 1)); auto. Qed.
Lemma even_not_odd w : Z.odd w = false -> Z.even w = true.
Proof. intros H. rewrite <- Z.negb_odd, H. reflexivity. Qed.
Lemma odd_not_even w : Z.even w = false -> Z.odd w = true.
Proof. intros H. rewrite <- Z.negb_even, H. reflexivity. Qed.
Lemma odd_of_even w : Z.even w = true -> Z.odd w = false.
Proof. intros H. rewrite <- Z.negb_even, H. reflexivity. Qed.

Definition upre (u : upc) : nat := b2n (preclear u).
Definition rpre (r : ures) : nat := match r with UNext u => upre u | UFin _ => 0%nat end.

(** a thread that differs from a [thP]-thread only by having been woken is still [thP] *)
Lemma thP_wake th k : thP th -> main th = Susp k -> thP (set_main th (LockRead k)).
Proof.
  intros [E T L Q] Hm. constructor; unfold npre, set_main in *; cbn [main cbs own] in *; auto.
  - exact I.
  - rewrite Hm in T. cbn [mtok] in *. exact T.
Qed.

Lemma nown_own_le s t th : get_thread s t = Some th -> (b2n (own th) <= nown s)%nat.
Proof. intros H. unfold nown. apply (lsum_nth_le (fun th => b2n (own th)) _ _ _ H). Qed.

Ltac six := split; [|split; [|split; [|split; [|split]]]].

Lemma ustep_Inv2 s t u s1 r th :
  Inv2 s -> get_thread s t = Some th -> (preclear u = true -> own th = true) ->
  ustep s t u = Some (s1, r) ->
  exists th1, get_thread s1 t = Some th1 /\ cbs th1 = cbs th /\
    (main th1 = main th \/ exists k, main th = Susp k /\ main th1 = LockRead k) /\
    ((own th1 = own th /\ rpre r = upre u) \/ (own th1 = false /\ rpre r = 0%nat /\ upre u = 1%nat)) /\
    M s1 /\
    (forall j thj, j <> t -> get_thread s1 j = Some thj -> thP thj).
Proof.
  intros [HM HP] Ht Hown Hu. rewrite Forall_get in HP. unfold M in *.
  destruct u as [nf|nf w|nf w|nf|nf y|nf y]; cbn [ustep] in Hu.
  - repeat break_match_hyp Hu; ufin Hu; exists th; six; eauto; try lia.
  - break_match_hyp Hu; ufin Hu.
    + rewrite (clear_own_at _ _ th) by exact Ht. exists (set_own th false).
      rewrite (get_set_thread_eq _ _ _ th) by exact Ht.
      pose proof (nown_set_thread (set_mword s 0) t th (set_own th false) Ht) as N.
      rewrite (Hown eq_refl) in *. apply Z.eqb_eq in Heqb. rewrite Heqb in HM.
      change (nown (set_mword s 0)) with (nown s) in N.
      six; auto.
      * cbn [own set_own mword set_mword set_thread set_thr b2n Z.odd] in *. lia.
      * intros j thj Nj E. rewrite get_set_thread_neq in E by congruence. eapply HP; eauto.
    + exists th; six; eauto; try lia.
  - break_match_hyp Hu; ufin Hu; exists th; six; eauto; try lia.
    all: try (apply Z.eqb_eq in Heqb; subst w; cbn [mword set_mword]; rewrite odd_sub2; exact HM).
  - destruct (mq s) as [|z q] eqn:Hq; ufin Hu; exists th; six; eauto; try lia.
  - ufin Hu. rewrite (clear_own_at _ _ th) by exact Ht. exists (set_own th false).
    rewrite (get_set_thread_eq _ _ _ th) by exact Ht.
    pose proof (nown_set_thread (set_mword s (mword s - 1)) t th (set_own th false) Ht) as N.
    pose proof (nown_own_le s t th Ht) as Le.
    rewrite (Hown eq_refl) in *.
    change (nown (set_mword s (mword s - 1))) with (nown s) in N.
    assert (Od : Z.odd (mword s) = true).
    { destruct (Z.odd (mword s)); auto. cbn [b2n] in *. lia. }
    six; auto.
    * cbn [own set_own mword set_mword set_thread set_thr] in *. rewrite (odd_pred _ Od).
      rewrite Od in HM. cbn [b2n] in *. lia.
    * intros j thj Nj E. rewrite get_set_thread_neq in E by congruence. eapply HP; eauto.
  - destruct (wake s y) as [s2|] eqn:Hw; [|discriminate]. ufin Hu.
    apply wake_spec in Hw. destruct Hw as (thx & k & Hx & Hm & ->).
    pose proof (nown_set_thread s y thx (set_main thx (LockRead k)) Hx) as N.
    cbn [own set_main] in N. rewrite mword_set_thread.
    rewrite (get_set_thread _ _ _ _ t Hx). destruct (Nat.eqb_spec y t) as [->|Ny].
    + rewrite Ht in Hx. apply Some_inj in Hx. subst thx.
      exists (set_main th (LockRead k)). six; eauto; try lia.
      intros j thj Nj E. rewrite get_set_thread_neq in E by congruence. eapply HP; eauto.
    + exists th. six; eauto; try lia.
      intros j thj Nj E. rewrite (get_set_thread _ _ _ _ j Hx) in E.
      destruct (Nat.eqb_spec y j) as [->|Nyj].
      * apply Some_inj in E. subst thj. apply thP_wake; eauto.
      * eapply HP; eauto.
Qed.

Lemma Inv2_upd s0 t th0 th' :
  get_thread s0 t = Some th0 ->
  (forall j thj, j <> t -> get_thread s0 j = Some thj -> thP thj) ->
  thP th' ->
  (nown s0 + b2n (own th') = b2n (Z.odd (mword s0)) + b2n (own th0))%nat ->
  Inv2 (set_thread s0 t th').
Proof.
  intros Ht Ho Hp Hn. split.
  - unfold M. rewrite mword_set_thread.
    pose proof (nown_set_thread s0 t th0 th' Ht). lia.
  - apply Forall_get. intros j th E. rewrite (get_set_thread _ _ _ _ j Ht) in E.
    destruct (Nat.eqb_spec t j) as [->|N].
    + apply Some_inj in E. subst th. exact Hp.
    + eapply Ho; eauto.
Qed.

Lemma wake_Inv2 s y s1 : Inv2 s -> wake s y = Some s1 -> Inv2 s1.
Proof.
  intros [HM HP] Hw. rewrite Forall_get in HP.
  apply wake_spec in Hw. destruct Hw as (thx & k & Hx & Hm & ->).
  apply (Inv2_upd s y thx);
    [ exact Hx | intros j thj _ E; eapply HP; eauto | apply thP_wake; eauto
    | unfold M in HM; cbn [own set_main]; lia ].
Qed.

Lemma Forall_remove_nth {A} (P : A -> Prop) l i : Forall P l -> Forall P (remove_nth l i).
Proof.
  intros H. apply Forall_forall. intros x Hx. apply In_remove_nth in Hx.
  rewrite Forall_forall in H. auto.
Qed.

Lemma own_false_of_even s t th :
  M s -> Z.odd (mword s) = false -> get_thread s t = Some th -> own th = false.
Proof.
  intros HM Ho Ht. pose proof (nown_own_le s t th Ht) as Le. unfold M in HM.
  rewrite Ho in HM. cbn [b2n] in HM. destruct (own th); auto. cbn [b2n] in Le. lia.
Qed.

Ltac npre0 :=
  try match goal with
  | L : (1 <= ?n)%nat -> false = true |- _ =>
      assert (n = 0%nat) by (destruct n; [reflexivity | exfalso; assert (false = true) by (apply L; lia); discriminate])
  end.

Ltac forall_goal :=
  repeat first [ apply Forall_app; split | apply Forall_upd | apply Forall_remove_nth
               | apply Forall_cons | apply Forall_nil ]; cbn [enq_cond]; eauto.

Ltac thP_goal :=
  constructor; th_simp;
  try match goal with Hm : main _ = _ |- _ => rewrite Hm in * end;
  try match goal with Hb : own _ = _ |- _ => rewrite Hb in * end;
  th_simp; cbn [cas_even preclear b2n] in *; npre0;
  [ auto | try lia | try (intros; reflexivity); try (intros; lia) | forall_goal ].

Lemma wake_other s y s1 t th :
  wake s y = Some s1 -> get_thread s t = Some th -> (forall k, main th <> Susp k) ->
  get_thread s1 t = Some th.
Proof.
  intros Hw Ht Hn. apply wake_spec in Hw. destruct Hw as (thx & k & Hx & Hm & ->).
  rewrite (get_set_thread _ _ _ _ t Hx). destruct (Nat.eqb_spec y t) as [->|N]; auto.
  rewrite Ht in Hx. apply Some_inj in Hx. subst thx. exfalso. eapply Hn; eauto.
Qed.

Lemma nown_set_mword s w : nown (set_mword s w) = nown s. Proof. reflexivity. Qed.
Lemma nown_set_festat s w : nown (set_festat s w) = nown s. Proof. reflexivity. Qed.

Lemma b2n_le1 b : (b2n b <= 1)%nat. Proof. destruct b; cbn; lia. Qed.

Ltac cas_subst :=
  repeat match goal with
  | H : (mword ?s =? ?w) = true |- _ => apply Z.eqb_eq in H; subst w
  end.

Lemma Inv2_step s a s' : Inv2 s -> step s a = Some s' -> Inv2 s'.
Proof.
  intros HI Hs. pose proof HI as [HM HP]. rewrite Forall_get in HP.
  destruct a as [t e]. destruct e.
  - step_inv' Hs. all: fin Hs.
    all: match goal with H : get_thread ?s ?t = Some ?th0 |- Inv2 (set_thread ?s ?t _) =>
           pose proof (HP _ _ H) as [E T L Q];
           apply (Inv2_upd s t th0);
           [ exact H | intros j thj _ Ej; eapply HP; eauto | |
             unfold M in HM; cbn [own set_main add_cb set_cbs]; try lia ] end.
    all: try thP_goal.
  - step_inv' Hs. all: fin Hs.
    all: cas_subst.
    all: try match goal with k : after_sig |- _ => destruct k end.
    (* wake leaves *)
    all: try match goal with
         | Hw : wake ?s ?y = Some ?s1, Ht : get_thread ?s ?t = Some ?th, H1 : get_thread ?s1 ?t = Some ?t1 |- _ =>
           pose proof (wake_Inv2 _ _ _ HI Hw) as [HM1 HP1]; rewrite Forall_get in HP1;
           let Hx := fresh "Hx" in
           assert (Hx : get_thread s1 t = Some th) by (eapply wake_other; eauto; intros; congruence);
           rewrite Hx in H1; apply Some_inj in H1; subst t1;
           pose proof (HP1 _ _ Hx) as [E T L Q];
           apply (Inv2_upd s1 t th);
           [ exact Hx | intros j thj _ Ej; eapply HP1; exact Ej | | unfold M in HM1; cbn [own set_main]; lia ]
         end.
    all: try match goal with |- Inv2 _ => unify_thread end.
    all: try match goal with
         | Hu : ustep ?s ?t ?u = Some (?s1, ?r), Ht : get_thread ?s ?t = Some ?th |- _ =>
           pose proof (HP _ _ Ht) as [E T L Q];
           let Ho := fresh "Ho" in
           assert (Ho : preclear u = true -> own th = true)
             by (intros Hpc; unfold npre in T;
                 match goal with Hm : main th = _ |- _ => rewrite Hm in T end;
                 cbn [mtok] in T; rewrite Hpc in T;
                 destruct (own th); [reflexivity | cbn [b2n] in T; lia]);
           destruct (ustep_Inv2 s t u s1 r th HI Ht Ho Hu) as (th1 & Hth1 & Hcbs1 & Hmain1 & Hown1 & HM1 & HP1);
           match goal with H1 : get_thread s1 t = Some ?t1 |- Inv2 (set_thread _ _ (set_main ?t1 _)) =>
             rewrite Hth1 in H1; apply Some_inj in H1; subst t1 end;
           destruct Hmain1 as [Hmain1|(k1 & Hk1 & Hk2)]; [|congruence];
           apply (Inv2_upd s1 t th1);
           [ exact Hth1 | exact HP1 | | unfold M in HM1; cbn [own set_main]; lia ]
         end.
    all: try match goal with
         | H : get_thread ?s ?t = Some ?th0 |- Inv2 (set_thread ?s0 ?t _) =>
           pose proof (HP _ _ H) as [E T L Q];
           try (match goal with Hm : main th0 = _ |- _ => rewrite Hm in E end; cbn [cas_even] in E);
           apply (Inv2_upd s0 t th0);
           [ exact H | intros j thj _ Ej; eapply HP; exact Ej | |
             unfold M in HM; cbn [own set_main set_own add_cb set_cbs mword set_mword set_festat];
             rewrite ?nown_set_mword, ?nown_set_festat, ?nown_setq, ?mword_setq ]
         end.
    all: try match goal with
         | Ev : Z.even (mword ?s) = true, Ht : get_thread ?s ?t = Some ?th |- _ =>
           pose proof (own_false_of_even s t th HM (odd_of_even _ Ev) Ht) as Hof;
           pose proof (odd_of_even _ Ev) as Hod; pose proof (odd_even_succ _ Ev) as Hsu
         end.
    all: try thP_goal.
    all: try (rewrite ?Hcbs1 in *; unfold rpre, upre in *;
              destruct Hown1 as [[Ho1 Hr]|(Ho1 & Hr & Hu1)]; rewrite ?Ho1 in *; cbn [b2n] in *;
              first [lia | (intros; lia) | assumption]).
    all: rewrite ?odd_add2 in *.
    all: try lia.
    all: try (apply even_not_odd; assumption).
    all: try (rewrite ?Hof, ?Hsu in *; rewrite ?Hod in *; cbn [b2n] in *; lia).
  - step_inv' Hs. all: fin Hs.
    all: try match goal with |- context [setq _ ?q _] => destruct q end.
    all: try match goal with
         | Hu : ustep ?s ?t ?u = Some (?s1, ?r), Ht : get_thread ?s ?t = Some ?th,
           Hn : nth_error (cbs ?th) ?i = Some (CbUnl ?u) |- _ =>
           pose proof (HP _ _ Ht) as [E T L Q];
           pose proof (lsum_nth_le pre_cb _ _ _ Hn) as Hle; cbn [pre_cb] in Hle;
           let Ho := fresh "Ho" in
           assert (Ho : preclear u = true -> own th = true)
             by (intros Hpc; unfold npre in T; rewrite Hpc in Hle;
                 destruct (own th); [reflexivity | cbn [b2n] in *; lia]);
           destruct (ustep_Inv2 s t u s1 r th HI Ht Ho Hu) as (th1 & Hth1 & Hcbs1 & Hmain1 & Hown1 & HM1 & HP1);
           match goal with H1 : get_thread s1 t = Some ?t1 |- Inv2 (set_thread _ _ (set_cbs ?t1 _)) =>
             rewrite Hth1 in H1; apply Some_inj in H1; subst t1 end;
           rewrite <- Hcbs1 in Hn;
           apply (Inv2_upd s1 t th1);
           [ exact Hth1 | exact HP1 | | unfold M in HM1; cbn [own set_cbs]; lia ]
         end.
    all: try match goal with
         | H : get_thread ?s ?t = Some ?th0 |- Inv2 (set_thread ?s0 ?t _) =>
           pose proof (HP _ _ H) as [E T L Q];
           apply (Inv2_upd s0 t th0);
           [ exact H | intros j thj _ Ej; eapply HP; exact Ej | |
             unfold M in HM; cbn [own set_cbs mword setq]; try lia ]
         end.
    all: try (unfold nown in *; cbn [thr] in *; lia).
    all: cbs_pose pre_cb; cbn [pre_cb preclear b2n] in *.
    all: try (destruct Hmain1 as [Hmain1|(k1 & Hk1 & Hk2)];
              destruct Hown1 as [[Ho1 Hr]|(Ho1 & Hr & Hu1)]; unfold rpre, upre in * ).
    all: constructor; unfold npre, set_cbs in *; cbn [main cbs own] in *.
    all: rewrite ?Hcbs1, ?Hmain1, ?Hk2, ?Ho1 in *; try rewrite Hk1 in *; cbn [cas_even mtok lockpath b2n] in *.
    all: try assumption; try exact I; try lia; try (intros; reflexivity); try (intros; apply L; lia).
    all: try forall_goal.
    all: try match goal with T : (_ <= b2n ?b)%nat |- _ => pose proof (b2n_le1 b); lia end.
  - step_inv' Hs. fin Hs.
    match goal with
    | H : get_thread ?s ?t = Some ?th0 |- Inv2 (set_thread ?s ?t _) =>
        pose proof (HP _ _ H) as [E T L Q];
        apply (Inv2_upd s t th0);
        [ exact H | intros j thj _ Ej; eapply HP; exact Ej | | unfold M in HM; cbn [own set_main]; lia ]
    end.
    unfold ret_ok in *. rewrite Heqo in *.
    constructor; unfold npre, set_main in *; cbn [main cbs own cas_even mtok lockpath] in *; auto.
    + lia.
    + intros Hn. specialize (L Hn). destruct (main t0); cbn in *; discriminate.
Qed.

Lemma Inv2_init s : init s -> Inv2 s.
Proof.
  intros (nt & nc & ->). split.
  - unfold M, nown, init_state; cbn [thr mword]. rewrite lsum_repeat0; reflexivity.
  - unfold init_state; cbn [thr]. apply Forall_forall. intros th Hin.
    apply repeat_spec in Hin. subst th. constructor; cbn; auto. intros; lia.
Qed.

Theorem Inv2_reach s : reach s -> Inv2 s.
Proof. apply invariant_rule; [exact Inv2_init | intros s0 a s1; apply Inv2_step]. Qed.
