(** C09 - full/empty lock, part 3: sleepers and status invariants of the felock system. *)
From Coq Require Import ZArith List Bool Lia Arith.
From MT Require Import Lib.Interleave Sync.SyncModel Sync.FelockBase Sync.FelockOwn.
Import ListNotations.
Local Open Scope Z_scope.

(* ------------------------------------------------------------------------------------------ *)
(** * 3. sleepers: every suspended thread is in exactly one place *)

Definition qcount (l : list nat) (x : nat) : nat := sumf (fun y => b2n (Nat.eqb y x)) l.
Definition upc_hand (u : upc) (x : nat) : nat :=
  match u with UClear _ y | UPush _ y => b2n (Nat.eqb y x) | _ => O end.
Definition pc_hand (p : pc) (x : nat) : nat :=
  match p with Unl u => upc_hand u x | SigPush _ _ y => b2n (Nat.eqb y x) | _ => O end.
Definition cb_hand (c : cbpc) (x : nat) : nat := match c with CbUnl u => upc_hand u x | _ => O end.
Definition cb_enq (c : cbpc) : nat := match c with CbEnq _ _ => 1%nat | _ => O end.
Definition th_hand (th : thread) (x : nat) : nat :=
  (pc_hand (main th) x + sumf (fun c => cb_hand c x) (cbs th))%nat.
Definition hands (s : state) (x : nat) : nat := sumf (fun th => th_hand th x) (thr s).
Definition cqcount (s : state) (x : nat) : nat := sumf (fun q => qcount q x) (cqs s).
(** number of places (sleep queues, wakers' hands) where [x] currently is *)
Definition occ (s : state) (x : nat) : nat := (qcount (mq s) x + cqcount s x + hands s x)%nat.
Definition nenq (th : thread) : nat := sumf cb_enq (cbs th).
Definition is_susp (p : pc) : bool := match p with Susp _ => true | _ => false end.
Definition ENQ (s : state) (x : nat) : nat := match get_thread s x with Some th => nenq th | None => O end.
Definition SUSP (s : state) (x : nat) : nat :=
  match get_thread s x with Some th => b2n (is_susp (main th)) | None => O end.

Record Inv2 (s : state) : Prop := {
  i2_len : List.length (cqs s) = 2%nat;
  i2_sl : forall x, (occ s x + ENQ s x)%nat = SUSP s x;
  i2_q : forall c y, In y (nth c (cqs s) []) ->
         exists th, get_thread s y = Some th /\ main th = Susp (ALFe (Z.of_nat c));
  i2_enq : forall t th c unl, get_thread s t = Some th -> In (CbEnq (QC c) unl) (cbs th) ->
           main th = Susp (ALFe (Z.of_nat c)) }.

Lemma qcount_app l1 l2 x : qcount (l1 ++ l2) x = (qcount l1 x + qcount l2 x)%nat.
Proof. apply sumf_app. Qed.

Lemma qcount_in l x : In x l -> (1 <= qcount l x)%nat.
Proof.
  induction l as [|a l IH]; cbn; intros H; [contradiction|].
  destruct H as [->|H]; [rewrite Nat.eqb_refl; cbn; lia|]. specialize (IH H). unfold qcount in IH. lia.
Qed.

Lemma hands_set_thread s1 t th th' y : get_thread s1 t = Some th ->
  (hands (set_thread s1 t th') y + th_hand th y = hands s1 y + th_hand th' y)%nat.
Proof. intros H. unfold hands. rewrite thr_set_thread. apply (sumf_upd (fun th => th_hand th y)). exact H. Qed.

Lemma hands_wake s x thx k y : get_thread s x = Some thx -> main thx = Susp k ->
  hands (set_thread s x (set_main thx (LockRead k))) y = hands s y.
Proof.
  intros H M. pose proof (hands_set_thread s x thx (set_main thx (LockRead k)) y H) as E.
  unfold th_hand in E. rewrite main_set_main, cbs_set_main, M in E. cbn [pc_hand] in E. lia.
Qed.

Lemma hands_ge s t th y : get_thread s t = Some th -> (th_hand th y <= hands s y)%nat.
Proof. intros H. apply (sumf_nth_le (fun th => th_hand th y) _ _ _ H). Qed.

Lemma nth_nonnil (l : list (list nat)) c x r : nth c l [] = x :: r -> nth_error l c = Some (x :: r).
Proof.
  revert c. induction l as [|a l IH]; intros [|c] H; cbn in *; try discriminate.
  - now subst.
  - apply IH. exact H.
Qed.

Lemma nth_error_nth_len (l : list (list nat)) c : (c < List.length l)%nat -> nth_error l c = Some (nth c l []).
Proof.
  revert c. induction l as [|a l IH]; intros [|c] H; cbn in *; try lia; [reflexivity|]. apply IH. lia.
Qed.

Lemma nth_upd_same (l : list (list nat)) c q : (c < List.length l)%nat -> nth c (upd l c q) [] = q.
Proof. revert c. induction l as [|a l IH]; intros [|c] H; cbn in *; try lia; [reflexivity|]. apply IH. lia. Qed.

Lemma nth_upd_other (l : list (list nat)) c c' q : c <> c' -> nth c' (upd l c q) [] = nth c' l [].
Proof.
  revert c c'. induction l as [|a l IH]; intros [|c] [|c'] H; cbn in *; try reflexivity; try congruence.
  apply IH. congruence.
Qed.

Lemma cqcount_setq s c q x : (c < List.length (cqs s))%nat ->
  (cqcount (setq s (QC c) q) x + qcount (nth c (cqs s) []) x = cqcount s x + qcount q x)%nat.
Proof.
  intros H. unfold cqcount. rewrite cqs_setq_QC.
  apply (sumf_upd (fun q => qcount q x)). apply nth_error_nth_len. exact H.
Qed.

Lemma cqcount_ge s c x : (qcount (nth c (cqs s) []) x <= cqcount s x)%nat.
Proof.
  destruct (Nat.lt_ge_cases c (List.length (cqs s))) as [H|H].
  - apply (sumf_nth_le (fun q => qcount q x) _ c). apply nth_error_nth_len. exact H.
  - rewrite nth_overflow by exact H. cbn. lia.
Qed.

Definition QQ (s : state) (y : nat) : nat := (qcount (mq s) y + cqcount s y)%nat.
Definition wk_rel (s s1 : state) (t : nat) (wk : option nat) : Prop :=
  match wk with
  | None => thr s1 = thr s
  | Some x => x <> t /\ exists thx k, get_thread s x = Some thx /\ main thx = Susp k /\
                                      thr s1 = upd (thr s) x (set_main thx (LockRead k))
  end.
Definition wkn (wk : option nat) (y : nat) : nat := match wk with Some x => b2n (Nat.eqb x y) | None => O end.
Definition selfn (t y : nat) (n : nat) : nat := if Nat.eqb t y then n else O.

Lemma wk_rel_get s s1 t wk : wk_rel s s1 t wk ->
  forall y, get_thread s1 y =
            match wk with
            | Some x => if Nat.eqb x y
                        then match get_thread s x with
                             | Some thx => Some (set_main thx (match main thx with Susp k => LockRead k | p => p end))
                             | None => None end
                        else get_thread s y
            | None => get_thread s y
            end.
Proof.
  intros W y. destruct wk as [x|]; cbn in W.
  - destruct W as (Hx & thx & k & A & B & C). unfold get_thread at 1. rewrite C, nth_error_upd.
    destruct (Nat.eqb_spec x y) as [->|N]; [|reflexivity].
    unfold get_thread in A. rewrite A. unfold get_thread. rewrite A, B. reflexivity.
  - unfold get_thread. now rewrite W.
Qed.

Lemma wk_rel_hands s s1 t wk y : wk_rel s s1 t wk -> hands s1 y = hands s y.
Proof.
  intros W. destruct wk as [x|]; cbn in W.
  - destruct W as (Hx & thx & k & A & B & C). unfold hands at 1. rewrite C.
    apply (hands_wake s x thx k y A B).
  - unfold hands. now rewrite W.
Qed.

Lemma sl_update s s1 t th th' wk :
  (forall y, (occ s y + ENQ s y)%nat = SUSP s y) ->
  get_thread s t = Some th -> wk_rel s s1 t wk ->
  (forall y, (QQ s1 y + th_hand th' y + selfn t y (nenq th' + b2n (is_susp (main th))) + wkn wk y
              = QQ s y + th_hand th y + selfn t y (nenq th + b2n (is_susp (main th'))))%nat) ->
  forall y, (occ (set_thread s1 t th') y + ENQ (set_thread s1 t th') y)%nat = SUSP (set_thread s1 t th') y.
Proof.
  intros IH Hth W R y.
  pose proof (wk_rel_get _ _ _ _ W) as G. pose proof (wk_rel_hands _ _ _ _ y W) as Hh.
  assert (G1 : get_thread s1 t = Some th).
  { rewrite G. destruct wk as [x|]; [|exact Hth]. destruct W as [Hx _].
    destruct (Nat.eqb_spec x t); [contradiction|exact Hth]. }
  pose proof (hands_set_thread s1 t th th' y G1) as Hs.
  specialize (R y). specialize (IH y). unfold occ, ENQ, SUSP, QQ, selfn in *.
  unfold cqcount in *. rewrite mq_set_thread, cqs_set_thread.
  fold (cqcount s1 y) in *. fold (cqcount s y) in *.
  rewrite get_set_thread, G1. unfold selfn in R.
  set (h' := hands (set_thread s1 t th') y) in *. set (h1 := hands s1 y) in *. set (h := hands s y) in *.
  clearbody h' h1 h.
  destruct (Nat.eqb_spec t y) as [->|Hty].
  - rewrite Hth in IH.
    assert (wkn wk y = O).
    { destruct wk as [x|]; [|reflexivity]. destruct W as [Hx _]. cbn.
      destruct (Nat.eqb_spec x y); [contradiction|reflexivity]. }
    lia.
  - rewrite G. destruct wk as [x|]; cbn [wkn] in R; [|lia].
    destruct W as (Hx & thx & k & A & B & C).
    destruct (Nat.eqb_spec x y) as [->|Hxy]; cbn [b2n] in R; [|lia].
    rewrite A in IH |- *. rewrite B in IH |- *. cbn in IH |- *. unfold nenq in *. gts. lia.
Qed.

Lemma nenq_in q unl l : In (CbEnq q unl) l -> (1 <= sumf cb_enq l)%nat.
Proof.
  induction l as [|a l IH]; cbn; intros H; [contradiction|].
  destruct H as [->|H]; [cbn; lia|]. specialize (IH H). lia.
Qed.

Lemma SUSP_le1 s y : (SUSP s y <= 1)%nat.
Proof. unfold SUSP. destruct (get_thread s y) as [th|]; [|lia]. destruct (is_susp (main th)); cbn; lia. Qed.

Lemma in_cq_count s c y : In y (nth c (cqs s) []) -> (1 <= cqcount s y)%nat.
Proof. intros H. pose proof (qcount_in _ _ H). pose proof (cqcount_ge s c y). lia. Qed.

Definition main_ok (th th' : thread) (t : nat) : Prop :=
  main th' = main th \/ is_susp (main th) = false \/ (1 <= th_hand th t)%nat.

Lemma Inv2_update s s1 t th th' wk :
  Inv2 s -> get_thread s t = Some th -> wk_rel s s1 t wk ->
  List.length (cqs s1) = 2%nat ->
  (forall y, (QQ s1 y + th_hand th' y + selfn t y (nenq th' + b2n (is_susp (main th))) + wkn wk y
              = QQ s y + th_hand th y + selfn t y (nenq th + b2n (is_susp (main th'))))%nat) ->
  (forall x, wk = Some x -> (1 <= th_hand th x)%nat) ->
  main_ok th th' t ->
  (forall c y, In y (nth c (cqs s1) []) ->
               In y (nth c (cqs s) []) \/ (y = t /\ main th' = Susp (ALFe (Z.of_nat c)))) ->
  (forall c unl, In (CbEnq (QC c) unl) (cbs th') ->
                 In (CbEnq (QC c) unl) (cbs th) \/ main th' = Susp (ALFe (Z.of_nat c))) ->
  Inv2 (set_thread s1 t th').
Proof.
  intros I Hth W Hlen R Hwk Hmain Hq Henq.
  pose proof (wk_rel_get _ _ _ _ W) as G.
  assert (G1 : get_thread s1 t = Some th).
  { rewrite G. destruct wk as [x|]; [|exact Hth]. destruct W as [Hx _].
    destruct (Nat.eqb_spec x t); [contradiction|exact Hth]. }
  pose proof (i2_sl _ I) as SL.
  (* a thread in t's hand is in no queue and has no enqueue pending *)
  assert (Hhand : forall x, (1 <= th_hand th x)%nat -> cqcount s x = O /\ ENQ s x = O).
  { intros x Hx. pose proof (SL x) as E. pose proof (SUSP_le1 s x). pose proof (hands_ge s t th x Hth).
    unfold occ in E. lia. }
  assert (Hself : main th' = main th \/ (forall c, ~ In t (nth c (cqs s) [])) /\ nenq th = O).
  { destruct Hmain as [E|[E|E]]; [left; exact E| |].
    - right. pose proof (SL t) as X. unfold SUSP, ENQ in X. rewrite Hth, E in X. cbn in X. unfold occ in X.
      split; [|lia]. intros c Hin. apply in_cq_count in Hin. lia.
    - right. destruct (Hhand _ E) as [A B]. unfold ENQ in B. rewrite Hth in B. split; [|exact B].
      intros c Hin. apply in_cq_count in Hin. lia. }
  split.
  - rewrite cqs_set_thread. exact Hlen.
  - eapply sl_update; eauto.
  - intros c y Hin. rewrite cqs_set_thread in Hin. rewrite get_set_thread, G1.
    destruct (Hq _ _ Hin) as [Hold|[-> Hm]].
    + destruct (i2_q _ I _ _ Hold) as (thy & Gy & My).
      destruct (Nat.eqb_spec t y) as [->|Hty].
      * rewrite Hth in Gy. inv Gy. exists th'. split; [reflexivity|].
        destruct Hself as [E|[E _]]; [congruence|]. exfalso. eapply E; eauto.
      * rewrite G. destruct wk as [x|]; [|eauto].
        destruct (Nat.eqb_spec x y) as [->|Hxy]; [|eauto].
        exfalso. destruct (Hhand y (Hwk _ eq_refl)) as [A _]. apply in_cq_count in Hold. lia.
    + rewrite Nat.eqb_refl. eauto.
  - intros u thu c unl Gu Hin. rewrite get_set_thread, G1 in Gu.
    destruct (Nat.eqb_spec t u) as [->|Htu].
    + inv Gu. destruct (Henq _ _ Hin) as [Hold|Hm]; [|exact Hm].
      pose proof (i2_enq _ I _ _ _ _ Hth Hold) as M.
      destruct Hself as [E|[_ E]]; [congruence|]. apply nenq_in in Hold. unfold nenq in E. lia.
    + rewrite G in Gu. destruct wk as [x|]; [|eapply i2_enq; eauto].
      destruct (Nat.eqb_spec x u) as [->|Hxu]; [|eapply i2_enq; eauto].
      exfalso. destruct (Hhand u (Hwk _ eq_refl)) as [_ B]. unfold ENQ in B.
      destruct W as (_ & thx & k & A & M & _). rewrite A in Gu, B. rewrite M in Gu. inv Gu.
      cbn in Hin. apply nenq_in in Hin. unfold nenq in B. lia.
Qed.

Definition ures_hand (r : ures) (y : nat) : nat := match r with UNext u' => upc_hand u' y | UFin _ => O end.

Lemma urel_sl s t th u s1 th1 r :
  urel s t th u s1 th1 r -> get_thread s t = Some th ->
  exists wk, wk_rel s s1 t wk /\ cbs th1 = cbs th /\ cqs s1 = cqs s /\
    (forall x, wk = Some x -> (1 <= upc_hand u x)%nat) /\
    (main th1 = main th \/ (1 <= upc_hand u t)%nat) /\
    forall y, (QQ s1 y + ures_hand r y + wkn wk y + selfn t y (b2n (is_susp (main th)))
               = QQ s y + upc_hand u y + selfn t y (b2n (is_susp (main th1))))%nat.
Proof.
  intros U Hth. inv U.
  all: try (exists None; cbn; repeat split; auto; try discriminate; intros y; unfold QQ, cqcount; gts; cbn; lia).
  - (* deq *) exists None. cbn. repeat split; auto; try discriminate. intros y. unfold QQ, cqcount. gts.
    rewrite H. cbn. lia.
  - (* push *) exists (Some x). cbn. repeat split; auto.
    + exists thx, k. auto.
    + intros x0 E. inv E. rewrite Nat.eqb_refl. cbn. lia.
    + intros y. unfold QQ, cqcount. gts. lia.
  - (* push self *) exists None. cbn. repeat split; auto; try discriminate.
    + right. rewrite Nat.eqb_refl. cbn. lia.
    + intros y. rewrite H. unfold selfn. cbn. destruct (Nat.eqb t y); cbn; lia.
Qed.
