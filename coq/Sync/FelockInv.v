(** C09 - full/empty lock, part 3: sleepers and status invariants of the felock system. *)
From Coq Require Import ZArith List Bool Lia Arith.
From MT Require Import Lib.Interleave Sync.SyncModel Sync.FelockBase Sync.FelockOwn.
Import ListNotations.
Local Open Scope Z_scope.

(* ------------------------------------------------------------------------------------------ *)
(** * 3. sleepers: every suspended thread is in exactly one place *)

Definition qcount (l : list nat) (x : nat) : nat := sumf (fun y => b2n (Nat.eqb y x)) l.
Definition upc_hand (u : upc) (x : nat) : nat :=
  match u with UClear _ y | UPush _ y => b2n (Nat.eqb y x) | _ => O end.
Definition pc_hand (p : pc) (x : nat) : nat :=
  match p with Unl u => upc_hand u x | SigPush _ _ y => b2n (Nat.eqb y x) | _ => O end.
Definition cb_hand (c : cbpc) (x : nat) : nat := match c with CbUnl u => upc_hand u x | _ => O end.
Definition cb_enq (c : cbpc) : nat := match c with CbEnq _ _ => 1%nat | _ => O end.
Definition th_hand (th : thread) (x : nat) : nat :=
  (pc_hand (main th) x + sumf (fun c => cb_hand c x) (cbs th))%nat.
Definition hands (s : state) (x : nat) : nat := sumf (fun th => th_hand th x) (thr s).
Definition cqcount (s : state) (x : nat) : nat := sumf (fun q => qcount q x) (cqs s).
(** number of places (sleep queues, wakers' hands) where [x] currently is *)
Definition occ (s : state) (x : nat) : nat := (qcount (mq s) x + cqcount s x + hands s x)%nat.
Definition nenq (th : thread) : nat := sumf cb_enq (cbs th).
Definition is_susp (p : pc) : bool := match p with Susp _ => true | _ => false end.
Definition ENQ (s : state) (x : nat) : nat := match get_thread s x with Some th => nenq th | None => O end.
Definition SUSP (s : state) (x : nat) : nat :=
  match get_thread s x with Some th => b2n (is_susp (main th)) | None => O end.

Record Inv2 (s : state) : Prop := {
  i2_len : List.length (cqs s) = 2%nat;
  i2_sl : forall x, (occ s x + ENQ s x)%nat = SUSP s x;
  i2_q : forall c y, In y (nth c (cqs s) []) ->
         exists th, get_thread s y = Some th /\ main th = Susp (ALFe (Z.of_nat c));
  i2_enq : forall t th c unl, get_thread s t = Some th -> In (CbEnq (QC c) unl) (cbs th) ->
           main th = Susp (ALFe (Z.of_nat c)) }.

Lemma qcount_app l1 l2 x : qcount (l1 ++ l2) x = (qcount l1 x + qcount l2 x)%nat.
Proof. apply sumf_app. Qed.

Lemma qcount_in l x : In x l -> (1 <= qcount l x)%nat.
Proof.
  induction l as [|a l IH]; cbn; intros H; [contradiction|].
  destruct H as [->|H]; [rewrite Nat.eqb_refl; cbn; lia|]. specialize (IH H). unfold qcount in IH. lia.
Qed.

Lemma hands_set_thread s1 t th th' y : get_thread s1 t = Some th ->
  (hands (set_thread s1 t th') y + th_hand th y = hands s1 y + th_hand th' y)%nat.
Proof. intros H. unfold hands. rewrite thr_set_thread. apply (sumf_upd (fun th => th_hand th y)). exact H. Qed.

Lemma hands_wake s x thx k y : get_thread s x = Some thx -> main thx = Susp k ->
  hands (set_thread s x (set_main thx (LockRead k))) y = hands s y.
Proof.
  intros H M. pose proof (hands_set_thread s x thx (set_main thx (LockRead k)) y H) as E.
  unfold th_hand in E. rewrite main_set_main, cbs_set_main, M in E. cbn [pc_hand] in E. lia.
Qed.

Lemma hands_ge s t th y : get_thread s t = Some th -> (th_hand th y <= hands s y)%nat.
Proof. intros H. apply (sumf_nth_le (fun th => th_hand th y) _ _ _ H). Qed.

Lemma nth_nonnil (l : list (list nat)) c x r : nth c l [] = x :: r -> nth_error l c = Some (x :: r).
Proof.
  revert c. induction l as [|a l IH]; intros [|c] H; cbn in *; try discriminate.
  - now subst.
  - apply IH. exact H.
Qed.

Lemma nth_error_nth_len (l : list (list nat)) c : (c < List.length l)%nat -> nth_error l c = Some (nth c l []).
Proof.
  revert c. induction l as [|a l IH]; intros [|c] H; cbn in *; try lia; [reflexivity|]. apply IH. lia.
Qed.

Lemma nth_upd_same (l : list (list nat)) c q : (c < List.length l)%nat -> nth c (upd l c q) [] = q.
Proof. revert c. induction l as [|a l IH]; intros [|c] H; cbn in *; try lia; [reflexivity|]. apply IH. lia. Qed.

Lemma nth_upd_other (l : list (list nat)) c c' q : c <> c' -> nth c' (upd l c q) [] = nth c' l [].
Proof.
  revert c c'. induction l as [|a l IH]; intros [|c] [|c'] H; cbn in *; try reflexivity; try congruence.
  apply IH. congruence.
Qed.

Lemma cqcount_setq s c q x : (c < List.length (cqs s))%nat ->
  (cqcount (setq s (QC c) q) x + qcount (nth c (cqs s) []) x = cqcount s x + qcount q x)%nat.
Proof.
  intros H. unfold cqcount. rewrite cqs_setq_QC.
  apply (sumf_upd (fun q => qcount q x)). apply nth_error_nth_len. exact H.
Qed.

Lemma cqcount_ge s c x : (qcount (nth c (cqs s) []) x <= cqcount s x)%nat.
Proof.
  destruct (Nat.lt_ge_cases c (List.length (cqs s))) as [H|H].
  - apply (sumf_nth_le (fun q => qcount q x) _ c). apply nth_error_nth_len. exact H.
  - rewrite nth_overflow by exact H. cbn. lia.
Qed.

Definition QQ (s : state) (y : nat) : nat := (qcount (mq s) y + cqcount s y)%nat.
Definition wk_rel (s s1 : state) (t : nat) (wk : option nat) : Prop :=
  match wk with
  | None => thr s1 = thr s
  | Some x => x <> t /\ exists thx k, get_thread s x = Some thx /\ main thx = Susp k /\
                                      thr s1 = upd (thr s) x (set_main thx (LockRead k))
  end.
Definition wkn (wk : option nat) (y : nat) : nat := match wk with Some x => b2n (Nat.eqb x y) | None => O end.
Definition selfn (t y : nat) (n : nat) : nat := if Nat.eqb t y then n else O.

Lemma wk_rel_get s s1 t wk : wk_rel s s1 t wk ->
  forall y, get_thread s1 y =
            match wk with
            | Some x => if Nat.eqb x y
                        then match get_thread s x with
                             | Some thx => Some (set_main thx (match main thx with Susp k => LockRead k | p => p end))
                             | None => None end
                        else get_thread s y
            | None => get_thread s y
            end.
Proof.
  intros W y. destruct wk as [x|]; cbn in W.
  - destruct W as (Hx & thx & k & A & B & C). unfold get_thread at 1. rewrite C, nth_error_upd.
    destruct (Nat.eqb_spec x y) as [->|N]; [|reflexivity].
    unfold get_thread in A. rewrite A. unfold get_thread. rewrite A, B. reflexivity.
  - unfold get_thread. now rewrite W.
Qed.

Lemma wk_rel_hands s s1 t wk y : wk_rel s s1 t wk -> hands s1 y = hands s y.
Proof.
  intros W. destruct wk as [x|]; cbn in W.
  - destruct W as (Hx & thx & k & A & B & C). unfold hands at 1. rewrite C.
    apply (hands_wake s x thx k y A B).
  - unfold hands. now rewrite W.
Qed.

Lemma sl_update s s1 t th th' wk :
  (forall y, (occ s y + ENQ s y)%nat = SUSP s y) ->
  get_thread s t = Some th -> wk_rel s s1 t wk ->
  (forall y, (QQ s1 y + th_hand th' y + selfn t y (nenq th' + b2n (is_susp (main th))) + wkn wk y
              = QQ s y + th_hand th y + selfn t y (nenq th + b2n (is_susp (main th'))))%nat) ->
  forall y, (occ (set_thread s1 t th') y + ENQ (set_thread s1 t th') y)%nat = SUSP (set_thread s1 t th') y.
Proof.
  intros IH Hth W R y.
  pose proof (wk_rel_get _ _ _ _ W) as G. pose proof (wk_rel_hands _ _ _ _ y W) as Hh.
  assert (G1 : get_thread s1 t = Some th).
  { rewrite G. destruct wk as [x|]; [|exact Hth]. destruct W as [Hx _].
    destruct (Nat.eqb_spec x t); [contradiction|exact Hth]. }
  pose proof (hands_set_thread s1 t th th' y G1) as Hs.
  specialize (R y). specialize (IH y). unfold occ, ENQ, SUSP, QQ, selfn in *.
  unfold cqcount in *. rewrite mq_set_thread, cqs_set_thread.
  fold (cqcount s1 y) in *. fold (cqcount s y) in *.
  rewrite get_set_thread, G1. unfold selfn in R.
  set (h' := hands (set_thread s1 t th') y) in *. set (h1 := hands s1 y) in *. set (h := hands s y) in *.
  clearbody h' h1 h.
  destruct (Nat.eqb_spec t y) as [->|Hty].
  - rewrite Hth in IH.
    assert (wkn wk y = O).
    { destruct wk as [x|]; [|reflexivity]. destruct W as [Hx _]. cbn.
      destruct (Nat.eqb_spec x y); [contradiction|reflexivity]. }
    lia.
  - rewrite G. destruct wk as [x|]; cbn [wkn] in R; [|lia].
    destruct W as (Hx & thx & k & A & B & C).
    destruct (Nat.eqb_spec x y) as [->|Hxy]; cbn [b2n] in R; [|lia].
    rewrite A in IH |- *. rewrite B in IH |- *. cbn in IH |- *. unfold nenq in *. gts. lia.
Qed.

Lemma nenq_in q unl l : In (CbEnq q unl) l -> (1 <= sumf cb_enq l)%nat.
Proof.
  induction l as [|a l IH]; cbn; intros H; [contradiction|].
  destruct H as [->|H]; [cbn; lia|]. specialize (IH H). lia.
Qed.

Lemma SUSP_le1 s y : (SUSP s y <= 1)%nat.
Proof. unfold SUSP. destruct (get_thread s y) as [th|]; [|lia]. destruct (is_susp (main th)); cbn; lia. Qed.

Lemma in_cq_count s c y : In y (nth c (cqs s) []) -> (1 <= cqcount s y)%nat.
Proof. intros H. pose proof (qcount_in _ _ H). pose proof (cqcount_ge s c y). lia. Qed.

Definition main_ok (th th' : thread) (t : nat) : Prop :=
  main th' = main th \/ is_susp (main th) = false \/ (1 <= th_hand th t)%nat.

Lemma Inv2_update s s1 t th th' wk :
  Inv2 s -> get_thread s t = Some th -> wk_rel s s1 t wk ->
  List.length (cqs s1) = 2%nat ->
  (forall y, (QQ s1 y + th_hand th' y + selfn t y (nenq th' + b2n (is_susp (main th))) + wkn wk y
              = QQ s y + th_hand th y + selfn t y (nenq th + b2n (is_susp (main th'))))%nat) ->
  (forall x, wk = Some x -> (1 <= th_hand th x)%nat) ->
  main_ok th th' t ->
  (forall c y, In y (nth c (cqs s1) []) ->
               In y (nth c (cqs s) []) \/ (y = t /\ main th' = Susp (ALFe (Z.of_nat c)))) ->
  (forall c unl, In (CbEnq (QC c) unl) (cbs th') ->
                 In (CbEnq (QC c) unl) (cbs th) \/ main th' = Susp (ALFe (Z.of_nat c))) ->
  Inv2 (set_thread s1 t th').
Proof.
  intros I Hth W Hlen R Hwk Hmain Hq Henq.
  pose proof (wk_rel_get _ _ _ _ W) as G.
  assert (G1 : get_thread s1 t = Some th).
  { rewrite G. destruct wk as [x|]; [|exact Hth]. destruct W as [Hx _].
    destruct (Nat.eqb_spec x t); [contradiction|exact Hth]. }
  pose proof (i2_sl _ I) as SL.
  (* a thread in t's hand is in no queue and has no enqueue pending *)
  assert (Hhand : forall x, (1 <= th_hand th x)%nat -> cqcount s x = O /\ ENQ s x = O).
  { intros x Hx. pose proof (SL x) as E. pose proof (SUSP_le1 s x). pose proof (hands_ge s t th x Hth).
    unfold occ in E. lia. }
  assert (Hself : main th' = main th \/ (forall c, ~ In t (nth c (cqs s) [])) /\ nenq th = O).
  { destruct Hmain as [E|[E|E]]; [left; exact E| |].
    - right. pose proof (SL t) as X. unfold SUSP, ENQ in X. rewrite Hth, E in X. cbn in X. unfold occ in X.
      split; [|lia]. intros c Hin. apply in_cq_count in Hin. lia.
    - right. destruct (Hhand _ E) as [A B]. unfold ENQ in B. rewrite Hth in B. split; [|exact B].
      intros c Hin. apply in_cq_count in Hin. lia. }
  split.
  - rewrite cqs_set_thread. exact Hlen.
  - eapply sl_update; eauto.
  - intros c y Hin. rewrite cqs_set_thread in Hin. rewrite get_set_thread, G1.
    destruct (Hq _ _ Hin) as [Hold|[-> Hm]].
    + destruct (i2_q _ I _ _ Hold) as (thy & Gy & My).
      destruct (Nat.eqb_spec t y) as [->|Hty].
      * rewrite Hth in Gy. inv Gy. exists th'. split; [reflexivity|].
        destruct Hself as [E|[E _]]; [congruence|]. exfalso. eapply E; eauto.
      * rewrite G. destruct wk as [x|]; [|eauto].
        destruct (Nat.eqb_spec x y) as [->|Hxy]; [|eauto].
        exfalso. destruct (Hhand y (Hwk _ eq_refl)) as [A _]. apply in_cq_count in Hold. lia.
    + rewrite Nat.eqb_refl. eauto.
  - intros u thu c unl Gu Hin. rewrite get_set_thread, G1 in Gu.
    destruct (Nat.eqb_spec t u) as [->|Htu].
    + inv Gu. destruct (Henq _ _ Hin) as [Hold|Hm]; [|exact Hm].
      pose proof (i2_enq _ I _ _ _ _ Hth Hold) as M.
      destruct Hself as [E|[_ E]]; [congruence|]. apply nenq_in in Hold. unfold nenq in E. lia.
    + rewrite G in Gu. destruct wk as [x|]; [|eapply i2_enq; eauto].
      destruct (Nat.eqb_spec x u) as [->|Hxu]; [|eapply i2_enq; eauto].
      exfalso. destruct (Hhand u (Hwk _ eq_refl)) as [_ B]. unfold ENQ in B.
      destruct W as (_ & thx & k & A & M & _). rewrite A in Gu, B. rewrite M in Gu. inv Gu.
      cbn in Hin. apply nenq_in in Hin. unfold nenq in B. lia.
Qed.

Definition ures_hand (r : ures) (y : nat) : nat := match r with UNext u' => upc_hand u' y | UFin _ => O end.

Lemma urel_sl s t th u s1 th1 r :
  urel s t th u s1 th1 r -> get_thread s t = Some th ->
  exists wk, wk_rel s s1 t wk /\ cbs th1 = cbs th /\ cqs s1 = cqs s /\
    (forall x, wk = Some x -> (1 <= upc_hand u x)%nat) /\
    (main th1 = main th \/ (1 <= upc_hand u t)%nat) /\
    forall y, (QQ s1 y + ures_hand r y + wkn wk y + selfn t y (b2n (is_susp (main th)))
               = QQ s y + upc_hand u y + selfn t y (b2n (is_susp (main th1))))%nat.
Proof.
  intros U Hth. inv U.
  all: try (exists None; cbn; repeat split; auto; try discriminate; intros y; unfold QQ, cqcount; gts; cbn; lia).
  - (* deq *) exists None. cbn. repeat split; auto; try discriminate. intros y. unfold QQ, cqcount. gts.
    rewrite H. cbn. lia.
  - (* push *) exists (Some x). cbn. split; [split; [assumption|exists thx, k; auto]|].
    split; [reflexivity|]. split; [reflexivity|]. split; [|split; [left; reflexivity|]].
    + intros x0 E. inv E. rewrite Nat.eqb_refl. cbn. lia.
    + intros y. unfold QQ, cqcount, qcount. gts. lia.
  - (* push self *) exists None. cbn. split; [reflexivity|].
    split; [reflexivity|]. split; [reflexivity|]. split; [discriminate|split].
    + right. rewrite Nat.eqb_refl. cbn. lia.
    + intros y. rewrite H. unfold selfn. cbn. destruct (Nat.eqb t y); cbn; lia.
Qed.

Lemma Inv2_init s : finit s -> Inv2 s.
Proof.
  intros [nt ->]. split; cbn.
  - reflexivity.
  - intros x. unfold occ, ENQ, SUSP, hands, cqcount, get_thread, init_state; cbn.
    rewrite sumf_repeat by reflexivity.
    destruct (nth_error (repeat thread0 nt) x) as [th|] eqn:E; [|reflexivity].
    apply nth_error_repeat in E. subst. reflexivity.
  - intros [|[|c]] y H; cbn in H; try contradiction. destruct c; contradiction.
  - intros t th c unl H. apply nth_error_repeat in H. subst. cbn. contradiction.
Qed.

Lemma hand_cbs_next l i u r y : nth_error l i = Some (CbUnl u) ->
  (sumf (fun c => cb_hand c y) (cbs_next l i r) + upc_hand u y
   = sumf (fun c => cb_hand c y) l + ures_hand r y)%nat.
Proof.
  intros H. destruct r as [u'|nf]; cbn [cbs_next ures_hand].
  - apply (sumf_upd (fun c => cb_hand c y) _ _ _ (CbUnl u') H).
  - pose proof (sumf_remove_nth (fun c => cb_hand c y) _ _ _ H) as X. cbn in X |- *. lia.
Qed.

Lemma enq_cbs_next l i u r : nth_error l i = Some (CbUnl u) -> sumf cb_enq (cbs_next l i r) = sumf cb_enq l.
Proof.
  intros H. destruct r as [u'|nf]; cbn [cbs_next].
  - pose proof (sumf_upd cb_enq _ _ _ (CbUnl u') H) as X. cbn in X. lia.
  - pose proof (sumf_remove_nth cb_enq _ _ _ H) as X. cbn in X. lia.
Qed.

Lemma in_upd {A} (l : list A) i x y : In y (upd l i x) -> y = x \/ In y l.
Proof.
  revert i. induction l as [|a l IH]; intros [|i] H; cbn in *; try tauto.
  - destruct H as [H|H]; auto.
  - destruct H as [H|H]; auto. destruct (IH _ H); auto.
Qed.

Lemma in_remove_nth {A} (l : list A) i y : In y (remove_nth l i) -> In y l.
Proof.
  revert i. induction l as [|a l IH]; intros [|i] H; cbn in *; try tauto.
  destruct H as [H|H]; auto. right. eapply IH; eauto.
Qed.

Lemma in_cbs_next l i r c unl : In (CbEnq c unl) (cbs_next l i r) -> In (CbEnq c unl) l.
Proof.
  destruct r as [u'|nf]; cbn [cbs_next]; intros H.
  - apply in_upd in H. destruct H as [H|H]; [discriminate|exact H].
  - eapply in_remove_nth; eauto.
Qed.

Lemma fe_pc_sigdeq c k : fe_pc (SigDeq c k) = true -> (c < 2)%nat.
Proof. unfold fe_pc. intros P. apply andb_prop in P. destruct P as [P _]. apply Nat.ltb_lt in P. exact P. Qed.
Lemma fe_cb_qc c unl : fe_cb (CbEnq (QC c) unl) = true -> (c < 2)%nat /\ unl = true.
Proof. unfold fe_cb. intros P. apply andb_prop in P. destruct P as [Q P]. apply Nat.ltb_lt in P. auto. Qed.

Ltac inv2_simple I2 Hth :=
  eapply (Inv2_update _ _ _ _ _ None I2 Hth);
  [ cbn; gts; reflexivity
  | gts; apply (i2_len _ I2)
  | intros y; unfold QQ, cqcount, th_hand, nenq, selfn; gts;
    repeat match goal with H : main _ = _ |- _ => rewrite H end;
    cbn; destruct (Nat.eqb _ y); lia
  | discriminate
  | first [ left; reflexivity
          | right; left; match goal with H : main _ = _ |- _ => rewrite H end; reflexivity ]
  | intros cc yy Hin; left; gts; exact Hin
  | intros cc uu Hin; left; gts; exact Hin ].

Lemma Inv2_step s t e s' : Inv1 s -> Inv2 s -> fstep s (t, e) = Some s' -> Inv2 s'.
Proof.
  intros I1 I2 H. destruct (fstep_thread _ _ _ _ H) as [th Hth].
  pose proof (i1_thr _ I1 _ _ Hth) as T.
  pose proof (step_srel _ _ _ _ _ Hth (t1_pc _ T) H) as R. clear H.
  inversion R; subst; clear R.
  all: try solve [inv2_simple I2 Hth].
  - (* cas1_ok *) destruct k; cbn [acquired]; inv2_simple I2 Hth.
  - (* cas2_ok *)
    eapply (Inv2_update _ _ _ _ _ None I2 Hth).
    + cbn; gts; reflexivity.
    + gts; apply (i2_len _ I2).
    + intros y; unfold QQ, cqcount, th_hand, nenq, selfn; gts. rewrite sumf_app, sumf_app.
      match goal with H : main _ = _ |- _ => rewrite H end. cbn. destruct (Nat.eqb _ y); lia.
    + discriminate.
    + right; left. match goal with H : main _ = _ |- _ => rewrite H end. reflexivity.
    + intros c y Hin; left; gts; exact Hin.
    + intros c unl Hin. left. gts. apply in_app_or in Hin. destruct Hin as [Hin|[Hin|[]]]; [exact Hin|discriminate].
  - (* unl *)
    match goal with U : urel _ _ _ _ _ _ _ |- _ =>
      destruct (urel_sl _ _ _ _ _ _ _ U Hth) as (wk & W & Hcbs & Hcq & Hwk & _ & Rq);
      pose proof (urel_own _ _ _ _ _ _ _ U) as Hm end.
    assert (Hm1 : main th1 = Unl u) by (destruct Hm as [E|(k & E & _)]; congruence).
    eapply (Inv2_update _ _ _ _ _ wk I2 Hth W).
    + rewrite Hcq. apply (i2_len _ I2).
    + intros y. specialize (Rq y). unfold th_hand, nenq. gts. rewrite Hcbs, H, Hm1 in *.
      assert (E1 : pc_hand (upc_next r) y = ures_hand r y) by (destruct r; reflexivity).
      assert (E2 : is_susp (upc_next r) = false) by (destruct r; reflexivity).
      rewrite E1, E2. cbn [pc_hand is_susp b2n] in *. unfold selfn in *. destruct (Nat.eqb t y); lia.
    + intros x E. specialize (Hwk x E). unfold th_hand. rewrite H. cbn. lia.
    + right; left. rewrite H. reflexivity.
    + intros c y Hin. left. rewrite Hcq in Hin. exact Hin.
    + intros c unl Hin. left. gts. rewrite Hcbs in Hin. exact Hin.
  - (* sigdeq *)
    assert (Hc : (c < List.length (cqs s))%nat).
    { rewrite (i2_len _ I2). pose proof (t1_pc _ T) as P. rewrite H in P. eapply fe_pc_sigdeq; eauto. }
    cbn [getq] in H0.
    eapply (Inv2_update _ _ _ _ _ None I2 Hth).
    + cbn; gts; reflexivity.
    + gts. rewrite length_upd. apply (i2_len _ I2).
    + intros y. pose proof (cqcount_setq s c r y Hc) as E. rewrite H0 in E. unfold qcount in E. cbn in E.
      unfold QQ, th_hand, nenq, selfn. gts. rewrite H. cbn. unfold cqcount, qcount in *. destruct (Nat.eqb t y); lia.
    + discriminate.
    + right; left. rewrite H. reflexivity.
    + intros cc yy Hin. left. gts. destruct (Nat.eq_dec c cc) as [->|Hne].
      * rewrite nth_upd_same in Hin by exact Hc. rewrite H0. right. exact Hin.
      * rewrite nth_upd_other in Hin by exact Hne. exact Hin.
    + intros cc uu Hin; left; gts; exact Hin.
  - (* sigpush *)
    eapply (Inv2_update _ _ _ _ _ (Some x) I2 Hth).
    + cbn. split; [assumption|]. exists thx, k. gts. auto.
    + gts. apply (i2_len _ I2).
    + intros y. unfold QQ, cqcount, th_hand, nenq, selfn. gts. rewrite H. cbn. destruct (Nat.eqb t y); lia.
    + intros x0 E. inv E. unfold th_hand. rewrite H. cbn. rewrite Nat.eqb_refl. cbn. lia.
    + right; left. rewrite H. reflexivity.
    + intros cc yy Hin; left; gts; exact Hin.
    + intros cc uu Hin; left; gts; exact Hin.
  - (* feread_wait *)
    pose proof (t1_pc _ T) as P. rewrite H in P. cbn in P. destruct (valid_st_idx _ P) as [_ Hidx].
    eapply (Inv2_update _ _ _ _ _ None I2 Hth).
    + cbn; gts; reflexivity.
    + gts; apply (i2_len _ I2).
    + intros y; unfold QQ, cqcount, th_hand, nenq, selfn; gts. rewrite sumf_app, sumf_app.
      rewrite H. cbn. destruct (Nat.eqb _ y); lia.
    + discriminate.
    + right; left. rewrite H. reflexivity.
    + intros cc yy Hin; left; gts; exact Hin.
    + intros cc uu Hin. gts. apply in_app_or in Hin. destruct Hin as [Hin|[Hin|[]]]; [left; exact Hin|].
      right. inv Hin. rewrite Hidx. reflexivity.
  - (* cbenq *)
    pose proof (nbadcb_nth _ _ _ H (t1_cb _ T)) as Hfe.
    set (L' := if unl then upd (cbs th) i (CbUnl (URead 0)) else remove_nth (cbs th) i).
    assert (Le : (sumf cb_enq L' + 1 = sumf cb_enq (cbs th))%nat).
    { subst L'. destruct unl.
      - pose proof (sumf_upd cb_enq _ _ _ (CbUnl (URead 0)) H) as X. cbn in X. lia.
      - pose proof (sumf_remove_nth cb_enq _ _ _ H) as X. cbn in X. lia. }
    assert (Lh : forall y, sumf (fun c => cb_hand c y) L' = sumf (fun c => cb_hand c y) (cbs th)).
    { intros y. subst L'. destruct unl.
      - pose proof (sumf_upd (fun c => cb_hand c y) _ _ _ (CbUnl (URead 0)) H) as X. cbn in X. lia.
      - pose proof (sumf_remove_nth (fun c => cb_hand c y) _ _ _ H) as X. cbn in X. lia. }
    assert (Li : forall cc uu, In (CbEnq cc uu) L' -> In (CbEnq cc uu) (cbs th)).
    { intros cc uu Hin. subst L'. destruct unl.
      - apply in_upd in Hin. destruct Hin as [Hin|Hin]; [discriminate|exact Hin].
      - eapply in_remove_nth; eauto. }
    clearbody L'.
    destruct q as [|c].
    + eapply (Inv2_update _ _ _ _ _ None I2 Hth).
      * cbn; gts; reflexivity.
      * gts. apply (i2_len _ I2).
      * intros y. unfold QQ, cqcount, th_hand, nenq, selfn. gts. cbn [getq]. rewrite qcount_app, Lh.
        unfold qcount. cbn. destruct (Nat.eqb t y); cbn; lia.
      * discriminate.
      * left; reflexivity.
      * intros cc yy Hin; left; gts; exact Hin.
      * intros cc uu Hin. left. gts. apply Li. exact Hin.
    + destruct (fe_cb_qc _ _ Hfe) as [Hc2 ->].
      assert (Hc : (c < List.length (cqs s))%nat) by (rewrite (i2_len _ I2); exact Hc2).
      eapply (Inv2_update _ _ _ _ _ None I2 Hth).
      * cbn; gts; reflexivity.
      * gts. rewrite length_upd. apply (i2_len _ I2).
      * intros y. pose proof (cqcount_setq s c (getq s (QC c) ++ [t]) y Hc) as E. cbn [getq] in E.
        rewrite qcount_app in E.
        unfold QQ, th_hand, nenq, selfn. gts. cbn [getq]. rewrite Lh.
        unfold qcount in *. cbn in E |- *. destruct (Nat.eqb t y); cbn in *; lia.
      * discriminate.
      * left; reflexivity.
      * intros cc yy Hin. gts. cbn [getq] in Hin. destruct (Nat.eq_dec c cc) as [->|Hne].
        -- rewrite nth_upd_same in Hin by exact Hc. apply in_app_or in Hin.
           destruct Hin as [Hin|[<-|[]]]; [left; exact Hin|]. right. split; [reflexivity|].
           gts. eapply (i2_enq _ I2 _ _ _ _ Hth). eapply nth_error_In. exact H.
        -- rewrite nth_upd_other in Hin by exact Hne. left. exact Hin.
      * intros cc uu Hin. left. gts. apply Li. exact Hin.
  - (* cbunl *)
    match goal with U : urel _ _ _ _ _ _ _ |- _ =>
      destruct (urel_sl _ _ _ _ _ _ _ U Hth) as (wk & W & Hcbs & Hcq & Hwk & Hm & Rq);
      pose proof (urel_own _ _ _ _ _ _ _ U) as Hm' end.
    assert (Hle : forall x, (upc_hand u x <= th_hand th x)%nat).
    { intros x. pose proof (sumf_nth_le (fun c => cb_hand c x) _ _ _ H) as X. cbn in X. unfold th_hand. lia. }
    eapply (Inv2_update _ _ _ _ _ wk I2 Hth W).
    + rewrite Hcq. apply (i2_len _ I2).
    + intros y. specialize (Rq y). unfold th_hand, nenq. gts. rewrite Hcbs.
      pose proof (hand_cbs_next _ _ _ r y H) as E1. rewrite (enq_cbs_next _ _ _ r H).
      assert (E2 : pc_hand (main th1) y = pc_hand (main th) y).
      { destruct Hm' as [->|(k & A & ->)]; [reflexivity|]. rewrite A. reflexivity. }
      rewrite E2. unfold selfn in *. destruct (Nat.eqb t y); lia.
    + intros x E. specialize (Hwk x E). specialize (Hle x). lia.
    + unfold main_ok. gts. destruct Hm as [E|E]; [left; exact E|]. right; right. specialize (Hle t). lia.
    + intros c y Hin. left. rewrite Hcq in Hin. exact Hin.
    + intros c unl Hin. left. gts. rewrite Hcbs in Hin. eapply in_cbs_next; eauto.
Qed.

Lemma Inv12_reach s : freach s -> Inv1 s /\ Inv2 s.
Proof.
  revert s. apply (@invariant_rule _ _ finit fstep (fun s => Inv1 s /\ Inv2 s)).
  - intros s0 H. split; [apply Inv1_init|apply Inv2_init]; exact H.
  - intros s0 [t e] s1 [A B] H. split; [eapply Inv1_step|eapply Inv2_step]; eauto.
Qed.

(* ------------------------------------------------------------------------------------------ *)
(** * 4. status invariants *)

Record Inv3 (s : state) : Prop := {
  i3_st : festat s = 0 \/ festat s = 1;
  (** a waiter enqueues on cond[c] only while status <> c *)
  i3_enq : forall t th c unl, get_thread s t = Some th -> In (CbEnq (QC c) unl) (cbs th) ->
           festat s <> Z.of_nat c;
  (** the writer signals the queue of the status it wrote *)
  i3_sig : forall t th c, get_thread s t = Some th -> main th = SigDeq c ASUnlock ->
           festat s = Z.of_nat c }.

Lemma Inv3_init s : finit s -> Inv3 s.
Proof.
  intros [nt ->]. split; cbn; auto.
  - intros t th c unl H. apply nth_error_repeat in H. subst. cbn. contradiction.
  - intros t th c H. apply nth_error_repeat in H. subst. cbn. discriminate.
Qed.

Lemma Inv3_update s s' t th th' :
  Inv3 s -> get_thread s t = Some th -> get_thread s' t = Some th' -> framed s s' t ->
  festat s' = festat s ->
  (forall c unl, In (CbEnq (QC c) unl) (cbs th') ->
                 In (CbEnq (QC c) unl) (cbs th) \/ festat s <> Z.of_nat c) ->
  (forall c, main th' = SigDeq c ASUnlock -> main th = SigDeq c ASUnlock) ->
  Inv3 s'.
Proof.
  intros I Hth Hth' F Hf Hcb Hm. split.
  - rewrite Hf. apply (i3_st _ I).
  - intros u thu c unl G Hin. rewrite Hf. destruct (Nat.eq_dec u t) as [->|Hu].
    + rewrite Hth' in G. inv G. destruct (Hcb _ _ Hin) as [Hold|Hne]; [|exact Hne].
      eapply (i3_enq _ I); eauto.
    + destruct (F u Hu) as [E|(thu0 & k & A & B & C)].
      * rewrite E in G. eapply (i3_enq _ I); eauto.
      * rewrite C in G. inv G. cbn in Hin. eapply (i3_enq _ I); eauto.
  - intros u thu c G M. rewrite Hf. destruct (Nat.eq_dec u t) as [->|Hu].
    + rewrite Hth' in G. inv G. eapply (i3_sig _ I); eauto.
    + destruct (F u Hu) as [E|(thu0 & k & A & B & C)].
      * rewrite E in G. eapply (i3_sig _ I); eauto.
      * rewrite C in G. inv G. cbn in M. discriminate.
Qed.

Lemma urel_festat s t th u s1 th1 r : urel s t th u s1 th1 r -> festat s1 = festat s.
Proof. intros U; inv U; gts; reflexivity. Qed.

Lemma nclear_in l c : In c l -> cb_clears c = true -> (1 <= nclear l)%nat.
Proof.
  unfold nclear. induction l as [|a l IH]; cbn; intros H E; [contradiction|].
  destruct H as [->|H]; [rewrite E; cbn; lia|]. specialize (IH H E). lia.
Qed.

(** a thread with a pending enqueue on a condition queue still owns the lock and is on the lock path *)
Lemma cbenq_owner th c unl : tinv1 th -> In (CbEnq (QC c) unl) (cbs th) ->
  own th = true /\ lockpath (main th) = true /\ (c < 2)%nat.
Proof.
  intros T Hin.
  assert (Hfe : fe_cb (CbEnq (QC c) unl) = true).
  { pose proof (sumf_zero_in _ _ _ (t1_cb _ T) Hin) as Z. cbn beta in Z.
    destruct (fe_cb (CbEnq (QC c) unl)); [reflexivity|discriminate]. }
  destruct (fe_cb_qc _ _ Hfe) as [Hc ->].
  pose proof (nclear_in _ _ Hin eq_refl) as N. pose proof (t1_le _ T).
  destruct (t1_cbown _ T) as [A B]; [lia|]. auto.
Qed.

Ltac inv3_simple I3 Hth F :=
  eapply (Inv3_update _ _ _ _ _ I3 Hth); [apply get_same; gts; congruence|exact F|gts; reflexivity
  | intros cc uu Hin; left; gts; exact Hin
  | intros cc Hm; gts; try discriminate; try exact Hm ].

Lemma Inv3_step s t e s' : Inv1 s -> Inv3 s -> fstep s (t, e) = Some s' -> Inv3 s'.
Proof.
  intros I1 I3 H. destruct (fstep_thread _ _ _ _ H) as [th Hth].
  pose proof (i1_thr _ I1 _ _ Hth) as T.
  pose proof (step_srel _ _ _ _ _ Hth (t1_pc _ T) H) as R. clear H.
  pose proof (srel_frame _ _ _ _ _ R Hth) as F.
  inversion R; subst; clear R.
  all: try solve [inv3_simple I3 Hth F].
  - (* cas1_ok *) destruct k; cbn [acquired] in *; inv3_simple I3 Hth F.
  - (* cas2_ok *)
    eapply (Inv3_update _ _ _ _ _ I3 Hth); [apply get_same; gts; congruence|exact F|gts; reflexivity| |].
    + intros cc uu Hin. left. gts. apply in_app_or in Hin. destruct Hin as [Hin|[Hin|[]]]; [exact Hin|discriminate].
    + intros cc Hm. gts. discriminate.
  - (* unl *)
    match goal with U : urel _ _ _ _ _ _ _ |- _ =>
      destruct (urel_frame _ _ _ _ _ _ _ U Hth) as [G1 _];
      pose proof (urel_festat _ _ _ _ _ _ _ U) as Hf;
      assert (Hcbs : cbs th1 = cbs th) by (inv U; reflexivity) end.
    eapply (Inv3_update _ _ _ _ _ I3 Hth); [apply get_same; congruence|exact F|gts; exact Hf| |].
    + intros cc uu Hin. left. gts. rewrite Hcbs in Hin. exact Hin.
    + intros cc Hm. gts. destruct r; discriminate.
  - (* sigpush *)
    eapply (Inv3_update _ _ _ _ _ I3 Hth);
      [apply get_same; rewrite get_other by auto; congruence|exact F|gts; reflexivity| |].
    + intros cc uu Hin; left; gts; exact Hin.
    + intros cc Hm. gts. discriminate.
  - (* feread_wait *)
    pose proof (t1_pc _ T) as P. rewrite H in P. cbn in P. destruct (valid_st_idx _ P) as [_ Hidx].
    eapply (Inv3_update _ _ _ _ _ I3 Hth); [apply get_same; gts; congruence|exact F|gts; reflexivity| |].
    + intros cc uu Hin. gts. apply in_app_or in Hin. destruct Hin as [Hin|[Hin|[]]]; [left; exact Hin|].
      right. inv Hin. rewrite Hidx. assumption.
    + intros cc Hm. gts. discriminate.
  - (* fewrite *)
    pose proof (t1_pc _ T) as P. rewrite H in P. cbn in P. destruct (valid_st_idx _ P) as [_ Hidx].
    assert (Ho : own th = true) by (apply (t1_need _ T); rewrite H; reflexivity).
    assert (Huniq : forall u thu, get_thread s u = Some thu -> own thu = true -> u = t).
    { intros u thu G O. eapply (i1_uniq _ I1); eauto. }
    assert (Hfr : forall u thu', u <> t ->
              get_thread (set_thread (set_festat s st) t (set_main th (SigDeq (Z.to_nat st) ASUnlock))) u = Some thu' ->
              exists thu, get_thread s u = Some thu /\ cbs thu' = cbs thu /\
                          (main thu' = main thu \/ exists k, main thu' = LockRead k)).
    { intros u thu' Hu G. destruct (F u Hu) as [E|(thu0 & k & A & B & C)].
      - rewrite E in G. exists thu'. auto.
      - rewrite C in G. inv G. exists thu0. cbn. eauto. }
    split.
    + gts. apply valid_st_cases. exact P.
    + intros u thu c unl G Hin. exfalso. destruct (Nat.eq_dec u t) as [->|Hu].
      * rewrite get_same in G by (gts; congruence). inv G. cbn in Hin.
        destruct (cbenq_owner _ _ _ T Hin) as (_ & L & _). rewrite H in L. discriminate.
      * destruct (Hfr _ _ Hu G) as (thu0 & A & B & _). rewrite B in Hin.
        destruct (cbenq_owner _ _ _ (i1_thr _ I1 _ _ A) Hin) as (O & _ & _). apply Hu. eauto.
    + intros u thu c G M. gts. destruct (Nat.eq_dec u t) as [->|Hu].
      * rewrite get_same in G by (gts; congruence). inv G. cbn in M. inv M. symmetry. exact Hidx.
      * exfalso. destruct (Hfr _ _ Hu G) as (thu0 & A & _ & [B|(k & B)]); [|congruence].
        apply Hu. eapply Huniq; eauto. apply (t1_need _ (i1_thr _ I1 _ _ A)). rewrite <- B, M. reflexivity.
  - (* cbenq *)
    eapply (Inv3_update _ _ _ _ _ I3 Hth); [apply get_same; gts; congruence|exact F|gts; reflexivity| |].
    + intros cc uu Hin. left. gts. destruct unl.
      * apply in_upd in Hin. destruct Hin as [Hin|Hin]; [discriminate|exact Hin].
      * eapply in_remove_nth; eauto.
    + intros cc Hm. gts. exact Hm.
  - (* cbunl *)
    match goal with U : urel _ _ _ _ _ _ _ |- _ =>
      destruct (urel_frame _ _ _ _ _ _ _ U Hth) as [G1 _];
      pose proof (urel_festat _ _ _ _ _ _ _ U) as Hf;
      pose proof (urel_own _ _ _ _ _ _ _ U) as Hm';
      assert (Hcbs : cbs th1 = cbs th) by (inv U; reflexivity) end.
    eapply (Inv3_update _ _ _ _ _ I3 Hth); [apply get_same; congruence|exact F|gts; exact Hf| |].
    + intros cc uu Hin. left. gts. rewrite Hcbs in Hin. eapply in_cbs_next; eauto.
    + intros cc Hm. gts. destruct Hm' as [E|(k & A & E)]; congruence.
Qed.

Record Inv (s : state) : Prop := { inv_1 : Inv1 s; inv_2 : Inv2 s; inv_3 : Inv3 s }.

Lemma Inv_init s : finit s -> Inv s.
Proof. intros H. split; [apply Inv1_init|apply Inv2_init|apply Inv3_init]; exact H. Qed.

Lemma Inv_step s a s' : Inv s -> fstep s a = Some s' -> Inv s'.
Proof.
  intros [A B C] H. destruct a as [t e].
  split; [eapply Inv1_step|eapply Inv2_step|eapply Inv3_step]; eauto.
Qed.

Lemma Inv_reach s : freach s -> Inv s.
Proof. apply invariant_rule; [apply Inv_init|apply Inv_step]. Qed.
