(** C09 - full/empty lock, part 5: programs over a felock.

    A wrapper system over the felock system: every thread runs a program (a list of actions:
    the four felock operations and two local actions on a one-slot mailbox, put / take), the
    ghost state records the mailbox slot and the multisets of produced and consumed items.
    Program discipline ([disc]): every FeWL is closed by a FeMS (local actions only in
    between), every plain Lock by a plain Unlock with nothing in between.
    Mailbox programs ([mbox]): producers repeat FeWL 0; put v; FeMS 1, consumers repeat
    FeWL 1; take; FeMS 0, any other thread repeats Lock; Unlock.

    Proved here: the ghost/pc relation, the token invariant (= no lost wake-up) for disciplined
    programs, the exchange invariant for mailbox programs. *)
From Coq Require Import ZArith List Bool Lia Arith Permutation.
From MT Require Import Lib.Interleave Sync.SyncModel Sync.FelockBase Sync.FelockOwn Sync.FelockInv
  Sync.FelockProofs.
Import ListNotations.
Local Open Scope Z_scope.

Inductive action := AFeWL (st : Z) | AFeMS (st : Z) | ALock | AUnlock | APut (v : Z) | ATake.
Inductive gev := GCall | GTick | GCbTick (i : nat) | GRet (v : Z) | GLocal.

Record gthread := { prog : list action; pend : bool }.

Record gstate := {
  base : state;
  gth : list gthread;
  slot : option Z;
  produced : list Z;
  consumed : list Z;
  uflow : bool;            (* a take found the slot empty *)
  oflow : bool             (* a put found the slot full (an item would be lost) *)
}.

Definition act_op (a : action) : option op :=
  match a with
  | AFeWL st => Some (FeWL st) | AFeMS st => Some (FeMS st)
  | ALock => Some Lock | AUnlock => Some Unlock
  | APut _ | ATake => None
  end.

Definition set_base (g : gstate) (s : state) : gstate :=
  {| base := s; gth := gth g; slot := slot g; produced := produced g; consumed := consumed g;
     uflow := uflow g; oflow := oflow g |}.
Definition set_gth (g : gstate) (t : nat) (x : gthread) : gstate :=
  {| base := base g; gth := upd (gth g) t x; slot := slot g; produced := produced g;
     consumed := consumed g; uflow := uflow g; oflow := oflow g |}.

Definition is_some {A} (o : option A) : bool := match o with Some _ => true | None => false end.

Definition do_put (g : gstate) (v : Z) : gstate :=
  {| base := base g; gth := gth g; slot := Some v; produced := v :: produced g; consumed := consumed g;
     uflow := uflow g; oflow := oflow g || is_some (slot g) |}.
Definition do_take (g : gstate) : gstate :=
  match slot g with
  | Some v => {| base := base g; gth := gth g; slot := None; produced := produced g;
                 consumed := v :: consumed g; uflow := uflow g; oflow := oflow g |}
  | None => {| base := base g; gth := gth g; slot := None; produced := produced g;
               consumed := consumed g; uflow := true; oflow := oflow g |}
  end.

Definition gstep (g : gstate) (a : nat * gev) : option gstate :=
  let (t, e) := a in
  match nth_error (gth g) t with
  | None => None
  | Some gt =>
    match e with
    | GCall =>
        if pend gt then None else
        match prog gt with
        | a :: _ => match act_op a with
                    | Some o => match fstep (base g) (t, ECall o) with
                                | Some s' => Some (set_gth (set_base g s') t {| prog := prog gt; pend := true |})
                                | None => None
                                end
                    | None => None
                    end
        | [] => None
        end
    | GTick => match fstep (base g) (t, ETick) with Some s' => Some (set_base g s') | None => None end
    | GCbTick i => match fstep (base g) (t, ECbTick i) with Some s' => Some (set_base g s') | None => None end
    | GRet v =>
        if pend gt then
          match fstep (base g) (t, ERet v) with
          | Some s' => Some (set_gth (set_base g s') t {| prog := tl (prog gt); pend := false |})
          | None => None
          end
        else None
    | GLocal =>
        if pend gt then None else
        match prog gt with
        | APut v :: r => Some (set_gth (do_put g v) t {| prog := r; pend := false |})
        | ATake :: r => Some (set_gth (do_take g) t {| prog := r; pend := false |})
        | _ => None
        end
    end
  end.

Definition ginit (pl : list (list action)) (g : gstate) : Prop :=
  g = {| base := init_state (List.length pl) 2;
         gth := map (fun p => {| prog := p; pend := false |}) pl;
         slot := None; produced := []; consumed := []; uflow := false; oflow := false |}.

(** ** program discipline *)
Inductive mode := MOut | MFe | MPlain.

Fixpoint disc (m : mode) (p : list action) {struct p} : bool :=
  match p with
  | [] => match m with MOut => true | _ => false end
  | a :: r =>
    match m, a with
    | MOut, AFeWL st => valid_st st && disc MFe r
    | MOut, ALock => disc MPlain r
    | MFe, APut _ | MFe, ATake => disc MFe r
    | MFe, AFeMS st => valid_st st && disc MOut r
    | MPlain, AUnlock => disc MOut r
    | _, _ => false
    end
  end.

Definition head_mode (p : list action) : mode :=
  match p with
  | [] | AFeWL _ :: _ | ALock :: _ => MOut
  | APut _ :: _ | ATake :: _ | AFeMS _ :: _ => MFe
  | AUnlock :: _ => MPlain
  end.

Definition wfp (p : list action) : bool := disc (head_mode p) p.

Lemma disc_head m p : disc m p = true -> p <> [] -> head_mode p = m.
Proof. destruct p as [|a r]; [congruence|]. destruct m, a; cbn; intros; congruence. Qed.

Lemma disc_wfp m p : disc m p = true -> wfp p = true.
Proof.
  intros H. unfold wfp. destruct p as [|a r].
  - destruct m; cbn in *; congruence.
  - rewrite (disc_head m (a :: r) H); [exact H|discriminate].
Qed.

(** ** the ghost / pc relation *)
Definition lock_pc (k : after_lock) (p : pc) : Prop :=
  p = LockRead k \/ (exists w, p = LockCas1 k w) \/ (exists w, p = LockCas2 k w) \/ p = Susp k.

Definition rel_pc (st : Z) (p : pc) : Prop :=
  p = FeWrite st \/ p = SigDeq (Z.to_nat st) ASUnlock \/ (exists x, p = SigPush (Z.to_nat st) ASUnlock x).

Definition grel (gt : gthread) (th : thread) : Prop :=
  if pend gt then
    match prog gt with
    | AFeWL st :: _ => lock_pc (ALFe st) (main th) \/ main th = FeRead st \/ (main th = Done 0 /\ own th = true)
    | ALock :: _ => lock_pc ALRet (main th) \/ (main th = Done 0 /\ own th = true)
    | AFeMS st :: _ => (rel_pc st (main th) \/ (exists u, main th = Unl u) \/ main th = Done 0) /\
                       own th = needown (main th)
    | AUnlock :: _ => ((exists u, main th = Unl u) \/ main th = Done 0) /\ own th = needown (main th)
    | _ => False
    end
  else main th = Idle /\ own th = match head_mode (prog gt) with MOut => false | _ => true end.

Record GRel (g : gstate) : Prop := {
  gr_len : List.length (gth g) = List.length (thr (base g));
  gr_thr : forall t gt th, nth_error (gth g) t = Some gt -> get_thread (base g) t = Some th ->
           grel gt th /\ wfp (prog gt) = true }.

Ltac grel_cases gt :=
  unfold grel in *; destruct gt as [pp bb]; cbn [pend prog] in *;
  destruct bb; [destruct pp as [|[sst|sst| | |vv|] rr]|]; unfold lock_pc, rel_pc in *.

Ltac dsj :=
  repeat match goal with
  | H : _ \/ _ |- _ => destruct H as [H|H]
  | H : _ /\ _ |- _ => destruct H
  | H : exists _, _ |- _ => destruct H
  | H : False |- _ => contradiction
  end.

Ltac pc_inj :=
  repeat match goal with
  | E : @eq pc ?a ?a |- _ => clear E
  | E : @eq after_lock ?a ?a |- _ => clear E
  | E : @eq pc ?a ?b |- _ =>
      first [discriminate E | subst a | subst b | injection E; intros; subst; try clear E]
  | E : @eq after_lock ?a ?b |- _ =>
      first [discriminate E | subst a | subst b | injection E; intros; subst; try clear E]
  end.

Ltac grel_solve gt Hg Hm :=
  grel_cases gt; rewrite ?Hm in Hg; dsj; pc_inj; gts; cbn in *; eauto 8.

Lemma grel_tick s t th s' th' gt :
  Inv s -> get_thread s t = Some th -> srel s t th ETick s' -> get_thread s' t = Some th' ->
  grel gt th -> wfp (prog gt) = true -> grel gt th'.
Proof.
  intros I Hth R G Hg Hw. pose proof (i1_thr _ (inv_1 _ I) _ _ Hth) as T.
  inversion R; subst; clear R.
  all: try (rewrite get_same in G by (gts; congruence); inv G).
  all: try (match goal with Ht : get_thread _ _ = Some ?x, Hm : main ?x = _, Hgg : grel ?g ?x |- _ => grel_solve g Hgg Hm end; fail).
  - (* unl *)
    destruct (urel_frame _ _ _ _ _ _ _ H0 Hth) as [G1 _].
    rewrite get_same in G by congruence. inv G.
    assert (Hm1 : main th1 = Unl u) by (destruct (urel_own _ _ _ _ _ _ _ H0) as [E|(k & E & _)]; congruence).
    assert (Ho : own th = needown (Unl u) -> own th1 = needown (upc_next r)).
    { intros E. cbn in E. inv H0; cbn in *; congruence. }
    grel_cases gt; rewrite ?H in Hg; dsj; pc_inj; gts; cbn [needown] in *; split; eauto; destruct r; cbn; eauto.
  - (* sigpush *)
    rewrite get_same in G by (rewrite get_other by auto; congruence). inv G.
    grel_solve gt Hg H.
  - (* feread_ok *)
    assert (Ho : own th = true) by (apply (t1_need _ T); rewrite H; reflexivity).
    grel_solve gt Hg H.
Qed.

Lemma grel_ext gt a b : main a = main b -> own a = own b -> grel gt a -> grel gt b.
Proof. unfold grel. intros -> ->. auto. Qed.

Lemma grel_lockpath gt a b :
  lockpath (main a) = true -> grel gt a ->
  (main b = main a \/ exists k, main a = Susp k /\ main b = LockRead k) -> grel gt b.
Proof.
  intros L Hg Hm.
  assert (Hb : exists pb, main b = pb /\
           (pb = main a \/ exists k, main a = Susp k /\ pb = LockRead k)) by eauto.
  destruct Hb as (pb & Eb & Hb). clear Hm.
  unfold grel in *. rewrite Eb. clear Eb.
  destruct (main a) eqn:Ma; try discriminate L; clear L;
    (destruct (pend gt); [destruct (prog gt) as [|[sst|sst| | |vv|] rr]|]; unfold lock_pc, rel_pc in *);
    dsj; pc_inj; try discriminate; try contradiction; cbn; eauto 8.
Qed.

(** callback steps do not move the main program point (except that a thread may push
    itself) and clear the owner flag only for a thread on the lock path *)
Lemma grel_cbtick s t th i s' th' gt :
  Inv s -> get_thread s t = Some th -> srel s t th (ECbTick i) s' -> get_thread s' t = Some th' ->
  grel gt th -> grel gt th'.
Proof.
  intros I Hth R G Hg. pose proof (i1_thr _ (inv_1 _ I) _ _ Hth) as T.
  inversion R; subst; clear R.
  - rewrite get_same in G by (gts; congruence). inv G. exact Hg.
  - match goal with U : urel _ _ _ _ _ _ _, Hc : nth_error _ _ = _ |- _ =>
      destruct (urel_frame _ _ _ _ _ _ _ U Hth) as [G1 _];
      pose proof (urel_own _ _ _ _ _ _ _ U) as Hm;
      pose proof (sumf_nth_le (fun c => b2n (cb_clears c)) _ _ _ Hc) as Hle;
      rename U into HU end.
    rewrite get_same in G by congruence. inv G.
    fold (nclear (cbs th)) in Hle. cbn in Hle.
    destruct (upc_clearing u) eqn:Hcl.
    + assert (Hp : upc_preclear u = true) by (destruct u; cbn in *; congruence).
      rewrite Hp in Hle. cbn in Hle. pose proof (t1_le _ T).
      destruct (t1_cbown _ T) as [_ L]; [lia|].
      eapply grel_lockpath; [exact L|exact Hg|]. gts. exact Hm.
    + pose proof (urel_keeps_own _ _ _ _ _ _ _ HU Hcl) as Ko.
      destruct Hm as [E|(k & A & E)].
      * eapply grel_ext; [| |exact Hg]; gts; congruence.
      * eapply grel_lockpath; [rewrite A; reflexivity|exact Hg|]. gts. right. eauto.
Qed.

Lemma gstep_inv g t e g' : gstep g (t, e) = Some g' ->
  exists gt, nth_error (gth g) t = Some gt /\
  match e with
  | GCall => pend gt = false /\ exists a r o s', prog gt = a :: r /\ act_op a = Some o /\
               fstep (base g) (t, ECall o) = Some s' /\
               g' = set_gth (set_base g s') t {| prog := prog gt; pend := true |}
  | GTick => exists s', fstep (base g) (t, ETick) = Some s' /\ g' = set_base g s'
  | GCbTick i => exists s', fstep (base g) (t, ECbTick i) = Some s' /\ g' = set_base g s'
  | GRet v => pend gt = true /\ exists s', fstep (base g) (t, ERet v) = Some s' /\
               g' = set_gth (set_base g s') t {| prog := tl (prog gt); pend := false |}
  | GLocal => pend gt = false /\
              ((exists v r, prog gt = APut v :: r /\ g' = set_gth (do_put g v) t {| prog := r; pend := false |}) \/
               (exists r, prog gt = ATake :: r /\ g' = set_gth (do_take g) t {| prog := r; pend := false |}))
  end.
Proof.
  unfold gstep. destruct (nth_error (gth g) t) as [gt|] eqn:E; [|discriminate]. intros H.
  exists gt. split; [reflexivity|]. destruct e.
  - destruct (pend gt); [discriminate|]. split; [reflexivity|].
    destruct (prog gt) as [|a r]; [discriminate|]. destruct (act_op a) as [o|] eqn:A; [|discriminate].
    destruct (fstep (base g) (t, ECall o)) as [s'|] eqn:F; [|discriminate]. inv H.
    exists a, r, o, s'. auto.
  - destruct (fstep (base g) (t, ETick)) as [s'|]; [|discriminate]. inv H. eauto.
  - destruct (fstep (base g) (t, ECbTick i)) as [s'|]; [|discriminate]. inv H. eauto.
  - destruct (pend gt); [|discriminate]. split; [reflexivity|].
    destruct (fstep (base g) (t, ERet v)) as [s'|]; [|discriminate]. inv H. eauto.
  - destruct (pend gt); [discriminate|]. split; [reflexivity|].
    destruct (prog gt) as [|[] r]; try discriminate; inv H; [left|right]; eauto.
Qed.

Lemma nth_error_upd_same {A} (l : list A) t x y : nth_error l t = Some y -> nth_error (upd l t x) t = Some x.
Proof. intros H. rewrite nth_error_upd, Nat.eqb_refl, H. reflexivity. Qed.
Lemma nth_error_upd_other {A} (l : list A) t x u : u <> t -> nth_error (upd l t x) u = nth_error l u.
Proof. intros H. rewrite nth_error_upd. destruct (Nat.eqb_spec t u); congruence. Qed.

(** ghost threads other than the actor: their base record changes at most by a wake-up *)
Lemma grel_frame gt thu thu' :
  grel gt thu ->
  (thu' = thu \/ exists k, main thu = Susp k /\ thu' = set_main thu (LockRead k)) -> grel gt thu'.
Proof.
  intros Hg [->|(k & A & ->)]; [exact Hg|].
  eapply grel_lockpath; [rewrite A; reflexivity|exact Hg|]. cbn. eauto.
Qed.

Lemma length_thr_step s a s' : Inv s -> fstep s a = Some s' -> List.length (thr s') = List.length (thr s).
Proof.
  intros I H. destruct a as [t e]. destruct (fstep_thread _ _ _ _ H) as [th Hth].
  pose proof (step_srel _ _ _ _ _ Hth (t1_pc _ (i1_thr _ (inv_1 _ I) _ _ Hth)) H) as R.
  inversion R; subst; clear R; gts; rewrite ?length_upd; try reflexivity.
  all: match goal with U : urel _ _ _ _ _ _ _ |- _ => inv U; gts; rewrite ?length_upd; reflexivity end.
Qed.

Lemma base_frame s t e s' :
  Inv s -> fstep s (t, e) = Some s' ->
  forall u thu', u <> t -> get_thread s' u = Some thu' ->
  exists thu, get_thread s u = Some thu /\
    (thu' = thu \/ exists k, main thu = Susp k /\ thu' = set_main thu (LockRead k)).
Proof.
  intros I H u thu' Hu G. destruct (fstep_thread _ _ _ _ H) as [th Hth].
  pose proof (step_srel _ _ _ _ _ Hth (t1_pc _ (i1_thr _ (inv_1 _ I) _ _ Hth)) H) as R.
  destruct (srel_frame _ _ _ _ _ R Hth u Hu) as [E|(thu & k & A & B & C)].
  - exists thu'. rewrite <- E. auto.
  - exists thu. rewrite C in G. inv G. eauto.
Qed.

Lemma disc_MFe_head r : disc MFe r = true -> head_mode r = MFe.
Proof. intros H. apply (disc_head MFe r H). destruct r; [discriminate|discriminate]. Qed.
Lemma disc_MPlain_head r : disc MPlain r = true -> head_mode r = MPlain.
Proof. intros H. apply (disc_head MPlain r H). destruct r; [discriminate|discriminate]. Qed.
Lemma disc_MOut_head r : disc MOut r = true -> head_mode r = MOut.
Proof. intros H. destruct r; [reflexivity|]. apply (disc_head MOut _ H). discriminate. Qed.

Lemma GRel_step g a g' : Inv (base g) -> GRel g -> gstep g a = Some g' -> GRel g'.
Proof.
  intros I [Hlen Hthr] H. destruct a as [t e].
  destruct (gstep_inv _ _ _ _ H) as (gt & Hgt & Hcase). clear H.
  (* the actor's base record *)
  assert (Hex : exists th, get_thread (base g) t = Some th).
  { unfold get_thread. destruct (nth_error (thr (base g)) t) eqn:E; [eauto|].
    apply nth_error_None in E. assert (nth_error (gth g) t <> None) by congruence.
    apply nth_error_Some in H. lia. }
  destruct Hex as [th Hth]. destruct (Hthr _ _ _ Hgt Hth) as [Hg Hw].
  pose proof (i1_thr _ (inv_1 _ I) _ _ Hth) as T.
  (* a base step with unchanged ghost threads except the actor's *)
  assert (Hbase : forall eb s' gt', fstep (base g) (t, eb) = Some s' ->
            (forall th', get_thread s' t = Some th' -> grel gt' th' /\ wfp (prog gt') = true) ->
            GRel (set_gth (set_base g s') t gt')).
  { intros eb s' gt' F Ht. split; cbn.
    - rewrite length_upd, (length_thr_step _ _ _ I F). exact Hlen.
    - intros u gu thu' Gu Gb. destruct (Nat.eq_dec u t) as [->|Hu].
      + rewrite (nth_error_upd_same _ _ _ _ Hgt) in Gu. inv Gu. apply Ht. exact Gb.
      + rewrite nth_error_upd_other in Gu by exact Hu.
        destruct (base_frame _ _ _ _ I F u thu' Hu Gb) as (thu & A & B).
        destruct (Hthr _ _ _ Gu A) as [X Y]. split; [eapply grel_frame; eauto|exact Y]. }
  assert (Hsame : forall gt', gt' = gt -> forall g0, gth g0 = gth g -> set_gth g0 t gt' = g0 -> True) by auto.
  clear Hsame.
  destruct e.
  - (* call *)
    destruct Hcase as (Hp & a & r & o & s' & Hpr & Ha & F & ->).
    apply (Hbase _ _ _ F). intros th' G'. cbn [prog pend]. split; [|exact Hw].
    pose proof (step_srel _ _ _ _ _ Hth (t1_pc _ T) F) as R.
    unfold grel in Hg |- *. rewrite Hp in Hg. cbn [pend prog]. rewrite Hpr in *. destruct Hg as [Hm Ho].
    inversion R; subst; clear R; rewrite get_same in G' by congruence; inv G';
      destruct a; cbn in Ha; inv Ha; gts; cbn in *; unfold lock_pc, rel_pc; auto 7;
      (split; [eauto 7|congruence]).
  - (* tick *)
    destruct Hcase as (s' & F & ->).
    replace (set_base g s') with (set_gth (set_base g s') t gt).
    2:{ unfold set_gth, set_base; cbn. f_equal. clear -Hgt. revert t Hgt.
        induction (gth g) as [|x l IH]; intros [|t] H; cbn in *; try discriminate; [inv H; reflexivity|].
        now rewrite IH. }
    apply (Hbase _ _ _ F). intros th' G'. split; [|exact Hw].
    eapply grel_tick; eauto. eapply step_srel; eauto. apply (t1_pc _ T).
  - (* cbtick *)
    destruct Hcase as (s' & F & ->).
    replace (set_base g s') with (set_gth (set_base g s') t gt).
    2:{ unfold set_gth, set_base; cbn. f_equal. clear -Hgt. revert t Hgt.
        induction (gth g) as [|x l IH]; intros [|t] H; cbn in *; try discriminate; [inv H; reflexivity|].
        now rewrite IH. }
    apply (Hbase _ _ _ F). intros th' G'. split; [|exact Hw].
    eapply grel_cbtick; eauto. eapply step_srel; eauto. apply (t1_pc _ T).
  - (* ret *)
    destruct Hcase as (Hp & s' & F & ->).
    apply (Hbase _ _ _ F). intros th' G'. cbn [prog pend].
    pose proof (step_srel _ _ _ _ _ Hth (t1_pc _ T) F) as R.
    inversion R; subst; clear R. rewrite get_same in G' by congruence. inv G'.
    unfold grel in Hg |- *. rewrite Hp in Hg. cbn [pend]. gts.
    unfold wfp in Hw.
    destruct (prog gt) as [|[st|st| | |x|] r]; try contradiction; cbn [tl head_mode disc prog] in *.
    + apply andb_prop in Hw. destruct Hw as [_ Hw]. rewrite (disc_MFe_head _ Hw).
      split; [|eapply disc_wfp; eauto]. split; [reflexivity|]. unfold lock_pc in Hg. dsj; pc_inj; congruence.
    + apply andb_prop in Hw. destruct Hw as [_ Hw]. rewrite (disc_MOut_head _ Hw).
      split; [|eapply disc_wfp; eauto]. split; [reflexivity|]. unfold rel_pc in Hg. dsj; pc_inj;
        match goal with Hm : main th = _, Ho : own th = _ |- _ => rewrite Hm in Ho; exact Ho end.
    + rewrite (disc_MPlain_head _ Hw).
      split; [|eapply disc_wfp; eauto]. split; [reflexivity|]. unfold lock_pc in Hg. dsj; pc_inj; congruence.
    + rewrite (disc_MOut_head _ Hw).
      split; [|eapply disc_wfp; eauto]. split; [reflexivity|]. dsj; pc_inj;
        match goal with Hm : main th = _, Ho : own th = _ |- _ => rewrite Hm in Ho; exact Ho end.
  - (* local *)
    destruct Hcase as (Hp & [(v & r & Hpr & ->)|(r & Hpr & ->)]).
    all: split; cbn; [unfold do_put, do_take; try destruct (slot g); cbn; rewrite length_upd; exact Hlen|].
    all: assert (Hb : forall x, base (do_put g x) = base g) by reflexivity.
    all: assert (Hb2 : base (do_take g) = base g) by (unfold do_take; destruct (slot g); reflexivity).
    all: assert (Hg2 : gth (do_take g) = gth g) by (unfold do_take; destruct (slot g); reflexivity).
    all: rewrite ?Hb2, ?Hg2; cbn [do_put base gth].
    all: intros u gu thu Gu Gb; destruct (Nat.eq_dec u t) as [->|Hu];
      [rewrite (nth_error_upd_same _ _ _ _ Hgt) in Gu; inv Gu|
       rewrite nth_error_upd_other in Gu by exact Hu; eapply Hthr; eauto].
    all: rewrite Hth in Gb; inv Gb; unfold grel in Hg |- *; rewrite Hp in Hg; cbn [pend prog];
      unfold wfp in Hw; rewrite Hpr in *; cbn [head_mode disc] in *;
      rewrite (disc_MFe_head _ Hw); split; [exact Hg|eapply disc_wfp; eauto].
Qed.

(* ------------------------------------------------------------------------------------------ *)
(** * the token invariant: no lost wake-up *)

(** [z] is on its way to the status test for [st] *)
Definition onway (st : Z) (p : pc) : Prop := lock_pc (ALFe st) p \/ p = FeRead st.
(** [z] waits (or is about to wait) on one of the condition queues *)
Definition cwaiting (s : state) (z : nat) (th : thread) : Prop :=
  (1 <= cqcount s z)%nat \/ exists c unl, In (CbEnq (QC c) unl) (cbs th).

(** [z] is responsible for the waiters of status [st]: it will test the status (and find it
    equal to [st]) or it is inside its full/empty section and will mark and signal *)
Definition resp_th (s : state) (st : Z) (z : nat) (gt : gthread) (th : thread) : Prop :=
  (onway st (main th) /\ (is_susp (main th) = true -> ~ cwaiting s z th)) \/
  (pend gt = true /\ (exists s0 r, prog gt = AFeWL s0 :: r) /\ main th = Done 0) \/
  (pend gt = false /\ head_mode (prog gt) = MFe) \/
  (pend gt = true /\ (exists s0 r, prog gt = AFeMS s0 :: r) /\
   ((exists v, main th = FeWrite v) \/ (exists c, main th = SigDeq c ASUnlock))).

Definition Resp (g : gstate) (st : Z) (z : nat) : Prop :=
  exists gt th, nth_error (gth g) z = Some gt /\ get_thread (base g) z = Some th /\
                resp_th (base g) st z gt th.

Definition Tok (g : gstate) : Prop :=
  forall st, valid_st st = true -> festat (base g) = st ->
             nth (Z.to_nat st) (cqs (base g)) [] <> [] -> exists z, Resp g st z.

Lemma urel_cqs s t th u s1 th1 r : urel s t th u s1 th1 r -> cqs s1 = cqs s.
Proof. intros U; inv U; gts; reflexivity. Qed.

Ltac resp_cases H :=
  unfold resp_th, onway, lock_pc in H; dsj.

Ltac onway_solve :=
  first [ left; left; reflexivity
        | left; right; left; eexists; reflexivity
        | left; right; right; left; eexists; reflexivity
        | left; right; right; right; reflexivity
        | right; reflexivity ].

Ltac resp_go Hr Hm :=
  unfold resp_th, onway, lock_pc in Hr |- *; rewrite ?Hm in Hr; dsj; pc_inj; gts;
  first [ solve [right; right; left; split; assumption]
        | solve [left; split; [onway_solve|intros; discriminate]]
        | solve [right; right; right; split; [assumption|split; [eauto|first [solve [left; eauto]|solve [right; eauto]]]]]
        | solve [right; left; split; [assumption|split; [eauto|reflexivity]]]
        | idtac ].

Lemma resp_self s t th e s' th' gt st :
  Inv s -> get_thread s t = Some th -> grel gt th -> srel s t th e s' ->
  (e = ETick \/ exists i, e = ECbTick i) ->
  get_thread s' t = Some th' ->
  festat s = st -> cqs s' = cqs s ->
  (e = ETick -> forall c, main th <> SigDeq c ASUnlock) ->
  (forall i c unl, nth_error (cbs th) i = Some (CbEnq (QC c) unl) -> e <> ECbTick i) ->
  resp_th s st t gt th -> resp_th s' st t gt th'.
Proof.
  intros I Hth Hg R He G Hf Hq Hns Hnq Hr. pose proof (i1_thr _ (inv_1 _ I) _ _ Hth) as T.
  assert (Hcq : forall z, cqcount s' z = cqcount s z) by (intros z; unfold cqcount; now rewrite Hq).
  (* a thread that is not suspended is in no queue and has no enqueue pending *)
  assert (Hfree : is_susp (main th) = false -> cqcount s t = O /\ nenq th = O).
  { intros E. pose proof (i2_sl _ (inv_2 _ I) t) as X. unfold SUSP, ENQ, occ in X. rewrite Hth, E in X.
    cbn in X. lia. }
  assert (Hnoenq : nenq th = O -> forall c unl, ~ In (CbEnq (QC c) unl) (cbs th)).
  { intros E c unl Hin. apply nenq_in in Hin. unfold nenq in E. lia. }
  inversion R; subst; clear R; try (destruct He as [He|[i0 He]]; discriminate He).
  all: try (rewrite get_same in G by (gts; congruence); inv G).
  all: try (exfalso; eapply (Hns eq_refl); eassumption).
  all: try (match goal with Hr0 : resp_th _ _ _ _ ?x, Hm : main ?x = _ |- _ => resp_go Hr0 Hm end; fail).
  - (* cas2_ok *)
    destruct Hfree as [F1 F2]; [rewrite H; reflexivity|].
    unfold resp_th, onway, lock_pc in Hr |- *; rewrite ?H in Hr; dsj; pc_inj; gts;
      try solve [right; right; left; auto].
    all: left; (split; [auto 7|]); intros _ [C|(c & unl & C)];
      [rewrite Hcq in C; lia
      |apply in_app_or in C; destruct C as [C|[C|[]]]; [eapply Hnoenq; eauto|discriminate]].
  - (* feread_ok *)
    unfold resp_th, onway, lock_pc in Hr |- *; rewrite ?H in Hr; dsj; pc_inj; gts;
      try solve [right; right; left; auto].
    all: right; left; grel_cases gt; rewrite ?H in Hg; dsj; pc_inj; try discriminate; eauto 8.
  - (* feread_wait *)
    unfold resp_th, onway, lock_pc in Hr |- *; rewrite ?H in Hr; dsj; pc_inj; gts;
      try solve [right; right; left; auto]; congruence.
  - (* cbenq *)
    destruct q as [|c]; [|exfalso; eapply (Hnq i c unl); eauto].
    unfold resp_th in Hr |- *. gts.
    destruct Hr as [[A B]|Hr]; [|right; exact Hr].
    left. split; [exact A|]. intros S [C|(c & u & C)]; apply (B S).
    + left. rewrite Hcq in C. exact C.
    + right. exists c, u. destruct unl.
      * apply in_upd in C. destruct C as [C|C]; [discriminate|exact C].
      * exact (in_remove_nth _ _ _ C).
  - (* cbunl *)
    match goal with U : urel _ _ _ _ _ _ _ |- _ =>
      destruct (urel_frame _ _ _ _ _ _ _ U Hth) as [G1 _];
      pose proof (urel_own _ _ _ _ _ _ _ U) as Hm;
      assert (Hcbs : cbs th1 = cbs th) by (inv U; reflexivity) end.
    rewrite get_same in G by congruence. inv G.
    unfold resp_th in Hr |- *. gts.
    destruct Hm as [E|(k & A & E)]; rewrite E.
    + destruct Hr as [[A B]|Hr]; [|right; exact Hr].
      left. split; [exact A|]. intros S [C|(c & u0 & C)]; apply (B S).
      * left. rewrite Hcq in C. exact C.
      * right. exists c, u0. rewrite Hcbs in C. exact (in_cbs_next _ _ _ _ _ C).
    + destruct Hr as [[A0 B]|Hr].
      * left. split; [|intros; discriminate]. unfold onway, lock_pc in *. rewrite A in A0.
        dsj; pc_inj; try discriminate; auto.
      * right. rewrite A in Hr. unfold onway in Hr. dsj; pc_inj; try discriminate; eauto 8.
Qed.

Lemma cqcount_other s t e s' z :
  Inv s -> fstep s (t, e) = Some s' -> z <> t -> (cqcount s' z <= cqcount s z)%nat.
Proof.
  intros I H Hz. destruct (fstep_thread _ _ _ _ H) as [th Hth].
  pose proof (i1_thr _ (inv_1 _ I) _ _ Hth) as T.
  pose proof (step_srel _ _ _ _ _ Hth (t1_pc _ T) H) as R.
  inversion R; subst; clear R; unfold cqcount at 1; gts; fold (cqcount s z); try lia.
  - match goal with U : urel _ _ _ _ _ _ _ |- _ => rewrite (urel_cqs _ _ _ _ _ _ _ U) end. fold (cqcount s z). lia.
  - (* sigdeq *)
    assert (Hc : (c < List.length (cqs s))%nat).
    { rewrite (i2_len _ (inv_2 _ I)). eapply fe_pc_sigdeq. rewrite <- H0. apply (t1_pc _ T). }
    pose proof (cqcount_setq s c r z Hc) as E. cbn [getq] in H1. rewrite H1 in E.
    change (qcount (x :: r) z) with (b2n (Nat.eqb x z) + qcount r z)%nat in E.
    change (sumf (fun q => qcount q z) (upd (cqs s) c r)) with (cqcount (setq s (QC c) r) z). lia.
  - (* cbenq *)
    destruct q as [|c]; gts; [fold (cqcount s z); lia|].
    pose proof (nbadcb_nth _ _ _ H0 (t1_cb _ T)) as Hfe. destruct (fe_cb_qc _ _ Hfe) as [Hc2 _].
    assert (Hc : (c < List.length (cqs s))%nat) by (rewrite (i2_len _ (inv_2 _ I)); exact Hc2).
    pose proof (cqcount_setq s c (getq s (QC c) ++ [t]) z Hc) as E. cbn [getq] in E.
    rewrite qcount_app in E.
    change (qcount [t] z) with (b2n (Nat.eqb t z) + 0)%nat in E. cbn [getq].
    change (sumf (fun q => qcount q z) (upd (cqs s) c (nth c (cqs s) [] ++ [t])))
      with (cqcount (setq s (QC c) (nth c (cqs s) [] ++ [t])) z).
    destruct (Nat.eqb_spec t z); [congruence|]. cbn [b2n] in E. lia.
  - match goal with U : urel _ _ _ _ _ _ _ |- _ => rewrite (urel_cqs _ _ _ _ _ _ _ U) end. fold (cqcount s z). lia.
Qed.

Lemma resp_other s t e s' z gz thz st :
  Inv s -> fstep s (t, e) = Some s' -> z <> t -> get_thread s z = Some thz ->
  resp_th s st z gz thz ->
  exists thz', get_thread s' z = Some thz' /\ resp_th s' st z gz thz'.
Proof.
  intros I H Hz Gz Hr.
  destruct (step_thread_effect _ _ _ _ _ _ I H Gz) as (thz' & G' & X).
  destruct (X Hz) as (Eo & Ec & Em). exists thz'. split; [exact G'|].
  pose proof (cqcount_other _ _ _ _ z I H Hz) as Hle.
  unfold resp_th in *. destruct Em as [Em|(k & A & Em)].
  - rewrite Em. destruct Hr as [[A B]|Hr]; [|right; exact Hr].
    left. split; [exact A|]. intros S [C|(c & u & C)]; apply (B S).
    + left. lia.
    + right. exists c, u. rewrite <- Ec. exact C.
  - rewrite Em. rewrite A in Hr. destruct Hr as [[A0 B]|Hr].
    + left. split; [|intros; discriminate]. unfold onway, lock_pc in *.
      dsj; pc_inj; try discriminate; auto.
    + right. dsj; pc_inj; try discriminate; eauto 8.
Qed.

Lemma hand_exclusive s t th x :
  Inv2 s -> get_thread s t = Some th -> (1 <= th_hand th x)%nat ->
  cqcount s x = O /\ ENQ s x = O.
Proof.
  intros I Hth Hx. pose proof (i2_sl _ I x) as E. pose proof (SUSP_le1 s x). pose proof (hands_ge s t th x Hth).
  unfold occ in E. lia.
Qed.

Lemma ghost_exists g x thx : GRel g -> get_thread (base g) x = Some thx -> exists gx, nth_error (gth g) x = Some gx.
Proof.
  intros GR G. destruct (nth_error (gth g) x) eqn:E; [eauto|]. exfalso.
  apply nth_error_None in E. rewrite (gr_len _ GR) in E.
  assert (nth_error (thr (base g)) x <> None) by (unfold get_thread in G; congruence).
  apply nth_error_Some in H. lia.
Qed.

Lemma Tok_base_step g t e s' gt th :
  Inv (base g) -> GRel g -> Tok g ->
  nth_error (gth g) t = Some gt -> get_thread (base g) t = Some th ->
  (e = ETick \/ exists i, e = ECbTick i) ->
  fstep (base g) (t, e) = Some s' -> Tok (set_base g s').
Proof.
  intros I GR TK Hgt Hth He F. set (s := base g) in *.
  destruct (gr_thr _ GR _ _ _ Hgt Hth) as [Hg Hw].
  pose proof (i1_thr _ (inv_1 _ I) _ _ Hth) as T.
  pose proof (step_srel _ _ _ _ _ Hth (t1_pc _ T) F) as R.
  destruct (srel_self _ _ _ _ _ R Hth) as [th' Hth'].
  intros st Hv Hf Hq. cbn [base set_base gth] in *.
  (* generic continuation: the premise held before the step, with witness z *)
  assert (Hgen : festat s = st -> nth (Z.to_nat st) (cqs s) [] <> [] ->
            (forall z gz thz, z = t -> nth_error (gth g) z = Some gz -> get_thread s z = Some thz ->
               resp_th s st z gz thz -> resp_th s' st t gt th') ->
            exists z, Resp (set_base g s') st z).
  { intros Hf0 Hq0 Hself. destruct (TK st Hv Hf0 Hq0) as (z & gz & thz & A & B & C).
    destruct (Nat.eq_dec z t) as [->|Hz].
    - exists t, gt, th'. cbn. split; [exact Hgt|split; [exact Hth'|]]. eapply Hself; eauto.
    - destruct (resp_other _ _ _ _ _ _ _ _ I F Hz B C) as (thz' & B' & C').
      exists z, gz, thz'. cbn. auto. }
  destruct (valid_st_idx _ Hv) as [Hlt Hidx].
  inversion R; subst; try (destruct He as [He|[i0 He]]; discriminate He).
  (* steps that leave status and condition queues alone *)
  all: try (apply Hgen; [autorewrite with sync; reflexivity|autorewrite with sync in Hq |- *; exact Hq|];
            intros z gz thz -> Gz Bz Cz; rewrite Hgt in Gz; inv Gz; rewrite Hth in Bz; inv Bz;
            eapply (resp_self _ _ _ _ _ _ _ _ I Hth Hg R He Hth'); autorewrite with sync; auto;
            [intros _ c0 Hc0; congruence|intros i0 c0 u0 Hc0 E0; discriminate E0]; fail).
  - (* unl *)
    match goal with U : urel _ _ _ _ _ _ _ |- _ =>
      pose proof (urel_festat _ _ _ _ _ _ _ U) as Uf; pose proof (urel_cqs _ _ _ _ _ _ _ U) as Uq end.
    gts. rewrite Uq, ?Uf in *.
    apply Hgen; [reflexivity|exact Hq|].
    intros z gz thz -> Gz Bz Cz; rewrite Hgt in Gz; inv Gz; rewrite Hth in Bz; inv Bz.
    eapply (resp_self _ _ _ _ _ _ _ _ I Hth Hg R He Hth'); gts; auto;
      [intros _ c0 Hc0; congruence|intros i0 c0 u0 Hc0 E0; discriminate E0].
  - (* sigdeq_empty: the writer found the queue of its own status empty *)
    exfalso. gts. apply Hq.
    match goal with Hm : main th = SigDeq ?c ASUnlock, Q : getq _ _ = [] |- _ =>
      pose proof (i3_sig _ (inv_3 _ I) _ _ _ Hth Hm) as E; rewrite E, Nat2Z.id; exact Q end.
  - (* sigdeq: the dequeued waiter becomes responsible *)
    match goal with Hm : main th = SigDeq ?c ASUnlock, Q : getq _ _ = _ :: _ |- _ =>
      pose proof (i3_sig _ (inv_3 _ I) _ _ _ Hth Hm) as E; cbn [getq] in Q;
      assert (Hin : In x (nth c (cqs s) [])) by (rewrite Q; left; reflexivity);
      rename Hm into Hm0 end.
    destruct (i2_q _ (inv_2 _ I) _ _ Hin) as (thx & Gx & Mx).
    assert (Hxt : x <> t) by (intros ->; congruence).
    destruct (ghost_exists _ _ _ GR Gx) as [gx Hgx].
    exists x, gx, thx. cbn [base set_base gth]. split; [exact Hgx|]. split; [rewrite get_other by exact Hxt; gts; exact Gx|].
    left. gts. rewrite E. split; [left; unfold lock_pc; auto|]. intros _.
    assert (I' : Inv (set_thread (setq s (QC c) r) t (set_main th (SigPush c ASUnlock x)))) by (eapply Inv_step; eauto).
    destruct (hand_exclusive _ t _ x (inv_2 _ I') Hth') as [C1 C2].
    { rewrite get_same in Hth' by (gts; congruence). inv Hth'. unfold th_hand. cbn. rewrite Nat.eqb_refl. cbn. lia. }
    intros [C|(c0 & u0 & C)]; [lia|].
    unfold ENQ in C2. rewrite get_other in C2 by exact Hxt. gts. rewrite Gx in C2.
    apply nenq_in in C. unfold nenq in C2. lia.
  - (* fewrite *)
    exists t, gt, th'. cbn. split; [exact Hgt|split; [exact Hth'|]].
    rewrite get_same in Hth' by (gts; congruence). inv Hth'.
    right; right; right. gts.
    match goal with Hm : main th = FeWrite _ |- _ =>
      grel_cases gt; rewrite ?Hm in Hg; dsj; pc_inj; try discriminate; cbn; eauto 10 end.
  - (* cbenq *)
    destruct q as [|c].
    + apply Hgen; [gts; reflexivity|gts; exact Hq|].
      intros z gz thz -> Gz Bz Cz; rewrite Hgt in Gz; inv Gz; rewrite Hth in Bz; inv Bz.
      eapply (resp_self _ _ _ _ _ _ _ _ I Hth Hg R He Hth'); gts; auto.
      * intros E0; discriminate E0.
      * intros i0 c0 u0 Hc0 E0. inv E0. congruence.
    + match goal with Hc : nth_error (cbs th) _ = Some (CbEnq (QC c) _) |- _ =>
        pose proof (nth_error_In _ _ Hc) as Hin;
        pose proof (i3_enq _ (inv_3 _ I) _ _ _ _ Hth Hin) as Hne;
        pose proof (i2_enq _ (inv_2 _ I) _ _ _ _ Hth Hin) as Hsusp end.
      gts. cbn [getq] in Hq.
      assert (Hcc : c <> Z.to_nat (festat s)).
      { intros ->. apply Hne. symmetry. exact Hidx. }
      rewrite nth_upd_other in Hq by exact Hcc.
      apply Hgen; [reflexivity|exact Hq|].
      intros z gz thz -> Gz Bz Cz; rewrite Hgt in Gz; inv Gz; rewrite Hth in Bz; inv Bz.
      rewrite get_same in Hth' by (gts; congruence). inv Hth'.
      unfold resp_th, onway, lock_pc in Cz |- *. rewrite Hsusp in Cz. gts. rewrite Hsusp.
      dsj; pc_inj; try discriminate; try (right; right; left; auto; fail).
      all: exfalso; apply Hne; congruence.
  - (* cbunl *)
    match goal with U : urel _ _ _ _ _ _ _ |- _ =>
      pose proof (urel_festat _ _ _ _ _ _ _ U) as Uf; pose proof (urel_cqs _ _ _ _ _ _ _ U) as Uq end.
    gts. rewrite Uq, ?Uf in *.
    apply Hgen; [reflexivity|exact Hq|].
    intros z gz thz -> Gz Bz Cz; rewrite Hgt in Gz; inv Gz; rewrite Hth in Bz; inv Bz.
    eapply (resp_self _ _ _ _ _ _ _ _ I Hth Hg R He Hth'); gts; auto.
    + intros E0; discriminate E0.
    + intros i0 c0 u0 Hc0 E0. inv E0. congruence.
Qed.

Lemma upd_same_id {A} (l : list A) t x : nth_error l t = Some x -> upd l t x = l.
Proof.
  revert t. induction l as [|a l IH]; intros [|t] H; cbn in *; try discriminate; [inv H; reflexivity|].
  now rewrite IH.
Qed.

Lemma Tok_step g a g' : Inv (base g) -> GRel g -> Tok g -> gstep g a = Some g' -> Tok g'.
Proof.
  intros I GR TK H. destruct a as [t e].
  destruct (gstep_inv _ _ _ _ H) as (gt & Hgt & Hcase). clear H.
  assert (Hex : exists th, get_thread (base g) t = Some th).
  { unfold get_thread. destruct (nth_error (thr (base g)) t) eqn:E; [eauto|].
    apply nth_error_None in E. assert (nth_error (gth g) t <> None) by congruence.
    apply nth_error_Some in H. rewrite (gr_len _ GR) in H. lia. }
  destruct Hex as [th Hth]. destruct (gr_thr _ GR _ _ _ Hgt Hth) as [Hg Hw].
  pose proof (i1_thr _ (inv_1 _ I) _ _ Hth) as T.
  (* call / return: the base state changes only in [t]'s program point *)
  assert (Hcr : forall eb s' gt' th', fstep (base g) (t, eb) = Some s' ->
            s' = set_thread (base g) t th' -> own th' = own th -> cbs th' = cbs th ->
            (forall st, resp_th (base g) st t gt th -> resp_th s' st t gt' th') ->
            Tok (set_gth (set_base g s') t gt')).
  { intros eb s' gt' th' F -> Eo Ec Hself st Hv Hf Hq. cbn [base set_base set_gth gth] in *. gts.
    destruct (TK st Hv Hf Hq) as (z & gz & thz & A & B & C).
    destruct (Nat.eq_dec z t) as [->|Hz].
    - rewrite Hgt in A. inv A. rewrite Hth in B. inv B.
      exists t, gt', th'. cbn [base set_base set_gth gth].
      split; [apply (nth_error_upd_same _ _ _ _ Hgt)|]. split; [apply get_same; congruence|]. apply Hself. exact C.
    - exists z, gz, thz. cbn [base set_base set_gth gth].
      split; [rewrite nth_error_upd_other by exact Hz; exact A|]. split; [rewrite get_other by exact Hz; exact B|].
      unfold resp_th in *. destruct C as [[C1 C2]|C]; [|right; exact C].
      left. split; [exact C1|]. intros S [X|X]; apply (C2 S); [left|right; exact X].
      unfold cqcount in *. gts. exact X. }
  destruct e.
  { (* call *)
    destruct Hcase as (Hp & a & r & o & s' & Hpr & Ha & F & ->).
    pose proof (step_srel _ _ _ _ _ Hth (t1_pc _ T) F) as R.
    unfold grel in Hg. rewrite Hp in Hg. destruct Hg as [Hm Ho].
    inversion R; subst; clear R;
      (eapply Hcr; [exact F|reflexivity|reflexivity|reflexivity|]);
      intros st0 Hr; unfold resp_th, onway, lock_pc in Hr |- *; rewrite Hm, Hp in Hr; cbn [pend prog] in *;
      dsj; pc_inj; try discriminate; gts;
      destruct a; cbn in Ha; inv Ha;
      match goal with Hh : head_mode (prog gt) = MFe |- _ => rewrite Hpr in Hh; try discriminate Hh end;
      right; right; right; eauto 10. }
  - (* tick *)
    destruct Hcase as (s' & F & ->). eapply (Tok_base_step g t ETick s' gt th); eauto.
  - (* cbtick *)
    destruct Hcase as (s' & F & ->). eapply (Tok_base_step g t (ECbTick i) s' gt th); eauto.
  - (* ret *)
    destruct Hcase as (Hp & s' & F & ->).
    pose proof (step_srel _ _ _ _ _ Hth (t1_pc _ T) F) as R.
    inversion R; subst; clear R.
    eapply Hcr; [exact F|reflexivity|reflexivity|reflexivity|].
    intros st0 Hr. unfold resp_th, onway, lock_pc in Hr |- *.
    match goal with Hm : main th = Done _ |- _ => rewrite Hm, Hp in Hr end. cbn [pend prog] in *.
    dsj; pc_inj; try discriminate. right; right; left. split; [reflexivity|].
    unfold wfp in Hw. match goal with Hpr : prog gt = _ |- _ => rewrite Hpr in Hw |- * end.
    cbn [head_mode disc tl] in *. apply andb_prop in Hw. destruct Hw as [_ Hw]. apply disc_MFe_head. exact Hw.
  - (* local *)
    destruct Hcase as (Hp & Hloc).
    assert (Hb : forall g1, base g1 = base g -> gth g1 = gth g -> forall r,
              (exists x, prog gt = x :: r /\ head_mode (prog gt) = MFe /\ disc MFe r = true) ->
              Tok (set_gth g1 t {| prog := r; pend := false |})).
    { intros g1 E1 E2 r (x & Hpr & Hh & Hd) st Hv Hf Hq. cbn [base set_gth gth] in *. rewrite E1 in *.
      destruct (TK st Hv Hf Hq) as (z & gz & thz & A & B & C).
      destruct (Nat.eq_dec z t) as [->|Hz].
      - rewrite Hgt in A. inv A. rewrite Hth in B. inv B.
        exists t, {| prog := r; pend := false |}, thz. cbn [base set_gth gth]. rewrite E1, E2.
        split; [apply (nth_error_upd_same _ _ _ _ Hgt)|]. split; [exact Hth|].
        unfold resp_th in C |- *. cbn [pend prog]. rewrite Hp in C.
        destruct C as [C|[C|[C|C]]]; [left; exact C|dsj; discriminate| |dsj; discriminate].
        right; right; left. split; [reflexivity|apply disc_MFe_head; exact Hd].
      - exists z, gz, thz. cbn [base set_gth gth]. rewrite E1, E2.
        split; [rewrite nth_error_upd_other by exact Hz; exact A|]. split; [exact B|exact C]. }
    unfold wfp in Hw.
    destruct Hloc as [(v & r & Hpr & ->)|(r & Hpr & ->)]; rewrite Hpr in Hw; cbn [head_mode disc] in Hw.
    + apply Hb; [reflexivity|reflexivity|]. exists (APut v). rewrite Hpr. auto.
    + apply Hb; [unfold do_take; destruct (slot g); reflexivity|unfold do_take; destruct (slot g); reflexivity|].
      exists ATake. rewrite Hpr. auto.
Qed.

Lemma Tok_init pl g : ginit pl g -> Tok g.
Proof.
  intros -> st Hv _ Hq. exfalso. apply Hq. cbn. destruct (valid_st_cases _ Hv) as [->| ->]; reflexivity.
Qed.

Lemma GRel_init pl g : ginit pl g -> (forall p, In p pl -> disc MOut p = true) -> GRel g.
Proof.
  intros -> Hd. split; cbn.
  - rewrite map_length, repeat_length. reflexivity.
  - intros t gt th G B. unfold get_thread in B. cbn in B. apply nth_error_repeat in B. subst th.
    apply nth_error_In in G. apply in_map_iff in G. destruct G as (p & <- & Hin).
    unfold grel. cbn. specialize (Hd _ Hin). split; [|eapply disc_wfp; eauto].
    split; [reflexivity|]. rewrite (disc_MOut_head _ Hd). reflexivity.
Qed.

