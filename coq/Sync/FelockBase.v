(** C09 - full/empty lock, part 1: helpers, the felock system and its step relation.

    Proofs about the executable model [Sync/SyncModel.v] restricted to the operations a
    full/empty lock offers (myth_felock_{lock,unlock,wait_and_lock,mark_and_signal}: the mutex
    and the two condition variables inside a felock are reachable through these four only).

    Layout
      1. list helpers, the step relation in "local" form ([srel]) and its soundness
      2. ownership invariant: lock bit = number of owners <= 1, FeWrite / signal / unlock
         program points are reached by the owner only
      3. sleepers: every suspended thread is in exactly one place (pending enqueue, a sleep
         queue, a waker's hand); members of cond[c] resume at the status test for c
      4. status invariants (a waiter enqueues on cond[c] only while status <> c; the writer
         signals the queue of the status it wrote)
      5. theorems C09_wait_and_lock_post, C09_mark
      6. ghost wrapper (programs, one-slot mailbox), token invariant = no lost wake-up,
         exchange invariant, theorems C09_no_lost_wakeup, C09_exchange. *)
From Coq Require Import ZArith List Bool Lia Arith Permutation.
From MT Require Import Lib.Interleave Sync.SyncModel.
Import ListNotations.
Local Open Scope Z_scope.

Ltac inv H := inversion H; subst; clear H.

(* ------------------------------------------------------------------------------------------ *)
(** * 1. helpers *)

Lemma nth_error_upd {A} (l : list A) i j x :
  nth_error (upd l i x) j =
  if Nat.eqb i j then match nth_error l i with Some _ => Some x | None => None end else nth_error l j.
Proof.
  revert i j. induction l as [|a l IH]; intros [|i] [|j]; cbn; try reflexivity.
  - destruct (Nat.eqb i j); reflexivity.
  - apply IH.
Qed.

Lemma upd_upd_same {A} (l : list A) i x y : upd (upd l i x) i y = upd l i y.
Proof. revert i. induction l as [|a l IH]; intros [|i]; cbn; try reflexivity. now rewrite IH. Qed.

Lemma length_upd {A} (l : list A) i x : length (upd l i x) = length l.
Proof. revert i. induction l as [|a l IH]; intros [|i]; cbn; try reflexivity. now rewrite IH. Qed.

(** sums over lists (all counting arguments go through [sumf]) *)
Fixpoint sumf {A} (f : A -> nat) (l : list A) : nat :=
  match l with [] => O | a :: r => (f a + sumf f r)%nat end.

Lemma sumf_app {A} (f : A -> nat) l1 l2 : sumf f (l1 ++ l2) = (sumf f l1 + sumf f l2)%nat.
Proof. induction l1 as [|a l IH]; cbn; [reflexivity|]. rewrite IH. lia. Qed.

Lemma sumf_upd {A} (f : A -> nat) l i a b :
  nth_error l i = Some a -> (sumf f (upd l i b) + f a = sumf f l + f b)%nat.
Proof.
  revert i. induction l as [|c l IH]; intros [|i] H; cbn in *; try discriminate.
  - inv H. lia.
  - specialize (IH _ H). lia.
Qed.

Lemma sumf_remove_nth {A} (f : A -> nat) l i a :
  nth_error l i = Some a -> (sumf f (remove_nth l i) + f a = sumf f l)%nat.
Proof.
  revert i. induction l as [|c l IH]; intros [|i] H; cbn in *; try discriminate.
  - inv H. lia.
  - specialize (IH _ H). lia.
Qed.

Lemma sumf_repeat {A} (f : A -> nat) a n : f a = O -> sumf f (repeat a n) = O.
Proof. intros H. induction n as [|n IH]; cbn; [reflexivity|]. rewrite H, IH. reflexivity. Qed.

Lemma sumf_zero_in {A} (f : A -> nat) l a : sumf f l = O -> In a l -> f a = O.
Proof.
  induction l as [|c l IH]; cbn; intros H Hin; [contradiction|].
  destruct Hin as [E|E]; subst; [lia|]. apply IH; [lia|exact E].
Qed.

Lemma sumf_pos_ex {A} (f : A -> nat) l : (0 < sumf f l)%nat -> exists a, In a l /\ (0 < f a)%nat.
Proof.
  induction l as [|c l IH]; cbn; intros H; [lia|].
  destruct (f c) eqn:E.
  - destruct IH as (a & Ha & Hp); [lia|]. exists a. auto.
  - exists c. split; [auto|lia].
Qed.

Lemma sumf_nth_le {A} (f : A -> nat) l i a : nth_error l i = Some a -> (f a <= sumf f l)%nat.
Proof.
  revert i. induction l as [|c l IH]; intros [|i] H; cbn in *; try discriminate.
  - inv H. lia.
  - specialize (IH _ H). lia.
Qed.

Definition b2n (b : bool) : nat := if b then 1%nat else 0%nat.

(** state projections through the setters *)
Lemma get_set_thread s t x u :
  get_thread (set_thread s t x) u =
  if Nat.eqb t u then match get_thread s t with Some _ => Some x | None => None end else get_thread s u.
Proof. unfold get_thread, set_thread; cbn. apply nth_error_upd. Qed.

Lemma get_set_mword s w u : get_thread (set_mword s w) u = get_thread s u. Proof. reflexivity. Qed.
Lemma get_setq s q l u : get_thread (setq s q l) u = get_thread s u. Proof. destruct q; reflexivity. Qed.
Lemma get_set_festat s w u : get_thread (set_festat s w) u = get_thread s u. Proof. reflexivity. Qed.

Lemma mword_set_thread s t x : mword (set_thread s t x) = mword s. Proof. reflexivity. Qed.
Lemma mword_setq s q l : mword (setq s q l) = mword s. Proof. destruct q; reflexivity. Qed.
Lemma mword_set_mword s w : mword (set_mword s w) = w. Proof. reflexivity. Qed.
Lemma mword_set_festat s w : mword (set_festat s w) = mword s. Proof. reflexivity. Qed.
Lemma festat_set_thread s t x : festat (set_thread s t x) = festat s. Proof. reflexivity. Qed.
Lemma festat_setq s q l : festat (setq s q l) = festat s. Proof. destruct q; reflexivity. Qed.
Lemma festat_set_mword s w : festat (set_mword s w) = festat s. Proof. reflexivity. Qed.
Lemma festat_set_festat s w : festat (set_festat s w) = w. Proof. reflexivity. Qed.
Lemma mq_set_thread s t x : mq (set_thread s t x) = mq s. Proof. reflexivity. Qed.
Lemma mq_set_mword s w : mq (set_mword s w) = mq s. Proof. reflexivity. Qed.
Lemma mq_set_festat s w : mq (set_festat s w) = mq s. Proof. reflexivity. Qed.
Lemma mq_setq_QM s l : mq (setq s QM l) = l. Proof. reflexivity. Qed.
Lemma mq_setq_QC s c l : mq (setq s (QC c) l) = mq s. Proof. reflexivity. Qed.
Lemma cqs_set_thread s t x : cqs (set_thread s t x) = cqs s. Proof. reflexivity. Qed.
Lemma cqs_set_mword s w : cqs (set_mword s w) = cqs s. Proof. reflexivity. Qed.
Lemma cqs_set_festat s w : cqs (set_festat s w) = cqs s. Proof. reflexivity. Qed.
Lemma cqs_setq_QM s l : cqs (setq s QM l) = cqs s. Proof. reflexivity. Qed.
Lemma cqs_setq_QC s c l : cqs (setq s (QC c) l) = upd (cqs s) c l. Proof. reflexivity. Qed.
Lemma thr_set_thread s t x : thr (set_thread s t x) = upd (thr s) t x. Proof. reflexivity. Qed.
Lemma thr_set_mword s w : thr (set_mword s w) = thr s. Proof. reflexivity. Qed.
Lemma thr_set_festat s w : thr (set_festat s w) = thr s. Proof. reflexivity. Qed.
Lemma thr_setq s q l : thr (setq s q l) = thr s. Proof. destruct q; reflexivity. Qed.

#[global] Hint Rewrite get_set_mword get_setq get_set_festat
  mword_set_thread mword_setq mword_set_mword mword_set_festat
  festat_set_thread festat_setq festat_set_mword festat_set_festat
  mq_set_thread mq_set_mword mq_set_festat mq_setq_QM mq_setq_QC
  cqs_set_thread cqs_set_mword cqs_set_festat cqs_setq_QM cqs_setq_QC
  thr_set_thread thr_set_mword thr_set_festat thr_setq : sync.

Lemma main_set_main th p : main (set_main th p) = p. Proof. reflexivity. Qed.
Lemma cbs_set_main th p : cbs (set_main th p) = cbs th. Proof. reflexivity. Qed.
Lemma own_set_main th p : own (set_main th p) = own th. Proof. reflexivity. Qed.
Lemma main_set_cbs th c : main (set_cbs th c) = main th. Proof. reflexivity. Qed.
Lemma cbs_set_cbs th c : cbs (set_cbs th c) = c. Proof. reflexivity. Qed.
Lemma own_set_cbs th c : own (set_cbs th c) = own th. Proof. reflexivity. Qed.
Lemma main_set_own th b : main (set_own th b) = main th. Proof. reflexivity. Qed.
Lemma cbs_set_own th b : cbs (set_own th b) = cbs th. Proof. reflexivity. Qed.
Lemma own_set_own th b : own (set_own th b) = b. Proof. reflexivity. Qed.
Lemma main_add_cb th c : main (add_cb th c) = main th. Proof. reflexivity. Qed.
Lemma cbs_add_cb th c : cbs (add_cb th c) = cbs th ++ [c]. Proof. reflexivity. Qed.
Lemma own_add_cb th c : own (add_cb th c) = own th. Proof. reflexivity. Qed.
#[global] Hint Rewrite main_set_main cbs_set_main own_set_main main_set_cbs cbs_set_cbs own_set_cbs
  main_set_own cbs_set_own own_set_own main_add_cb cbs_add_cb own_add_cb : sync.

Lemma wake_inv s x s' : wake s x = Some s' ->
  exists thx k, get_thread s x = Some thx /\ main thx = Susp k /\ s' = set_thread s x (set_main thx (LockRead k)).
Proof.
  unfold wake. destruct (get_thread s x) as [thx|] eqn:E; [|discriminate].
  destruct (main thx) eqn:M; try discriminate. intros H; inv H. eauto.
Qed.

Lemma clear_own_eq s t th : get_thread s t = Some th -> clear_own s t = set_thread s t (set_own th false).
Proof. unfold clear_own. intros ->. reflexivity. Qed.

Lemma set_thread_twice s t a b : set_thread (set_thread s t a) t b = set_thread s t b.
Proof. unfold set_thread, set_thr; cbn. now rewrite upd_upd_same. Qed.

Lemma Zeven_odd w : Z.even w = negb (Z.odd w).
Proof. now rewrite <- Z.negb_odd. Qed.

(* ------------------------------------------------------------------------------------------ *)
(** ** the full/empty-lock system: SyncModel.step restricted to the four felock operations
       with status values 0 / 1 (the index of cond[2]) *)

Definition valid_st (st : Z) : bool := (st =? 0) || (st =? 1).

Definition fe_op (o : op) : bool :=
  match o with
  | Lock | Unlock => true
  | FeWL st | FeMS st => valid_st st
  | _ => false
  end.

Definition fstep (s : state) (a : nat * ev) : option state :=
  match snd a with
  | ECall o => if fe_op o then step s a else None
  | _ => step s a
  end.

Definition finit (s : state) : Prop := exists nt, s = init_state nt 2.

Definition freach : state -> Prop := reachable finit fstep.

(** program points that occur in felock programs *)
Definition valid_k (k : after_lock) : bool := match k with ALRet => true | ALFe st => valid_st st end.
Definition is_asunlock (k : after_sig) : bool := match k with ASUnlock => true | _ => false end.

Definition fe_pc (p : pc) : bool :=
  match p with
  | Idle | Done _ | Unl _ => true
  | LockRead k | LockCas1 k _ | LockCas2 k _ | Susp k => valid_k k
  | TryRead _ | TryCas _ _ | TryBusy => false
  | SigDeq c k | SigPush c k _ => Nat.ltb c 2 && is_asunlock k
  | FeRead st | FeWrite st => valid_st st
  end.

Definition upc_next (r : ures) : pc := match r with UNext u' => Unl u' | UFin _ => Done 0 end.
Definition cbs_next (l : list cbpc) (i : nat) (r : ures) : list cbpc :=
  match r with UNext u' => upd l i (CbUnl u') | UFin _ => remove_nth l i end.

(** one step of the unlock micro-program by thread [t] (record [th]): [s1] = the new state
    except for [t]'s own record, [th1] = [t]'s record after the step (before the pc update) *)
Inductive urel (s : state) (t : nat) (th : thread) : upc -> state -> thread -> ures -> Prop :=
| U_read2 nf : Z.odd (mword s) = true -> mword s > 1 ->
    urel s t th (URead nf) s th (UNext (UCas2 nf (mword s)))
| U_read1 nf : Z.odd (mword s) = true -> mword s <= 1 ->
    urel s t th (URead nf) s th (UNext (UCas1 nf (mword s)))
| U_cas1_ok nf w : mword s = 1 ->
    urel s t th (UCas1 nf w) (set_mword s 0) (set_own th false) (UFin nf)
| U_cas1_fail nf w : mword s <> 1 ->
    urel s t th (UCas1 nf w) s th (UNext (URead (nf + 1)))
| U_cas2_ok nf w : mword s = w ->
    urel s t th (UCas2 nf w) (set_mword s (w - 2)) th (UNext (UDeq nf))
| U_cas2_fail nf w : mword s <> w ->
    urel s t th (UCas2 nf w) s th (UNext (URead (nf + 1)))
| U_deq_spin nf : mq s = [] ->
    urel s t th (UDeq nf) s th (UNext (UDeq (nf + 1)))
| U_deq nf x r : mq s = x :: r ->
    urel s t th (UDeq nf) (setq s QM r) th (UNext (UClear nf x))
| U_clear nf x :
    urel s t th (UClear nf x) (set_mword s (mword s - 1)) (set_own th false) (UNext (UPush nf x))
| U_push nf x thx k : x <> t -> get_thread s x = Some thx -> main thx = Susp k ->
    urel s t th (UPush nf x) (set_thread s x (set_main thx (LockRead k))) th (UFin nf)
| U_push_self nf k : main th = Susp k ->
    urel s t th (UPush nf t) s (set_main th (LockRead k)) (UFin nf).

(** one step of thread [t] (record [th]) *)
Inductive srel (s : state) (t : nat) (th : thread) : ev -> state -> Prop :=
| S_lock : main th = Idle -> own th = false ->
    srel s t th (ECall Lock) (set_thread s t (set_main th (LockRead ALRet)))
| S_unlock : main th = Idle -> own th = true ->
    srel s t th (ECall Unlock) (set_thread s t (set_main th (Unl (URead 0))))
| S_fewl st : main th = Idle -> own th = false -> valid_st st = true ->
    srel s t th (ECall (FeWL st)) (set_thread s t (set_main th (LockRead (ALFe st))))
| S_fems st : main th = Idle -> own th = true -> valid_st st = true ->
    srel s t th (ECall (FeMS st)) (set_thread s t (set_main th (FeWrite st)))
| S_lockread_even k : main th = LockRead k -> Z.odd (mword s) = false ->
    srel s t th ETick (set_thread s t (set_main th (LockCas1 k (mword s))))
| S_lockread_odd k : main th = LockRead k -> Z.odd (mword s) = true ->
    srel s t th ETick (set_thread s t (set_main th (LockCas2 k (mword s))))
| S_cas1_ok k w : main th = LockCas1 k w -> mword s = w ->
    srel s t th ETick (set_thread (set_mword s (w + 1)) t (set_own (set_main th (acquired k)) true))
| S_cas1_fail k w : main th = LockCas1 k w -> mword s <> w ->
    srel s t th ETick (set_thread s t (set_main th (LockRead k)))
| S_cas2_ok k w : main th = LockCas2 k w -> mword s = w ->
    srel s t th ETick (set_thread (set_mword s (w + 2)) t (add_cb (set_main th (Susp k)) (CbEnq QM false)))
| S_cas2_fail k w : main th = LockCas2 k w -> mword s <> w ->
    srel s t th ETick (set_thread s t (set_main th (LockRead k)))
| S_unl u s1 th1 r : main th = Unl u -> urel s t th u s1 th1 r ->
    srel s t th ETick (set_thread s1 t (set_main th1 (upc_next r)))
| S_sigdeq_empty c : main th = SigDeq c ASUnlock -> getq s (QC c) = [] ->
    srel s t th ETick (set_thread s t (set_main th (Unl (URead 0))))
| S_sigdeq c x r : main th = SigDeq c ASUnlock -> getq s (QC c) = x :: r ->
    srel s t th ETick (set_thread (setq s (QC c) r) t (set_main th (SigPush c ASUnlock x)))
| S_sigpush c x thx k : main th = SigPush c ASUnlock x -> x <> t ->
    get_thread s x = Some thx -> main thx = Susp k ->
    srel s t th ETick (set_thread (set_thread s x (set_main thx (LockRead k))) t (set_main th (Unl (URead 0))))
| S_feread_ok st : main th = FeRead st -> festat s = st ->
    srel s t th ETick (set_thread s t (set_main th (Done 0)))
| S_feread_wait st : main th = FeRead st -> festat s <> st ->
    srel s t th ETick
      (set_thread s t (add_cb (set_main th (Susp (ALFe st))) (CbEnq (QC (Z.to_nat st)) true)))
| S_fewrite st : main th = FeWrite st ->
    srel s t th ETick (set_thread (set_festat s st) t (set_main th (SigDeq (Z.to_nat st) ASUnlock)))
| S_cbenq i q unl : nth_error (cbs th) i = Some (CbEnq q unl) ->
    srel s t th (ECbTick i)
      (set_thread (setq s q (getq s q ++ [t])) t
         (set_cbs th (if unl then upd (cbs th) i (CbUnl (URead 0)) else remove_nth (cbs th) i)))
| S_cbunl i u s1 th1 r : nth_error (cbs th) i = Some (CbUnl u) -> urel s t th u s1 th1 r ->
    srel s t th (ECbTick i) (set_thread s1 t (set_cbs th1 (cbs_next (cbs th1) i r)))
| S_ret r : main th = Done r ->
    srel s t th (ERet r) (set_thread s t (set_main th Idle)).

Lemma ustep_urel s t th u s' r :
  get_thread s t = Some th -> ustep s t u = Some (s', r) ->
  exists s1 th1, urel s t th u s1 th1 r /\ get_thread s1 t <> None /\
                 (forall f, set_thread s' t (f th1) = set_thread s1 t (f th1)) /\
                 get_thread s' t = Some th1.
Proof.
  intros Hth H. destruct u as [nf|nf w|nf w|nf|nf x|nf x]; cbn in H.
  - rewrite Zeven_odd in H. destruct (Z.odd (mword s)) eqn:E; cbn in H; [|discriminate].
    destruct (Z.gtb_spec (mword s) 1) as [G|G]; inv H; exists s', th;
      (split; [constructor; auto; lia|split; [congruence|split; [reflexivity|assumption]]]).
  - destruct (Z.eqb_spec (mword s) 1) as [E|E]; inv H.
    + rewrite (clear_own_eq _ _ th) by exact Hth.
      exists (set_mword s 0), (set_own th false). split; [constructor; assumption|].
      split; [autorewrite with sync; congruence|]. split.
      * intros f. apply set_thread_twice.
      * rewrite get_set_thread, Nat.eqb_refl. autorewrite with sync. now rewrite Hth.
    + exists s', th. split; [constructor; assumption|]. split; [congruence|split; [reflexivity|assumption]].
  - destruct (Z.eqb_spec (mword s) w) as [E|E]; inv H.
    + exists (set_mword s (mword s - 2)), th. split; [constructor; reflexivity|].
      split; [autorewrite with sync; congruence|split; [reflexivity|exact Hth]].
    + exists s', th. split; [constructor; assumption|]. split; [congruence|split; [reflexivity|assumption]].
  - destruct (mq s) as [|x rest] eqn:E; inv H.
    + exists s', th. split; [constructor; assumption|]. split; [congruence|split; [reflexivity|assumption]].
    + exists (setq s QM rest), th. split; [constructor; assumption|].
      split; [autorewrite with sync; congruence|split; [reflexivity|exact Hth]].
  - inv H. rewrite (clear_own_eq _ _ th) by exact Hth.
    exists (set_mword s (mword s - 1)), (set_own th false). split; [constructor|].
    split; [autorewrite with sync; congruence|]. split.
    + intros f. apply set_thread_twice.
    + rewrite get_set_thread, Nat.eqb_refl. autorewrite with sync. now rewrite Hth.
  - destruct (wake s x) as [s2|] eqn:W; [|discriminate]. inv H.
    apply wake_inv in W. destruct W as (thx & k & A & B & ->).
    destruct (Nat.eq_dec x t) as [->|Hne].
    + assert (thx = th) by congruence. subst thx.
      exists s, (set_main th (LockRead k)). split; [constructor; assumption|].
      split; [congruence|]. split.
      * intros f. apply set_thread_twice.
      * rewrite get_set_thread, Nat.eqb_refl. now rewrite Hth.
    + exists (set_thread s x (set_main thx (LockRead k))), th.
      split; [econstructor; eassumption|].
      split; [|split; [reflexivity|]];
        rewrite get_set_thread; destruct (Nat.eqb_spec x t); try contradiction; congruence.
Qed.

Lemma step_srel s t e s' th :
  get_thread s t = Some th -> fe_pc (main th) = true ->
  fstep s (t, e) = Some s' -> srel s t th e s'.
Proof.
  intros Hth Hpc H. unfold fstep in H. cbn [snd] in H. destruct e as [o| |i|v].
  - destruct (fe_op o) eqn:Hop; [|discriminate]. cbn [step] in H. unfold call in H.
    rewrite Hth in H. destruct (main th) eqn:Hm; try discriminate.
    destruct o; cbn in Hop; try discriminate; destruct (own th) eqn:Ho; try discriminate; inv H;
      constructor; assumption.
  - cbn [step] in H. unfold tick in H. rewrite Hth in H.
    destruct (main th) eqn:Hm; cbn in Hpc; try discriminate.
    + (* LockRead *) rewrite ?Hth in H. inv H. unfold lock_read. rewrite Zeven_odd.
      destruct (Z.odd (mword s)) eqn:E; cbn; constructor; assumption.
    + (* LockCas1 *) destruct (Z.eqb_spec (mword s) s0) as [E|E].
      * inv H. eapply S_cas1_ok; eauto.
      * rewrite ?Hth in H. inv H. eapply S_cas1_fail; eauto.
    + (* LockCas2 *) destruct (Z.eqb_spec (mword s) s0) as [E|E].
      * inv H. eapply S_cas2_ok; eauto.
      * rewrite ?Hth in H. inv H. eapply S_cas2_fail; eauto.
    + (* Unl *) destruct (ustep s t u) as [[s2 r]|] eqn:U; [|discriminate].
      destruct (ustep_urel _ _ _ _ _ _ Hth U) as (s1 & th1 & R & Hn & Heq & Hg).
      replace (match r with UNext u' => _ | UFin _ => _ end)
        with (match get_thread s2 t with Some th' => Some (set_thread s2 t (set_main th' (upc_next r))) | None => None end) in H
        by (destruct r; reflexivity).
      rewrite Hg in H. inv H. rewrite (Heq (fun x => set_main x (upc_next r))).
      econstructor; eassumption.
    + (* SigDeq *) apply andb_prop in Hpc. destruct Hpc as [_ Hk]. destruct k; try discriminate.
      destruct (getq s (QC c)) as [|x r] eqn:Q.
      * rewrite ?Hth in H. inv H. eapply S_sigdeq_empty; eassumption.
      * rewrite ?get_setq, ?Hth in H. inv H. eapply S_sigdeq; eassumption.
    + (* SigPush *) apply andb_prop in Hpc. destruct Hpc as [_ Hk]. destruct k; try discriminate.
      destruct (wake s x) as [s2|] eqn:W; [|discriminate].
      apply wake_inv in W. destruct W as (thx & k & A & B & ->).
      assert (x <> t) by (intros ->; congruence).
      rewrite get_set_thread in H. destruct (Nat.eqb_spec x t); [contradiction|].
      rewrite ?Hth in H. inv H. econstructor; eassumption.
    + (* FeRead *) destruct (Z.eqb_spec (festat s) s0) as [E|E].
      * rewrite ?Hth in H. inv H. econstructor; eauto.
      * inv H. econstructor; eauto.
    + (* FeWrite *) rewrite ?get_set_festat, ?Hth in H. inv H. constructor; assumption.
  - cbn [step] in H. unfold cbtick in H. rewrite Hth in H.
    destruct (nth_error (cbs th) i) as [[q unl|u]|] eqn:Hc; [| |discriminate].
    + inv H. constructor; assumption.
    + destruct (ustep s t u) as [[s2 r]|] eqn:U; [|discriminate].
      destruct (ustep_urel _ _ _ _ _ _ Hth U) as (s1 & th1 & R & Hn & Heq & Hg).
      replace (match r with UNext u' => _ | UFin _ => _ end)
        with (match get_thread s2 t with Some th' => Some (set_thread s2 t (set_cbs th' (cbs_next (cbs th') i r))) | None => None end) in H
        by (destruct r; reflexivity).
      rewrite Hg in H. inv H. rewrite (Heq (fun x => set_cbs x (cbs_next (cbs x) i r))).
      econstructor; eassumption.
  - cbn [step] in H. unfold ret, ret_ok in H. rewrite Hth in H.
    destruct (main th) eqn:Hm; cbn in Hpc; try discriminate.
    destruct (Z.eqb_spec v r) as [E|E]; [|discriminate]. inv H. constructor; assumption.
Qed.

(** normalisation of [get_thread] of an updated state *)
Ltac gts := autorewrite with sync in *.

Ltac eqb_cases :=
  repeat match goal with
  | H : context [Nat.eqb ?a ?b] |- _ => destruct (Nat.eqb_spec a b); subst
  | |- context [Nat.eqb ?a ?b] => destruct (Nat.eqb_spec a b); subst
  end.

Ltac rew_get :=
  repeat match goal with
  | E : get_thread ?s ?t = Some _, H : context [get_thread ?s ?t] |- _ =>
      lazymatch type of H with get_thread s t = Some _ => fail | _ => rewrite E in H end
  | E : get_thread ?s ?t = Some _ |- context [get_thread ?s ?t] => rewrite E
  end.

