(** C09 - full/empty lock, part 6: the exchange invariant for mailbox programs
    (producers FeWL 0; put; FeMS 1 - consumers FeWL 1; take; FeMS 0 - plain lockers). *)
From Coq Require Import ZArith List Bool Lia Arith Permutation.
From MT Require Import Lib.Interleave Sync.SyncModel Sync.FelockBase Sync.FelockOwn Sync.FelockInv
  Sync.FelockProofs Sync.FelockExchange.
Import ListNotations.
Local Open Scope Z_scope.

(* ------------------------------------------------------------------------------------------ *)
(** * the exchange invariant for mailbox programs *)

Fixpoint mbox_out (p : list action) : bool :=
  match p with
  | [] => true
  | AFeWL st :: APut _ :: AFeMS st' :: r => (st =? 0) && (st' =? 1) && mbox_out r
  | AFeWL st :: ATake :: AFeMS st' :: r => (st =? 1) && (st' =? 0) && mbox_out r
  | ALock :: AUnlock :: r => mbox_out r
  | _ => false
  end.

(** a program at any position inside a mailbox program *)
Definition mbp (p : list action) : bool :=
  match p with
  | APut _ :: AFeMS st :: r => (st =? 1) && mbox_out r
  | ATake :: AFeMS st :: r => (st =? 0) && mbox_out r
  | AFeMS st :: r => valid_st st && mbox_out r
  | AUnlock :: r => mbox_out r
  | _ => mbox_out p
  end.

Lemma mbox_out_mbp p : mbox_out p = true -> mbp p = true.
Proof. destruct p as [|[] r]; cbn; auto; discriminate. Qed.

Definition slot_list (g : gstate) : list Z := match slot g with Some v => [v] | None => [] end.

Definition coh (g : gstate) : Prop :=
  (festat (base g) = 0 /\ slot g = None) \/ (festat (base g) = 1 /\ slot g <> None).
(** between the local action and the status write the status is "behind" the slot *)
Definition anti (g : gstate) (st : Z) : Prop :=
  (st = 1 /\ festat (base g) = 0 /\ slot g <> None) \/ (st = 0 /\ festat (base g) = 1 /\ slot g = None).

Definition dirty (gt : gthread) (th : thread) (st : Z) : Prop :=
  exists r, prog gt = AFeMS st :: r /\ (pend gt = false \/ main th = FeWrite st).

Record XInv (g : gstate) : Prop := {
  x_mb : forall t gt, nth_error (gth g) t = Some gt -> mbp (prog gt) = true;
  x_flow : uflow g = false /\ oflow g = false;
  x_perm : Permutation (produced g) (slot_list g ++ consumed g);
  x_coh : coh g \/ exists t gt th st, nth_error (gth g) t = Some gt /\ get_thread (base g) t = Some th /\
                                      dirty gt th st;
  x_dirty : forall t gt th st, nth_error (gth g) t = Some gt -> get_thread (base g) t = Some th ->
            dirty gt th st -> anti g st;
  x_sec : forall t gt th, nth_error (gth g) t = Some gt -> get_thread (base g) t = Some th ->
          (pend gt = true -> forall st r, prog gt = AFeWL st :: r -> main th = Done 0 -> festat (base g) = st) /\
          (pend gt = false -> forall v r, prog gt = APut v :: r -> festat (base g) = 0) /\
          (pend gt = false -> forall r, prog gt = ATake :: r -> festat (base g) = 1) }.

(** threads inside their full/empty section own the lock *)
Definition insec (gt : gthread) (th : thread) : Prop :=
  (pend gt = false /\ head_mode (prog gt) = MFe) \/
  (pend gt = true /\ (exists st r, prog gt = AFeWL st :: r) /\ main th = Done 0) \/
  (exists st, main th = FeWrite st).

Lemma insec_own gt th : tinv1 th -> grel gt th -> insec gt th -> own th = true.
Proof.
  intros T Hg [[A B]|[(A & (st & r & B) & C)|[st A]]].
  - unfold grel in Hg. rewrite A, B in Hg. destruct Hg as [_ Hg]. exact Hg.
  - unfold grel in Hg. rewrite A, B, C in Hg. unfold lock_pc in Hg. dsj; pc_inj; try discriminate; auto.
  - apply (t1_need _ T). rewrite A. reflexivity.
Qed.

Lemma dirty_insec gt th st : dirty gt th st -> insec gt th.
Proof. intros (r & A & [B|B]); [left; rewrite A; auto|right; right; eauto]. Qed.

Lemma mbox_out_disc : forall q, mbox_out q = true -> disc MOut q = true.
Proof.
  fix IH 1. intros [|a q]; [reflexivity|]. destruct a as [st|st| | |v|]; cbn; try discriminate.
  - destruct q as [|b q]; [discriminate|].
    destruct b as [st1|st1| | |v1|]; try discriminate;
      (destruct q as [|c q]; [discriminate|]; destruct c as [st2|st2| | |v2|]; try discriminate);
      intros H; apply andb_prop in H; destruct H as [H H3]; apply andb_prop in H; destruct H as [H1 H2];
      apply Z.eqb_eq in H1; apply Z.eqb_eq in H2; subst; cbn; apply IH; exact H3.
  - destruct q as [|b q]; [discriminate|]. destruct b; try discriminate. intros H. cbn. apply IH. exact H.
Qed.

Lemma mbp_wfp p : mbp p = true -> wfp p = true.
Proof.
  unfold wfp. destruct p as [|[st|st| | |v|] q]; cbn [mbp head_mode]; intros H;
    try (apply mbox_out_disc in H; exact H).
  - apply andb_prop in H. destruct H as [H1 H2]. cbn. rewrite H1. cbn. apply mbox_out_disc. exact H2.
  - destruct q as [|[] q']; try discriminate.
    apply andb_prop in H. destruct H as [H1 H2]. apply Z.eqb_eq in H1. subst. cbn. apply mbox_out_disc. exact H2.
  - destruct q as [|[] q']; try discriminate.
    apply andb_prop in H. destruct H as [H1 H2]. apply Z.eqb_eq in H1. subst. cbn. apply mbox_out_disc. exact H2.
Qed.

(** what a tick / callback tick does to the facts the exchange invariant looks at *)
Lemma tick_effects s t th e s' th' :
  Inv s -> get_thread s t = Some th -> srel s t th e s' ->
  (e = ETick \/ exists i, e = ECbTick i) -> get_thread s' t = Some th' ->
  (festat s' = festat s /\
   (forall st, main th' = FeWrite st <-> main th = FeWrite st) /\
   (main th' = Done 0 ->
      main th = Done 0 \/ (main th = FeRead (festat s)) \/ (exists w, main th = LockCas1 ALRet w) \/
      (exists u, main th = Unl u))) \/
  (exists st, main th = FeWrite st /\ festat s' = st /\ main th' = SigDeq (Z.to_nat st) ASUnlock).
Proof.
  intros I Hth R He G.
  inversion R; subst; clear R; try (destruct He as [He|[i0 He]]; discriminate He).
  all: try (rewrite get_same in G by (gts; congruence); inv G).
  all: try (left; gts; split; [reflexivity|]; split;
            [intros st0; split; intros E0; congruence|intros E0; try discriminate E0; eauto 6]; fail).
  - (* cas1_ok *) left. gts. split; [reflexivity|]. split.
    + intros st0. destruct k; cbn; split; intros E0; congruence.
    + destruct k; cbn; intros E0; [|discriminate]. right; right; left. eauto.
  - (* unl *)
    match goal with U : urel _ _ _ _ _ _ _ |- _ =>
      destruct (urel_frame _ _ _ _ _ _ _ U Hth) as [G1 _]; pose proof (urel_festat _ _ _ _ _ _ _ U) as Uf end.
    rewrite get_same in G by congruence. inv G. left. gts. split; [exact Uf|]. split.
    + intros st0. split; intros E0; [destruct r; discriminate|congruence].
    + intros _. right; right; right. eauto.
  - (* sigpush *)
    rewrite get_same in G by (rewrite get_other by auto; congruence). inv G.
    left. gts. split; [reflexivity|]. split; [intros st0; split; intros E0; congruence|intros E0; discriminate].
  - (* fewrite *) right. exists st. gts. auto.
  - (* cbunl *)
    match goal with U : urel _ _ _ _ _ _ _ |- _ =>
      destruct (urel_frame _ _ _ _ _ _ _ U Hth) as [G1 _]; pose proof (urel_festat _ _ _ _ _ _ _ U) as Uf;
      pose proof (urel_own _ _ _ _ _ _ _ U) as Hm end.
    rewrite get_same in G by congruence. inv G. left. gts. split; [exact Uf|].
    destruct Hm as [E|(k & A & E)]; rewrite E.
    + split; [intros st0; reflexivity|auto].
    + split; [intros st0; split; intros E0; congruence|intros E0; discriminate].
Qed.

Definition sec_ok (fs : Z) (gt : gthread) (th : thread) : Prop :=
  (pend gt = true -> forall st r, prog gt = AFeWL st :: r -> main th = Done 0 -> fs = st) /\
  (pend gt = false -> forall v r, prog gt = APut v :: r -> fs = 0) /\
  (pend gt = false -> forall r, prog gt = ATake :: r -> fs = 1).

Lemma XInv_upd_t g gt gt' th th' t :
  XInv g -> nth_error (gth g) t = Some gt -> get_thread (base g) t = Some th ->
  mbp (prog gt') = true ->
  (forall st, dirty gt' th' st <-> dirty gt th st) ->
  sec_ok (festat (base g)) gt' th' ->
  XInv (set_gth (set_base g (set_thread (base g) t th')) t gt').
Proof.
  intros X Hgt Hth Hmb Hd Hs.
  assert (Hl : forall z gz thz,
             nth_error (upd (gth g) t gt') z = Some gz ->
             get_thread (set_thread (base g) t th') z = Some thz ->
             (z = t /\ gz = gt' /\ thz = th') \/
             (z <> t /\ nth_error (gth g) z = Some gz /\ get_thread (base g) z = Some thz)).
  { intros z gz thz A B. destruct (Nat.eq_dec z t) as [->|Hz].
    - left. rewrite (nth_error_upd_same _ _ _ _ Hgt) in A. rewrite get_same in B by congruence.
      inv A. inv B. auto.
    - right. rewrite nth_error_upd_other in A by exact Hz. rewrite get_other in B by exact Hz. auto. }
  split; cbn [gth base set_gth set_base slot produced consumed uflow oflow]; gts.
  - intros z gz A. destruct (Nat.eq_dec z t) as [->|Hz].
    + rewrite (nth_error_upd_same _ _ _ _ Hgt) in A. inv A. exact Hmb.
    + rewrite nth_error_upd_other in A by exact Hz. eapply (x_mb _ X); eauto.
  - apply (x_flow _ X).
  - apply (x_perm _ X).
  - destruct (x_coh _ X) as [C|(z & gz & thz & st & A & B & D)]; [left; exact C|]. right.
    destruct (Nat.eq_dec z t) as [->|Hz].
    + rewrite Hgt in A. inv A. rewrite Hth in B. inv B.
      exists t, gt', th', st. split; [apply (nth_error_upd_same _ _ _ _ Hgt)|].
      split; [apply get_same; congruence|]. apply Hd. exact D.
    + exists z, gz, thz, st. rewrite nth_error_upd_other by exact Hz. rewrite get_other by exact Hz. auto.
  - intros z gz thz st A B D. destruct (Hl _ _ _ A B) as [(-> & -> & ->)|(Hz & A' & B')].
    + apply Hd in D. apply (x_dirty _ X _ _ _ _ Hgt Hth D).
    + apply (x_dirty _ X _ _ _ _ A' B' D).
  - intros z gz thz A B. destruct (Hl _ _ _ A B) as [(-> & -> & ->)|(Hz & A' & B')].
    + exact Hs.
    + apply (x_sec _ X _ _ _ A' B').
Qed.

Lemma mbp_call_tl p : mbp p = true ->
  match p with
  | AFeWL st :: q => mbp q = true /\ ((exists v r, q = APut v :: r /\ st = 0) \/ (exists r, q = ATake :: r /\ st = 1))
  | AFeMS _ :: q | AUnlock :: q => mbox_out q = true
  | ALock :: q => mbp q = true /\ exists r, q = AUnlock :: r
  | _ => True
  end.
Proof.
  destruct p as [|[st|st| | |v|] q]; cbn; auto.
  - destruct q as [|[] [|[] q']]; try discriminate; intros H;
      apply andb_prop in H; destruct H as [H H3]; apply andb_prop in H; destruct H as [H1 H2];
      apply Z.eqb_eq in H1; apply Z.eqb_eq in H2; subst; cbn; rewrite H3; split; eauto.
  - intros H. apply andb_prop in H. tauto.
  - destruct q as [|[] q']; try discriminate. intros H. cbn. split; [exact H|eauto].
Qed.

Lemma mbox_out_head q : mbox_out q = true ->
  q = [] \/ (exists st r, q = AFeWL st :: r) \/ (exists r, q = ALock :: r).
Proof. destruct q as [|[] r]; cbn; try discriminate; eauto. Qed.

Lemma XInv_base g t e s' gt th :
  Inv (base g) -> GRel g -> XInv g ->
  nth_error (gth g) t = Some gt -> get_thread (base g) t = Some th ->
  (e = ETick \/ exists i, e = ECbTick i) ->
  fstep (base g) (t, e) = Some s' -> XInv (set_base g s').
Proof.
  intros I GR X Hgt Hth He F. set (s := base g) in *.
  destruct (gr_thr _ GR _ _ _ Hgt Hth) as [Hg Hw].
  pose proof (i1_thr _ (inv_1 _ I) _ _ Hth) as T.
  pose proof (step_srel _ _ _ _ _ Hth (t1_pc _ T) F) as R.
  destruct (srel_self _ _ _ _ _ R Hth) as [th' Hth'].
  assert (Huniq : forall z gz thz, nth_error (gth g) z = Some gz -> get_thread s z = Some thz ->
                  insec gz thz -> insec gt th -> z = t).
  { intros z gz thz A B C D. destruct (gr_thr _ GR _ _ _ A B) as [Hgz _].
    eapply (i1_uniq _ (inv_1 _ I)); eauto.
    - eapply insec_own; eauto. apply (i1_thr _ (inv_1 _ I) _ _ B).
    - eapply insec_own; eauto. }
  (* the other threads *)
  assert (Hoth : forall z thz', z <> t -> get_thread s' z = Some thz' ->
            exists thz, get_thread s z = Some thz /\
              (forall st, main thz' = FeWrite st <-> main thz = FeWrite st) /\
              (main thz' = Done 0 -> main thz = Done 0)).
  { intros z thz' Hz G. destruct (base_frame _ _ _ _ I F z thz' Hz G) as (thz & A & [->|(k & B & ->)]).
    - exists thz. split; [exact A|]. split; [intros; reflexivity|auto].
    - exists thz. split; [exact A|]. cbn. rewrite B. split; [intros; split; discriminate|discriminate]. }
  destruct (tick_effects _ _ _ _ _ _ I Hth R He Hth') as [(Ef & Ew & Ed)|(st & Em & Ef & Em')].
  - (* status not written *)
    assert (Hd : forall z gz thz' st, nth_error (gth g) z = Some gz -> get_thread s' z = Some thz' ->
              dirty gz thz' st -> exists thz, get_thread s z = Some thz /\ dirty gz thz st).
    { intros z gz thz' st A B (r & E & D). destruct (Nat.eq_dec z t) as [->|Hz].
      - rewrite Hth' in B. inv B. rewrite Hgt in A. inv A. exists th. split; [exact Hth|].
        exists r. split; [exact E|]. destruct D as [D|D]; [auto|right; apply Ew; exact D].
      - destruct (Hoth _ _ Hz B) as (thz & B0 & W & _). exists thz. split; [exact B0|].
        exists r. split; [exact E|]. destruct D as [D|D]; [auto|right; apply W; exact D]. }
    split; cbn [gth base set_base slot produced consumed uflow oflow].
    + apply (x_mb _ X).
    + apply (x_flow _ X).
    + apply (x_perm _ X).
    + destruct (x_coh _ X) as [C|(z & gz & thz & st & A & B & (r & E & D))].
      * left. unfold coh in *. cbn [base set_base slot]. rewrite Ef. exact C.
      * right. change (base g) with s in B. destruct (Nat.eq_dec z t) as [->|Hz].
        -- assert (gz = gt) by congruence. assert (thz = th) by congruence. subst gz thz.
           exists t, gt, th', st.
           split; [exact Hgt|split; [exact Hth'|]]. exists r. split; [exact E|].
           destruct D as [D|D]; [auto|right; apply Ew; exact D].
        -- destruct (step_thread_effect _ _ _ _ _ _ I F B) as (thz' & B' & Y).
           destruct (Y Hz) as (_ & _ & Hm). exists z, gz, thz', st.
           split; [exact A|split; [exact B'|]]. exists r. split; [exact E|].
           destruct D as [D|D]; [auto|]. right. destruct Hm as [->|(k & K & _)]; congruence.
    + intros z gz thz' st A B D. destruct (Hd _ _ _ _ A B D) as (thz & B0 & D0).
      pose proof (x_dirty _ X _ _ _ _ A B0 D0) as An. unfold anti in *. cbn [base set_base slot]. rewrite Ef. exact An.
    + intros z gz thz' A B. cbn [base set_base]. rewrite Ef.
      destruct (Nat.eq_dec z t) as [->|Hz].
      * rewrite Hth' in B. inv B. rewrite Hgt in A. inv A.
        destruct (x_sec _ X _ _ _ Hgt Hth) as (S1 & S2 & S3). split; [|split; [exact S2|exact S3]].
        intros Hp st0 r0 E0 Dn. destruct (Ed Dn) as [D0|[D0|[(w & D0)|(u & D0)]]].
        -- eapply S1; eauto.
        -- unfold grel in Hg. rewrite Hp, E0, D0 in Hg. unfold lock_pc in Hg.
           dsj; pc_inj; try discriminate; reflexivity.
        -- exfalso. unfold grel in Hg. rewrite Hp, E0, D0 in Hg. unfold lock_pc in Hg.
           dsj; pc_inj; discriminate.
        -- exfalso. unfold grel in Hg. rewrite Hp, E0, D0 in Hg. unfold lock_pc in Hg.
           dsj; pc_inj; discriminate.
      * destruct (Hoth _ _ Hz B) as (thz & B0 & _ & Dn).
        destruct (x_sec _ X _ _ _ A B0) as (S1 & S2 & S3). split; [|split; [exact S2|exact S3]].
        intros Hp st0 r0 E0 D0. eapply S1; eauto.
  - (* the status write of mark_and_signal *)
    assert (Hgt2 : pend gt = true /\ exists r, prog gt = AFeMS st :: r).
    { clear -Hg Em. grel_cases gt; rewrite ?Em in Hg; dsj; pc_inj; try discriminate; eauto. }
    destruct Hgt2 as (Hp & r & Hpr).
    assert (Dt : dirty gt th st) by (exists r; auto).
    assert (Hin : insec gt th) by (eapply dirty_insec; eauto).
    pose proof (x_dirty _ X _ _ _ _ Hgt Hth Dt) as An.
    assert (Hnone : forall z gz thz', nth_error (gth g) z = Some gz -> get_thread s' z = Some thz' ->
              z <> t -> forall thz, get_thread s z = Some thz -> ~ insec gz thz).
    { intros z gz thz' A B Hz thz B0 C. apply Hz. eapply Huniq; eauto. }
    split; cbn [gth base set_base slot produced consumed uflow oflow].
    + apply (x_mb _ X).
    + apply (x_flow _ X).
    + apply (x_perm _ X).
    + left. unfold coh, anti in *. cbn [base set_base slot]. rewrite Ef.
      destruct An as [(-> & _ & A2)|(-> & _ & A2)]; auto.
    + intros z gz thz' st0 A B D. exfalso. destruct (Nat.eq_dec z t) as [->|Hz].
      * rewrite Hth' in B. inv B. rewrite Hgt in A. inv A. destruct D as (r0 & _ & [D|D]); congruence.
      * destruct (Hoth _ _ Hz B) as (thz & B0 & W & _).
        eapply (Hnone _ _ _ A B Hz _ B0). eapply (dirty_insec _ _ st0).
        destruct D as (r0 & E0 & D). exists r0. split; [exact E0|].
        destruct D as [D|D]; [auto|right; apply W; exact D].
    + intros z gz thz' A B. destruct (Nat.eq_dec z t) as [->|Hz].
      * rewrite Hgt in A. inv A. unfold sec_ok. rewrite Hp, Hpr.
        repeat split; intros; discriminate.
      * destruct (Hoth _ _ Hz B) as (thz & B0 & _ & Dn).
        repeat split.
        -- intros Hp0 st0 r0 E0 D0. exfalso. eapply (Hnone _ _ _ A B Hz _ B0).
           right; left. split; [exact Hp0|]. split; [eauto|auto].
        -- intros Hp0 v0 r0 E0. exfalso. eapply (Hnone _ _ _ A B Hz _ B0).
           left. split; [exact Hp0|]. rewrite E0. reflexivity.
        -- intros Hp0 r0 E0. exfalso. eapply (Hnone _ _ _ A B Hz _ B0).
           left. split; [exact Hp0|]. rewrite E0. reflexivity.
Qed.

Lemma XInv_step g a g' : Inv (base g) -> GRel g -> XInv g -> gstep g a = Some g' -> XInv g'.
Proof.
  intros I GR X H. destruct a as [t e].
  destruct (gstep_inv _ _ _ _ H) as (gt & Hgt & Hcase). clear H.
  assert (Hex : exists th, get_thread (base g) t = Some th).
  { unfold get_thread. destruct (nth_error (thr (base g)) t) eqn:E; [eauto|].
    apply nth_error_None in E. assert (nth_error (gth g) t <> None) by congruence.
    apply nth_error_Some in H. rewrite (gr_len _ GR) in H. lia. }
  destruct Hex as [th Hth]. destruct (gr_thr _ GR _ _ _ Hgt Hth) as [Hg Hw].
  pose proof (i1_thr _ (inv_1 _ I) _ _ Hth) as T.
  pose proof (x_mb _ X _ _ Hgt) as Hmb.
  (* threads inside a section are unique *)
  assert (Huniq : forall z gz thz, nth_error (gth g) z = Some gz -> get_thread (base g) z = Some thz ->
                  insec gz thz -> insec gt th -> z = t).
  { intros z gz thz A B C D. destruct (gr_thr _ GR _ _ _ A B) as [Hgz _].
    eapply (i1_uniq _ (inv_1 _ I)); eauto.
    - eapply insec_own; eauto. apply (i1_thr _ (inv_1 _ I) _ _ B).
    - eapply insec_own; eauto. }
  destruct e.
  - (* call *)
    destruct Hcase as (Hp & a & r & o & s' & Hpr & Ha & F & ->).
    pose proof (step_srel _ _ _ _ _ Hth (t1_pc _ T) F) as R.
    unfold grel in Hg. rewrite Hp in Hg. destruct Hg as [Hm Ho].
    inversion R; subst; clear R; destruct a; cbn in Ha; inv Ha;
      (eapply XInv_upd_t; [exact X|exact Hgt|exact Hth|exact Hmb| |]); cbn [prog pend]; gts.
    all: try (intros st0; unfold dirty; cbn [prog pend]; gts; rewrite Hpr, Hp, Hm;
              split; intros (r0 & E0 & E1); try discriminate E0; fail).
    all: try (unfold sec_ok; cbn [prog pend]; gts; rewrite Hpr;
              repeat split; intros; try discriminate; fail).
    (* FeMS *)
    intros st0; unfold dirty; cbn [prog pend]; gts; rewrite Hpr, Hp, Hm.
    split; intros (r0 & E0 & E1); inv E0; exists r0; auto.
  - (* tick *)
    destruct Hcase as (s' & F & ->). eapply (XInv_base g t ETick s' gt th); eauto.
  - (* cbtick *)
    destruct Hcase as (s' & F & ->). eapply (XInv_base g t (ECbTick i) s' gt th); eauto.
  - (* ret *)
    destruct Hcase as (Hp & s' & F & ->).
    pose proof (step_srel _ _ _ _ _ Hth (t1_pc _ T) F) as R.
    inversion R; subst; clear R.
    pose proof (mbp_call_tl _ Hmb) as Htl.
    pose proof (x_sec _ X _ _ _ Hgt Hth) as (Hsec & _ & _).
    unfold grel in Hg. rewrite Hp in Hg.
    eapply XInv_upd_t; [exact X|exact Hgt|exact Hth| | |]; cbn [prog pend]; gts.
    + destruct (prog gt) as [|[st|st| | |x|] q]; try contradiction; cbn [tl];
        try (destruct Htl as [Htl _]; exact Htl); apply mbox_out_mbp; exact Htl.
    + intros st0. unfold dirty. cbn [prog pend]. gts. rewrite Hp.
      split; intros (r0 & E0 & E1).
      * exfalso. destruct (prog gt) as [|[st|st| | |x|] q]; try contradiction; cbn [tl] in E0; subst q.
        -- destruct Htl as [_ [(v0 & r1 & E & _)|(r1 & E & _)]]; discriminate E.
        -- destruct (mbox_out_head _ Htl) as [E|[(s1 & r1 & E)|(r1 & E)]]; discriminate E.
        -- destruct Htl as [_ (r1 & E)]. discriminate E.
        -- destruct (mbox_out_head _ Htl) as [E|[(s1 & r1 & E)|(r1 & E)]]; discriminate E.
      * exfalso. destruct E1 as [E1|E1]; congruence.
    + unfold sec_ok. cbn [prog pend]. split; [intros E0; discriminate E0|].
      assert (Hdone : forall st q, prog gt = AFeWL st :: q -> festat (base g) = st).
      { intros st q E. apply (Hsec Hp st q E). rewrite E in Hg. unfold lock_pc in Hg.
        match goal with Hm : main th = Done _ |- _ => rewrite Hm in Hg |- * end.
        dsj; pc_inj; try discriminate; reflexivity. }
      split; intros _.
      * intros v0 r0 E0. destruct (prog gt) as [|[st|st| | |x|] q] eqn:Ep; try contradiction; cbn [tl] in E0; subst q.
        -- destruct Htl as [_ [(v1 & r1 & E & ->)|(r1 & E & _)]]; [|discriminate E]. eapply Hdone; reflexivity.
        -- destruct (mbox_out_head _ Htl) as [E|[(s1 & r1 & E)|(r1 & E)]]; discriminate E.
        -- destruct Htl as [_ (r1 & E)]. discriminate E.
        -- destruct (mbox_out_head _ Htl) as [E|[(s1 & r1 & E)|(r1 & E)]]; discriminate E.
      * intros r0 E0. destruct (prog gt) as [|[st|st| | |x|] q] eqn:Ep; try contradiction; cbn [tl] in E0; subst q.
        -- destruct Htl as [_ [(v1 & r1 & E & _)|(r1 & E & ->)]]; [discriminate E|]. eapply Hdone; reflexivity.
        -- destruct (mbox_out_head _ Htl) as [E|[(s1 & r1 & E)|(r1 & E)]]; discriminate E.
        -- destruct Htl as [_ (r1 & E)]. discriminate E.
        -- destruct (mbox_out_head _ Htl) as [E|[(s1 & r1 & E)|(r1 & E)]]; discriminate E.
  - (* local *)
    destruct Hcase as (Hp & Hloc).
    pose proof (x_sec _ X _ _ _ Hgt Hth) as (_ & Hput & Htake).
    assert (Hin : insec gt th).
    { left. split; [exact Hp|]. destruct Hloc as [(v & r & E & _)|(r & E & _)]; rewrite E; reflexivity. }
    assert (Hcoh : coh g).
    { destruct (x_coh _ X) as [C|(z & gz & thz & st & A & B & D)]; [exact C|]. exfalso.
      assert (z = t) by (eapply Huniq; eauto; eapply dirty_insec; eauto). subst z.
      rewrite Hgt in A. inv A. destruct D as (r0 & E0 & _).
      destruct Hloc as [(v & r & E & _)|(r & E & _)]; congruence. }
    assert (Hnod : forall z gz thz st, z <> t -> nth_error (gth g) z = Some gz ->
               get_thread (base g) z = Some thz -> ~ dirty gz thz st).
    { intros z gz thz st Hz A B D. apply Hz. eapply Huniq; eauto. eapply dirty_insec; eauto. }
    destruct Hloc as [(v & r & Hpr & ->)|(r & Hpr & ->)].
    + (* put *)
      specialize (Hput Hp _ _ Hpr). rewrite Hpr in Hmb. cbn in Hmb.
      destruct r as [|[st|st| | |x|] r']; try discriminate.
      apply andb_prop in Hmb. destruct Hmb as [E1 Hmb]. apply Z.eqb_eq in E1. subst st.
      assert (Hs : slot g = None) by (destruct Hcoh as [[_ C]|[C _]]; [exact C|congruence]).
      split; cbn [gth base set_gth do_put slot produced consumed uflow oflow].
      * intros z gz A. destruct (Nat.eq_dec z t) as [->|Hz].
        -- rewrite (nth_error_upd_same _ _ _ _ Hgt) in A. inv A. cbn. exact Hmb.
        -- rewrite nth_error_upd_other in A by exact Hz. eapply (x_mb _ X); eauto.
      * rewrite Hs. cbn. destruct (x_flow _ X) as [A B]. rewrite B. auto.
      * pose proof (x_perm _ X) as P. unfold slot_list in *. rewrite Hs in P. cbn in *. constructor. exact P.
      * right. exists t, {| prog := AFeMS 1 :: r'; pend := false |}, th, 1.
        split; [apply (nth_error_upd_same _ _ _ _ Hgt)|]. split; [exact Hth|].
        exists r'. auto.
      * intros z gz thz st A B D. destruct (Nat.eq_dec z t) as [->|Hz].
        -- rewrite (nth_error_upd_same _ _ _ _ Hgt) in A. inv A. destruct D as (r0 & E0 & _). cbn in E0. inv E0.
           left. cbn. split; [reflexivity|]. split; [exact Hput|discriminate].
        -- rewrite nth_error_upd_other in A by exact Hz. exfalso. eapply Hnod; eauto.
      * intros z gz thz A B. destruct (Nat.eq_dec z t) as [->|Hz].
        -- rewrite (nth_error_upd_same _ _ _ _ Hgt) in A. inv A. unfold sec_ok. cbn.
           repeat split; intros; discriminate.
        -- rewrite nth_error_upd_other in A by exact Hz. apply (x_sec _ X _ _ _ A B).
    + (* take *)
      specialize (Htake Hp _ Hpr). rewrite Hpr in Hmb. cbn in Hmb.
      destruct r as [|[st|st| | |x|] r']; try discriminate.
      apply andb_prop in Hmb. destruct Hmb as [E1 Hmb]. apply Z.eqb_eq in E1. subst st.
      assert (Hs : exists v, slot g = Some v).
      { destruct Hcoh as [[C _]|[_ C]]; [congruence|]. destruct (slot g); [eauto|congruence]. }
      destruct Hs as [v Hs]. unfold do_take. rewrite Hs.
      split; cbn [gth base set_gth slot produced consumed uflow oflow].
      * intros z gz A. destruct (Nat.eq_dec z t) as [->|Hz].
        -- rewrite (nth_error_upd_same _ _ _ _ Hgt) in A. inv A. cbn. exact Hmb.
        -- rewrite nth_error_upd_other in A by exact Hz. eapply (x_mb _ X); eauto.
      * apply (x_flow _ X).
      * pose proof (x_perm _ X) as P. unfold slot_list in *. rewrite Hs in P. cbn in *. exact P.
      * right. exists t, {| prog := AFeMS 0 :: r'; pend := false |}, th, 0.
        split; [apply (nth_error_upd_same _ _ _ _ Hgt)|]. split; [exact Hth|].
        exists r'. auto.
      * intros z gz thz st A B D. destruct (Nat.eq_dec z t) as [->|Hz].
        -- rewrite (nth_error_upd_same _ _ _ _ Hgt) in A. inv A. destruct D as (r0 & E0 & _). cbn in E0. inv E0.
           right. cbn. split; [reflexivity|]. split; [exact Htake|reflexivity].
        -- rewrite nth_error_upd_other in A by exact Hz. exfalso. eapply Hnod; eauto.
      * intros z gz thz A B. destruct (Nat.eq_dec z t) as [->|Hz].
        -- rewrite (nth_error_upd_same _ _ _ _ Hgt) in A. inv A. unfold sec_ok. cbn.
           repeat split; intros; discriminate.
        -- rewrite nth_error_upd_other in A by exact Hz. apply (x_sec _ X _ _ _ A B).
Qed.

(* ------------------------------------------------------------------------------------------ *)
(** * reachable states of the program system *)

Definition greach (pl : list (list action)) : gstate -> Prop := reachable (ginit pl) gstep.

Lemma gstep_base g a g' : gstep g a = Some g' ->
  base g' = base g \/ exists b, fstep (base g) b = Some (base g').
Proof.
  destruct a as [t e]. intros H. destruct (gstep_inv _ _ _ _ H) as (gt & Hgt & Hc). destruct e.
  - destruct Hc as (_ & a & r & o & s' & _ & _ & F & ->). right. exists (t, ECall o). exact F.
  - destruct Hc as (s' & F & ->). right. eauto.
  - destruct Hc as (s' & F & ->). right. eauto.
  - destruct Hc as (_ & s' & F & ->). right. eauto.
  - destruct Hc as (_ & [(v & r & _ & ->)|(r & _ & ->)]); left; [reflexivity|].
    unfold do_take. destruct (slot g); reflexivity.
Qed.

Lemma ginit_base pl g : ginit pl g -> finit (base g).
Proof. intros ->. exists (List.length pl). reflexivity. Qed.

(** disciplined programs: base invariants, ghost relation, token invariant *)
Record DInv (g : gstate) : Prop := { d_inv : Inv (base g); d_rel : GRel g; d_tok : Tok g }.

Definition discs (pl : list (list action)) : Prop := forall p, In p pl -> disc MOut p = true.
Definition mboxes (pl : list (list action)) : Prop := forall p, In p pl -> mbox_out p = true.

Lemma mboxes_discs pl : mboxes pl -> discs pl.
Proof. intros H p Hin. apply mbox_out_disc. apply H. exact Hin. Qed.

Lemma DInv_reach pl g : discs pl -> greach pl g -> DInv g.
Proof.
  intros Hd. revert g. apply invariant_rule.
  - intros g Hi. split; [apply Inv_init; eapply ginit_base; eauto|eapply GRel_init; eauto|eapply Tok_init; eauto].
  - intros g a g' [A B C] H. split.
    + destruct (gstep_base _ _ _ H) as [->|(b & F)]; [exact A|eapply Inv_step; eauto].
    + eapply GRel_step; eauto.
    + eapply Tok_step; eauto.
Qed.

Lemma XInv_init pl g : mboxes pl -> ginit pl g -> XInv g.
Proof.
  intros Hm ->.
  assert (Hp : forall t gt, nth_error (map (fun p => {| prog := p; pend := false |}) pl) t = Some gt ->
               mbox_out (prog gt) = true /\ pend gt = false).
  { intros t gt G. apply nth_error_In in G. apply in_map_iff in G. destruct G as (p & <- & Hin).
    cbn. auto. }
  split; cbn.
  - intros t gt G. apply mbox_out_mbp. apply (Hp _ _ G).
  - auto.
  - constructor.
  - left. left. auto.
  - intros t gt th st G _ (r & E & _). destruct (Hp _ _ G) as [A _]. rewrite E in A. discriminate.
  - intros t gt th G _. destruct (Hp _ _ G) as [A B]. unfold sec_ok. rewrite B.
    repeat split; try (intros; discriminate); intros _ * E; rewrite E in A; discriminate.
Qed.

Lemma XInv_reach pl g : mboxes pl -> greach pl g -> XInv g.
Proof.
  intros Hm Hr. pose proof (mboxes_discs _ Hm) as Hd.
  induction Hr as [g Hi|g a g' Hr IH H].
  - eapply XInv_init; eauto.
  - pose proof (DInv_reach _ _ Hd Hr) as [A B C]. eapply XInv_step; eauto.
Qed.

(** conservation: items put so far + puts still to do = all puts of the programs *)
Fixpoint nputs (p : list action) : nat :=
  match p with [] => O | APut _ :: r => S (nputs r) | _ :: r => nputs r end.
Fixpoint ntakes (p : list action) : nat :=
  match p with [] => O | ATake :: r => S (ntakes r) | _ :: r => ntakes r end.
Definition puts_left (g : gstate) : nat := sumf (fun gt => nputs (prog gt)) (gth g).
Definition takes_left (g : gstate) : nat := sumf (fun gt => ntakes (prog gt)) (gth g).
Definition total_puts (pl : list (list action)) : nat := sumf nputs pl.
Definition total_takes (pl : list (list action)) : nat := sumf ntakes pl.

Lemma sumf_map {A B} (f : B -> nat) (h : A -> B) l : sumf f (map h l) = sumf (fun a => f (h a)) l.
Proof. induction l as [|a l IH]; cbn; [reflexivity|]. now rewrite IH. Qed.

Lemma init_counts (f : list action -> nat) pl :
  sumf (fun gt => f (prog gt)) (map (fun p => {| prog := p; pend := false |}) pl) = sumf f pl.
Proof. induction pl as [|p pl IH]; cbn; [reflexivity|]. now rewrite IH. Qed.

Lemma conservation pl g : mboxes pl -> greach pl g ->
  (puts_left g + List.length (produced g) = total_puts pl)%nat /\
  (takes_left g + List.length (consumed g) = total_takes pl)%nat.
Proof.
  intros Hm Hr. pose proof (mboxes_discs _ Hm) as Hd.
  induction Hr as [g Hi|g a g' Hr IH H].
  - rewrite Hi. unfold puts_left, takes_left, total_puts, total_takes. cbn [gth produced consumed List.length]. rewrite !init_counts. lia.
  - pose proof (DInv_reach _ _ Hd Hr) as [A B C].
    assert (X' : XInv g') by (eapply XInv_reach; eauto; eapply reach_step; eauto).
    destruct a as [t e]. destruct (gstep_inv _ _ _ _ H) as (gt & Hgt & Hc).
    assert (Hex : exists th, get_thread (base g) t = Some th).
    { unfold get_thread. destruct (nth_error (thr (base g)) t) eqn:E; [eauto|].
      apply nth_error_None in E. assert (nth_error (gth g) t <> None) by congruence.
      apply nth_error_Some in H0. rewrite (gr_len _ B) in H0. lia. }
    destruct Hex as [th Hth]. destruct (gr_thr _ B _ _ _ Hgt Hth) as [Hg _].
    pose proof (sumf_upd (fun gt => nputs (prog gt)) (gth g) t gt) as Up.
    pose proof (sumf_upd (fun gt => ntakes (prog gt)) (gth g) t gt) as Ut.
    unfold puts_left, takes_left in *. destruct e.
    + destruct Hc as (_ & a & r & o & s' & _ & _ & _ & ->). cbn.
      specialize (Up {| prog := prog gt; pend := true |} Hgt). specialize (Ut {| prog := prog gt; pend := true |} Hgt).
      cbn in Up, Ut. lia.
    + destruct Hc as (s' & _ & ->). exact IH.
    + destruct Hc as (s' & _ & ->). exact IH.
    + destruct Hc as (Hp & s' & _ & ->). cbn.
      specialize (Up {| prog := tl (prog gt); pend := false |} Hgt).
      specialize (Ut {| prog := tl (prog gt); pend := false |} Hgt). cbn in Up, Ut.
      unfold grel in Hg. rewrite Hp in Hg.
      destruct (prog gt) as [|[] q]; try contradiction; cbn in *; lia.
    + destruct Hc as (Hp & [(v & r & Hpr & ->)|(r & Hpr & ->)]).
      * cbn. specialize (Up {| prog := r; pend := false |} Hgt). specialize (Ut {| prog := r; pend := false |} Hgt).
        cbn in Up, Ut. rewrite Hpr in Up, Ut. cbn in Up, Ut. lia.
      * pose proof (x_flow _ X') as [Uf _]. unfold do_take in *. destruct (slot g) as [v|]; cbn in Uf; [|discriminate].
        cbn. specialize (Up {| prog := r; pend := false |} Hgt). specialize (Ut {| prog := r; pend := false |} Hgt).
        cbn in Up, Ut. rewrite Hpr in Up, Ut. cbn in Up, Ut. lia.
Qed.

(* ------------------------------------------------------------------------------------------ *)
(** * the theorems *)

(** no lost wake-up, safety form *)
Theorem no_lost_wakeup pl g st :
  discs pl -> greach pl g -> valid_st st = true ->
  festat (base g) = st -> getq (base g) (QC (Z.to_nat st)) <> [] ->
  exists z, Resp g st z.
Proof. intros Hd Hr Hv Hf Hq. apply (d_tok _ (DInv_reach _ _ Hd Hr) st Hv Hf Hq). Qed.

(** all programs finished: nobody sleeps, every queue is empty, the lock is free *)
Definition all_done (g : gstate) : Prop :=
  forall t gt, nth_error (gth g) t = Some gt -> prog gt = [] /\ pend gt = false.

Theorem done_queues_empty pl g :
  discs pl -> greach pl g -> all_done g ->
  mq (base g) = [] /\ (forall c, nth c (cqs (base g)) [] = []) /\ Z.odd (mword (base g)) = false.
Proof.
  intros Hd Hr Ha. destruct (DInv_reach _ _ Hd Hr) as [I GR _].
  assert (Hidle : forall z th, get_thread (base g) z = Some th -> main th = Idle /\ own th = false).
  { intros z th G. destruct (ghost_exists _ _ _ GR G) as [gz Hgz].
    destruct (Ha _ _ Hgz) as [P B]. destruct (gr_thr _ GR _ _ _ Hgz G) as [Hg _].
    unfold grel in Hg. rewrite B, P in Hg. exact Hg. }
  assert (Hnos : forall z, SUSP (base g) z = O).
  { intros z. unfold SUSP. destruct (get_thread (base g) z) as [th|] eqn:G; [|reflexivity].
    destruct (Hidle _ _ G) as [M _]. rewrite M. reflexivity. }
  assert (Hocc : forall z, occ (base g) z = O).
  { intros z. pose proof (i2_sl _ (inv_2 _ I) z) as E. rewrite Hnos in E. lia. }
  split; [|split].
  - destruct (mq (base g)) as [|x r] eqn:E; [reflexivity|]. exfalso.
    specialize (Hocc x). unfold occ in Hocc. rewrite E in Hocc. unfold qcount in Hocc. cbn in Hocc.
    rewrite Nat.eqb_refl in Hocc. cbn in Hocc. lia.
  - intros c. destruct (nth c (cqs (base g)) []) as [|x r] eqn:E; [reflexivity|]. exfalso.
    assert (Hin : In x (nth c (cqs (base g)) [])) by (rewrite E; left; reflexivity).
    apply in_cq_count in Hin. specialize (Hocc x). unfold occ in Hocc. lia.
  - destruct (Z.odd (mword (base g))) eqn:E; [|reflexivity]. exfalso.
    destruct (i1_odd _ (inv_1 _ I) E) as (u & thu & G & O). destruct (Hidle _ _ G). congruence.
Qed.

(** the exchange: safety at every reachable state *)
Theorem exchange_safe pl g :
  mboxes pl -> greach pl g ->
  uflow g = false /\ oflow g = false /\
  Permutation (produced g) (slot_list g ++ consumed g) /\
  (forall v, (count_occ Z.eq_dec (consumed g) v <= count_occ Z.eq_dec (produced g) v)%nat) /\
  (List.length (produced g) = List.length (consumed g) + List.length (slot_list g))%nat /\
  (List.length (slot_list g) <= 1)%nat /\
  (puts_left g + List.length (produced g) = total_puts pl)%nat /\
  (takes_left g + List.length (consumed g) = total_takes pl)%nat.
Proof.
  intros Hm Hr. pose proof (XInv_reach _ _ Hm Hr) as X. destruct (conservation _ _ Hm Hr) as [C1 C2].
  destruct (x_flow _ X) as [F1 F2]. pose proof (x_perm _ X) as P.
  repeat split; auto.
  - intros v. rewrite (Permutation_count_occ Z.eq_dec) in P. rewrite (P v), count_occ_app. lia.
  - apply Permutation_length in P. rewrite P, app_length. lia.
  - unfold slot_list. destruct (slot g); cbn; lia.
Qed.

(** slot and status agree, except between a participant's local action and its status write *)
Theorem exchange_status pl g :
  mboxes pl -> greach pl g ->
  coh g \/ exists t gt th st, nth_error (gth g) t = Some gt /\ get_thread (base g) t = Some th /\
                              dirty gt th st /\ anti g st /\ holds (base g) t = true.
Proof.
  intros Hm Hr. pose proof (XInv_reach _ _ Hm Hr) as X.
  destruct (DInv_reach _ _ (mboxes_discs _ Hm) Hr) as [I GR _].
  destruct (x_coh _ X) as [C|(t & gt & th & st & A & B & D)]; [left; exact C|right].
  exists t, gt, th, st. repeat split; auto.
  - eapply (x_dirty _ X); eauto.
  - apply holds_get. exists th. split; [exact B|]. destruct (gr_thr _ GR _ _ _ A B) as [Hg _].
    eapply insec_own; eauto; [apply (i1_thr _ (inv_1 _ I) _ _ B)|eapply dirty_insec; eauto].
Qed.

(** every participant done, as many takes as puts: consumed = produced as multisets *)
Theorem exchange_complete pl g :
  mboxes pl -> greach pl g -> all_done g -> total_puts pl = total_takes pl ->
  Permutation (produced g) (consumed g) /\ slot g = None /\ festat (base g) = 0.
Proof.
  intros Hm Hr Ha Ht. destruct (exchange_safe _ _ Hm Hr) as (_ & _ & P & _ & L & _ & C1 & C2).
  assert (Z1 : puts_left g = O /\ takes_left g = O).
  { unfold puts_left, takes_left. clear -Ha. revert Ha. unfold all_done.
    generalize (gth g). intros l H. induction l as [|a l IH]; cbn; [auto|].
    destruct (H O a eq_refl) as [E _]. rewrite E. cbn. apply IH. intros t gt G. apply (H (S t) gt G). }
  destruct Z1 as [Z1 Z2].
  assert (Hs : slot g = None).
  { unfold slot_list in L. destruct (slot g); [cbn in L; lia|reflexivity]. }
  unfold slot_list in P. rewrite Hs in P. cbn in P. split; [exact P|]. split; [exact Hs|].
  destruct (exchange_status _ _ Hm Hr) as [[[A _]|[_ A]]|(t & gt & th & st & A & _ & (r & E & _) & _)].
  - exact A.
  - congruence.
  - destruct (Ha _ _ A) as [E0 _]. congruence.
Qed.

(* ------------------------------------------------------------------------------------------ *)
(** * a deterministic scheduler, used only to exhibit concrete reachable states (Examples) *)

Definition gevs : list gev := [GLocal; GRet 0; GTick; GCbTick 0; GCbTick 1; GCall].

Fixpoint first_enabled (g : gstate) (acts : list (nat * gev)) : option gstate :=
  match acts with
  | [] => None
  | a :: r => match gstep g a with Some g' => Some g' | None => first_enabled g r end
  end.

(** all actors, thread [t] of [order] first *)
Definition actors (order : list nat) : list (nat * gev) :=
  flat_map (fun t => map (fun e => (t, e)) gevs) order.

Fixpoint auto_run (fuel : nat) (order : list nat) (g : gstate) : gstate :=
  match fuel with
  | O => g
  | S f => match first_enabled g (actors order) with
           | Some g' => auto_run f order g'
           | None => g
           end
  end.

Lemma first_enabled_reach pl g acts g' : greach pl g -> first_enabled g acts = Some g' -> greach pl g'.
Proof.
  intros Hr. induction acts as [|a r IH]; cbn; [discriminate|].
  destruct (gstep g a) as [g1|] eqn:E; [|exact IH]. intros H. inv H. eapply reach_step; eauto.
Qed.

Lemma auto_run_reach pl fuel order : forall g, greach pl g -> greach pl (auto_run fuel order g).
Proof.
  induction fuel as [|f IH]; intros g Hr; cbn; [exact Hr|].
  destruct (first_enabled g (actors order)) as [g'|] eqn:E; [|exact Hr].
  apply IH. eapply first_enabled_reach; eauto.
Qed.

Definition g0 (pl : list (list action)) : gstate :=
  {| base := init_state (List.length pl) 2;
     gth := map (fun p => {| prog := p; pend := false |}) pl;
     slot := None; produced := []; consumed := []; uflow := false; oflow := false |}.

Lemma g0_reach pl : greach pl (g0 pl).
Proof. apply reach_init. reflexivity. Qed.

(** nothing at all is enabled *)
Definition stuck (g : gstate) (nthreads : nat) : bool :=
  match first_enabled g (actors (seq 0 nthreads)) with Some _ => false | None => true end.

(* ------------------------------------------------------------------------------------------ *)
(** * quiescent states *)

(** nothing is enabled: no call, step, callback step, return or local action of any thread *)
Definition gquiet (g : gstate) : Prop := forall t e, gstep g (t, e) = None.

Lemma lock_tick_enabled s z th :
  get_thread s z = Some th ->
  (exists k, main th = LockRead k) \/ (exists k w, main th = LockCas1 k w) \/
  (exists k w, main th = LockCas2 k w) \/ (exists st, main th = FeRead st) ->
  exists s', fstep s (z, ETick) = Some s'.
Proof.
  intros G H. unfold fstep; cbn [snd step]. unfold tick. rewrite G.
  destruct H as [(k & E)|[(k & w & E)|[(k & w & E)|(st & E)]]]; rewrite E.
  - eauto.
  - destruct (mword s =? w); eauto.
  - destruct (mword s =? w); eauto.
  - destruct (festat s =? st); eauto.
Qed.

Lemma qcount_pos_in l x : (1 <= qcount l x)%nat -> In x l.
Proof.
  unfold qcount. induction l as [|a l IH]; cbn; [lia|]. destruct (Nat.eqb_spec a x) as [->|N]; cbn.
  - auto.
  - intros H. right. apply IH. exact H.
Qed.

Lemma cbtick_enabled s u thu i c :
  Inv s -> get_thread s u = Some thu -> nth_error (cbs thu) i = Some c ->
  (exists q unl, c = CbEnq q unl) \/ (exists nf x, c = CbUnl (UClear nf x)) \/ (exists nf x, c = CbUnl (UPush nf x)) ->
  exists s', fstep s (u, ECbTick i) = Some s'.
Proof.
  intros I G Hc H. unfold fstep; cbn [snd step]. unfold cbtick. rewrite G, Hc.
  destruct H as [(q & unl & ->)|[(nf & x & ->)|(nf & x & ->)]].
  - eauto.
  - cbn [ustep]. rewrite (clear_own_eq _ _ thu) by (gts; exact G).
    rewrite get_same by (gts; congruence). eauto.
  - cbn [ustep]. destruct (hand_suspended s u thu x I G) as (thx & k & Gx & Mx).
    { pose proof (sumf_nth_le (fun c => cb_hand c x) _ _ _ Hc) as L. cbn in L. rewrite Nat.eqb_refl in L.
      unfold th_hand. cbn in L. lia. }
    rewrite (wake_ok _ _ _ _ Gx Mx). rewrite get_set_thread.
    destruct (Nat.eqb_spec x u) as [->|N].
    + rewrite Gx. eauto.
    + rewrite G. eauto.
Qed.

Lemma sumf_pos_nth {A} (f : A -> nat) l : (1 <= sumf f l)%nat -> exists i a, nth_error l i = Some a /\ (1 <= f a)%nat.
Proof.
  induction l as [|c l IH]; cbn; intros H; [lia|].
  destruct (f c) eqn:E.
  - destruct IH as (i & a & Hi & Ha); [lia|]. exists (S i), a. auto.
  - exists O, c. cbn. split; [reflexivity|lia].
Qed.

(** quiescence corollary of no-lost-wake-up: in a state where NOTHING is enabled, if
    status = st and somebody waits on cond[st], then the responsible thread is asleep in the
    MUTEX queue with continuation "test status st" - exactly the situation the mutex's own
    no-lost-wake-up theorem (C04) excludes.  The full/empty layer itself never loses a waiter. *)
Theorem quiescent_waiter_blocked_on_mutex pl g st :
  discs pl -> greach pl g -> gquiet g -> valid_st st = true ->
  festat (base g) = st -> getq (base g) (QC (Z.to_nat st)) <> [] ->
  exists z th, get_thread (base g) z = Some th /\ main th = Susp (ALFe st) /\ In z (mq (base g)).
Proof.
  intros Hd Hr Hq Hv Hf Hw. destruct (DInv_reach _ _ Hd Hr) as [I GR TK].
  destruct (TK st Hv Hf Hw) as (z & gt & th & Hgt & Hth & Hresp).
  destruct (gr_thr _ GR _ _ _ Hgt Hth) as [Hg Hwf].
  (* enabledness of a base step contradicts quiescence *)
  assert (Ntick : forall u s', fstep (base g) (u, ETick) = Some s' -> False).
  { intros u s' F. pose proof (Hq u GTick) as Q. unfold gstep in Q.
    destruct (fstep_thread _ _ _ _ F) as [thu Gu]. destruct (ghost_exists _ _ _ GR Gu) as [gu Hgu].
    rewrite Hgu, F in Q. discriminate. }
  assert (Ncb : forall u i s', fstep (base g) (u, ECbTick i) = Some s' -> False).
  { intros u i s' F. pose proof (Hq u (GCbTick i)) as Q. unfold gstep in Q.
    destruct (fstep_thread _ _ _ _ F) as [thu Gu]. destruct (ghost_exists _ _ _ GR Gu) as [gu Hgu].
    rewrite Hgu, F in Q. discriminate. }
  unfold resp_th in Hresp. destruct Hresp as [[Ho Hs]|[(Hp & (s0 & r & Hpr) & Hm)|[(Hp & Hh)|(Hp & _ & Hm)]]].
  - (* on the way to the test *)
    unfold onway, lock_pc in Ho.
    destruct Ho as [[E|[(w & E)|[(w & E)|E]]]|E];
      try (exfalso; destruct (lock_tick_enabled _ _ _ Hth) as [s' F]; [rewrite E; eauto 8|eapply Ntick; eauto]; fail).
    exists z, th. split; [exact Hth|]. split; [exact E|].
    assert (Hnc : ~ cwaiting (base g) z th) by (apply Hs; rewrite E; reflexivity).
    pose proof (i2_sl _ (inv_2 _ I) z) as SL. unfold SUSP, ENQ in SL. rewrite Hth, E in SL. cbn in SL.
    assert (Ecq : cqcount (base g) z = O).
    { destruct (cqcount (base g) z) eqn:X; [reflexivity|]. exfalso. apply Hnc. left. lia. }
    assert (Een : nenq th = O).
    { destruct (nenq th) eqn:X; [reflexivity|]. exfalso.
      destruct (sumf_pos_nth cb_enq (cbs th)) as (i & c & Hi & Hc); [unfold nenq in X; lia|].
      destruct c as [q unl|u]; [|cbn in Hc; lia].
      destruct (cbtick_enabled _ _ _ _ _ I Hth Hi) as [s' F]; [left; eauto|]. eapply Ncb; eauto. }
    assert (Eh : hands (base g) z = O).
    { destruct (hands (base g) z) eqn:X; [reflexivity|]. exfalso.
      destruct (sumf_pos_nth (fun th => th_hand th z) (thr (base g))) as (u & thu & Gu & Hu);
        [unfold hands in X; lia|].
      change (get_thread (base g) u = Some thu) in Gu. unfold th_hand in Hu.
      destruct (pc_hand (main thu) z) eqn:Y.
      - destruct (sumf_pos_nth (fun c => cb_hand c z) (cbs thu)) as (i & c & Hi & Hc); [lia|].
        destruct c as [q unl|[nf|nf w|nf w|nf|nf x|nf x]]; cbn in Hc; try lia.
        + destruct (cbtick_enabled _ _ _ _ _ I Gu Hi) as [s' F]; [right; left; eauto|]. eapply Ncb; eauto.
        + destruct (cbtick_enabled _ _ _ _ _ I Gu Hi) as [s' F]; [right; right; eauto|]. eapply Ncb; eauto.
      - destruct (mark_never_stuck _ _ _ I Gu) as [s' F]; [|eapply Ntick; eauto].
        unfold fems_pc. pose proof (t1_pc _ (i1_thr _ (inv_1 _ I) _ _ Gu)) as P.
        destruct (main thu) eqn:M; cbn in Y; try discriminate.
        + right; right; right. eauto.
        + unfold fe_pc in P. apply andb_prop in P. destruct P as [_ P]. destruct k; try discriminate.
          right; right; left. eauto. }
    apply qcount_pos_in. unfold occ in SL. rewrite Een in SL. lia.
  - (* wait_and_lock complete, not yet returned: the return is enabled *)
    exfalso. pose proof (Hq z (GRet 0)) as Q. unfold gstep in Q. rewrite Hgt, Hp in Q.
    unfold fstep in Q; cbn [snd step] in Q. unfold ret, ret_ok in Q. rewrite Hth, Hm in Q. cbn in Q. discriminate.
  - (* inside its section: the local action or the mark_and_signal call is enabled *)
    exfalso. unfold grel in Hg. rewrite Hp in Hg. destruct Hg as [Hm Ho]. rewrite Hh in Ho.
    unfold wfp in Hwf. rewrite Hh in Hwf.
    destruct (prog gt) as [|[s1|s1| | |v|] r] eqn:Hpr; try discriminate Hh.
    + pose proof (Hq z GCall) as Q. unfold gstep in Q. rewrite Hgt, Hp, Hpr in Q. cbn [act_op] in Q.
      cbn in Hwf. apply andb_prop in Hwf. destruct Hwf as [V _].
      unfold fstep in Q; cbn [snd fe_op step] in Q. rewrite V in Q. unfold call in Q. rewrite Hth, Hm, Ho in Q. discriminate.
    + pose proof (Hq z GLocal) as Q. unfold gstep in Q. rewrite Hgt, Hp, Hpr in Q. discriminate.
    + pose proof (Hq z GLocal) as Q. unfold gstep in Q. rewrite Hgt, Hp, Hpr in Q. discriminate.
  - (* inside mark_and_signal before its dequeue: the step is enabled *)
    exfalso. destruct (mark_never_stuck _ _ _ I Hth) as [s' F]; [|eapply Ntick; eauto].
    unfold fems_pc. destruct Hm as [(v & E)|(c & E)]; rewrite E; eauto 8.
Qed.

Theorem no_lost_wakeup_explicit pl g st :
  discs pl -> greach pl g -> valid_st st = true ->
  festat (base g) = st -> getq (base g) (QC (Z.to_nat st)) <> [] ->
  exists z gt th, nth_error (gth g) z = Some gt /\ get_thread (base g) z = Some th /\
    ((onway st (main th) /\ (is_susp (main th) = true -> ~ cwaiting (base g) z th)) \/
     (pend gt = true /\ (exists s0 r, prog gt = AFeWL s0 :: r) /\ main th = Done 0) \/
     (pend gt = false /\ head_mode (prog gt) = MFe) \/
     (pend gt = true /\ (exists s0 r, prog gt = AFeMS s0 :: r) /\
      ((exists v, main th = FeWrite v) \/ (exists c, main th = SigDeq c ASUnlock)))).
Proof.
  intros Hd Hr Hv Hf Hq. destruct (no_lost_wakeup pl g st Hd Hr Hv Hf Hq) as (z & gt & th & A & B & C).
  exists z, gt, th. auto.
Qed.
