(** C12 — the ownership ledger of stacks and thread records as an interleaving transition
    system (Lib/Interleave.v interface: [step : state -> actor -> option state], the actor is
    (worker rank, event)).

    Source: src/myth_sched_func.h  myth_create_ex_body (get_new_myth_thread_struct_desc,
    get_new_myth_thread_struct_stack), myth_entry_point_cleanup -> myth_set_context_withcall
    -> myth_entry_point_1/_2 (free_myth_thread_struct_stack, then FREE_READY2 or
    free_myth_thread_struct_desc if detached), myth_join_1 / myth_detach_body
    (free_myth_thread_struct_desc), myth_desc_set_detached; src/myth_worker.h freelist_desc /
    freelist_stack (per worker, unsynchronised).

    Stacks and records are numbered in the order in which they are first obtained from mmap
    ([nstk], [ndesc] = how many exist).  A free list entry is (key, id); for stacks the key
    is (worker, class) - class 0 is env->freelist_stack, class i > 0 is
    g_myth_freelist[worker][i] - for records the key is the worker.  All lists are kept in one
    association list in push order; popping removes the first entry with the key (LIFO per
    list).  A release PUSHES UNCONDITIONALLY, as the code does: nothing in [step] looks at
    who owns what.  The guards of [step] are control flow only (the phase of the thread the
    worker is executing, i.e. where in the code it is).

    Phases of a thread t:
      PNew w    record obtained by worker w, stack not yet (inside myth_create_ex_body)
      PSaved    has a stack; its context is saved in it (not running: in a run queue, blocked,
                or never started)
      PRun w    running on worker w, on its own stack
      PFin w    inside myth_entry_point_cleanup on w (t->lock held), still on its own stack
      PAway w   w has switched away from t; the callback myth_entry_point_1/_2 is about to
                run on the next context's stack
      PFreed w  the callback has released t's stack
      PDone     status = FREE_READY2 published; the record waits to be reaped
      PGone     the record has been released (by join/detach, or by the callback if detached)
    A worker with [w_cur = None] executes on a stack that is not in the ledger (its
    scheduler context, or the process stack of the main thread).

    Epochs (myth_fini followed by myth_init_ex): the environments of the old workers are freed
    together with their free lists (myth_fini_body: myth_free_with_size(g_envs); the per-class
    list arrays are freed by myth_flmalloc_fini_worker) and myth_setup_worker starts every
    worker of the new run with EMPTY lists.  In the model the workers of the new epoch get
    fresh ids [base ..]: [EEpoch nw] appends nw idle workers and sets [base] to the old number
    of workers; a worker id below [base] never acts again, so nothing is ever popped from (or
    pushed to) a list of an earlier epoch - those entries stay where they are, dropped. *)
From Coq Require Import List Bool Arith.
Import ListNotations.

Inductive phase :=
| PNew (w : nat) | PSaved | PRun (w : nat) | PFin (w : nat) | PAway (w : nat) | PFreed (w : nat)
| PDone | PGone.

Record thread := mkT { t_desc : nat; t_stack : nat; t_cls : nat; t_det : bool; t_ph : phase }.

(** [w_cur]: the thread whose stack the worker is on; [w_cb]: the finished thread whose
    callback the worker is executing; [w_new]: the thread it is in the middle of creating *)
Record worker := mkW { w_cur : option nat; w_cb : option nat; w_new : option nat }.

Record state := mkSt {
  ths : list thread;
  wks : list worker;
  fstk : list ((nat * nat) * nat);     (* ((worker, class), stack id), newest first *)
  fdesc : list (nat * nat);            (* (worker, record id), newest first *)
  nstk : nat;
  ndesc : nat;
  base : nat }.                        (* worker ids below [base] belong to earlier epochs: dead *)

Inductive ev :=
| EAllocDesc (det : bool)      (* get_new_myth_thread_struct_desc; det: attr->detachstate *)
| EAllocStack (cls : nat)      (* get_new_myth_thread_struct_stack *)
| ESuspend                     (* the running thread yields/blocks, worker goes to its scheduler *)
| EResume (t : nat)            (* scheduler switches to a saved thread (own queue or stolen) *)
| ESwitch (t : nat)            (* direct switch running thread -> saved thread (create, yield, block) *)
| EFinEnter                    (* myth_entry_point_cleanup: lock taken *)
| ESwitchAway (next : option nat)   (* myth_set_context_withcall(next or scheduler, entry_point_1/2) *)
| ERelStack                    (* free_myth_thread_struct_stack in the callback *)
| EPublish                     (* status = FREE_READY2; unlock *)
| ERelDescFin                  (* detached: unlock; free_myth_thread_struct_desc in the callback *)
| ESetDetached (t : nat)       (* myth_detach_body on an unfinished thread, under t->lock *)
| EReap (t : nat)              (* myth_join_1 / myth_detach_body after FREE_READY2 *)
| EEpoch (nw : nat).           (* myth_fini; myth_init_ex with nw workers *)

Definition owns_stack (p : phase) : bool :=
  match p with PSaved | PRun _ | PFin _ | PAway _ => true | _ => false end.
Definition owns_desc (p : phase) : bool :=
  match p with PGone => false | _ => true end.

Definition phase_eqb (a b : phase) : bool :=
  match a, b with
  | PNew x, PNew y | PRun x, PRun y | PFin x, PFin y | PAway x, PAway y | PFreed x, PFreed y => Nat.eqb x y
  | PSaved, PSaved | PDone, PDone | PGone, PGone => true
  | _, _ => false
  end.

Fixpoint upd {A : Type} (l : list A) (i : nat) (x : A) : list A :=
  match l, i with
  | [], _ => []
  | _ :: r, O => x :: r
  | y :: r, S j => y :: upd r j x
  end.

(** pop the newest entry with the given key *)
Fixpoint pop {K : Type} (eqb : K -> K -> bool) (key : K) (l : list (K * nat)) : option (nat * list (K * nat)) :=
  match l with
  | [] => None
  | (k, x) :: r =>
      if eqb k key then Some (x, r)
      else match pop eqb key r with
           | Some (y, r') => Some (y, (k, x) :: r')
           | None => None
           end
  end.

Definition key2_eqb (a b : nat * nat) : bool := Nat.eqb (fst a) (fst b) && Nat.eqb (snd a) (snd b).

(** from the list if it has an entry, else a fresh one from mmap: (id, list', count') *)
Definition take {K : Type} (eqb : K -> K -> bool) (key : K) (l : list (K * nat)) (n : nat)
  : nat * list (K * nat) * nat :=
  match pop eqb key l with
  | Some (x, r) => (x, r, n)
  | None => (n, l, S n)
  end.

Definition set_ph (th : thread) (p : phase) : thread :=
  mkT (t_desc th) (t_stack th) (t_cls th) (t_det th) p.
Definition set_det (th : thread) : thread :=
  mkT (t_desc th) (t_stack th) (t_cls th) true (t_ph th).

Definition is_none {A : Type} (o : option A) : bool := match o with None => true | Some _ => false end.
(** not inside a callback and not inside a creation *)
Definition quiet (k : worker) : bool := is_none (w_cb k) && is_none (w_new k).

Definition ph_is (st : state) (t : nat) (p : phase) : bool :=
  match nth_error (ths st) t with Some th => phase_eqb (t_ph th) p | None => false end.

(** the worker executes ordinary thread code (or code on an untracked stack) *)
Definition cur_running (st : state) (w : nat) (k : worker) : bool :=
  match w_cur k with None => true | Some p => ph_is st p (PRun w) end.

Definition with_ths (st : state) (l : list thread) (ws : list worker) : state :=
  mkSt l ws (fstk st) (fdesc st) (nstk st) (ndesc st) (base st).

Definition idle_worker : worker := mkW None None None.

Definition step (st : state) (a : nat * ev) : option state :=
  let (w, e) := a in
  match nth_error (wks st) w with
  | None => None
  | Some k =>
    if negb (Nat.leb (base st) w) then None else
    match e with
    | EEpoch n =>
        Some (mkSt (ths st) (wks st ++ repeat idle_worker n) (fstk st) (fdesc st) (nstk st) (ndesc st)
                   (length (wks st)))
    | EAllocDesc det =>
        if quiet k && cur_running st w k then
          let '(d, fd', nd') := take Nat.eqb w (fdesc st) (ndesc st) in
          Some (mkSt (ths st ++ [mkT d 0 0 det (PNew w)])
                     (upd (wks st) w (mkW (w_cur k) None (Some (length (ths st)))))
                     (fstk st) fd' (nstk st) nd' (base st))
        else None
    | EAllocStack c =>
        match w_new k with
        | Some t =>
            match nth_error (ths st) t with
            | Some th =>
                if phase_eqb (t_ph th) (PNew w) then
                  let '(s, fs', ns') := take key2_eqb (w, c) (fstk st) (nstk st) in
                  Some (mkSt (upd (ths st) t (mkT (t_desc th) s c (t_det th) PSaved))
                             (upd (wks st) w (mkW (w_cur k) (w_cb k) None))
                             fs' (fdesc st) ns' (ndesc st) (base st))
                else None
            | None => None
            end
        | None => None
        end
    | ESuspend =>
        match w_cur k with
        | Some p =>
            match nth_error (ths st) p with
            | Some thp =>
                if quiet k && phase_eqb (t_ph thp) (PRun w) then
                  Some (with_ths st (upd (ths st) p (set_ph thp PSaved))
                                 (upd (wks st) w (mkW None None None)))
                else None
            | None => None
            end
        | None => None
        end
    | EResume u =>
        match w_cur k, nth_error (ths st) u with
        | None, Some thu =>
            if quiet k && phase_eqb (t_ph thu) PSaved then
              Some (with_ths st (upd (ths st) u (set_ph thu (PRun w)))
                             (upd (wks st) w (mkW (Some u) None None)))
            else None
        | _, _ => None
        end
    | ESwitch u =>
        match w_cur k with
        | Some p =>
            match nth_error (ths st) p, nth_error (ths st) u with
            | Some thp, Some thu =>
                if quiet k && phase_eqb (t_ph thp) (PRun w) && phase_eqb (t_ph thu) PSaved then
                  Some (with_ths st (upd (upd (ths st) p (set_ph thp PSaved)) u (set_ph thu (PRun w)))
                                 (upd (wks st) w (mkW (Some u) None None)))
                else None
            | _, _ => None
            end
        | None => None
        end
    | EFinEnter =>
        match w_cur k with
        | Some t =>
            match nth_error (ths st) t with
            | Some th =>
                if quiet k && phase_eqb (t_ph th) (PRun w) then
                  Some (with_ths st (upd (ths st) t (set_ph th (PFin w))) (wks st))
                else None
            | None => None
            end
        | None => None
        end
    | ESwitchAway next =>
        match w_cur k with
        | Some t =>
            match nth_error (ths st) t with
            | Some th =>
                if quiet k && phase_eqb (t_ph th) (PFin w) then
                  match next with
                  | None =>
                      Some (with_ths st (upd (ths st) t (set_ph th (PAway w)))
                                     (upd (wks st) w (mkW None (Some t) None)))
                  | Some u =>
                      match nth_error (ths st) u with
                      | Some thu =>
                          if phase_eqb (t_ph thu) PSaved then
                            Some (with_ths st (upd (upd (ths st) t (set_ph th (PAway w))) u (set_ph thu (PRun w)))
                                           (upd (wks st) w (mkW (Some u) (Some t) None)))
                          else None
                      | None => None
                      end
                  end
                else None
            | None => None
            end
        | None => None
        end
    | ERelStack =>
        match w_cb k with
        | Some t =>
            match nth_error (ths st) t with
            | Some th =>
                if phase_eqb (t_ph th) (PAway w) then
                  Some (mkSt (upd (ths st) t (set_ph th (PFreed w))) (wks st)
                             (((w, t_cls th), t_stack th) :: fstk st) (fdesc st) (nstk st) (ndesc st) (base st))
                else None
            | None => None
            end
        | None => None
        end
    | EPublish =>
        match w_cb k with
        | Some t =>
            match nth_error (ths st) t with
            | Some th =>
                if phase_eqb (t_ph th) (PFreed w) && negb (t_det th) then
                  Some (with_ths st (upd (ths st) t (set_ph th PDone))
                                 (upd (wks st) w (mkW (w_cur k) None (w_new k))))
                else None
            | None => None
            end
        | None => None
        end
    | ERelDescFin =>
        match w_cb k with
        | Some t =>
            match nth_error (ths st) t with
            | Some th =>
                if phase_eqb (t_ph th) (PFreed w) && t_det th then
                  Some (mkSt (upd (ths st) t (set_ph th PGone))
                             (upd (wks st) w (mkW (w_cur k) None (w_new k)))
                             (fstk st) ((w, t_desc th) :: fdesc st) (nstk st) (ndesc st) (base st))
                else None
            | None => None
            end
        | None => None
        end
    | ESetDetached t =>
        match nth_error (ths st) t with
        | Some th =>
            if quiet k && cur_running st w k &&
               (phase_eqb (t_ph th) PSaved || match t_ph th with PRun _ => true | _ => false end) then
              Some (with_ths st (upd (ths st) t (set_det th)) (wks st))
            else None
        | None => None
        end
    | EReap t =>
        match nth_error (ths st) t with
        | Some th =>
            if quiet k && cur_running st w k && phase_eqb (t_ph th) PDone then
              Some (mkSt (upd (ths st) t (set_ph th PGone)) (wks st)
                         (fstk st) ((w, t_desc th) :: fdesc st) (nstk st) (ndesc st) (base st))
            else None
        | None => None
        end
    end
  end.

Definition init_state (nw : nat) : state :=
  mkSt [] (repeat idle_worker nw) [] [] 0 0 0.

Definition init (st : state) : Prop := exists nw, st = init_state nw.

(** observations *)
Definition on_stack (st : state) (w : nat) : option nat :=
  match nth_error (wks st) w with
  | Some k => match w_cur k with
              | Some t => match nth_error (ths st) t with Some th => Some (t_stack th) | None => None end
              | None => None
              end
  | None => None
  end.

Fixpoint find_owner (l : list thread) (i : nat) (s : nat) : option nat :=
  match l with
  | [] => None
  | th :: r => if owns_stack (t_ph th) && Nat.eqb (t_stack th) s then Some i else find_owner r (S i) s
  end.
Definition stack_owner (st : state) (s : nat) : option nat := find_owner (ths st) 0 s.

Fixpoint find_desc_owner (l : list thread) (i : nat) (d : nat) : option nat :=
  match l with
  | [] => None
  | th :: r => if owns_desc (t_ph th) && Nat.eqb (t_desc th) d then Some i else find_desc_owner r (S i) d
  end.
Definition desc_owner (st : state) (d : nat) : option nat := find_desc_owner (ths st) 0 d.
