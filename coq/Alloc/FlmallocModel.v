(** C12 — the internal free-list allocator  myth_flmalloc / myth_flfree
    (src/myth_misc_func.h, USE_MYTH_FLMALLOC=1, MYTH_FLMALLOC_TLS=0).

    [g_myth_freelist[rank][idx]] is a LIFO list of blocks of size [2^idx] owned by worker
    [rank].  All the lists are kept here in ONE association list of entries
    (rank, idx, pointer) in push order: popping list (rank, idx) removes the first entry
    with that key, which is exactly the per-list LIFO discipline, for any number of workers.

    [mmap] is an ORACLE: a function of the regions handed out so far and the requested
    length.  What is assumed about it (fresh, disjoint regions) is a hypothesis of the
    theorems (Alloc/FlmallocProofs.v), not part of the model.

    [fl_regs] (the regions obtained from the oracle, newest first) is ghost state: the C
    code does not keep it.  Pointers are mathematical integers (no 2^64 wrap). *)
From Coq Require Import ZArith List Bool.
From MT Require Import Alloc.SizeClassModel.
Import ListNotations.
Local Open Scope Z_scope.

Definition region := (Z * Z)%type.          (* base, length *)
Definition flent := (nat * Z * Z)%type.     (* worker rank, class index, pointer *)

Record flstate := mkFl { fl_lists : list flent; fl_regs : list region }.

Definition fl_init : flstate := mkFl [] [].

(** myth_freelist_pop(&g_myth_freelist[w][i]) *)
Fixpoint fl_pop (w : nat) (i : Z) (l : list flent) : option (Z * list flent) :=
  match l with
  | [] => None
  | (w', i', p) :: r =>
      if (Nat.eqb w' w && Z.eqb i' i)%bool then Some (p, r)
      else match fl_pop w i r with
           | Some (q, r') => Some (q, (w', i', p) :: r')
           | None => None
           end
  end.

(** the carving loop   p += realsize; while (p < p2) { push(p); p += realsize; }
    returns the pointers pushed, in push order; [None] = out of fuel *)
Fixpoint carve (fuel : nat) (p p2 rs : Z) : option (list Z) :=
  match fuel with
  | O => None
  | S f => if p <? p2
           then match carve f (p + rs) p2 rs with
                | Some l => Some (p :: l)
                | None => None
                end
           else Some []
  end.

Definition CARVE_FUEL : nat := 600.   (* PAGE_SIZE / 8 = 512 iterations at most *)

Inductive aresult :=
| AOk (p : Z) (st : flstate)
| AOutOfRange (idx : Z)      (* g_myth_freelist[rank][idx] with idx >= FREE_LIST_NUM *)
| AUndef                     (* __builtin_clz(0) *)
| AOutOfFuel.

Section Oracle.
  Variable mmap : list region -> Z -> Z.

  Definition flmalloc (st : flstate) (w : nat) (size : Z) : aresult :=
    match size_class size with
    | ClassUndef => AUndef
    | ClassOutOfRange i => AOutOfRange i
    | Class i rs =>
        match fl_pop w i (fl_lists st) with
        | Some (p, r) => AOk p (mkFl r (fl_regs st))
        | None =>
            if rs <? PAGE_SIZE then
              let a := mmap (fl_regs st) PAGE_SIZE in
              match carve CARVE_FUEL (a + rs) (a + PAGE_SIZE) rs with
              | Some ps => AOk a (mkFl (rev (map (fun p => (w, i, p)) ps) ++ fl_lists st)
                                       ((a, PAGE_SIZE) :: fl_regs st))
              | None => AOutOfFuel
              end
            else
              let a := mmap (fl_regs st) rs in
              AOk a (mkFl (fl_lists st) ((a, rs) :: fl_regs st))
        end
    end.

  (** myth_flfree(rank, size, ptr): no check of any kind, the block goes to the list that
      the size maps to.  [None]: the index computation is undefined or out of the array. *)
  Definition flfree (st : flstate) (w : nat) (size : Z) (p : Z) : option flstate :=
    match size_class size with
    | Class i _ => Some (mkFl ((w, i, p) :: fl_lists st) (fl_regs st))
    | _ => None
    end.

  (** Histories.  [h_live] is ghost: the blocks handed out and not yet given back, with the
      class they were taken from.  A free is *well-formed* when it gives back a live block
      with a size of the same class (Alloc/StackProofs.v shows that the stack code does);
      [hstep] returns [None] on a history that is not well-formed or leaves the range. *)
  Inductive op := OAlloc (w : nat) (size : Z) | OFree (w : nat) (size : Z) (p : Z).

  Record hstate := mkH { h_fl : flstate; h_live : list (Z * Z) }.   (* pointer, class index *)

  Definition h_init : hstate := mkH fl_init [].

  Fixpoint live_remove (p i : Z) (l : list (Z * Z)) : option (list (Z * Z)) :=
    match l with
    | [] => None
    | (q, j) :: r =>
        if (Z.eqb q p && Z.eqb j i)%bool then Some r
        else match live_remove p i r with
             | Some r' => Some ((q, j) :: r')
             | None => None
             end
    end.

  Definition hstep (h : hstate) (o : op) : option hstate :=
    match o with
    | OAlloc w size =>
        match size_class size, flmalloc (h_fl h) w size with
        | Class i _, AOk p st' => Some (mkH st' ((p, i) :: h_live h))
        | _, _ => None
        end
    | OFree w size p =>
        match size_class size with
        | Class i _ =>
            match live_remove p i (h_live h), flfree (h_fl h) w size p with
            | Some l', Some st' => Some (mkH st' l')
            | _, _ => None
            end
        | _ => None
        end
    end.

  Fixpoint hrun (ops : list op) (h : hstate) : option hstate :=
    match ops with
    | [] => Some h
    | o :: r => match hstep h o with Some h' => hrun r h' | None => None end
    end.
End Oracle.

(** every block the allocator knows about, as (start, length): live ones and the entries of
    all free lists of all workers *)
Definition blk_of_ent (e : flent) : Z * Z := (snd e, 2 ^ (snd (fst e))).
Definition blk_of_live (e : Z * Z) : Z * Z := (fst e, 2 ^ (snd e)).
Definition blocks (h : hstate) : list (Z * Z) :=
  map blk_of_live (h_live h) ++ map blk_of_ent (fl_lists (h_fl h)).
