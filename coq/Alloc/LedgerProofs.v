(** C12 — proofs about the ownership ledger (Alloc/LedgerModel.v): for every number of workers
    and every schedule, every stack and every record is in exactly one place. *)
From Coq Require Import List Bool Arith Lia Permutation.
From MT Require Import Lib.Interleave Alloc.LedgerModel.
Import ListNotations.

(** * lists *)
Lemma upd_length {A} (l : list A) i x : length (upd l i x) = length l.
Proof. revert i; induction l as [|y l IH]; intros [|i]; cbn; auto. Qed.

Lemma nth_error_upd_eq {A} (l : list A) i x : i < length l -> nth_error (upd l i x) i = Some x.
Proof. revert i; induction l as [|y l IH]; intros [|i] H; cbn in *; try lia; auto. apply IH; lia. Qed.

Lemma nth_error_upd_neq {A} (l : list A) i j x : i <> j -> nth_error (upd l i x) j = nth_error l j.
Proof.
  revert i j; induction l as [|y l IH]; intros [|i] [|j] H; cbn; auto; try congruence.
Qed.

Lemma upd_same {A} (l : list A) i x : nth_error l i = Some x -> upd l i x = l.
Proof.
  revert i; induction l as [|y l IH]; intros [|i] H; cbn in *; try discriminate.
  - congruence.
  - f_equal. apply IH. exact H.
Qed.

Lemma nth_error_lt {A} (l : list A) i x : nth_error l i = Some x -> i < length l.
Proof. intros H. apply nth_error_Some. congruence. Qed.

Lemma phase_eqb_eq a b : phase_eqb a b = true -> a = b.
Proof.
  destruct a, b; cbn; intros H; try discriminate; try reflexivity;
    apply Nat.eqb_eq in H; subst; reflexivity.
Qed.

(** * selecting the resources owned by threads *)
Definition sel (P : thread -> bool) (f : thread -> nat) (l : list thread) : list nat :=
  map f (filter P l).
Definition opt (P : thread -> bool) (f : thread -> nat) (x : thread) : list nat :=
  if P x then [f x] else [].

Lemma sel_cons P f x l : sel P f (x :: l) = opt P f x ++ sel P f l.
Proof. unfold sel, opt. cbn [filter]. destruct (P x); reflexivity. Qed.

Lemma sel_app P f l1 l2 : sel P f (l1 ++ l2) = sel P f l1 ++ sel P f l2.
Proof. unfold sel. rewrite filter_app, map_app. reflexivity. Qed.

Lemma sel_upd_perm P f : forall l t th th', nth_error l t = Some th ->
  Permutation (opt P f th ++ sel P f (upd l t th')) (opt P f th' ++ sel P f l).
Proof.
  induction l as [|y l IH]; intros [|t] th th' H; cbn [nth_error] in H; try discriminate.
  - injection H as ->. cbn [upd]. rewrite !sel_cons. apply Permutation_app_swap_app.
  - cbn [upd]. rewrite !sel_cons.
    eapply perm_trans; [apply Permutation_app_swap_app|].
    eapply perm_trans; [|apply Permutation_app_swap_app].
    apply Permutation_app_head. apply IH. exact H.
Qed.

Lemma sel_keep P f l t th th' : nth_error l t = Some th -> opt P f th = opt P f th' ->
  Permutation (sel P f (upd l t th')) (sel P f l).
Proof.
  intros H E. pose proof (sel_upd_perm P f l t th th' H) as HP. rewrite E in HP.
  eapply Permutation_app_inv_l. exact HP.
Qed.

Lemma sel_in P f l x : In x (sel P f l) <-> exists t th, nth_error l t = Some th /\ P th = true /\ f th = x.
Proof.
  unfold sel. rewrite in_map_iff. split.
  - intros (th & Hf & Hin). apply filter_In in Hin. destruct Hin as (Hin & HP).
    apply In_nth_error in Hin. destruct Hin as (t & Ht). exists t, th. auto.
  - intros (t & th & Ht & HP & Hf). exists th. split; [exact Hf|].
    apply filter_In. split; [eapply nth_error_In; exact Ht|exact HP].
Qed.

(** two different positions selected -> two occurrences *)
Lemma sel_nodup_inj P f : forall l, NoDup (sel P f l) ->
  forall i j a b, nth_error l i = Some a -> nth_error l j = Some b ->
  P a = true -> P b = true -> f a = f b -> i = j.
Proof.
  induction l as [|y l IH]; intros ND i j a b Hi Hj Pa Pb E; [destruct i; discriminate|].
  rewrite sel_cons in ND. unfold opt in ND.
  destruct i as [|i], j as [|j]; cbn [nth_error] in *.
  - reflexivity.
  - injection Hi as ->. rewrite Pa in ND. cbn in ND. inversion ND as [|? ? Hnin _]; subst.
    exfalso. apply Hnin. rewrite E. apply sel_in. eauto.
  - injection Hj as ->. rewrite Pb in ND. cbn in ND. inversion ND as [|? ? Hnin _]; subst.
    exfalso. apply Hnin. rewrite <- E. apply sel_in. eauto.
  - f_equal. eapply IH; eauto. destruct (P y); [cbn in ND; inversion ND; assumption|exact ND].
Qed.

(** * free lists *)
Lemma pop_perm {K} (eqb : K -> K -> bool) key : forall l x r,
  pop eqb key l = Some (x, r) -> Permutation (map snd l) (x :: map snd r).
Proof.
  induction l as [|[k y] l IH]; intros x r H; cbn [pop] in H; [discriminate|].
  destruct (eqb k key).
  - injection H as -> ->. apply Permutation_refl.
  - destruct (pop eqb key l) as [[z r']|] eqn:E; [|discriminate].
    injection H as -> <-. cbn [map snd]. eapply perm_trans; [apply perm_skip; apply IH; reflexivity|apply perm_swap].
Qed.

(** what a pop does to the association list: removes one entry with the key, keeps the rest
    in order *)
Lemma pop_split {K} (eqb : K -> K -> bool) key : forall l x r,
  pop eqb key l = Some (x, r) ->
  exists l1 k l2, l = l1 ++ (k, x) :: l2 /\ r = l1 ++ l2 /\ eqb k key = true.
Proof.
  induction l as [|[k y] l IH]; intros x r H; cbn [pop] in H; [discriminate|].
  destruct (eqb k key) eqn:Ek.
  - injection H as -> ->. exists [], k, r. auto.
  - destruct (pop eqb key l) as [[z r']|] eqn:E; [|discriminate].
    injection H as -> <-. destruct (IH _ _ eq_refl) as (l1 & k' & l2 & -> & -> & Hk).
    exists ((k, y) :: l1), k', l2. auto.
Qed.

Lemma take_perm {K} (eqb : K -> K -> bool) key l n X x l' n' :
  take eqb key l n = (x, l', n') ->
  Permutation (X ++ map snd l) (seq 0 n) ->
  Permutation (x :: X ++ map snd l') (seq 0 n').
Proof.
  unfold take. intros H HP. destruct (pop eqb key l) as [[y r]|] eqn:E.
  - injection H as -> -> ->. apply pop_perm in E.
    eapply perm_trans; [|exact HP].
    eapply perm_trans; [apply Permutation_middle|]. apply Permutation_app_head. apply Permutation_sym. exact E.
  - injection H as <- <- <-. rewrite seq_S. cbn [plus].
    eapply perm_trans; [apply Permutation_cons_append|]. apply Permutation_app_tail. exact HP.
Qed.

Lemma lose_push (s : nat) A A' M S :
  Permutation (s :: A') A -> Permutation (A ++ M) S -> Permutation (A' ++ s :: M) S.
Proof.
  intros H1 H2. eapply perm_trans; [apply Permutation_sym, Permutation_middle|].
  eapply perm_trans; [|exact H2]. apply (Permutation_app_tail M) in H1. exact H1.
Qed.

(** * the invariant *)
Definition Ps (th : thread) : bool := owns_stack (t_ph th).
Definition Pd (th : thread) : bool := owns_desc (t_ph th).
Definition stk_owned (st : state) : list nat := sel Ps t_stack (ths st).
Definition desc_owned (st : state) : list nat := sel Pd t_desc (ths st).

Definition cur_ok_l (tl : list thread) (wl : list worker) : Prop :=
  forall w k t, nth_error wl w = Some k -> w_cur k = Some t ->
  exists th, nth_error tl t = Some th /\ (t_ph th = PRun w \/ t_ph th = PFin w).

(** every stack (record) that exists is owned by exactly one thread or sits exactly once in
    exactly one free list - never both, never twice *)
Definition stacks_exactly_once (st : state) : Prop :=
  Permutation (stk_owned st ++ map snd (fstk st)) (seq 0 (nstk st)).
Definition descs_exactly_once (st : state) : Prop :=
  Permutation (desc_owned st ++ map snd (fdesc st)) (seq 0 (ndesc st)).

Definition Inv (st : state) : Prop :=
  stacks_exactly_once st /\ descs_exactly_once st /\ cur_ok_l (ths st) (wks st).

Definition running (p : phase) : Prop := exists w, p = PRun w \/ p = PFin w.
Definition foreign (w : nat) (p : phase) : Prop := exists w2, w2 <> w /\ (p = PRun w2 \/ p = PFin w2).

(** [l'] still has every entry of [l] whose phase satisfies [Q] *)
Definition keeps (Q : phase -> Prop) (l l' : list thread) : Prop :=
  forall t th, nth_error l t = Some th -> Q (t_ph th) -> nth_error l' t = Some th.

Lemma keeps_refl Q l : keeps Q l l.
Proof. intros t th H _. exact H. Qed.

Lemma keeps_upd Q l l' i thi x : keeps Q l l' -> nth_error l i = Some thi -> ~ Q (t_ph thi) ->
  keeps Q l (upd l' i x).
Proof.
  intros HK Hi HQ t th Ht Hq. destruct (Nat.eq_dec i t) as [->|Hne].
  - rewrite Hi in Ht. injection Ht as <-. contradiction.
  - rewrite nth_error_upd_neq by exact Hne. apply HK; assumption.
Qed.

Lemma keeps_app Q l x : keeps Q l (l ++ [x]).
Proof. intros t th H _. rewrite nth_error_app1; [exact H|eapply nth_error_lt; exact H]. Qed.

Lemma foreign_running w p : foreign w p -> running p.
Proof. intros (w2 & _ & H). exists w2. exact H. Qed.

Lemma keeps_weaken (Q Q' : phase -> Prop) l l' : (forall p, Q' p -> Q p) -> keeps Q l l' -> keeps Q' l l'.
Proof. intros HQ HK t th Ht Hq. apply HK; auto. Qed.

(** the actor's worker record is replaced and its current thread re-established *)
Lemma cur_ok_A tl wl tl' w k' :
  cur_ok_l tl wl ->
  (forall t, w_cur k' = Some t -> exists th, nth_error tl' t = Some th /\ (t_ph th = PRun w \/ t_ph th = PFin w)) ->
  keeps (foreign w) tl tl' ->
  cur_ok_l tl' (upd wl w k').
Proof.
  intros Hok Hact HK w2 k2 t2 Hn Hc. destruct (Nat.eq_dec w w2) as [<-|Hne].
  - assert (Hlt : w < length wl).
    { destruct (lt_dec w (length wl)) as [Hl|Hl]; [exact Hl|exfalso].
      assert (nth_error (upd wl w k') w = None) by (apply nth_error_None; rewrite upd_length; lia).
      congruence. }
    rewrite nth_error_upd_eq in Hn by exact Hlt. injection Hn as <-. apply Hact. exact Hc.
  - rewrite nth_error_upd_neq in Hn by exact Hne.
    destruct (Hok w2 k2 t2 Hn Hc) as (th & Ht & Hph). exists th. split; [|exact Hph].
    apply HK; [exact Ht|]. exists w2. split; [congruence|exact Hph].
Qed.

(** no running thread is touched and the actor keeps its current thread *)
Lemma cur_ok_B tl wl tl' w k k' :
  cur_ok_l tl wl -> nth_error wl w = Some k -> w_cur k' = w_cur k ->
  keeps running tl tl' ->
  cur_ok_l tl' (upd wl w k').
Proof.
  intros Hok Hk Hcur HK. apply (cur_ok_A tl wl tl' w k' Hok).
  - intros t Ht. rewrite Hcur in Ht. destruct (Hok w k t Hk Ht) as (th & Hth & Hph).
    exists th. split; [|exact Hph]. apply HK; [exact Hth|]. exists w. exact Hph.
  - eapply keeps_weaken; [apply foreign_running|exact HK].
Qed.

Lemma cur_ok_B' tl wl tl' : cur_ok_l tl wl -> keeps running tl tl' -> cur_ok_l tl' wl.
Proof.
  intros Hok HK w k t Hn Hc. destruct (Hok w k t Hn Hc) as (th & Hth & Hph).
  exists th. split; [|exact Hph]. apply HK; [exact Hth|]. exists w. exact Hph.
Qed.

Lemma not_running_of p q : p = q -> (forall w, q <> PRun w) -> (forall w, q <> PFin w) -> ~ running p.
Proof. intros -> H1 H2 (w & [H|H]); [eapply H1|eapply H2]; exact H. Qed.

Lemma not_foreign_of w p q : p = q -> (forall w2, w2 <> w -> q <> PRun w2) -> (forall w2, w2 <> w -> q <> PFin w2) ->
  ~ foreign w p.
Proof. intros -> H1 H2 (w2 & Hne & [H|H]); [eapply H1|eapply H2]; eauto. Qed.

Ltac nr := eapply not_running_of; [eassumption|intros ?; discriminate|intros ?; discriminate].
Ltac nf := eapply not_foreign_of; [eassumption
                                  |intros ? ? ?; try discriminate; congruence
                                  |intros ? ? ?; try discriminate; congruence].

(** phase-only updates keep both ownership selections *)
Lemma opt_set_ph_s th p : owns_stack (t_ph th) = owns_stack p -> opt Ps t_stack th = opt Ps t_stack (set_ph th p).
Proof. unfold opt, Ps. cbn [set_ph t_ph t_stack]. intros ->. reflexivity. Qed.
Lemma opt_set_ph_d th p : owns_desc (t_ph th) = owns_desc p -> opt Pd t_desc th = opt Pd t_desc (set_ph th p).
Proof. unfold opt, Pd. cbn [set_ph t_ph t_desc]. intros ->. reflexivity. Qed.

Lemma distinct_idx (l : list thread) i j a b : nth_error l i = Some a -> nth_error l j = Some b -> t_ph a <> t_ph b -> i <> j.
Proof. intros Hi Hj Hne ->. rewrite Hi in Hj. injection Hj as ->. contradiction. Qed.

Lemma Inv_init nw : Inv (init_state nw).
Proof.
  split; [apply Permutation_refl|]. split; [apply Permutation_refl|].
  intros w k t Hn Hc. cbn [init_state wks] in Hn. apply nth_error_In in Hn. apply repeat_spec in Hn.
  subst k. discriminate.
Qed.

(** one update of a thread's phase that changes neither ownership *)
Lemma Inv_stk_keep st tl' :
  stacks_exactly_once st -> Permutation (sel Ps t_stack tl') (stk_owned st) ->
  forall wl', stacks_exactly_once (with_ths st tl' wl').
Proof.
  unfold stacks_exactly_once, stk_owned. intros H HP wl'. cbn [with_ths ths fstk nstk].
  eapply perm_trans; [apply Permutation_app_tail; exact HP|exact H].
Qed.
Lemma Inv_desc_keep st tl' :
  descs_exactly_once st -> Permutation (sel Pd t_desc tl') (desc_owned st) ->
  forall wl', descs_exactly_once (with_ths st tl' wl').
Proof.
  unfold descs_exactly_once, desc_owned. intros H HP wl'. cbn [with_ths ths fdesc ndesc].
  eapply perm_trans; [apply Permutation_app_tail; exact HP|exact H].
Qed.

Ltac ph H := apply phase_eqb_eq in H.

Lemma step_inv st a st' : Inv st -> step st a = Some st' -> Inv st'.
Proof.
  intros (HS & HD & HC) H. destruct a as [w e]. unfold step in H.
  destruct (nth_error (wks st) w) as [k|] eqn:Ek; [|discriminate].
  destruct (negb (Nat.leb (base st) w)) eqn:Eb; [discriminate|].
  destruct e as [det|c| |u|u| |next| | | |t|t|n].
  - (* EAllocDesc *)
    destruct (quiet k && cur_running st w k) eqn:Eq; [|discriminate].
    destruct (take Nat.eqb w (fdesc st) (ndesc st)) as [[d fd'] nd'] eqn:Et.
    injection H as <-. split; [|split].
    + unfold stacks_exactly_once, stk_owned. cbn [ths fstk nstk]. rewrite sel_app.
      cbn. rewrite app_nil_r. exact HS.
    + unfold descs_exactly_once, desc_owned. cbn [ths fdesc ndesc]. rewrite sel_app.
      change (sel Pd t_desc [mkT d 0 0 det (PNew w)]) with [d].
      pose proof (take_perm _ _ _ _ _ _ _ _ Et HD) as HP.
      eapply perm_trans; [|exact HP]. rewrite <- app_assoc. cbn [app].
      apply Permutation_sym, Permutation_middle.
    + cbn [ths wks]. eapply cur_ok_B; [exact HC|exact Ek|reflexivity|apply keeps_app].
  - (* EAllocStack *)
    destruct (w_new k) as [t|] eqn:En; [|discriminate].
    destruct (nth_error (ths st) t) as [th|] eqn:Et; [|discriminate].
    destruct (phase_eqb (t_ph th) (PNew w)) eqn:Ep; [|discriminate]. ph Ep.
    destruct (take key2_eqb (w, c) (fstk st) (nstk st)) as [[s fs'] ns'] eqn:Etk.
    injection H as <-. split; [|split].
    + unfold stacks_exactly_once, stk_owned. cbn [ths fstk nstk].
      pose proof (sel_upd_perm Ps t_stack _ _ _ (mkT (t_desc th) s c (t_det th) PSaved) Et) as HP.
      unfold opt, Ps in HP. rewrite Ep in HP. cbn in HP.
      pose proof (take_perm _ _ _ _ _ _ _ _ Etk HS) as HP2.
      eapply perm_trans; [apply Permutation_app_tail; exact HP|exact HP2].
    + unfold descs_exactly_once, desc_owned. cbn [ths fdesc ndesc].
      eapply perm_trans; [apply Permutation_app_tail|exact HD].
      eapply sel_keep; [exact Et|]. unfold opt, Pd. cbn. rewrite Ep. reflexivity.
    + cbn [ths wks]. eapply cur_ok_B; [exact HC|exact Ek|reflexivity|].
      eapply keeps_upd; [apply keeps_refl|exact Et|nr].
  - (* ESuspend *)
    destruct (w_cur k) as [p|] eqn:Ec; [|discriminate].
    destruct (nth_error (ths st) p) as [thp|] eqn:Etp; [|discriminate].
    destruct (quiet k && phase_eqb (t_ph thp) (PRun w)) eqn:Eq; [|discriminate].
    apply andb_true_iff in Eq. destruct Eq as (_ & Ep). ph Ep.
    injection H as <-. split; [|split].
    + apply Inv_stk_keep; [exact HS|]. eapply sel_keep; [exact Etp|apply opt_set_ph_s; rewrite Ep; reflexivity].
    + apply Inv_desc_keep; [exact HD|]. eapply sel_keep; [exact Etp|apply opt_set_ph_d; rewrite Ep; reflexivity].
    + cbn [with_ths ths wks]. eapply cur_ok_A; [exact HC|intros ? ?; discriminate|].
      eapply keeps_upd; [apply keeps_refl|exact Etp|nf].
  - (* EResume *)
    destruct (w_cur k) as [p|] eqn:Ec; [discriminate|].
    destruct (nth_error (ths st) u) as [thu|] eqn:Etu; [|discriminate].
    destruct (quiet k && phase_eqb (t_ph thu) PSaved) eqn:Eq; [|discriminate].
    apply andb_true_iff in Eq. destruct Eq as (_ & Ep). ph Ep.
    injection H as <-. split; [|split].
    + apply Inv_stk_keep; [exact HS|]. eapply sel_keep; [exact Etu|apply opt_set_ph_s; rewrite Ep; reflexivity].
    + apply Inv_desc_keep; [exact HD|]. eapply sel_keep; [exact Etu|apply opt_set_ph_d; rewrite Ep; reflexivity].
    + cbn [with_ths ths wks]. eapply cur_ok_A; [exact HC| |].
      * cbn [w_cur]. intros t Ht. injection Ht as <-. exists (set_ph thu (PRun w)).
        split; [apply nth_error_upd_eq; eapply nth_error_lt; exact Etu|left; reflexivity].
      * eapply keeps_upd; [apply keeps_refl|exact Etu|nf].
  - (* ESwitch *)
    destruct (w_cur k) as [p|] eqn:Ec; [|discriminate].
    destruct (nth_error (ths st) p) as [thp|] eqn:Etp; [|discriminate].
    destruct (nth_error (ths st) u) as [thu|] eqn:Etu; [|discriminate].
    destruct (quiet k && phase_eqb (t_ph thp) (PRun w) && phase_eqb (t_ph thu) PSaved) eqn:Eq; [|discriminate].
    apply andb_true_iff in Eq. destruct Eq as (Eq & Epu). apply andb_true_iff in Eq. destruct Eq as (_ & Epp).
    ph Epu. ph Epp.
    assert (Hne : p <> u) by (eapply distinct_idx; [exact Etp|exact Etu|congruence]).
    assert (Etu' : nth_error (upd (ths st) p (set_ph thp PSaved)) u = Some thu)
      by (rewrite nth_error_upd_neq by exact Hne; exact Etu).
    injection H as <-. split; [|split].
    + apply Inv_stk_keep; [exact HS|].
      eapply perm_trans; [eapply sel_keep; [exact Etu'|apply opt_set_ph_s; rewrite Epu; reflexivity]|].
      eapply sel_keep; [exact Etp|apply opt_set_ph_s; rewrite Epp; reflexivity].
    + apply Inv_desc_keep; [exact HD|].
      eapply perm_trans; [eapply sel_keep; [exact Etu'|apply opt_set_ph_d; rewrite Epu; reflexivity]|].
      eapply sel_keep; [exact Etp|apply opt_set_ph_d; rewrite Epp; reflexivity].
    + cbn [with_ths ths wks]. eapply cur_ok_A; [exact HC| |].
      * cbn [w_cur]. intros t Ht. injection Ht as <-. exists (set_ph thu (PRun w)).
        split; [apply nth_error_upd_eq; rewrite upd_length; eapply nth_error_lt; exact Etu|left; reflexivity].
      * eapply keeps_upd; [eapply keeps_upd; [apply keeps_refl|exact Etp|nf]|exact Etu|nf].
  - (* EFinEnter *)
    destruct (w_cur k) as [t|] eqn:Ec; [|discriminate].
    destruct (nth_error (ths st) t) as [th|] eqn:Et; [|discriminate].
    destruct (quiet k && phase_eqb (t_ph th) (PRun w)) eqn:Eq; [|discriminate].
    apply andb_true_iff in Eq. destruct Eq as (_ & Ep). ph Ep.
    injection H as <-. split; [|split].
    + apply Inv_stk_keep; [exact HS|]. eapply sel_keep; [exact Et|apply opt_set_ph_s; rewrite Ep; reflexivity].
    + apply Inv_desc_keep; [exact HD|]. eapply sel_keep; [exact Et|apply opt_set_ph_d; rewrite Ep; reflexivity].
    + cbn [with_ths ths wks]. rewrite <- (upd_same (wks st) w k Ek).
      eapply cur_ok_A; [exact HC| |].
      * rewrite Ec. intros t0 Ht0. injection Ht0 as <-. exists (set_ph th (PFin w)).
        split; [apply nth_error_upd_eq; eapply nth_error_lt; exact Et|right; reflexivity].
      * eapply keeps_upd; [apply keeps_refl|exact Et|nf].
  - (* ESwitchAway *)
    destruct (w_cur k) as [t|] eqn:Ec; [|discriminate].
    destruct (nth_error (ths st) t) as [th|] eqn:Et; [|discriminate].
    destruct (quiet k && phase_eqb (t_ph th) (PFin w)) eqn:Eq; [|discriminate].
    apply andb_true_iff in Eq. destruct Eq as (_ & Ep). ph Ep.
    destruct next as [u|].
    + destruct (nth_error (ths st) u) as [thu|] eqn:Etu; [|discriminate].
      destruct (phase_eqb (t_ph thu) PSaved) eqn:Epu; [|discriminate]. ph Epu.
      assert (Hne : t <> u) by (eapply distinct_idx; [exact Et|exact Etu|congruence]).
      assert (Etu' : nth_error (upd (ths st) t (set_ph th (PAway w))) u = Some thu)
        by (rewrite nth_error_upd_neq by exact Hne; exact Etu).
      injection H as <-. split; [|split].
      * apply Inv_stk_keep; [exact HS|].
        eapply perm_trans; [eapply sel_keep; [exact Etu'|apply opt_set_ph_s; rewrite Epu; reflexivity]|].
        eapply sel_keep; [exact Et|apply opt_set_ph_s; rewrite Ep; reflexivity].
      * apply Inv_desc_keep; [exact HD|].
        eapply perm_trans; [eapply sel_keep; [exact Etu'|apply opt_set_ph_d; rewrite Epu; reflexivity]|].
        eapply sel_keep; [exact Et|apply opt_set_ph_d; rewrite Ep; reflexivity].
      * cbn [with_ths ths wks]. eapply cur_ok_A; [exact HC| |].
        -- cbn [w_cur]. intros t0 Ht0. injection Ht0 as <-. exists (set_ph thu (PRun w)).
           split; [apply nth_error_upd_eq; rewrite upd_length; eapply nth_error_lt; exact Etu|left; reflexivity].
        -- eapply keeps_upd; [eapply keeps_upd; [apply keeps_refl|exact Et|nf]|exact Etu|nf].
    + injection H as <-. split; [|split].
      * apply Inv_stk_keep; [exact HS|]. eapply sel_keep; [exact Et|apply opt_set_ph_s; rewrite Ep; reflexivity].
      * apply Inv_desc_keep; [exact HD|]. eapply sel_keep; [exact Et|apply opt_set_ph_d; rewrite Ep; reflexivity].
      * cbn [with_ths ths wks]. eapply cur_ok_A; [exact HC|intros ? ?; discriminate|].
        eapply keeps_upd; [apply keeps_refl|exact Et|nf].
  - (* ERelStack *)
    destruct (w_cb k) as [t|] eqn:Ecb; [|discriminate].
    destruct (nth_error (ths st) t) as [th|] eqn:Et; [|discriminate].
    destruct (phase_eqb (t_ph th) (PAway w)) eqn:Ep; [|discriminate]. ph Ep.
    injection H as <-. split; [|split].
    + unfold stacks_exactly_once, stk_owned. cbn [ths fstk nstk map snd].
      pose proof (sel_upd_perm Ps t_stack _ _ _ (set_ph th (PFreed w)) Et) as HP.
      unfold opt, Ps in HP. cbn [set_ph t_ph owns_stack] in HP. rewrite Ep in HP. cbn [owns_stack app] in HP.
      eapply lose_push; [exact HP|exact HS].
    + unfold descs_exactly_once, desc_owned. cbn [ths fdesc ndesc].
      eapply perm_trans; [apply Permutation_app_tail|exact HD].
      eapply sel_keep; [exact Et|apply opt_set_ph_d; rewrite Ep; reflexivity].
    + cbn [ths wks]. eapply cur_ok_B'; [exact HC|].
      eapply keeps_upd; [apply keeps_refl|exact Et|nr].
  - (* EPublish *)
    destruct (w_cb k) as [t|] eqn:Ecb; [|discriminate].
    destruct (nth_error (ths st) t) as [th|] eqn:Et; [|discriminate].
    destruct (phase_eqb (t_ph th) (PFreed w) && negb (t_det th)) eqn:Eq; [|discriminate].
    apply andb_true_iff in Eq. destruct Eq as (Ep & _). ph Ep.
    injection H as <-. split; [|split].
    + apply Inv_stk_keep; [exact HS|]. eapply sel_keep; [exact Et|apply opt_set_ph_s; rewrite Ep; reflexivity].
    + apply Inv_desc_keep; [exact HD|]. eapply sel_keep; [exact Et|apply opt_set_ph_d; rewrite Ep; reflexivity].
    + cbn [with_ths ths wks]. eapply cur_ok_B; [exact HC|exact Ek|reflexivity|].
      eapply keeps_upd; [apply keeps_refl|exact Et|nr].
  - (* ERelDescFin *)
    destruct (w_cb k) as [t|] eqn:Ecb; [|discriminate].
    destruct (nth_error (ths st) t) as [th|] eqn:Et; [|discriminate].
    destruct (phase_eqb (t_ph th) (PFreed w) && t_det th) eqn:Eq; [|discriminate].
    apply andb_true_iff in Eq. destruct Eq as (Ep & _). ph Ep.
    injection H as <-. split; [|split].
    + unfold stacks_exactly_once, stk_owned. cbn [ths fstk nstk].
      eapply perm_trans; [apply Permutation_app_tail|exact HS].
      eapply sel_keep; [exact Et|apply opt_set_ph_s; rewrite Ep; reflexivity].
    + unfold descs_exactly_once, desc_owned. cbn [ths fdesc ndesc map snd].
      pose proof (sel_upd_perm Pd t_desc _ _ _ (set_ph th PGone) Et) as HP.
      unfold opt, Pd in HP. cbn [set_ph t_ph owns_desc] in HP. rewrite Ep in HP. cbn [owns_desc app] in HP.
      eapply lose_push; [exact HP|exact HD].
    + cbn [ths wks]. eapply cur_ok_B; [exact HC|exact Ek|reflexivity|].
      eapply keeps_upd; [apply keeps_refl|exact Et|nr].
  - (* ESetDetached *)
    destruct (nth_error (ths st) t) as [th|] eqn:Et; [|discriminate].
    match type of H with (if ?c then _ else _) = _ => destruct c eqn:Eq; [|discriminate] end.
    injection H as <-. split; [|split].
    + apply Inv_stk_keep; [exact HS|]. eapply sel_keep; [exact Et|reflexivity].
    + apply Inv_desc_keep; [exact HD|]. eapply sel_keep; [exact Et|reflexivity].
    + cbn [with_ths ths wks]. intros w2 k2 t2 Hn Hc.
      destruct (HC w2 k2 t2 Hn Hc) as (th2 & Ht2 & Hph).
      destruct (Nat.eq_dec t t2) as [<-|Hne].
      * rewrite Et in Ht2. injection Ht2 as <-. exists (set_det th).
        split; [apply nth_error_upd_eq; eapply nth_error_lt; exact Et|exact Hph].
      * exists th2. rewrite nth_error_upd_neq by exact Hne. auto.
  - (* EReap *)
    destruct (nth_error (ths st) t) as [th|] eqn:Et; [|discriminate].
    destruct (quiet k && cur_running st w k && phase_eqb (t_ph th) PDone) eqn:Eq; [|discriminate].
    apply andb_true_iff in Eq. destruct Eq as (_ & Ep). ph Ep.
    injection H as <-. split; [|split].
    + unfold stacks_exactly_once, stk_owned. cbn [ths fstk nstk].
      eapply perm_trans; [apply Permutation_app_tail|exact HS].
      eapply sel_keep; [exact Et|apply opt_set_ph_s; rewrite Ep; reflexivity].
    + unfold descs_exactly_once, desc_owned. cbn [ths fdesc ndesc map snd].
      pose proof (sel_upd_perm Pd t_desc _ _ _ (set_ph th PGone) Et) as HP.
      unfold opt, Pd in HP. cbn [set_ph t_ph owns_desc] in HP. rewrite Ep in HP. cbn [owns_desc app] in HP.
      eapply lose_push; [exact HP|exact HD].
    + cbn [ths wks]. eapply cur_ok_B'; [exact HC|].
      eapply keeps_upd; [apply keeps_refl|exact Et|nr].
  - (* EEpoch *)
    injection H as <-. split; [exact HS|]. split; [exact HD|]. cbn [ths wks].
    intros w2 k2 t2 Hn Hc. destruct (lt_dec w2 (length (wks st))) as [Hl|Hl].
    + rewrite nth_error_app1 in Hn by exact Hl. eapply HC; eassumption.
    + rewrite nth_error_app2 in Hn by lia. apply nth_error_In in Hn. apply repeat_spec in Hn.
      subst k2. discriminate.
Qed.

Theorem ledger_invariant : forall st, reachable init step st -> Inv st.
Proof.
  apply invariant_rule.
  - intros st (nw & ->). apply Inv_init.
  - intros st a st' HI Hst. eapply step_inv; eassumption.
Qed.

(** * consequences of the invariant *)
Lemma NoDup_app_l {A} (a b : list A) : NoDup (a ++ b) -> NoDup a.
Proof. induction a as [|x a IH]; cbn; intros H; [constructor|]. inversion H; subst. constructor; [rewrite in_app_iff in *; tauto|auto]. Qed.
Lemma NoDup_app_r {A} (a b : list A) : NoDup (a ++ b) -> NoDup b.
Proof. induction a as [|x a IH]; cbn; intros H; [exact H|]. inversion H; subst. auto. Qed.
Lemma NoDup_app_disj {A} (a b : list A) x : NoDup (a ++ b) -> In x a -> ~ In x b.
Proof.
  induction a as [|y a IH]; cbn; intros H Hin; [destruct Hin|]. inversion H as [|? ? Hn Hnd]; subst.
  destruct Hin as [->|Hin]; [rewrite in_app_iff in Hn; tauto|auto].
Qed.

Lemma exactly_once_nodup l m n : Permutation (l ++ m) (seq 0 n) -> NoDup (l ++ m).
Proof. intros H. eapply Permutation_NoDup; [apply Permutation_sym; exact H|apply seq_NoDup]. Qed.

(** a thread that owns its stack: the stack exists, is in no free list of any worker, and no
    other thread owns it *)
Lemma owned_stack_exclusive st : Inv st ->
  forall t th, nth_error (ths st) t = Some th -> owns_stack (t_ph th) = true ->
    t_stack th < nstk st /\
    ~ In (t_stack th) (map snd (fstk st)) /\
    (forall t' th', nth_error (ths st) t' = Some th' -> owns_stack (t_ph th') = true ->
                    t_stack th' = t_stack th -> t' = t).
Proof.
  intros (HS & _ & _) t th Ht Ho. pose proof (exactly_once_nodup _ _ _ HS) as ND.
  assert (Hin : In (t_stack th) (stk_owned st)) by (apply sel_in; exists t, th; auto).
  split; [|split].
  - assert (Hs : In (t_stack th) (seq 0 (nstk st)))
      by (eapply Permutation_in; [exact HS|apply in_or_app; left; exact Hin]).
    apply in_seq in Hs. lia.
  - eapply NoDup_app_disj; [exact ND|exact Hin].
  - intros t' th' Ht' Ho' E. eapply (sel_nodup_inj Ps t_stack (ths st)); [eapply NoDup_app_l; exact ND| | | | |]; eauto.
Qed.

Lemma owned_desc_exclusive st : Inv st ->
  forall t th, nth_error (ths st) t = Some th -> owns_desc (t_ph th) = true ->
    t_desc th < ndesc st /\
    ~ In (t_desc th) (map snd (fdesc st)) /\
    (forall t' th', nth_error (ths st) t' = Some th' -> owns_desc (t_ph th') = true ->
                    t_desc th' = t_desc th -> t' = t).
Proof.
  intros (_ & HD & _) t th Ht Ho. pose proof (exactly_once_nodup _ _ _ HD) as ND.
  assert (Hin : In (t_desc th) (desc_owned st)) by (apply sel_in; exists t, th; auto).
  split; [|split].
  - assert (Hs : In (t_desc th) (seq 0 (ndesc st)))
      by (eapply Permutation_in; [exact HD|apply in_or_app; left; exact Hin]).
    apply in_seq in Hs. lia.
  - eapply NoDup_app_disj; [exact ND|exact Hin].
  - intros t' th' Ht' Ho' E. eapply (sel_nodup_inj Pd t_desc (ths st)); [eapply NoDup_app_l; exact ND| | | | |]; eauto.
Qed.

(** C12_stack_not_reused_while_in_use, state form *)
Theorem stack_in_use_exclusive : forall st, reachable init step st ->
  (* the stack a worker executes on *)
  (forall w x, on_stack st w = Some x ->
     exists t th, nth_error (ths st) t = Some th /\ t_stack th = x /\
       (t_ph th = PRun w \/ t_ph th = PFin w) /\ x < nstk st /\
       ~ In x (map snd (fstk st)) /\
       (forall t' th', nth_error (ths st) t' = Some th' -> owns_stack (t_ph th') = true ->
                       t_stack th' = x -> t' = t)) /\
  (* the stack holding a saved context, or any other stack not yet released by its callback *)
  (forall t th, nth_error (ths st) t = Some th -> owns_stack (t_ph th) = true ->
     t_stack th < nstk st /\ ~ In (t_stack th) (map snd (fstk st)) /\
     (forall t' th', nth_error (ths st) t' = Some th' -> owns_stack (t_ph th') = true ->
                     t_stack th' = t_stack th -> t' = t)).
Proof.
  intros st Hr. pose proof (ledger_invariant st Hr) as HI. split.
  - intros w x Hon. unfold on_stack in Hon.
    destruct (nth_error (wks st) w) as [k|] eqn:Ek; [|discriminate].
    destruct (w_cur k) as [t|] eqn:Ec; [|discriminate].
    destruct (nth_error (ths st) t) as [th|] eqn:Et; [|discriminate].
    injection Hon as <-. destruct HI as (HS & HD & HC).
    destruct (HC w k t Ek Ec) as (th0 & Et0 & Hph). rewrite Et in Et0. injection Et0 as <-.
    assert (Ho : owns_stack (t_ph th) = true) by (destruct Hph as [-> | ->]; reflexivity).
    destruct (owned_stack_exclusive st (conj HS (conj HD HC)) t th Et Ho) as (H1 & H2 & H3).
    exists t, th. repeat split; auto.
  - intros t th Et Ho. apply (owned_stack_exclusive st HI t th Et Ho).
Qed.

(** C12_release_once, state form: no stack and no record is twice in the free lists (of one
    worker or of different workers) *)
Theorem free_lists_nodup : forall st, reachable init step st ->
  NoDup (map snd (fstk st)) /\ NoDup (map snd (fdesc st)).
Proof.
  intros st Hr. destruct (ledger_invariant st Hr) as (HS & HD & _). split.
  - eapply NoDup_app_r. eapply exactly_once_nodup. exact HS.
  - eapply NoDup_app_r. eapply exactly_once_nodup. exact HD.
Qed.

(** the record of a thread that has not been reaped is in no free list and belongs to no
    other unreaped thread *)
Theorem record_until_reaped : forall st, reachable init step st ->
  forall t th, nth_error (ths st) t = Some th -> t_ph th <> PGone ->
    t_desc th < ndesc st /\ ~ In (t_desc th) (map snd (fdesc st)) /\
    (forall t' th', nth_error (ths st) t' = Some th' -> t_ph th' <> PGone ->
                    t_desc th' = t_desc th -> t' = t).
Proof.
  intros st Hr t th Et Hng. pose proof (ledger_invariant st Hr) as HI.
  assert (Ho : owns_desc (t_ph th) = true) by (destruct (t_ph th); try reflexivity; congruence).
  destruct (owned_desc_exclusive st HI t th Et Ho) as (H1 & H2 & H3). repeat split; auto.
  intros t' th' Et' Hng' E. apply (H3 t' th' Et'); [destruct (t_ph th'); try reflexivity; congruence|exact E].
Qed.

(** * what each step does to the free lists *)
Ltac crush_step H :=
  repeat match type of H with
         | None = Some _ => discriminate H
         | context [match ?x with _ => _ end] => destruct x eqn:?
         end.

Definition fstk_delta (st : state) (w : nat) (e : ev) (st' : state) : Prop :=
  match e with
  | ERelStack =>
      exists k t th, nth_error (wks st) w = Some k /\ w_cb k = Some t /\
        nth_error (ths st) t = Some th /\ t_ph th = PAway w /\
        fstk st' = ((w, t_cls th), t_stack th) :: fstk st
  | EAllocStack c =>
      fstk st' = fstk st \/
      exists l1 k x l2, fstk st = l1 ++ (k, x) :: l2 /\ fstk st' = l1 ++ l2 /\ fst k = w
  | _ => fstk st' = fstk st
  end.

Lemma key2_eqb_fst k w c : key2_eqb k (w, c) = true -> fst k = w.
Proof. unfold key2_eqb. intros H. apply andb_true_iff in H. destruct H as (H & _). apply Nat.eqb_eq in H. exact H. Qed.

Lemma step_fstk st w e st' : step st (w, e) = Some st' -> fstk_delta st w e st'.
Proof.
  intros H. unfold step in H.
  destruct (nth_error (wks st) w) as [k|] eqn:Ek; [|discriminate].
  destruct (negb (Nat.leb (base st) w)) eqn:Eb; [discriminate|].
  destruct e; cbn [fstk_delta].
  - crush_step H; injection H as <-; reflexivity.
  - destruct (w_new k) as [t|]; [|discriminate].
    destruct (nth_error (ths st) t) as [th|]; [|discriminate].
    destruct (phase_eqb (t_ph th) (PNew w)); [|discriminate].
    unfold take in H. destruct (pop key2_eqb (w, cls) (fstk st)) as [[x r]|] eqn:Ep.
    + injection H as <-. cbn [fstk]. right.
      destruct (pop_split _ _ _ _ _ Ep) as (l1 & k0 & l2 & E1 & E2 & Hk).
      exists l1, k0, x, l2. repeat split; auto. eapply key2_eqb_fst; exact Hk.
    + injection H as <-. left. reflexivity.
  - crush_step H; injection H as <-; reflexivity.
  - crush_step H; injection H as <-; reflexivity.
  - crush_step H; injection H as <-; reflexivity.
  - crush_step H; injection H as <-; reflexivity.
  - crush_step H; injection H as <-; reflexivity.
  - destruct (w_cb k) as [t|] eqn:Ecb; [|discriminate].
    destruct (nth_error (ths st) t) as [th|] eqn:Et; [|discriminate].
    destruct (phase_eqb (t_ph th) (PAway w)) eqn:Ep; [|discriminate]. ph Ep.
    injection H as <-. exists k, t, th. auto.
  - crush_step H; injection H as <-; reflexivity.
  - crush_step H; injection H as <-; reflexivity.
  - crush_step H; injection H as <-; reflexivity.
  - crush_step H; injection H as <-; reflexivity.
  - injection H as <-; reflexivity.
Qed.

Definition fdesc_delta (st : state) (w : nat) (e : ev) (st' : state) : Prop :=
  match e with
  | ERelDescFin =>
      exists k t th, nth_error (wks st) w = Some k /\ w_cb k = Some t /\
        nth_error (ths st) t = Some th /\ t_ph th = PFreed w /\ t_det th = true /\
        fdesc st' = (w, t_desc th) :: fdesc st
  | EReap t =>
      exists th, nth_error (ths st) t = Some th /\ t_ph th = PDone /\
        fdesc st' = (w, t_desc th) :: fdesc st
  | EAllocDesc _ =>
      fdesc st' = fdesc st \/
      exists l1 k x l2, fdesc st = l1 ++ (k, x) :: l2 /\ fdesc st' = l1 ++ l2 /\ k = w
  | _ => fdesc st' = fdesc st
  end.

Lemma step_fdesc st w e st' : step st (w, e) = Some st' -> fdesc_delta st w e st'.
Proof.
  intros H. unfold step in H.
  destruct (nth_error (wks st) w) as [k|] eqn:Ek; [|discriminate].
  destruct (negb (Nat.leb (base st) w)) eqn:Eb; [discriminate|].
  destruct e; cbn [fdesc_delta].
  - destruct (quiet k && cur_running st w k); [|discriminate].
    unfold take in H. destruct (pop Nat.eqb w (fdesc st)) as [[x r]|] eqn:Ep.
    + injection H as <-. cbn [fdesc]. right.
      destruct (pop_split _ _ _ _ _ Ep) as (l1 & k0 & l2 & E1 & E2 & Hk).
      exists l1, k0, x, l2. repeat split; auto. apply Nat.eqb_eq. exact Hk.
    + injection H as <-. left. reflexivity.
  - crush_step H; injection H as <-; reflexivity.
  - crush_step H; injection H as <-; reflexivity.
  - crush_step H; injection H as <-; reflexivity.
  - crush_step H; injection H as <-; reflexivity.
  - crush_step H; injection H as <-; reflexivity.
  - crush_step H; injection H as <-; reflexivity.
  - crush_step H; injection H as <-; reflexivity.
  - crush_step H; injection H as <-; reflexivity.
  - destruct (w_cb k) as [t|] eqn:Ecb; [|discriminate].
    destruct (nth_error (ths st) t) as [th|] eqn:Et; [|discriminate].
    destruct (phase_eqb (t_ph th) (PFreed w) && t_det th) eqn:Eq; [|discriminate].
    apply andb_true_iff in Eq. destruct Eq as (Ep & Ed). ph Ep.
    injection H as <-. exists k, t, th. auto 10.
  - crush_step H; injection H as <-; reflexivity.
  - destruct (nth_error (ths st) t) as [th|] eqn:Et; [|discriminate].
    destruct (quiet k && cur_running st w k && phase_eqb (t_ph th) PDone) eqn:Eq; [|discriminate].
    apply andb_true_iff in Eq. destruct Eq as (_ & Ep). ph Ep.
    injection H as <-. exists th. auto.
  - injection H as <-; reflexivity.
Qed.

(** C12_release_once, step form: the only step that puts a stack into a free list is the
    callback's release; when it happens the thread has been switched away from, the stack is
    in no free list, no worker executes on it, no thread's saved context lies in it, and it
    goes to the list of the worker executing the callback, once. *)
Theorem release_stack_step : forall st w e st', reachable init step st -> step st (w, e) = Some st' ->
  (forall x, In x (fstk st') -> In x (fstk st) \/ e = ERelStack) /\
  (e = ERelStack ->
     exists t th, nth_error (ths st) t = Some th /\ t_ph th = PAway w /\
       fstk st' = ((w, t_cls th), t_stack th) :: fstk st /\
       ~ In (t_stack th) (map snd (fstk st)) /\
       (forall w', on_stack st w' <> Some (t_stack th)) /\
       (forall t' th', nth_error (ths st) t' = Some th' -> owns_stack (t_ph th') = true ->
                       t_stack th' = t_stack th -> t' = t) /\
       NoDup (map snd (fstk st'))).
Proof.
  intros st w e st' Hr Hst. pose proof (step_fstk _ _ _ _ Hst) as Hd. split.
  - intros x Hx. destruct e; cbn [fstk_delta] in Hd; try (rewrite Hd in Hx; left; exact Hx).
    + destruct Hd as [Hd|(l1 & k & y & l2 & E1 & E2 & _)]; [rewrite Hd in Hx; left; exact Hx|].
      left. rewrite E1. rewrite E2 in Hx. apply in_app_or in Hx. apply in_or_app.
      destruct Hx as [Hx|Hx]; [left; exact Hx|right; right; exact Hx].
    + right. reflexivity.
  - intros ->. cbn [fstk_delta] in Hd. destruct Hd as (k & t & th & Ek & Ecb & Et & Ep & Ef).
    destruct (stack_in_use_exclusive st Hr) as (Hon & Hown).
    assert (Ho : owns_stack (t_ph th) = true) by (rewrite Ep; reflexivity).
    destruct (Hown t th Et Ho) as (_ & Hnin & Huniq).
    exists t, th. repeat split; auto.
    + intros w' Hw'. destruct (Hon w' _ Hw') as (t' & th' & Et' & Es & Hph & _).
      assert (Ho' : owns_stack (t_ph th') = true) by (destruct Hph as [-> | ->]; reflexivity).
      pose proof (Huniq t' th' Et' Ho' Es) as ->. rewrite Et in Et'. injection Et' as <-.
      rewrite Ep in Hph. destruct Hph; discriminate.
    + assert (Hr' : reachable init step st') by (eapply reach_step; eassumption).
      apply (free_lists_nodup st' Hr').
Qed.

(** the record enters a free list only through a reap of a thread whose FREE_READY2 has been
    published, or through the callback of a detached thread after its stack was released *)
Theorem release_desc_step : forall st w e st', reachable init step st -> step st (w, e) = Some st' ->
  (forall x, In x (fdesc st') -> In x (fdesc st) \/ e = ERelDescFin \/ exists t, e = EReap t) /\
  (e = ERelDescFin ->
     exists t th, nth_error (ths st) t = Some th /\ t_ph th = PFreed w /\ t_det th = true /\
       fdesc st' = (w, t_desc th) :: fdesc st /\ ~ In (t_desc th) (map snd (fdesc st))) /\
  (forall t, e = EReap t ->
     exists th, nth_error (ths st) t = Some th /\ t_ph th = PDone /\
       fdesc st' = (w, t_desc th) :: fdesc st /\ ~ In (t_desc th) (map snd (fdesc st))).
Proof.
  intros st w e st' Hr Hst. pose proof (step_fdesc _ _ _ _ Hst) as Hd.
  pose proof (ledger_invariant st Hr) as HI. split; [|split].
  - intros x Hx. destruct e; cbn [fdesc_delta] in Hd; try (rewrite Hd in Hx; left; exact Hx).
    + destruct Hd as [Hd|(l1 & k & y & l2 & E1 & E2 & _)]; [rewrite Hd in Hx; left; exact Hx|].
      left. rewrite E1. rewrite E2 in Hx. apply in_app_or in Hx. apply in_or_app.
      destruct Hx as [Hx|Hx]; [left; exact Hx|right; right; exact Hx].
    + right. left. reflexivity.
    + right. right. eexists. reflexivity.
  - intros ->. cbn [fdesc_delta] in Hd. destruct Hd as (k & t & th & Ek & Ecb & Et & Ep & Edet & Ef).
    exists t, th. repeat split; auto.
    apply (owned_desc_exclusive st HI t th Et). rewrite Ep. reflexivity.
  - intros t ->. cbn [fdesc_delta] in Hd. destruct Hd as (th & Et & Ep & Ef).
    exists th. repeat split; auto.
    apply (owned_desc_exclusive st HI t th Et). rewrite Ep. reflexivity.
Qed.

(** C12_env_consistent: a step of worker w leaves the free lists of every other worker
    untouched - entries are only ever added to or removed from the lists of the worker that
    executes the step *)
Definition others_stk (w : nat) (l : list ((nat * nat) * nat)) := filter (fun e => negb (Nat.eqb (fst (fst e)) w)) l.
Definition others_desc (w : nat) (l : list (nat * nat)) := filter (fun e => negb (Nat.eqb (fst e) w)) l.

Theorem release_to_own_list : forall st w e st', step st (w, e) = Some st' ->
  others_stk w (fstk st') = others_stk w (fstk st) /\
  others_desc w (fdesc st') = others_desc w (fdesc st).
Proof.
  intros st w e st' Hst. split.
  - pose proof (step_fstk _ _ _ _ Hst) as Hd. unfold others_stk.
    destruct e; cbn [fstk_delta] in Hd; try (rewrite Hd; reflexivity).
    + destruct Hd as [Hd|(l1 & k & y & l2 & E1 & E2 & Hk)]; [rewrite Hd; reflexivity|].
      rewrite E1, E2, !filter_app. cbn [filter fst]. rewrite Hk, Nat.eqb_refl. reflexivity.
    + destruct Hd as (k & t & th & _ & _ & _ & _ & Ef). rewrite Ef. cbn [filter fst].
      rewrite Nat.eqb_refl. reflexivity.
  - pose proof (step_fdesc _ _ _ _ Hst) as Hd. unfold others_desc.
    destruct e; cbn [fdesc_delta] in Hd; try (rewrite Hd; reflexivity).
    + destruct Hd as [Hd|(l1 & k & y & l2 & E1 & E2 & Hk)]; [rewrite Hd; reflexivity|].
      rewrite E1, E2, !filter_app. cbn [filter fst]. rewrite Hk, Nat.eqb_refl. reflexivity.
    + destruct Hd as (k & t & th & _ & _ & _ & _ & _ & Ef). rewrite Ef. cbn [filter fst].
      rewrite Nat.eqb_refl. reflexivity.
    + destruct Hd as (th & _ & _ & Ef). rewrite Ef. cbn [filter fst].
      rewrite Nat.eqb_refl. reflexivity.
Qed.

(** * epochs: myth_fini drops every free list *)
Lemma step_actor st w e st' : step st (w, e) = Some st' -> w < length (wks st) /\ base st <= w.
Proof.
  intros H. unfold step in H.
  destruct (nth_error (wks st) w) as [k|] eqn:Ek; [|discriminate].
  destruct (negb (Nat.leb (base st) w)) eqn:Eb; [discriminate|].
  split; [eapply nth_error_lt; exact Ek|].
  apply negb_false_iff in Eb. apply Nat.leb_le in Eb. exact Eb.
Qed.

Lemma step_workers st w e st' : step st (w, e) = Some st' ->
  length (wks st) <= length (wks st') /\ base st <= base st' /\
  (forall n, e = EEpoch n -> base st' = length (wks st) /\ fstk st' = fstk st /\ fdesc st' = fdesc st).
Proof.
  intros H. destruct (step_actor _ _ _ _ H) as (Hw & Hb). unfold step in H.
  destruct (nth_error (wks st) w) as [k|] eqn:Ek; [|discriminate].
  destruct (negb (Nat.leb (base st) w)) eqn:Eb; [discriminate|].
  destruct e; crush_step H; injection H as <-;
    cbn [wks base with_ths fstk fdesc]; rewrite ?upd_length, ?app_length;
    (split; [lia|]); (split; [lia|]); intros ? E; try discriminate E.
  repeat split; lia.
Qed.

(** every entry of a free list is keyed by an existing worker *)
Definition keys_ok (st : state) : Prop :=
  (forall x, In x (fstk st) -> fst (fst x) < length (wks st)) /\
  (forall x, In x (fdesc st) -> fst x < length (wks st)).

Lemma keys_inv : forall st, reachable init step st -> keys_ok st.
Proof.
  apply invariant_rule.
  - intros st (nw & ->). split; intros x [].
  - intros st [w e] st' (K1 & K2) H.
    destruct (step_actor _ _ _ _ H) as (Hw & _). destruct (step_workers _ _ _ _ H) as (Hlen & _ & _).
    pose proof (step_fstk _ _ _ _ H) as Hs. pose proof (step_fdesc _ _ _ _ H) as Hd. split.
    + intros x Hx.
      assert (Hold : In x (fstk st) -> fst (fst x) < length (wks st')) by (intros Hi; specialize (K1 x Hi); lia).
      destruct e; cbn [fstk_delta] in Hs; try (rewrite Hs in Hx; auto).
      * destruct Hs as [Hs|(l1 & k & y & l2 & E1 & E2 & _)]; [rewrite Hs in Hx; auto|].
        apply Hold. rewrite E1. rewrite E2 in Hx. apply in_app_or in Hx. apply in_or_app.
        destruct Hx as [Hx|Hx]; [left; exact Hx|right; right; exact Hx].
      * destruct Hs as (k & t & th & _ & _ & _ & _ & Ef). rewrite Ef in Hx.
        destruct Hx as [<-|Hx]; [cbn; lia|auto].
    + intros x Hx.
      assert (Hold : In x (fdesc st) -> fst x < length (wks st')) by (intros Hi; specialize (K2 x Hi); lia).
      destruct e; cbn [fdesc_delta] in Hd; try (rewrite Hd in Hx; auto).
      * destruct Hd as [Hd|(l1 & k & y & l2 & E1 & E2 & _)]; [rewrite Hd in Hx; auto|].
        apply Hold. rewrite E1. rewrite E2 in Hx. apply in_app_or in Hx. apply in_or_app.
        destruct Hx as [Hx|Hx]; [left; exact Hx|right; right; exact Hx].
      * destruct Hd as (k & t & th & _ & _ & _ & _ & _ & Ef). rewrite Ef in Hx.
        destruct Hx as [<-|Hx]; [cbn; lia|auto].
      * destruct Hd as (th & _ & _ & Ef). rewrite Ef in Hx.
        destruct Hx as [<-|Hx]; [cbn; lia|auto].
Qed.

(** the entries that belong to workers of earlier epochs *)
Definition dead_stk (b : nat) (l : list ((nat * nat) * nat)) := filter (fun e => Nat.ltb (fst (fst e)) b) l.
Definition dead_desc (b : nat) (l : list (nat * nat)) := filter (fun e => Nat.ltb (fst e) b) l.

(** C12_epoch_drops_lists: no step touches a list of an earlier epoch; an allocation takes a
    fresh resource or one released in the current epoch; and myth_fini/myth_init_ex makes every
    cached entry an entry of an earlier epoch *)
Theorem epoch_drops_lists : forall st w e st', reachable init step st -> step st (w, e) = Some st' ->
  dead_stk (base st) (fstk st') = dead_stk (base st) (fstk st) /\
  dead_desc (base st) (fdesc st') = dead_desc (base st) (fdesc st) /\
  base st <= base st' /\
  (forall c, e = EAllocStack c ->
     fstk st' = fstk st \/
     exists l1 k x l2, fstk st = l1 ++ (k, x) :: l2 /\ fstk st' = l1 ++ l2 /\ base st <= fst k) /\
  (forall d, e = EAllocDesc d ->
     fdesc st' = fdesc st \/
     exists l1 k x l2, fdesc st = l1 ++ (k, x) :: l2 /\ fdesc st' = l1 ++ l2 /\ base st <= k) /\
  (forall n, e = EEpoch n ->
     fstk st' = fstk st /\ fdesc st' = fdesc st /\
     (forall x, In x (fstk st') -> fst (fst x) < base st') /\
     (forall x, In x (fdesc st') -> fst x < base st')).
Proof.
  intros st w e st' Hr H.
  destruct (step_actor _ _ _ _ H) as (Hw & Hb). destruct (step_workers _ _ _ _ H) as (_ & Hbase & Hep).
  pose proof (step_fstk _ _ _ _ H) as Hs. pose proof (step_fdesc _ _ _ _ H) as Hd.
  assert (Hdead : Nat.ltb w (base st) = false) by (apply Nat.ltb_ge; exact Hb).
  split; [|split; [|split; [exact Hbase|split; [|split]]]].
  - unfold dead_stk. destruct e; cbn [fstk_delta] in Hs; try (rewrite Hs; reflexivity).
    + destruct Hs as [Hs|(l1 & k & y & l2 & E1 & E2 & Hk)]; [rewrite Hs; reflexivity|].
      rewrite E1, E2, !filter_app. cbn [filter fst]. rewrite Hk, Hdead. reflexivity.
    + destruct Hs as (k & t & th & _ & _ & _ & _ & Ef). rewrite Ef. cbn [filter fst]. rewrite Hdead. reflexivity.
  - unfold dead_desc. destruct e; cbn [fdesc_delta] in Hd; try (rewrite Hd; reflexivity).
    + destruct Hd as [Hd|(l1 & k & y & l2 & E1 & E2 & Hk)]; [rewrite Hd; reflexivity|].
      rewrite E1, E2, !filter_app. cbn [filter fst]. rewrite Hk, Hdead. reflexivity.
    + destruct Hd as (k & t & th & _ & _ & _ & _ & _ & Ef). rewrite Ef. cbn [filter fst]. rewrite Hdead. reflexivity.
    + destruct Hd as (th & _ & _ & Ef). rewrite Ef. cbn [filter fst]. rewrite Hdead. reflexivity.
  - intros c ->. cbn [fstk_delta] in Hs. destruct Hs as [Hs|(l1 & k & y & l2 & E1 & E2 & Hk)]; [left; exact Hs|].
    right. exists l1, k, y, l2. repeat split; auto. lia.
  - intros d ->. cbn [fdesc_delta] in Hd. destruct Hd as [Hd|(l1 & k & y & l2 & E1 & E2 & Hk)]; [left; exact Hd|].
    right. exists l1, k, y, l2. repeat split; auto. lia.
  - intros n ->. destruct (Hep n eq_refl) as (Eb & Ef & Ed). destruct (keys_inv st Hr) as (K1 & K2).
    rewrite Eb, Ef, Ed. auto.
Qed.

(** ... hence a stack or record that sits in a list of an earlier epoch stays there for ever and
    is never owned by a thread again, whatever happens later *)
Theorem cached_at_fini_never_reused : forall st, reachable init step st ->
  forall sched,
  (forall x, In x (fstk st) -> fst (fst x) < base st ->
     In x (fstk (run step sched st)) /\
     forall t th, nth_error (ths (run step sched st)) t = Some th -> owns_stack (t_ph th) = true ->
                  t_stack th <> snd x) /\
  (forall x, In x (fdesc st) -> fst x < base st ->
     In x (fdesc (run step sched st)) /\
     forall t th, nth_error (ths (run step sched st)) t = Some th -> t_ph th <> PGone ->
                  t_desc th <> snd x).
Proof.
  intros st Hr sched.
  assert (Hrun : reachable init step (run step sched st)) by (apply run_reachable; exact Hr).
  assert (Hkeep : forall sched st, reachable init step st ->
            base st <= base (run step sched st) /\
            (forall x, In x (dead_stk (base st) (fstk st)) -> In x (fstk (run step sched st))) /\
            (forall x, In x (dead_desc (base st) (fdesc st)) -> In x (fdesc (run step sched st)))).
  { clear. induction sched as [|[w e] sched IH]; intros st Hr.
    - cbn. split; [lia|]. split; intros x Hx; apply filter_In in Hx; tauto.
    - change (run step ((w, e) :: sched) st) with (run step sched (exec1 step st (w, e))).
      unfold exec1. destruct (step st (w, e)) as [st1|] eqn:E; [|apply IH; exact Hr].
      destruct (epoch_drops_lists _ _ _ _ Hr E) as (E1 & E2 & Hb & _).
      assert (Hr1 : reachable init step st1) by (eapply reach_step; eassumption).
      destruct (IH st1 Hr1) as (Hb1 & K1 & K2). split; [lia|]. split.
      + intros x Hx. apply K1. rewrite <- E1 in Hx. unfold dead_stk in *. apply filter_In in Hx.
        apply filter_In. destruct Hx as (Hin & Hlt). split; [exact Hin|].
        apply Nat.ltb_lt in Hlt. apply Nat.ltb_lt. lia.
      + intros x Hx. apply K2. rewrite <- E2 in Hx. unfold dead_desc in *. apply filter_In in Hx.
        apply filter_In. destruct Hx as (Hin & Hlt). split; [exact Hin|].
        apply Nat.ltb_lt in Hlt. apply Nat.ltb_lt. lia. }
  destruct (Hkeep sched st Hr) as (_ & K1 & K2). pose proof (ledger_invariant _ Hrun) as HI. split.
  - intros x Hx Hlt.
    assert (Hin : In x (fstk (run step sched st)))
      by (apply K1; apply filter_In; split; [exact Hx|apply Nat.ltb_lt; exact Hlt]).
    split; [exact Hin|]. intros t th Et Ho E.
    destruct (owned_stack_exclusive _ HI t th Et Ho) as (_ & Hn & _). apply Hn. rewrite E. apply in_map. exact Hin.
  - intros x Hx Hlt.
    assert (Hin : In x (fdesc (run step sched st)))
      by (apply K2; apply filter_In; split; [exact Hx|apply Nat.ltb_lt; exact Hlt]).
    split; [exact Hin|]. intros t th Et Hng E.
    assert (Ho : owns_desc (t_ph th) = true) by (destruct (t_ph th); try reflexivity; congruence).
    destruct (owned_desc_exclusive _ HI t th Et Ho) as (_ & Hn & _). apply Hn. rewrite E. apply in_map. exact Hin.
Qed.
