(** C12 — stacks and thread records on top of the allocator
    (src/myth_sched_func.h: get_new_myth_thread_struct_stack / free_myth_thread_struct_stack /
    get_new_myth_thread_struct_desc / free_myth_thread_struct_desc; MYTH_SPLIT_STACK_DESC=1,
    STACK_ALLOC_UNIT=1, ALLOCATE_STACK_BY_MALLOC=0, USE_STACK_GUARDPAGE=0).

    custom size n != 0:
        n += 0xFFF; n &= ~0xFFF;  th_ptr = myth_flmalloc(rank, n);  th_ptr += n - 16;
        *(uintptr_t* )(th_ptr + 8) = n;            return th_ptr;
    default (n == 0):  pop env->freelist_stack, else
        alloc = (g_attr.stacksize + 0xFFF) & ~0xFFF;  th_ptr = mmap(alloc);
        th_ptr += g_attr.stacksize - 16;  *(uintptr_t* )(th_ptr + 8) = 0;   return th_ptr;
    release(ptr = th->stack):
        w = *(uintptr_t* )(ptr + 8);
        if (w == 0) push(env->freelist_stack, ptr);
        else myth_flfree(rank, w, ptr - w + 16);

    The pointer a thread carries ([th->stack]) is the *top* pointer; the only thing that
    links it back to its block and size class is the size word stored above it.
    Memory is a store of 64-bit words at the addresses the code writes (association list,
    newest first; an address never written reads 0, like a fresh anonymous mapping).
    [s_def] / [s_desc] are env->freelist_stack / env->freelist_desc of all workers in one
    association list (rank, pointer), newest first, as in Alloc/FlmallocModel.v. *)
From Coq Require Import ZArith List Bool.
From MT Require Import Alloc.SizeClassModel Alloc.FlmallocModel.
Import ListNotations.
Local Open Scope Z_scope.

Definition mem := list (Z * Z).

Fixpoint load (m : mem) (a : Z) : Z :=
  match m with
  | [] => 0
  | (a', v) :: r => if a' =? a then v else load r a
  end.

Definition store (m : mem) (a v : Z) : mem := (a, v) :: m.

Record sstate := mkS {
  s_fl : flstate;
  s_def : list (nat * Z);
  s_desc : list (nat * Z);
  s_mem : mem }.

Definition s_init : sstate := mkS fl_init [] [] [].

Fixpoint pop_w (w : nat) (l : list (nat * Z)) : option (Z * list (nat * Z)) :=
  match l with
  | [] => None
  | (w', p) :: r =>
      if Nat.eqb w' w then Some (p, r)
      else match pop_w w r with
           | Some (q, r') => Some (q, (w', p) :: r')
           | None => None
           end
  end.

Inductive sresult :=
| SOk (ptr : Z) (st : sstate)
| SOutOfRange (idx : Z)
| SUndef
| SOutOfFuel.

Section Oracle.
  Variable mmap : list region -> Z -> Z.
  Variable gsz : Z.      (* g_attr.stacksize *)
  Variable dsz : Z.      (* sizeof(struct myth_thread) *)

  Definition add_region (f : flstate) (a len : Z) : flstate :=
    mkFl (fl_lists f) ((a, len) :: fl_regs f).

  Definition stack_get (st : sstate) (w : nat) (n : Z) : sresult :=
    if n =? 0 then
      match pop_w w (s_def st) with
      | Some (top, r) => SOk top (mkS (s_fl st) r (s_desc st) (s_mem st))
      | None =>
          let len := round_page gsz in
          let a := mmap (fl_regs (s_fl st)) len in
          let top := a + gsz - 16 in
          SOk top (mkS (add_region (s_fl st) a len) (s_def st) (s_desc st)
                       (store (s_mem st) (top + 8) 0))
      end
    else
      let r := round_page n in
      match flmalloc mmap (s_fl st) w r with
      | AOk b f' =>
          let top := b + r - 16 in
          SOk top (mkS f' (s_def st) (s_desc st) (store (s_mem st) (top + 8) r))
      | AOutOfRange i => SOutOfRange i
      | AUndef => SUndef
      | AOutOfFuel => SOutOfFuel
      end.

  (** what the release does with the pointer: which list, which block start *)
  Inductive released := RDefault (top : Z) | RClass (idx : Z) (start : Z) | RBad.

  Definition release_target (m : mem) (top : Z) : released :=
    let word := load m (top + 8) in
    if word =? 0 then RDefault top
    else match size_class word with
         | Class i _ => RClass i (top - word + 16)
         | _ => RBad
         end.

  Definition stack_release (st : sstate) (w : nat) (top : Z) : option sstate :=
    let word := load (s_mem st) (top + 8) in
    if word =? 0 then Some (mkS (s_fl st) ((w, top) :: s_def st) (s_desc st) (s_mem st))
    else match flfree (s_fl st) w word (top - word + 16) with
         | Some f' => Some (mkS f' (s_def st) (s_desc st) (s_mem st))
         | None => None
         end.

  Definition desc_get (st : sstate) (w : nat) : Z * sstate :=
    match pop_w w (s_desc st) with
    | Some (p, r) => (p, mkS (s_fl st) (s_def st) r (s_mem st))
    | None =>
        let len := round_page dsz in
        let a := mmap (fl_regs (s_fl st)) len in
        (a, mkS (add_region (s_fl st) a len) (s_def st) (s_desc st) (s_mem st))
    end.

  Definition desc_release (st : sstate) (w : nat) (p : Z) : sstate :=
    mkS (s_fl st) (s_def st) ((w, p) :: s_desc st) (s_mem st).
End Oracle.

(** Histories of stack / record requests and releases, with ghost bookkeeping of what is
    live: [i_kind = true] a stack ([i_ptr] = the top pointer a thread carries, [i_word] the
    size word stored above it), [false] a record.  [i_blk] = (start, length) of the memory
    block behind it.  A release is well-formed when it gives back a live item; requests are
    0 (default) or at least 1 with a page-rounded size of at most 2^30.  [sstep] returns
    [None] on anything else. *)
Record item := mkI { i_kind : bool; i_ptr : Z; i_blk : Z * Z; i_word : Z }.

Inductive sop :=
| SGet (w : nat) (n : Z) | SRel (w : nat) (top : Z)
| DGet (w : nat) | DRel (w : nat) (p : Z).

Record hs := mkHs { hs_st : sstate; hs_live : list item }.

Definition hs_init : hs := mkHs s_init [].

Fixpoint item_remove (k : bool) (p : Z) (l : list item) : option (item * list item) :=
  match l with
  | [] => None
  | it :: r =>
      if (Bool.eqb (i_kind it) k && Z.eqb (i_ptr it) p)%bool then Some (it, r)
      else match item_remove k p r with
           | Some (x, r') => Some (x, it :: r')
           | None => None
           end
  end.

Section Oracle.
  Variable mmap : list region -> Z -> Z.
  Variable gsz dsz : Z.

  Definition def_blk (top : Z) : Z * Z := (top + 16 - gsz, round_page gsz).
  Definition desc_blk (p : Z) : Z * Z := (p, round_page dsz).

  Definition sstep (h : hs) (o : sop) : option hs :=
    match o with
    | SGet w n =>
        if n =? 0 then
          match stack_get mmap gsz (hs_st h) w 0 with
          | SOk top st' => Some (mkHs st' (mkI true top (def_blk top) 0 :: hs_live h))
          | _ => None
          end
        else if (1 <=? n) && (n + 4095 <? 2 ^ 64) && (round_page n <=? 2 ^ 30) then
          match size_class (round_page n), stack_get mmap gsz (hs_st h) w n with
          | Class i rs, SOk top st' =>
              Some (mkHs st' (mkI true top (top - round_page n + 16, rs) (round_page n) :: hs_live h))
          | _, _ => None
          end
        else None
    | SRel w top =>
        match item_remove true top (hs_live h), stack_release (hs_st h) w top with
        | Some (_, l'), Some st' => Some (mkHs st' l')
        | _, _ => None
        end
    | DGet w =>
        let (p, st') := desc_get mmap dsz (hs_st h) w in
        Some (mkHs st' (mkI false p (desc_blk p) 0 :: hs_live h))
    | DRel w p =>
        match item_remove false p (hs_live h) with
        | Some (_, l') => Some (mkHs (desc_release (hs_st h) w p) l')
        | None => None
        end
    end.

  Fixpoint srun (ops : list sop) (h : hs) : option hs :=
    match ops with
    | [] => Some h
    | o :: r => match sstep h o with Some h' => srun r h' | None => None end
    end.

  (** every block behind a live item or a free-list entry *)
  Definition free_blocks (st : sstate) : list (Z * Z) :=
    map blk_of_ent (fl_lists (s_fl st)) ++ map (fun e => def_blk (snd e)) (s_def st)
        ++ map (fun e => desc_blk (snd e)) (s_desc st).
  Definition all_blocks (h : hs) : list (Z * Z) := map i_blk (hs_live h) ++ free_blocks (hs_st h).
End Oracle.

(** Epochs: myth_fini followed by myth_init_ex(attr) with a possibly different default stack
    size.  myth_fini frees the worker environments and the per-class list arrays
    (myth_fini_body, myth_flmalloc_fini_worker); myth_setup_worker starts every worker with empty
    lists: whatever was cached is dropped (the memory stays mapped and is never handed out
    again).  [epoch_reset] is that: all lists empty, regions and memory unchanged.  An epoch is
    (default stack size, history); a new epoch may start only when nothing is live
    (finalising the library under running threads is outside its contract).  [erun] returns
    the final state, the blocks dropped so far (ghost, with the extents they had in their
    epoch) and the default stack size in force. *)
Definition epoch_reset (st : sstate) : sstate :=
  mkS (mkFl [] (fl_regs (s_fl st))) [] [] (s_mem st).

Definition gsz_valid (g : Z) : bool := (16 <=? g) && (g + 4095 <? 2 ^ 64).

Section Epochs.
  Variable mmap : list region -> Z -> Z.
  Variable dsz : Z.

  Fixpoint erun (epochs : list (Z * list sop)) (h : hs) (dropped : list (Z * Z)) (g : Z)
    : option (hs * list (Z * Z) * Z) :=
    match epochs with
    | [] => Some (h, dropped, g)
    | (g', ops) :: rest =>
        match hs_live h with
        | [] =>
            if gsz_valid g' then
              match srun mmap g' dsz ops (mkHs (epoch_reset (hs_st h)) []) with
              | Some h' => erun rest h' (free_blocks g dsz (hs_st h) ++ dropped) g'
              | None => None
              end
            else None
        | _ :: _ => None
        end
    end.
End Epochs.

(** The size guard of the public API (src/myth_sched_func.h, commit a6d2bdf):
      #define MYTH_STACK_SIZE_MAX ((size_t)1 << (FREE_LIST_NUM - 1))
      myth_thread_attr_setstacksize_body / _setstack_body:
          if (stacksize > MYTH_STACK_SIZE_MAX) return EINVAL;   attr->stacksize = stacksize;  return 0;
      myth_create_ex_body:   stack_size = attr ? attr->stacksize : 0;
          if (stack_size > MYTH_STACK_SIZE_MAX) return EINVAL;        (before anything is allocated)
    The error branch is part of the model: [attr_setstacksize] returns the return code and the
    attribute's field afterwards; [create_stack] is the stack side of a creation with a given
    attribute value ([CEinval]: nothing was obtained, the allocator state is untouched). *)
Definition EINVAL : Z := 22.
Definition MYTH_STACK_SIZE_MAX : Z := Z.shiftl 1 (FREE_LIST_NUM - 1).

Definition attr_setstacksize (old s : Z) : Z * Z :=
  if s >? MYTH_STACK_SIZE_MAX then (EINVAL, old) else (0, s).

Inductive cresult :=
| CEinval
| CCreated (top : Z) (st : sstate)
| CFailed (r : sresult).      (* the unguarded arithmetic left its range: cannot happen, see StackProofs *)

Definition create_stack (mmap : list region -> Z -> Z) (gsz : Z) (st : sstate) (w : nat) (attr_ss : Z) : cresult :=
  if attr_ss >? MYTH_STACK_SIZE_MAX then CEinval
  else match stack_get mmap gsz st w attr_ss with
       | SOk top st' => CCreated top st'
       | r => CFailed r
       end.
