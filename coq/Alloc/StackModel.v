(** C12 — stacks and thread records on top of the allocator
    (src/myth_sched_func.h: get_new_myth_thread_struct_stack / free_myth_thread_struct_stack /
    get_new_myth_thread_struct_desc / free_myth_thread_struct_desc; MYTH_SPLIT_STACK_DESC=1,
    STACK_ALLOC_UNIT=1, ALLOCATE_STACK_BY_MALLOC=0, USE_STACK_GUARDPAGE=0).

    custom size n != 0:
        n += 0xFFF; n &= ~0xFFF;  th_ptr = myth_flmalloc(rank, n);  th_ptr += n - 16;
        *(uintptr_t* )(th_ptr + 8) = n;            return th_ptr;
    default (n == 0):  pop env->freelist_stack, else
        alloc = (g_attr.stacksize + 0xFFF) & ~0xFFF;  th_ptr = mmap(alloc);
        th_ptr += g_attr.stacksize - 16;  *(uintptr_t* )(th_ptr + 8) = 0;   return th_ptr;
    release(ptr = th->stack):
        w = *(uintptr_t* )(ptr + 8);
        if (w == 0) push(env->freelist_stack, ptr);
        else myth_flfree(rank, w, ptr - w + 16);

    The pointer a thread carries ([th->stack]) is the *top* pointer; the only thing that
    links it back to its block and size class is the size word stored above it.
    Memory is a store of 64-bit words at the addresses the code writes (association list,
    newest first; an address never written reads 0, like a fresh anonymous mapping).
    [s_def] / [s_desc] are env->freelist_stack / env->freelist_desc of all workers in one
    association list (rank, pointer), newest first, as in Alloc/FlmallocModel.v. *)
From Coq Require Import ZArith List Bool.
From MT Require Import Alloc.SizeClassModel Alloc.FlmallocModel.
Import ListNotations.
Local Open Scope Z_scope.

Definition mem := list (Z * Z).

Fixpoint load (m : mem) (a : Z) : Z :=
  match m with
  | [] => 0
  | (a', v) :: r => if a' =? a then v else load r a
  end.

Definition store (m : mem) (a v : Z) : mem := (a, v) :: m.

Record sstate := mkS {
  s_fl : flstate;
  s_def : list (nat * Z);
  s_desc : list (nat * Z);
  s_mem : mem }.

Definition s_init : sstate := mkS fl_init [] [] [].

Fixpoint pop_w (w : nat) (l : list (nat * Z)) : option (Z * list (nat * Z)) :=
  match l with
  | [] => None
  | (w', p) :: r =>
      if Nat.eqb w' w then Some (p, r)
      else match pop_w w r with
           | Some (q, r') => Some (q, (w', p) :: r')
           | None => None
           end
  end.

Inductive sresult :=
| SOk (ptr : Z) (st : sstate)
| SOutOfRange (idx : Z)
| SUndef
| SOutOfFuel.

Section Oracle.
  Variable mmap : list region -> Z -> Z.
  Variable gsz : Z.      (* g_attr.stacksize *)
  Variable dsz : Z.      (* sizeof(struct myth_thread) *)

  Definition add_region (f : flstate) (a len : Z) : flstate :=
    mkFl (fl_lists f) ((a, len) :: fl_regs f).

  Definition stack_get (st : sstate) (w : nat) (n : Z) : sresult :=
    if n =? 0 then
      match pop_w w (s_def st) with
      | Some (top, r) => SOk top (mkS (s_fl st) r (s_desc st) (s_mem st))
      | None =>
          let len := round_page gsz in
          let a := mmap (fl_regs (s_fl st)) len in
          let top := a + gsz - 16 in
          SOk top (mkS (add_region (s_fl st) a len) (s_def st) (s_desc st)
                       (store (s_mem st) (top + 8) 0))
      end
    else
      let r := round_page n in
      match flmalloc mmap (s_fl st) w r with
      | AOk b f' =>
          let top := b + r - 16 in
          SOk top (mkS f' (s_def st) (s_desc st) (store (s_mem st) (top + 8) r))
      | AOutOfRange i => SOutOfRange i
      | AUndef => SUndef
      | AOutOfFuel => SOutOfFuel
      end.

  (** what the release does with the pointer: which list, which block start *)
  Inductive released := RDefault (top : Z) | RClass (idx : Z) (start : Z) | RBad.

  Definition release_target (m : mem) (top : Z) : released :=
    let word := load m (top + 8) in
    if word =? 0 then RDefault top
    else match size_class word with
         | Class i _ => RClass i (top - word + 16)
         | _ => RBad
         end.

  Definition stack_release (st : sstate) (w : nat) (top : Z) : option sstate :=
    let word := load (s_mem st) (top + 8) in
    if word =? 0 then Some (mkS (s_fl st) ((w, top) :: s_def st) (s_desc st) (s_mem st))
    else match flfree (s_fl st) w word (top - word + 16) with
         | Some f' => Some (mkS f' (s_def st) (s_desc st) (s_mem st))
         | None => None
         end.

  Definition desc_get (st : sstate) (w : nat) : Z * sstate :=
    match pop_w w (s_desc st) with
    | Some (p, r) => (p, mkS (s_fl st) (s_def st) r (s_mem st))
    | None =>
        let len := round_page dsz in
        let a := mmap (fl_regs (s_fl st)) len in
        (a, mkS (add_region (s_fl st) a len) (s_def st) (s_desc st) (s_mem st))
    end.

  Definition desc_release (st : sstate) (w : nat) (p : Z) : sstate :=
    mkS (s_fl st) (s_def st) ((w, p) :: s_desc st) (s_mem st).
End Oracle.
