(** C12 — size classes of the internal allocator.

    Source: src/myth_misc_func.h
      #define FREE_LIST_NUM 31
      #define MYTH_MALLOC_SIZE_TO_INDEX(s) (32-__builtin_clz((s)-1))      (SIZEOF_INT==4)
      #define MYTH_MALLOC_INDEX_TO_RSIZE(s) (1<<(s))
      myth_flmalloc / myth_flfree:  if (size < 8) size = 8;  idx = SIZE_TO_INDEX(size);
    and src/myth_sched_func.h get_new_myth_thread_struct_stack:
      size_in_bytes += 0xFFF;  size_in_bytes &= ~0xFFF;

    [s] is a [size_t] (64 bit).  [(s)-1] is computed in 64 bits and then passed to
    [__builtin_clz], whose parameter is [unsigned int]: the value is truncated to its low
    32 bits.  [__builtin_clz(0)] is undefined: [IdxUndef].  The index is an [int];
    [1<<idx] is an [int] shift, defined for [idx <= 30] only.  The free-list array has
    [FREE_LIST_NUM] entries: an index [>= 31] reads/writes outside it: [ClassOutOfRange]. *)
From Coq Require Import ZArith.
Local Open Scope Z_scope.

Definition FREE_LIST_NUM : Z := 31.
Definition PAGE_SIZE : Z := 4096.

Definition wrap64 (z : Z) : Z := z mod 2 ^ 64.
Definition trunc32 (z : Z) : Z := z mod 2 ^ 32.

(** [__builtin_clz] of a 32-bit value in [1 .. 2^32-1] *)
Definition clz32 (x : Z) : Z := 31 - Z.log2 x.

Inductive idx_result := Idx (i : Z) | IdxUndef.

Definition size_to_index (s : Z) : idx_result :=
  let x := trunc32 (wrap64 (s - 1)) in
  if x =? 0 then IdxUndef else Idx (32 - clz32 x).

(** [1<<i] *)
Definition index_to_rsize (i : Z) : Z := Z.shiftl 1 i.

Definition clamp8 (s : Z) : Z := if s <? 8 then 8 else s.

Inductive class_result :=
| Class (idx rsize : Z)        (* a list index inside the array and the block size of the class *)
| ClassOutOfRange (idx : Z)    (* index >= FREE_LIST_NUM: array access out of bounds *)
| ClassUndef.                  (* __builtin_clz(0) *)

(** what [myth_flmalloc] and [myth_flfree] compute from their [size] argument *)
Definition size_class (s : Z) : class_result :=
  match size_to_index (clamp8 s) with
  | IdxUndef => ClassUndef
  | Idx i => if i <? FREE_LIST_NUM then Class i (index_to_rsize i) else ClassOutOfRange i
  end.

(** [n += 0xFFF; n &= ~0xFFF;] on a [size_t]; [~0xFFF] is the [int] -4096, converted to
    [size_t] it is 2^64 - 4096 *)
Definition round_page (n : Z) : Z := Z.land (wrap64 (n + 4095)) (2 ^ 64 - 4096).
