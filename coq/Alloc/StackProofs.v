(** C12 — proofs about the stack block / top / size-word arithmetic (Alloc/StackModel.v). *)
From Coq Require Import ZArith List Bool Lia Permutation.
From MT Require Import Alloc.SizeClassModel Alloc.SizeClassProofs Alloc.FlmallocModel Alloc.FlmallocProofs Alloc.StackModel.
Import ListNotations.
Local Open Scope Z_scope.

Lemma load_store_same m a v : load (store m a v) a = v.
Proof. unfold store. cbn [load]. rewrite Z.eqb_refl. reflexivity. Qed.

Lemma load_store_other m a v a' : a <> a' -> load (store m a v) a' = load m a'.
Proof.
  intros H. unfold store. cbn [load]. destruct (a =? a') eqn:E; [apply Z.eqb_eq in E; contradiction|reflexivity].
Qed.

(** the release is a function of the size word only *)
Lemma stack_release_class st w top i b :
  release_target (s_mem st) top = RClass i b ->
  stack_release st w top =
  Some (mkS (mkFl ((w, i, b) :: fl_lists (s_fl st)) (fl_regs (s_fl st))) (s_def st) (s_desc st) (s_mem st)).
Proof.
  unfold release_target, stack_release, flfree. intros H.
  destruct (load (s_mem st) (top + 8) =? 0); [discriminate|].
  destruct (size_class (load (s_mem st) (top + 8))) as [i' rs| |]; try discriminate.
  assert (i' = i) by congruence. assert (top - load (s_mem st) (top + 8) + 16 = b) by congruence.
  subst. reflexivity.
Qed.

Lemma stack_release_default st w top :
  release_target (s_mem st) top = RDefault top ->
  stack_release st w top = Some (mkS (s_fl st) ((w, top) :: s_def st) (s_desc st) (s_mem st)).
Proof.
  unfold release_target, stack_release. intros H.
  destruct (load (s_mem st) (top + 8) =? 0); [reflexivity|].
  destruct (size_class (load (s_mem st) (top + 8))); discriminate.
Qed.

(** C12_release_same_class, custom sizes: for every request [n >= 1] whose page-rounded size
    is at most 2^30, the block [b] comes from class [i] of the rounded size, the stack
    [b, top+16) lies inside the block, the size word above the top holds the rounded size, and
    a release that reads this word recomputes exactly [b] and [i] - on whatever worker and
    whenever it happens. *)
Theorem release_same_class_custom : forall mmap gsz st w n top st',
  1 <= n -> n + 4095 < 2 ^ 64 -> round_page n <= 2 ^ 30 ->
  stack_get mmap gsz st w n = SOk top st' ->
  exists b i,
    size_class (round_page n) = Class i (2 ^ i) /\
    flmalloc mmap (s_fl st) w (round_page n) = AOk b (s_fl st') /\
    n <= round_page n < n + 4096 /\ round_page n <= 2 ^ i /\
    top = b + round_page n - 16 /\ b <= top /\ top + 16 <= b + 2 ^ i /\
    load (s_mem st') (top + 8) = round_page n /\
    (forall m, load m (top + 8) = round_page n -> release_target m top = RClass i b).
Proof.
  intros mmap gsz st w n top st' Hn Hov Hmax Hget.
  destruct (round_page_spec n ltac:(lia) Hov) as (Hr & _ & _).
  pose proof (round_page_pos n Hn Hov) as Hr4.
  destruct (size_class_spec (round_page n) ltac:(lia)) as (i & Hc & Hi & Hfit & _).
  unfold stack_get in Hget.
  destruct (n =? 0) eqn:En; [apply Z.eqb_eq in En; lia|].
  destruct (flmalloc mmap (s_fl st) w (round_page n)) as [b f'| | |] eqn:Efl; try discriminate.
  injection Hget as Htop Hst. subst st'. cbn [s_fl s_mem].
  exists b, i. repeat split; try lia; try assumption.
  - rewrite <- Htop. apply load_store_same.
  - intros m Hm. unfold release_target. rewrite Hm.
    destruct (round_page n =? 0) eqn:E0; [apply Z.eqb_eq in E0; lia|].
    rewrite Hc. f_equal. lia.
Qed.

(** default-size stacks: the word is 0, the pointer itself goes to the default list of the
    releasing worker and is what the next default request on that worker gets back *)
Theorem release_same_class_default : forall mmap gsz st w top st',
  stack_get mmap gsz st w 0 = SOk top st' ->
  (pop_w w (s_def st) = None ->
     top = mmap (fl_regs (s_fl st)) (round_page gsz) + gsz - 16 /\
     load (s_mem st') (top + 8) = 0) /\
  (forall st2 w2, load (s_mem st2) (top + 8) = 0 ->
     release_target (s_mem st2) top = RDefault top /\
     exists st3, stack_release st2 w2 top = Some st3 /\
       stack_get mmap gsz st3 w2 0 = SOk top st2).
Proof.
  intros mmap gsz st w top st' Hget. split.
  - intros Hpop. unfold stack_get in Hget. cbn [Z.eqb] in Hget. rewrite Hpop in Hget.
    injection Hget as Htop Hst. subst st'. cbn [s_mem]. split; [symmetry; exact Htop|].
    rewrite <- Htop. apply load_store_same.
  - intros st2 w2 Hw.
    assert (Ht : release_target (s_mem st2) top = RDefault top)
      by (unfold release_target; rewrite Hw; reflexivity).
    split; [exact Ht|]. eexists. split; [apply stack_release_default; exact Ht|].
    unfold stack_get. cbn [Z.eqb s_def pop_w]. rewrite Nat.eqb_refl.
    destruct st2; reflexivity.
Qed.

(** descriptors: a released record is what the next creation on that worker reuses *)
Theorem desc_release_get : forall mmap dsz st w p,
  desc_get mmap dsz (desc_release st w p) w = (p, st).
Proof.
  intros. unfold desc_get, desc_release. cbn [s_desc pop_w]. rewrite Nat.eqb_refl.
  destruct st; reflexivity.
Qed.

(** * blocks inside regions, abstractly *)
Definition BInv (B R : list (Z * Z)) : Prop :=
  pairwise B /\ pairwise R /\ (forall b, In b B -> 0 < snd b /\ exists r, In r R /\ inside b r).

Lemma BInv_perm B B' R : Permutation B B' -> BInv B R -> BInv B' R.
Proof.
  intros HP (H1 & H2 & H3). split; [eapply pairwise_perm; eassumption|]. split; [exact H2|].
  intros b Hb. apply H3. eapply Permutation_in; [apply Permutation_sym; exact HP|exact Hb].
Qed.

Lemma BInv_fresh (mmap : list region -> Z -> Z) B R a len newb :
  (forall regs len r, 0 < len -> In r regs -> disj (mmap regs len, len) r) ->
  BInv B R -> 0 < len -> a = mmap R len -> pairwise newb ->
  (forall b, In b newb -> 0 < snd b /\ inside b (a, len)) ->
  BInv (newb ++ B) ((a, len) :: R).
Proof.
  intros Hfresh (HP & HR & HI) Hlen Ha Hnew Hin.
  assert (Hfr : forall r, In r R -> disj (a, len) r) by (intros r Hr; subst a; apply Hfresh; assumption).
  split; [|split].
  - apply pairwise_app. split; [exact Hnew|]. split; [exact HP|].
    intros x y Hx Hy. destruct (HI y Hy) as (_ & r & Hr & Hyr).
    eapply disj_inside; [apply Hin; exact Hx|exact Hyr|apply Hfr; exact Hr].
  - cbn [pairwise]. split; [|exact HR]. rewrite Forall_forall. exact Hfr.
  - intros b Hb. apply in_app_or in Hb. destruct Hb as [Hb|Hb].
    + destruct (Hin b Hb) as (Hpos & Hins). split; [exact Hpos|]. exists (a, len). split; [left; reflexivity|exact Hins].
    + destruct (HI b Hb) as (Hpos & r & Hr & Hbr). split; [exact Hpos|]. exists r. split; [right; exact Hr|exact Hbr].
Qed.

Lemma perm_pull {A} (P X X' Q : list A) x : Permutation X (x :: X') -> Permutation (P ++ X ++ Q) (x :: P ++ X' ++ Q).
Proof.
  intros H. eapply perm_trans; [apply Permutation_app_head; apply Permutation_app_tail; exact H|].
  cbn [app]. apply Permutation_sym, Permutation_middle.
Qed.

Lemma perm_pull_end {A} (P X X' : list A) x : Permutation X (x :: X') -> Permutation (P ++ X) (x :: P ++ X').
Proof.
  intros H. eapply perm_trans; [apply Permutation_app_head; exact H|]. apply Permutation_sym, Permutation_middle.
Qed.

Lemma perm_push {A} (ML ML' P X Q : list A) x : Permutation ML (x :: ML') ->
  Permutation (ML ++ P ++ X ++ Q) (ML' ++ P ++ (x :: X) ++ Q).
Proof.
  intros H. eapply perm_trans; [apply Permutation_app_tail; exact H|]. cbn [app].
  eapply perm_trans; [apply Permutation_middle|]. apply Permutation_app_head.
  apply (Permutation_middle P (X ++ Q) x).
Qed.

(** what an allocation does to the set of blocks *)
Lemma flmalloc_cases (mmap : list region -> Z -> Z) f w size p f' i rs :
  size_class size = Class i rs -> flmalloc mmap f w size = AOk p f' ->
  (fl_regs f' = fl_regs f /\
   Permutation (map blk_of_ent (fl_lists f)) ((p, 2 ^ i) :: map blk_of_ent (fl_lists f'))) \/
  (exists len newb, fl_regs f' = (p, len) :: fl_regs f /\ p = mmap (fl_regs f) len /\ 0 < len /\
     Permutation ((p, 2 ^ i) :: map blk_of_ent (fl_lists f')) (newb ++ map blk_of_ent (fl_lists f)) /\
     pairwise newb /\ (forall b, In b newb -> 0 < snd b /\ inside b (p, len))).
Proof.
  intros Ec Hm. destruct (size_class_Class _ _ _ Ec) as (Hrs & Hi).
  assert (Hpos : 0 < 2 ^ i) by (apply Z.pow_pos_nonneg; lia).
  unfold flmalloc in Hm. rewrite Ec in Hm.
  destruct (fl_pop w i (fl_lists f)) as [[q r]|] eqn:Ep.
  - injection Hm as -> <-. left. cbn [fl_regs fl_lists]. split; [reflexivity|].
    apply fl_pop_perm in Ep. apply (Permutation_map blk_of_ent) in Ep. exact Ep.
  - right. destruct (rs <? PAGE_SIZE) eqn:Esm.
    + apply Z.ltb_lt in Esm. subst rs.
      pose proof (small_class_idx i Hi Esm) as Hi12.
      destruct (page_split i ltac:(lia)) as (Hsplit & Hk).
      set (a := mmap (fl_regs f) PAGE_SIZE) in *.
      destruct (carve CARVE_FUEL (a + 2 ^ i) (a + PAGE_SIZE) (2 ^ i)) as [ps|] eqn:Ecv; [|discriminate].
      injection Hm as <- <-.
      replace (a + PAGE_SIZE) with ((a + 2 ^ i) + (2 ^ (12 - i) - 1) * 2 ^ i) in Ecv by lia.
      destruct (carve_spec (2 ^ i) Hpos CARVE_FUEL (a + 2 ^ i) (2 ^ (12 - i) - 1) ps ltac:(lia) Ecv) as (HF & HPc).
      exists PAGE_SIZE, ((a, 2 ^ i) :: map (fun q => (q, 2 ^ i)) ps). cbn [fl_regs fl_lists].
      split; [reflexivity|]. split; [reflexivity|]. split; [unfold PAGE_SIZE; lia|]. split; [|split].
      * cbn [app]. apply perm_skip. rewrite map_app, map_rev, map_map. cbn [blk_of_ent fst snd].
        apply Permutation_app_tail. apply Permutation_sym, Permutation_rev.
      * cbn [pairwise]. split; [|exact HPc].
        rewrite Forall_map. eapply Forall_impl; [|exact HF]. intros q Hq. cbv beta in Hq. left. cbn. lia.
      * intros b [<-|Hb].
        -- cbn. unfold inside; cbn. lia.
        -- apply in_map_iff in Hb. destruct Hb as (q & <- & Hq).
           rewrite Forall_forall in HF. specialize (HF q Hq). cbn. unfold inside; cbn. lia.
    + apply Z.ltb_ge in Esm. injection Hm as <- <-. subst rs.
      exists (2 ^ i), [(mmap (fl_regs f) (2 ^ i), 2 ^ i)]. cbn [fl_regs fl_lists app].
      split; [reflexivity|]. split; [reflexivity|]. split; [exact Hpos|]. split; [apply Permutation_refl|].
      split; [cbn; split; [constructor|exact I]|].
      intros b [<-|[]]. cbn. unfold inside; cbn. lia.
Qed.

Lemma pop_w_perm w : forall l p r, pop_w w l = Some (p, r) -> Permutation l ((w, p) :: r).
Proof.
  induction l as [|[w' q] l IH]; intros p r H; cbn [pop_w] in H; [discriminate|].
  destruct (Nat.eqb w' w) eqn:E.
  - apply Nat.eqb_eq in E. injection H as -> ->. subst. apply Permutation_refl.
  - destruct (pop_w w l) as [[q' r']|] eqn:E2; [|discriminate].
    injection H as -> <-. eapply perm_trans; [apply perm_skip; apply IH; reflexivity|apply perm_swap].
Qed.

Lemma item_remove_perm k p : forall l it r, item_remove k p l = Some (it, r) ->
  Permutation l (it :: r) /\ i_kind it = k /\ i_ptr it = p.
Proof.
  induction l as [|x l IH]; intros it r H; cbn [item_remove] in H; [discriminate|].
  destruct (Bool.eqb (i_kind x) k && Z.eqb (i_ptr x) p)%bool eqn:E.
  - apply andb_true_iff in E. destruct E as (E1 & E2). apply eqb_prop in E1. apply Z.eqb_eq in E2.
    injection H as -> ->. repeat split; auto.
  - destruct (item_remove k p l) as [[y r']|] eqn:E2; [|discriminate].
    injection H as -> <-. destruct (IH _ _ eq_refl) as (HP & Hk & Hp). repeat split; auto.
    eapply perm_trans; [apply perm_skip; exact HP|apply perm_swap].
Qed.

Section Oracle.
  Variable mmap : list region -> Z -> Z.
  Variable gsz dsz : Z.
  Variable D : list (Z * Z).   (* blocks cached in lists that were dropped at an earlier myth_fini *)
  Hypothesis mmap_fresh : forall regs len r, 0 < len -> In r regs -> disj (mmap regs len, len) r.
  Hypothesis gsz_ok : 16 <= gsz /\ gsz + 4095 < 2 ^ 64.
  Hypothesis dsz_ok : 1 <= dsz /\ dsz + 4095 < 2 ^ 64.

  Definition word_ok (m : mem) (it : item) : Prop :=
    i_kind it = true ->
    load m (i_ptr it + 8) = i_word it /\
    fst (i_blk it) <= i_ptr it + 8 /\ i_ptr it + 16 <= fst (i_blk it) + snd (i_blk it) /\
    ((i_word it = 0 /\ i_blk it = def_blk gsz (i_ptr it)) \/
     (i_word it <> 0 /\ exists i, size_class (i_word it) = Class i (2 ^ i) /\
                                  i_blk it = (i_ptr it - i_word it + 16, 2 ^ i))).
  Definition desc_ok (it : item) : Prop := i_kind it = false -> i_blk it = desc_blk dsz (i_ptr it).
  Definition def_ok (m : mem) (e : nat * Z) : Prop := load m (snd e + 8) = 0.

  Definition SInv (h : hs) : Prop :=
    BInv (all_blocks gsz dsz h ++ D) (fl_regs (s_fl (hs_st h))) /\
    Forall (word_ok (s_mem (hs_st h))) (hs_live h) /\
    Forall desc_ok (hs_live h) /\
    Forall (def_ok (s_mem (hs_st h))) (s_def (hs_st h)).

  (** the state at the start of an epoch: all lists empty *)
  Lemma SInv_start R m : BInv D R -> SInv (mkHs (mkS (mkFl [] R) [] [] m) []).
  Proof.
    intros H. split; [exact H|]. split; [constructor|]. split; constructor.
  Qed.

  Lemma def_blk_holds top :
    fst (def_blk gsz top) <= top + 8 /\ top + 16 <= fst (def_blk gsz top) + snd (def_blk gsz top) /\ 0 < snd (def_blk gsz top).
  Proof.
    destruct gsz_ok as (G1 & G2). destruct (round_page_spec gsz ltac:(lia) G2) as (Hr & _ & _).
    unfold def_blk; cbn [fst snd]. lia.
  Qed.

  (** a store into the word of a block does not change the word of any disjoint block *)
  Lemma load_frame m A v nb xb xp :
    disj nb xb -> fst nb <= A -> A + 8 <= fst nb + snd nb ->
    fst xb <= xp + 8 -> xp + 16 <= fst xb + snd xb ->
    load (store m A v) (xp + 8) = load m (xp + 8).
  Proof. intros Hd H1 H2 H3 H4. apply load_store_other. unfold disj in Hd. lia. Qed.

  Lemma word_ok_frame m A v nb it :
    word_ok m it -> disj nb (i_blk it) -> fst nb <= A -> A + 8 <= fst nb + snd nb ->
    word_ok (store m A v) it.
  Proof.
    intros Hw Hd H1 H2 Hk. destruct (Hw Hk) as (Hl & Hc1 & Hc2 & Hsh).
    split; [|auto]. rewrite (load_frame m A v nb (i_blk it) (i_ptr it)); auto.
  Qed.

  Lemma def_ok_frame m A v nb e :
    def_ok m e -> disj nb (def_blk gsz (snd e)) -> fst nb <= A -> A + 8 <= fst nb + snd nb ->
    def_ok (store m A v) e.
  Proof.
    intros Hw Hd H1 H2. unfold def_ok in *. destruct (def_blk_holds (snd e)) as (D1 & D2 & _).
    rewrite (load_frame m A v nb (def_blk gsz (snd e)) (snd e)); auto.
  Qed.

  (** after a new live block [nb] (head of the block list) received a store inside it, every
      other item keeps its word *)
  Lemma frame_all (h : hs) nb A v rest :
    pairwise (nb :: rest) ->
    (forall it, In it (hs_live h) -> In (i_blk it) rest) ->
    (forall e, In e (s_def (hs_st h)) -> In (def_blk gsz (snd e)) rest) ->
    fst nb <= A -> A + 8 <= fst nb + snd nb ->
    Forall (word_ok (s_mem (hs_st h))) (hs_live h) -> Forall (def_ok (s_mem (hs_st h))) (s_def (hs_st h)) ->
    Forall (word_ok (store (s_mem (hs_st h)) A v)) (hs_live h) /\
    Forall (def_ok (store (s_mem (hs_st h)) A v)) (s_def (hs_st h)).
  Proof.
    intros (HF & _) HL HD H1 H2 HW HDf. rewrite Forall_forall in HF. split.
    - rewrite Forall_forall in *. intros it Hit. eapply word_ok_frame; [apply HW; exact Hit|apply HF, HL, Hit|exact H1|exact H2].
    - rewrite Forall_forall in *. intros e He. eapply def_ok_frame; [apply HDf; exact He|apply HF, HD, He|exact H1|exact H2].
  Qed.

  Lemma in_live_blocks (h : hs) it : In it (hs_live h) -> In (i_blk it) (all_blocks gsz dsz h ++ D).
  Proof. intros H. apply in_or_app. left. unfold all_blocks. apply in_or_app. left. apply in_map. exact H. Qed.
  Lemma in_def_blocks (h : hs) e : In e (s_def (hs_st h)) -> In (def_blk gsz (snd e)) (all_blocks gsz dsz h ++ D).
  Proof.
    intros H. apply in_or_app. left. unfold all_blocks, free_blocks. apply in_or_app. right. apply in_or_app. right.
    apply in_or_app. left. apply (in_map (fun e => def_blk gsz (snd e))). exact H.
  Qed.

  Lemma sstep_inv h o h' : SInv h -> sstep mmap gsz dsz h o = Some h' -> SInv h'.
  Proof.
    intros (HB & HW & HDs & HDf) Hst. destruct gsz_ok as (G1 & G2). destruct dsz_ok as (D1 & D2).
    destruct h as [st live]. cbn [hs_st hs_live] in *.
    destruct o as [w n|w top|w|w p]; cbn [sstep hs_st hs_live] in Hst.
    - (* SGet *)
      destruct (n =? 0) eqn:En.
      + (* default *)
        unfold stack_get in Hst. cbn [Z.eqb] in Hst.
        destruct (pop_w w (s_def st)) as [[top r]|] eqn:Ep.
        * injection Hst as <-. apply pop_w_perm in Ep.
          assert (Hin : In (w, top) (s_def st)) by (eapply Permutation_in; [apply Permutation_sym; exact Ep|left; reflexivity]).
          split; [|split; [|split]]; cbn [hs_st hs_live s_fl s_mem s_def].
          -- eapply BInv_perm; [|exact HB]. apply Permutation_app_tail. unfold all_blocks, free_blocks. cbn [hs_st hs_live s_fl s_def s_desc map i_blk app].
             rewrite !app_assoc. rewrite <- !app_assoc.
             rewrite (app_assoc (map i_blk live)).
             eapply perm_trans; [apply (perm_pull (map i_blk live ++ map blk_of_ent (fl_lists (s_fl st)))
                                                  (map (fun e => def_blk gsz (snd e)) (s_def st))
                                                  (map (fun e => def_blk gsz (snd e)) r) _ (def_blk gsz top))|].
             { apply (Permutation_map (fun e => def_blk gsz (snd e))) in Ep. exact Ep. }
             rewrite <- !app_assoc. apply Permutation_refl.
          -- constructor; [|exact HW]. intros _. cbn [i_ptr i_word i_blk].
             rewrite Forall_forall in HDf. specialize (HDf _ Hin). unfold def_ok in HDf. cbn [snd] in HDf.
             destruct (def_blk_holds top) as (B1 & B2 & _). repeat split; auto.
          -- constructor; [intros Hk; discriminate|exact HDs].
          -- eapply Permutation_Forall in HDf; [|exact Ep]. inversion HDf; assumption.
        * injection Hst as <-.
          set (len := round_page gsz) in *. set (a := mmap (fl_regs (s_fl st)) len) in *.
          set (top := a + gsz - 16) in *.
          destruct (round_page_spec gsz ltac:(lia) G2) as (Hr & _ & _). fold len in Hr.
          assert (Hblk : def_blk gsz top = (a, len)) by (unfold def_blk, top; f_equal; lia).
          assert (HB' : BInv ((a, len) :: all_blocks gsz dsz (mkHs st live) ++ D) ((a, len) :: fl_regs (s_fl st))).
          { apply (BInv_fresh mmap _ _ a len [(a, len)] mmap_fresh HB); [lia|reflexivity|cbn; split; [constructor|exact I]|].
            intros b [<-|[]]. cbn. unfold inside; cbn. lia. }
          destruct (frame_all (mkHs st live) (a, len) (top + 8) 0 (all_blocks gsz dsz (mkHs st live) ++ D))
            as (HW' & HDf'); [exact (proj1 HB')|apply in_live_blocks|apply in_def_blocks| | |exact HW|exact HDf|];
            [cbn; unfold top; lia|cbn; unfold top; lia|].
          split; [|split; [|split]]; cbn [hs_st hs_live s_fl s_mem s_def add_region fl_regs].
          -- unfold all_blocks, free_blocks. cbn [hs_st hs_live s_fl s_def s_desc add_region fl_lists map i_blk app].
             rewrite Hblk. exact HB'.
          -- constructor; [|exact HW']. intros _. cbn [i_ptr i_word i_blk].
             split; [apply load_store_same|]. destruct (def_blk_holds top) as (B1 & B2 & _). auto.
          -- constructor; [intros Hk; discriminate|exact HDs].
          -- exact HDf'.
      + (* custom *)
        destruct ((1 <=? n) && (n + 4095 <? 2 ^ 64) && (round_page n <=? 2 ^ 30))%bool eqn:Eg; [|discriminate].
        apply andb_true_iff in Eg. destruct Eg as (Eg & Eg3). apply andb_true_iff in Eg. destruct Eg as (Eg1 & Eg2).
        apply Z.leb_le in Eg1. apply Z.ltb_lt in Eg2. apply Z.leb_le in Eg3.
        set (r := round_page n) in *.
        destruct (size_class r) as [i rs| |] eqn:Ec; try discriminate.
        destruct (size_class_Class _ _ _ Ec) as (Hrs & Hi). subst rs.
        pose proof (round_page_pos n Eg1 Eg2) as Hr4. fold r in Hr4.
        destruct (size_class_spec r ltac:(lia)) as (i' & Hc' & _ & Hfit & _).
        rewrite Ec in Hc'. injection Hc' as <-.
        unfold stack_get in Hst. rewrite En in Hst. fold r in Hst.
        destruct (flmalloc mmap (s_fl st) w r) as [b f'| | |] eqn:Efl; try discriminate.
        injection Hst as <-.
        set (top := b + r - 16) in *.
        replace (top - r + 16) with b by (unfold top; lia).
        assert (HB' : exists rest, Permutation (all_blocks gsz dsz (mkHs (mkS f' (s_def st) (s_desc st) (store (s_mem st) (top + 8) r))
                                                  (mkI true top (b, 2 ^ i) r :: live))) ((b, 2 ^ i) :: rest) /\
                                   BInv (((b, 2 ^ i) :: rest) ++ D) (fl_regs f') /\
                                   (forall x, In x (map i_blk live) -> In x rest) /\
                                   (forall e, In e (s_def st) -> In (def_blk gsz (snd e)) rest)).
        { destruct (flmalloc_cases mmap _ _ _ _ _ _ _ Ec Efl) as [(Hregs & HP)|(len & newb & Hregs & Ha & Hlen & HP & Hnew & Hin)].
          - exists (map i_blk live ++ map blk_of_ent (fl_lists f') ++ map (fun e => def_blk gsz (snd e)) (s_def st)
                      ++ map (fun e => desc_blk dsz (snd e)) (s_desc st)).
            split; [apply Permutation_refl|]. split; [|split].
            + rewrite Hregs. eapply BInv_perm; [|exact HB]. apply Permutation_app_tail.
              unfold all_blocks, free_blocks. cbn [hs_st hs_live s_fl s_def s_desc].
              apply (perm_pull (map i_blk live) _ _ _ _ HP).
            + intros x Hx. apply in_or_app. left. exact Hx.
            + intros e He. apply in_or_app. right. apply in_or_app. right. apply in_or_app. left.
              apply (in_map (fun e => def_blk gsz (snd e))). exact He.
          - exists (map i_blk live ++ map blk_of_ent (fl_lists f') ++ map (fun e => def_blk gsz (snd e)) (s_def st)
                      ++ map (fun e => desc_blk dsz (snd e)) (s_desc st)).
            split; [apply Permutation_refl|]. split; [|split].
            + rewrite Hregs. eapply BInv_perm;
                [|apply (BInv_fresh mmap _ _ b len newb mmap_fresh HB Hlen Ha Hnew Hin)].
              rewrite app_assoc. apply Permutation_app_tail.
              unfold all_blocks, free_blocks. cbn [hs_st hs_live s_fl s_def s_desc].
              (* newb ++ L ++ F1 ++ R  ~  (b,2^i) :: L ++ F1' ++ R   with  (b,2^i)::F1' ~ newb ++ F1 *)
              set (L := map i_blk live). set (R := map (fun e => def_blk gsz (snd e)) (s_def st) ++ map (fun e => desc_blk dsz (snd e)) (s_desc st)).
              eapply perm_trans; [apply Permutation_app_swap_app|].
              eapply perm_trans; [apply Permutation_app_head; rewrite app_assoc; apply Permutation_app_tail; apply Permutation_sym; exact HP|].
              cbn [app]. apply Permutation_sym, Permutation_middle.
            + intros x Hx. apply in_or_app. left. exact Hx.
            + intros e He. apply in_or_app. right. apply in_or_app. right. apply in_or_app. left.
              apply (in_map (fun e => def_blk gsz (snd e))). exact He. }
        destruct HB' as (rest & HPall & HBr & HLr & HDr).
        destruct (frame_all (mkHs st live) (b, 2 ^ i) (top + 8) r (rest ++ D)) as (HW' & HDf');
          [exact (proj1 HBr)|intros it Hit; apply in_or_app; left; apply HLr, in_map, Hit
          |intros e He; apply in_or_app; left; apply HDr, He| | |exact HW|exact HDf|];
          [cbn; unfold top; lia|cbn; unfold top; lia|].
        split; [|split; [|split]]; cbn [hs_st hs_live s_fl s_mem s_def].
        -- eapply BInv_perm; [apply Permutation_app_tail, Permutation_sym; exact HPall|exact HBr].
        -- constructor; [|exact HW']. intros _. cbn [i_ptr i_word i_blk fst snd].
           split; [apply load_store_same|]. split; [unfold top; lia|]. split; [unfold top; lia|].
           right. split; [lia|]. exists i. split; [exact Ec|]. f_equal. unfold top. lia.
        -- constructor; [intros Hk; discriminate|exact HDs].
        -- exact HDf'.
    - (* SRel *)
      destruct (item_remove true top live) as [[it l']|] eqn:Er; [|discriminate].
      destruct (item_remove_perm _ _ _ _ _ Er) as (HPl & Hk & Hp).
      assert (Hit : In it live) by (eapply Permutation_in; [apply Permutation_sym; exact HPl|left; reflexivity]).
      pose proof HW as HWa. rewrite Forall_forall in HWa. destruct (HWa it Hit Hk) as (Hl & Hc1 & Hc2 & Hsh).
      rewrite Hp in *.
      assert (HW' : Forall (word_ok (s_mem st)) l') by (eapply Permutation_Forall in HW; [|exact HPl]; inversion HW; assumption).
      assert (HDs' : Forall desc_ok l') by (eapply Permutation_Forall in HDs; [|exact HPl]; inversion HDs; assumption).
      assert (HPb : Permutation (map i_blk live) (i_blk it :: map i_blk l')) by (apply (Permutation_map i_blk) in HPl; exact HPl).
      unfold stack_release in Hst. rewrite Hl in Hst.
      destruct Hsh as [(Hw0 & Hblk)|(Hwn & i & Hci & Hblk)].
      + rewrite Hw0 in Hst. cbn [Z.eqb] in Hst. injection Hst as <-.
        split; [|split; [|split]]; cbn [hs_st hs_live s_fl s_mem s_def].
        * eapply BInv_perm; [|exact HB]. apply Permutation_app_tail. unfold all_blocks, free_blocks. cbn [hs_st hs_live s_fl s_def s_desc map snd].
          rewrite <- Hblk.
          apply (perm_push (map i_blk live) (map i_blk l') (map blk_of_ent (fl_lists (s_fl st))) _ _ (i_blk it) HPb).
        * exact HW'.
        * exact HDs'.
        * constructor; [unfold def_ok; cbn [snd]; rewrite Hl; exact Hw0|exact HDf].
      + destruct (i_word it =? 0) eqn:E0; [apply Z.eqb_eq in E0; contradiction|].
        unfold flfree in Hst. rewrite Hci in Hst. injection Hst as <-.
        split; [|split; [|split]]; cbn [hs_st hs_live s_fl s_mem s_def fl_regs].
        * eapply BInv_perm; [|exact HB]. apply Permutation_app_tail. unfold all_blocks, free_blocks. cbn [hs_st hs_live s_fl s_def s_desc fl_lists map].
          change (blk_of_ent (w, i, top - i_word it + 16)) with (top - i_word it + 16, 2 ^ i). rewrite <- Hblk.
          apply (perm_push (map i_blk live) (map i_blk l') [] _ _ (i_blk it) HPb).
        * exact HW'.
        * exact HDs'.
        * exact HDf.
    - (* DGet *)
      unfold desc_get in Hst. destruct (pop_w w (s_desc st)) as [[p r]|] eqn:Ep.
      + injection Hst as <-. apply pop_w_perm in Ep.
        split; [|split; [|split]]; cbn [hs_st hs_live s_fl s_mem s_def].
        * eapply BInv_perm; [|exact HB]. apply Permutation_app_tail. unfold all_blocks, free_blocks. cbn [hs_st hs_live s_fl s_def s_desc map i_blk app].
          rewrite !app_assoc. apply perm_pull_end.
          apply (Permutation_map (fun e => desc_blk dsz (snd e))) in Ep. exact Ep.
        * constructor; [intros Hk; discriminate|exact HW].
        * constructor; [intros _; reflexivity|exact HDs].
        * exact HDf.
      + injection Hst as <-.
        set (len := round_page dsz) in *. set (a := mmap (fl_regs (s_fl st)) len) in *.
        destruct (round_page_spec dsz ltac:(lia) D2) as (Hr & _ & _). fold len in Hr.
        split; [|split; [|split]]; cbn [hs_st hs_live s_fl s_mem s_def add_region fl_regs].
        * unfold all_blocks, free_blocks. cbn [hs_st hs_live s_fl s_def s_desc add_region fl_lists map i_blk app].
          apply (BInv_fresh mmap _ _ a len [desc_blk dsz a] mmap_fresh HB); [lia|reflexivity|cbn; split; [constructor|exact I]|].
          intros b [<-|[]]. unfold desc_blk. fold len. cbn. unfold inside; cbn. lia.
        * constructor; [intros Hk; discriminate|exact HW].
        * constructor; [intros _; reflexivity|exact HDs].
        * exact HDf.
    - (* DRel *)
      destruct (item_remove false p live) as [[it l']|] eqn:Er; [|discriminate].
      destruct (item_remove_perm _ _ _ _ _ Er) as (HPl & Hk & Hp).
      assert (Hit : In it live) by (eapply Permutation_in; [apply Permutation_sym; exact HPl|left; reflexivity]).
      pose proof HDs as HDa. rewrite Forall_forall in HDa. pose proof (HDa it Hit Hk) as Hblk. rewrite Hp in Hblk.
      assert (HW' : Forall (word_ok (s_mem st)) l') by (eapply Permutation_Forall in HW; [|exact HPl]; inversion HW; assumption).
      assert (HDs' : Forall desc_ok l') by (eapply Permutation_Forall in HDs; [|exact HPl]; inversion HDs; assumption).
      assert (HPb : Permutation (map i_blk live) (i_blk it :: map i_blk l')) by (apply (Permutation_map i_blk) in HPl; exact HPl).
      injection Hst as <-.
      split; [|split; [|split]]; cbn [hs_st hs_live s_fl s_mem s_def desc_release].
      + eapply BInv_perm; [|exact HB]. apply Permutation_app_tail. unfold all_blocks, free_blocks. cbn [hs_st hs_live s_fl s_def s_desc desc_release map snd].
        rewrite <- Hblk.
        pose proof (perm_push (map i_blk live) (map i_blk l')
                      (map blk_of_ent (fl_lists (s_fl st)) ++ map (fun e => def_blk gsz (snd e)) (s_def st))
                      (map (fun e => desc_blk dsz (snd e)) (s_desc st)) [] (i_blk it) HPb) as HP.
        rewrite !app_nil_r in HP. rewrite <- !app_assoc in HP. exact HP.
      + exact HW'.
      + exact HDs'.
      + exact HDf.
  Qed.

  Lemma srun_inv : forall ops h h', SInv h -> srun mmap gsz dsz ops h = Some h' -> SInv h'.
  Proof.
    induction ops as [|o ops IH]; intros h h' Hinv H; cbn [srun] in H.
    - injection H as <-. exact Hinv.
    - destruct (sstep mmap gsz dsz h o) as [h1|] eqn:E; [|discriminate].
      eapply IH; [eapply sstep_inv; eassumption|exact H].
  Qed.

  (** from any state that satisfies the invariant (the start of an epoch) *)
  Theorem stack_histories_from : forall ops h0 h, SInv h0 -> srun mmap gsz dsz ops h0 = Some h ->
    pairwise (all_blocks gsz dsz h ++ D) /\
    (forall b, In b (all_blocks gsz dsz h ++ D) ->
       0 < snd b /\ exists r, In r (fl_regs (s_fl (hs_st h))) /\ inside b r) /\
    (forall it, In it (hs_live h) -> i_kind it = true ->
       fst (i_blk it) <= i_ptr it + 16 - (if i_word it =? 0 then gsz else i_word it) /\
       i_ptr it + 16 <= fst (i_blk it) + snd (i_blk it) /\
       match release_target (s_mem (hs_st h)) (i_ptr it) with
       | RDefault t => i_word it = 0 /\ t = i_ptr it /\ i_blk it = def_blk gsz t
       | RClass i s => i_word it <> 0 /\ i_blk it = (s, 2 ^ i)
       | RBad => False
       end).
  Proof.
    intros ops h0 h H0 H. destruct (srun_inv ops h0 h H0 H) as ((HP & _ & HI) & HW & _ & _).
    split; [exact HP|]. split; [exact HI|].
    intros it Hit Hk. rewrite Forall_forall in HW. destruct (HW it Hit Hk) as (Hl & Hc1 & Hc2 & Hsh).
    unfold release_target. rewrite Hl.
    destruct Hsh as [(Hw0 & Hblk)|(Hwn & i & Hci & Hblk)].
    - rewrite Hw0. cbn [Z.eqb]. rewrite Hblk. unfold def_blk; cbn [fst snd].
      destruct gsz_ok as (G1 & G2). destruct (round_page_spec gsz ltac:(lia) G2) as (Hr & _ & _).
      repeat split; try lia.
    - destruct (i_word it =? 0) eqn:E0; [apply Z.eqb_eq in E0; contradiction|].
      rewrite Hci. rewrite Hblk in *. cbn [fst snd] in *. repeat split; try lia; try exact Hwn.
  Qed.
End Oracle.

(** one run of the library (no re-initialisation): nothing was dropped before *)
Theorem stack_histories : forall mmap gsz dsz,
  (forall regs len r, 0 < len -> In r regs -> disj (mmap regs len, len) r) ->
  16 <= gsz /\ gsz + 4095 < 2 ^ 64 -> 1 <= dsz /\ dsz + 4095 < 2 ^ 64 ->
  forall ops h, srun mmap gsz dsz ops hs_init = Some h ->
    pairwise (all_blocks gsz dsz h) /\
    (forall b, In b (all_blocks gsz dsz h) ->
       0 < snd b /\ exists r, In r (fl_regs (s_fl (hs_st h))) /\ inside b r) /\
    (forall it, In it (hs_live h) -> i_kind it = true ->
       fst (i_blk it) <= i_ptr it + 16 - (if i_word it =? 0 then gsz else i_word it) /\
       i_ptr it + 16 <= fst (i_blk it) + snd (i_blk it) /\
       match release_target (s_mem (hs_st h)) (i_ptr it) with
       | RDefault t => i_word it = 0 /\ t = i_ptr it /\ i_blk it = def_blk gsz t
       | RClass i s => i_word it <> 0 /\ i_blk it = (s, 2 ^ i)
       | RBad => False
       end).
Proof.
  intros mmap gsz dsz Hf Hg Hd ops h H.
  assert (H0 : SInv gsz dsz [] hs_init).
  { apply (SInv_start gsz dsz [] [] []). split; [exact I|]. split; [exact I|]. intros b []. }
  pose proof (stack_histories_from mmap gsz dsz [] Hf Hg Hd ops hs_init h H0 H) as HH.
  rewrite app_nil_r in HH. exact HH.
Qed.

(** * epochs *)
Lemma gsz_valid_ok g : gsz_valid g = true -> 16 <= g /\ g + 4095 < 2 ^ 64.
Proof.
  unfold gsz_valid. intros H. apply andb_true_iff in H. destruct H as (H1 & H2).
  apply Z.leb_le in H1. apply Z.ltb_lt in H2. auto.
Qed.

Section Epochs.
  Variable mmap : list region -> Z -> Z.
  Variable dsz : Z.
  Hypothesis mmap_fresh : forall regs len r, 0 < len -> In r regs -> disj (mmap regs len, len) r.
  Hypothesis dsz_ok : 1 <= dsz /\ dsz + 4095 < 2 ^ 64.

  (** the invariant survives myth_fini / myth_init_ex: what was cached joins the dropped blocks *)
  Lemma SInv_epoch g g' Dr h : SInv g dsz Dr h -> hs_live h = [] ->
    SInv g' dsz (free_blocks g dsz (hs_st h) ++ Dr) (mkHs (epoch_reset (hs_st h)) []).
  Proof.
    intros (HB & _) Hl. unfold epoch_reset. apply SInv_start.
    unfold all_blocks in HB. rewrite Hl in HB. cbn [map app] in HB. exact HB.
  Qed.

  Lemma erun_inv : forall epochs h Dr g h' Dr' g',
    SInv g dsz Dr h -> erun mmap dsz epochs h Dr g = Some (h', Dr', g') -> SInv g' dsz Dr' h'.
  Proof.
    induction epochs as [|[g1 ops] rest IH]; intros h Dr g h' Dr' g' Hinv H; cbn [erun] in H.
    - injection H as <- <- <-. exact Hinv.
    - destruct (hs_live h) eqn:El; [|discriminate].
      destruct (gsz_valid g1) eqn:Eg; [|discriminate].
      destruct (srun mmap g1 dsz ops (mkHs (epoch_reset (hs_st h)) [])) as [h1|] eqn:Er; [|discriminate].
      eapply IH; [|exact H].
      eapply (srun_inv mmap g1 dsz _ mmap_fresh (gsz_valid_ok _ Eg) dsz_ok); [|exact Er].
      apply SInv_epoch; assumption.
  Qed.

  (** C12_epoch_histories: over any number of myth_init_ex / myth_fini cycles with any valid
      default stack sizes: the blocks in use or cached in the current epoch are pairwise
      disjoint AND disjoint from every block that sat in a list dropped at an earlier
      myth_fini (with the extent it had then): whatever is handed out after a re-initialisation
      is fresh from mmap or was released in the current epoch.  The size words of the live
      stacks are intact and a default stack extends over the default size of its own epoch. *)
  Theorem epoch_histories : forall epochs g0 h Dr g,
    erun mmap dsz epochs hs_init [] g0 = Some (h, Dr, g) -> epochs <> [] ->
    pairwise (all_blocks g dsz h ++ Dr) /\
    (forall b, In b (all_blocks g dsz h ++ Dr) ->
       0 < snd b /\ exists r, In r (fl_regs (s_fl (hs_st h))) /\ inside b r) /\
    (forall it, In it (hs_live h) -> i_kind it = true ->
       fst (i_blk it) <= i_ptr it + 16 - (if i_word it =? 0 then g else i_word it) /\
       i_ptr it + 16 <= fst (i_blk it) + snd (i_blk it) /\
       match release_target (s_mem (hs_st h)) (i_ptr it) with
       | RDefault t => i_word it = 0 /\ t = i_ptr it /\ i_blk it = def_blk g t
       | RClass i s => i_word it <> 0 /\ i_blk it = (s, 2 ^ i)
       | RBad => False
       end).
  Proof.
    intros epochs g0 h Dr g H Hne.
    assert (H0 : SInv g0 dsz [] hs_init).
    { apply (SInv_start g0 dsz [] [] []). split; [exact I|]. split; [exact I|]. intros b []. }
    (* the default size in force at the end is valid: it was checked when its epoch started *)
    assert (Hg : 16 <= g /\ g + 4095 < 2 ^ 64).
    { clear H0. revert g0 H. generalize hs_init, (@nil (Z * Z)).
      induction epochs as [|[g1 ops] rest IH]; [contradiction|]. intros h0 D0 g0 H. cbn [erun] in H.
      destruct (hs_live h0); [|discriminate].
      destruct (gsz_valid g1) eqn:Eg; [|discriminate].
      destruct (srun mmap g1 dsz ops _) as [h1|]; [|discriminate].
      destruct rest as [|e rest'].
      - cbn [erun] in H. injection H as _ _ <-. apply gsz_valid_ok. exact Eg.
      - eapply IH; [discriminate|exact H]. }
    pose proof (erun_inv epochs hs_init [] g0 h Dr g H0 H) as Hinv.
    apply (stack_histories_from mmap g dsz Dr mmap_fresh Hg dsz_ok [] h h Hinv). reflexivity.
  Qed.
End Epochs.

(** * custom sizes above the allocator's range (candidate finding C12-stack-size-above-1GiB) *)
(** just above 2^30 (and up to 2^32) the class index is past the end of the free-list array:
    what myth_create_ex does with such an attribute is an out-of-bounds access, in every state *)
Lemma stack_above_1GiB_out_of_range : forall mmap gsz st w n,
  2 ^ 30 < n -> n + 4095 <= 2 ^ 32 ->
  exists i, stack_get mmap gsz st w n = SOutOfRange i /\ 31 <= i <= 32.
Proof.
  intros mmap gsz st w n H1 H2.
  destruct (round_page_spec n ltac:(lia) ltac:(lia)) as (Hr & _ & _).
  destruct (size_class_out_of_range (round_page n) ltac:(lia)) as (i & Hc & Hi).
  exists i. split; [|exact Hi]. unfold stack_get.
  destruct (n =? 0) eqn:E; [apply Z.eqb_eq in E; lia|].
  unfold flmalloc. rewrite Hc. reflexivity.
Qed.

(** beyond 2^32 the 32-bit truncation picks a small class: a request of 4 GiB + 4 KiB is served
    with a 4 KiB block and a top pointer 4 GiB above it *)
Lemma stack_4GiB_refuted : forall mmap gsz w,
  exists top st', stack_get mmap gsz s_init w (2 ^ 32 + 4096) = SOk top st' /\
    fl_regs (s_fl st') = [(mmap [] 4096, 4096)] /\ top = mmap [] 4096 + (2 ^ 32 + 4096) - 16.
Proof.
  intros mmap gsz w. eexists. eexists. split; [|split].
  - unfold stack_get. change (2 ^ 32 + 4096 =? 0) with false. cbv beta iota.
    change (round_page (2 ^ 32 + 4096)) with 4294971392.
    unfold flmalloc. change (size_class 4294971392) with (Class 12 4096).
    cbn [s_init s_fl fl_init fl_lists fl_pop fl_regs]. change (4096 <? PAGE_SIZE) with false. cbv beta iota.
    reflexivity.
  - reflexivity.
  - reflexivity.
Qed.

(** * the guarded API: total over all size_t values *)
Lemma stack_size_max : MYTH_STACK_SIZE_MAX = 2 ^ 30.
Proof. reflexivity. Qed.

Lemma attr_setstacksize_spec old s :
  (2 ^ 30 < s -> attr_setstacksize old s = (EINVAL, old)) /\
  (s <= 2 ^ 30 -> attr_setstacksize old s = (0, s)).
Proof.
  unfold attr_setstacksize. rewrite stack_size_max. split; intros H.
  - destruct (s >? 2 ^ 30) eqn:E; [reflexivity|]. rewrite Z.gtb_ltb in E. apply Z.ltb_ge in E. lia.
  - destruct (s >? 2 ^ 30) eqn:E; [|reflexivity]. rewrite Z.gtb_ltb in E. apply Z.ltb_lt in E. lia.
Qed.

(** a request of at least one page never carves: the allocation cannot run out of fuel *)
Lemma flmalloc_page_ok mmap f w r : 4096 <= r <= 2 ^ 30 -> exists b f', flmalloc mmap f w r = AOk b f'.
Proof.
  intros Hr. destruct (size_class_spec r ltac:(lia)) as (i & Hc & Hi & Hfit & _).
  unfold flmalloc. rewrite Hc. destruct (fl_pop w i (fl_lists f)) as [[p l]|]; [eauto|].
  assert (Hge : PAGE_SIZE <= 2 ^ i) by (unfold PAGE_SIZE; lia).
  destruct (2 ^ i <? PAGE_SIZE) eqn:E; [apply Z.ltb_lt in E; lia|]. eauto.
Qed.

(** Every value a [size_t] attribute can hold is either rejected with EINVAL - exactly the sizes
    above 2^30, and then nothing is allocated - or served: default size for 0, and for
    [1 <= n <= 2^30] a stack for which everything [release_same_class_custom] states holds. *)
Theorem guarded_create_total : forall mmap gsz st w n, 0 <= n < 2 ^ 64 ->
  (2 ^ 30 < n -> create_stack mmap gsz st w n = CEinval) /\
  (n <= 2 ^ 30 ->
     exists top st', create_stack mmap gsz st w n = CCreated top st' /\
                     stack_get mmap gsz st w n = SOk top st' /\
                     (1 <= n -> round_page n <= 2 ^ 30 /\ n + 4095 < 2 ^ 64)).
Proof.
  intros mmap gsz st w n Hn. unfold create_stack. rewrite stack_size_max. split; intros H.
  - destruct (n >? 2 ^ 30) eqn:E; [reflexivity|]. rewrite Z.gtb_ltb in E. apply Z.ltb_ge in E. lia.
  - destruct (n >? 2 ^ 30) eqn:E; [rewrite Z.gtb_ltb in E; apply Z.ltb_lt in E; lia|].
    assert (Hround : 1 <= n -> round_page n <= 2 ^ 30 /\ n + 4095 < 2 ^ 64).
    { intros H1. destruct (round_page_spec n ltac:(lia) ltac:(lia)) as (Hr & Hm & _). split; [|lia].
      (* 2^30 is a multiple of the page and the rounded size is the least multiple >= n *)
      pose proof (Z.div_mod (round_page n) 4096 ltac:(lia)) as Hd. rewrite Hm in Hd.
      assert (round_page n / 4096 <= 262144) by (apply Z.lt_succ_r; apply Z.nle_gt; intros Hc; nia).
      change (2 ^ 30) with (4096 * 262144). lia. }
    unfold stack_get. destruct (n =? 0) eqn:E0.
    + destruct (pop_w w (s_def st)) as [[top r]|]; eauto 10.
    + apply Z.eqb_neq in E0. destruct (Hround ltac:(lia)) as (Hr30 & Hov).
      pose proof (round_page_pos n ltac:(lia) Hov) as Hr4.
      destruct (flmalloc_page_ok mmap (s_fl st) w (round_page n) ltac:(lia)) as (b & f' & Hf).
      rewrite Hf. eauto 10.
Qed.

(** what the API accepts it serves correctly: a custom size that passes the guard gets a stack of
    at least that size inside one block, whose release recomputes the block and the class *)
Theorem accepted_size_served : forall mmap gsz st w n, 1 <= n <= 2 ^ 30 ->
  exists top st' b i,
    create_stack mmap gsz st w n = CCreated top st' /\
    size_class (round_page n) = Class i (2 ^ i) /\
    n <= round_page n <= 2 ^ i /\
    top = b + round_page n - 16 /\ b <= top /\ top + 16 <= b + 2 ^ i /\
    load (s_mem st') (top + 8) = round_page n /\
    (forall m, load m (top + 8) = round_page n -> release_target m top = RClass i b).
Proof.
  intros mmap gsz st w n Hn.
  destruct (guarded_create_total mmap gsz st w n ltac:(lia)) as (_ & Hok).
  destruct (Hok ltac:(lia)) as (top & st' & Hc & Hget & Hr). destruct (Hr ltac:(lia)) as (Hr30 & Hov).
  destruct (release_same_class_custom mmap gsz st w n top st' ltac:(lia) Hov Hr30 Hget)
    as (b & i & H1 & _ & H3 & H4 & H5 & H6 & H7 & H8 & H9).
  exists top, st', b, i. repeat split; try assumption; lia.
Qed.
