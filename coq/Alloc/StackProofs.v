(** C12 — proofs about the stack block / top / size-word arithmetic (Alloc/StackModel.v). *)
From Coq Require Import ZArith List Bool Lia.
From MT Require Import Alloc.SizeClassModel Alloc.SizeClassProofs Alloc.FlmallocModel Alloc.StackModel.
Import ListNotations.
Local Open Scope Z_scope.

Lemma load_store_same m a v : load (store m a v) a = v.
Proof. unfold store. cbn [load]. rewrite Z.eqb_refl. reflexivity. Qed.

Lemma load_store_other m a v a' : a <> a' -> load (store m a v) a' = load m a'.
Proof.
  intros H. unfold store. cbn [load]. destruct (a =? a') eqn:E; [apply Z.eqb_eq in E; contradiction|reflexivity].
Qed.

(** the release is a function of the size word only *)
Lemma stack_release_class st w top i b :
  release_target (s_mem st) top = RClass i b ->
  stack_release st w top =
  Some (mkS (mkFl ((w, i, b) :: fl_lists (s_fl st)) (fl_regs (s_fl st))) (s_def st) (s_desc st) (s_mem st)).
Proof.
  unfold release_target, stack_release, flfree. intros H.
  destruct (load (s_mem st) (top + 8) =? 0); [discriminate|].
  destruct (size_class (load (s_mem st) (top + 8))) as [i' rs| |]; try discriminate.
  assert (i' = i) by congruence. assert (top - load (s_mem st) (top + 8) + 16 = b) by congruence.
  subst. reflexivity.
Qed.

Lemma stack_release_default st w top :
  release_target (s_mem st) top = RDefault top ->
  stack_release st w top = Some (mkS (s_fl st) ((w, top) :: s_def st) (s_desc st) (s_mem st)).
Proof.
  unfold release_target, stack_release. intros H.
  destruct (load (s_mem st) (top + 8) =? 0); [reflexivity|].
  destruct (size_class (load (s_mem st) (top + 8))); discriminate.
Qed.

(** C12_release_same_class, custom sizes: for every request [n >= 1] whose page-rounded size
    is at most 2^30, the block [b] comes from class [i] of the rounded size, the stack
    [b, top+16) lies inside the block, the size word above the top holds the rounded size, and
    a release that reads this word recomputes exactly [b] and [i] - on whatever worker and
    whenever it happens. *)
Theorem release_same_class_custom : forall mmap gsz st w n top st',
  1 <= n -> n + 4095 < 2 ^ 64 -> round_page n <= 2 ^ 30 ->
  stack_get mmap gsz st w n = SOk top st' ->
  exists b i,
    size_class (round_page n) = Class i (2 ^ i) /\
    flmalloc mmap (s_fl st) w (round_page n) = AOk b (s_fl st') /\
    n <= round_page n < n + 4096 /\ round_page n <= 2 ^ i /\
    top = b + round_page n - 16 /\ b <= top /\ top + 16 <= b + 2 ^ i /\
    load (s_mem st') (top + 8) = round_page n /\
    (forall m, load m (top + 8) = round_page n -> release_target m top = RClass i b).
Proof.
  intros mmap gsz st w n top st' Hn Hov Hmax Hget.
  destruct (round_page_spec n ltac:(lia) Hov) as (Hr & _ & _).
  pose proof (round_page_pos n Hn Hov) as Hr4.
  destruct (size_class_spec (round_page n) ltac:(lia)) as (i & Hc & Hi & Hfit & _).
  unfold stack_get in Hget.
  destruct (n =? 0) eqn:En; [apply Z.eqb_eq in En; lia|].
  destruct (flmalloc mmap (s_fl st) w (round_page n)) as [b f'| | |] eqn:Efl; try discriminate.
  injection Hget as Htop Hst. subst st'. cbn [s_fl s_mem].
  exists b, i. repeat split; try lia; try assumption.
  - rewrite <- Htop. apply load_store_same.
  - intros m Hm. unfold release_target. rewrite Hm.
    destruct (round_page n =? 0) eqn:E0; [apply Z.eqb_eq in E0; lia|].
    rewrite Hc. f_equal. lia.
Qed.

(** default-size stacks: the word is 0, the pointer itself goes to the default list of the
    releasing worker and is what the next default request on that worker gets back *)
Theorem release_same_class_default : forall mmap gsz st w top st',
  stack_get mmap gsz st w 0 = SOk top st' ->
  (pop_w w (s_def st) = None ->
     top = mmap (fl_regs (s_fl st)) (round_page gsz) + gsz - 16 /\
     load (s_mem st') (top + 8) = 0) /\
  (forall st2 w2, load (s_mem st2) (top + 8) = 0 ->
     release_target (s_mem st2) top = RDefault top /\
     exists st3, stack_release st2 w2 top = Some st3 /\
       stack_get mmap gsz st3 w2 0 = SOk top st2).
Proof.
  intros mmap gsz st w top st' Hget. split.
  - intros Hpop. unfold stack_get in Hget. cbn [Z.eqb] in Hget. rewrite Hpop in Hget.
    injection Hget as Htop Hst. subst st'. cbn [s_mem]. split; [symmetry; exact Htop|].
    rewrite <- Htop. apply load_store_same.
  - intros st2 w2 Hw.
    assert (Ht : release_target (s_mem st2) top = RDefault top)
      by (unfold release_target; rewrite Hw; reflexivity).
    split; [exact Ht|]. eexists. split; [apply stack_release_default; exact Ht|].
    unfold stack_get. cbn [Z.eqb s_def pop_w]. rewrite Nat.eqb_refl.
    destruct st2; reflexivity.
Qed.

(** descriptors: a released record is what the next creation on that worker reuses *)
Theorem desc_release_get : forall mmap dsz st w p,
  desc_get mmap dsz (desc_release st w p) w = (p, st).
Proof.
  intros. unfold desc_get, desc_release. cbn [s_desc pop_w]. rewrite Nat.eqb_refl.
  destruct st; reflexivity.
Qed.
