(** C12 — proofs about the size-class arithmetic (Alloc/SizeClassModel.v). *)
From Coq Require Import ZArith Lia Bool.
From MT Require Import Alloc.SizeClassModel.
Local Open Scope Z_scope.

Lemma rsize_pow2 i : index_to_rsize i = 2 ^ i.
Proof. unfold index_to_rsize. apply Z.shiftl_1_l. Qed.

(** the index for every argument whose decrement is a non-zero 32-bit value *)
Lemma size_to_index_small s : 2 <= s <= 2 ^ 32 ->
  size_to_index s = Idx (Z.log2 (s - 1) + 1).
Proof.
  intros H. unfold size_to_index, trunc32, wrap64, clz32.
  rewrite (Z.mod_small (s - 1) (2 ^ 64)) by lia.
  rewrite (Z.mod_small (s - 1) (2 ^ 32)) by lia.
  destruct (s - 1 =? 0) eqn:E; [apply Z.eqb_eq in E; lia|].
  f_equal. lia.
Qed.

Lemma clamp8_range s : 0 <= s -> 8 <= clamp8 s /\ s <= clamp8 s /\ (8 <= s -> clamp8 s = s) /\ (s < 8 -> clamp8 s = 8).
Proof.
  intros H. unfold clamp8. destruct (s <? 8) eqn:E.
  - apply Z.ltb_lt in E. lia.
  - apply Z.ltb_ge in E. lia.
Qed.

Lemma log2_bounds m : 8 <= m ->
  2 <= Z.log2 (m - 1) /\ 2 ^ Z.log2 (m - 1) <= m - 1 < 2 ^ (Z.log2 (m - 1) + 1).
Proof.
  intros H. split.
  - apply Z.log2_le_pow2; lia.
  - replace (Z.log2 (m - 1) + 1) with (Z.succ (Z.log2 (m - 1))) by lia.
    apply Z.log2_spec. lia.
Qed.

(** In the range [0 .. 2^30] the class is a valid list index, its block holds the request,
    and no smaller class would. *)
Lemma size_class_spec : forall s, 0 <= s <= 2 ^ 30 ->
  exists i, size_class s = Class i (2 ^ i) /\ 3 <= i < FREE_LIST_NUM /\
            s <= 2 ^ i /\ (forall j, 3 <= j < i -> 2 ^ j < s).
Proof.
  intros s Hs.
  destruct (clamp8_range s) as (Hc8 & Hcs & Hbig & Hsmall); [lia|].
  set (m := clamp8 s) in *.
  assert (Hm : m <= 2 ^ 30) by (destruct (Z_lt_ge_dec s 8); [rewrite Hsmall|rewrite Hbig]; lia).
  destruct (log2_bounds m Hc8) as (Hl2 & Hlo & Hhi).
  assert (Hl30 : Z.log2 (m - 1) < 30) by (apply Z.log2_lt_pow2; lia).
  exists (Z.log2 (m - 1) + 1).
  unfold size_class. fold m. rewrite size_to_index_small by lia.
  unfold FREE_LIST_NUM.
  destruct (Z.log2 (m - 1) + 1 <? 31) eqn:E; [|apply Z.ltb_ge in E; lia].
  rewrite rsize_pow2. split; [reflexivity|]. split; [lia|]. split; [lia|].
  intros j Hj.
  assert (Hjl : 2 ^ j <= 2 ^ Z.log2 (m - 1)) by (apply Z.pow_le_mono_r; lia).
  destruct (Z_lt_ge_dec s 8) as [Hlt|Hge].
  - (* clamped: m = 8, the class is 3, no smaller class in the table *)
    exfalso. rewrite Hsmall in * by lia.
    assert (Z.log2 (8 - 1) = 2) by reflexivity. lia.
  - rewrite Hbig in * by lia. lia.
Qed.

Lemma size_class_out_of_range : forall s, 2 ^ 30 < s <= 2 ^ 32 ->
  exists i, size_class s = ClassOutOfRange i /\ 31 <= i <= 32.
Proof.
  intros s Hs.
  destruct (clamp8_range s) as (_ & _ & Hbig & _); [lia|].
  unfold size_class. rewrite Hbig by lia. rewrite size_to_index_small by lia.
  assert (H30 : 30 <= Z.log2 (s - 1)) by (apply Z.log2_le_pow2; lia).
  assert (H32 : Z.log2 (s - 1) < 32) by (apply Z.log2_lt_pow2; lia).
  exists (Z.log2 (s - 1) + 1). unfold FREE_LIST_NUM.
  destruct (Z.log2 (s - 1) + 1 <? 31) eqn:E; [apply Z.ltb_lt in E; lia|].
  split; [reflexivity|lia].
Qed.

(** Beyond 2^32 the argument of [__builtin_clz] is truncated: whatever class comes out is
    too small for the request (or the builtin is applied to 0). *)
Lemma size_class_truncated : forall s, 2 ^ 32 < s < 2 ^ 64 ->
  match size_class s with
  | Class i r => r <= 2 ^ 30 /\ r < s
  | ClassOutOfRange i => 31 <= i
  | ClassUndef => (s - 1) mod 2 ^ 32 = 0
  end.
Proof.
  intros s Hs.
  destruct (clamp8_range s) as (_ & _ & Hbig & _); [lia|].
  unfold size_class. rewrite Hbig by lia.
  unfold size_to_index, trunc32, wrap64, clz32.
  rewrite (Z.mod_small (s - 1) (2 ^ 64)) by lia.
  destruct ((s - 1) mod 2 ^ 32 =? 0) eqn:E; [apply Z.eqb_eq in E; exact E|].
  unfold FREE_LIST_NUM.
  destruct (32 - (31 - Z.log2 ((s - 1) mod 2 ^ 32)) <? 31) eqn:E2.
  - apply Z.ltb_lt in E2. rewrite rsize_pow2.
    assert (2 ^ (32 - (31 - Z.log2 ((s - 1) mod 2 ^ 32))) <= 2 ^ 30) by (apply Z.pow_le_mono_r; lia).
    lia.
  - apply Z.ltb_ge in E2. lia.
Qed.

(** exactly the range in which the allocator's class is usable *)
Lemma size_class_exact_range : forall s, 0 <= s < 2 ^ 64 ->
  ((exists i r, size_class s = Class i r /\ s <= r) <-> s <= 2 ^ 30).
Proof.
  intros s Hs. split.
  - intros (i & r & Hc & Hr).
    destruct (Z_le_gt_dec s (2 ^ 30)) as [Hle|Hgt]; [exact Hle|exfalso].
    destruct (Z_le_gt_dec s (2 ^ 32)) as [H32|H32].
    + destruct (size_class_out_of_range s) as (i' & Hc' & _); [lia|]. congruence.
    + pose proof (size_class_truncated s) as Ht. rewrite Hc in Ht. lia.
  - intros Hle. destruct (size_class_spec s) as (i & Hc & _ & Hfit & _); [lia|].
    exists i, (2 ^ i). split; [exact Hc|exact Hfit].
Qed.

(** page rounding *)
Lemma land_mask a : 0 <= a < 2 ^ 64 -> Z.land a (2 ^ 64 - 4096) = a - a mod 4096.
Proof.
  intros H.
  replace (2 ^ 64 - 4096) with (Z.ldiff (Z.ones 64) (Z.ones 12)) by reflexivity.
  assert (E : Z.land a (Z.ldiff (Z.ones 64) (Z.ones 12)) = Z.ldiff (Z.land a (Z.ones 64)) (Z.ones 12)).
  { apply Z.bits_inj'. intros n Hn. rewrite Z.land_spec, !Z.ldiff_spec, Z.land_spec.
    destruct (Z.testbit a n), (Z.testbit (Z.ones 64) n), (Z.testbit (Z.ones 12) n); reflexivity. }
  rewrite E. rewrite Z.land_ones by lia. rewrite Z.mod_small by lia.
  rewrite Z.ldiff_ones_r by lia. rewrite Z.shiftl_mul_pow2, Z.shiftr_div_pow2 by lia.
  change (2 ^ 12) with 4096. pose proof (Z.div_mod a 4096). lia.
Qed.

Lemma round_page_spec n : 0 <= n -> n + 4095 < 2 ^ 64 ->
  n <= round_page n < n + 4096 /\ round_page n mod 4096 = 0 /\
  (n mod 4096 = 0 -> round_page n = n).
Proof.
  intros H0 H1. unfold round_page, wrap64.
  rewrite (Z.mod_small (n + 4095)) by lia. rewrite land_mask by lia.
  pose proof (Z.mod_pos_bound (n + 4095) 4096 ltac:(lia)) as Hb.
  pose proof (Z.div_mod (n + 4095) 4096 ltac:(lia)) as Hd.
  split; [|split].
  - pose proof (Z.div_mod n 4096 ltac:(lia)) as Hn.
    pose proof (Z.mod_pos_bound n 4096 ltac:(lia)) as Hnb.
    assert ((n + 4095) mod 4096 <= 4095) by lia.
    split; [|lia].
    (* n <= n + 4095 - (n+4095) mod 4096 *)
    lia.
  - replace (n + 4095 - (n + 4095) mod 4096) with (((n + 4095) / 4096) * 4096) by lia.
    apply Z.mod_mul. lia.
  - intros Hm.
    assert (E : (n + 4095) mod 4096 = 4095).
    { rewrite <- Z.add_mod_idemp_l by lia. rewrite Hm. reflexivity. }
    lia.
Qed.

Lemma round_page_pos n : 1 <= n -> n + 4095 < 2 ^ 64 -> 4096 <= round_page n.
Proof.
  intros H0 H1. destruct (round_page_spec n) as (Hr & Hm & _); [lia|lia|].
  pose proof (Z.div_mod (round_page n) 4096 ltac:(lia)) as Hd. rewrite Hm in Hd.
  assert (0 < round_page n / 4096) by (destruct (Z_lt_ge_dec 0 (round_page n / 4096)); [assumption|lia]).
  lia.
Qed.
