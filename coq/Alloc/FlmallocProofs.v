(** C12 — proofs about the free-list allocator model (Alloc/FlmallocModel.v). *)
From Coq Require Import ZArith List Bool Lia Permutation.
From MT Require Import Alloc.SizeClassModel Alloc.SizeClassProofs Alloc.FlmallocModel.
Import ListNotations.
Local Open Scope Z_scope.

(** address ranges (start, length) *)
Definition disj (a b : Z * Z) : Prop := fst a + snd a <= fst b \/ fst b + snd b <= fst a.
Definition inside (b r : Z * Z) : Prop := fst r <= fst b /\ fst b + snd b <= fst r + snd r.

Fixpoint pairwise (l : list (Z * Z)) : Prop :=
  match l with
  | [] => True
  | x :: r => Forall (disj x) r /\ pairwise r
  end.

Lemma disj_sym a b : disj a b -> disj b a.
Proof. unfold disj. tauto. Qed.

Lemma disj_inside b b' r r' : inside b r -> inside b' r' -> disj r r' -> disj b b'.
Proof. unfold inside, disj. lia. Qed.

Lemma pairwise_perm l l' : Permutation l l' -> pairwise l -> pairwise l'.
Proof.
  intros HP. induction HP as [|x l l' HP IH|x y l|l l' l'' HP1 IH1 HP2 IH2]; cbn [pairwise].
  - auto.
  - intros (Hx & Hl). split; [|apply IH; exact Hl].
    eapply Permutation_Forall; eassumption.
  - intros (Hy & Hx & Hl). inversion Hy as [|? ? Hyx Hyl]; subst.
    split; [constructor; [apply disj_sym; exact Hyx|exact Hx]|].
    split; [exact Hyl|exact Hl].
  - auto.
Qed.

Lemma pairwise_app l1 l2 :
  pairwise (l1 ++ l2) <->
  pairwise l1 /\ pairwise l2 /\ (forall a b, In a l1 -> In b l2 -> disj a b).
Proof.
  induction l1 as [|x l1 IH]; cbn [app pairwise].
  - split; [intros H; repeat split; auto; intros a b []|tauto].
  - rewrite Forall_app, IH. split.
    + intros ((Hx1 & Hx2) & H1 & H2 & H12). repeat split; auto.
      intros a b [->|Ha] Hb; [rewrite Forall_forall in Hx2; auto|auto].
    + intros ((Hx1 & H1) & H2 & H12). repeat split; auto.
      * rewrite Forall_forall. intros b Hb. apply H12; [left; reflexivity|exact Hb].
      * intros a b Ha Hb. apply H12; [right; exact Ha|exact Hb].
Qed.

Lemma fl_pop_perm w i : forall l p r, fl_pop w i l = Some (p, r) -> Permutation l ((w, i, p) :: r).
Proof.
  induction l as [|[[w' i'] q] l IH]; intros p r H; cbn [fl_pop] in H; [discriminate|].
  destruct (Nat.eqb w' w && Z.eqb i' i)%bool eqn:E.
  - apply andb_true_iff in E. destruct E as (E1 & E2).
    apply Nat.eqb_eq in E1. apply Z.eqb_eq in E2. inversion H; subst. apply Permutation_refl.
  - destruct (fl_pop w i l) as [[q' r']|] eqn:E2; [|discriminate].
    inversion H; subst. eapply perm_trans; [apply perm_skip; apply IH; reflexivity|apply perm_swap].
Qed.

Lemma live_remove_perm p i : forall l r, live_remove p i l = Some r -> Permutation l ((p, i) :: r).
Proof.
  induction l as [|[q j] l IH]; intros r H; cbn [live_remove] in H; [discriminate|].
  destruct (Z.eqb q p && Z.eqb j i)%bool eqn:E.
  - apply andb_true_iff in E. destruct E as (E1 & E2).
    apply Z.eqb_eq in E1. apply Z.eqb_eq in E2. inversion H; subst. apply Permutation_refl.
  - destruct (live_remove p i l) as [r'|] eqn:E2; [|discriminate].
    inversion H; subst. eapply perm_trans; [apply perm_skip; apply IH; reflexivity|apply perm_swap].
Qed.

Lemma size_class_Class s i rs : size_class s = Class i rs -> rs = 2 ^ i /\ 1 <= i < 31.
Proof.
  unfold size_class, size_to_index, clz32, FREE_LIST_NUM.
  generalize (trunc32 (wrap64 (clamp8 s - 1))). intros x H.
  destruct (x =? 0); [discriminate|].
  pose proof (Z.log2_nonneg x) as Hl.
  remember (32 - (31 - Z.log2 x)) as j eqn:Ej.
  destruct (j <? 31) eqn:E; [|discriminate].
  apply Z.ltb_lt in E.
  assert (Hi : j = i) by congruence. assert (Hr : index_to_rsize j = rs) by congruence.
  subst i rs. split; [apply rsize_pow2|lia].
Qed.

(** the carving loop yields consecutive, pairwise disjoint blocks inside the page *)
Lemma carve_spec rs : 0 < rs -> forall fuel p k l, 0 <= k ->
  carve fuel p (p + k * rs) rs = Some l ->
  Forall (fun q => p <= q /\ q + rs <= p + k * rs) l /\ pairwise (map (fun q => (q, rs)) l).
Proof.
  intros Hrs. induction fuel as [|f IH]; intros p k l Hk H; cbn [carve] in H; [discriminate|].
  destruct (p <? p + k * rs) eqn:E.
  - apply Z.ltb_lt in E. assert (Hk1 : 1 <= k) by nia.
    replace (p + k * rs) with ((p + rs) + (k - 1) * rs) in H by ring.
    destruct (carve f (p + rs) (p + rs + (k - 1) * rs) rs) as [l'|] eqn:E2; [|discriminate].
    inversion H; subst. destruct (IH (p + rs) (k - 1) l' ltac:(lia) E2) as (HF & HP).
    split.
    + constructor; [nia|]. eapply Forall_impl; [|exact HF]. cbn. intros q Hq. nia.
    + cbn [map pairwise]. split; [|exact HP].
      rewrite Forall_map. eapply Forall_impl; [|exact HF]. intros q Hq. cbv beta in Hq. left. cbn. lia.
  - inversion H; subst. split; constructor.
Qed.

Lemma carve_fuel rs : 0 < rs -> forall fuel p k, 0 <= k -> (Z.to_nat k < fuel)%nat ->
  carve fuel p (p + k * rs) rs <> None.
Proof.
  intros Hrs. induction fuel as [|f IH]; intros p k Hk Hf; [lia|]. cbn [carve].
  destruct (p <? p + k * rs) eqn:E; [|discriminate].
  apply Z.ltb_lt in E. assert (Hk1 : 1 <= k) by nia.
  replace (p + k * rs) with ((p + rs) + (k - 1) * rs) by ring.
  specialize (IH (p + rs) (k - 1) ltac:(lia) ltac:(lia)).
  destruct (carve f (p + rs) (p + rs + (k - 1) * rs) rs); [discriminate|congruence].
Qed.

(** a page is a whole number of blocks of every class below the page size *)
Lemma page_split i : 1 <= i < 12 -> PAGE_SIZE = 2 ^ i + (2 ^ (12 - i) - 1) * 2 ^ i /\ 0 <= 2 ^ (12 - i) - 1 < 2048.
Proof.
  intros Hi. unfold PAGE_SIZE. replace 4096 with (2 ^ (i + (12 - i))) by (replace (i + (12 - i)) with 12 by lia; reflexivity).
  rewrite Z.pow_add_r by lia.
  assert (0 < 2 ^ (12 - i)) by (apply Z.pow_pos_nonneg; lia).
  assert (2 ^ (12 - i) <= 2 ^ 11) by (apply Z.pow_le_mono_r; lia).
  change (2 ^ 11) with 2048 in *. split; [ring|lia].
Qed.

Lemma small_class_idx i : 1 <= i < 31 -> 2 ^ i < PAGE_SIZE -> i < 12.
Proof.
  intros Hi H. unfold PAGE_SIZE in H. destruct (Z_lt_ge_dec i 12) as [Hl|Hg]; [exact Hl|exfalso].
  assert (2 ^ 12 <= 2 ^ i) by (apply Z.pow_le_mono_r; lia). change (2 ^ 12) with 4096 in *. lia.
Qed.

Section Oracle.
  Variable mmap : list region -> Z -> Z.
  (** what is assumed about [mmap]: the region it returns is disjoint from every region it
      returned before (whatever their lengths) *)
  Hypothesis mmap_fresh : forall regs len r, 0 < len -> In r regs -> disj (mmap regs len, len) r.

  Definition HInv (h : hstate) : Prop :=
    pairwise (blocks h) /\ pairwise (fl_regs (h_fl h)) /\
    (forall b, In b (blocks h) -> 0 < snd b /\ exists r, In r (fl_regs (h_fl h)) /\ inside b r).

  Lemma HInv_init : HInv h_init.
  Proof. split; [exact I|]. split; [exact I|]. intros b0 []. Qed.

  (** adding blocks that all lie in a fresh region *)
  Lemma HInv_new_region h h' a len newb :
    HInv h -> 0 < len ->
    fl_regs (h_fl h') = (a, len) :: fl_regs (h_fl h) -> a = mmap (fl_regs (h_fl h)) len ->
    Permutation (blocks h') (newb ++ blocks h) ->
    pairwise newb -> (forall b, In b newb -> 0 < snd b /\ inside b (a, len)) ->
    HInv h'.
  Proof.
    intros (HP & HR & HI) Hlen Hregs Ha Hperm Hnew Hin. unfold HInv. rewrite Hregs.
    assert (Hfr : forall r, In r (fl_regs (h_fl h)) -> disj (a, len) r)
      by (intros r Hr; subst a; apply mmap_fresh; assumption).
    split; [|split].
    - eapply pairwise_perm; [apply Permutation_sym; exact Hperm|].
      apply pairwise_app. split; [exact Hnew|]. split; [exact HP|].
      intros x y Hx Hy. destruct (HI y Hy) as (_ & r & Hr & Hyr).
      eapply disj_inside; [apply Hin; exact Hx|exact Hyr|apply Hfr; exact Hr].
    - cbn [pairwise]. split; [|exact HR]. rewrite Forall_forall. exact Hfr.
    - intros b Hb. eapply Permutation_in in Hb; [|exact Hperm].
      apply in_app_or in Hb. destruct Hb as [Hb|Hb].
      + destruct (Hin b Hb) as (Hpos & Hins). split; [exact Hpos|].
        exists (a, len). split; [left; reflexivity|exact Hins].
      + destruct (HI b Hb) as (Hpos & r & Hr & Hbr). split; [exact Hpos|].
        exists r. split; [right; exact Hr|exact Hbr].
  Qed.

  Lemma HInv_same_blocks h h' :
    HInv h -> fl_regs (h_fl h') = fl_regs (h_fl h) -> Permutation (blocks h) (blocks h') -> HInv h'.
  Proof.
    intros (HP & HR & HI) Hregs Hperm. unfold HInv. rewrite Hregs.
    split; [eapply pairwise_perm; eassumption|]. split; [exact HR|].
    intros b Hb. apply HI. eapply Permutation_in; [apply Permutation_sym; exact Hperm|exact Hb].
  Qed.

  Lemma hstep_inv h o h' : HInv h -> hstep mmap h o = Some h' -> HInv h'.
  Proof.
    intros Hinv Hst. destruct o as [w size|w size p]; cbn [hstep] in Hst.
    - destruct (size_class size) as [i rs| |] eqn:Ec; try discriminate.
      destruct (size_class_Class _ _ _ Ec) as (Hrs & Hi).
      unfold flmalloc in Hst. rewrite Ec in Hst.
      assert (Hpos : 0 < 2 ^ i) by (apply Z.pow_pos_nonneg; lia).
      destruct (fl_pop w i (fl_lists (h_fl h))) as [[p r]|] eqn:Ep.
      + inversion Hst; subst h'; clear Hst.
        apply (HInv_same_blocks h); [exact Hinv|reflexivity|].
        unfold blocks; cbn [h_live h_fl fl_lists map].
        apply fl_pop_perm in Ep.
        apply (Permutation_map blk_of_ent) in Ep. cbn [map] in Ep.
        eapply perm_trans; [apply Permutation_app_head; exact Ep|].
        apply Permutation_sym. apply Permutation_middle.
      + destruct (rs <? PAGE_SIZE) eqn:Esm.
        * apply Z.ltb_lt in Esm. subst rs.
          pose proof (small_class_idx i Hi Esm) as Hi12.
          destruct (page_split i ltac:(lia)) as (Hsplit & Hk).
          set (a := mmap (fl_regs (h_fl h)) PAGE_SIZE) in *.
          destruct (carve CARVE_FUEL (a + 2 ^ i) (a + PAGE_SIZE) (2 ^ i)) as [ps|] eqn:Ecv; [|discriminate].
          inversion Hst; subst h'; clear Hst.
          replace (a + PAGE_SIZE) with ((a + 2 ^ i) + (2 ^ (12 - i) - 1) * 2 ^ i) in Ecv by lia.
          destruct (carve_spec (2 ^ i) Hpos CARVE_FUEL (a + 2 ^ i) (2 ^ (12 - i) - 1) ps ltac:(lia) Ecv) as (HF & HPc).
          apply (HInv_new_region h _ a PAGE_SIZE ((a, 2 ^ i) :: map (fun q => (q, 2 ^ i)) ps));
            [exact Hinv|unfold PAGE_SIZE; lia|reflexivity|reflexivity| | |].
          -- unfold blocks; cbn [h_live h_fl fl_lists map app].
             apply perm_skip. rewrite map_app.
             rewrite map_rev, map_map. cbn [blk_of_ent fst snd].
             eapply perm_trans; [apply Permutation_app_swap_app|].
             apply Permutation_app_tail. apply Permutation_sym, Permutation_rev.
          -- cbn [pairwise]. split; [|exact HPc].
             rewrite Forall_map. eapply Forall_impl; [|exact HF]. intros q Hq. cbv beta in Hq. left. cbn. lia.
          -- intros b [<-|Hb].
             ++ cbn. unfold inside; cbn. lia.
             ++ apply in_map_iff in Hb. destruct Hb as (q & <- & Hq).
                rewrite Forall_forall in HF. specialize (HF q Hq). cbn. unfold inside; cbn. lia.
        * apply Z.ltb_ge in Esm. inversion Hst; subst h'; clear Hst. subst rs.
          apply (HInv_new_region h _ (mmap (fl_regs (h_fl h)) (2 ^ i)) (2 ^ i)
                   [(mmap (fl_regs (h_fl h)) (2 ^ i), 2 ^ i)]);
            [exact Hinv|exact Hpos|reflexivity|reflexivity| | |].
          -- unfold blocks; cbn [h_live h_fl fl_lists map app]. apply Permutation_refl.
          -- cbn. split; [constructor|exact I].
          -- intros b [<-|[]]. cbn. unfold inside; cbn. lia.
    - destruct (size_class size) as [i rs| |] eqn:Ec; try discriminate.
      destruct (live_remove p i (h_live h)) as [l'|] eqn:El; [|discriminate].
      unfold flfree in Hst. rewrite Ec in Hst. inversion Hst; subst h'; clear Hst.
      apply (HInv_same_blocks h); [exact Hinv|reflexivity|].
      unfold blocks; cbn [h_live h_fl fl_lists map].
      apply live_remove_perm in El. apply (Permutation_map blk_of_live) in El. cbn [map] in El.
      eapply perm_trans; [apply Permutation_app_tail; exact El|].
      cbn [app blk_of_live blk_of_ent fst snd]. apply Permutation_middle.
  Qed.

  Lemma hrun_inv : forall ops h h', HInv h -> hrun mmap ops h = Some h' -> HInv h'.
  Proof.
    induction ops as [|o ops IH]; intros h h' Hinv H; cbn [hrun] in H.
    - inversion H; subst; exact Hinv.
    - destruct (hstep mmap h o) as [h1|] eqn:E; [|discriminate].
      eapply IH; [eapply hstep_inv; eassumption|exact H].
  Qed.

  (** C12_blocks_disjoint: along every well-formed history, on any number of workers, all the
      blocks the allocator ever handed out and that are live or sit in some free list are
      pairwise disjoint non-empty address ranges, each inside a region obtained from mmap *)
  Theorem blocks_disjoint : forall ops h, hrun mmap ops h_init = Some h ->
    pairwise (blocks h) /\
    (forall b, In b (blocks h) -> 0 < snd b /\ exists r, In r (fl_regs (h_fl h)) /\ inside b r).
  Proof.
    intros ops h H. destruct (hrun_inv ops h_init h HInv_init H) as (H1 & _ & H3). split; assumption.
  Qed.

  (** in particular an allocation never returns a block that overlaps a live or a free one *)
  Corollary alloc_fresh_block : forall ops h w size h',
    hrun mmap ops h_init = Some h -> hstep mmap h (OAlloc w size) = Some h' ->
    exists p i, h_live h' = (p, i) :: h_live h /\
      (forall q j, In (q, j) (h_live h) -> disj (p, 2 ^ i) (q, 2 ^ j)) /\
      (forall e, In e (fl_lists (h_fl h')) -> disj (p, 2 ^ i) (blk_of_ent e)).
  Proof.
    intros ops h w size h' Hrun Hst.
    assert (Hinv' : HInv h') by (eapply hstep_inv; [eapply hrun_inv; [apply HInv_init|exact Hrun]|exact Hst]).
    cbn [hstep] in Hst. destruct (size_class size) as [i rs| |]; try discriminate.
    destruct (flmalloc mmap (h_fl h) w size) as [p st'| | |]; try discriminate.
    inversion Hst; subst h'; clear Hst. exists p, i. split; [reflexivity|].
    destruct Hinv' as (HP & _). unfold blocks in HP. cbn [h_live h_fl map app pairwise] in HP.
    destruct HP as (HF & _). rewrite Forall_app, !Forall_map in HF. destruct HF as (HF1 & HF2).
    rewrite Forall_forall in HF1, HF2. split.
    - intros q j Hq. apply (HF1 (q, j) Hq).
    - intros e He. apply (HF2 e He).
  Qed.
End Oracle.

(** the assumption on the oracle is satisfiable: a bump allocator *)
Definition bump_mmap (regs : list region) (len : Z) : Z :=
  fold_right (fun r acc => Z.max acc (fst r + snd r)) 0 regs.

Lemma bump_fresh : forall regs len r, 0 < len -> In r regs -> disj (bump_mmap regs len, len) r.
Proof.
  intros regs len r _ Hr. right. cbn [fst snd]. unfold bump_mmap.
  induction regs as [|x regs IH]; [destruct Hr|]. cbn [fold_right].
  destruct Hr as [->|Hr]; [lia|specialize (IH Hr); lia].
Qed.
