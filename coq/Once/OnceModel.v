(** Abs(once control): the protocol model behind C14 (myth_once).

    Source: src/myth_sync_func.h  myth_once_body, myth_once_wait_until, myth_once_try_set.

      once(o, init):  POINT once.read        s = o->state
                      s == init(0):  POINT once.cas    CAS(o->state, 0, 1)
                                     success: init();  POINT once.done   o->state = 2;  return 0
                      otherwise / CAS failed:
                        loop { POINT once.wait.read  s = o->state;  s == 2 -> return 0;
                               SPIN once.wait.spin; myth_yield() }

    One [ETick] = the code between two consecutive MYTH_VERIF_POINTs = exactly one access to
    o->state; [label] is the id of the POINT executed next.  The init routine is opaque: from the
    control's viewpoint it is a begin event, any number of steps during which time passes and every
    other thread may run ([EInitStep]: the routine may compute, yield, block on a mutex, create and
    join threads ...) and an end event.  Its length is not a parameter of the model: every finite
    length is a schedule.  The correspondence check replays traces of the real library through
    [step], mapping the interpreter's once.init.begin / once.init.end events and every operation the
    script performs in between to [EInitBegin] / [EInitEnd] / [EInitStep].

    Ghost fields (never read by the code steps): [runs] = init routines begun, [fins] = init
    routines completed, [rets] = calls returned. *)
From Coq Require Import ZArith List Bool String.
Import ListNotations.
Local Open Scope Z_scope.

Inductive pc :=
| Idle
| Read
| Cas
| InitPre              (* CAS won; init_routine not entered yet *)
| InInit               (* inside init_routine *)
| AtDone               (* init_routine returned; about to store completed *)
| WaitRead             (* myth_once_wait_until: about to read the state *)
| Done (r : Z).

Record thread := { main : pc }.

Record state := {
  word : Z;                    (* o->state : 0 init, 1 in progress, 2 completed *)
  thr : list thread;
  runs : nat;
  fins : nat;
  rets : nat
}.

Inductive ev := ECall | ETick | EInitBegin | EInitStep | EInitEnd | ERet (v : Z).

Definition thread0 : thread := {| main := Idle |}.

Definition init_state (nthreads : nat) : state :=
  {| word := 0; thr := repeat thread0 nthreads; runs := 0; fins := 0; rets := 0 |}.

Fixpoint upd {A} (l : list A) (i : nat) (x : A) : list A :=
  match l, i with
  | [], _ => []
  | _ :: r, O => x :: r
  | y :: r, S j => y :: upd r j x
  end.

Definition get_thread (s : state) (t : nat) : option thread := nth_error (thr s) t.

Definition set_pc (s : state) (t : nat) (p : pc) : state :=
  {| word := word s; thr := upd (thr s) t {| main := p |}; runs := runs s; fins := fins s; rets := rets s |}.

Definition set_word (s : state) (w : Z) : state :=
  {| word := w; thr := thr s; runs := runs s; fins := fins s; rets := rets s |}.

Definition tick (s : state) (t : nat) : option state :=
  match get_thread s t with
  | None => None
  | Some me =>
    match main me with
    | Read => Some (set_pc s t (if word s =? 0 then Cas else WaitRead))
    | Cas => if word s =? 0 then Some (set_pc (set_word s 1) t InitPre)
             else Some (set_pc s t WaitRead)
    | AtDone => Some (set_pc (set_word s 2) t (Done 0))
    | WaitRead => Some (set_pc s t (if word s =? 2 then Done 0 else WaitRead))
    | Idle | InitPre | InInit | Done _ => None
    end
  end.

Definition call (s : state) (t : nat) : option state :=
  match get_thread s t with
  | None => None
  | Some me => match main me with Idle => Some (set_pc s t Read) | _ => None end
  end.

Definition init_begin (s : state) (t : nat) : option state :=
  match get_thread s t with
  | None => None
  | Some me =>
    match main me with
    | InitPre => Some {| word := word s; thr := upd (thr s) t {| main := InInit |};
                         runs := S (runs s); fins := fins s; rets := rets s |}
    | _ => None
    end
  end.

Definition init_step (s : state) (t : nat) : option state :=
  match get_thread s t with
  | None => None
  | Some me => match main me with InInit => Some s | _ => None end
  end.

Definition init_end (s : state) (t : nat) : option state :=
  match get_thread s t with
  | None => None
  | Some me =>
    match main me with
    | InInit => Some {| word := word s; thr := upd (thr s) t {| main := AtDone |};
                        runs := runs s; fins := S (fins s); rets := rets s |}
    | _ => None
    end
  end.

Definition ret_ok (s : state) (t : nat) (v : Z) : bool :=
  match get_thread s t with
  | Some me => match main me with Done r => v =? r | _ => false end
  | None => false
  end.

Definition ret (s : state) (t : nat) (v : Z) : option state :=
  if ret_ok s t v then
    Some {| word := word s; thr := upd (thr s) t {| main := Idle |};
            runs := runs s; fins := fins s; rets := S (rets s) |}
  else None.

Definition step (s : state) (a : nat * ev) : option state :=
  let (t, e) := a in
  match e with
  | ECall => call s t
  | ETick => tick s t
  | EInitBegin => init_begin s t
  | EInitStep => init_step s t
  | EInitEnd => init_end s t
  | ERet v => ret s t v
  end.

(** the POINT id the thread executes at its next tick ("" = none) *)
Definition label (s : state) (t : nat) : string :=
  match get_thread s t with
  | None => ""
  | Some me =>
    match main me with
    | Read => "once.read"
    | Cas => "once.cas"
    | AtDone => "once.done"
    | WaitRead => "once.wait.read"
    | Idle | InitPre | InInit | Done _ => ""
    end
  end%string.

(** ---- derived notions used by the theorems ---- *)
Definition runner (x : thread) : bool :=
  match main x with InitPre | InInit | AtDone => true | _ => false end.
Definition started (x : thread) : bool :=
  match main x with InInit | AtDone => true | _ => false end.
Definition finished (x : thread) : bool :=
  match main x with AtDone => true | _ => false end.
Definition b2n (b : bool) : nat := if b then 1%nat else 0%nat.
