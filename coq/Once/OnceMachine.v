(** Abs(once control) composed with the scheduler-level machine (coq/Machine/MachineModel.v).

    once does not block through a queue: a caller that finds the control in progress polls it, calling
    myth_yield between two readings (myth_once_wait_until).  So the product is simple: every step of the
    once protocol is an own-context step of the thread that is current on some worker ([cur w = Run t]),
    machine moves are the machine's own, and a waiter's yield is the machine's yield sequence
    [PopOwn; SaveCtx; PutBase; EndCb] (myth_yield_ex_body / myth_yield_ex_1: take the newest queued thread,
    save the context, put the yielder at the BASE of the own queue from the callback, run the taken thread).

    The second half is a deterministic driver for ONE worker: which action the thread that is current
    performs next is a function of its once pc (call, read, CAS, the init routine with [jrem] yields left,
    the store of completed, poll + yield, return + finish), i.e. the program "every thread calls once on the
    control; the init routine yields j times".  Executable definitions only. *)
From Coq Require Import ZArith List Bool Arith.
From MT Require Import Machine.MachineModel Once.OnceModel.
Import ListNotations.

Record pstate := { os : OnceModel.state; ms : mstate }.

Inductive pev := POnce (e : OnceModel.ev) | PMove (m : move).

Definition running (m : mstate) (w : nat) : option nat :=
  match nth_error (cur m) w with Some (Run t) => Some t | _ => None end.

(** actor = worker *)
Definition pstep (s : pstate) (a : nat * pev) : option pstate :=
  match snd a with
  | POnce e =>
      match running (ms s) (fst a) with
      | Some t => match OnceModel.step (os s) (t, e) with
                  | Some o' => Some {| os := o'; ms := ms s |}
                  | None => None
                  end
      | None => None
      end
  | PMove m =>
      match mmove (ms s) (fst a) m with
      | Some m' => Some {| os := os s; ms := m' |}
      | None => None
      end
  end.

(** strict run: every action must be enabled *)
Fixpoint prun (s : pstate) (l : list (nat * pev)) : option pstate :=
  match l with
  | [] => Some s
  | a :: r => match pstep s a with Some s' => prun s' r | None => None end
  end.

Definition moves (w : nat) (l : list move) : list (nat * pev) := map (fun m => (w, PMove m)) l.

Definition yield_seq : list move := [PopOwn; SaveCtx; PutBase; EndCb].

(** one polling iteration of a waiter on worker [w]: POINT once.wait.read, then myth_yield *)
Definition poll (w : nat) : list (nat * pev) := (w, POnce ETick) :: moves w yield_seq.

(** ---- one worker: the driver ---- *)
Record dstate := { ps : pstate; jrem : nat }.

Definition pcd (o : OnceModel.state) (t : nat) : pc :=
  match nth_error (thr o) t with Some x => main x | None => Idle end.

Definition queue0 (m : mstate) : list nat := match nth_error (dq m) 0 with Some q => q | None => [] end.

(** myth_yield on the only worker: nothing queued -> returns at once *)
Definition yield1 (m : mstate) : list (nat * pev) :=
  match queue0 m with [] => [] | _ :: _ => moves 0 yield_seq end.

(** the thread function returns: the next queued thread is taken (if any), the clean-up callback runs *)
Definition finish1 (m : mstate) : list (nat * pev) :=
  match queue0 m with [] => moves 0 [FinishCtx; EndCb] | _ :: _ => moves 0 [PopOwn; FinishCtx; EndCb] end.

Definition dacts (d : dstate) : option (list (nat * pev) * nat) :=
  let m := ms (ps d) in
  let o := os (ps d) in
  match running m 0 with
  | None => None
  | Some t =>
    match pcd o t with
    | Idle => Some ([(0, POnce ECall)], jrem d)
    | Read | Cas | AtDone => Some ([(0, POnce ETick)], jrem d)
    | InitPre => Some ([(0, POnce EInitBegin)], jrem d)
    | InInit => match jrem d with
                | O => Some ([(0, POnce EInitEnd)], 0)
                | S j' => Some ((0, POnce EInitStep) :: yield1 m, j')
                end
    | WaitRead => if Z.eqb (word o) 2 then Some ([(0, POnce ETick)], jrem d)
                  else Some ((0, POnce ETick) :: yield1 m, jrem d)
    | Done r => Some ((0, POnce (ERet r)) :: finish1 m, jrem d)
    end
  end.

(** one driver step; a state in which no thread is current is final and stays *)
Definition dstep (d : dstate) : option dstate :=
  match dacts d with
  | None => Some d
  | Some (l, j') => match prun (ps d) l with
                    | Some p' => Some {| ps := p'; jrem := j' |}
                    | None => None
                    end
  end.

Fixpoint drive (n : nat) (d : dstate) : option dstate :=
  match n with
  | O => Some d
  | S n' => match dstep d with Some d' => drive n' d' | None => None end
  end.

(** thread 0 is current, threads 1..k are queued (k at the top), everybody is about to call once *)
Definition dstart (k j : nat) : dstate :=
  {| ps := {| os := OnceModel.init_state (S k);
              ms := {| cur := [Run 0]; hand := [None]; dq := [seq 1 k]; stat := repeat Live (S k) |} |};
     jrem := j |}.

Definition bound (k j : nat) : nat := (S k) * (j + 5) + j + 8.
