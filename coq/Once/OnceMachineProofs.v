(** Proofs about the product of Abs(once control) with the scheduler-level machine (Once/OnceMachine.v):
    (a) a waiter that polls a control in progress gives the worker to the newest queued thread and goes to the
        base of the queue ([waiter_gives_way], on top of Machine/MachineMore.v [yield_gives_way]);
    (b) on ONE worker, k waiters and an initialiser whose routine yields j times always complete, within
        [bound k j] driver steps ([one_worker_terminates]): the round-robin of the base-insertion discipline
        reaches the initialiser once per round, shown by a measure that every driver step decreases. *)
From Coq Require Import ZArith List Bool Arith Lia.
From MT Require Import Lib.Interleave.
From MT Require Machine.MachineModel Machine.MachineProofs Machine.MachineMore.
From MT Require Import Once.OnceModel Once.OnceProofs Once.OnceMachine.
Import ListNotations.

Module MM := MachineModel.
Module MP := MachineProofs.
Module MO := MachineMore.

Notation MInv := MP.Inv.
Notation OInv := OnceProofs.Inv.

(** ---- runs of machine moves inside the product ---- *)
Lemma prun_moves l : forall s w m',
  MO.runo (ms s) (map (fun m => (w, m)) l) = Some m' -> prun s (moves w l) = Some {| os := os s; ms := m' |}.
Proof.
  induction l as [|a l IH]; intros s w m' H; cbn in *.
  - injection H as <-. destruct s; reflexivity.
  - unfold MM.mstep in H. cbn [fst snd] in H. unfold pstep. cbn [fst snd].
    destruct (MM.mmove (ms s) w a) as [m1|] eqn:E; [|discriminate].
    apply (IH {| os := os s; ms := m1 |} w m'). exact H.
Qed.

Lemma runo_inv l : forall m m', MInv m -> MO.runo m l = Some m' -> MInv m'.
Proof.
  induction l as [|[w a] l IH]; intros m m' HI H; cbn in H.
  - injection H as <-. exact HI.
  - unfold MM.mstep in H. cbn [fst snd] in H. destruct (MM.mmove m w a) as [m1|] eqn:E; [|discriminate].
    eapply IH; [|exact H]. eapply MP.mmove_inv; eassumption.
Qed.

(** ---- (a) a polling waiter gives way ---- *)
Lemma poll_once_same o t : thr_at o t {| main := WaitRead |} -> word o <> 2%Z ->
  OnceModel.step o (t, ETick) = Some o.
Proof.
  intros Ht Hw. unfold thr_at in Ht. unfold OnceModel.step, tick, get_thread. rewrite Ht. cbn [main].
  apply Z.eqb_neq in Hw. rewrite Hw. unfold set_pc. rewrite (upd_same _ _ _ Ht). destruct o; reflexivity.
Qed.

Lemma running_at m w t : nth_error (MM.cur m) w = Some (MM.Run t) -> running m w = Some t.
Proof. intros H. unfold running. rewrite H. reflexivity. Qed.

Theorem waiter_gives_way s w t r x : MInv (ms s) ->
  nth_error (MM.cur (ms s)) w = Some (MM.Run t) -> nth_error (MM.hand (ms s)) w = Some None ->
  nth_error (MM.dq (ms s)) w = Some (r ++ [x]) ->
  thr_at (os s) t {| main := WaitRead |} -> word (os s) <> 2%Z ->
  prun s (poll w) =
    Some {| os := os s;
            ms := {| MM.cur := MM.upd (MM.cur (ms s)) w (MM.Run x); MM.hand := MM.hand (ms s);
                     MM.dq := MM.upd (MM.dq (ms s)) w (t :: r); MM.stat := MM.stat (ms s) |} |}.
Proof.
  intros HI Ec Eh Eq Ht Hw. unfold poll. cbn [prun]. unfold pstep at 1. cbn [fst snd].
  rewrite (running_at _ _ _ Ec). rewrite (poll_once_same _ _ Ht Hw).
  replace {| os := os s; ms := ms s |} with s by (destruct s; reflexivity).
  apply prun_moves. exact (MO.yield_gives_way (ms s) w t r x HI Ec Eh Eq).
Qed.

(** the owner takes from the top: while anything is queued above it, the thread at the base is not taken *)
Lemma split_last_app {A} (l : list A) x : MM.split_last (l ++ [x]) = Some (l, x).
Proof. unfold MM.split_last. rewrite rev_app_distr. cbn [rev app]. rewrite rev_involutive. reflexivity. Qed.

Theorem owner_pops_above_base m w c t r y :
  nth_error (MM.cur m) w = Some c -> (forall u, c <> MM.Cb u) ->
  nth_error (MM.hand m) w = Some None -> nth_error (MM.dq m) w = Some (t :: r ++ [y]) ->
  MM.mmove m w MM.PopOwn = Some (MM.set_hand (MM.set_dq m w (t :: r)) w (Some y)).
Proof.
  intros Ec Hc Eh Eq. unfold MM.mmove. rewrite Ec, Eh, Eq.
  change (t :: r ++ [y]) with ((t :: r) ++ [y]). rewrite split_last_app.
  destruct c as [|u|u]; try reflexivity. exfalso. eapply Hc. reflexivity.
Qed.

Lemma w_q_in t q : In t q -> MM.w_q t q >= 1.
Proof.
  induction q as [|a q IH]; intros H; [destruct H|]. rewrite MP.w_q_cons. destruct H as [->|H].
  - rewrite Nat.eqb_refl. cbn. lia.
  - specialize (IH H). lia.
Qed.

Lemma occ_cur_ge1 m w t : nth_error (MM.cur m) w = Some (MM.Run t) -> MM.occ_cur m t >= 1.
Proof.
  unfold MM.occ_cur. revert w. induction (MM.cur m) as [|c l IH]; intros w Hc.
  - destruct w; discriminate.
  - destruct w as [|w]; cbn in Hc.
    + injection Hc as ->. cbn [MM.sumf MM.w_cur]. rewrite Nat.eqb_refl. cbn. lia.
    + specialize (IH w Hc). cbn [MM.sumf]. lia.
Qed.

Lemma occ_dq_ge m w q t : nth_error (MM.dq m) w = Some q -> In t q -> MM.occ_dq m t >= 1.
Proof.
  unfold MM.occ_dq. revert w. induction (MM.dq m) as [|c l IH]; intros w Hq Hin.
  - destruct w; discriminate.
  - destruct w as [|w]; cbn in Hq.
    + injection Hq as ->. cbn [MM.sumf]. pose proof (w_q_in _ _ Hin). lia.
    + specialize (IH w Hq Hin). cbn [MM.sumf]. lia.
Qed.

(** a thread that is current on a worker is in no run queue *)
Lemma running_not_queued m w v t q : MInv m -> nth_error (MM.cur m) w = Some (MM.Run t) ->
  nth_error (MM.dq m) v = Some q -> ~ In t q.
Proof.
  intros HI Hc Hq Hin. destruct (HI t) as [H1 _]. unfold MM.places in H1.
  pose proof (occ_cur_ge1 _ _ _ Hc). pose proof (occ_dq_ge _ _ _ _ Hq Hin). lia.
Qed.

(** ---- (b) one worker: the measure ---- *)
Definition is_runner (p : pc) : bool := match p with InitPre | InInit | AtDone => true | _ => false end.
(** steps a caller still needs when it will not poll any more / in a turn that ends in a poll *)
Definition c2 (p : pc) : nat := match p with Idle => 5 | Read => 4 | Cas => 3 | WaitRead => 2 | Done _ => 1 | _ => 0 end.
Definition tc (p : pc) : nat := match p with Idle => 4 | Read => 3 | Cas => 2 | WaitRead => 1 | _ => 0 end.
(** weight of a caller that still has T turns ending in a poll before the control is completed *)
Definition ww (T : nat) (p : pc) : nat := match T with O => c2 p | S T' => tc p + T' + 2 end.
(** weight of the initialiser with j yields of its routine left *)
Definition rw (j : nat) (p : pc) : nat :=
  match p with InitPre => j + 4 | InInit => j + 3 | AtDone => j + 2 | _ => 0 end.
(** weight of one entry; f = 1 iff the initialiser is queued below it (it gets a turn before the initialiser) *)
Definition wl (j f : nat) (p : pc) : nat := if is_runner p then rw j p else ww (j + f) p.
(** the rotation order: base of the queue first, the current thread last *)
Fixpoint phiB (j f : nat) (L : list pc) : nat :=
  match L with
  | [] => 0
  | p :: r => wl j f p + phiB j (if is_runner p then 1 else f) r
  end.

Definition fl (f : nat) (A : list pc) : nat := if existsb is_runner A then 1 else f.

Lemma phiB_app j A : forall f B, phiB j f (A ++ B) = phiB j f A + phiB j (fl f A) B.
Proof.
  induction A as [|p A IH]; intros f B.
  - unfold fl. cbn. reflexivity.
  - cbn [app phiB]. rewrite IH. unfold fl. cbn [existsb]. destruct (is_runner p); cbn [orb].
    + destruct (existsb is_runner A); lia.
    + lia.
Qed.

Lemma phiB_last j f A p : phiB j f (A ++ [p]) = phiB j f A + wl j (fl f A) p.
Proof. rewrite phiB_app. cbn [phiB]. lia. Qed.

Lemma phiB_norunner j A : existsb is_runner A = false ->
  forall f, phiB j f A = fold_right (fun p n => ww (j + f) p + n) 0 A.
Proof.
  induction A as [|p A IH]; intros H f; cbn in *; [reflexivity|].
  apply orb_false_iff in H as [Hp HA]. unfold wl. rewrite Hp. rewrite (IH HA f). reflexivity.
Qed.

Definition bonus (w : Z) (j : nat) : nat := if Z.eqb w 0 then j + 8 else 0.

Definition pcs (o : OnceModel.state) (L : list nat) : list pc := map (pcd o) L.

Definition Phi (d : dstate) (L : list nat) : nat :=
  phiB (jrem d) 0 (pcs (os (ps d)) L) + bonus (word (os (ps d))) (jrem d).

(** ---- the shape of the one-worker states ---- *)
Inductive shape (m : MM.mstate) : list nat -> Prop :=
| shape_idle : MM.cur m = [MM.Sched] -> MM.hand m = [None] -> MM.dq m = [[]] -> shape m []
| shape_run t q : MM.cur m = [MM.Run t] -> MM.hand m = [None] -> MM.dq m = [q] -> shape m (q ++ [t]).

Record JJ (k : nat) (d : dstate) (L : list nat) : Prop := {
  j_shape : shape (ms (ps d)) L;
  j_minv : MInv (ms (ps d));
  j_oinv : OInv (os (ps d));
  j_len : length (thr (os (ps d))) = S k;
  j_in : forall u, In u L -> u < S k;
  j_out : forall u, ~ In u L -> pcd (os (ps d)) u = Idle;
  j_rets : rets (os (ps d)) + length L = S k
}.

(** pcs under an update of one thread *)
Lemma pcd_same o' t p : nth_error (thr o') t = Some {| main := p |} -> pcd o' t = p.
Proof. intros H. unfold pcd. rewrite H. reflexivity. Qed.

Lemma pcs_other o o' t L : ~ In t L -> (forall u, u <> t -> nth_error (thr o') u = nth_error (thr o) u) ->
  pcs o' L = pcs o L.
Proof.
  intros Hn Hsame. unfold pcs. apply map_ext_in. intros u Hu. unfold pcd. rewrite Hsame; [reflexivity|].
  intros ->. contradiction.
Qed.

Lemma thr_at_of_pcd o t k : length (thr o) = S k -> t < S k -> thr_at o t {| main := pcd o t |}.
Proof.
  intros Hl Ht. unfold thr_at, pcd. destruct (nth_error (thr o) t) as [[p]|] eqn:E; [reflexivity|].
  apply nth_error_None in E. lia.
Qed.

(** ---- machine sequences on the one-worker states ---- *)
Lemma shape_run_inv m q t : shape m (q ++ [t]) ->
  MM.cur m = [MM.Run t] /\ MM.hand m = [None] /\ MM.dq m = [q].
Proof.
  intros H. inversion H as [Hc Hh Hq E | t' q' Hc Hh Hq E].
  - destruct q; discriminate.
  - apply app_inj_tail in E as [-> ->]. auto.
Qed.

Lemma yield_one m t r x : MInv m -> MM.cur m = [MM.Run t] -> MM.hand m = [None] -> MM.dq m = [r ++ [x]] ->
  MO.runo m (map (fun a => (0, a)) yield_seq) =
    Some {| MM.cur := [MM.Run x]; MM.hand := [None]; MM.dq := [t :: r]; MM.stat := MM.stat m |}.
Proof.
  intros HI Hc Hh Hq.
  pose proof (MO.yield_gives_way m 0 t r x HI) as Y. rewrite Hc, Hh, Hq in Y.
  specialize (Y eq_refl eq_refl eq_refl). exact Y.
Qed.

Lemma finish_next m t r x : MM.cur m = [MM.Run t] -> MM.hand m = [None] -> MM.dq m = [r ++ [x]] ->
  MO.runo m (map (fun a => (0, a)) [MM.PopOwn; MM.FinishCtx; MM.EndCb]) =
    Some {| MM.cur := [MM.Run x]; MM.hand := [None]; MM.dq := [r];
            MM.stat := MM.upd (MM.stat m) t MM.Finished |}.
Proof.
  intros Hc Hh Hq. destruct m as [c h dqq st]. cbn in Hc, Hh, Hq. subst c h dqq.
  cbn [map MO.runo]. unfold MM.mstep at 1. cbn [fst snd]. unfold MM.mmove at 1.
  cbn [MM.cur MM.hand MM.dq nth_error]. rewrite split_last_app.
  unfold MM.set_hand, MM.set_dq. cbn [MM.cur MM.hand MM.dq MM.stat MM.upd].
  unfold MM.mstep at 1. cbn [fst snd]. unfold MM.mmove at 1. cbn [MM.cur MM.hand MM.dq nth_error].
  unfold MM.set_stat, MM.set_cur. cbn [MM.cur MM.hand MM.dq MM.stat MM.upd].
  unfold MM.mstep. cbn [fst snd]. unfold MM.mmove. cbn [MM.cur MM.hand MM.dq nth_error].
  unfold MM.set_hand, MM.set_cur. cbn [MM.cur MM.hand MM.dq MM.stat MM.upd]. reflexivity.
Qed.

Lemma finish_last m t : MM.cur m = [MM.Run t] -> MM.hand m = [None] -> MM.dq m = [[]] ->
  MO.runo m (map (fun a => (0, a)) [MM.FinishCtx; MM.EndCb]) =
    Some {| MM.cur := [MM.Sched]; MM.hand := [None]; MM.dq := [[]];
            MM.stat := MM.upd (MM.stat m) t MM.Finished |}.
Proof.
  intros Hc Hh Hq. destruct m as [c h dqq st]. cbn in Hc, Hh, Hq. subst c h dqq.
  cbn [map MO.runo]. unfold MM.mstep at 1. cbn [fst snd]. unfold MM.mmove at 1.
  cbn [MM.cur MM.hand MM.dq nth_error].
  unfold MM.set_stat, MM.set_cur. cbn [MM.cur MM.hand MM.dq MM.stat MM.upd].
  unfold MM.mstep. cbn [fst snd]. unfold MM.mmove. cbn [MM.cur MM.hand MM.dq nth_error].
  unfold MM.set_cur. cbn [MM.cur MM.hand MM.dq MM.stat MM.upd]. reflexivity.
Qed.

Lemma prun_once s t e o' l : running (ms s) 0 = Some t -> OnceModel.step (os s) (t, e) = Some o' ->
  prun s ((0, POnce e) :: l) = prun {| os := o'; ms := ms s |} l.
Proof. intros Hr Hs. cbn [prun]. unfold pstep. cbn [fst snd]. rewrite Hr, Hs. reflexivity. Qed.

Lemma upd_len {A} (l : list A) i x : length (OnceModel.upd l i x) = length l.
Proof. revert i; induction l as [|a l IH]; intros [|i]; cbn; auto. Qed.

Lemma running0 m t : MM.cur m = [MM.Run t] -> running m 0 = Some t.
Proof. intros H. unfold running. rewrite H. reflexivity. Qed.

Lemma queue0_is m q : MM.dq m = [q] -> queue0 m = q.
Proof. intros H. unfold queue0. rewrite H. reflexivity. Qed.

(** ---- the three kinds of driver step ---- *)

(** (K1) the current thread performs one once step that only changes its own pc (and possibly the word and
    the ghost counters other than [rets]); the machine does not move *)
Lemma local_step k d q t e o' p' : JJ k d (q ++ [t]) ->
  OnceModel.step (os (ps d)) (t, e) = Some o' ->
  thr o' = OnceModel.upd (thr (os (ps d))) t {| main := p' |} -> rets o' = rets (os (ps d)) ->
  let d' := {| ps := {| os := o'; ms := ms (ps d) |}; jrem := jrem d |} in
  prun (ps d) [(0, POnce e)] = Some (ps d') /\ JJ k d' (q ++ [t]) /\
  Phi d' (q ++ [t]) = phiB (jrem d) 0 (pcs (os (ps d)) q) + wl (jrem d) (fl 0 (pcs (os (ps d)) q)) p'
                      + bonus (word o') (jrem d) /\
  Phi d (q ++ [t]) = phiB (jrem d) 0 (pcs (os (ps d)) q)
                     + wl (jrem d) (fl 0 (pcs (os (ps d)) q)) (pcd (os (ps d)) t)
                     + bonus (word (os (ps d))) (jrem d).
Proof.
  intros [Js Jm Jo Jl Ji Jout Jr] Hst Hthr Hrets d'.
  destruct (shape_run_inv _ _ _ Js) as (Hc & Hh & Hq).
  assert (Htk : t < S k) by (apply Ji; apply in_or_app; right; left; reflexivity).
  pose proof (thr_at_of_pcd _ _ _ Jl Htk) as Hat. unfold thr_at in Hat.
  assert (Hnq : ~ In t q).
  { eapply (running_not_queued _ 0 0); eauto; [rewrite Hc | rewrite Hq]; reflexivity. }
  assert (Et : nth_error (thr o') t = Some {| main := p' |}) by (rewrite Hthr; eapply upd_nth_eq; eauto).
  assert (Eo : forall u, u <> t -> nth_error (thr o') u = nth_error (thr (os (ps d))) u).
  { intros u Hu. rewrite Hthr. apply upd_nth_ne. exact Hu. }
  assert (Epq : pcs o' q = pcs (os (ps d)) q) by (apply (pcs_other _ _ t); auto).
  split; [|split; [|split]].
  - rewrite (prun_once _ t e o') by (auto using running0). reflexivity.
  - constructor; cbn [ps os ms jrem d'].
    + exact Js.
    + exact Jm.
    + eapply OnceProofs.inv_step; eauto.
    + rewrite Hthr, upd_len. exact Jl.
    + exact Ji.
    + intros u Hu. unfold pcd. rewrite Eo; [apply Jout; exact Hu|].
      intros ->. apply Hu. apply in_or_app; right; left; reflexivity.
    + rewrite Hrets. exact Jr.
  - unfold Phi. cbn [ps os ms jrem d']. unfold pcs at 1. rewrite map_app. cbn [map].
    fold (pcs o' q). rewrite Epq, (pcd_same _ _ _ Et), phiB_last. reflexivity.
  - unfold Phi. unfold pcs at 1. rewrite map_app. cbn [map]. fold (pcs (os (ps d)) q).
    rewrite phiB_last. reflexivity.
Qed.

(** (K2) a once step that changes nothing (a failed poll, a step of the init routine) followed by the yield
    sequence: the newest queued thread runs, the yielder goes to the base *)
Lemma rotate_step k d r x t e j' : JJ k d ((r ++ [x]) ++ [t]) ->
  OnceModel.step (os (ps d)) (t, e) = Some (os (ps d)) ->
  let d' := {| ps := {| os := os (ps d);
                        ms := {| MM.cur := [MM.Run x]; MM.hand := [None]; MM.dq := [t :: r];
                                 MM.stat := MM.stat (ms (ps d)) |} |}; jrem := j' |} in
  prun (ps d) ((0, POnce e) :: moves 0 yield_seq) = Some (ps d') /\ JJ k d' ((t :: r) ++ [x]).
Proof.
  intros [Js Jm Jo Jl Ji Jout Jr] Hst d'.
  destruct (shape_run_inv _ _ _ Js) as (Hc & Hh & Hq).
  pose proof (yield_one _ _ _ _ Jm Hc Hh Hq) as Y.
  split.
  - rewrite (prun_once _ t e (os (ps d))) by (auto using running0).
    replace {| os := os (ps d); ms := ms (ps d) |} with (ps d) by (destruct (ps d); reflexivity).
    apply prun_moves. exact Y.
  - constructor; cbn [ps os ms jrem d'].
    + apply shape_run; reflexivity.
    + eapply runo_inv; [exact Jm | exact Y].
    + exact Jo.
    + exact Jl.
    + intros u Hu. apply Ji. apply in_app_or in Hu. destruct Hu as [Hu|[<-|[]]].
      * destruct Hu as [<-|Hu]; [apply in_or_app; right; left; reflexivity|].
        apply in_or_app; left. apply in_or_app; left. exact Hu.
      * apply in_or_app; left. apply in_or_app; right; left; reflexivity.
    + intros u Hu. apply Jout. intros Hin. apply Hu. apply in_app_or in Hin. destruct Hin as [Hin|[<-|[]]].
      * apply in_app_or in Hin. destruct Hin as [Hin|[<-|[]]].
        -- apply in_or_app; left. right. exact Hin.
        -- apply in_or_app; right; left; reflexivity.
      * apply in_or_app; left. left. reflexivity.
    + rewrite <- Jr. rewrite !app_length. cbn [length]. lia.
Qed.

(** (K3) the current thread returns from once and finishes *)
Lemma finish_step k d q t r0 : JJ k d (q ++ [t]) -> pcd (os (ps d)) t = Done r0 ->
  exists d', dstep d = Some d' /\ JJ k d' q /\ jrem d' = jrem d /\
             word (os (ps d')) = word (os (ps d)) /\ pcs (os (ps d')) q = pcs (os (ps d)) q.
Proof.
  intros [Js Jm Jo Jl Ji Jout Jr] Hp.
  destruct (shape_run_inv _ _ _ Js) as (Hc & Hh & Hq).
  assert (Htk : t < S k) by (apply Ji; apply in_or_app; right; left; reflexivity).
  pose proof (thr_at_of_pcd _ _ _ Jl Htk) as Hat. rewrite Hp in Hat.
  assert (Hnq : ~ In t q).
  { eapply (running_not_queued _ 0 0); eauto; [rewrite Hc | rewrite Hq]; reflexivity. }
  set (o := os (ps d)) in *.
  set (o' := {| word := word o; thr := OnceModel.upd (thr o) t {| main := Idle |};
                runs := runs o; fins := fins o; rets := S (rets o) |}).
  assert (Hst : OnceModel.step o (t, ERet r0) = Some o').
  { apply step_kind_sound. eapply SK_ret; eauto. }
  assert (Eo : forall u, u <> t -> nth_error (thr o') u = nth_error (thr o) u).
  { intros u Hu. cbn [o' thr]. apply upd_nth_ne. exact Hu. }
  assert (Et : nth_error (thr o') t = Some {| main := Idle |}) by (cbn [o' thr]; eapply upd_nth_eq; eauto).
  assert (Epq : pcs o' q = pcs o q) by (apply (pcs_other _ _ t); auto).
  assert (HO' : OInv o') by (eapply OnceProofs.inv_step; eauto).
  assert (Hout' : forall u, ~ In u q -> pcd o' u = Idle).
  { intros u Hu. destruct (Nat.eq_dec u t) as [->|Hne]; [apply (pcd_same _ _ _ Et)|].
    unfold pcd. rewrite Eo by exact Hne. apply Jout. intros Hin. apply in_app_or in Hin.
    destruct Hin as [Hin|[<-|[]]]; [contradiction | apply Hne; reflexivity]. }
  unfold dstep, dacts. rewrite (running0 _ _ Hc). fold o. rewrite Hp.
  rewrite (prun_once _ t (ERet r0) o') by (auto using running0).
  unfold finish1. rewrite (queue0_is _ _ Hq).
  destruct (MM.split_last q) as [[r x]|] eqn:Esp.
  - apply MP.split_last_spec in Esp. subst q.
    assert (Hne : r ++ [x] <> []) by (destruct r; discriminate).
    destruct (r ++ [x]) as [|a l] eqn:Erx; [contradiction|]. rewrite <- Erx in *. clear Erx a l Hne.
    pose proof (finish_next _ _ _ _ Hc Hh Hq) as F.
    erewrite (prun_moves _ {| os := o'; ms := ms (ps d) |} 0) by exact F.
    eexists. split; [reflexivity|]. cbn [ps os ms jrem]. split; [|auto].
    constructor; cbn [ps os ms jrem]; auto.
    + apply shape_run; reflexivity.
    + eapply runo_inv; [exact Jm | exact F].
    + cbn [o' thr]. rewrite upd_len. exact Jl.
    + intros u Hu. apply Ji. apply in_or_app; left. exact Hu.
    + cbn [o' rets]. rewrite <- Jr. rewrite (app_length (r ++ [x])). cbn [length]. lia.
  - assert (q = []) as ->.
    { unfold MM.split_last in Esp. destruct (rev q) eqn:E; [|discriminate].
      apply (f_equal (@rev nat)) in E. rewrite rev_involutive in E. exact E. }
    pose proof (finish_last _ _ Hc Hh Hq) as F.
    erewrite (prun_moves _ {| os := o'; ms := ms (ps d) |} 0) by exact F.
    eexists. split; [reflexivity|]. cbn [ps os ms jrem]. split; [|auto].
    constructor; cbn [ps os ms jrem]; auto.
    + apply shape_idle; reflexivity.
    + eapply runo_inv; [exact Jm | exact F].
    + cbn [o' thr]. rewrite upd_len. exact Jl.
    + intros u [].
    + cbn [o' rets]. rewrite <- Jr. cbn [app length]. lia.
Qed.

(** ---- every driver step of a state with a current thread decreases the measure ---- *)
Lemma runner_is p : runner {| main := p |} = is_runner p.
Proof. destruct p; reflexivity. Qed.

Lemma norunner_queue k d q t : JJ k d (q ++ [t]) -> is_runner (pcd (os (ps d)) t) = true ->
  existsb is_runner (pcs (os (ps d)) q) = false.
Proof.
  intros [Js Jm Jo Jl Ji Jout Jr] Hr.
  destruct (shape_run_inv _ _ _ Js) as (Hc & Hh & Hq).
  assert (Htk : t < S k) by (apply Ji; apply in_or_app; right; left; reflexivity).
  assert (Hnq : ~ In t q).
  { eapply (running_not_queued _ 0 0); eauto; [rewrite Hc | rewrite Hq]; reflexivity. }
  destruct (existsb is_runner (pcs (os (ps d)) q)) eqn:E; [|reflexivity]. exfalso.
  apply existsb_exists in E as (p & Hin & Hp). unfold pcs in Hin. apply in_map_iff in Hin as (u & <- & Hu).
  assert (Huk : u < S k) by (apply Ji; apply in_or_app; left; exact Hu).
  pose proof (thr_at_of_pcd _ _ _ Jl Huk) as Hau. pose proof (thr_at_of_pcd _ _ _ Jl Htk) as Hat.
  assert (u = t).
  { eapply (k_run_u Jo); eauto; rewrite runner_is; assumption. }
  subst u. contradiction.
Qed.

Lemma ww_chain T : ww T Read < ww T Idle /\ ww T Cas < ww T Read /\ ww T WaitRead < ww T Cas /\
  ww T WaitRead < ww T Read /\ (forall r, ww T (Done r) < ww T WaitRead) /\ (forall r, 1 <= ww T (Done r)).
Proof. destruct T; cbn; repeat split; intros; lia. Qed.

Lemma split_nonempty {A} (q : list A) : q <> [] -> exists r x, q = r ++ [x].
Proof.
  intros H. destruct (MM.split_last q) as [[r x]|] eqn:E.
  - apply MP.split_last_spec in E. eauto.
  - unfold MM.split_last in E. destruct (rev q) eqn:Er; [|discriminate].
    apply (f_equal (@rev A)) in Er. rewrite rev_involutive in Er. contradiction.
Qed.

Lemma pcs_rot1 o t r x : pcs o ((t :: r) ++ [x]) = pcd o t :: pcs o (r ++ [x]).
Proof. reflexivity. Qed.

Lemma pcs_rot2 o t r x : pcs o ((r ++ [x]) ++ [t]) = pcs o (r ++ [x]) ++ [pcd o t].
Proof. unfold pcs. rewrite map_app. reflexivity. Qed.

Lemma dstep_progress k d q t : JJ k d (q ++ [t]) ->
  exists d' L', dstep d = Some d' /\ JJ k d' L' /\ Phi d' L' < Phi d (q ++ [t]).
Proof.
  intros HJ. pose proof HJ as [Js Jm Jo Jl Ji Jout Jr].
  destruct (shape_run_inv _ _ _ Js) as (Hc & Hh & Hq).
  assert (Htk : t < S k) by (apply Ji; apply in_or_app; right; left; reflexivity).
  pose proof (thr_at_of_pcd _ _ _ Jl Htk) as Hat.
  set (o := os (ps d)) in *. set (j := jrem d) in *.
  destruct (pcd o t) as [| | | | | | |r0] eqn:Hp.
  - (* Idle: call *)
    assert (Hst : OnceModel.step o (t, ECall) = Some (set_pc o t Read)).
    { apply step_kind_sound. eapply SK_call; eauto. }
    destruct (local_step k d q t ECall _ Read HJ Hst eq_refl eq_refl) as (Hrun & HJ' & HP' & HP).
    eexists; eexists. split; [|split; [exact HJ'|]].
    + unfold dstep, dacts. rewrite (running0 _ _ Hc). fold o. rewrite Hp, Hrun. reflexivity.
    + rewrite HP', HP. fold o. rewrite Hp. cbn [set_pc word]. unfold wl. cbn [is_runner].
      pose proof (ww_chain (jrem d + fl 0 (pcs o q))). lia.
  - (* Read *)
    destruct (Z.eq_dec (word o) 0) as [Hw|Hw].
    + assert (Hst : OnceModel.step o (t, ETick) = Some (set_pc o t Cas)).
      { apply step_kind_sound. eapply SK_read0; eauto. }
      destruct (local_step k d q t ETick _ Cas HJ Hst eq_refl eq_refl) as (Hrun & HJ' & HP' & HP).
      eexists; eexists. split; [|split; [exact HJ'|]].
      * unfold dstep, dacts. rewrite (running0 _ _ Hc). fold o. rewrite Hp, Hrun. reflexivity.
      * rewrite HP', HP. fold o. rewrite Hp. cbn [set_pc word]. unfold wl. cbn [is_runner].
        pose proof (ww_chain (jrem d + fl 0 (pcs o q))). lia.
    + assert (Hst : OnceModel.step o (t, ETick) = Some (set_pc o t WaitRead)).
      { apply step_kind_sound. eapply SK_read1; eauto. }
      destruct (local_step k d q t ETick _ WaitRead HJ Hst eq_refl eq_refl) as (Hrun & HJ' & HP' & HP).
      eexists; eexists. split; [|split; [exact HJ'|]].
      * unfold dstep, dacts. rewrite (running0 _ _ Hc). fold o. rewrite Hp, Hrun. reflexivity.
      * rewrite HP', HP. fold o. rewrite Hp. cbn [set_pc word]. unfold wl. cbn [is_runner].
        pose proof (ww_chain (jrem d + fl 0 (pcs o q))). lia.
  - (* Cas *)
    destruct (Z.eq_dec (word o) 0) as [Hw|Hw].
    + assert (Hst : OnceModel.step o (t, ETick) = Some (set_pc (set_word o 1) t InitPre)).
      { apply step_kind_sound. eapply SK_cas_ok; eauto. }
      destruct (local_step k d q t ETick _ InitPre HJ Hst eq_refl eq_refl) as (Hrun & HJ' & HP' & HP).
      eexists; eexists. split; [|split; [exact HJ'|]].
      * unfold dstep, dacts. rewrite (running0 _ _ Hc). fold o. rewrite Hp, Hrun. reflexivity.
      * rewrite HP', HP. fold o. rewrite Hp. cbn [set_pc set_word word]. rewrite Hw. unfold wl, bonus.
        cbn [is_runner rw Z.eqb]. lia.
    + assert (Hst : OnceModel.step o (t, ETick) = Some (set_pc o t WaitRead)).
      { apply step_kind_sound. eapply SK_cas_fail; eauto. }
      destruct (local_step k d q t ETick _ WaitRead HJ Hst eq_refl eq_refl) as (Hrun & HJ' & HP' & HP).
      eexists; eexists. split; [|split; [exact HJ'|]].
      * unfold dstep, dacts. rewrite (running0 _ _ Hc). fold o. rewrite Hp, Hrun. reflexivity.
      * rewrite HP', HP. fold o. rewrite Hp. cbn [set_pc word]. unfold wl. cbn [is_runner].
        pose proof (ww_chain (jrem d + fl 0 (pcs o q))). lia.
  - (* InitPre: the routine begins *)
    set (o' := {| word := word o; thr := OnceModel.upd (thr o) t {| main := InInit |};
                  runs := S (runs o); fins := fins o; rets := rets o |}).
    assert (Hst : OnceModel.step o (t, EInitBegin) = Some o').
    { apply step_kind_sound. eapply SK_ibegin; eauto. }
    destruct (local_step k d q t EInitBegin o' InInit HJ Hst eq_refl eq_refl) as (Hrun & HJ' & HP' & HP).
    eexists; eexists. split; [|split; [exact HJ'|]].
    + unfold dstep, dacts. rewrite (running0 _ _ Hc). fold o. rewrite Hp, Hrun. reflexivity.
    + rewrite HP', HP. fold o. rewrite Hp. cbn [o' word]. unfold wl. cbn [is_runner rw]. lia.
  - (* InInit *)
    assert (Hrt : is_runner (pcd o t) = true) by (rewrite Hp; reflexivity).
    pose proof (norunner_queue k d q t HJ Hrt) as Hnr. fold o in Hnr.
    assert (Hw1 : word o = 1%Z).
    { destruct (k_run Jo t _ Hat) as (E & _); [reflexivity | exact E]. }
    destruct j as [|j'] eqn:Ej.
    + (* the routine ends *)
      set (o' := {| word := word o; thr := OnceModel.upd (thr o) t {| main := AtDone |};
                    runs := runs o; fins := S (fins o); rets := rets o |}).
      assert (Hst : OnceModel.step o (t, EInitEnd) = Some o').
      { apply step_kind_sound. eapply SK_iend; eauto. }
      destruct (local_step k d q t EInitEnd o' AtDone HJ Hst eq_refl eq_refl) as (Hrun & HJ' & HP' & HP).
      eexists; eexists. split; [|split; [exact HJ'|]].
      * unfold dstep, dacts. rewrite (running0 _ _ Hc). fold o. rewrite Hp. fold j. rewrite Ej, Hrun.
        unfold j in Ej. rewrite <- Ej. reflexivity.
      * rewrite HP', HP. fold o. rewrite Hp. cbn [o' word]. unfold wl. cbn [is_runner rw]. lia.
    + (* one step of the routine, then yield *)
      assert (Hst : OnceModel.step o (t, EInitStep) = Some o).
      { apply step_kind_sound. eapply SK_istep; eauto. }
      destruct q as [|a q0] eqn:Eq0.
      * (* nothing queued: the yield returns at once *)
        exists {| ps := ps d; jrem := j' |}, ([] ++ [t]). split; [|split].
        -- unfold dstep, dacts. rewrite (running0 _ _ Hc). fold o. rewrite Hp. fold j. rewrite Ej.
           unfold yield1. rewrite (queue0_is _ _ Hq). rewrite (prun_once _ t EInitStep o) by (auto using running0).
           cbn [prun]. fold o. replace {| os := o; ms := ms (ps d) |} with (ps d) by (unfold o; destruct (ps d); reflexivity).
           reflexivity.
        -- constructor; cbn [ps jrem]; auto.
        -- unfold Phi. cbn [ps jrem app pcs map phiB]. fold o. fold j. rewrite Hp, Ej. unfold wl, bonus.
           cbn [is_runner rw]. rewrite Hw1. cbn [Z.eqb]. lia.
      * rewrite <- Eq0 in *. assert (Hne : q <> []) by (rewrite Eq0; discriminate).
        destruct (split_nonempty q Hne) as (r & x & ->). clear Eq0 a q0 Hne.
        destruct (rotate_step k d r x t EInitStep j' HJ Hst) as (Hrun & HJ').
        eexists; eexists. split; [|split; [exact HJ'|]].
        -- unfold dstep, dacts. rewrite (running0 _ _ Hc). fold o. rewrite Hp. fold j. rewrite Ej.
           unfold yield1. rewrite (queue0_is _ _ Hq).
           destruct (r ++ [x]) as [|a l] eqn:Erx; [destruct r; discriminate|]. rewrite Hrun. reflexivity.
        -- unfold Phi. cbn [ps os jrem]. fold o. fold j. rewrite Ej.
           rewrite (pcs_rot1 o t r x), (pcs_rot2 o t r x).
           rewrite Hp, phiB_last. cbn [phiB]. unfold wl. cbn [is_runner rw].
           rewrite (phiB_norunner _ _ Hnr 1), (phiB_norunner _ _ Hnr 0).
           rewrite Hw1. unfold bonus. cbn [Z.eqb].
           replace (S j' + 0) with (j' + 1) by lia. lia.
  - (* AtDone: the store of completed *)
    assert (Hrt : is_runner (pcd o t) = true) by (rewrite Hp; reflexivity).
    pose proof (norunner_queue k d q t HJ Hrt) as Hnr. fold o in Hnr.
    assert (Hw1 : word o = 1%Z).
    { destruct (k_run Jo t _ Hat) as (E & _); [reflexivity | exact E]. }
    assert (Hst : OnceModel.step o (t, ETick) = Some (set_pc (set_word o 2) t (Done 0))).
    { apply step_kind_sound. eapply SK_done; eauto. }
    destruct (local_step k d q t ETick _ (Done 0) HJ Hst eq_refl eq_refl) as (Hrun & HJ' & HP' & HP).
    eexists; eexists. split; [|split; [exact HJ'|]].
    + unfold dstep, dacts. rewrite (running0 _ _ Hc). fold o. rewrite Hp, Hrun. reflexivity.
    + rewrite HP', HP. fold o. rewrite Hp. cbn [set_pc set_word word]. rewrite Hw1. unfold wl, bonus, fl.
      rewrite Hnr. cbn [is_runner rw Z.eqb]. replace (jrem d + 0) with (jrem d) by lia. destruct (jrem d); cbn [ww c2 tc]; lia.
  - (* WaitRead *)
    destruct (Z.eq_dec (word o) 2) as [Hw|Hw].
    + assert (Hst : OnceModel.step o (t, ETick) = Some (set_pc o t (Done 0))).
      { apply step_kind_sound. eapply SK_wait_ok; eauto. }
      destruct (local_step k d q t ETick _ (Done 0) HJ Hst eq_refl eq_refl) as (Hrun & HJ' & HP' & HP).
      eexists; eexists. split; [|split; [exact HJ'|]].
      * unfold dstep, dacts. rewrite (running0 _ _ Hc). fold o. rewrite Hp, Hw. cbn [Z.eqb Pos.eqb].
        rewrite Hrun. reflexivity.
      * rewrite HP', HP. fold o. rewrite Hp. cbn [set_pc word]. unfold wl. cbn [is_runner].
        pose proof (ww_chain (jrem d + fl 0 (pcs o q))) as (_ & _ & _ & _ & W & _). specialize (W 0%Z). lia.
    + (* in progress: poll, yield *)
      assert (Hw0 : word o <> 0%Z) by (eapply (k_wait Jo); eauto).
      assert (Hw1 : word o = 1%Z) by (destruct (k_word Jo) as [E|[E|E]]; congruence).
      destruct (k_run_e Jo Hw1) as (u & xu & Hau & Hru).
      assert (Hul : In u (q ++ [t])).
      { destruct (in_dec Nat.eq_dec u (q ++ [t])) as [Hi|Hn]; [exact Hi|]. exfalso.
        pose proof (Jout u Hn) as E. fold o in E. unfold pcd in E. unfold thr_at in Hau. rewrite Hau in E.
        unfold runner in Hru. rewrite E in Hru. discriminate. }
      assert (Hut : u <> t).
      { intros ->. unfold thr_at in Hau, Hat. rewrite Hat in Hau. injection Hau as <-. discriminate. }
      assert (Huq : In u q) by (apply in_app_or in Hul; destruct Hul as [H|[H|[]]]; [exact H | congruence]).
      assert (Hex : existsb is_runner (pcs o q) = true).
      { apply existsb_exists. exists (pcd o u). split.
        - unfold pcs. apply in_map. exact Huq.
        - unfold pcd. unfold thr_at in Hau. rewrite Hau. rewrite <- runner_is. destruct xu; exact Hru. }
      assert (Hne : q <> []) by (intros ->; destruct Huq).
      destruct (split_nonempty q Hne) as (r & x & ->). clear Hne.
      assert (Hst : OnceModel.step o (t, ETick) = Some o) by (apply poll_once_same; assumption).
      destruct (rotate_step k d r x t ETick (jrem d) HJ Hst) as (Hrun & HJ').
      eexists; eexists. split; [|split; [exact HJ'|]].
      * unfold dstep, dacts. rewrite (running0 _ _ Hc). fold o. rewrite Hp.
        apply Z.eqb_neq in Hw. rewrite Hw. unfold yield1. rewrite (queue0_is _ _ Hq).
        destruct (r ++ [x]) as [|a l] eqn:Erx; [destruct r; discriminate|]. rewrite Hrun. reflexivity.
      * unfold Phi. cbn [ps os jrem]. fold o.
        rewrite (pcs_rot1 o t r x), (pcs_rot2 o t r x).
        rewrite Hp, phiB_last. cbn [phiB]. unfold wl. cbn [is_runner].
        unfold fl. rewrite Hex. replace (jrem d + 0) with (jrem d) by lia.
        replace (jrem d + 1) with (S (jrem d)) by lia. destruct (jrem d); cbn [ww c2 tc]; lia.
  - (* Done: return, finish *)
    destruct (finish_step k d q t r0 HJ Hp) as (d' & Hd & HJ' & Hj & Hw & Hpq).
    exists d', q. split; [exact Hd|]. split; [exact HJ'|].
    unfold Phi. rewrite Hj, Hw, Hpq. fold o. unfold pcs at 2. rewrite map_app. cbn [map]. fold (pcs o q).
    rewrite phiB_last, Hp. unfold wl. cbn [is_runner].
    pose proof (ww_chain (jrem d + fl 0 (pcs o q))) as (_ & _ & _ & _ & _ & W). specialize (W r0). lia.
Qed.

(** ---- the start state ---- *)
Lemma w_q_seq t : forall n a, MM.w_q t (seq a n) = if (a <=? t) && (t <? a + n) then 1 else 0.
Proof.
  induction n as [|n IH]; intros a.
  - cbn [seq]. unfold MM.w_q. cbn [MM.sumf].
    destruct (Nat.leb_spec a t); destruct (Nat.ltb_spec t (a + 0)); cbn [andb]; lia.
  - cbn [seq]. rewrite MP.w_q_cons, IH.
    destruct (Nat.eqb_spec a t) as [E|Hne]; destruct (Nat.leb_spec a t); destruct (Nat.leb_spec (S a) t);
      destruct (Nat.ltb_spec t (a + S n)); destruct (Nat.ltb_spec t (S a + n)); cbn; try lia.
Qed.

Lemma start_minv k :
  MInv {| MM.cur := [MM.Run 0]; MM.hand := [None]; MM.dq := [seq 1 k]; MM.stat := repeat MM.Live (S k) |}.
Proof.
  intros t. unfold MM.places, MM.occ_cur, MM.occ_hand, MM.occ_dq. cbn [MM.cur MM.hand MM.dq MM.sumf MM.w_cur MM.w_hand].
  rewrite w_q_seq. split.
  - destruct (Nat.eqb_spec 0 t) as [E|Hne]; destruct (Nat.leb_spec 1 t); destruct (Nat.ltb_spec t (1 + k));
      cbn [MM.b2n andb]; lia.
  - intros Hl. unfold MM.is_live, MM.get_stat in Hl. cbn [MM.stat] in Hl.
    destruct (Nat.lt_ge_cases t (S k)) as [Hlt|Hge].
    + exfalso. assert (E : nth t (repeat MM.Live (S k)) MM.NotCreated = MM.Live).
      { apply nth_error_nth with (d := MM.NotCreated).
        destruct (nth_error (repeat MM.Live (S k)) t) as [x|] eqn:En.
        - apply nth_error_In in En. apply repeat_spec in En. subst x. reflexivity.
        - apply nth_error_None in En. rewrite repeat_length in En. lia. }
      rewrite E in Hl. discriminate.
    + destruct (Nat.eqb_spec 0 t) as [E|Hne]; destruct (Nat.leb_spec 1 t); destruct (Nat.ltb_spec t (1 + k));
        cbn [MM.b2n andb]; lia.
Qed.

Lemma pcd_init n u : pcd (OnceModel.init_state n) u = Idle.
Proof.
  unfold pcd, OnceModel.init_state. cbn [thr].
  destruct (nth_error (repeat thread0 n) u) as [x|] eqn:E; [|reflexivity].
  apply nth_repeat in E. subst x. reflexivity.
Qed.

Lemma start_JJ k j : JJ k (dstart k j) (seq 1 k ++ [0]).
Proof.
  constructor; cbn [dstart ps os ms jrem].
  - apply shape_run; reflexivity.
  - apply start_minv.
  - apply OnceProofs.inv_init.
  - unfold OnceModel.init_state. cbn [thr]. apply repeat_length.
  - intros u Hu. apply in_app_or in Hu. destruct Hu as [Hu|[<-|[]]]; [apply in_seq in Hu|]; lia.
  - intros u _. apply pcd_init.
  - unfold OnceModel.init_state. cbn [rets]. rewrite app_length, seq_length. cbn [length]. lia.
Qed.

Lemma phiB_idle j : forall L, (forall p, In p L -> p = Idle) -> phiB j 0 L <= length L * (j + 5).
Proof.
  induction L as [|p L IH]; intros H; cbn [phiB length]; [lia|].
  rewrite (H p (or_introl eq_refl)). unfold wl. cbn [is_runner].
  specialize (IH (fun p' Hp' => H p' (or_intror Hp'))).
  replace (j + 0) with j by lia. assert (ww j Idle <= j + 5) by (destruct j; cbn; lia). lia.
Qed.

Lemma start_phi k j : Phi (dstart k j) (seq 1 k ++ [0]) <= bound k j.
Proof.
  unfold Phi, bound. cbn [dstart ps os jrem]. unfold OnceModel.init_state at 2. cbn [word]. unfold bonus. cbn [Z.eqb].
  assert (H : phiB j 0 (pcs (OnceModel.init_state (S k)) (seq 1 k ++ [0])) <= length (seq 1 k ++ [0]) * (j + 5)).
  { rewrite <- (map_length (pcd (OnceModel.init_state (S k)))). apply phiB_idle.
    intros p Hp. unfold pcs in Hp. apply in_map_iff in Hp as (u & <- & _). apply pcd_init. }
  rewrite app_length, seq_length in H. cbn [length] in H. replace (k + 1) with (S k) in H by lia. lia.
Qed.

(** ---- termination ---- *)
Lemma shape_cases m L : shape m L -> L = [] \/ exists q t, L = q ++ [t].
Proof. intros H. destruct H; [left; reflexivity | right; eauto]. Qed.

Lemma drive_terminates k : forall n d L, JJ k d L -> Phi d L <= n ->
  exists m d', m <= n /\ drive m d = Some d' /\ JJ k d' [].
Proof.
  induction n as [|n IH]; intros d L HJ HP.
  - destruct (shape_cases _ _ (j_shape _ _ _ HJ)) as [->|(q & t & ->)].
    + exists 0, d. split; [lia|]. split; [reflexivity | exact HJ].
    + destruct (dstep_progress k d q t HJ) as (d' & L' & _ & _ & Hlt). lia.
  - destruct (shape_cases _ _ (j_shape _ _ _ HJ)) as [->|(q & t & ->)].
    + exists 0, d. split; [lia|]. split; [reflexivity | exact HJ].
    + destruct (dstep_progress k d q t HJ) as (d' & L' & Hd & HJ' & Hlt).
      destruct (IH d' L' HJ') as (m & d'' & Hm & Hdr & HJ''); [lia|].
      exists (S m), d''. split; [lia|]. split; [|exact HJ'']. cbn [drive]. rewrite Hd. exact Hdr.
Qed.

Theorem one_worker_terminates k j :
  exists n d, n <= bound k j /\ drive n (dstart k j) = Some d /\
    MM.cur (ms (ps d)) = [MM.Sched] /\ MM.hand (ms (ps d)) = [None] /\ MM.dq (ms (ps d)) = [[]] /\
    word (os (ps d)) = 2%Z /\ runs (os (ps d)) = 1 /\ fins (os (ps d)) = 1 /\ rets (os (ps d)) = S k.
Proof.
  destruct (drive_terminates k (bound k j) (dstart k j) _ (start_JJ k j) (start_phi k j))
    as (n & d & Hn & Hd & [Js Jm Jo Jl Ji Jout Jr]).
  exists n, d. split; [exact Hn|]. split; [exact Hd|].
  inversion Js as [Hc Hh Hq | t q Hc Hh Hq E]; [|destruct q; discriminate].
  cbn [length] in Jr. assert (Hr : rets (os (ps d)) = S k) by lia.
  split; [exact Hc|]. split; [exact Hh|]. split; [exact Hq|].
  destruct (k_word Jo) as [W|[W|W]].
  - destruct (k_0 Jo W) as (_ & _ & E). lia.
  - pose proof (k_1 Jo W). lia.
  - destruct (k_2 Jo W) as (A & B). auto.
Qed.

(** the driver's steps are runs of the product: a schedule of at most five actions per driver step *)
Lemma prun_app l1 : forall s l2, prun s (l1 ++ l2) = match prun s l1 with Some s' => prun s' l2 | None => None end.
Proof.
  induction l1 as [|a l1 IH]; intros s l2; cbn [app prun]; [reflexivity|].
  destruct (pstep s a); [apply IH | reflexivity].
Qed.

Lemma dacts_short d l j' : dacts d = Some (l, j') -> length l <= 5.
Proof.
  unfold dacts. destruct (running (ms (ps d)) 0); [|discriminate].
  assert (Y : length (yield1 (ms (ps d))) <= 4) by (unfold yield1; destruct (queue0 _); cbn; lia).
  assert (F : length (finish1 (ms (ps d))) <= 3) by (unfold finish1; destruct (queue0 _); cbn; lia).
  destruct (pcd (os (ps d)) n); try (intros H; injection H as <- _; cbn [length]; lia).
  - destruct (jrem d); intros H; injection H as <- _; cbn [length]; lia.
  - destruct (Z.eqb _ 2); intros H; injection H as <- _; cbn [length]; lia.
Qed.

Lemma drive_schedule : forall n d d', drive n d = Some d' ->
  exists sched, length sched <= 5 * n /\ prun (ps d) sched = Some (ps d').
Proof.
  induction n as [|n IH]; intros d d' H; cbn [drive] in H.
  - injection H as <-. exists []. split; [cbn; lia | reflexivity].
  - destruct (dstep d) as [d1|] eqn:E; [|discriminate].
    destruct (IH d1 d' H) as (s2 & Hl & Hr).
    unfold dstep in E. destruct (dacts d) as [[l j']|] eqn:Ea.
    + destruct (prun (ps d) l) as [p'|] eqn:Ep; [|discriminate]. injection E as <-. cbn [ps] in Hr.
      exists (l ++ s2). split.
      * rewrite app_length. pose proof (dacts_short _ _ _ Ea). lia.
      * rewrite prun_app, Ep. exact Hr.
    + injection E as <-. exists s2. split; [lia | exact Hr].
Qed.

Corollary one_worker_schedule k j :
  exists sched p, length sched <= 5 * bound k j /\ prun (ps (dstart k j)) sched = Some p /\
    MM.cur (ms p) = [MM.Sched] /\ MM.dq (ms p) = [[]] /\
    word (os p) = 2%Z /\ runs (os p) = 1 /\ fins (os p) = 1 /\ rets (os p) = S k.
Proof.
  destruct (one_worker_terminates k j) as (n & d & Hn & Hd & Hc & Hh & Hq & R).
  destruct (drive_schedule _ _ _ Hd) as (sched & Hl & Hr).
  exists sched, (ps d). split; [lia|]. split; [exact Hr|]. auto.
Qed.
