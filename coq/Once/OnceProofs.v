(** Proofs about Abs(once control) (Once/OnceModel.v): the inductive invariant and the lemmas behind
    the C14 theorems.  Every statement is for an arbitrary number of threads (the length of [thr]),
    arbitrary callers (any thread may call at any time it is idle, any number of times), an arbitrary
    schedule, and an init routine of arbitrary finite length (the number of [EInitStep]s the schedule
    contains, interleaved with everybody else's steps). *)
From Coq Require Import ZArith List Bool String Arith Lia.
From MT Require Import Lib.Interleave Once.OnceModel.
Import ListNotations.
Local Open Scope Z_scope.

(** ---- lists ---- *)
Lemma upd_nth_eq {A} (l : list A) t x y : nth_error l t = Some y -> nth_error (upd l t x) t = Some x.
Proof.
  revert t; induction l as [|a l IH]; intros [|t] H; cbn in *; try discriminate; auto.
Qed.

Lemma upd_nth_ne {A} (l : list A) t u x : u <> t -> nth_error (upd l t x) u = nth_error l u.
Proof.
  revert t u; induction l as [|a l IH]; intros [|t] [|u] H; cbn; auto; try congruence.
Qed.

Lemma upd_nth_inv {A} (l : list A) t x u z :
  nth_error (upd l t x) u = Some z -> (u = t /\ z = x) \/ (u <> t /\ nth_error l u = Some z).
Proof.
  revert t u; induction l as [|a l IH]; intros [|t] [|u] H; cbn in *; try discriminate.
  - left; split; congruence.
  - right; split; auto.
  - right; split; auto.
  - apply IH in H. destruct H as [[-> ->]|[Hn H]]; [left|right]; auto.
Qed.

Lemma upd_same {A} (l : list A) t x : nth_error l t = Some x -> upd l t x = l.
Proof.
  revert t; induction l as [|a l IH]; intros [|t] H; cbn in *; try discriminate.
  - congruence.
  - f_equal. auto.
Qed.

Lemma nth_repeat {A} (a x : A) n t : nth_error (repeat a n) t = Some x -> x = a.
Proof.
  revert t; induction n as [|n IH]; intros [|t] H; cbn in *; try discriminate; [congruence | eauto].
Qed.

Tactic Notation "inv_upd" hyp(H) "as" ident(N) :=
  apply upd_nth_inv in H; destruct H as [[? ?]|[N H]]; subst.

(** ---- the system ---- *)
Definition thr_at (s : state) (t : nat) (x : thread) : Prop := nth_error (thr s) t = Some x.
Definition is_init (s : state) : Prop := exists n, s = init_state n.
Definition reach : state -> Prop := reachable is_init step.

(** ---- the invariant ---- *)
Record Inv (s : state) : Prop := {
  k_word : word s = 0 \/ word s = 1 \/ word s = 2;
  k_run : forall t x, thr_at s t x -> runner x = true ->
          word s = 1 /\ runs s = b2n (started x) /\ fins s = b2n (finished x);
  k_run_u : forall t1 x1 t2 x2, thr_at s t1 x1 -> thr_at s t2 x2 ->
            runner x1 = true -> runner x2 = true -> t1 = t2;
  k_run_e : word s = 1 -> exists t x, thr_at s t x /\ runner x = true;
  k_0 : word s = 0 -> runs s = 0%nat /\ fins s = 0%nat /\ rets s = 0%nat;
  k_1 : word s = 1 -> rets s = 0%nat;
  k_2 : word s = 2 -> runs s = 1%nat /\ fins s = 1%nat;
  k_done : forall t x r, thr_at s t x -> main x = Done r -> r = 0 /\ word s = 2;
  k_wait : forall t x, thr_at s t x -> main x = WaitRead -> word s <> 0
}.
Arguments k_word {s}. Arguments k_run {s}. Arguments k_run_u {s}. Arguments k_run_e {s}. Arguments k_0 {s}.
Arguments k_1 {s}. Arguments k_2 {s}. Arguments k_done {s}. Arguments k_wait {s}.

Lemma inv_init n : Inv (init_state n).
Proof.
  constructor; unfold thr_at, init_state; cbn [word thr runs fins rets].
  - auto.
  - intros t x H Hr. apply nth_repeat in H. subst x. discriminate.
  - intros t1 x1 t2 x2 H1 _ Hr. apply nth_repeat in H1. subst x1. discriminate.
  - discriminate.
  - auto.
  - discriminate.
  - discriminate.
  - intros t x r H Hm. apply nth_repeat in H. subst x. discriminate.
  - intros t x H Hm. apply nth_repeat in H. subst x. discriminate.
Qed.

(** ---- what a step is (inversion of [step]) ---- *)
Inductive step_kind (s : state) (t : nat) : ev -> state -> Prop :=
| SK_call me : thr_at s t me -> main me = Idle -> step_kind s t ECall (set_pc s t Read)
| SK_read0 me : thr_at s t me -> main me = Read -> word s = 0 -> step_kind s t ETick (set_pc s t Cas)
| SK_read1 me : thr_at s t me -> main me = Read -> word s <> 0 -> step_kind s t ETick (set_pc s t WaitRead)
| SK_cas_ok me : thr_at s t me -> main me = Cas -> word s = 0 ->
    step_kind s t ETick (set_pc (set_word s 1) t InitPre)
| SK_cas_fail me : thr_at s t me -> main me = Cas -> word s <> 0 -> step_kind s t ETick (set_pc s t WaitRead)
| SK_done me : thr_at s t me -> main me = AtDone -> step_kind s t ETick (set_pc (set_word s 2) t (Done 0))
| SK_wait_ok me : thr_at s t me -> main me = WaitRead -> word s = 2 -> step_kind s t ETick (set_pc s t (Done 0))
| SK_wait_again me : thr_at s t me -> main me = WaitRead -> word s <> 2 -> step_kind s t ETick (set_pc s t WaitRead)
| SK_ibegin me : thr_at s t me -> main me = InitPre ->
    step_kind s t EInitBegin
      {| word := word s; thr := upd (thr s) t {| main := InInit |};
         runs := S (runs s); fins := fins s; rets := rets s |}
| SK_istep me : thr_at s t me -> main me = InInit -> step_kind s t EInitStep s
| SK_iend me : thr_at s t me -> main me = InInit ->
    step_kind s t EInitEnd
      {| word := word s; thr := upd (thr s) t {| main := AtDone |};
         runs := runs s; fins := S (fins s); rets := rets s |}
| SK_ret me r : thr_at s t me -> main me = Done r ->
    step_kind s t (ERet r)
      {| word := word s; thr := upd (thr s) t {| main := Idle |};
         runs := runs s; fins := fins s; rets := S (rets s) |}.

Lemma step_inv s t e s' : step s (t, e) = Some s' -> step_kind s t e s'.
Proof.
  unfold step. destruct e as [| | | | |v].
  - unfold call, get_thread. destruct (nth_error (thr s) t) as [me|] eqn:Ht; [|discriminate].
    destruct (main me) eqn:Hm; try discriminate. intros H. injection H as <-. econstructor; eauto.
  - unfold tick, get_thread. destruct (nth_error (thr s) t) as [me|] eqn:Ht; [|discriminate].
    destruct (main me) eqn:Hm; try discriminate.
    + destruct (word s =? 0) eqn:E; intros H; injection H as <-.
      * apply Z.eqb_eq in E. eapply SK_read0; eauto.
      * apply Z.eqb_neq in E. eapply SK_read1; eauto.
    + destruct (word s =? 0) eqn:E; intros H; injection H as <-.
      * apply Z.eqb_eq in E. eapply SK_cas_ok; eauto.
      * apply Z.eqb_neq in E. eapply SK_cas_fail; eauto.
    + intros H. injection H as <-. eapply SK_done; eauto.
    + destruct (word s =? 2) eqn:E; intros H; injection H as <-.
      * apply Z.eqb_eq in E. eapply SK_wait_ok; eauto.
      * apply Z.eqb_neq in E. eapply SK_wait_again; eauto.
  - unfold init_begin, get_thread. destruct (nth_error (thr s) t) as [me|] eqn:Ht; [|discriminate].
    destruct (main me) eqn:Hm; try discriminate. intros H. injection H as <-. econstructor; eauto.
  - unfold init_step, get_thread. destruct (nth_error (thr s) t) as [me|] eqn:Ht; [|discriminate].
    destruct (main me) eqn:Hm; try discriminate. intros H. injection H as <-. econstructor; eauto.
  - unfold init_end, get_thread. destruct (nth_error (thr s) t) as [me|] eqn:Ht; [|discriminate].
    destruct (main me) eqn:Hm; try discriminate. intros H. injection H as <-. econstructor; eauto.
  - unfold ret, ret_ok, get_thread. destruct (nth_error (thr s) t) as [me|] eqn:Ht; [|discriminate].
    destruct (main me) eqn:Hm; try discriminate.
    destruct (v =? r) eqn:E; [|discriminate]. apply Z.eqb_eq in E. subst v.
    intros H. injection H as <-. econstructor; eauto.
Qed.

Lemma step_kind_sound s t e s' : step_kind s t e s' -> step s (t, e) = Some s'.
Proof.
  intros K. destruct K as [me Ht Hm|me Ht Hm Hw|me Ht Hm Hw|me Ht Hm Hw|me Ht Hm Hw|me Ht Hm|me Ht Hm Hw
                           |me Ht Hm Hw|me Ht Hm|me Ht Hm|me Ht Hm|me r Ht Hm];
    unfold step, thr_at in *.
  - unfold call, get_thread. rewrite Ht, Hm. reflexivity.
  - unfold tick, get_thread. rewrite Ht, Hm. apply Z.eqb_eq in Hw. rewrite Hw. reflexivity.
  - unfold tick, get_thread. rewrite Ht, Hm. apply Z.eqb_neq in Hw. rewrite Hw. reflexivity.
  - unfold tick, get_thread. rewrite Ht, Hm. apply Z.eqb_eq in Hw. rewrite Hw. reflexivity.
  - unfold tick, get_thread. rewrite Ht, Hm. apply Z.eqb_neq in Hw. rewrite Hw. reflexivity.
  - unfold tick, get_thread. rewrite Ht, Hm. reflexivity.
  - unfold tick, get_thread. rewrite Ht, Hm. apply Z.eqb_eq in Hw. rewrite Hw. reflexivity.
  - unfold tick, get_thread. rewrite Ht, Hm. apply Z.eqb_neq in Hw. rewrite Hw. reflexivity.
  - unfold init_begin, get_thread. rewrite Ht, Hm. reflexivity.
  - unfold init_step, get_thread. rewrite Ht, Hm. reflexivity.
  - unfold init_end, get_thread. rewrite Ht, Hm. reflexivity.
  - unfold ret, ret_ok, get_thread. rewrite Ht, Hm. rewrite Z.eqb_refl. reflexivity.
Qed.

(** ---- preservation ---- *)

(** a step that moves a non-runner to another non-runner pc and changes nothing else *)
Lemma inv_set_pc_plain s t me p : Inv s -> thr_at s t me -> runner me = false ->
  runner {| main := p |} = false ->
  (forall r, p = Done r -> r = 0 /\ word s = 2) -> (p = WaitRead -> word s <> 0) ->
  Inv (set_pc s t p).
Proof.
  intros [Kw Kr Kru Kre K0 K1 K2 Kd Kwt] Ht Hnr Hnp Hd Hwt. unfold thr_at in *.
  constructor; unfold thr_at, set_pc; cbn [word thr runs fins rets]; auto.
  - intros u z H Hz. inv_upd H as N; [congruence | eauto].
  - intros u1 z1 u2 z2 H1 H2 Hz1 Hz2. inv_upd H1 as N1; [congruence|]. inv_upd H2 as N2; [congruence|]. eauto.
  - intros E. destruct (Kre E) as (u & z & H & Hz). exists u, z. split; auto.
    rewrite upd_nth_ne; auto. intros ->. rewrite Ht in H. injection H as <-. congruence.
  - intros u z r H Hz. inv_upd H as N; [cbn in Hz; auto | eauto].
  - intros u z H Hz. inv_upd H as N; [cbn in Hz; auto | eauto].
Qed.

Lemma inv_cas_ok s t me : Inv s -> thr_at s t me -> main me = Cas -> word s = 0 ->
  Inv (set_pc (set_word s 1) t InitPre).
Proof.
  intros [Kw Kr Kru Kre K0 K1 K2 Kd Kwt] Ht Hm Hw. unfold thr_at in *.
  destruct (K0 Hw) as (Hr & Hf & Hrt).
  assert (NoRun : forall u z, nth_error (thr s) u = Some z -> runner z = true -> False).
  { intros u z H Hz. destruct (Kr _ _ H Hz) as (E & _). lia. }
  constructor; unfold thr_at, set_pc, set_word; cbn [word thr runs fins rets]; auto; try lia.
  - intros u z H Hz. inv_upd H as N; [|exfalso; eauto]. cbn. auto.
  - intros u1 z1 u2 z2 H1 H2 Hz1 Hz2. inv_upd H1 as N1; inv_upd H2 as N2; auto; exfalso; eauto.
  - intros _. exists t. eexists. split; [eapply upd_nth_eq; eauto | reflexivity].
  - intros u z r H Hz. inv_upd H as N; [discriminate|]. destruct (Kd _ _ _ H Hz) as (_ & E). lia.
Qed.

Lemma inv_done s t me : Inv s -> thr_at s t me -> main me = AtDone ->
  Inv (set_pc (set_word s 2) t (Done 0)).
Proof.
  intros [Kw Kr Kru Kre K0 K1 K2 Kd Kwt] Ht Hm. unfold thr_at in *.
  assert (Rme : runner me = true) by (unfold runner; rewrite Hm; reflexivity).
  destruct (Kr _ _ Ht Rme) as (Hw & Hr & Hf). unfold started, finished in *. rewrite Hm in *. cbn in Hr, Hf.
  assert (NoRun : forall u z, nth_error (thr s) u = Some z -> runner z = true -> u <> t -> False).
  { intros u z H Hz N. apply N. eapply Kru; eauto. }
  constructor; unfold thr_at, set_pc, set_word; cbn [word thr runs fins rets]; auto; try lia.
  - intros u z H Hz. inv_upd H as N; [discriminate | exfalso; eauto].
  - intros u1 z1 u2 z2 H1 H2 Hz1 Hz2. inv_upd H1 as N1; [discriminate | exfalso; eauto].
  - intros u z r H Hz. inv_upd H as N.
    + cbn in Hz. injection Hz as <-. auto.
    + destruct (Kd _ _ _ H Hz) as (E & _). auto.
Qed.

Lemma inv_ibegin s t me : Inv s -> thr_at s t me -> main me = InitPre ->
  Inv {| word := word s; thr := upd (thr s) t {| main := InInit |};
         runs := S (runs s); fins := fins s; rets := rets s |}.
Proof.
  intros [Kw Kr Kru Kre K0 K1 K2 Kd Kwt] Ht Hm. unfold thr_at in *.
  assert (Rme : runner me = true) by (unfold runner; rewrite Hm; reflexivity).
  destruct (Kr _ _ Ht Rme) as (Hw & Hr & Hf). unfold started, finished in *. rewrite Hm in *. cbn in Hr, Hf.
  assert (NoRun : forall u z, nth_error (thr s) u = Some z -> runner z = true -> u <> t -> False).
  { intros u z H Hz N. apply N. eapply Kru; eauto. }
  constructor; unfold thr_at; cbn [word thr runs fins rets]; auto; try lia.
  - intros u z H Hz. inv_upd H as N; [|exfalso; eauto]. cbn; repeat split; auto; lia.
  - intros u1 z1 u2 z2 H1 H2 Hz1 Hz2. inv_upd H1 as N1; inv_upd H2 as N2; auto; exfalso; eauto.
  - intros _. exists t. eexists. split; [eapply upd_nth_eq; eauto | reflexivity].
  - intros u z r H Hz. inv_upd H as N; [discriminate | eauto].
Qed.

Lemma inv_iend s t me : Inv s -> thr_at s t me -> main me = InInit ->
  Inv {| word := word s; thr := upd (thr s) t {| main := AtDone |};
         runs := runs s; fins := S (fins s); rets := rets s |}.
Proof.
  intros [Kw Kr Kru Kre K0 K1 K2 Kd Kwt] Ht Hm. unfold thr_at in *.
  assert (Rme : runner me = true) by (unfold runner; rewrite Hm; reflexivity).
  destruct (Kr _ _ Ht Rme) as (Hw & Hr & Hf). unfold started, finished in *. rewrite Hm in *. cbn in Hr, Hf.
  assert (NoRun : forall u z, nth_error (thr s) u = Some z -> runner z = true -> u <> t -> False).
  { intros u z H Hz N. apply N. eapply Kru; eauto. }
  constructor; unfold thr_at; cbn [word thr runs fins rets]; auto; try lia.
  - intros u z H Hz. inv_upd H as N; [|exfalso; eauto]. cbn; repeat split; auto; lia.
  - intros u1 z1 u2 z2 H1 H2 Hz1 Hz2. inv_upd H1 as N1; inv_upd H2 as N2; auto; exfalso; eauto.
  - intros _. exists t. eexists. split; [eapply upd_nth_eq; eauto | reflexivity].
  - intros u z r H Hz. inv_upd H as N; [discriminate | eauto].
Qed.

Lemma inv_ret s t me r : Inv s -> thr_at s t me -> main me = Done r ->
  Inv {| word := word s; thr := upd (thr s) t {| main := Idle |};
         runs := runs s; fins := fins s; rets := S (rets s) |}.
Proof.
  intros [Kw Kr Kru Kre K0 K1 K2 Kd Kwt] Ht Hm. unfold thr_at in *.
  destruct (Kd _ _ _ Ht Hm) as (Hr0 & Hw).
  constructor; unfold thr_at; cbn [word thr runs fins rets]; auto; try lia.
  - intros u z H Hz. inv_upd H as N; [discriminate | eauto].
  - intros u1 z1 u2 z2 H1 H2 Hz1 Hz2. inv_upd H1 as N1; [discriminate|]. inv_upd H2 as N2; [discriminate | eauto].
  - intros u z r' H Hz. inv_upd H as N; [discriminate | eauto].
Qed.

Lemma inv_step s a s' : Inv s -> step s a = Some s' -> Inv s'.
Proof.
  destruct a as [t e]. intros I H. apply step_inv in H.
  destruct H as [me Ht Hm|me Ht Hm Hw|me Ht Hm Hw|me Ht Hm Hw|me Ht Hm Hw|me Ht Hm|me Ht Hm Hw
                 |me Ht Hm Hw|me Ht Hm|me Ht Hm|me Ht Hm|me r Ht Hm];
    try (eapply inv_set_pc_plain; eauto;
         try (unfold runner; rewrite Hm; reflexivity); try discriminate; auto;
         try (intros r E; injection E as <-; auto);
         try (intros _; eapply (k_wait I); eauto); fail).
  - eapply inv_cas_ok; eauto.
  - eapply inv_done; eauto.
  - eapply inv_ibegin; eauto.
  - exact I.
  - eapply inv_iend; eauto.
  - eapply inv_ret; eauto.
Qed.

Theorem reach_inv s : reach s -> Inv s.
Proof.
  apply invariant_rule.
  - intros s0 [n ->]. apply inv_init.
  - intros s0 a s1. apply inv_step.
Qed.

Lemma every_schedule_reach n sched : reach (run step sched (init_state n)).
Proof. apply run_reachable. apply reach_init. exists n. reflexivity. Qed.

Lemma reach_is_run s : reach s -> exists n sched, run step sched (init_state n) = s.
Proof.
  intros R. destruct (reachable_run R) as (s0 & sched & (n & ->) & E). exists n, sched. exact E.
Qed.

(** ---- the lemmas behind the C14 theorems ---- *)

Lemma b2n_le1 b : (b2n b <= 1)%nat.
Proof. destruct b; cbn; lia. Qed.

(** the init routine is begun at most once, completed at most as often as begun, and once any call
    has returned (or is about to return) it has been begun and completed exactly once *)
Lemma runs_once s : reach s ->
  (runs s <= 1)%nat /\ (fins s <= runs s)%nat /\
  (((0 < rets s)%nat \/ exists t x r, thr_at s t x /\ main x = Done r) ->
   runs s = 1%nat /\ fins s = 1%nat).
Proof.
  intros R. apply reach_inv in R. destruct R as [Kw Kr Kru Kre K0 K1 K2 Kd Kwt].
  destruct Kw as [W|[W|W]].
  - destruct (K0 W) as (A & B & C). split; [lia|]. split; [lia|].
    intros [H|(t & x & r & H & Hm)]; [lia|]. destruct (Kd _ _ _ H Hm) as (_ & E). lia.
  - destruct (Kre W) as (t & x & H & Hr). destruct (Kr _ _ H Hr) as (_ & A & B).
    assert (fins s <= runs s)%nat.
    { rewrite A, B. unfold started, finished. destruct (main x); cbn; lia. }
    split; [rewrite A; apply b2n_le1|]. split; auto.
    intros [Hp|(t' & x' & r & H' & Hm)]; [specialize (K1 W); lia|].
    destruct (Kd _ _ _ H' Hm) as (_ & E). lia.
  - destruct (K2 W) as (A & B). split; [lia|]. split; [lia|]. auto.
Qed.

(** a caller is at its return point only when the control is completed, which implies that the single
    execution of the init routine has ended *)
Lemma done_after_complete s t x r : reach s -> thr_at s t x -> main x = Done r ->
  r = 0 /\ word s = 2 /\ runs s = 1%nat /\ fins s = 1%nat.
Proof.
  intros R H Hm. apply reach_inv in R. destruct (k_done R _ _ _ H Hm) as (A & B).
  destruct (k_2 R B) as (C & D). auto.
Qed.

Lemma ret_after_complete s t v s' : reach s -> step s (t, ERet v) = Some s' ->
  v = 0 /\ word s = 2 /\ runs s = 1%nat /\ fins s = 1%nat /\ word s' = 2 /\ rets s' = S (rets s).
Proof.
  intros R H. apply step_inv in H. inversion H as [| | | | | | | | | | |me r Ht Hm]; subst.
  destruct (done_after_complete _ _ _ _ R Ht Hm) as (A & B & C & D). cbn. auto 10.
Qed.

(** the state word changes only 0 -> 1 (by the winning CAS, which makes the thread the runner) and
    1 -> 2 (by the once.done step of the runner, after the last step of the init routine) *)
Lemma word_changes s t e s' : reach s -> step s (t, e) = Some s' -> word s' <> word s ->
  e = ETick /\ exists me, thr_at s t me /\
  ((word s = 0 /\ word s' = 1 /\ main me = Cas /\ thr_at s' t {| main := InitPre |} /\ runs s = 0%nat) \/
   (word s = 1 /\ word s' = 2 /\ main me = AtDone /\ thr_at s' t {| main := Done 0 |} /\
    runs s = 1%nat /\ fins s = 1%nat)).
Proof.
  intros R H D. apply reach_inv in R. apply step_inv in H.
  destruct H as [me Ht Hm|me Ht Hm Hw|me Ht Hm Hw|me Ht Hm Hw|me Ht Hm Hw|me Ht Hm|me Ht Hm Hw
                 |me Ht Hm Hw|me Ht Hm|me Ht Hm|me Ht Hm|me r Ht Hm];
    unfold set_pc, set_word in *; cbn [word thr] in *; try (exfalso; apply D; reflexivity).
  - split; auto. exists me. split; auto. left. destruct (k_0 R Hw) as (A & _).
    repeat split; auto. unfold thr_at. cbn [thr]. eapply upd_nth_eq; eauto.
  - assert (Rme : runner me = true) by (unfold runner; rewrite Hm; reflexivity).
    destruct (k_run R _ _ Ht Rme) as (A & B & C). unfold started, finished in *. rewrite Hm in *. cbn in B, C.
    split; auto. exists me. split; auto. right.
    repeat split; auto. unfold thr_at. cbn [thr]. eapply upd_nth_eq; eauto.
Qed.

(** from completed, every step of every thread leaves the control completed, runs nothing, and moves
    the acting thread along Idle -call-> Read -once.read-> WaitRead -once.wait.read-> Done 0 -ret-> Idle
    (a thread that had read 0 long ago fails its CAS): no CAS succeeds, no init step exists *)
Lemma completed_steps s t e s' : reach s -> word s = 2 -> step s (t, e) = Some s' ->
  word s' = 2 /\ runs s' = runs s /\ fins s' = fins s /\
  (forall u, u <> t -> nth_error (thr s') u = nth_error (thr s) u) /\
  exists x x', thr_at s t x /\ thr_at s' t x' /\
    ((main x = Idle /\ e = ECall /\ main x' = Read) \/
     (main x = Read /\ e = ETick /\ main x' = WaitRead) \/
     (main x = Cas /\ e = ETick /\ main x' = WaitRead) \/
     (main x = WaitRead /\ e = ETick /\ main x' = Done 0) \/
     (main x = Done 0 /\ e = ERet 0 /\ main x' = Idle /\ rets s' = S (rets s))).
Proof.
  intros R W H. apply reach_inv in R. apply step_inv in H.
  assert (NoRun : forall me, thr_at s t me -> runner me = true -> False).
  { intros me Ht Hr. destruct (k_run R _ _ Ht Hr) as (E & _). lia. }
  destruct H as [me Ht Hm|me Ht Hm Hw|me Ht Hm Hw|me Ht Hm Hw|me Ht Hm Hw|me Ht Hm|me Ht Hm Hw
                 |me Ht Hm Hw|me Ht Hm|me Ht Hm|me Ht Hm|me r Ht Hm];
    try lia;
    try (exfalso; eapply NoRun; eauto; unfold runner; rewrite Hm; reflexivity);
    unfold set_pc, thr_at in *; cbn [word thr runs fins rets];
    (split; [auto|]); (split; [auto|]); (split; [auto|]);
    (split; [intros u Hu; apply upd_nth_ne; auto|]);
    exists me; eexists; (split; [eauto|]); (split; [eapply upd_nth_eq; eauto|]); cbn; auto 10.
  destruct (k_done R _ _ _ Ht Hm) as (-> & _). auto 10.
Qed.

Lemma upd_upd {A} (l : list A) t a b : upd (upd l t a) t b = upd l t b.
Proof.
  revert t; induction l as [|y l IH]; intros [|t]; cbn; auto. f_equal. auto.
Qed.

(** a call issued when the control is completed executes exactly the POINTs once.read and
    once.wait.read (never once.cas); its four steps are enabled and, run back to back, leave the state
    unchanged except for the return count.  Interleaved steps of other threads do not matter: by
    [completed_steps] they keep the control completed and do not touch this thread *)
Lemma later_call_path s t : reach s -> word s = 2 -> thr_at s t {| main := Idle |} ->
  exists s1 s2 s3,
    step s (t, ECall) = Some s1 /\ label s1 t = "once.read"%string /\
    step s1 (t, ETick) = Some s2 /\ label s2 t = "once.wait.read"%string /\
    step s2 (t, ETick) = Some s3 /\ label s3 t = ""%string /\
    step s3 (t, ERet 0) =
      Some {| word := word s; thr := thr s; runs := runs s; fins := fins s; rets := S (rets s) |}.
Proof.
  intros R W Ht. unfold thr_at in Ht.
  exists (set_pc s t Read), (set_pc s t WaitRead), (set_pc s t (Done 0)).
  assert (E1 : nth_error (upd (thr s) t {| main := Read |}) t = Some {| main := Read |})
    by (eapply upd_nth_eq; eauto).
  assert (E2 : nth_error (upd (thr s) t {| main := WaitRead |}) t = Some {| main := WaitRead |})
    by (eapply upd_nth_eq; eauto).
  assert (E3 : nth_error (upd (thr s) t {| main := Done 0 |}) t = Some {| main := Done 0 |})
    by (eapply upd_nth_eq; eauto).
  unfold step, call, tick, ret, ret_ok, label, get_thread, set_pc. cbn [word thr runs fins rets].
  rewrite Ht, E1, E2, E3. cbn [main]. rewrite W. cbn.
  rewrite !upd_upd. rewrite (upd_same _ _ _ Ht). repeat split; reflexivity.
Qed.

(** in progress => the runner exists, is unique, and is inside the init routine or about to enter or
    leave it; a waiting caller implies that the CAS has been won *)
Lemma in_progress_runner s : reach s -> word s = 1 ->
  exists t x, thr_at s t x /\ runner x = true /\
    (forall u z, thr_at s u z -> runner z = true -> u = t) /\ rets s = 0%nat.
Proof.
  intros R W. apply reach_inv in R. destruct (k_run_e R W) as (t & x & H & Hr).
  exists t, x. split; auto. split; auto. split.
  - intros u z Hu Hz. eapply (k_run_u R); eauto.
  - exact (k_1 R W).
Qed.

Lemma waiter_not_in_vain s t x : reach s -> thr_at s t x -> main x = WaitRead -> word s = 1 \/ word s = 2.
Proof.
  intros R H Hm. apply reach_inv in R. pose proof (k_wait R _ _ H Hm). destruct (k_word R) as [A|[A|A]]; auto. lia.
Qed.

Lemma runner_means_in_progress s t x : reach s -> thr_at s t x -> runner x = true ->
  word s = 1 /\ runs s = b2n (started x) /\ fins s = b2n (finished x).
Proof. intros R. apply reach_inv in R. exact (k_run R t x). Qed.

(** the runner is never blocked by the control: whatever the others do, its (at most three)
    remaining steps are enabled and lead to completed *)
Lemma runner_completes s : reach s -> word s = 1 ->
  exists t, word (run step [(t, EInitBegin); (t, EInitEnd); (t, ETick)] s) = 2.
Proof.
  intros R W. apply reach_inv in R. destruct (k_run_e R W) as (t & x & H & Hr). exists t.
  unfold thr_at in H. unfold run. cbn [fold_left]. unfold exec1 at 3.
  assert (AtDoneStep : forall s0, nth_error (thr s0) t = Some {| main := AtDone |} ->
            word (exec1 step s0 (t, ETick)) = 2).
  { intros s0 H0. unfold exec1, step, tick, get_thread. rewrite H0. reflexivity. }
  unfold runner in Hr. destruct x as [p]. cbn [main] in Hr. destruct p; try discriminate.
  - (* InitPre *)
    unfold step at 3, init_begin, get_thread. rewrite H. cbn [main].
    unfold exec1 at 2. unfold step, init_end, get_thread. cbn [thr]. rewrite (upd_nth_eq _ _ _ _ H). cbn [main].
    apply AtDoneStep. cbn [thr]. rewrite upd_upd. eapply upd_nth_eq; eauto.
  - (* InInit *)
    unfold step at 3, init_begin, get_thread. rewrite H. cbn [main].
    unfold exec1 at 2. unfold step, init_end, get_thread. rewrite H. cbn [main].
    apply AtDoneStep. cbn [thr]. eapply upd_nth_eq; eauto.
  - (* AtDone *)
    unfold step at 3, init_begin, get_thread. rewrite H. cbn [main].
    unfold exec1 at 2. unfold step, init_end, get_thread. rewrite H. cbn [main].
    apply AtDoneStep. exact H.
Qed.
