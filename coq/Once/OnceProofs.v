(** Proofs about Abs(once control) (Once/OnceModel.v): the inductive invariant and the lemmas behind
    the C14 theorems.  Every statement is for an arbitrary number of threads (the length of [thr]),
    arbitrary callers (any thread may call at any time it is idle, any number of times), an arbitrary
    schedule, and an init routine of arbitrary finite length (the number of [EInitStep]s the schedule
    contains, interleaved with everybody else's steps). *)
From Coq Require Import ZArith List Bool String Arith Lia.
From MT Require Import Lib.Interleave Once.OnceModel.
Import ListNotations.
Local Open Scope Z_scope.

(** ---- lists ---- *)
Lemma upd_nth_eq {A} (l : list A) t x y : nth_error l t = Some y -> nth_error (upd l t x) t = Some x.
Proof.
  revert t; induction l as [|a l IH]; intros [|t] H; cbn in *; try discriminate; auto.
Qed.

Lemma upd_nth_ne {A} (l : list A) t u x : u <> t -> nth_error (upd l t x) u = nth_error l u.
Proof.
  revert t u; induction l as [|a l IH]; intros [|t] [|u] H; cbn; auto; try congruence.
Qed.

Lemma upd_nth_inv {A} (l : list A) t x u z :
  nth_error (upd l t x) u = Some z -> (u = t /\ z = x) \/ (u <> t /\ nth_error l u = Some z).
Proof.
  revert t u; induction l as [|a l IH]; intros [|t] [|u] H; cbn in *; try discriminate.
  - left; split; congruence.
  - right; split; auto.
  - right; split; auto.
  - apply IH in H. destruct H as [[-> ->]|[Hn H]]; [left|right]; auto.
Qed.

Lemma upd_same {A} (l : list A) t x : nth_error l t = Some x -> upd l t x = l.
Proof.
  revert t; induction l as [|a l IH]; intros [|t] H; cbn in *; try discriminate.
  - congruence.
  - f_equal. auto.
Qed.

Lemma nth_repeat {A} (a x : A) n t : nth_error (repeat a n) t = Some x -> x = a.
Proof.
  revert t; induction n as [|n IH]; intros [|t] H; cbn in *; try discriminate; [congruence | eauto].
Qed.

Tactic Notation "inv_upd" hyp(H) "as" ident(N) :=
  apply upd_nth_inv in H; destruct H as [[? ?]|[N H]]; subst.

(** ---- the system ---- *)
Definition thr_at (s : state) (t : nat) (x : thread) : Prop := nth_error (thr s) t = Some x.
Definition is_init (s : state) : Prop := exists n, s = init_state n.
Definition reach : state -> Prop := reachable is_init step.

(** ---- the invariant ---- *)
Record Inv (s : state) : Prop := {
  k_word : word s = 0 \/ word s = 1 \/ word s = 2;
  k_run : forall t x, thr_at s t x -> runner x = true ->
          word s = 1 /\ runs s = b2n (started x) /\ fins s = b2n (finished x);
  k_run_u : forall t1 x1 t2 x2, thr_at s t1 x1 -> thr_at s t2 x2 ->
            runner x1 = true -> runner x2 = true -> t1 = t2;
  k_run_e : word s = 1 -> exists t x, thr_at s t x /\ runner x = true;
  k_0 : word s = 0 -> runs s = 0%nat /\ fins s = 0%nat /\ rets s = 0%nat;
  k_1 : word s = 1 -> rets s = 0%nat;
  k_2 : word s = 2 -> runs s = 1%nat /\ fins s = 1%nat;
  k_done : forall t x r, thr_at s t x -> main x = Done r -> r = 0 /\ word s = 2;
  k_wait : forall t x, thr_at s t x -> main x = WaitRead -> word s <> 0
}.
Arguments k_word {s}. Arguments k_run {s}. Arguments k_run_u {s}. Arguments k_run_e {s}. Arguments k_0 {s}.
Arguments k_1 {s}. Arguments k_2 {s}. Arguments k_done {s}. Arguments k_wait {s}.

Lemma inv_init n : Inv (init_state n).
Proof.
  constructor; unfold thr_at, init_state; cbn [word thr runs fins rets].
  - auto.
  - intros t x H Hr. apply nth_repeat in H. subst x. discriminate.
  - intros t1 x1 t2 x2 H1 _ Hr. apply nth_repeat in H1. subst x1. discriminate.
  - discriminate.
  - auto.
  - discriminate.
  - discriminate.
  - intros t x r H Hm. apply nth_repeat in H. subst x. discriminate.
  - intros t x H Hm. apply nth_repeat in H. subst x. discriminate.
Qed.

(** ---- what a step is (inversion of [step]) ---- *)
Inductive step_kind (s : state) (t : nat) : ev -> state -> Prop :=
| SK_call me : thr_at s t me -> main me = Idle -> step_kind s t ECall (set_pc s t Read)
| SK_read0 me : thr_at s t me -> main me = Read -> word s = 0 -> step_kind s t ETick (set_pc s t Cas)
| SK_read1 me : thr_at s t me -> main me = Read -> word s <> 0 -> step_kind s t ETick (set_pc s t WaitRead)
| SK_cas_ok me : thr_at s t me -> main me = Cas -> word s = 0 ->
    step_kind s t ETick (set_pc (set_word s 1) t InitPre)
| SK_cas_fail me : thr_at s t me -> main me = Cas -> word s <> 0 -> step_kind s t ETick (set_pc s t WaitRead)
| SK_done me : thr_at s t me -> main me = AtDone -> step_kind s t ETick (set_pc (set_word s 2) t (Done 0))
| SK_wait_ok me : thr_at s t me -> main me = WaitRead -> word s = 2 -> step_kind s t ETick (set_pc s t (Done 0))
| SK_wait_again me : thr_at s t me -> main me = WaitRead -> word s <> 2 -> step_kind s t ETick (set_pc s t WaitRead)
| SK_ibegin me : thr_at s t me -> main me = InitPre ->
    step_kind s t EInitBegin
      {| word := word s; thr := upd (thr s) t {| main := InInit |};
         runs := S (runs s); fins := fins s; rets := rets s |}
| SK_istep me : thr_at s t me -> main me = InInit -> step_kind s t EInitStep s
| SK_iend me : thr_at s t me -> main me = InInit ->
    step_kind s t EInitEnd
      {| word := word s; thr := upd (thr s) t {| main := AtDone |};
         runs := runs s; fins := S (fins s); rets := rets s |}
| SK_ret me r : thr_at s t me -> main me = Done r ->
    step_kind s t (ERet r)
      {| word := word s; thr := upd (thr s) t {| main := Idle |};
         runs := runs s; fins := fins s; rets := S (rets s) |}.

Lemma step_inv s t e s' : step s (t, e) = Some s' -> step_kind s t e s'.
Proof.
  unfold step. destruct e as [| | | | |v].
  - unfold call, get_thread. destruct (nth_error (thr s) t) as [me|] eqn:Ht; [|discriminate].
    destruct (main me) eqn:Hm; try discriminate. intros H. injection H as <-. econstructor; eauto.
  - unfold tick, get_thread. destruct (nth_error (thr s) t) as [me|] eqn:Ht; [|discriminate].
    destruct (main me) eqn:Hm; try discriminate.
    + destruct (word s =? 0) eqn:E; intros H; injection H as <-.
      * apply Z.eqb_eq in E. eapply SK_read0; eauto.
      * apply Z.eqb_neq in E. eapply SK_read1; eauto.
    + destruct (word s =? 0) eqn:E; intros H; injection H as <-.
      * apply Z.eqb_eq in E. eapply SK_cas_ok; eauto.
      * apply Z.eqb_neq in E. eapply SK_cas_fail; eauto.
    + intros H. injection H as <-. eapply SK_done; eauto.
    + destruct (word s =? 2) eqn:E; intros H; injection H as <-.
      * apply Z.eqb_eq in E. eapply SK_wait_ok; eauto.
      * apply Z.eqb_neq in E. eapply SK_wait_again; eauto.
  - unfold init_begin, get_thread. destruct (nth_error (thr s) t) as [me|] eqn:Ht; [|discriminate].
    destruct (main me) eqn:Hm; try discriminate. intros H. injection H as <-. econstructor; eauto.
  - unfold init_step, get_thread. destruct (nth_error (thr s) t) as [me|] eqn:Ht; [|discriminate].
    destruct (main me) eqn:Hm; try discriminate. intros H. injection H as <-. econstructor; eauto.
  - unfold init_end, get_thread. destruct (nth_error (thr s) t) as [me|] eqn:Ht; [|discriminate].
    destruct (main me) eqn:Hm; try discriminate. intros H. injection H as <-. econstructor; eauto.
  - unfold ret, ret_ok, get_thread. destruct (nth_error (thr s) t) as [me|] eqn:Ht; [|discriminate].
    destruct (main me) eqn:Hm; try discriminate.
    destruct (v =? r) eqn:E; [|discriminate]. apply Z.eqb_eq in E. subst v.
    intros H. injection H as <-. econstructor; eauto.
Qed.

Lemma step_kind_sound s t e s' : step_kind s t e s' -> step s (t, e) = Some s'.
Proof.
  intros K. destruct K as [me Ht Hm|me Ht Hm Hw|me Ht Hm Hw|me Ht Hm Hw|me Ht Hm Hw|me Ht Hm|me Ht Hm Hw
                           |me Ht Hm Hw|me Ht Hm|me Ht Hm|me Ht Hm|me r Ht Hm];
    unfold step, thr_at in *.
  - unfold call, get_thread. rewrite Ht, Hm. reflexivity.
  - unfold tick, get_thread. rewrite Ht, Hm. apply Z.eqb_eq in Hw. rewrite Hw. reflexivity.
  - unfold tick, get_thread. rewrite Ht, Hm. apply Z.eqb_neq in Hw. rewrite Hw. reflexivity.
  - unfold tick, get_thread. rewrite Ht, Hm. apply Z.eqb_eq in Hw. rewrite Hw. reflexivity.
  - unfold tick, get_thread. rewrite Ht, Hm. apply Z.eqb_neq in Hw. rewrite Hw. reflexivity.
  - unfold tick, get_thread. rewrite Ht, Hm. reflexivity.
  - unfold tick, get_thread. rewrite Ht, Hm. apply Z.eqb_eq in Hw. rewrite Hw. reflexivity.
  - unfold tick, get_thread. rewrite Ht, Hm. apply Z.eqb_neq in Hw. rewrite Hw. reflexivity.
  - unfold init_begin, get_thread. rewrite Ht, Hm. reflexivity.
  - unfold init_step, get_thread. rewrite Ht, Hm. reflexivity.
  - unfold init_end, get_thread. rewrite Ht, Hm. reflexivity.
  - unfold ret, ret_ok, get_thread. rewrite Ht, Hm. rewrite Z.eqb_refl. reflexivity.
Qed.
