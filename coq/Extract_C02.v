From Coq Require Import ExtrOcamlBasic.
From MT Require Import Wsq.WsqModel.
Extraction Language OCaml.
Separate Extraction step sched_step finished label obs result init_state.
