From Coq Require Import ExtrOcamlBasic ZArith.
From MT Require Import Wsq.WsqModel.
Extraction Language OCaml.
Separate Extraction step sched_step finished label obs result init_state
  Z.add Z.mul Z.opp Z.div_eucl.
