From Coq Require Import ExtrOcamlBasic ZArith.
From MT Require Import Wsq.WsqModel Wsq.TsoModel.
Extraction Language OCaml.
Separate Extraction step sched_event sched_step finished label obs result init_state
  tso_step tso_sched_step tso_run tso_init has_dup fence_table_ok pinned_table
  Z.add Z.mul Z.opp Z.div_eucl.
