(** C19 — DAG files are well formed and survive a dump / read / convert round trip.
    Statements only; every proof is [exact] of a lemma of DagFile/*Proofs.v.
    Vocabulary ([wf_root], [dag_wf], [dag_fits], ...) is in DagFile/DagSpec.v and DagFile/CodecProofs.v. *)
From Coq Require Import ZArith List Bool.
From MT Require Import DagFile.FlattenModel DagFile.PruneModel DagFile.CodecModel DagFile.ChronoModel
  DagFile.DagSpec DagFile.CodecProofs DagFile.FlattenProofs DagFile.TotalsProofs DagFile.ChronoProofs
  DagFile.StackProofs DagFile.BridgeRecord DagFile.InternModel DagFile.InternProofs DagFile.Examples.
Import ListNotations.
Local Open Scope Z_scope.

(** Dumping a dag and reading the file back yields the identical dag, for every struct layout that
    passes [layout_wf] (the check regenerates the layout from the current headers and evaluates
    [layout_wf] on it) and whatever the two pointer words of the string table header contained. *)
Theorem C19_roundtrip : forall L, layout_wf L = true ->
  forall G jI jC, dag_fits L G -> read_dag L (write_dag L jI jC G) = Some G.
Proof. exact codec_roundtrip. Qed.
Print Assumptions C19_roundtrip.

Example C19_roundtrip_layout : layout_wf ex_layout = true.
Proof. vm_compute. reflexivity. Qed.
Example C19_roundtrip_example : read_dag ex_layout (write_dag ex_layout 140737488355328 94200000000000 ex_dag) = Some ex_dag.
Proof. vm_compute. reflexivity. Qed.

(** The flattening of ANY recorded tree (any size, any contraction: collapsed subgraphs are [Sub _ []])
    succeeds - in particular the edge count computed beforehand equals the number of enumerated edges -
    and yields a well-formed dag: offsets and edge endpoints inside the dag, E sorted by (u,v),
    [edges_begin, edges_end) of every node exactly its out-edges, every leaf but the first with an
    incoming edge, and the edges follow a strict order (acyclic). *)
Theorem C19_wf : forall hdr ptr sc nw t, wf_root t = true ->
  exists G, make_pi_dag hdr ptr sc nw t = Ok G /\ dag_wf G /\ gsc G = sc /\ gnw G = nw.
Proof. exact flatten_dag_wf. Qed.
Print Assumptions C19_wf.

Example C19_wf_example : wf_root ex_tree = true /\ wf_root ex_tree_collapsed = true.
Proof. split; reflexivity. Qed.
Example C19_wf_example_dag : gn ex_dag = 7 /\ gm ex_dag = 4 /\
  map (fun e => (eu e, ev e)) (gE ex_dag) = [(3, 4); (3, 6); (4, 2); (6, 2)].
Proof. vm_compute. auto. Qed.

(** Shrinking a dag during conversion (dr_copy_pi_dag, for EVERY contraction decision [cc] taken on the
    nodes) succeeds, yields a well-formed dag again, keeps start clock and worker count, keeps every info
    word of the root (all but the two string-table indices, which are re-interned), and - when the
    recorded work totals are consistent (C18) - the sum of t_1 over the leaves of the shrunk dag is still
    t_1 of the root, as it was before (so gen_stat's check work == T[0].info.t_1 cannot fire). *)
Theorem C19_shrink_totals : forall cc hdr ptr sc nw t G,
  wf_root t = true -> make_pi_dag hdr ptr sc nw t = Ok G ->
  exists G' x0 y0,
    copy_pi_dag cc hdr ptr G = Ok G' /\ dag_wf G' /\ gsc G' = gsc G /\ gnw G' = gnw G /\
    nth_error (gT G) 0 = Some x0 /\ nth_error (gT G') 0 = Some y0 /\ info_eq y0 x0 /\
    (t1_ok t = true -> leaf_t1_sum (gT G) = getf F_t1 x0 /\ leaf_t1_sum (gT G') = getf F_t1 y0).
Proof. exact shrink_totals. Qed.
Print Assumptions C19_shrink_totals.

Example C19_shrink_example_hyp : wf_root ex_tree = true /\ t1_ok ex_tree = true /\ make_pi_dag 32 8 1000 2 ex_tree = Ok ex_dag.
Proof. vm_compute. auto. Qed.
Example C19_shrink_example : forall G', copy_pi_dag (fun x => getf F_kind x =? 5) 32 8 ex_dag = Ok G' ->
  gn G' = 3 /\ gm G' = 1 /\ leaf_t1_sum (gT G') = 19.
Proof. intros G' H. vm_compute in H. injection H as <-. vm_compute. auto. Qed.

(** The chronological replay (dr_pi_dag_chronological_traverse) of EVERY well-formed dag - by C19_wf the
    dumped dag of any recorded tree, by C19_shrink_totals any shrunk dag - for EVERY order in which the
    event queue hands out the pending events: it terminates within 4n+1 steps without tripping an assertion,
    every leaf goes through ready, start, last_start, end exactly once and in this order, no other node
    gets an event, and gen_stat's counters n_running and n_ready end at 0. *)
Theorem C19_replay : forall G, dag_wf G ->
  forall choose, (forall st, pend st <> [] -> (choose st < length (pend st))%nat) ->
  exists st0 st, chrono_init G = Some st0 /\
    chrono_run (4 * length (gT G) + 1) choose G st0 = Finished st /\
    (forall i x, nth_error (gT G) i = Some x ->
       events_of (elog st) (Z.of_nat i) = if leaf_node x then [EV_ready; EV_start; EV_last_start; EV_end] else []) /\
    (forall u, events_of (elog st) u <> [] -> 0 <= u < Z.of_nat (length (gT G))) /\
    n_running (elog st) = 0 /\ n_ready (elog st) = 0.
Proof. exact replay_ok. Qed.
Print Assumptions C19_replay.

Example C19_replay_example : exists st0 st, chrono_init ex_dag = Some st0 /\
  chrono_run 29 choose_min ex_dag st0 = Finished st /\ length (elog st) = 16%nat /\
  events_of (elog st) 2 = [0; 1; 2; 3] /\ events_of (elog st) 0 = [].
Proof. vm_compute. eexists. eexists. repeat split. Qed.

(** The literal explicit-stack loop of dr_pi_dag_enum_nodes (pop a node, fix its offsets at the current
    allocation pointer, copy its children contiguously, push them so that the first child is popped next),
    with its result put into index order, enumerates exactly the entries (index, children block, subtree)
    of the recursive description [entries] on which [make_pi_dag] and the theorems above are built. *)
Theorem C19_enum_order : forall t, entries_stack t = Some (entries t).
Proof. exact entries_stack_ok. Qed.
Print Assumptions C19_enum_order.

Example C19_enum_order_example : map (fun e => (fst (fst e), snd (fst e))) (entries ex_tree) =
  [(0, 1); (1, 3); (2, 7); (3, 5); (4, 7); (5, 6); (6, 7)]%nat.
Proof. reflexivity. Qed.

(** ** For every recorded execution as in C18 - the two hypotheses discharged

    [TM] = Dag/DagTreeModel.v, [RM] = Dag/DagRecordModel.v, [RP] = Dag/DagProofs.v (the C18 development):
    [t] any well-nested execution tree (task ::= (section|other)* end, section ::= (section|create task|other)* wait)
    with arbitrary clock readings and workers on its intervals; [RM.record oc summ [] t] the in-memory dag the
    recorder builds, accumulating every closed section/task (dr_accumulate_stats) and handing it to ANY contracting
    summariser [summ] (every contraction policy, C18_policies_contract); [bridge aux nm aw] translates it into the
    input of the flattening, with in_edge_kind by the recorder's rule ([aw]: arbitrary choice between wait_cont and
    end after a section), arbitrary remaining info words [aux] and arbitrary file names [nm]
    (DagFile/BridgeRecord.v). *)
Theorem C19_wf_recorded : forall aux nm aw oc summ, RP.contracting summ -> forall t, TM.well_nested t ->
  forall hdr ptr sc nw,
  exists G, make_pi_dag hdr ptr sc nw (bridge aux nm aw (RM.record oc summ [] t)) = Ok G /\
            dag_wf G /\ gsc G = sc /\ gnw G = nw.
Proof. exact wf_recorded. Qed.
Print Assumptions C19_wf_recorded.

(** ... under any contraction at record time ([summ]) and any at conversion time ([cc]): the dumped and the
    shrunk dag are well formed (hence replayable, C19_replay), the root keeps its info, and the leaves of both
    add up to the work of the execution (sum of all interval lengths, C18_work). *)
Theorem C19_shrink_totals_recorded : forall aux nm aw oc summ, RP.contracting summ -> forall t, TM.well_nested t ->
  forall cc hdr ptr sc nw,
  exists G G' x0 y0,
    make_pi_dag hdr ptr sc nw (bridge aux nm aw (RM.record oc summ [] t)) = Ok G /\
    copy_pi_dag cc hdr ptr G = Ok G' /\ dag_wf G /\ dag_wf G' /\ gsc G' = sc /\ gnw G' = nw /\
    nth_error (gT G) 0 = Some x0 /\ nth_error (gT G') 0 = Some y0 /\ info_eq y0 x0 /\
    getf F_t1 x0 = TM.work t /\ getf F_t1 y0 = TM.work t /\
    leaf_t1_sum (gT G) = TM.work t /\ leaf_t1_sum (gT G') = TM.work t.
Proof. exact shrink_totals_recorded. Qed.
Print Assumptions C19_shrink_totals_recorded.

Definition ex_exec : TM.tree :=
  TM.Task [TM.Other (TM.mkLeaf 1 2 0);
           TM.Sect [TM.Create (TM.mkLeaf 2 4 0) (TM.Task [TM.Sect [] (TM.mkLeaf 4 4 1)] (TM.mkLeaf 4 9 1));
                    TM.Other (TM.mkLeaf 4 5 0)] (TM.mkLeaf 8 10 2)]
          (TM.mkLeaf 10 11 0).
Example C19_recorded_example :
  TM.well_nested ex_exec /\ TM.work ex_exec = 12 /\
  wf_root (bridge (fun _ => []) (fun _ => ([97], [98])) (fun _ => true)
             (RM.record false (RM.summ_setting (RM.mkSetting 0 3 0 100000 0)) [] ex_exec)) = true.
Proof. vm_compute. auto. Qed.

(** ** String interning as read off the current source (translator obligation)
    tools/props/c19.py translates dr_string_table_find / _append / _flatten of the CURRENT dr_dump.c into a
    [find_ir] / [store_ir] and evaluates [find_ok] / [store_ok] on it in build/C19/gen/DrIntern.v.  If [find_ok]
    accepts - every found exit of the lookup loop is guarded by a comparison of the whole strings, whatever other
    pre-filters (hash, length) there are - the lookup is the model's [st_find] and interning is injective on
    contents: two names receive the same index iff they are equal strings. *)
Theorem C19_intern_injective : forall ir o, find_ok ir = true -> (forall k x, o k x x = true) ->
  forall tbl s s', NoDup tbl ->
  let '(t1, i) := intern_sem ir o tbl s in
  let '(t2, j) := intern_sem ir o t1 s' in
  (i = j <-> s = s') /\ NoDup t2.
Proof. exact intern_injective. Qed.
Print Assumptions C19_intern_injective.

(** merged implies equal does not even need the pre-filters to be reflexive *)
Theorem C19_intern_sound : forall ir o c s, find_ok ir = true -> accept ir o c s = true -> c = s.
Proof. exact accept_sound. Qed.
Print Assumptions C19_intern_sound.

(** dr_string_table_intern itself: a wrapper accepted by [wrap_ok] (find, append-if-new, return the index; no static
    local in the interning functions, no writable data in dr_dump.o) runs exactly as the model [intern_sem], so
    the table of a dump depends on nothing but the names of that dump *)
Theorem C19_intern_wrapper : forall w ir o tbl s, wrap_ok w = true ->
  wrun ir o s (w_body w) (tbl, 0) = Some (intern_sem ir o tbl s)
  /\ w_static_locals w = 0%nat /\ w_data_symbols w = 0%nat.
Proof. exact wrap_ok_sem. Qed.
Print Assumptions C19_intern_wrapper.

Example C19_intern_wrapper_example :
  wrap_ok (mk_wrap_ir [WFind; WAppendIfNew; WReturnIdx] 0 0) = true /\
  wrap_ok (mk_wrap_ir [WOther; WFind; WAppendIfNew; WOther; WOther; WReturnIdx] 2 2) = false /\
  wrap_ok (mk_wrap_ir [WFind; WAppendIfNew; WReturnIdx] 1 0) = false /\
  wrap_ok (mk_wrap_ir [WFind; WReturnIdx] 0 0) = false.
Proof. repeat split. Qed.

Example C19_intern_example :
  find_ok (mk_find_ir true true true [[APre 0; AStrcmp]]) = true /\
  find_ok (mk_find_ir true true true [[APre 0]]) = false /\
  find_ok (mk_find_ir true true true [[AMemcmpLen]]) = false /\
  find_ok (mk_find_ir true true true [[ALenEq; AMemcmpLen]]) = true.
Proof. repeat split. Qed.
