(** C19 — DAG files are well formed and survive a dump / read / convert round trip.
    Statements only; every proof is [exact] of a lemma of DagFile/*Proofs.v.
    Vocabulary ([wf_root], [dag_wf], [dag_fits], ...) is in DagFile/DagSpec.v and DagFile/CodecProofs.v. *)
From Coq Require Import ZArith List Bool.
From MT Require Import DagFile.FlattenModel DagFile.PruneModel DagFile.CodecModel DagFile.ChronoModel
  DagFile.DagSpec DagFile.CodecProofs DagFile.FlattenProofs DagFile.Examples.
Import ListNotations.
Local Open Scope Z_scope.

(** Dumping a dag and reading the file back yields the identical dag, for every struct layout that
    passes [layout_wf] (the check regenerates the layout from the current headers and evaluates
    [layout_wf] on it) and whatever the two pointer words of the string table header contained. *)
Theorem C19_roundtrip : forall L, layout_wf L = true ->
  forall G jI jC, dag_fits L G -> read_dag L (write_dag L jI jC G) = Some G.
Proof. exact codec_roundtrip. Qed.
Print Assumptions C19_roundtrip.

Example C19_roundtrip_layout : layout_wf ex_layout = true.
Proof. vm_compute. reflexivity. Qed.
Example C19_roundtrip_example : read_dag ex_layout (write_dag ex_layout 140737488355328 94200000000000 ex_dag) = Some ex_dag.
Proof. vm_compute. reflexivity. Qed.

(** The flattening of ANY recorded tree (any size, any contraction: collapsed subgraphs are [Sub _ []])
    succeeds - in particular the edge count computed beforehand equals the number of enumerated edges -
    and yields a well-formed dag: offsets and edge endpoints inside the dag, E sorted by (u,v),
    [edges_begin, edges_end) of every node exactly its out-edges, every leaf but the first with an
    incoming edge, and the edges follow a strict order (acyclic). *)
Theorem C19_wf : forall hdr ptr sc nw t, wf_root t = true ->
  exists G, make_pi_dag hdr ptr sc nw t = Ok G /\ dag_wf G /\ gsc G = sc /\ gnw G = nw.
Proof. exact flatten_dag_wf. Qed.
Print Assumptions C19_wf.

Example C19_wf_example : wf_root ex_tree = true /\ wf_root ex_tree_collapsed = true.
Proof. split; reflexivity. Qed.
Example C19_wf_example_dag : gn ex_dag = 7 /\ gm ex_dag = 4 /\
  map (fun e => (eu e, ev e)) (gE ex_dag) = [(3, 4); (3, 6); (4, 2); (6, 2)].
Proof. vm_compute. auto. Qed.
