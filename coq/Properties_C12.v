(** C12 — stacks and thread records are never reused or released while still in use.
    Statements only; every proof is [exact] of a lemma of Alloc/*Proofs.v.

    Three layers:
    (1) size classes and the stack/size-word arithmetic (Z arithmetic with the C truncations),
    (2) the free-list allocator with an mmap oracle (addresses: blocks never overlap),
    (3) the ownership ledger as an interleaving system (who may touch which stack/record,
        for every number of workers and every schedule). *)
From Coq Require Import ZArith List Bool Permutation.
From MT Require Import Lib.Interleave.
From MT Require Import Alloc.SizeClassModel Alloc.SizeClassProofs.
From MT Require Import Alloc.FlmallocModel Alloc.FlmallocProofs.
From MT Require Import Alloc.StackModel Alloc.StackProofs.
From MT Require Import Alloc.LedgerModel Alloc.LedgerProofs.
Import ListNotations.

(** * (1) size classes *)

(** For every size the allocator can serve, [0 <= s <= 2^30] (sizes below 8 are served as 8):
    the index is inside the array of FREE_LIST_NUM lists, the block of the class holds the
    request, and no smaller class of the table would. *)
Theorem size_class_spec : forall s, (0 <= s <= 2 ^ 30)%Z ->
  exists i, size_class s = Class i (2 ^ i) /\ (3 <= i < FREE_LIST_NUM)%Z /\
            (s <= 2 ^ i)%Z /\ (forall j, (3 <= j < i)%Z -> (2 ^ j < s)%Z).
Proof. exact SizeClassProofs.size_class_spec. Qed.
Print Assumptions size_class_spec.

(** ... and that is exactly the range: for a 64-bit [size_t] argument the allocator yields a
    class whose block holds the request iff the request is at most 2^30. *)
Theorem size_class_exact_range : forall s, (0 <= s < 2 ^ 64)%Z ->
  ((exists i r, size_class s = Class i r /\ (s <= r)%Z) <-> (s <= 2 ^ 30)%Z).
Proof. exact SizeClassProofs.size_class_exact_range. Qed.
Print Assumptions size_class_exact_range.

(** Outside: between 2^30 and 2^32 the index is 31 or 32, past the end of the array ... *)
Theorem size_class_out_of_range : forall s, (2 ^ 30 < s <= 2 ^ 32)%Z ->
  exists i, size_class s = ClassOutOfRange i /\ (31 <= i <= 32)%Z.
Proof. exact SizeClassProofs.size_class_out_of_range. Qed.
Print Assumptions size_class_out_of_range.

(** ... and beyond 2^32 the argument of the 32-bit builtin is truncated: any class that comes
    out is smaller than the request (or the builtin is applied to 0, which is undefined). *)
Theorem size_class_truncated : forall s, (2 ^ 32 < s < 2 ^ 64)%Z ->
  match size_class s with
  | Class i r => (r <= 2 ^ 30 /\ r < s)%Z
  | ClassOutOfRange i => (31 <= i)%Z
  | ClassUndef => ((s - 1) mod 2 ^ 32 = 0)%Z
  end.
Proof. exact SizeClassProofs.size_class_truncated. Qed.
Print Assumptions size_class_truncated.

(** the full-range statement "the class block holds the request" is false: witness *)
Theorem size_class_holds_request_refuted :
  exists s i r, (0 <= s < 2 ^ 64)%Z /\ size_class s = Class i r /\ (r < s)%Z.
Proof. exists (2 ^ 32 + 4096)%Z, 12%Z, 4096%Z. vm_compute. repeat split; congruence. Qed.
Print Assumptions size_class_holds_request_refuted.

Theorem round_page_spec : forall n, (0 <= n)%Z -> (n + 4095 < 2 ^ 64)%Z ->
  (n <= round_page n < n + 4096)%Z /\ (round_page n mod 4096 = 0)%Z /\
  ((n mod 4096 = 0)%Z -> round_page n = n).
Proof. exact SizeClassProofs.round_page_spec. Qed.
Print Assumptions round_page_spec.

(** release recomputes the block start and the class that allocation used: custom sizes
    (every request [n >= 1] whose page-rounded size is at most 2^30; requests below one page
    are rounded up to one page) *)
Theorem C12_release_same_class : forall mmap gsz st w n top st',
  (1 <= n)%Z -> (n + 4095 < 2 ^ 64)%Z -> (round_page n <= 2 ^ 30)%Z ->
  stack_get mmap gsz st w n = SOk top st' ->
  exists b i,
    size_class (round_page n) = Class i (2 ^ i) /\
    flmalloc mmap (s_fl st) w (round_page n) = AOk b (s_fl st') /\
    (n <= round_page n < n + 4096)%Z /\ (round_page n <= 2 ^ i)%Z /\
    top = (b + round_page n - 16)%Z /\ (b <= top)%Z /\ (top + 16 <= b + 2 ^ i)%Z /\
    load (s_mem st') (top + 8) = round_page n /\
    (forall m, load m (top + 8) = round_page n -> release_target m top = RClass i b).
Proof. exact release_same_class_custom. Qed.
Print Assumptions C12_release_same_class.

(** what the release does with the computed target, on whatever worker [w] it runs *)
Theorem C12_release_pushes_block : forall st w top i b,
  release_target (s_mem st) top = RClass i b ->
  stack_release st w top =
  Some (mkS (mkFl ((w, i, b) :: fl_lists (s_fl st)) (fl_regs (s_fl st))) (s_def st) (s_desc st) (s_mem st)).
Proof. exact stack_release_class. Qed.
Print Assumptions C12_release_pushes_block.

(** default-size stacks (size word 0) *)
Theorem C12_release_same_class_default : forall mmap gsz st w top st',
  stack_get mmap gsz st w 0 = SOk top st' ->
  (pop_w w (s_def st) = None ->
     top = (mmap (fl_regs (s_fl st)) (round_page gsz) + gsz - 16)%Z /\
     load (s_mem st') (top + 8) = 0%Z) /\
  (forall st2 w2, load (s_mem st2) (top + 8) = 0%Z ->
     release_target (s_mem st2) top = RDefault top /\
     exists st3, stack_release st2 w2 top = Some st3 /\
       stack_get mmap gsz st3 w2 0 = SOk top st2).
Proof. exact release_same_class_default. Qed.
Print Assumptions C12_release_same_class_default.

(** The UNGUARDED arithmetic (get_new_myth_thread_struct_stack called with any size, as the
    library did before commit a6d2bdf: defect C12-stack-size-above-1GiB, the real library
    crashed) does not serve every size: for a request above 2^30 (up to 2^32) it leaves the
    free-list array in every state ... *)
Theorem C12_custom_size_above_1GiB_refuted : forall mmap gsz st w n,
  (2 ^ 30 < n)%Z -> (n + 4095 <= 2 ^ 32)%Z ->
  exists i, stack_get mmap gsz st w n = SOutOfRange i /\ (31 <= i <= 32)%Z.
Proof. exact stack_above_1GiB_out_of_range. Qed.
Print Assumptions C12_custom_size_above_1GiB_refuted.

(** ... and a request of 4 GiB + 4 KiB is served with a 4 KiB block whose "top" lies 4 GiB above
    it.  The guard below excludes exactly these sizes. *)
Theorem C12_custom_size_4GiB_refuted : forall mmap gsz w,
  exists top st', stack_get mmap gsz s_init w (2 ^ 32 + 4096) = SOk top st' /\
    fl_regs (s_fl st') = [(mmap [] 4096, 4096)%Z] /\ top = (mmap [] 4096 + (2 ^ 32 + 4096) - 16)%Z.
Proof. exact stack_4GiB_refuted. Qed.
Print Assumptions C12_custom_size_4GiB_refuted.

(** The guard of the public API (commit a6d2bdf), total over every value a size_t can hold:
    the setter returns EINVAL and leaves the attribute unchanged exactly for sizes above 2^30 ... *)
Theorem C12_setstacksize_guard : forall old s,
  ((2 ^ 30 < s)%Z -> attr_setstacksize old s = (EINVAL, old)) /\
  ((s <= 2 ^ 30)%Z -> attr_setstacksize old s = (0%Z, s)).
Proof. exact attr_setstacksize_spec. Qed.
Print Assumptions C12_setstacksize_guard.

(** ... a creation with a (possibly hand-filled) attribute returns EINVAL without allocating
    anything exactly for those sizes, and for every other value it obtains a stack (the
    unguarded arithmetic never leaves its range, never runs out of fuel) ... *)
Theorem C12_guarded_create_total : forall mmap gsz st w n, (0 <= n < 2 ^ 64)%Z ->
  ((2 ^ 30 < n)%Z -> create_stack mmap gsz st w n = CEinval) /\
  ((n <= 2 ^ 30)%Z ->
     exists top st', create_stack mmap gsz st w n = CCreated top st' /\
                     stack_get mmap gsz st w n = SOk top st' /\
                     ((1 <= n)%Z -> (round_page n <= 2 ^ 30 /\ n + 4095 < 2 ^ 64)%Z)).
Proof. exact guarded_create_total. Qed.
Print Assumptions C12_guarded_create_total.

(** ... and what the API accepts it serves: a stack of at least the requested size inside one
    block, whose release recomputes that block and class. *)
Theorem C12_accepted_size_served : forall mmap gsz st w n, (1 <= n <= 2 ^ 30)%Z ->
  exists top st' b i,
    create_stack mmap gsz st w n = CCreated top st' /\
    size_class (round_page n) = Class i (2 ^ i) /\
    (n <= round_page n <= 2 ^ i)%Z /\
    top = (b + round_page n - 16)%Z /\ (b <= top)%Z /\ (top + 16 <= b + 2 ^ i)%Z /\
    load (s_mem st') (top + 8) = round_page n /\
    (forall m, load m (top + 8) = round_page n -> release_target m top = RClass i b).
Proof. exact accepted_size_served. Qed.
Print Assumptions C12_accepted_size_served.

(** * (2) blocks never overlap *)

(** For every oracle that returns fresh regions, every history of allocations and well-formed
    frees on any number of workers: all blocks, live or in any free list, are pairwise
    disjoint, non-empty and inside a region obtained from the oracle. *)
Theorem C12_blocks_disjoint : forall mmap,
  (forall regs len r, (0 < len)%Z -> In r regs -> disj (mmap regs len, len) r) ->
  forall ops h, hrun mmap ops h_init = Some h ->
    pairwise (blocks h) /\
    (forall b, In b (blocks h) -> (0 < snd b)%Z /\ exists r, In r (fl_regs (h_fl h)) /\ inside b r).
Proof. exact blocks_disjoint. Qed.
Print Assumptions C12_blocks_disjoint.

Theorem C12_alloc_fresh_block : forall mmap,
  (forall regs len r, (0 < len)%Z -> In r regs -> disj (mmap regs len, len) r) ->
  forall ops h w size h',
    hrun mmap ops h_init = Some h -> hstep mmap h (OAlloc w size) = Some h' ->
    exists p i, h_live h' = (p, i) :: h_live h /\
      (forall q j, In (q, j) (h_live h) -> disj (p, 2 ^ i)%Z (q, 2 ^ j)%Z) /\
      (forall e, In e (fl_lists (h_fl h')) -> disj (p, 2 ^ i)%Z (blk_of_ent e)).
Proof. exact alloc_fresh_block. Qed.
Print Assumptions C12_alloc_fresh_block.

(** the oracle assumption is satisfiable *)
Example C12_oracle_satisfiable : forall regs len r,
  (0 < len)%Z -> In r regs -> disj (bump_mmap regs len, len) r.
Proof. exact bump_fresh. Qed.

(** a history on two workers: carving of a page for a small class, a block freed by another
    worker than the one that allocated it, reuse from that worker's list *)
Example C12_history_example :
  match hrun bump_mmap [OAlloc 0 100; OAlloc 0 100; OFree 1 100 3968; OAlloc 1 128; OAlloc 0 5000]%Z h_init with
  | Some h => h_live h = [(4096, 13); (3968, 7); (0, 7)]%Z /\ length (fl_lists (h_fl h)) = 30
  | None => False
  end.
Proof. vm_compute. split; reflexivity. Qed.

(** The same at the level of stacks and records: for every history of requests (default size,
    or any custom size [n >= 1] whose page-rounded size is at most 2^30) and well-formed
    releases, by any workers: all blocks behind live stacks, live records and entries of any
    free list are pairwise disjoint; the memory a thread uses as its stack lies inside its
    block; and the size word of every live stack is intact, so that a release recomputes
    exactly the block and class the allocation used - whatever was handed out and written in
    between. *)
Theorem C12_stack_histories : forall mmap gsz dsz,
  (forall regs len r, (0 < len)%Z -> In r regs -> disj (mmap regs len, len) r) ->
  (16 <= gsz /\ gsz + 4095 < 2 ^ 64)%Z -> (1 <= dsz /\ dsz + 4095 < 2 ^ 64)%Z ->
  forall ops h, srun mmap gsz dsz ops hs_init = Some h ->
    pairwise (all_blocks gsz dsz h) /\
    (forall b, In b (all_blocks gsz dsz h) ->
       (0 < snd b)%Z /\ exists r, In r (fl_regs (s_fl (hs_st h))) /\ inside b r) /\
    (forall it, In it (hs_live h) -> i_kind it = true ->
       (fst (i_blk it) <= i_ptr it + 16 - (if i_word it =? 0 then gsz else i_word it))%Z /\
       (i_ptr it + 16 <= fst (i_blk it) + snd (i_blk it))%Z /\
       match release_target (s_mem (hs_st h)) (i_ptr it) with
       | RDefault t => i_word it = 0%Z /\ t = i_ptr it /\ i_blk it = def_blk gsz t
       | RClass i s => i_word it <> 0%Z /\ i_blk it = (s, 2 ^ i)%Z
       | RBad => False
       end).
Proof. exact stack_histories. Qed.
Print Assumptions C12_stack_histories.

(** a history on two workers: default and custom stacks and a record, released by the other
    worker and handed out again by that worker's lists *)
Example C12_stack_history_example :
  match srun bump_mmap 131072 416
          [SGet 0 0; SGet 0 5000; DGet 1; SRel 1 139248; SRel 1 131056; SGet 1 8192; SGet 1 0;
           DRel 0 139264; DGet 0]%Z hs_init with
  | Some h => map i_ptr (hs_live h) = [139264; 131056; 139248]%Z /\
              map i_blk (hs_live h) = [(139264, 4096); (0, 131072); (131072, 8192)]%Z /\
              length (fl_regs (s_fl (hs_st h))) = 3
  | None => False
  end.
Proof. vm_compute. repeat split; reflexivity. Qed.

(** ... and over any number of myth_init_ex / myth_fini cycles with any valid default stack
    sizes ([erun]: at each myth_fini every list is emptied, as myth_fini_body /
    myth_setup_worker do): the blocks in use or cached in the current epoch are pairwise
    disjoint and disjoint from every block that sat in a list dropped at an earlier myth_fini,
    with the extent it had in ITS epoch.  So whatever is handed out after a re-initialisation is
    fresh from the oracle or was released in the current epoch, and a default stack extends
    over the default size of its own epoch. *)
Theorem C12_epoch_histories : forall mmap dsz,
  (forall regs len r, (0 < len)%Z -> In r regs -> disj (mmap regs len, len) r) ->
  (1 <= dsz /\ dsz + 4095 < 2 ^ 64)%Z ->
  forall epochs g0 h Dr g,
    erun mmap dsz epochs hs_init [] g0 = Some (h, Dr, g) -> epochs <> [] ->
    pairwise (all_blocks g dsz h ++ Dr) /\
    (forall b, In b (all_blocks g dsz h ++ Dr) ->
       (0 < snd b)%Z /\ exists r, In r (fl_regs (s_fl (hs_st h))) /\ inside b r) /\
    (forall it, In it (hs_live h) -> i_kind it = true ->
       (fst (i_blk it) <= i_ptr it + 16 - (if i_word it =? 0 then g else i_word it))%Z /\
       (i_ptr it + 16 <= fst (i_blk it) + snd (i_blk it))%Z /\
       match release_target (s_mem (hs_st h)) (i_ptr it) with
       | RDefault t => i_word it = 0%Z /\ t = i_ptr it /\ i_blk it = def_blk g t
       | RClass i s => i_word it <> 0%Z /\ i_blk it = (s, 2 ^ i)%Z
       | RBad => False
       end).
Proof. exact epoch_histories. Qed.
Print Assumptions C12_epoch_histories.

(** two epochs: two 16 KiB default stacks are cached at the first myth_fini; with a default
    size of 64 KiB the next epoch maps fresh 64 KiB regions instead of reusing them *)
Example C12_epoch_history_example :
  match erun bump_mmap 416 [(16384, [SGet 0 0; SGet 0 0; SRel 0 16368; SRel 0 32752]);
                            (65536, [SGet 0 0; SGet 0 0; SGet 1 5000])]%Z hs_init [] 0%Z with
  | Some (h, dropped, g) =>
      map i_blk (hs_live h) = [(163840, 8192); (98304, 65536); (32768, 65536)]%Z /\
      dropped = [(16384, 16384); (0, 16384)]%Z /\ g = 65536%Z
  | None => False
  end.
Proof. vm_compute. repeat split; reflexivity. Qed.

(** * (3) the ledger, for every number of workers and every schedule *)

(** every stack and every record that exists is owned by exactly one thread or sits exactly
    once in exactly one free list *)
Theorem C12_ledger_exactly_one : forall st, reachable LedgerModel.init LedgerModel.step st ->
  Permutation (stk_owned st ++ map snd (fstk st)) (seq 0 (nstk st)) /\
  Permutation (desc_owned st ++ map snd (fdesc st)) (seq 0 (ndesc st)).
Proof. intros st H. destruct (ledger_invariant st H) as (H1 & H2 & _). split; assumption. Qed.
Print Assumptions C12_ledger_exactly_one.

(** no worker's [on_stack] and no saved context lies in a stack that is free or owned by
    another thread *)
Theorem C12_stack_not_reused_while_in_use : forall st, reachable LedgerModel.init LedgerModel.step st ->
  (forall w x, on_stack st w = Some x ->
     exists t th, nth_error (ths st) t = Some th /\ t_stack th = x /\
       (t_ph th = PRun w \/ t_ph th = PFin w) /\ x < nstk st /\
       ~ In x (map snd (fstk st)) /\
       (forall t' th', nth_error (ths st) t' = Some th' -> owns_stack (t_ph th') = true ->
                       t_stack th' = x -> t' = t)) /\
  (forall t th, nth_error (ths st) t = Some th -> owns_stack (t_ph th) = true ->
     t_stack th < nstk st /\ ~ In (t_stack th) (map snd (fstk st)) /\
     (forall t' th', nth_error (ths st) t' = Some th' -> owns_stack (t_ph th') = true ->
                     t_stack th' = t_stack th -> t' = t)).
Proof. exact stack_in_use_exclusive. Qed.
Print Assumptions C12_stack_not_reused_while_in_use.

(** each stack or record is released at most once: never twice in the free lists ... *)
Theorem C12_release_once : forall st, reachable LedgerModel.init LedgerModel.step st ->
  NoDup (map snd (fstk st)) /\ NoDup (map snd (fdesc st)).
Proof. exact free_lists_nodup. Qed.
Print Assumptions C12_release_once.

(** ... and the finishing thread's stack is released only by the callback that runs after the
    switch-away: no other step adds to a stack free list, and at that step nobody executes
    on the stack, nobody else owns it, it is in no list yet *)
Theorem C12_stack_released_after_switch_away : forall st w e st',
  reachable LedgerModel.init LedgerModel.step st -> LedgerModel.step st (w, e) = Some st' ->
  (forall x, In x (fstk st') -> In x (fstk st) \/ e = ERelStack) /\
  (e = ERelStack ->
     exists t th, nth_error (ths st) t = Some th /\ t_ph th = PAway w /\
       fstk st' = ((w, t_cls th), t_stack th) :: fstk st /\
       ~ In (t_stack th) (map snd (fstk st)) /\
       (forall w', on_stack st w' <> Some (t_stack th)) /\
       (forall t' th', nth_error (ths st) t' = Some th' -> owns_stack (t_ph th') = true ->
                       t_stack th' = t_stack th -> t' = t) /\
       NoDup (map snd (fstk st'))).
Proof. exact release_stack_step. Qed.
Print Assumptions C12_stack_released_after_switch_away.

(** the record stays out of every free list, and is nobody else's, until it is reaped ... *)
Theorem C12_record_until_reaped : forall st, reachable LedgerModel.init LedgerModel.step st ->
  forall t th, nth_error (ths st) t = Some th -> t_ph th <> PGone ->
    t_desc th < ndesc st /\ ~ In (t_desc th) (map snd (fdesc st)) /\
    (forall t' th', nth_error (ths st) t' = Some th' -> t_ph th' <> PGone ->
                    t_desc th' = t_desc th -> t' = t).
Proof. exact record_until_reaped. Qed.
Print Assumptions C12_record_until_reaped.

(** ... and it is released only by join/detach after FREE_READY2 was published (PDone), or by
    the finisher's callback when the thread is detached, after the stack was released *)
Theorem C12_record_released_by_reaper : forall st w e st',
  reachable LedgerModel.init LedgerModel.step st -> LedgerModel.step st (w, e) = Some st' ->
  (forall x, In x (fdesc st') -> In x (fdesc st) \/ e = ERelDescFin \/ exists t, e = EReap t) /\
  (e = ERelDescFin ->
     exists t th, nth_error (ths st) t = Some th /\ t_ph th = PFreed w /\ t_det th = true /\
       fdesc st' = (w, t_desc th) :: fdesc st /\ ~ In (t_desc th) (map snd (fdesc st))) /\
  (forall t, e = EReap t ->
     exists th, nth_error (ths st) t = Some th /\ t_ph th = PDone /\
       fdesc st' = (w, t_desc th) :: fdesc st /\ ~ In (t_desc th) (map snd (fdesc st))).
Proof. exact release_desc_step. Qed.
Print Assumptions C12_record_released_by_reaper.

(** a release always goes to a list of the worker executing it; the lists of all other
    workers are untouched by the step (they are unsynchronised) *)
Theorem C12_env_consistent : forall st w e st', LedgerModel.step st (w, e) = Some st' ->
  others_stk w (fstk st') = others_stk w (fstk st) /\
  others_desc w (fdesc st') = others_desc w (fdesc st).
Proof. exact release_to_own_list. Qed.
Print Assumptions C12_env_consistent.

(** Epochs (myth_fini; myth_init_ex).  The lists cached by the workers of a finished run are
    dropped: no later step touches an entry of an earlier epoch, an allocation takes either a
    fresh resource or one released in the current epoch, and after the re-initialisation every
    cached entry belongs to an earlier epoch. *)
Theorem C12_epoch_drops_lists : forall st w e st',
  reachable LedgerModel.init LedgerModel.step st -> LedgerModel.step st (w, e) = Some st' ->
  dead_stk (base st) (fstk st') = dead_stk (base st) (fstk st) /\
  dead_desc (base st) (fdesc st') = dead_desc (base st) (fdesc st) /\
  base st <= base st' /\
  (forall c, e = EAllocStack c ->
     fstk st' = fstk st \/
     exists l1 k x l2, fstk st = l1 ++ (k, x) :: l2 /\ fstk st' = l1 ++ l2 /\ base st <= fst k) /\
  (forall d, e = EAllocDesc d ->
     fdesc st' = fdesc st \/
     exists l1 k x l2, fdesc st = l1 ++ (k, x) :: l2 /\ fdesc st' = l1 ++ l2 /\ base st <= k) /\
  (forall n, e = EEpoch n ->
     fstk st' = fstk st /\ fdesc st' = fdesc st /\
     (forall x, In x (fstk st') -> fst (fst x) < base st') /\
     (forall x, In x (fdesc st') -> fst x < base st')).
Proof. exact epoch_drops_lists. Qed.
Print Assumptions C12_epoch_drops_lists.

(** ... so a stack or record cached at a myth_fini is never handed out again, in any later
    epoch, under any schedule: it stays in its dropped list and no thread ever owns it *)
Theorem C12_cached_at_fini_never_reused : forall st, reachable LedgerModel.init LedgerModel.step st ->
  forall sched,
  (forall x, In x (fstk st) -> fst (fst x) < base st ->
     In x (fstk (run LedgerModel.step sched st)) /\
     forall t th, nth_error (ths (run LedgerModel.step sched st)) t = Some th ->
                  owns_stack (t_ph th) = true -> t_stack th <> snd x) /\
  (forall x, In x (fdesc st) -> fst x < base st ->
     In x (fdesc (run LedgerModel.step sched st)) /\
     forall t th, nth_error (ths (run LedgerModel.step sched st)) t = Some th ->
                  t_ph th <> PGone -> t_desc th <> snd x).
Proof. exact cached_at_fini_never_reused. Qed.
Print Assumptions C12_cached_at_fini_never_reused.

(** one worker runs a thread to its end and reaps it (stack 0 and record 0 cached in its lists);
    after the epoch step a creation by the new worker (id 1) gets a fresh record 1 and a fresh
    stack 1; the old worker 0 can no longer act *)
Example C12_epoch_example :
  let sched := [(0, EAllocDesc false); (0, EAllocStack 0); (0, EResume 0); (0, EFinEnter);
                (0, ESwitchAway None); (0, ERelStack); (0, EPublish); (0, EReap 0);
                (0, EEpoch 1); (1, EAllocDesc false); (1, EAllocStack 0)] in
  let st := run LedgerModel.step sched (init_state 1) in
  base st = 1 /\ fstk st = [((0, 0), 0)] /\ fdesc st = [(0, 0)] /\
  map t_desc (ths st) = [0; 1] /\ map t_stack (ths st) = [0; 1] /\
  LedgerModel.step st (0, EAllocDesc false) = None.
Proof. vm_compute. repeat split; reflexivity. Qed.

(** non-vacuity: two workers; worker 0 creates a thread (record 0, stack 0), runs it to its
    end, switches to its scheduler, the callback releases the stack and publishes; worker 1
    reaps the record and creates a thread: it reuses record 0 (now in ITS list) but gets a
    fresh stack 1, because stack 0 went to worker 0's list. *)
Example C12_ledger_example :
  let sched := [(0, EAllocDesc false); (0, EAllocStack 0); (0, EResume 0); (0, EFinEnter);
                (0, ESwitchAway None); (0, ERelStack); (0, EPublish); (1, EReap 0);
                (1, EAllocDesc false); (1, EAllocStack 0); (1, EResume 1)] in
  let st := run LedgerModel.step sched (init_state 2) in
  fstk st = [((0, 0), 0)] /\ fdesc st = [] /\ nstk st = 2 /\ ndesc st = 1 /\
  map t_ph (ths st) = [PGone; PRun 1] /\ map t_desc (ths st) = [0; 0] /\ map t_stack (ths st) = [0; 1] /\
  on_stack st 1 = Some 1 /\ on_stack st 0 = None.
Proof. vm_compute. repeat split; reflexivity. Qed.

(** the steps the mutated orders would need are disabled: releasing the stack before the
    switch-away, publishing before the stack release, reaping before FREE_READY2 *)
Example C12_ledger_disabled :
  let pre := [(0, EAllocDesc false); (0, EAllocStack 0); (0, EResume 0); (0, EFinEnter)] in
  let st := run LedgerModel.step pre (init_state 1) in
  LedgerModel.step st (0, ERelStack) = None /\
  LedgerModel.step st (0, EReap 0) = None /\
  LedgerModel.step (run LedgerModel.step [(0, ESwitchAway None)] st) (0, EPublish) = None.
Proof. vm_compute. repeat split; reflexivity. Qed.
