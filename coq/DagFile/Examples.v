(** C19 — concrete objects for the non-vacuity examples of Properties_C19.v. *)
From Coq Require Import ZArith List Bool.
From MT Require Import DagFile.FlattenModel DagFile.PruneModel DagFile.CodecModel DagFile.ChronoModel DagFile.DagSpec.
Import ListNotations.
Local Open Scope Z_scope.

(** an info block: kind, in_edge_kind, start/end clock, t_1, worker; everything else 0 *)
Definition ex_info (kind in_edge t0 t1 work worker : Z) : list Z :=
  setf F_kind kind (setf F_in_edge in_edge (setf F_start_t t0 (setf F_end_t t1
    (setf F_t1 work (setf F_worker worker (setf F_first_ready t0 (setf F_last_start t0 (repeat 0 N_info)))))))).
Definition ex_node (kind in_edge t0 t1 work worker : Z) (f : name) : tnode :=
  mk_tnode (ex_info kind in_edge t0 t1 work worker) f f.

Definition fa : name := [97; 46; 99].        (* "a.c" *)
Definition fb : name := [98; 98; 46; 99].    (* "bb.c" *)

(** root task { section { create -> task { end } ; wait } ; end }  recorded by two workers *)
Definition ex_child : tree :=
  Sub (ex_node 5 1 1006 1013 7 1 fb) [Leaf (ex_node 3 1 1006 1013 7 1 fb)].
Definition ex_tree : tree :=
  Sub (ex_node 5 1 1000 1018 19 (-1) fa)
    [ Sub (ex_node 4 1 1000 1013 16 (-1) fa)
        [ Create (ex_node 0 1 1000 1005 5 0 fa) ex_child;
          Leaf (ex_node 1 2 1008 1012 4 1 fa) ];
      Leaf (ex_node 3 0 1015 1018 3 1 fa) ].

(** the same with the section collapsed *)
Definition ex_tree_collapsed : tree :=
  Sub (ex_node 5 1 1000 1018 19 (-1) fa)
    [ Sub (ex_node 4 1 1000 1013 16 (-1) fa) [];
      Leaf (ex_node 3 0 1015 1018 3 1 fa) ].

Definition ex_dag : pidag :=
  match make_pi_dag 32 8 1000 2 ex_tree with Ok G => G | _ => mk_pidag 0 0 0 0 [] [] (mk_strtab 0 0 [] []) end.

(** the x86-64 layout of the pinned tree (the check regenerates the current one) *)
Definition ex_fields (l : list (Z * Z * bool)) : list fdesc := map (fun x => mk_fdesc (fst (fst x)) (snd (fst x)) (snd x)) l.
Definition ex_layout : layout :=
  mk_layout true 8 8 [8; 8; 8; 8]
    (mk_sdesc 432 (ex_fields [(0, 8, false); (8, 8, true); (16, 8, true); (24, 8, true); (32, 8, true); (40, 4, true); (44, 4, true); (48, 8, false); (56, 8, true); (64, 8, true); (72, 8, false); (80, 8, true); (88, 8, true); (96, 8, true); (104, 8, true); (112, 4, true); (116, 4, true); (120, 8, false); (128, 8, true); (136, 8, true); (144, 8, false); (152, 8, false); (160, 8, false); (168, 8, false); (176, 8, false); (184, 8, false); (192, 8, false); (200, 8, false); (208, 8, false); (216, 8, false); (224, 8, true); (232, 8, true); (240, 8, true); (248, 8, true); (256, 8, true); (264, 8, true); (272, 8, true); (280, 8, true); (288, 8, true); (296, 8, true); (304, 8, true); (312, 8, true); (320, 4, true); (324, 4, true); (328, 4, false); (332, 4, false); (336, 8, true); (344, 8, true); (352, 8, true); (360, 8, true); (368, 8, true); (376, 8, true); (384, 8, true); (392, 8, true); (400, 8, true); (408, 8, true); (416, 8, true); (424, 8, true)]))
    (mk_sdesc 24 (ex_fields [(0, 4, false); (8, 8, true); (16, 8, true)]))
    (mk_sdesc 32 (ex_fields [(0, 8, true); (8, 8, true); (16, 8, false); (24, 8, false)]))
    [68; 65; 71; 95; 82; 69; 67; 79; 82; 68; 69; 82; 32; 70; 79; 82; 77; 65; 84; 32; 86; 69; 82; 83; 73; 79; 78; 32; 32; 49; 46; 50; 52; 32; 50; 48; 49; 52; 47; 48; 57; 47; 49; 56; 10].
