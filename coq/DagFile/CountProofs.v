(** C19 — the number of enumerated edges equals the number counted beforehand
    (dr_pi_dag_count_edges_uncollapsed), so assert(e == E_lim) holds. *)
From Coq Require Import ZArith List Bool Lia Arith.
From MT Require Import DagFile.FlattenModel DagFile.DagSpec DagFile.TreeLemmas DagFile.LayProofs
  DagFile.EdgeProofs DagFile.OrderProofs.
Import ListNotations.
Local Open Scope Z_scope.

Fixpoint ncreate (l : list tree) : nat :=
  match l with [] => O | y :: r => ((if is_CreateT y then 1 else 0) + ncreate r)%nat end.

Definition sc (x : tree) : nat :=
  match x with Sub d cs => if t_kind d =? K_section then (2 * ncreate cs)%nat else O | _ => O end.

Fixpoint npairs (l : list tree) : nat :=
  match l with
  | x :: ((_ :: _) as r) => (1 + sc x + npairs r)%nat
  | _ => O
  end.

Definition nspec (t : tree) : nat := match t with Sub _ cs => npairs cs | _ => O end.

Definition cspec (t : tree) : nat :=
  match t with
  | Sub d (c :: r) => (length r + (if (t_kind d =? K_section)%Z then 2 * ncreate (c :: r) else 0))%nat
  | _ => O
  end.

Lemma create_spec_length : forall tgt l i q, length (create_spec l i q tgt) = (2 * ncreate l)%nat.
Proof.
  intros tgt l. induction l as [|y r IH]; intros i q; [reflexivity|].
  cbn [create_spec ncreate]. rewrite app_length, IH. destruct y; cbn [is_CreateT length]; lia.
Qed.

Lemma sec_creates_length : forall x q tgt, length (sec_creates x q tgt) = sc x.
Proof.
  intros x q tgt. destruct x as [d | d c | d cs]; try reflexivity. cbn [sec_creates sc].
  destruct (t_kind d =? K_section); [apply create_spec_length | reflexivity].
Qed.

Lemma npairs_cons2 : forall x x' r, npairs (x :: x' :: r) = (1 + sc x + npairs (x' :: r))%nat.
Proof. reflexivity. Qed.

Lemma pairs_spec_length : forall l i q, length (pairs_spec l i q) = npairs l.
Proof.
  induction l as [|x r IH]; intros i q; [reflexivity|].
  destruct r as [|x' r']; [reflexivity|].
  rewrite pairs_spec_cons2, npairs_cons2. cbn [length]. rewrite app_length, sec_creates_length, IH. lia.
Qed.

Lemma node_spec_length : forall t p, length (node_spec t p) = nspec t.
Proof. intros t p. destruct t; try reflexivity. apply pairs_spec_length. Qed.

(** * the count on the array *)
Lemma count_creates_lay : forall T l i q, lay_list (lay T) l i q ->
  count_creates T (Z.of_nat i) (length l) = Z.of_nat (2 * ncreate l).
Proof.
  intros T l. induction l as [|y r IH]; intros i q HL; [reflexivity|].
  destruct HL as [Hy Hr]. unfold count_creates in *. cbn [length]. rewrite zrange_S. cbn [fold_right].
  replace (Z.of_nat i + 1) with (Z.of_nat (S i)) by lia. rewrite (IH _ _ Hr).
  rewrite nodeat_nat. pose proof (lay_node _ _ _ _ Hy) as (ny & Hny & Hok). rewrite Hny. cbn [ncreate].
  destruct y as [d | d c | d cs]; cbn [is_CreateT].
  - destruct Hok as (_ & _ & _ & Hc). rewrite Hc. lia.
  - destruct Hok as (_ & _ & Hc & _). rewrite Hc. lia.
  - destruct Hok as (_ & _ & _ & Hc & _). rewrite Hc. lia.
Qed.

Lemma count_node_lay : forall T t i p, lay T t i p -> count_node T (Z.of_nat i) = Z.of_nat (cspec t).
Proof.
  intros T t i p HL. unfold count_node. rewrite nodeat_nat.
  pose proof (lay_node _ _ _ _ HL) as (x & Hx & Hok). rewrite Hx.
  destruct t as [d | d c | d cs].
  - destruct Hok as (_ & _ & Hs & _). rewrite Hs. reflexivity.
  - destruct Hok as (_ & _ & _ & Hs & _). rewrite Hs. reflexivity.
  - destruct Hok as (Hip & (Hk & _) & Hs & _ & Ho). rewrite Hs. cbn [andb].
    apply lay_Sub_inv in HL. destruct HL as [_ HLL].
    destruct cs as [|c r].
    + destruct (getf F_oa x <? getf F_ob x) eqn:E; [apply Z.ltb_lt in E; lia | reflexivity].
    + destruct Ho as [Ha Hb]. cbn [length] in Hb.
      destruct (getf F_oa x <? getf F_ob x) eqn:E; [|apply Z.ltb_ge in E; lia].
      cbn [cspec tdata] in *. rewrite Hk.
      replace (Z.of_nat i + getf F_oa x) with (Z.of_nat p) by lia.
      replace (Z.to_nat (getf F_ob x - getf F_oa x)) with (length (c :: r)) by (cbn [length]; lia).
      destruct (t_kind d =? K_section).
      * rewrite (count_creates_lay T (c :: r) p _ HLL). lia.
      * lia.
Qed.

(** * sums over entries *)
Definition esum (g : tree -> nat) (ents : list entry) : nat :=
  fold_right (fun e a => (g (snd e) + a)%nat) O ents.

Lemma esum_app : forall g a b, esum g (a ++ b) = (esum g a + esum g b)%nat.
Proof.
  intros g a b. induction a as [|e a IH]; [reflexivity|]. cbn [app esum fold_right]. fold (esum g (a ++ b)).
  fold (esum g a). rewrite IH. lia.
Qed.

Lemma esum_cons : forall g e r, esum g (e :: r) = (g (snd e) + esum g r)%nat.
Proof. reflexivity. Qed.

Lemma esum_sub_entries_cons : forall g x r i q,
  esum g (sub_entries (x :: r) i q) =
  (esum g (all_entries x i q) + esum g (sub_entries r (S i) (q + desc x)))%nat.
Proof.
  intros g x r i q. unfold sub_entries, all_entries. cbn [heads tails].
  rewrite ?esum_app, ?esum_cons, ?esum_app. cbn [snd]. lia.
Qed.

Fixpoint ssc (l : list tree) : nat := match l with [] => O | c :: r => (sc c + ssc r)%nat end.

Lemma npairs_last_leaf : forall l, l <> [] -> last_is_leaf l = true ->
  (npairs l + 1 = length l + ssc l)%nat.
Proof.
  induction l as [|x r IH]; intros Hne Hl; [contradiction|].
  destruct r as [|x' r'].
  - cbn [last_is_leaf] in Hl. destruct x; try discriminate. reflexivity.
  - rewrite last_is_leaf_tail in Hl. specialize (IH ltac:(discriminate) Hl).
    rewrite npairs_cons2. cbn [length ssc] in *. lia.
Qed.

Definition claim_count (t : tree) : Prop :=
  forall i p, wf_tree t = true ->
    esum cspec (all_entries t i p) = (esum nspec (all_entries t i p) + sc t)%nat.

Lemma count_list : forall l, Forall claim_count l -> all_wf l = true ->
  forall i q, esum cspec (sub_entries l i q) = (esum nspec (sub_entries l i q) + ssc l)%nat.
Proof.
  intros l H. induction H as [|x r Hx _ IHr]; intros Hw i q; [reflexivity|].
  unfold all_wf in Hw. cbn [forallb] in Hw. apply andb_prop in Hw. destruct Hw as [Hwx Hwr].
  rewrite !esum_sub_entries_cons, (Hx i q Hwx), (IHr Hwr). cbn [ssc]. lia.
Qed.

Theorem count_claim : forall t, claim_count t.
Proof.
  induction t as [d | d c IH | d cs IH] using tree_ind2; intros i p Hw.
  - reflexivity.
  - rewrite all_entries_Create, !esum_cons. cbn [snd cspec nspec sc].
    pose proof (wf_tree_Create_sub _ _ Hw) as Hsub. apply wf_tree_Create in Hw. destruct Hw as (_ & Hk & Hwc).
    rewrite (IH p (S p) Hwc).
    destruct c as [dc | dc cc | dc ccs]; try discriminate Hsub. cbn [sc tdata] in *.
    destruct (t_kind dc =? K_section) eqn:E; [apply Z.eqb_eq in E; contradiction | lia].
  - rewrite all_entries_Sub, !esum_cons. cbn [snd].
    apply wf_tree_Sub in Hw. destruct Hw as (_ & Hll & _ & _ & Hall).
    rewrite (count_list cs IH Hall).
    destruct cs as [|c r].
    { cbn [cspec nspec sc npairs ncreate ssc]. destruct (t_kind d =? K_section); lia. }
    pose proof (npairs_last_leaf (c :: r) ltac:(discriminate) Hll) as Hn.
    cbn [cspec nspec sc length] in *. destruct (t_kind d =? K_section); lia.
Qed.

Lemma spec_of_entries_length : forall ents, length (spec_of_entries ents) = esum nspec ents.
Proof.
  induction ents as [|e r IH]; [reflexivity|].
  unfold spec_of_entries in *. cbn [map concat]. rewrite app_length, IH, node_spec_length. reflexivity.
Qed.

Lemma count_edges_entries : forall T t, lay T t 0 1 -> length T = size t ->
  count_edges T = Z.of_nat (esum cspec (entries t)).
Proof.
  intros T t HL Hlen. unfold count_edges. rewrite zrange_nat, Hlen, <- entries_idx, map_map.
  assert (G : forall ents, (forall e, In e ents -> lay T (snd e) (eidx e) (eblk e)) ->
              fold_right (fun i acc => count_node T i + acc) 0 (map (fun e => Z.of_nat (eidx e)) ents)
              = Z.of_nat (esum cspec ents)).
  { induction ents as [|e r IH]; intros H; [reflexivity|].
    cbn [map fold_right]. rewrite IH by (intros e' He'; apply H; now right).
    rewrite (count_node_lay T (snd e) (eidx e) (eblk e)) by (apply H; now left).
    rewrite esum_cons. lia. }
  apply G. intros e He. unfold entries in He. destruct He as [<-|He]; [exact HL|].
  eapply lay_descs; eassumption.
Qed.

Lemma wf_root_inv : forall t, wf_root t = true ->
  wf_tree t = true /\ exists d cs, t = Sub d cs /\ t_kind d <> K_section.
Proof.
  intros t H. unfold wf_root in H. apply andb_prop in H. destruct H as [H H3].
  apply andb_prop in H. destruct H as [H1 H2]. split; [exact H1|].
  destruct t as [d | d c | d cs]; try discriminate H2. exists d, cs. split; [reflexivity|].
  cbn [tdata] in H3. apply negb_true_iff in H3. now apply Z.eqb_neq.
Qed.

Theorem edge_count_ok : forall T t E, lay T t 0 1 -> length T = size t -> wf_root t = true ->
  map euv E = map zuv (spec_of_entries (entries t)) ->
  Z.of_nat (length E) = count_edges T.
Proof.
  intros T t E HL Hlen Hr HE.
  rewrite (count_edges_entries T t HL Hlen).
  assert (Hl : length E = length (spec_of_entries (entries t))).
  { rewrite <- (map_length euv), HE, map_length. reflexivity. }
  rewrite Hl, spec_of_entries_length.
  destruct (wf_root_inv t Hr) as (Hw & d & cs & -> & Hk).
  change (entries (Sub d cs)) with (all_entries (Sub d cs) 0 1).
  rewrite (count_claim (Sub d cs) 0%nat 1%nat Hw). cbn [sc].
  destruct (t_kind d =? K_section) eqn:E0; [apply Z.eqb_eq in E0; contradiction | f_equal; lia].
Qed.
