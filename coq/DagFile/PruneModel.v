(** C19 — model of the shrinking copy (dag2any --shrink): dr_pi_dag_copy_and_prune_nodes and
    dr_copy_pi_dag (src/profiler/dr_dump.c).

    Step 1 scans the nodes in array order with the [map] array (map_init = -1, map_copy = -2,
    map_no_copy = -3, or the destination index); step 2 copies the surviving nodes, re-interns their
    file names into a fresh string table and rewrites the child / subgraph offsets through [map].
    The decision "keep the children of this section/task" is a parameter [cc : node -> bool] (every
    contraction setting at conversion time); [decide] is the one computed from GS.opts. *)
From Coq Require Import ZArith List Bool.
From MT Require Import DagFile.FlattenModel.
Import ListNotations.
Local Open Scope Z_scope.

Record popts := mk_popts { po_umin : Z; po_cmax : Z; po_cmc : Z }.

Definition lnc_sum (x : node) : Z :=
  getf F_lnc0 x + getf (S F_lnc0) x + getf (S (S F_lnc0)) x + getf (S (S (S F_lnc0))) x.
Definition span (x : node) : Z := (getf F_end_t x - getf F_start_t x) mod w64.

(** the test applied to a section/task that is copied (unsigned 64-bit clock arithmetic) *)
Definition decide (o : popts) (x : node) : bool :=
  (negb (po_cmc o =? 0) && (po_cmc o <=? lnc_sum x)) ||
  ((po_umin o <=? span x) && ((getf F_worker x =? -1) || (po_cmax o <=? span x))).

Definition MAP_INIT : Z := -1.
Definition MAP_COPY : Z := -2.
Definition MAP_NO : Z := -3.

Definition setz (k : Z) (v : Z) (l : list Z) : list Z :=
  if k <? 0 then l else setf (Z.to_nat k) v l.
Definition getz (k : Z) (l : list Z) : Z :=
  if k <? 0 then MAP_INIT else nth (Z.to_nat k) l MAP_INIT.

Definition copy_children (cc : node -> bool) (t : node) : bool :=
  is_create t || (is_sub t && cc t).

(** one iteration of the first loop; state = (map, n_) *)
Definition step1 (cc : node -> bool) (T : list node) (st : list Z * Z) (i : nat) : list Z * Z :=
  let '(mp, n_) := st in
  match nth_error T i with
  | None => st
  | Some t =>
      let kept := nth i mp MAP_INIT =? MAP_COPY in
      let mp1 := if kept then setf i n_ mp else mp in
      let n1 := if kept then n_ + 1 else n_ in
      let mark := if kept && copy_children cc t then MAP_COPY else MAP_NO in
      let i_ := Z.of_nat i in
      let mp2 :=
        if is_create t then setz (i_ + getf F_oa t) mark mp1
        else if is_sub t then
          fold_left (fun m k => setz k mark m)
                    (zrange (i_ + getf F_oa t) (Z.to_nat (getf F_ob t - getf F_oa t))) mp1
        else mp1 in
      (mp2, n1)
  end.

Definition prune_map (cc : node -> bool) (T : list node) : list Z * Z :=
  fold_left (step1 cc T) (seq 0 (length T))
            (setf 0 MAP_COPY (repeat MAP_INIT (length T)), 0).

(** the rewritten offsets of a copied node *)
Definition new_offsets (mp : list Z) (i : Z) (src : node) : Z * Z :=
  let mi := getz i mp in
  if is_create src then (getz (i + getf F_oa src) mp - mi, getf F_ob src)
  else if is_sub src then
    let cb := i + getf F_oa src in
    let ce := i + getf F_ob src in
    if cb <? ce then
      if 0 <=? getz cb mp then (getz cb mp - mi, getz (ce - 1) mp - mi + 1) else (0, 0)
    else (getf F_oa src, getf F_ob src)
  else (getf F_oa src, getf F_ob src).

(** the string S->C + S->I[idx] *)
Fixpoint take_str (l : list Z) : name :=
  match l with
  | [] => []
  | c :: r => if c =? 0 then [] else c :: take_str r
  end.
Definition str_at (S : strtab) (idx : Z) : name :=
  take_str (skipn (Z.to_nat (getz idx (sI S))) (sC S)).

(** second loop: the copied nodes in destination order (destination indices are handed out in
    increasing source order, so the k-th copied node lands at index k) *)
Fixpoint copy_nodes (S : strtab) (mp : list Z) (T : list node) (i : Z) : list (node * name * name) :=
  match T with
  | [] => []
  | src :: r =>
      if 0 <=? getz i mp then
        let '(a, b) := new_offsets mp i src in
        (setf F_oa a (setf F_ob b src),
         str_at S (getf F_start_fidx src), str_at S (getf F_end_fidx src)) :: copy_nodes S mp r (i + 1)
      else copy_nodes S mp r (i + 1)
  end.

Definition prune_nodes (cc : node -> bool) (G : pidag) : list node * list name :=
  let '(mp, _) := prune_map cc (gT G) in
  intern_all (copy_nodes (gS G) mp (gT G) 0) [].

(** dr_copy_pi_dag *)
Definition copy_pi_dag (cc : node -> bool) (hdr ptr : Z) (G : pidag) : result pidag :=
  let '(T0, tbl) := prune_nodes cc G in
  finish_pi_dag hdr ptr (gsc G) (gnw G) T0 tbl.
