(** C19 — shrinking preserves the totals: the root keeps its info words and the sum of t_1 over the
    leaves of the shrunk dag is still t_1 of the root. *)
From Coq Require Import ZArith List Bool Lia Arith Permutation.
From MT Require Import DagFile.FlattenModel DagFile.PruneModel DagFile.DagSpec DagFile.TreeLemmas
  DagFile.LayProofs DagFile.SortProofs DagFile.EdgeProofs DagFile.OrderProofs DagFile.CountProofs
  DagFile.FlattenProofs DagFile.PruneTree DagFile.PruneLoop DagFile.PruneProofs.
Import ListNotations.
Local Open Scope Z_scope.

Local Opaque setf.

(** * info words *)
Lemma info_eq_refl : forall x, info_eq x x.
Proof. intros x k _ _ _. reflexivity. Qed.

Lemma info_eq_trans : forall x y z, info_eq x y -> info_eq y z -> info_eq x z.
Proof. intros x y z H1 H2 k A B C. now rewrite (H1 k A B C), (H2 k A B C). Qed.

Lemma info_eq_setf : forall k v x, ((N_info <= k)%nat \/ k = F_start_fidx \/ k = F_end_fidx) -> info_eq (setf k v x) x.
Proof. intros k v x H j A B C. apply getf_setf_neq. lia. Qed.

Lemma intern_all_info : forall l tbl,
  Forall2 (fun y x => info_eq y (fst (fst x))) (fst (intern_all l tbl)) l.
Proof.
  induction l as [|[[x fs] fe] r IH]; intros tbl; [constructor|].
  cbn [intern_all]. destruct (st_intern tbl fs) as [tbl1 i_s]. destruct (st_intern tbl1 fe) as [tbl2 i_e].
  specialize (IH tbl2). destruct (intern_all r tbl2) as [xs tbl3]. cbn [fst] in *.
  constructor; [|exact IH].
  eapply info_eq_trans; apply info_eq_setf; auto.
Qed.

Lemma set_ptrs_info : forall T ps, length ps = length T -> Forall2 info_eq (set_ptrs T ps) T.
Proof.
  unfold set_ptrs. induction T as [|x T IH]; intros [|pp ps] H; try discriminate; [constructor|].
  cbn [combine map fst snd]. constructor.
  - eapply info_eq_trans; apply info_eq_setf; left; unfold F_eb, F_ee, N_info; lia.
  - apply IH. cbn in H. lia.
Qed.

Lemma newnode_info : forall cc T j x, info_eq (newnode cc T j x) x.
Proof.
  intros cc T j x. unfold newnode. destruct (new_offsets _ _ x) as [a b].
  eapply info_eq_trans; apply info_eq_setf; left; unfold F_oa, F_ob, N_info; lia.
Qed.

(** * the leaves and their t_1 *)
Definition leaf_w (t : tree) : Z := if leafish t then t_t1 (tdata t) else 0.
Definition zsum (g : tree -> Z) (ents : list entry) : Z := fold_right (fun e a => g (snd e) + a) 0 ents.

Lemma zsum_app : forall g a b, zsum g (a ++ b) = zsum g a + zsum g b.
Proof.
  intros g a b. induction a as [|e a IH]; [reflexivity|]. cbn [app zsum fold_right]. fold (zsum g (a ++ b)).
  fold (zsum g a). rewrite IH. lia.
Qed.

Lemma zsum_cons : forall g e r, zsum g (e :: r) = g (snd e) + zsum g r.
Proof. reflexivity. Qed.

Lemma zsum_sub_entries_cons : forall g x r i q,
  zsum g (sub_entries (x :: r) i q) = zsum g (all_entries x i q) + zsum g (sub_entries r (S i) (q + desc x)).
Proof.
  intros g x r i q. unfold sub_entries, all_entries. cbn [heads tails].
  rewrite ?zsum_app, ?zsum_cons, ?zsum_app. cbn [snd]. lia.
Qed.

Section LS.
  Variable f : tree -> Z.
  Fixpoint sum_list (l : list tree) : Z := match l with [] => 0 | c :: r => f c + sum_list r end.
End LS.

(** sum of t_1 over the leaves of a tree *)
Fixpoint leafsum (t : tree) : Z :=
  match t with
  | Leaf d => t_t1 d
  | Create d c => t_t1 d + leafsum c
  | Sub d [] => t_t1 d
  | Sub d cs => sum_list (fun c => leafsum c) cs
  end.

Lemma zsum_leaf_list : forall l, Forall (fun t => forall i p, zsum leaf_w (all_entries t i p) = leafsum t) l ->
  forall i q, zsum leaf_w (sub_entries l i q) = sum_list (fun c => leafsum c) l.
Proof.
  intros l H. induction H as [|c r Hc _ IHr]; intros i q; [reflexivity|].
  rewrite zsum_sub_entries_cons, Hc, IHr. reflexivity.
Qed.

Lemma zsum_leaf : forall t i p, zsum leaf_w (all_entries t i p) = leafsum t.
Proof.
  induction t as [d | d c IH | d cs IH] using tree_ind2; intros i p.
  - cbn. unfold leaf_w. cbn. lia.
  - rewrite all_entries_Create, zsum_cons, IH. unfold leaf_w. cbn [snd leafish tdata leafsum]. reflexivity.
  - rewrite all_entries_Sub, zsum_cons. cbn [snd]. rewrite (zsum_leaf_list cs IH).
    destruct cs as [|c r]; unfold leaf_w; cbn [leafish tdata leafsum sum_list]; lia.
Qed.

(** consistency of t_1 gives: the leaves add up to the weight of the tree *)
Lemma t1_ok_Sub : forall d c r, t1_ok (Sub d (c :: r)) = true ->
  t_t1 d = sum_list t1_w (c :: r) /\ forallb t1_ok (c :: r) = true.
Proof.
  intros d c r H. cbn [t1_ok] in H. apply andb_prop in H. destruct H as [H1 H2]. apply Z.eqb_eq in H1.
  split; [|exact H2]. rewrite H1. clear. generalize (c :: r). induction l as [|a l IH]; [reflexivity|].
  cbn [fold_right sum_list]. now rewrite IH.
Qed.

Lemma leafsum_ok_list : forall l, Forall (fun t => t1_ok t = true -> leafsum t = t1_w t) l ->
  forallb t1_ok l = true -> sum_list (fun c => leafsum c) l = sum_list t1_w l.
Proof.
  intros l H. induction H as [|c r Hc _ IHr]; intros Ho; [reflexivity|].
  cbn [forallb] in Ho. apply andb_prop in Ho. destruct Ho as [A B]. cbn [sum_list]. now rewrite (Hc A), (IHr B).
Qed.

Lemma leafsum_ok : forall t, t1_ok t = true -> wf_tree t = true -> leafsum t = t1_w t.
Proof.
  induction t as [d | d c IH | d cs IH] using tree_ind2; intros Ho Hw.
  - reflexivity.
  - cbn [leafsum t1_w]. cbn [t1_ok] in Ho.
    pose proof (wf_tree_Create_sub _ _ Hw) as Hsub. apply wf_tree_Create in Hw. destruct Hw as (_ & _ & Hwc).
    rewrite (IH Ho Hwc). destruct c; try discriminate Hsub. reflexivity.
  - destruct cs as [|c r]; [reflexivity|].
    destruct (t1_ok_Sub _ _ _ Ho) as [H1 H2].
    apply wf_tree_Sub in Hw. destruct Hw as (_ & _ & _ & _ & Hall).
    change (leafsum (Sub d (c :: r))) with (sum_list (fun c => leafsum c) (c :: r)).
    cbn [t1_w tdata]. rewrite H1. apply leafsum_ok_list; [|exact H2].
    apply Forall_forall. intros x Hx Hox. rewrite Forall_forall in IH. apply IH; [exact Hx | exact Hox|].
    unfold all_wf in Hall. rewrite forallb_forall in Hall. now apply Hall.
Qed.

(** * the array side *)
Lemma Forall2_of_nth : forall (A B : Type) (R : A -> B -> Prop) l l', length l = length l' ->
  (forall i a b, nth_error l i = Some a -> nth_error l' i = Some b -> R a b) -> Forall2 R l l'.
Proof.
  intros A B R l. induction l as [|a l IH]; intros [|b l'] Hl H; try discriminate; constructor.
  - apply (H O); reflexivity.
  - apply IH; [cbn in Hl; lia|]. intros i x y Hx Hy. apply (H (S i)); assumption.
Qed.

Lemma leaf_node_of_leafish : forall x s i p, node_ok x s i p -> leaf_node x = leafish s.
Proof.
  intros x s i p (_ & _ & Hsh). unfold leaf_node. destruct s as [d | d c | d cs].
  - destruct Hsh as [Hs _]. now rewrite Hs.
  - destruct Hsh as (_ & Hs & _). now rewrite Hs.
  - destruct Hsh as (Hs & _ & Ho). rewrite Hs. cbn [andb leafish]. destruct cs as [|c r].
    + apply negb_true_iff. apply Z.ltb_ge. lia.
    + destruct Ho as [Ha Hb]. apply negb_false_iff. apply Z.ltb_lt. cbn [length] in Hb. lia.
Qed.

Theorem leaf_t1_sum_lay : forall T t, lay T t 0 1 -> length T = size t -> leaf_t1_sum T = leafsum t.
Proof.
  intros T t HL Hlen. rewrite <- (zsum_leaf t 0 1). change (all_entries t 0 1) with (entries t).
  assert (HF : Forall2 (fun x e => node_ok x (snd e) (eidx e) (eblk e)) T (entries t)).
  { apply Forall2_of_nth; [now rewrite entries_length|]. intros i x e Hx He.
    destruct (node_entry T t i x HL Hlen Hx) as (e' & He' & Hidx & _ & Hok).
    destruct (entry_at t i) as (e2 & He2 & Hi2); [rewrite <- Hlen; apply nth_error_Some; congruence|].
    pose proof (eq_trans (eq_sym He) He2) as Heq. injection Heq as <-.
    assert (e' = e).
    { apply In_nth_error in He'. destruct He' as (k & Hk).
      destruct (entry_at t k) as (e3 & He3 & Hi3); [rewrite <- entries_length; apply nth_error_Some; congruence|].
      pose proof (eq_trans (eq_sym Hk) He3) as Heq. injection Heq as <-. rewrite Hidx in Hi3. subst k.
      pose proof (eq_trans (eq_sym He) Hk) as Heq. now injection Heq. }
    subst e'. now rewrite Hi2. }
  clear HL Hlen. unfold leaf_t1_sum. generalize dependent (entries t). intros ents HF.
  induction HF as [|x e T' ents' Hxe _ IH]; [reflexivity|].
  cbn [fold_right]. rewrite zsum_cons, <- IH. unfold leaf_w.
  rewrite (leaf_node_of_leafish _ _ _ _ Hxe). destruct Hxe as (_ & (_ & _ & Ht) & _). rewrite Ht.
  destruct (leafish (snd e)); reflexivity.
Qed.

(** * pruning keeps the consistency *)
Section T1Prune.
  Variable cc : node -> bool.
  Variable T : list node.
  Notation pt := (ptree cc T).
  Notation pts := (ptree_list (fun c i' q' => ptree cc T c i' q')).

  Lemma t1_w_ptree : forall t i p, t1_w (pt t i p) = t1_w t.
  Proof.
    intros t i p. destruct t as [d | d c | d cs]; cbn [ptree t1_w tdata]; try reflexivity.
    - now rewrite tdata_ptree.
    - destruct (ccT cc T i); reflexivity.
  Qed.

  Lemma sum_w_pts : forall l i q, sum_list t1_w (pts l i q) = sum_list t1_w l.
  Proof. induction l as [|c r IH]; intros i q; [reflexivity|]. cbn [ptree_list sum_list]. now rewrite t1_w_ptree, IH. Qed.

  Lemma t1_ok_Sub_intro : forall d cs,
    match cs with [] => True | _ :: _ => t_t1 d = sum_list t1_w cs end -> forallb t1_ok cs = true -> t1_ok (Sub d cs) = true.
  Proof.
    intros d cs H1 H2. cbn [t1_ok]. apply andb_true_intro. split; [|exact H2].
    destruct cs as [|c r]; [reflexivity|]. apply Z.eqb_eq. rewrite H1. generalize (c :: r). clear.
    induction l as [|a l IH]; [reflexivity|]. cbn [fold_right sum_list]. now rewrite IH.
  Qed.

  Lemma t1_ok_ptree : forall t i p, t1_ok t = true -> t1_ok (pt t i p) = true.
  Proof.
    induction t as [d | d c IH | d cs IH] using tree_ind2; intros i p Ho.
    - exact Ho.
    - cbn [ptree t1_ok] in *. now apply IH.
    - cbn [ptree]. destruct (ccT cc T i); [|reflexivity].
      destruct cs as [|c r]; [reflexivity|]. destruct (t1_ok_Sub _ _ _ Ho) as [H1 H2].
      apply t1_ok_Sub_intro.
      + cbn [ptree_list]. change (sum_list t1_w (pt c p (p + length (c :: r)) :: pts r (S p) (p + length (c :: r) + desc c)))
          with (sum_list t1_w (pts (c :: r) p (p + length (c :: r)))). now rewrite sum_w_pts.
      + clear H1 Ho. revert H2. generalize p at 1. generalize (p + length (c :: r))%nat.
        induction IH as [|a l Ha _ IHl]; intros q i0 H2; [reflexivity|].
        cbn [forallb] in H2. apply andb_prop in H2. destruct H2 as [A B].
        cbn [ptree_list forallb]. now rewrite (Ha _ _ A), IHl.
  Qed.
End T1Prune.

(** * the theorem *)
Theorem shrink_totals : forall cc hdr ptr sc nw t G,
  wf_root t = true -> make_pi_dag hdr ptr sc nw t = Ok G ->
  exists G' x0 y0,
    copy_pi_dag cc hdr ptr G = Ok G' /\ dag_wf G' /\ gsc G' = gsc G /\ gnw G' = gnw G /\
    nth_error (gT G) 0 = Some x0 /\ nth_error (gT G') 0 = Some y0 /\ info_eq y0 x0 /\
    (t1_ok t = true -> leaf_t1_sum (gT G) = getf F_t1 x0 /\ leaf_t1_sum (gT G') = getf F_t1 y0).
Proof.
  intros cc hdr ptr sc nw t G Hroot HG.
  destruct (flatten_wf hdr ptr sc nw t Hroot) as (G0 & HG0 & _ & Hflat & _). rewrite HG in HG0. injection HG0 as <-.
  destruct (shrink_ok cc hdr ptr t G Hroot Hflat) as (G' & HG' & Hwf' & Hflat' & Hsc & Hnw & ps & Hps & Hpl).
  destruct Hflat as (HL & Hlen & HN & _). destruct Hflat' as (HL' & Hlen' & _ & _).
  destruct (wf_root_inv t Hroot) as (Hw & d & cs & Ht & _).
  destruct (lay_node _ _ _ _ HL) as (x0 & Hx0 & Hok0). destruct (lay_node _ _ _ _ HL') as (y0 & Hy0 & Hok0').
  exists G', x0, y0. repeat (split; [assumption|]). split.
  - (* the root of the copy *)
    set (KL := kflags_all cc (gT G) t).
    pose proof (klay_all cc (gT G) t) as HK. fold KL in HK.
    assert (HKlen : length KL = length (gT G)) by (unfold KL; now rewrite kflags_all_length, Hlen).
    pose proof (T0'_eq cc (gT G) (gS G)) as HeqT.
    destruct (copy_nodes_nth cc (gT G) t HL Hlen KL HK HKlen (gS G) (gT G) 0%nat 0%nat x0 ltac:(lia) ltac:(lia))
      as (fs & fe & Hc); [exact Hx0 | exact (klay_flag _ _ _ _ _ _ _ HK)|].
    change (Z.of_nat 0) with 0 in Hc. cbn [Nat.sub] in Hc. rewrite cnt_in_0 in Hc.
    pose proof (intern_all_info (copy_nodes (gS G) (fst (prune_map cc (gT G))) (gT G) 0) []) as HI.
    destruct (Forall2_nth_r _ _ _ _ _ _ _ HI Hc) as (z & Hz & Hzi). rewrite <- HeqT in Hz. cbn [fst] in Hzi.
    pose proof (set_ptrs_info _ _ Hpl) as HS. rewrite <- Hps in HS.
    destruct (Forall2_nth_r _ _ _ _ _ _ _ HS Hz) as (y & Hy & Hyi). rewrite Hy0 in Hy. injection Hy as <-.
    eapply info_eq_trans; [exact Hyi|]. eapply info_eq_trans; [exact Hzi|]. apply newnode_info.
  - intros Ho.
    rewrite (leaf_t1_sum_lay _ _ HL Hlen), (leaf_t1_sum_lay _ _ HL' Hlen').
    rewrite (leafsum_ok t Ho Hw).
    rewrite (leafsum_ok _ (t1_ok_ptree cc (gT G) t 0 1 Ho) (wf_ptree cc (gT G) t 0%nat 1%nat Hw)), t1_w_ptree.
    destruct Hok0 as (_ & (_ & _ & H1) & _). destruct Hok0' as (_ & (_ & _ & H1') & _).
    rewrite H1, H1', tdata_ptree. subst t. cbn [t1_w tdata]. split; reflexivity.
Qed.
